#!/bin/bash
# Build the Lean project (models, proofs, property theorems, driver) and the proof audit.
set -e
cd "$(dirname "$0")"
/venv/bin/python - <<'P'
import sys
sys.path.insert(0, ".")
from harness.common import ensure_built
decls = ensure_built(force=True)
print("built;", sum(1 for d in decls.values() if d["kind"] == "theorem"), "property theorems audited")
from harness.common import ensure_gen
gen = ensure_gen()
print("translated from /repo:", ", ".join(f"{fn} ({'tie checked' if st['ok'] else st['stage'] + ' BROKEN'})" for fn, st in gen.items()))
P

#!/venv/bin/python
"""Regenerate MANIFEST.json from the table below (keeps it valid and consistent)."""
import json, os
HERE = os.path.dirname(os.path.abspath(__file__))
props = [json.loads(l) for l in open(os.path.join(HERE, "properties.jsonl"))]
CLAIMS = json.load(open(os.path.join(HERE, "claims.json")))
checks, na = [], []
for p in props:
    pid = p["id"]
    c = CLAIMS.get(pid)
    if not c or c.get("not_applicable"):
        na.append({"property_id": pid, "reason": (c or {}).get("not_applicable", "check not built yet in this round; see DESIGN.md §12 build order")})
        continue
    checks.append({
        "property_id": pid,
        "quick_cmd": f"./check {pid} --tier quick",
        "thorough_cmd": f"./check {pid} --tier thorough",
        "evidence_file": f"evidence/{pid}.json",
        "replay_cmd_template": f"./check {pid} --replay {{path}}",
        "engine": "lean4-proof+correspondence",
        "level_claimed": {"category": "proof", "text": c["text"], "design_ref": c.get("design_ref", "DESIGN.md §8")},
        "level_note": c["note"],
        "technique": c.get("technique", "Lean 4 theorems about a hand-written model + differential correspondence check against the Python implementation"),
    })
manifest = {
    "version": 1,
    "setup_cmd": "./setup.sh",
    "hooks": {
        "guard": "TORRENTFILE_VERIF",
        "enable": "no hooks in /repo are needed: all instrumentation (audit hooks, module attribute patching) lives in the harness process; the variable is set by the harness but read by nothing in /repo",
        "baseline_off_cmd": "cd /repo && env -u TORRENTFILE_VERIF /venv/bin/python -m pytest -ra -q -p no:cacheprovider --timeout=900 --continue-on-collection-errors",
        "source_commits": [],
        "add_only": True,
    },
    "engines": [{
        "name": "lean4-proof+correspondence",
        "path": "lean/ (model, proofs, property theorems, driver) + harness/ (correspondence, oracle, evidence)",
        "serves_properties": [c["property_id"] for c in checks],
        "kind_free_text": "machine-checked proof in Lean 4 about a hand-written executable model; the model is tied to /repo's current source on every run by a differential correspondence check (implementation vs Impl model vs Spec); five pure helpers are additionally translated from the current source to Lean on every run and proved equal to the model (harness/pytrans.py, lean/Gen)",
    }],
    "checks": checks,
    "not_applicable": na,
    "notes": "See DESIGN.md. Exit 2 of a check means the machinery is broken (build/audit/spec cross-check), never a verdict about /repo.",
}
json.dump(manifest, open(os.path.join(HERE, "MANIFEST.json"), "w"), indent=1)
print(len(checks), "checks,", len(na), "not_applicable")

import Lean
import TorrentVerif
/-
  Proof audit: for every declaration in a namespace `TorrentVerif.Props.Cxx` print its kind
  and the axioms it depends on.  The checks read this to count obligations / discharged.
-/
open Lean Elab Command

def auditKind (c : ConstantInfo) : String :=
  match c with
  | .thmInfo _ => "theorem"
  | .defnInfo _ => "def"
  | .axiomInfo _ => "axiom"
  | .opaqueInfo _ => "opaque"
  | _ => "other"

elab "#audit_props" : command => do
  let env ← getEnv
  let pre := `TorrentVerif.Props
  let mut names : Array Name := #[]
  for (n, _) in env.constants.map₁.toList do
    if pre.isPrefixOf n && !n.isInternalDetail then names := names.push n
  for (n, _) in env.constants.map₂.toList do
    if pre.isPrefixOf n && !n.isInternalDetail then names := names.push n
  for n in names.qsort (fun a b => a.toString < b.toString) do
    let some c := env.find? n | continue
    let axs ← liftCoreM (collectAxioms n)
    let axs := axs.qsort (fun a b => a.toString < b.toString)
    IO.println s!"AUDIT {n} {auditKind c} {",".intercalate (axs.toList.map toString)}"

#audit_props

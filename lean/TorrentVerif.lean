import TorrentVerif.Model.Basic
import TorrentVerif.Model.HasherV1
import TorrentVerif.Model.Merkle
import TorrentVerif.Props.C01

import Driver.Util
import TorrentVerif.Model.PieceLength
import TorrentVerif.Model.Effects
import TorrentVerif.Model.Options
/-
  Driver commands of group G5 (C12 piece length, C20 option routing, C17/C18 effects).

  npl i <decimal int, may be negative>   Impl.normalizeInt            → `ok <n>` | `err`
  npl s <hex of utf-8 string, - = empty> Impl.normalizeStr            → same
  nplspec i <int>                        Spec.accepted (oracle)       → `ok <n>` | `err`
  gpl <size>                             Impl.getPieceLength          → `<n>`
  gplspec <size>                         Spec.autoPieceLength         → `<n>`
  rpl <none|i:<int>|s:<hex>|o:<0|1>> <content size>
                                         Impl.recordedPieceLength     → `ok <n>` | `err`

  editcrash <crashpoint> <prefixlen> <old-hex> <new-hex>
        crashState of Impl.editOps on the filesystem {m ↦ old, x ↦ "bystander"}; answer: what the
        metafile path holds, then the `.part` file, then the bystander:
        `<old|new|missing|other:<hex>> <part:absent|part:<hex>> <by:ok|by:changed>`
  editerror <opindex> <prefixlen> <old-hex> <new-hex|none>
        errorState (operation <opindex> raises, after <prefixlen> bytes if it is the write; then
        the finally clause); `none` = the encoder raises; same answer format as editcrash
  editcrashold <crashpoint> <prefixlen> <old-hex> <new-hex>    same for the pre-fix order
  editcrashl <crashpoint> <prefixlen> <old-hex> <new-hex> <leftover-hex|none>
  editerrorl <opindex> <prefixlen> <old-hex> <new-hex|none> <leftover-hex|none>
        the same two for Impl.editOpsFrom on the filesystem {m ↦ old, m.part ↦ leftover, x ↦ "bystander"}
        (`none` = no leftover: then identical to editcrash / editerror; `-` = an empty leftover file);
        with a leftover the operation indices are 0 load, 1 remove leftover, 2 open, 3 write, 4 replace;
        editerrorl uses Impl.editError (an error in the load, index 0, skips the finally clause)
  ops editl <metafile-hex> <0|1: encodable> <0|1: leftover .part exists>     Impl.editOpsFrom
  ops edit <metafile-hex> <0|1: encodable>                    Impl.editOps, rendered (see below)
  ops create <outfile-hex|none> <cwd-hex> <name-hex> <0|1: probe path exists> <payload path hex>...
  ops rename <target-hex> <newpath-hex> <0|1: target exists> <0|1: newpath exists>
        → op list or `err:notfound` / `err:exists`
  ops recheck|info|magnet <metafile-hex> <payload path hex>...
        operation rendering, space separated: `read:<p>` `create:<p>` `write:<p>` `touch:<p>`
        `replace:<src>:<dst>` `remove:<p>` with paths in hex; empty list = `-`

  argparse <token-hex>...          Impl.argparse Impl.createTable, then Impl.toKwargs
        → `kw <record>` | `err` (argparse exits with an error) | `unsupported` (token class outside the model)
  parseconfig <key-hex>=<value-hex>... [@ <token-hex>...]
        Impl.parseConfig on top of the namespace of the tokens after `@` (none = defaults) → same
  clirec <existing path hex, comma separated | -> <token-hex>...
        argparse → toKwargs → Impl.metaInit with `exists p := p ∈ list`
        → `kw <record>` | `err` | `unsupported` | `err:missingpath` | `err:typeerror`
  cfgrec <existing,…|-> <key-hex>=<value-hex>... @ <token-hex>...     same through parseConfig
  fields <content size> <cwd-hex> <name-hex> <existing,…|-> <token-hex>...
        … → Impl.fields → `<field-hex>=<value> ...` | `err:piecelength` | (errors as above)
  tableok p:<dest-hex> o:<dest-hex>:<0|1|+>:<default value>:<choice-hex,…|->:<flag-hex,…> ...
        Impl.tableOK on the transmitted table → `ok same` | `ok differs` | `fail same|differs`
        (`same` = equal to the built-in Impl.createTable)
        record rendering (one line, fixed order):
          path=<v> content=<v> announce=<v> url_list=<v> httpseeds=<v> private=<v> source=<v>
          comment=<v> piece_length=<v> meta_version=<v> outfile=<v> align=<v>
        value rendering <v>: `N` (None) | `T` | `F` | `s:<hex>` | `l:<hex>,<hex>…` (`l:` = [])
        field values: `i:<int>` | <v> | `t:<v>;<v>…` (list of tiers)
-/
open TorrentVerif Drv

namespace DrvG5

def plRes : Except PLErr Nat → String
  | .ok n => s!"ok {n}"
  | .error .pieceLength => "err"

def intTok (s : String) : Except String Int :=
  match s.toInt? with | some n => .ok n | none => .error s!"bad-int:{s}"

def strTok (s : String) : Except String String :=
  match bytesOfHex s with
  | none => .error s!"bad-hex:{s}"
  | some b => match String.fromUTF8? (toBA b) with
    | some t => .ok t
    | none => .error s!"bad-utf8:{s}"

def plArgTok (s : String) : Except String PLArg :=
  if s = "none" then .ok .none
  else match s.splitOn ":" with
    | ["i", v] => do .ok (.int (← intTok v))
    | ["s", v] => do .ok (.str (← strTok v).toList)
    | ["o", "0"] => .ok (.other false)
    | ["o", "1"] => .ok (.other true)
    | _ => .error s!"bad-plarg:{s}"

def hexStr (s : String) : String := hexOfBytes s.toUTF8.toList

def opStr : Op → String
  | .read p => s!"read:{hexStr p}"
  | .create p => s!"create:{hexStr p}"
  | .write p _ => s!"write:{hexStr p}"
  | .touch p => s!"touch:{hexStr p}"
  | .replace a b => s!"replace:{hexStr a}:{hexStr b}"
  | .remove p => s!"remove:{hexStr p}"

def opsStr (l : List Op) : String := if l.isEmpty then "-" else " ".intercalate (l.map opStr)

def hexTok (s : String) : Except String Bytes :=
  match bytesOfHex s with | some b => .ok b | none => .error s!"bad-hex:{s}"

def bystander : Bytes := "bystander".toUTF8.toList

def editView (old new : Bytes) : Option FS → String
  | none => "stuck"
  | some s =>
    let a := match s.get "m" with
      | none => "missing"
      | some c => if c = old then "old" else if c = new then "new" else s!"other:{hexOfBytes c}"
    let b := match s.get (Impl.partPath "m") with
      | none => "part:absent"
      | some c => s!"part:{hexOfBytes c}"
    let c := if s.get "x" = some bystander then "by:ok" else "by:changed"
    s!"{a} {b} {c}"

def valStr : Val → String
  | .none => "N"
  | .bool true => "T"
  | .bool false => "F"
  | .str s => s!"s:{hexStr s}"
  | .list l => "l:" ++ ",".intercalate (l.map hexStr)

def kwStr (k : Kwargs) : String :=
  s!"path={valStr k.path} content={valStr k.content} announce={valStr k.announce} " ++
  s!"url_list={valStr k.urlList} httpseeds={valStr k.httpseeds} private={valStr k.private_} " ++
  s!"source={valStr k.source} comment={valStr k.comment} piece_length={valStr k.pieceLength} " ++
  s!"meta_version={valStr k.metaVersion} outfile={valStr k.outfile} align={valStr k.align}"

def fvStr : Impl.FieldVal → String
  | .int i => s!"i:{i}"
  | .val v => valStr v
  | .tiers l => "t:" ++ ";".intercalate (l.map valStr)

def argErrStr : ArgErr → String
  | .unsupported => "unsupported"
  | _ => "err"

def metaErrStr : MetaErr → String
  | .missingPath => "err:missingpath"
  | .typeError => "err:typeerror"
  | .pieceLength => "err:piecelength"

def pairTok (s : String) : Except String (String × String) :=
  match s.splitOn "=" with
  | [k, v] => do .ok ((← strTok k), (← strTok v))
  | _ => .error s!"bad-pair:{s}"

def existsTok (s : String) : Except String (String → Bool) :=
  if s = "-" then .ok (fun _ => false)
  else do
    let l ← (s.splitOn ",").mapM strTok
    .ok (fun p => l.contains p)

def splitAt (l : List String) : List String × List String :=
  (l.takeWhile (· ≠ "@"), (l.dropWhile (· ≠ "@")).drop 1)

/-- namespace → record → metaInit, rendered -/
def recOf (ex : String → Bool) (r : Except ArgErr Namespace) : String :=
  match r with
  | .error e => argErrStr e
  | .ok ns => match Impl.metaInit ex (Impl.toKwargs ns) with
    | .error e => metaErrStr e
    | .ok k => s!"kw {kwStr k}"

def valTok (s : String) : Except String Val :=
  if s = "N" then .ok .none else if s = "T" then .ok (.bool true) else if s = "F" then .ok (.bool false)
  else match s.toList with
    | 's' :: ':' :: r => do .ok (.str (← strTok (String.ofList r)))
    | 'l' :: ':' :: r =>
      if r.isEmpty then .ok (.list []) else do .ok (.list (← ((String.ofList r).splitOn ",").mapM strTok))
    | _ => .error s!"bad-val:{s}"

def hexList (s : String) : Except String (List String) :=
  if s = "-" then .ok [] else (s.splitOn ",").mapM strTok

def tableTok (toks : List String) : Except String Table := do
  let mut opts : List OptSpec := []
  let mut pos : String := ""
  for t in toks do
    match t.splitOn ":" with
    | ["p", d] => pos ← strTok d
    | "o" :: d :: n :: rest =>
      -- the default value may itself contain one ':' (s:<hex>, l:<hex>)
      let (dv, ch, fl) ← match rest with
        | [a, c, f] => pure (a, c, f)
        | [a, b, c, f] => pure (a ++ ":" ++ b, c, f)
        | _ => throw s!"bad-opt:{t}"
      let n ← match n with
        | "0" => pure Nargs.zero | "1" => pure Nargs.one | "+" => pure Nargs.plus
        | _ => throw s!"bad-nargs:{t}"
      opts := opts ++ [⟨← hexList fl, ← strTok d, n, ← valTok dv, ← hexList ch⟩]
    | _ => throw s!"bad-table-token:{t}"
  return ⟨opts, pos⟩

def bit (s : String) : Except String Bool :=
  if s = "1" then .ok true else if s = "0" then .ok false else .error s!"bad-bit:{s}"

end DrvG5

open DrvG5 in
def handleG5 : List String → Option (Except String String)
  | ["npl", "i", v] => some do
    let n ← intTok v
    .ok (plRes (Impl.normalizeInt n))
  | ["npl", "s", v] => some do
    let s ← strTok v
    .ok (plRes (Impl.normalizeStr s.toList))
  | ["nplspec", "i", v] => some do
    let n ← intTok v
    .ok (match Spec.accepted n with | some r => s!"ok {r}" | none => "err")
  | ["gpl", v] => some do
    let n ← natTok v
    .ok (toString (Impl.getPieceLength n))
  | ["gplspec", v] => some do
    let n ← natTok v
    .ok (toString (Spec.autoPieceLength n))
  | ["rpl", a, sz] => some do
    let a ← plArgTok a
    let n ← natTok sz
    .ok (plRes (Impl.recordedPieceLength a n))
  | ["editcrash", c, k, o, n] => some do
    let c ← natTok c; let k ← natTok k; let o ← hexTok o; let n ← hexTok n
    .ok (editView o n (crashState [("m", o), ("x", bystander)] (Impl.editOps "m" (some n)) c k))
  | ["editcrashold", c, k, o, n] => some do
    let c ← natTok c; let k ← natTok k; let o ← hexTok o; let n ← hexTok n
    .ok (editView o n (crashState [("m", o), ("x", bystander)] (Impl.editOpsOld "m" n) c k))
  | ["editerror", i, k, o, n] => some do
    let i ← natTok i; let k ← natTok k; let o ← hexTok o
    let n ← if n = "none" then pure none else (do pure (some (← hexTok n)))
    .ok (editView o (n.getD []) (errorState [("m", o), ("x", bystander)] (Impl.editOps "m" n)
      (Impl.editFinally "m") i k))
  | ["editcrashl", c, k, o, n, l] => some do
    let c ← natTok c; let k ← natTok k; let o ← hexTok o; let n ← hexTok n
    let fs : FS ← if l = "none" then pure [("m", o), ("x", bystander)]
      else (do pure [("m", o), (Impl.partPath "m", ← hexTok l), ("x", bystander)])
    .ok (editView o n (crashState fs (Impl.editOpsFrom fs "m" (some n)) c k))
  | ["editerrorl", i, k, o, n, l] => some do
    let i ← natTok i; let k ← natTok k; let o ← hexTok o
    let n ← if n = "none" then pure none else (do pure (some (← hexTok n)))
    let fs : FS ← if l = "none" then pure [("m", o), ("x", bystander)]
      else (do pure [("m", o), (Impl.partPath "m", ← hexTok l), ("x", bystander)])
    .ok (editView o (n.getD []) (Impl.editError fs "m" n i k))
  | ["ops", "editl", mf, e, l] => some do
    let mf ← strTok mf; let e ← bit e; let l ← bit l
    let fs : FS := if l then [(Impl.partPath mf, [])] else []
    .ok (opsStr (Impl.editOpsFrom fs mf (if e then some [] else none)))
  | ["ops", "edit", mf, e] => some do
    let mf ← strTok mf; let e ← bit e
    .ok (opsStr (Impl.editOps mf (if e then some [] else none)))
  | "ops" :: "create" :: out :: cwd :: name :: ex :: payload => some do
    let out ← if out = "none" then pure none else (do pure (some (← strTok out)))
    let cwd ← strTok cwd; let name ← strTok name; let ex ← bit ex
    let payload ← payload.mapM strTok
    let fs : FS := payload.map (fun p => (p, []))
    let fs := if ex then fs.set (Impl.probePath (Impl.probeArg out cwd)) [] else fs
    .ok (opsStr (Impl.createOps fs out cwd name payload []))
  | ["ops", "rename", t, n, te, ne] => some do
    let t ← strTok t; let n ← strTok n; let te ← bit te; let ne ← bit ne
    let fs : FS := (if te then [(t, [])] else []) ++ (if ne then [(n, [])] else [])
    .ok (match Impl.renameOps fs t n with
      | .ok l => opsStr l
      | .error .notFound => "err:notfound"
      | .error .exists => "err:exists"
      | .error .badName => "err:badname")
  | "ops" :: "recheck" :: mf :: payload => some do
    let mf ← strTok mf; let payload ← payload.mapM strTok
    .ok (opsStr (Impl.recheckOps mf payload))
  | ["ops", "info", mf] => some do .ok (opsStr (Impl.infoOps (← strTok mf)))
  | ["ops", "magnet", mf] => some do .ok (opsStr (Impl.magnetOps (← strTok mf)))
  | "argparse" :: toks => some do
    let toks ← toks.mapM strTok
    .ok (match Impl.argparse Impl.createTable toks with
      | .error e => argErrStr e
      | .ok ns => s!"kw {kwStr (Impl.toKwargs ns)}")
  | "parseconfig" :: rest => some do
    let (ps, ts) := splitAt rest
    let ps ← ps.mapM pairTok
    let ts ← ts.mapM strTok
    .ok (match Impl.argparse Impl.createTable ts with
      | .error e => argErrStr e
      | .ok ns => s!"kw {kwStr (Impl.toKwargs (Impl.parseConfig ps ns))}")
  | "clirec" :: ex :: toks => some do
    let ex ← existsTok ex
    let toks ← toks.mapM strTok
    .ok (recOf ex (Impl.argparse Impl.createTable toks))
  | "cfgrec" :: ex :: rest => some do
    let ex ← existsTok ex
    let (ps, ts) := splitAt rest
    let ps ← ps.mapM pairTok
    let ts ← ts.mapM strTok
    .ok (recOf ex ((Impl.argparse Impl.createTable ts).map (Impl.parseConfig ps)))
  | "fields" :: sz :: cwd :: name :: ex :: toks => some do
    let sz ← natTok sz; let cwd ← strTok cwd; let name ← strTok name
    let ex ← existsTok ex
    let toks ← toks.mapM strTok
    .ok (match Impl.argparse Impl.createTable toks with
      | .error e => argErrStr e
      | .ok ns => match Impl.metaInit ex (Impl.toKwargs ns) with
        | .error e => metaErrStr e
        | .ok k => match Impl.fields k sz cwd name with
          | .error e => metaErrStr e
          | .ok fs => " ".intercalate (fs.map (fun f => s!"{hexStr f.1}={fvStr f.2}")))
  | "tableok" :: toks => some do
    let t ← tableTok toks
    let same := if t = Impl.createTable then "same" else "differs"
    .ok ((if Impl.tableOK t then "ok " else "fail ") ++ same)
  | _ => none

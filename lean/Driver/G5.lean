import Driver.Util
import TorrentVerif.Model.PieceLength
import TorrentVerif.Model.Effects
/-
  Driver commands of group G5 (C12 piece length, C20 option routing, C17/C18 effects).

  npl i <decimal int, may be negative>   Impl.normalizeInt            → `ok <n>` | `err`
  npl s <hex of utf-8 string, - = empty> Impl.normalizeStr            → same
  nplspec i <int>                        Spec.accepted (oracle)       → `ok <n>` | `err`
  gpl <size>                             Impl.getPieceLength          → `<n>`
  gplspec <size>                         Spec.autoPieceLength         → `<n>`
  rpl <none|i:<int>|s:<hex>|o:<0|1>> <content size>
                                         Impl.recordedPieceLength     → `ok <n>` | `err`

  editcrash <crashpoint> <prefixlen> <old-hex> <new-hex>
        crashState of Impl.editOps on the filesystem {m ↦ old, x ↦ "bystander"}; answer: what the
        metafile path holds, then the `.part` file, then the bystander:
        `<old|new|missing|other:<hex>> <part:absent|part:<hex>> <by:ok|by:changed>`
  editerror <opindex> <prefixlen> <old-hex> <new-hex|none>
        errorState (operation <opindex> raises, after <prefixlen> bytes if it is the write; then
        the finally clause); `none` = the encoder raises; same answer format as editcrash
  editcrashold <crashpoint> <prefixlen> <old-hex> <new-hex>    same for the pre-fix order
  ops edit <metafile-hex> <0|1: encodable>                    Impl.editOps, rendered (see below)
  ops create <outfile-hex|none> <cwd-hex> <name-hex> <0|1: probe path exists> <payload path hex>...
  ops rename <target-hex> <newpath-hex> <0|1: target exists> <0|1: newpath exists>
        → op list or `err:notfound` / `err:exists`
  ops recheck|info|magnet <metafile-hex> <payload path hex>...
        operation rendering, space separated: `read:<p>` `create:<p>` `write:<p>` `touch:<p>`
        `replace:<src>:<dst>` `remove:<p>` with paths in hex; empty list = `-`
-/
open TorrentVerif Drv

namespace DrvG5

def plRes : Except PLErr Nat → String
  | .ok n => s!"ok {n}"
  | .error .pieceLength => "err"

def intTok (s : String) : Except String Int :=
  match s.toInt? with | some n => .ok n | none => .error s!"bad-int:{s}"

def strTok (s : String) : Except String String :=
  match bytesOfHex s with
  | none => .error s!"bad-hex:{s}"
  | some b => match String.fromUTF8? (toBA b) with
    | some t => .ok t
    | none => .error s!"bad-utf8:{s}"

def plArgTok (s : String) : Except String PLArg :=
  if s = "none" then .ok .none
  else match s.splitOn ":" with
    | ["i", v] => do .ok (.int (← intTok v))
    | ["s", v] => do .ok (.str (← strTok v).toList)
    | ["o", "0"] => .ok (.other false)
    | ["o", "1"] => .ok (.other true)
    | _ => .error s!"bad-plarg:{s}"

def hexStr (s : String) : String := hexOfBytes s.toUTF8.toList

def opStr : Op → String
  | .read p => s!"read:{hexStr p}"
  | .create p => s!"create:{hexStr p}"
  | .write p _ => s!"write:{hexStr p}"
  | .touch p => s!"touch:{hexStr p}"
  | .replace a b => s!"replace:{hexStr a}:{hexStr b}"
  | .remove p => s!"remove:{hexStr p}"

def opsStr (l : List Op) : String := if l.isEmpty then "-" else " ".intercalate (l.map opStr)

def hexTok (s : String) : Except String Bytes :=
  match bytesOfHex s with | some b => .ok b | none => .error s!"bad-hex:{s}"

def bystander : Bytes := "bystander".toUTF8.toList

def editView (old new : Bytes) : Option FS → String
  | none => "stuck"
  | some s =>
    let a := match s.get "m" with
      | none => "missing"
      | some c => if c = old then "old" else if c = new then "new" else s!"other:{hexOfBytes c}"
    let b := match s.get (Impl.partPath "m") with
      | none => "part:absent"
      | some c => s!"part:{hexOfBytes c}"
    let c := if s.get "x" = some bystander then "by:ok" else "by:changed"
    s!"{a} {b} {c}"

def bit (s : String) : Except String Bool :=
  if s = "1" then .ok true else if s = "0" then .ok false else .error s!"bad-bit:{s}"

end DrvG5

open DrvG5 in
def handleG5 : List String → Option (Except String String)
  | ["npl", "i", v] => some do
    let n ← intTok v
    .ok (plRes (Impl.normalizeInt n))
  | ["npl", "s", v] => some do
    let s ← strTok v
    .ok (plRes (Impl.normalizeStr s.toList))
  | ["nplspec", "i", v] => some do
    let n ← intTok v
    .ok (match Spec.accepted n with | some r => s!"ok {r}" | none => "err")
  | ["gpl", v] => some do
    let n ← natTok v
    .ok (toString (Impl.getPieceLength n))
  | ["gplspec", v] => some do
    let n ← natTok v
    .ok (toString (Spec.autoPieceLength n))
  | ["rpl", a, sz] => some do
    let a ← plArgTok a
    let n ← natTok sz
    .ok (plRes (Impl.recordedPieceLength a n))
  | ["editcrash", c, k, o, n] => some do
    let c ← natTok c; let k ← natTok k; let o ← hexTok o; let n ← hexTok n
    .ok (editView o n (crashState [("m", o), ("x", bystander)] (Impl.editOps "m" (some n)) c k))
  | ["editcrashold", c, k, o, n] => some do
    let c ← natTok c; let k ← natTok k; let o ← hexTok o; let n ← hexTok n
    .ok (editView o n (crashState [("m", o), ("x", bystander)] (Impl.editOpsOld "m" n) c k))
  | ["editerror", i, k, o, n] => some do
    let i ← natTok i; let k ← natTok k; let o ← hexTok o
    let n ← if n = "none" then pure none else (do pure (some (← hexTok n)))
    .ok (editView o (n.getD []) (errorState [("m", o), ("x", bystander)] (Impl.editOps "m" n)
      (Impl.editFinally "m") i k))
  | ["ops", "edit", mf, e] => some do
    let mf ← strTok mf; let e ← bit e
    .ok (opsStr (Impl.editOps mf (if e then some [] else none)))
  | "ops" :: "create" :: out :: cwd :: name :: ex :: payload => some do
    let out ← if out = "none" then pure none else (do pure (some (← strTok out)))
    let cwd ← strTok cwd; let name ← strTok name; let ex ← bit ex
    let payload ← payload.mapM strTok
    let fs : FS := payload.map (fun p => (p, []))
    let fs := if ex then fs.set (Impl.probePath (Impl.probeArg out cwd)) [] else fs
    .ok (opsStr (Impl.createOps fs out cwd name payload []))
  | ["ops", "rename", t, n, te, ne] => some do
    let t ← strTok t; let n ← strTok n; let te ← bit te; let ne ← bit ne
    let fs : FS := (if te then [(t, [])] else []) ++ (if ne then [(n, [])] else [])
    .ok (match Impl.renameOps fs t n with
      | .ok l => opsStr l
      | .error .notFound => "err:notfound"
      | .error .exists => "err:exists")
  | "ops" :: "recheck" :: mf :: payload => some do
    let mf ← strTok mf; let payload ← payload.mapM strTok
    .ok (opsStr (Impl.recheckOps mf payload))
  | ["ops", "info", mf] => some do .ok (opsStr (Impl.infoOps (← strTok mf)))
  | ["ops", "magnet", mf] => some do .ok (opsStr (Impl.magnetOps (← strTok mf)))
  | _ => none

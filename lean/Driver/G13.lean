import Driver.Util
import Driver.G4
import Driver.G11
import TorrentVerif.Model.RenameName
import TorrentVerif.Model.ExtractPrune
/-
  Driver commands of group G13 (`Props/C18.rename_stays_in_directory` …, `Props/C14.
  extract_skips_empty_directories`).

    renametarget <target-hex> <name-hex>
        `Impl.renameTarget`: `new_path` of `torrentfile.commands.rename` for the metafile at the path
        `target` (UTF-8 bytes of the path string) whose `info.name` is the byte string `name`.
        → `ok <newpath-hex>` | `err:badname` (ValueError)
    renamecmd <target-hex> <name-hex> <free|file|other|missing>
        `Impl.renameCmd` in a world where the target is a regular file (`missing`: it is not there)
        and the new path is free / a regular file / something else (directory, link).
        → `ops read:<hex> rename:<src-hex>:<dst-hex>` | `err:notfound` | `err:exists` | `err:badname`
    extractpruned <metafile-hex>
        `Impl.extractMeta` on `Impl.loads` of the bytes (a `meta version` 2 metafile), and the
        right-hand side of `extract_skips_empty_directories`: `parseTree` of the file tree WITHOUT
        its empty directories (`Spec.pruneEntries`) below `Spec.v2Partials`.
        → `<records> | <records> | <k>`: records as `extractmeta` (Driver/G11: `full:filename:len:root`
          joined by `,`, `-` if none); k = number of entries of the file tree (all depths) that
          `pruneEntries` removes.  `ERR <kind>` when the extraction fails or it is not meta version 2.
-/
open TorrentVerif TorrentVerif.Rebuild TorrentVerif.PosixPath Drv

namespace G13

def hx (b : Bytes) : String := if b.isEmpty then "-" else hexOfBytes b

def keyBytes (p : TorrentVerif.Path) : Bytes := p.toList.map fun c => UInt8.ofNat c.toNat

def errStr : Impl.RenameErr → String
  | .notFound => "err:notfound"
  | .exists => "err:exists"
  | .badName => "err:badname"

def renOpStr : TorrentVerif.Op → String
  | .read p => s!"read:{hx (keyBytes p)}"
  | .replace a b => s!"rename:{hx (keyBytes a)}:{hx (keyBytes b)}"
  | _ => "other"

mutual
def countTree : Impl.MetaTree → Nat
  | .file _ _ => 1
  | .dir es => 1 + countEntries es
def countEntries : List (Bytes × Impl.MetaTree) → Nat
  | [] => 0
  | (_, t) :: r => countTree t + countEntries r
end

end G13

open G13 G4 in
def handleG13 : List String → Option (Except String String)
  | "renametarget" :: t => some <| run (do
      let target ← hex; let name ← hex
      pure (match Impl.renameTarget target name with
        | .ok p => s!"ok {hx p}"
        | .error e => errStr e)) t
  | "renamecmd" :: t => some <| run (do
      let target ← hex; let name ← hex; let occ ← tok
      let new := match Impl.renameTarget target name with
        | .ok p => Impl.fsKey p
        | .error _ => ""
      let fs : TorrentVerif.FS := (if occ = "missing" then [] else [(Impl.fsKey target, [1])]) ++
        (if occ = "file" then [(new, [2])] else [])
      let others := if occ = "other" then [new] else []
      pure (match Impl.renameCmd fs others target name with
        | .ok ops => "ops " ++ " ".intercalate (ops.map renOpStr)
        | .error e => errStr e)) t
  | "extractpruned" :: t => some <| run (do
      let b ← hex
      match Impl.loads b with
      | none => throw "decodeError"
      | some mf =>
        match Impl.extractMeta mf with
        | .error e => throw (G11.errName e)
        | .ok m =>
          if m.metaVersion ≠ some 2 then throw "notV2" else
          let info := Impl.infoOf mf
          match dictGet info K.fileTree with
          | some (.dict tree) =>
            match Impl.toMetaEntries tree with
            | .error e => throw (G11.errName e)
            | .ok es =>
              let rhs := Impl.parseTree (Spec.v2Partials (dictHas info K.files) m.name es)
                (Spec.pruneEntries es)
              pure s!"{joinOr "," (m.files.map G11.recV2)} | {joinOr "," (rhs.map G11.recV2)} | {countEntries es - countEntries (Spec.pruneEntries es)}"
          | _ => throw "typeError") t
  | _ => none

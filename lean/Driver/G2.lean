import Driver.Util
import TorrentVerif.Model.Bencode
import TorrentVerif.Model.Meta
/-
  Driver commands of group G2 (bencode codec, metafile assembly/sorting, edit, magnet).
  Bytes travel as lowercase hex, `-` = empty. Errors: `ERR <reason>`.

  strict <hex>            → `ok` | `err`      Spec.strictDecode on raw metafile bytes
  wf <hex>                → `ok` | `err`      Spec.wfDecode (unique keys, any order, minimal numerals)
  reenc <hex>             → hex of Impl.encode (Impl.decode bytes).1      (ERR decode)
  rest <hex>              → hex of the unread rest after Impl.decode      (ERR decode)
  infospan <hex>          → hex of Spec.valueSpan "info" (raw bytes of the info value)
  sortmeta <hex>          → hex of Impl.encode (Impl.sortMeta (decode hex))   (ERR decode | ERR sortmeta)
  edit <hex> <comment> <source> <private> <announce> <url-list> <httpseeds>
                          → hex of Impl.encode of Impl.editTorrent (decode hex) req  | ERR <Err>
                            request token: `_` unnamed, `E` cleared (""), `S<hex>` string (UTF-8 bytes),
                            `L<hex>;<hex>;…` list (`L` alone = empty list, `-` = empty string element)
  cliedit <hex> <tracker> <web-seed> <http-seed> <private 0|1> <comment> <source>
                          → as `edit`, through Impl.cliEdit; list flags: `_` | `L…`; string flags: `_` | `S<hex>`
  magnet <hex> <version>  → hex of the URI of Impl.magnet with the real SHA-1 / SHA-256  | ERR <Err>
  quote <hex>             → hex of Impl.quotePlus
  unquote <hex>           → hex of Spec.unquotePlus
  qparams <uri-hex>       → Spec.queryParams: `<key hex>:<value hex>;…` in order (`-` = empty) | ERR notmagnet
  wellformed <v1|v2|hybrid> <hex> → `ok` | `err`   Spec.WellFormed of the (leniently) decoded metafile
  located <hex>           → `ok` | `err`   Spec.Located (no top-level comment/source/private key)
  split <hex>             → hex words of `splitWs` joined by `;` (`L`-token syntax without the L)
  create <kind> <createdby> <date> <announce> <comment> <private 0|1> <source> <url-list> <httpseeds>
         <piece-length> <name> <single> <files> <tree> <pieces> <layers>
                          → hex of Impl.write of the assembled value
                            kind: v1 | v2 | asm2 | hybrid; announce/url-list/httpseeds: `_` | `S<hex>` | `L…`;
                            comment/source/createdby/name/pieces: hex; single: `-` (directory) or the file length;
                            files, tree: hex of their bencoding (`-` when unused);
                            layers: `-` or `<root hex>:<layer hex>;…` in traversal order
-/
open TorrentVerif Drv

namespace G2

def splitSemi (s : String) : Except String (List Bytes) :=
  if s = "" then .ok [] else
  (s.splitOn ";").mapM fun t =>
    match bytesOfHex t with | some b => .ok b | none => .error s!"bad-hex:{t}"

def hexTok (s : String) : Except String Bytes :=
  match bytesOfHex s with | some b => .ok b | none => .error s!"bad-hex:{s}"

def evalTok (s : String) : Except String EVal :=
  match s.toList with
  | ['_'] => .ok .unnamed
  | ['E'] => .ok .cleared
  | 'S' :: r => do
    let b ← hexTok (if r.isEmpty then "-" else String.ofList r)
    .ok (.str b)
  | 'L' :: r => do
    let l ← splitSemi (String.ofList r)
    .ok (.list l)
  | _ => .error s!"bad-eval:{s}"

def slTok (s : String) : Except String SL := do
  match ← evalTok s with
  | .unnamed => .ok .none
  | .cleared => .ok (.str [])
  | .str b => .ok (.str b)
  | .list l => .ok (.list l)

def optListTok (s : String) : Except String (Option (List Bytes)) := do
  match ← evalTok s with
  | .unnamed => .ok none
  | .list l => .ok (some l)
  | _ => .error s!"bad-listflag:{s}"

def optStrTok (s : String) : Except String (Option Bytes) := do
  match ← evalTok s with
  | .unnamed => .ok none
  | .str b => .ok (some b)
  | .cleared => .ok (some [])
  | _ => .error s!"bad-strflag:{s}"

def errStr : Err → String
  | .notDict => "notDict"
  | .noInfo => "noInfo"
  | .index => "index"
  | .badValue => "badValue"

def decodeTok (s : String) : Except String BVal := do
  let b ← hexTok s
  match Impl.loads b with
  | some v => .ok v
  | none => .error "decode"

def layersTok (s : String) : Except String (List (Bytes × Bytes)) :=
  if s = "-" then .ok [] else
  (s.splitOn ";").mapM fun t =>
    match t.splitOn ":" with
    | [a, b] => do
      let x ← hexTok a
      let y ← hexTok b
      .ok (x, y)
    | _ => .error s!"bad-layer:{t}"

def outEdit (r : Except Err BVal) : Except String String :=
  match r with
  | .ok v => .ok (hexOfBytes (Impl.encode v))
  | .error e => .error (errStr e)

end G2

open G2 in
def handleG2 : List String → Option (Except String String)
  | ["strict", h] => some do
    let b ← hexTok h
    .ok (if (Spec.strictDecode b).isSome then "ok" else "err")
  | ["wf", h] => some do
    let b ← hexTok h
    .ok (if (Spec.wfDecode b).isSome then "ok" else "err")
  | ["reenc", h] => some do
    let v ← decodeTok h
    .ok (hexOfBytes (Impl.encode v))
  | ["rest", h] => some do
    let b ← hexTok h
    match Impl.decode b with
    | some (_, r) => .ok (hexOfBytes r)
    | none => .error "decode"
  | ["infospan", h] => some do
    let b ← hexTok h
    match Spec.valueSpan K.info b with
    | some s => .ok (hexOfBytes s)
    | none => .error "nospan"
  | ["sortmeta", h] => some do
    let v ← decodeTok h
    match Impl.sortMeta v with
    | some m => .ok (hexOfBytes (Impl.encode m))
    | none => .error "sortmeta"
  | ["edit", h, c, s, p, a, u, hs] => some do
    let v ← decodeTok h
    let req : EditReq := { comment := ← evalTok c, source := ← evalTok s, priv := ← evalTok p,
                           announce := ← evalTok a, urlList := ← evalTok u, httpseeds := ← evalTok hs }
    outEdit (Impl.editTorrent v req)
  | ["cliedit", h, a, u, hs, p, c, s] => some do
    let v ← decodeTok h
    let args : EditArgs := { announce := ← optListTok a, urlList := ← optListTok u,
                             httpseeds := ← optListTok hs, priv := p == "1",
                             comment := ← optStrTok c, source := ← optStrTok s }
    outEdit (Impl.editTorrent v (Impl.cliEdit args))
  | ["magnet", h, ver] => some do
    let v ← decodeTok h
    let n ← natTok ver
    match Impl.magnet sha1 sha256 v n with
    | .ok u => .ok (hexOfBytes u)
    | .error e => .error (errStr e)
  | ["quote", h] => some do
    let b ← hexTok h
    .ok (hexOfBytes (Impl.quotePlus b))
  | ["unquote", h] => some do
    let b ← hexTok h
    .ok (hexOfBytes (Spec.unquotePlus b))
  | ["qparams", h] => some do
    let b ← hexTok h
    match Spec.queryParams b with
    | some ps => .ok (if ps.isEmpty then "-" else
        ";".intercalate (ps.map fun kv => hexOfBytes kv.1 ++ ":" ++ hexOfBytes kv.2))
    | none => .error "notmagnet"
  | ["wellformed", ver, h] => some do
    let v ← decodeTok h
    let vv ← match ver with
      | "v1" => pure Spec.Version.v1
      | "v2" => pure Spec.Version.v2
      | "hybrid" => pure Spec.Version.hybrid
      | k => .error s!"bad-version:{k}"
    .ok (if Spec.WellFormed vv v then "ok" else "err")
  | ["located", h] => some do
    let v ← decodeTok h
    .ok (if Spec.Located v then "ok" else "err")
  | ["split", h] => some do
    let b ← hexTok h
    .ok (";".intercalate ((splitWs b).map hexOfBytes))
  | ["create", kind, cb, date, ann, com, pr, src, ul, hs, pl, nm, single, files, tree, pieces, layers] =>
    some do
    let dateN ← natTok date
    let o : CreateOpts := {
      createdBy := ← hexTok cb, creationDate := dateN, announce := ← slTok ann,
      comment := ← hexTok com, priv := pr == "1", source := ← hexTok src,
      urlList := ← slTok ul, httpseeds := ← slTok hs, pieceLength := ← natTok pl,
      name := ← hexTok nm }
    let sg ← if single = "-" then pure none else (natTok single).map some
    let filesV ← if files = "-" then pure (BVal.list []) else decodeTok files
    let treeV ← if tree = "-" then pure (BVal.dict []) else decodeTok tree
    let pcs ← hexTok pieces
    let lay ← layersTok layers
    let content : Content := match sg with | some n => .single n | none => .multi filesV
    let v ← match kind with
      | "v1" => pure (Impl.assembleV1 o content pcs)
      | "v2" => pure (Impl.assembleV2 o sg treeV lay)
      | "asm2" => pure (Impl.assembleAsmV2 o sg treeV lay)
      | "hybrid" => pure (Impl.assembleHybrid o content treeV pcs lay)
      | k => .error s!"bad-kind:{k}"
    match Impl.write v with
    | some b => .ok (hexOfBytes b)
    | none => .error "sortmeta"
  | _ => none

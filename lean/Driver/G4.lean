import Driver.Util
import TorrentVerif.Model.Rebuild
import TorrentVerif.Model.Merkle
/-
  Driver commands of group G4 (rebuild: C13, C14, C19).  Strings travel as lowercase hex (`-` =
  empty).  A filesystem path is the hex of its absolute string; the driver resolves it with
  `PosixPath.comps` (non-empty components) and prints resolved paths as `"/" + "/".join(comps)`.

    safejoin <dest-hex> <rel-hex>
        → `<s> <p>`: s = hex of `safe_join(dest, rel)` as a string (`Impl.safeJoinStr`) or `none`;
          p = hex of the resolved result `Impl.safeJoin (comps dest) rel`, rendered, or `none`.
    normpath <hex>                 → hex of `os.path.normpath`
    pjoin <a-hex> <b-hex>          → hex of `os.path.join(a, b)`
    commonpath <a-hex> <b-hex>     → hex of `os.path.commonpath([a, b])` or `ValueError`
    pathlib <n> <seg-hex>…         → hex of `str(PurePosixPath(*segs))`
    mappieces <pl> <numPieces> <n> <len>…
        → pieces separated by `;`, nodes by `,`, node = `idx:start:stop` (stop `-1` = to the end);
          a piece without nodes is `-`; no pieces at all is `none`.  Then a second token: `ok`/`bad`
          whether (for numPieces = ⌈Σlen/pl⌉, pl>0) the node lengths of piece i sum to the length
          of slice i of the stream (the Spec side, on lengths).
    extractv1 <name-hex> <n> (<k> <elem-hex>×k <len>)×n   (n = 0 … multi-file; single: `extractv1s <name-hex> <len>`)
        <len> is a decimal number, or `p<number>` for a padding entry (`attr == "p"`), e.g. `p16380`
        → records `full:filename:len` (`full:filename:len:p` for a padding entry) joined by `,`
          (`-` if none) or `IndexError`
    extractv2 <name-hex> <tree>    tree := <n> (<key-hex> <node>)×n ; node := f <len> <root-hex|none> | d <tree>
        → records `full:filename:len:root` joined by `,`
    matchv1 <ds> <dest-hex> <pl> <pieces-hex> <FILES> <FILEMAP> <FS>
    matchv2 <ds> <dest-hex> <pl> <FILES> <FILEMAP> <FS>
        FILES   := <n> (<full-hex> <filename-hex> <len> <root-hex|none>)×n     (<len> = `p<number>` marks a v1 padding record)
        FILEMAP := <n> (<name-hex> <k> (<path-hex> <size>)×k)×n          (dict order, candidates in list order)
        FS      := <n> (<path-hex> <d|blob>)×n                            (`d` = directory; first entry wins)
        ds = `os.path.getsize` of a directory.  v1 uses the real SHA-1; v2 `rootOf` = root of
        `Impl.hasherV2 sha256 16384 32 (pl/16384)`.
        → `<count> <ops> <counted> <writes>`: ops joined by `;`, `m:<path-hex>` (os.mkdir) / `c:<src-hex>:<dst-hex>`
          (shutil.copy), `-` if none; counted = hex of the `full` of each callback, joined by `,`;
          then a 4th token `<writes>`: for each op the path it creates or overwrites (`Op.writes`,
          differs from the copy target when that is an existing directory), joined by `;`.
    index <k> <filename-hex>×k <r> (<root-path-hex> <stree>)×r     stree := f <size> | d <n> (<name-hex> <stree>)×n
        → `name=path:size,path:size;name=…` (`-` if empty)
-/
open TorrentVerif TorrentVerif.Rebuild TorrentVerif.PosixPath Drv

namespace G4

abbrev P := StateT (List String) (Except String)

def tok : P String := do
  match (← get) with
  | [] => throw "missing-token"
  | t :: r => set r; pure t

def nat : P Nat := do natTok (← tok)

def hex : P Bytes := do
  let t ← tok
  match bytesOfHex t with
  | some b => pure b
  | none => throw s!"bad-hex:{t}"

def optHex : P (Option Bytes) := do
  let t ← tok
  if t = "none" then pure none else
  match bytesOfHex t with
  | some b => pure (some b)
  | none => throw s!"bad-hex:{t}"

def path : P Path := do pure (comps (← hex))

def rep (n : Nat) (p : P α) : P (List α) :=
  match n with
  | 0 => pure []
  | n + 1 => do let a ← p; let r ← rep n p; pure (a :: r)

def many (p : P α) : P (List α) := do let n ← nat; rep n p

def done : P Unit := do
  match (← get) with
  | [] => pure ()
  | t :: _ => throw s!"extra-token:{t}"

/-- a length token: `<n>`, or `p<n>` for a padding entry (`attr == "p"`) -/
def padLen : P (Nat × Bool) := do
  let t ← tok
  match t.toList with
  | 'p' :: r => do let n ← (natTok (String.ofList r) : Except String Nat); pure (n, true)
  | _ => do let n ← (natTok t : Except String Nat); pure (n, false)

def files : P (List FileRec) := many (do
  let full ← hex; let fn ← hex; let lp ← padLen; let root ← optHex
  pure ⟨full, fn, lp.1, root, lp.2⟩)

def recStr (f : FileRec) : String :=
  s!"{hexOfBytes f.full}:{hexOfBytes f.filename}:{f.length}{if f.pad then ":p" else ""}"

def filemap : P FileMap := many (do
  let name ← hex
  let cands ← many (do let p ← path; let s ← nat; pure (p, s))
  pure (name, cands))

def fsys : P FS := do
  let l ← many (do
    let p ← path
    let t ← tok
    if t = "d" then pure (p, Obj.dir) else
    let b ← (blobTok t : Except String Bytes)
    pure (p, Obj.file b))
  pure (FS.ofList l)

def ftree : Nat → P (List (Bytes × Impl.MetaTree))
  | 0 => throw "tree-too-deep"
  | fuel + 1 => many (do
    let key ← hex
    let k ← tok
    if k = "f" then
      let len ← nat; let root ← optHex
      pure (key, Impl.MetaTree.file len root)
    else if k = "d" then
      let es ← ftree fuel
      pure (key, Impl.MetaTree.dir es)
    else throw s!"bad-node:{k}")

def stree : Nat → P Impl.STree
  | 0 => throw "tree-too-deep"
  | fuel + 1 => do
    let k ← tok
    if k = "f" then
      let n ← nat
      pure (Impl.STree.file (zeros n))
    else if k = "d" then
      let es ← many (do let name ← hex; let t ← stree fuel; pure (name, t))
      pure (Impl.STree.dir es)
    else throw s!"bad-stree:{k}"

def hexP (p : Path) : String := hexOfBytes (render p)

def opStr : Op → String
  | .mkdir p => s!"m:{hexP p}"
  | .copy s d => s!"c:{hexP s}:{hexP d}"

def joinOr (sep : String) (l : List String) : String := if l.isEmpty then "-" else sep.intercalate l

/-- the path each operation creates or overwrites, in the state in which it runs -/
def writesOf : FS → List Op → List Path
  | _, [] => []
  | fs, op :: rest => Op.writes fs op :: writesOf (applyOp fs op) rest

def resultStr (fs : FS) (r : List Op × List Bytes) : String :=
  s!"{r.2.length} {joinOr ";" (r.1.map opStr)} {joinOr "," (r.2.map hexOfBytes)} {joinOr ";" ((writesOf fs r.1).map hexP)}"

def nodeStr (n : Node) : String :=
  s!"{n.1}:{n.2.1}:{match n.2.2 with | none => "-1" | some e => toString e}"

def nodeLen (lengths : List Nat) (n : Node) : Nat :=
  let len := lengths[n.1]?.getD 0
  match n.2.2 with
  | none => len - n.2.1
  | some e => min (e - n.2.1) (len - n.2.1)

/-- 20-byte digests of `info["pieces"]` (`len // 20` of them) -/
def digests (b : Bytes) : List Bytes :=
  (List.range (b.length / 20)).map (fun i => (b.drop (20 * i)).take 20)

def optStr : Option Bytes → String
  | none => "none"
  | some b => hexOfBytes b

def run (p : P String) (toks : List String) : Except String String := do
  let (s, _) ← (do let s ← p; done; pure s : P String).run toks
  pure s

def fmStr (m : FileMap) : String :=
  joinOr ";" (m.map (fun kv =>
    s!"{hexOfBytes kv.1}={",".intercalate (kv.2.map (fun c => s!"{hexP c.1}:{c.2}"))}"))

end G4

open G4 in
def handleG4 : List String → Option (Except String String)
  | "safejoin" :: t => some <| run (do
      let dest ← hex; let rel ← hex
      let s := Impl.safeJoinStr dest rel
      let p := Impl.safeJoin (comps dest) rel
      pure s!"{optStr s} {optStr (p.map render)}") t
  | "normpath" :: t => some <| run (do pure (hexOfBytes (normpath (← hex)))) t
  | "pjoin" :: t => some <| run (do let a ← hex; let b ← hex; pure (hexOfBytes (join a b))) t
  | "commonpath" :: t => some <| run (do
      let a ← hex; let b ← hex
      pure (match commonpath a b with | none => "ValueError" | some c => hexOfBytes c)) t
  | "pathlib" :: t => some <| run (do pure (hexOfBytes (Impl.pathlibStr (← many hex)))) t
  | "mappieces" :: t => some <| run (do
      let pl ← nat; let np ← nat; let lens ← many nat
      let r := Impl.mapPieces pl np lens
      let total := lens.foldl (· + ·) 0
      let want := (List.range np).map (fun i => min pl (total - i * pl))
      let got := r.map (fun nodes => (nodes.map (nodeLen lens)).foldl (· + ·) 0)
      let ok := if got = want then "ok" else "bad"
      let s := if r.isEmpty then "none" else
        ";".intercalate (r.map (fun nodes => joinOr "," (nodes.map nodeStr)))
      pure s!"{s} {ok}") t
  | "extractv1s" :: t => some <| run (do
      let name ← hex; let len ← nat
      let r := Impl.extractV1Single name len
      pure (joinOr "," (r.map recStr))) t
  | "extractv1" :: t => some <| run (do
      let name ← hex
      let fl ← many (do let p ← many hex; let lp ← padLen; pure (p, lp.1, lp.2))
      pure (match Impl.extractV1Multi name fl with
        | none => "IndexError"
        | some r => joinOr "," (r.map recStr))) t
  | "extractv2" :: t => some <| run (do
      let name ← hex
      let tree ← ftree 64
      let r := Impl.extractV2 name tree
      pure (joinOr "," (r.map (fun f =>
        s!"{hexOfBytes f.full}:{hexOfBytes f.filename}:{f.length}:{optStr f.root}")))) t
  | "matchv1" :: t => some <| run (do
      let ds ← nat; let dest ← path; let pl ← nat; let pieces ← hex
      let fl ← files; let fm ← filemap; let fs ← fsys
      pure (resultStr fs (Impl.matchV1 sha1 ds fs fm dest pl (digests pieces) fl))) t
  | "matchv2" :: t => some <| run (do
      let ds ← nat; let dest ← path; let pl ← nat
      let fl ← files; let fm ← filemap; let fs ← fsys
      let rootOf := fun d => (Impl.hasherV2 sha256 16384 32 (pl / 16384) d).1
      pure (resultStr fs (Impl.matchV2 rootOf ds fm dest fs fl))) t
  | "index" :: t => some <| run (do
      let names ← many hex
      let roots ← many (do let p ← path; let tr ← stree 64; pure (p, tr))
      pure (fmStr (Impl.indexContents names roots))) t
  | _ => none

/-
  SHA-1 and SHA-256 for the correspondence driver (executable only; no theorem mentions them:
  all theorems are about arbitrary hash functions).  Every digest the driver computes for a
  blob is re-checked against Python's hashlib by the harness on every run.
-/
namespace Sha256
def K : Array UInt32 := #[
0x428a2f98,0x71374491,0xb5c0fbcf,0xe9b5dba5,0x3956c25b,0x59f111f1,0x923f82a4,0xab1c5ed5,
0xd807aa98,0x12835b01,0x243185be,0x550c7dc3,0x72be5d74,0x80deb1fe,0x9bdc06a7,0xc19bf174,
0xe49b69c1,0xefbe4786,0x0fc19dc6,0x240ca1cc,0x2de92c6f,0x4a7484aa,0x5cb0a9dc,0x76f988da,
0x983e5152,0xa831c66d,0xb00327c8,0xbf597fc7,0xc6e00bf3,0xd5a79147,0x06ca6351,0x14292967,
0x27b70a85,0x2e1b2138,0x4d2c6dfc,0x53380d13,0x650a7354,0x766a0abb,0x81c2c92e,0x92722c85,
0xa2bfe8a1,0xa81a664b,0xc24b8b70,0xc76c51a3,0xd192e819,0xd6990624,0xf40e3585,0x106aa070,
0x19a4c116,0x1e376c08,0x2748774c,0x34b0bcb5,0x391c0cb3,0x4ed8aa4a,0x5b9cca4f,0x682e6ff3,
0x748f82ee,0x78a5636f,0x84c87814,0x8cc70208,0x90befffa,0xa4506ceb,0xbef9a3f7,0xc67178f2]
@[inline] def rotr (x : UInt32) (n : UInt32) : UInt32 := (x >>> n) ||| (x <<< (32 - n))
def pad (msg : ByteArray) : ByteArray := Id.run do
  let len := msg.size
  let mut m := msg.push 0x80
  while m.size % 64 != 56 do
    m := m.push 0
  let bits : UInt64 := (len.toUInt64) * 8
  for i in [0:8] do
    m := m.push ((bits >>> (8 * (7 - i)).toUInt64).toUInt8)
  return m
def compress (h : Array UInt32) (m : ByteArray) (off : Nat) : Array UInt32 := Id.run do
  let mut w : Array UInt32 := Array.mkEmpty 64
  for i in [0:16] do
    let b0 := (m.get! (off+4*i)).toUInt32
    let b1 := (m.get! (off+4*i+1)).toUInt32
    let b2 := (m.get! (off+4*i+2)).toUInt32
    let b3 := (m.get! (off+4*i+3)).toUInt32
    w := w.push ((b0 <<< 24) ||| (b1 <<< 16) ||| (b2 <<< 8) ||| b3)
  for i in [16:64] do
    let w15 := w[i-15]!
    let w2 := w[i-2]!
    let s0 := rotr w15 7 ^^^ rotr w15 18 ^^^ (w15 >>> 3)
    let s1 := rotr w2 17 ^^^ rotr w2 19 ^^^ (w2 >>> 10)
    w := w.push (w[i-16]! + s0 + w[i-7]! + s1)
  let mut a := h[0]!; let mut b := h[1]!; let mut c := h[2]!; let mut d := h[3]!
  let mut e := h[4]!; let mut f := h[5]!; let mut g := h[6]!; let mut hh := h[7]!
  for i in [0:64] do
    let S1 := rotr e 6 ^^^ rotr e 11 ^^^ rotr e 25
    let ch := (e &&& f) ^^^ ((~~~ e) &&& g)
    let t1 := hh + S1 + ch + K[i]! + w[i]!
    let S0 := rotr a 2 ^^^ rotr a 13 ^^^ rotr a 22
    let maj := (a &&& b) ^^^ (a &&& c) ^^^ (b &&& c)
    let t2 := S0 + maj
    hh := g; g := f; f := e; e := d + t1; d := c; c := b; b := a; a := t1 + t2
  return #[h[0]!+a,h[1]!+b,h[2]!+c,h[3]!+d,h[4]!+e,h[5]!+f,h[6]!+g,h[7]!+hh]
def hash (msg : ByteArray) : ByteArray := Id.run do
  let m := pad msg
  let mut h : Array UInt32 := #[0x6a09e667,0xbb67ae85,0x3c6ef372,0xa54ff53a,0x510e527f,0x9b05688c,0x1f83d9ab,0x5be0cd19]
  for blk in [0:m.size/64] do
    h := compress h m (blk*64)
  let mut out := ByteArray.emptyWithCapacity 32
  for x in h do
    out := out.push (x >>> 24).toUInt8 |>.push (x >>> 16).toUInt8 |>.push (x >>> 8).toUInt8 |>.push x.toUInt8
  return out
end Sha256

namespace Sha1
@[inline] def rotl (x : UInt32) (n : UInt32) : UInt32 := (x <<< n) ||| (x >>> (32 - n))
def compress (h : Array UInt32) (m : ByteArray) (off : Nat) : Array UInt32 := Id.run do
  let mut w : Array UInt32 := Array.mkEmpty 80
  for i in [0:16] do
    let b0 := (m.get! (off+4*i)).toUInt32
    let b1 := (m.get! (off+4*i+1)).toUInt32
    let b2 := (m.get! (off+4*i+2)).toUInt32
    let b3 := (m.get! (off+4*i+3)).toUInt32
    w := w.push ((b0 <<< 24) ||| (b1 <<< 16) ||| (b2 <<< 8) ||| b3)
  for i in [16:80] do
    w := w.push (rotl (w[i-3]! ^^^ w[i-8]! ^^^ w[i-14]! ^^^ w[i-16]!) 1)
  let mut a := h[0]!; let mut b := h[1]!; let mut c := h[2]!; let mut d := h[3]!; let mut e := h[4]!
  for i in [0:80] do
    let (f, k) : UInt32 × UInt32 :=
      if i < 20 then ((b &&& c) ||| ((~~~ b) &&& d), 0x5A827999)
      else if i < 40 then (b ^^^ c ^^^ d, 0x6ED9EBA1)
      else if i < 60 then ((b &&& c) ||| (b &&& d) ||| (c &&& d), 0x8F1BBCDC)
      else (b ^^^ c ^^^ d, 0xCA62C1D6)
    let t := rotl a 5 + f + e + k + w[i]!
    e := d; d := c; c := rotl b 30; b := a; a := t
  return #[h[0]!+a,h[1]!+b,h[2]!+c,h[3]!+d,h[4]!+e]
def hash (msg : ByteArray) : ByteArray := Id.run do
  let m := Sha256.pad msg
  let mut h : Array UInt32 := #[0x67452301,0xEFCDAB89,0x98BADCFE,0x10325476,0xC3D2E1F0]
  for blk in [0:m.size/64] do
    h := compress h m (blk*64)
  let mut out := ByteArray.emptyWithCapacity 20
  for x in h do
    out := out.push (x >>> 24).toUInt8 |>.push (x >>> 16).toUInt8 |>.push (x >>> 8).toUInt8 |>.push x.toUInt8
  return out
end Sha1

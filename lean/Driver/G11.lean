import Driver.Util
import Driver.G4
import TorrentVerif.Model.RebuildMeta
/-
  Driver commands of group G11 (metafile bytes → rebuild: `Props/C13.extract_of_created_*`,
  `rebuild_of_created_*`).

    extractmeta <metafile-hex>
        `Impl.extractMeta` on `Impl.loads` of the bytes = `torrentfile.rebuild.Metadata(path)`.
        → `v<meta version> <piece length> <records> <filenames>` or `ERR <kind>`
          (kind = constructor name of `RF.Err`: decodeError | keyError | typeError | indexError)
          meta version  the integer, `vx` when `meta version` is present but not an integer
          records       joined by `,` (`-` if none); for meta version 2 `full:filename:len:root`
                        (root hex or `none`) as `extractv2`, otherwise `full:filename:len` with
                        `:p` appended for a padding entry, as `extractv1` (Driver/G4)
          filenames     `Metadata.filenames` (a set; first occurrences in order), hex joined by `,`
    rebuildbytes <metafile-hex> <ds> <dest-hex> <FILEMAP> <FS>
        `Impl.rebuildFromBytes sha1 sha256 16384 32` (FILEMAP, FS, ds as `matchv1`, Driver/G4)
        → `<count> <ops> <counted> <writes>` as `matchv1` / `matchv2`, or `ERR <kind>`
-/
open TorrentVerif TorrentVerif.Rebuild TorrentVerif.PosixPath Drv

namespace G11

def errName : RF.Err → String
  | .decodeError => "decodeError" | .keyError => "keyError" | .typeError => "typeError"
  | .notFound => "notFound" | .notADirectory => "notADirectory" | .isADirectory => "isADirectory"
  | .indexError => "indexError" | .badPieceLength => "badPieceLength"
  | .zeroDivision => "zeroDivision"

def recV2 (f : FileRec) : String :=
  s!"{hexOfBytes f.full}:{hexOfBytes f.filename}:{f.length}:{G4.optStr f.root}"

def metaStr (m : RebuildMeta) : String :=
  let ver := match m.metaVersion with
    | some i => s!"v{i}"
    | none => "vx"
  let recs := if m.metaVersion = some 2 then m.files.map recV2 else m.files.map G4.recStr
  s!"{ver} {m.pieceLength} {G4.joinOr "," recs} {G4.joinOr "," (m.filenames.map hexOfBytes)}"

end G11

open G11 G4 in
def handleG11 : List String → Option (Except String String)
  | "extractmeta" :: t => some <| run (do
      let b ← hex
      match Impl.loads b with
      | none => throw "decodeError"
      | some mf =>
        match Impl.extractMeta mf with
        | .error e => throw (errName e)
        | .ok m => pure (metaStr m)) t
  | "rebuildbytes" :: t => some <| run (do
      let b ← hex; let ds ← nat; let dest ← path
      let fm ← filemap; let fs ← fsys
      match Impl.loads b with
      | none => throw "decodeError"
      | some mf =>
        match Impl.extractMeta mf with
        | .error e => throw (errName e)
        | .ok m =>
          let r := Impl.rebuildMeta sha1 sha256 16384 32 ds fs fm dest m
          match Impl.rebuildFromBytes sha1 sha256 16384 32 ds fs fm dest b with
          | .error e => throw (errName e)
          | .ok (ops, n) =>
            if ops ≠ r.1 ∨ n ≠ r.2.length then throw "rebuildFromBytes-mismatch"
            else pure (resultStr fs r)) t
  | _ => none

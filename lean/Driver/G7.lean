import Driver.Util
import Driver.G2
import Driver.G6
import TorrentVerif.Model.Creators
/-
  Driver command of group G7 (whole-metafile creators, `Model/Creators.lean`).

  createfull <kind> <B> <bpp> <createdby-hex> <date> <announce SL> <comment S|_> <private 0|1>
             <source S|_> <url-list SL> <httpseeds SL> <name-hex> <single 0|1> <nfiles>
             (<relpath-hex> <blob>)×nfiles
        → hex of the complete metafile bytes the creator writes (`ERR raises` where Python raises)

    kind      v1 | v1align (TorrentFile, align off/on) | v2class (TorrentFileV2) |
              hybridclass (TorrentFileHybrid) | asm2 | asm3 (TorrentAssembler, meta_version "2"/"3")
    B, bpp    BLOCK_SIZE and blocks per piece; the piece length is bpp·B
    SL        `_` (None) | `E` ("") | `S<hex>` (a string) | `L<hex>;<hex>;…` (a list; `L` = [])
              as in Driver/G2.lean; comment/source: `_` (not given) | `S<hex>`
    date      decimal `creation date`
    name      `info.name` (basename of the content path), hex
    single    1: the content path is a regular file — exactly one (relpath, blob) pair, relpath ignored;
              0: a directory; the pairs are its regular files, relative '/'-separated paths, in
              the order in which the OS enumerates them (a directory keeps its entries in
              first-seen order). A relpath with a trailing '/' creates an empty directory (its
              blob token is ignored).
    blob      file contents as a blob descriptor (`Drv.blobTok`)

  Hashes are the real SHA-256 / SHA-1, `HASH_SIZE` = 32; enumeration parameters are `id`
  (the stored order IS the enumeration order).
-/
open TorrentVerif Drv

namespace DrvG7

def hasName (n : Bytes) (es : List (Bytes × Node)) : Bool := es.any (fun e => e.1 == n)

/-- insert one file (path as components; a final empty component = "this is a directory") -/
def insertFile (d : Bytes) : List Bytes → List (Bytes × Node) → Option (List (Bytes × Node))
  | [], _ => none
  | [n], es =>
    if n.isEmpty then some es
    else if hasName n es then none
    else some (es ++ [(n, .file d)])
  | n :: r :: rs, es =>
    if n.isEmpty then none
    else if hasName n es then
      es.mapM (fun e =>
        if e.1 == n then
          match e.2 with
          | .dir cs => (insertFile d (r :: rs) cs).map (fun cs' => (e.1, Node.dir cs'))
          | .file _ => none
        else some e)
    else (insertFile d (r :: rs) []).map (fun cs => es ++ [(n, Node.dir cs)])

def pairs : List String → Except String (List (String × String))
  | [] => .ok []
  | a :: b :: t => (pairs t).map ((a, b) :: ·)
  | [a] => .error s!"odd-pairs:{a}"

def buildTree (ps : List (String × String)) : Except String Node := do
  let mut es : List (Bytes × Node) := []
  for (p, b) in ps do
    let path ← G2.hexTok p
    if path.isEmpty then throw s!"bad-path:{p}"
    let comps := DrvG6.splitSlash path
    let d ← if comps.getLast? == some [] then pure [] else blobTok b
    match insertFile d comps es with
    | none => throw s!"bad-path:{p}"
    | some es' => es := es'
  return .dir es

def strOpt (s : String) : Except String Bytes := do
  match ← G2.optStrTok s with
  | none => .ok []
  | some b => .ok b

def hs : Nat := 32

def handleG7 : List String → Option (Except String String)
  | "createfull" :: kind :: bS :: bppS :: cb :: date :: ann :: com :: pr :: src :: ul :: hsd :: nm ::
      single :: nS :: rest => some do
    let B ← natTok bS
    let bpp ← natTok bppS
    let n ← natTok nS
    let ps ← pairs rest
    if ps.length ≠ n then throw s!"bad-count:{ps.length}"
    let dateN ← natTok date
    let o : CreateOpts := {
      createdBy := ← G2.hexTok cb, creationDate := dateN, announce := ← G2.slTok ann,
      comment := ← strOpt com, priv := pr == "1", source := ← strOpt src,
      urlList := ← G2.slTok ul, httpseeds := ← G2.slTok hsd, pieceLength := bpp * B,
      name := ← G2.hexTok nm }
    let t ← if single == "1" then
        match ps with
        | [(_, b)] => (blobTok b).map Node.file
        | _ => throw "single-needs-one-file"
      else buildTree ps
    let r ← match kind with
      | "v1" => pure (Impl.createV1 o false sha1 id o.name t)
      | "v1align" => pure (Impl.createV1 o true sha1 id o.name t)
      | "v2class" => pure (Impl.createV2Class o sha256 B hs id t)
      | "hybridclass" => pure (Impl.createHybridClass o sha256 sha1 B hs id t)
      | "asm2" => pure (Impl.createAsm false o sha256 sha1 B hs id t)
      | "asm3" => pure (Impl.createAsm true o sha256 sha1 B hs id t)
      | k => throw s!"bad-kind:{k}"
    match r with
    | some (_, bytes) => .ok (hexOfBytes bytes)
    | none => .error "raises"
  | _ => none

end DrvG7

export DrvG7 (handleG7)

import Driver.Util
import Driver.G4
import TorrentVerif.Model.PyDecode
/-
  Driver commands of group G12 (the `str` / `bytes` quirk of pyben: `Model/PyDecode.lean`,
  `Props/C05Decode.lean`).

    validutf8 <hex>
        `validUtf8` of the bytes = `bytes.decode("utf-8")` succeeds (CPython, strict).
        → `1` | `0`
    pytag <metafile-hex>
        `Impl.hashSites (Impl.pyLoads bytes)`: `type(x).__name__` of the hash-bearing values of
        what `pyben.load` returns, in this order: `info["pieces"]`; every `pieces root` of
        `info["file tree"]` (depth first, dictionary order; a dictionary with the key `""` is a
        file, any other dictionary a directory); every key and value of the top-level
        `piece layers` (key, value, key, value, …).
        → `str` / `bytes` (/ `int` / `list` / `dict` for an ill-typed entry) separated by single
          spaces, `-` when there is none, `ERR decode` when the bytes are not bencoding.
-/
open TorrentVerif Drv

open G4 in
def handleG12 : List String → Option (Except String String)
  | "validutf8" :: t => some <| run (do
      let b ← hex
      pure (if validUtf8 b then "1" else "0")) t
  | "pytag" :: t => some <| run (do
      let b ← hex
      match Impl.pyLoads b with
      | none => throw "decode"
      | some p => pure (joinOr " " ((Impl.hashSites p).map PyVal.typeName))) t
  | _ => none

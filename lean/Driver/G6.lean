import Driver.Util
import TorrentVerif.Model.Listing
/-
  Driver commands of group G6 (C01/C08: how a content directory is enumerated).

  Both commands take the regular files of a content directory as relative '/'-separated paths
  (hex of the UTF-8 bytes), in the order in which the "OS" enumerates them.  The `Node` tree is
  built by inserting the paths one after the other: a directory keeps its entries in
  first-seen order, so the argument order IS the enumeration order of every directory.  A path
  with a trailing '/' (`a/b/`) creates an empty directory `a/b`.  File contents are empty (only
  paths are printed).  No argument at all = an empty root directory.

  listv1 <relpath-hex> <relpath-hex> …
        → `<impl paths> | <spec paths>` where
          impl = `Impl.listV1 id "r" tree` (root directory named `r`, i.e. prefix "r"),
          spec = `Spec.sortedFiles "r" tree`,
          each rendered as the paths relative to the root (the leading `r/` removed), in hex,
          space separated, in listing order; an empty listing is rendered `-`.
  listv2 <relpath-hex> <relpath-hex> …
        → `<paths>`: the traversal order of `Impl.ftreeFiles [] (Impl.traverse id tree)` (order
          of the hybrid `files` list and of the piece-layer insertion), each file as its
          components joined with '/', in hex, space separated; empty = `-`.

  Errors: `ERR bad-hex:<tok>`, `ERR bad-path:<tok>` (empty path, empty component, or a path
  that uses an already inserted file as a directory / is inserted twice).
-/
open TorrentVerif Drv

namespace DrvG6

/-- split at every `/` (47); `"a/b/"` gives `[a, b, []]` -/
def splitSlash : Bytes → List Bytes
  | [] => [[]]
  | c :: t =>
    if c = Listing.sep then [] :: splitSlash t
    else match splitSlash t with
      | [] => [[c]]
      | h :: r => (c :: h) :: r

def hasName (n : Bytes) (es : List (Bytes × Node)) : Bool := es.any (fun e => e.1 == n)

/-- insert one path (as components; a final empty component = "this is a directory") below a
    directory with entries `es`; `none` when the path clashes with what is already there -/
def insertPath : List Bytes → List (Bytes × Node) → Option (List (Bytes × Node))
  | [], _ => none
  | [n], es =>
    if n.isEmpty then some es            -- trailing '/': the directory itself, nothing to add
    else if hasName n es then none
    else some (es ++ [(n, .file [])])
  | n :: r :: rs, es =>
    if n.isEmpty then none
    else if hasName n es then
      es.mapM (fun e =>
        if e.1 == n then
          match e.2 with
          | .dir cs => (insertPath (r :: rs) cs).map (fun cs' => (e.1, Node.dir cs'))
          | .file _ => none
        else some e)
    else (insertPath (r :: rs) []).map (fun cs => es ++ [(n, Node.dir cs)])

def buildTree (toks : List String) : Except String Node := do
  let mut es : List (Bytes × Node) := []
  for t in toks do
    match bytesOfHex t with
    | none => throw s!"bad-hex:{t}"
    | some b =>
      if b.isEmpty then throw s!"bad-path:{t}"
      match insertPath (splitSlash b) es with
      | none => throw s!"bad-path:{t}"
      | some es' => es := es'
  return .dir es

def root : Bytes := [114]   -- "r"

def render (paths : List Bytes) : String :=
  if paths.isEmpty then "-" else " ".intercalate (paths.map hexOfBytes)

def relOf (l : List (Bytes × Bytes)) : List Bytes := l.map (fun x => x.1.drop (root.length + 1))

def joinSlash : List Bytes → Bytes
  | [] => []
  | [a] => a
  | a :: t => a ++ Listing.sep :: joinSlash t

def handleG6 : List String → Option (Except String String)
  | "listv1" :: toks => some do
    let t ← buildTree toks
    let impl := Impl.listV1 id root t
    let spec := Spec.sortedFiles root t
    .ok s!"{render (relOf impl)} | {render (relOf spec)}"
  | "listv2" :: toks => some do
    let t ← buildTree toks
    let fs := Impl.ftreeFiles [] (Impl.traverse id t)
    .ok (render (fs.map (fun x => joinSlash x.1)))
  | _ => none

end DrvG6

export DrvG6 (handleG6)

import Driver.Util
import TorrentVerif.Model.Recheck
/-
  Driver commands of group G3 (recheck: C04, C05, C16).

  feed <pl> <recorded-pieces-hex|-> <n> then n pairs: <len> <blob|absent>
      v1 `FeedChecker` + `Checker.iter_hashes`.  Entry = recorded length and on-disk content
      (`absent` = the path does not exist).
      Answer: `<impl verdicts> <m> <c> | <spec verdicts> <m> <c>` where a verdict is
      `<0|1>:<size>` per piece produced (space separated), and `<m> <c>` are `matched consumed`.
      Impl = `Impl.iterHashes (Impl.feedCheck sha1 …)`, Spec = `Spec.ratio (Spec.v1Check sha1 …)`.

  hashcheck <B> <hs> <bpp> <nfiles> then per file: <len> <root-hex|-> <layer-hex|-> <blob|absent>
      v2 / hybrid `HashChecker` (+ `Padder`, `FileHasher`) + `Checker.iter_hashes`, piece length
      `bpp * B`.  `root` is `fileinfo[i]["pieces root"]` (`-` for an empty file), `layer` is
      `meta["piece layers"][root]` (`-` when the file has no entry; only read when len > pl).
      Answer: same format as `feed` (Impl = `Impl.hashCheck`, Spec = `Spec.v2Check`).
-/
open TorrentVerif Drv

namespace DrvG3

def verdictStr (v : Bool × Nat) : String := (if v.1 then "1:" else "0:") ++ toString v.2

def resultStr (l : List (Bool × Nat)) (r : Nat × Nat) : String :=
  " ".intercalate (l.map verdictStr ++ [toString r.1, toString r.2])

def diskTok (s : String) : Except String (Option Bytes) :=
  if s = "absent" then .ok none else (blobTok s).map some

def hexTok (s : String) : Except String Bytes :=
  match bytesOfHex s with | some b => .ok b | none => .error s!"bad-hex:{s}"

def parseEntries : Nat → List String → Except String (List (Nat × Option Bytes))
  | 0, [] => .ok []
  | n + 1, l :: b :: t => do
    let len ← natTok l
    let d ← diskTok b
    let r ← parseEntries n t
    .ok ((len, d) :: r)
  | _, _ => .error "bad-entry-count"

def parseFiles : Nat → List String → Except String (List (Nat × Bytes × Bytes × Option Bytes))
  | 0, [] => .ok []
  | n + 1, l :: r :: p :: b :: t => do
    let len ← natTok l
    let root ← hexTok r
    let layer ← hexTok p
    let d ← diskTok b
    let rest ← parseFiles n t
    .ok ((len, root, layer, d) :: rest)
  | _, _ => .error "bad-file-count"

end DrvG3

open DrvG3 in
def handleG3 : List String → Option (Except String String)
  | "feed" :: pl :: recd :: n :: rest => some do
    let pl ← natTok pl
    let recorded ← hexTok recd
    let n ← natTok n
    let entries ← parseEntries n rest
    let impl := Impl.feedCheck sha1 pl recorded entries
    let spec := Spec.v1Check sha1 pl recorded entries
    .ok s!"{resultStr impl (Impl.iterHashes impl)} | {resultStr spec (Spec.ratio spec)}"
  | "hashcheck" :: bS :: hsS :: bppS :: n :: rest => some do
    let B ← natTok bS
    let hs ← natTok hsS
    let bpp ← natTok bppS
    let n ← natTok n
    let files ← parseFiles n rest
    let impl := Impl.hashCheck sha256 B hs bpp files
    let spec := Spec.v2Check sha256 B hs bpp files
    .ok s!"{resultStr impl (Impl.iterHashes impl)} | {resultStr spec (Spec.ratio spec)}"
  | _ => none

import Driver.Util
import TorrentVerif.Model.Spelling
import TorrentVerif.Model.Utf8
import TorrentVerif.Model.Listing
/-
  Driver commands of group G9 (C08: name from the spelling of the content path; UTF-8).

  torrentname <cwd-hex> <spelling-hex>
      cwd       the working directory (`os.getcwd()`: absolute, normalised), UTF-8 bytes in hex
      spelling  the content path as given to `MetaFile(path=…)`, hex (`-` = empty string)
      Answer:   hex of `Impl.torrentName cwd spelling`
                (= `os.path.basename(os.path.abspath(spelling))` after `os.chdir(cwd)`)

  abspath <cwd-hex> <spelling-hex>
      Answer:   hex of `PosixPath.abspathIn cwd spelling` (= `os.path.abspath(spelling)`)

  utf8 <codepoint> ...
      Answer:   hex of `Utf8.encodeStr [codepoints]` (= `"".join(map(chr, cps)).encode("utf8")`)

  utf8le <n> <codepoint>×n <codepoint> ...
      the first n code points are string a, the rest string b
      Answer:   `<0|1> <0|1>`: `Utf8.leCode a b` (Python `a <= b` on str) and
                `Listing.leBytes` of the two encodings (byte order)
-/
open TorrentVerif Drv

namespace Drv9

def hexTok (s : String) : Except String Bytes :=
  match bytesOfHex s with | some b => .ok b | none => .error s!"bad-hex:{s}"

def b01 (b : Bool) : String := if b then "1" else "0"

end Drv9

open Drv9 in
def handleG9 : List String → Option (Except String String)
  | ["torrentname", cwd, sp] => some do
    let cwd ← hexTok cwd
    let sp ← hexTok sp
    .ok (hexOfBytes (Impl.torrentName cwd sp))
  | ["abspath", cwd, sp] => some do
    let cwd ← hexTok cwd
    let sp ← hexTok sp
    .ok (hexOfBytes (PosixPath.abspathIn cwd sp))
  | "utf8" :: cps => some do
    let cps ← cps.mapM natTok
    .ok (hexOfBytes (Utf8.encodeStr cps))
  | "utf8le" :: n :: cps => some do
    let n ← natTok n
    let cps ← cps.mapM natTok
    let a := cps.take n
    let b := cps.drop n
    .ok s!"{b01 (Utf8.leCode a b)} {b01 (Listing.leBytes (Utf8.encodeStr a) (Utf8.encodeStr b))}"
  | _ => none

import Driver.Util
import Driver.G2
import Driver.G7
import TorrentVerif.Model.Creators
import TorrentVerif.Model.RecheckFull
/-
  Driver command of group G10 (end to end: creator then Checker, `Props/C05.recheck_of_created_*`).

  roundtrip <kind> <B> <bpp> <name-hex> <single 0|1> <nfiles> (<relpath-hex> <blob>)×nfiles
        → `<matched> <consumed> <nverdicts> <nfalse> R` followed by the same four numbers and `P`
          for the content argument = payload root (passed under the torrent's name) and
          = parent directory (named `parent-of-<name>`, holding the payload under the name);
          `ERR raises` where the creator raises, `ERR recheck:<error>` where the Checker does.

    kind      v1 | v1align | v2class | hybridclass | asm2 | asm3   (as in `createfull`, Driver/G7)
    B, bpp    BLOCK_SIZE and blocks per piece; the piece length is bpp·B
    name      `info.name`, hex
    single / nfiles / pairs   the content tree, as in `createfull`

  The Lean creator (`Impl.create*`) runs on the tree, then the Lean Checker (`Impl.recheck`)
  runs on the bytes it wrote with the same tree as disk; real SHA-1 / SHA-256, `HASH_SIZE` = 32,
  fixed option record (no trackers, no comment).  For a tree within the hypotheses of the
  theorems the answer is `total total n 0` twice.
-/
open TorrentVerif Drv

namespace DrvG10

def errName : RF.Err → String
  | .decodeError => "decodeError" | .keyError => "keyError" | .typeError => "typeError"
  | .notFound => "notFound" | .notADirectory => "notADirectory" | .isADirectory => "isADirectory"
  | .indexError => "indexError" | .badPieceLength => "badPieceLength"
  | .zeroDivision => "zeroDivision"

def showRun (r : Except RF.Err (List (Bool × Nat) × Nat × Nat)) (tag : String) : Except String String :=
  match r with
  | .ok (vs, m, c) => .ok s!"{m} {c} {vs.length} {(vs.filter (fun v => !v.1)).length} {tag}"
  | .error e => .error s!"recheck:{errName e}"

def handleG10 : List String → Option (Except String String)
  | "roundtrip" :: kind :: bS :: bppS :: nm :: single :: nS :: rest => some do
    let B ← natTok bS
    let bpp ← natTok bppS
    let n ← natTok nS
    let ps ← DrvG7.pairs rest
    if ps.length ≠ n then throw s!"bad-count:{ps.length}"
    let name ← G2.hexTok nm
    let o : CreateOpts := {
      createdBy := [116], creationDate := 0, announce := .none, comment := [], priv := false,
      source := [], urlList := .none, httpseeds := .none, pieceLength := bpp * B, name := name }
    let t ← if single == "1" then
        match ps with
        | [(_, b)] => (blobTok b).map Node.file
        | _ => throw "single-needs-one-file"
      else DrvG7.buildTree ps
    let r ← match kind with
      | "v1" => pure (Impl.createV1 o false sha1 id o.name t)
      | "v1align" => pure (Impl.createV1 o true sha1 id o.name t)
      | "v2class" => pure (Impl.createV2Class o sha256 B 32 id t)
      | "hybridclass" => pure (Impl.createHybridClass o sha256 sha1 B 32 id t)
      | "asm2" => pure (Impl.createAsm false o sha256 sha1 B 32 id t)
      | "asm3" => pure (Impl.createAsm true o sha256 sha1 B 32 id t)
      | k => throw s!"bad-kind:{k}"
    match r with
    | none => .error "raises"
    | some (_, bytes) =>
      let pname : Bytes := "parent-of-".toUTF8.toList ++ name
      let a ← showRun (Impl.recheck sha1 sha256 B 32 bytes ⟨.root, name⟩ t) "R"
      let b ← showRun (Impl.recheck sha1 sha256 B 32 bytes ⟨.parent, pname⟩ t) "P"
      .ok s!"{a} {b}"
  | _ => none

end DrvG10

export DrvG10 (handleG10)

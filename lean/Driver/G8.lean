import Driver.Util
import TorrentVerif.Model.RecheckFull
/-
  Driver command of group G8 (whole `Checker`: C04, C05, C16).

  recheckfull <metafile-hex> <arg: root|parent> <argname-hex> <B> <n> (<relpath-hex> <blob>)×n
      metafile  the bytes of the .torrent file
      arg       `root`: the content path is the payload itself; `parent`: it is the directory that
                holds the payload (stored there under `info.name`)
      argname   last component of the content path (`Path(path).name`)
      B         BLOCK_SIZE (16384, or the value the harness patched into torrentfile)
      n pairs   the payload: `<relpath-hex>` = hex of the `/`-separated path below the payload root,
                `<blob>` its contents (Drv.blobTok).  A single-file payload (the payload root is a
                regular file) is ONE pair with relpath `-`.  n = 0: an empty directory.
      optional tail  `siblings <m> (<relpath-hex> <blob>)×m` (only with `parent`): further files in
                the parent directory, paths relative to the parent (next to the payload entry).
      Answer:   `<impl> | <spec>`
                impl = `<v>… <matched> <consumed>` with v = `<0|1>:<size>` per piece (as Driver/G3), or
                       `ERR <kind>` (kind = constructor name of `RF.Err`);  from `Impl.recheck sha1 sha256 B 32`
                spec = same format from `Spec.recheck sha1 sha256 B 32` on the decoded metafile and the
                       payload, or `none` (metafile not well-formed / not decodable).
-/
open TorrentVerif TorrentVerif.RF Drv

namespace DrvG8

def verdictStr (v : Bool × Nat) : String := (if v.1 then "1:" else "0:") ++ toString v.2

def resultStr (r : List (Bool × Nat) × Nat × Nat) : String :=
  " ".intercalate (r.1.map verdictStr ++ [toString r.2.1, toString r.2.2])

def errStr : Err → String
  | .decodeError => "decodeError"
  | .keyError => "keyError"
  | .typeError => "typeError"
  | .notFound => "notFound"
  | .notADirectory => "notADirectory"
  | .isADirectory => "isADirectory"
  | .indexError => "indexError"
  | .badPieceLength => "badPieceLength"
  | .zeroDivision => "zeroDivision"

def hexTok (s : String) : Except String Bytes :=
  match bytesOfHex s with | some b => .ok b | none => .error s!"bad-hex:{s}"

/-- split at `/` -/
def splitSlash : Bytes → List Bytes
  | [] => [[]]
  | c :: r =>
    if c = 47 then [] :: splitSlash r
    else match splitSlash r with
      | h :: t => (c :: h) :: t
      | [] => [[c]]

/-- put a file at the given components below a node (fuel = number of components + 1) -/
def insertAt : Nat → Node → List Bytes → Bytes → Node
  | 0, n, _, _ => n
  | _ + 1, _, [], d => .file d
  | f + 1, .file _, c :: cs, d => .dir [(c, insertAt f (.dir []) cs d)]
  | f + 1, .dir es, c :: cs, d =>
    if es.any (fun e => e.1 = c) then
      .dir (es.map fun e => if e.1 = c then (e.1, insertAt f e.2 cs d) else e)
    else .dir (es ++ [(c, insertAt f (.dir []) cs d)])

def parsePairs : Nat → List String → Except String (List (Bytes × Bytes) × List String)
  | 0, rest => .ok ([], rest)
  | n + 1, p :: b :: t => do
    let rel ← hexTok p
    let d ← blobTok b
    let r ← parsePairs n t
    .ok ((rel, d) :: r.1, r.2)
  | _, _ => .error "bad-pair-count"

def addFiles (nd : Node) (pairs : List (Bytes × Bytes)) : Node :=
  pairs.foldl (fun nd p =>
    let comps := splitSlash p.1
    insertAt (comps.length + 1) nd comps p.2) nd

def buildDisk (pairs : List (Bytes × Bytes)) : Disk :=
  match pairs with
  | [([], d)] => .file d
  | _ => addFiles (.dir []) pairs

end DrvG8

open DrvG8 in
def handleG8 : List String → Option (Except String String)
  | "recheckfull" :: mfS :: argS :: nameS :: bS :: nS :: rest => some do
    let mfBytes ← hexTok mfS
    let kind ← match argS with
      | "root" => pure ArgKind.root
      | "parent" => pure ArgKind.parent
      | _ => throw s!"bad-arg:{argS}"
    let argName ← hexTok nameS
    let B ← natTok bS
    let n ← natTok nS
    let (pairs, tail) ← parsePairs n rest
    let disk := buildDisk pairs
    let sibs ← match tail with
      | [] => pure []
      | "siblings" :: mS :: more => do
        let m ← natTok mS
        let (sp, tail') ← parsePairs m more
        if tail' ≠ [] then throw "extra-token"
        if kind ≠ ArgKind.parent then throw "siblings-need-parent"
        pure sp
      | _ => throw "bad-tail"
    let run : Except Err (List (Bool × Nat) × Nat × Nat) :=
      if sibs.isEmpty then Impl.recheck sha1 sha256 B 32 mfBytes ⟨kind, argName⟩ disk
      else match Impl.loads mfBytes with
        | none => .error .decodeError
        | some mf => Impl.recheckMeta sha1 sha256 B 32 mf argName
            (some (addFiles (.dir [(Impl.nameOf mf, disk)]) sibs))
    let impl := match run with
      | .ok r => resultStr r
      | .error e => "ERR " ++ errStr e
    let spec := match (Impl.loads mfBytes).bind (fun mf => Spec.recheck sha1 sha256 B 32 mf disk) with
      | some r => resultStr r
      | none => "none"
    .ok s!"{impl} | {spec}"
  | _ => none

import Driver.Sha
import TorrentVerif.Model.Basic
/- Line-protocol helpers of the driver: hex, blob descriptors, real hash functions. -/
open TorrentVerif

namespace Drv

def hexDigit (n : Nat) : Char := if n < 10 then Char.ofNat (48 + n) else Char.ofNat (87 + n)

def hexOfBytes (b : Bytes) : String :=
  if b.isEmpty then "-" else
  String.ofList (b.foldr (fun x acc => hexDigit (x.toNat / 16) :: hexDigit (x.toNat % 16) :: acc) [])

def hexVal (c : Char) : Option Nat :=
  if '0' ≤ c ∧ c ≤ '9' then some (c.toNat - 48)
  else if 'a' ≤ c ∧ c ≤ 'f' then some (c.toNat - 87)
  else if 'A' ≤ c ∧ c ≤ 'F' then some (c.toNat - 55)
  else none

def bytesOfHexAux : List Char → Option Bytes
  | [] => some []
  | a :: b :: t => do
    let x ← hexVal a
    let y ← hexVal b
    let r ← bytesOfHexAux t
    pure (UInt8.ofNat (x * 16 + y) :: r)
  | _ => none

def bytesOfHex (s : String) : Option Bytes :=
  if s = "-" then some [] else bytesOfHexAux s.toList

def toBA (b : Bytes) : ByteArray := ByteArray.mk b.toArray

def sha1 (b : Bytes) : Bytes := (Sha1.hash (toBA b)).toList
def sha256 (b : Bytes) : Bytes := (Sha256.hash (toBA b)).toList

/-- 1021-byte pattern derived from a seed; the harness builds the same with hashlib. -/
def pattern (seed : Nat) : Array UInt8 := Id.run do
  let mut out : Array UInt8 := Array.mkEmpty 1024
  for i in [0:32] do
    let h := Sha256.hash (s!"{seed}:{i}".toUTF8)
    for x in h.data do out := out.push x
  return out.extract 0 1021

def randBytes (seed n : Nat) : Bytes := Id.run do
  let p := pattern seed
  let mut out : Array UInt8 := Array.mkEmpty n
  for i in [0:n] do
    out := out.push p[i % 1021]!
  return out.toList

def applyMod (b : Bytes) (m : String) : Option Bytes :=
  match m.toList with
  | 't' :: r => (String.ofList r).toNat?.map (fun n => b.take n)
  | 'x' :: r => (String.ofList r).toNat?.map (fun off =>
      b.take off ++ (match b.drop off with | [] => [] | y :: t => (y ^^^ 0xff) :: t))
  | _ => none

/-- blob descriptor: `h<hex>` | `z<n>` | `r<seed>.<n>`, then `,t<n>` (truncate) / `,x<off>` (flip) -/
def parseBlob (s : String) : Option Bytes := do
  match s.splitOn "," with
  | [] => none
  | base :: mods =>
    let b ← match base.toList with
      | 'h' :: r => bytesOfHex (String.ofList r)
      | 'z' :: r => (String.ofList r).toNat?.map zeros
      | 'r' :: r =>
        match (String.ofList r).splitOn "." with
        | [a, b] => do
          let sd ← a.toNat?
          let n ← b.toNat?
          pure (randBytes sd n)
        | _ => none
      | _ => none
    mods.foldlM applyMod b

def joinHex (l : List Bytes) : String := hexOfBytes l.flatten

def natTok (s : String) : Except String Nat :=
  match s.toNat? with | some n => .ok n | none => .error s!"bad-nat:{s}"

def blobTok (s : String) : Except String Bytes :=
  match parseBlob s with | some b => .ok b | none => .error s!"bad-blob:{s}"

def optNat : Option Nat → String
  | none => "none"
  | some n => toString n

end Drv

import Driver.Util
import TorrentVerif.Model.HasherV1
import TorrentVerif.Model.Merkle
import Driver.G5
import Driver.G3
import Driver.G6
import Driver.G4
import Driver.G2
import Driver.G7
import Driver.G8
import Driver.G9
import Driver.G10
import Driver.G11
import Driver.G12
import Driver.G13
/-
  Correspondence driver.  One request per input line, one answer per output line.
  For every request it evaluates the implementation model `Impl.*` and the specification
  `Spec.*` on the same input, with the real SHA-1/SHA-256 as hash parameters.
-/
open TorrentVerif Drv

def entryStr (e : Impl.FileEntry) : String := (if e.pad then "p" else "f") ++ toString e.length

def handle : List String → Except String String
  | ["ping"] => .ok "pong"
  | ["blobsha", b] => do
    let d ← blobTok b
    .ok s!"{d.length} {hexOfBytes (sha1 d)} {hexOfBytes (sha256 d)}"
  -- v1 <align 0|1> <pl> <blob>...  → impl pieces, spec pieces, entries
  | "v1" :: al :: pl :: blobs => do
    let align := al == "1"
    let pl ← natTok pl
    let files ← blobs.mapM blobTok
    let impl := (Impl.hasherV1 align pl files).map sha1
    let spec := if align
      then (chunks pl (Spec.alignedStream pl files)).map sha1
      else Spec.v1Pieces sha1 pl files
    let sizes := files.map List.length
    let entries := if align then Impl.alignedEntries pl sizes else Impl.plainEntries sizes
    .ok s!"{joinHex impl} {joinHex spec} {" ".intercalate (entries.map entryStr)}"
  -- v2 <B> <hs> <bpp> <blob> → all hashers and the spec
  | ["v2", bS, hsS, bppS, blob] => do
    let B ← natTok bS
    let hs ← natTok hsS
    let bpp ← natTok bppS
    let d ← blobTok blob
    let j := Nat.log2 bpp
    let a := Impl.hasherV2 sha256 B hs bpp d
    let h := Impl.hasherHybrid sha256 sha1 B hs bpp d
    let f0 := Impl.fileHasher sha256 sha1 B hs bpp false d
    let f1 := Impl.fileHasher sha256 sha1 B hs bpp true d
    let sroot := Spec.root sha256 B hs d
    let slayer := Spec.pieceLayer sha256 B hs j d
    let spieces := Spec.hybridPieces sha1 (bpp * B) d
    let spad := Spec.hybridPadding (bpp * B) d
    .ok (" ".intercalate [
      "V2", hexOfBytes a.1, hexOfBytes a.2,
      "HY", hexOfBytes h.1, hexOfBytes h.2.1, joinHex h.2.2.1, optNat h.2.2.2,
      "F0", hexOfBytes f0.1, hexOfBytes f0.2.1, joinHex f0.2.2.1, optNat f0.2.2.2,
      "F1", hexOfBytes f1.1, hexOfBytes f1.2.1, joinHex f1.2.2.1, optNat f1.2.2.2,
      "SP", hexOfBytes sroot, joinHex slayer, joinHex spieces, optNat spad])
  | t =>
    match ([handleG5, handleG3, handleG6, handleG4, handleG2, handleG7, handleG8, handleG9, handleG10, handleG11, handleG12, handleG13] : List (List String → Option (Except String String))).findSome? (· t) with
    | some r => r
    | none => .error s!"bad-op:{" ".intercalate t}"

partial def loop (hin hout : IO.FS.Stream) : IO Unit := do
  let line ← hin.getLine
  if line.isEmpty then return ()
  let toks := (line.trimAscii.toString.splitOn " ").filter (· ≠ "")
  match handle toks with
  | .ok s => hout.putStrLn s
  | .error e => hout.putStrLn s!"ERR {e}"
  hout.flush
  loop hin hout

def main : IO Unit := do
  loop (← IO.getStdin) (← IO.getStdout)

def hello := "world"

import TorrentVerif.Proofs.Creators
/-
  The command-line creator (`TorrentAssembler`) and the class-based creators write the same
  metafile value.
-/
namespace TorrentVerif
open Impl Spec

theorem infoV2_nodup (o : CreateOpts) (single : Option Nat) (tree : BVal) :
    (keys (infoV2 o single tree)).Nodup := by
  have h0 := (metaDicts_info_good o).nodup
  unfold infoV2
  cases single with
  | none => exact nodup_keys_dictSet _ _ _ (nodup_keys_dictSet _ _ _ h0)
  | some n => exact nodup_keys_dictSet _ _ _ (nodup_keys_dictSet _ _ _ (nodup_keys_dictSet _ _ _ h0))

theorem infoAsmV2_nodup (o : CreateOpts) (single : Option Nat) (tree : BVal) :
    (keys (infoAsmV2 o single tree)).Nodup := by
  have h0 := (metaDicts_info_good o).nodup
  unfold infoAsmV2
  cases single with
  | none => exact nodup_keys_dictSet _ _ _ (nodup_keys_dictSet _ _ _ h0)
  | some n => exact nodup_keys_dictSet _ _ _ (nodup_keys_dictSet _ _ _ (nodup_keys_dictSet _ _ _ h0))

theorem infoAsmV2_get (o : CreateOpts) (single : Option Nat) (tree : BVal) (k : Bytes) :
    dictGet (infoAsmV2 o single tree) k = dictGet (infoV2 o single tree) k := by
  unfold infoAsmV2 infoV2
  cases single with
  | none =>
    simp only [dictGet_dictSet]
    by_cases h1 : K.metaVersion = k
    · subst h1; ksimp []
    · by_cases h2 : K.fileTree = k
      · subst h2; ksimp []
      · simp [h1, h2]
  | some n =>
    simp only [dictGet_dictSet]
    by_cases h1 : K.metaVersion = k
    · subst h1; ksimp []
    · by_cases h2 : K.fileTree = k
      · subst h2; ksimp []
      · by_cases h3 : K.length = k
        · subst h3; ksimp []
        · simp [h1, h2, h3]

/-- the two v2 assemblies differ only in the order in which `info` is filled -/
theorem sortMeta_asm2 (o : CreateOpts) (single : Option Nat) (tree : BVal)
    (layers : List (Bytes × Bytes)) :
    sortMeta (assembleAsmV2 o single tree layers) = sortMeta (assembleV2 o single tree layers) := by
  rw [assembleAsmV2_eq, assembleV2_eq]
  exact sortMeta_value_congr _ _ _ (sortDict_ext _ _ (infoAsmV2_nodup o single tree)
    (infoV2_nodup o single tree) (infoAsmV2_get o single tree))

theorem pl_div (o : CreateOpts) (B bpp : Nat) (hB : 0 < B) (hpl : o.pieceLength = bpp * B) :
    o.pieceLength / B = bpp := by
  rw [hpl]; exact Nat.mul_div_cancel _ hB

theorem createAsm_false_eq (o : CreateOpts) (H H1 : Bytes → Bytes) (B hs bpp : Nat)
    (hB : 0 < B) (hbpp : 0 < bpp) (hpl : o.pieceLength = bpp * B)
    (enum : List (Bytes × FTree) → List (Bytes × FTree)) (t : Node) :
    createAsm false o H H1 B hs enum t = createV2Class o H B hs enum t := by
  unfold createAsm createV2Class
  have hf : fhAsm H H1 B hs (o.pieceLength / B) false = fhV2 H B hs (o.pieceLength / B) := by
    funext d
    rw [pl_div o B bpp hB hpl]
    exact fhAsm_false H H1 B hs bpp hB hbpp d
  simp only [hf, Bool.false_eq_true, if_false]
  unfold written
  rw [sortMeta_asm2]

theorem createAsm_true_dir_eq (o : CreateOpts) (H H1 : Bytes → Bytes) (B hs bpp : Nat)
    (hB : 0 < B) (hbpp : 0 < bpp) (hpl : o.pieceLength = bpp * B)
    (enum : List (Bytes × FTree) → List (Bytes × FTree)) (es : List (Bytes × Node)) :
    createAsm true o H H1 B hs enum (.dir es) = createHybridClass o H H1 B hs enum (.dir es) := by
  unfold createAsm createHybridClass
  have hf : fhAsm H H1 B hs (o.pieceLength / B) true = fhHybrid H H1 B hs (o.pieceLength / B) := by
    funext d
    rw [pl_div o B bpp hB hpl]
    exact fhAsm_true H H1 B hs bpp hB hbpp d
  simp only [hf, if_true]

/-- `TorrentFileHybrid` on a single file: closed form -/
theorem createHybridClass_file (o : CreateOpts) (H H1 : Bytes → Bytes) (B hs bpp : Nat)
    (hB : 0 < B) (hbpp : 0 < bpp) (hpl : o.pieceLength = bpp * B)
    (enum : List (Bytes × FTree) → List (Bytes × FTree)) (d : Bytes) :
    createHybridClass o H H1 B hs enum (.file d) =
      written (assembleHybrid o (.single d.length) (leafVal (fhHybrid H H1 B hs bpp) d)
        ((chunks o.pieceLength d).map H1).flatten
        (layerItems (fhHybrid H H1 B hs bpp) o.pieceLength [([], d)])) := by
  unfold createHybridClass
  have hpos : 0 < o.pieceLength := by rw [hpl]; exact Nat.mul_pos hbpp hB
  simp only [pl_div o B bpp hB hpl, traverse_file]
  rw [hybridPieceList_eq _ _ (fhHybrid_pieces_nil H H1 B hs bpp hB hbpp)]
  simp only [List.map_cons, List.map_nil, List.flatten_cons, List.flatten_nil, List.append_nil]
  rw [fhHybrid_pieces H H1 B hs bpp hB hbpp d, ← hpl, singleTailList_pieces H1 _ hpos d]
  simp [traverse, treeVal]

/-- `TorrentAssembler` (hybrid) on a single file: closed form; the v1 hash has 20-byte digests -/
theorem createAsm_true_file (o : CreateOpts) (H H1 : Bytes → Bytes) (B hs bpp : Nat)
    (hB : 0 < B) (hbpp : 0 < bpp) (hpl : o.pieceLength = bpp * B) (h20 : ∀ x, (H1 x).length = 20)
    (enum : List (Bytes × FTree) → List (Bytes × FTree)) (d : Bytes) :
    createAsm true o H H1 B hs enum (.file d) =
      written (assembleHybrid o (.single d.length) (leafVal (fhHybrid H H1 B hs bpp) d)
        ((chunks o.pieceLength d).map H1).flatten
        (layerItems (fhHybrid H H1 B hs bpp) o.pieceLength [([], d)])) := by
  unfold createAsm
  have hpos : 0 < o.pieceLength := by rw [hpl]; exact Nat.mul_pos hbpp hB
  have hf : fhAsm H H1 B hs bpp true = fhHybrid H H1 B hs bpp := by
    funext d; exact fhAsm_true H H1 B hs bpp hB hbpp d
  simp only [pl_div o B bpp hB hpl, traverse_file, hf, if_true]
  rw [hybridPieceList_eq _ _ (fhHybrid_pieces_nil H H1 B hs bpp hB hbpp)]
  simp only [List.map_cons, List.map_nil, List.flatten_cons, List.flatten_nil, List.append_nil]
  rw [fhHybrid_pieces H H1 B hs bpp hB hbpp d, ← hpl, singleTailBytes_pieces H1 _ hpos d h20]
  simp [traverse, treeVal]

theorem createAsm_true_eq (o : CreateOpts) (H H1 : Bytes → Bytes) (B hs bpp : Nat)
    (hB : 0 < B) (hbpp : 0 < bpp) (hpl : o.pieceLength = bpp * B) (h20 : ∀ x, (H1 x).length = 20)
    (enum : List (Bytes × FTree) → List (Bytes × FTree)) (t : Node) :
    createAsm true o H H1 B hs enum t = createHybridClass o H H1 B hs enum t := by
  cases t with
  | file d =>
    rw [createAsm_true_file o H H1 B hs bpp hB hbpp hpl h20,
      createHybridClass_file o H H1 B hs bpp hB hbpp hpl]
  | dir es => exact createAsm_true_dir_eq o H H1 B hs bpp hB hbpp hpl enum es

end TorrentVerif

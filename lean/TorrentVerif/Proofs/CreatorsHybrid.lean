import TorrentVerif.Proofs.CreatorsAgree
import TorrentVerif.Proofs.CreatorsTree
import TorrentVerif.Proofs.CreatorsEntries
/-
  What the written value of each creator contains, key by key (read back through
  `BVal.infoGet?` / `BVal.get?`), and the whole-torrent facts of the hybrid creators.
-/
namespace TorrentVerif
open Impl Spec

/-! ### keys of the written `info`, generic in the payload parts -/

theorem metaDicts_info_absent (o : CreateOpts) (k : Bytes) (h1 : k ≠ K.comment) (h2 : k ≠ K.priv)
    (h3 : k ≠ K.source) (h4 : k ≠ K.pieceLength) (h5 : k ≠ K.name) :
    dictGet (metaDicts o).info k = none := by
  unfold metaDicts
  simp [dictGet_setIf, dictGet_dictSet, dictGet, Ne.symm h1, Ne.symm h2, Ne.symm h3, Ne.symm h4,
    Ne.symm h5]

structure HybridKeys (o : CreateOpts) (content : Content) (tree : BVal) (pieces : Bytes)
    (layers : List (Bytes × Bytes)) (r : BVal) : Prop where
  fileTree : r.infoGet? K.fileTree = some (treeOf o.name
    (match content with | .single _ => true | .multi _ => false) tree)
  pieces : r.infoGet? K.pieces = some (.str pieces)
  length : r.infoGet? K.length = (match content with | .single n => some (.int n) | .multi _ => none)
  files : r.infoGet? K.files = (match content with | .single _ => none | .multi f => some f)
  metaVersion : r.infoGet? K.metaVersion = some (.int 2)
  pieceLength : r.infoGet? K.pieceLength = some (.int o.pieceLength)
  name : r.infoGet? K.name = some (.str o.name)
  layers : r.get? K.pieceLayers = some (.dict (sortDict (layersDict layers)))

theorem hybrid_keys (o : CreateOpts) (content : Content) (tree : BVal) (pieces : Bytes)
    (layers : List (Bytes × Bytes)) (r : BVal)
    (h : sortMeta (assembleHybrid o content tree pieces layers) = some r) :
    HybridKeys o content tree pieces layers r := by
  rw [assembleHybrid_eq] at h
  have hg := assemble_infoGet _ _ r h
  have hn := metaDicts_info_name o
  have hpl := metaDicts_info_pieceLength o
  have hlen := metaDicts_info_absent o K.length (by decide) (by decide) (by decide) (by decide) (by decide)
  have hfl := metaDicts_info_absent o K.files (by decide) (by decide) (by decide) (by decide) (by decide)
  simp only [K.name] at hn
  simp only [K.pieceLength] at hpl
  simp only [K.length] at hlen
  simp only [K.files] at hfl
  have hly : r.get? K.pieceLayers = some (.dict (sortDict (layersDict layers))) := by
    rw [assemble_layers _ _ r h, topV2_layers]; rfl
  cases content with
  | single n =>
    constructor <;> first | exact hly | (rw [hg]; ksimp [infoHybrid, dictGet_dictSet, hn, hpl, hlen, hfl])
  | multi files =>
    constructor <;> first | exact hly | (rw [hg]; ksimp [infoHybrid, dictGet_dictSet, hn, hpl, hlen, hfl])

structure V2Keys (o : CreateOpts) (single : Option Nat) (tree : BVal)
    (layers : List (Bytes × Bytes)) (r : BVal) : Prop where
  fileTree : r.infoGet? K.fileTree = some (treeOf o.name single.isSome tree)
  length : r.infoGet? K.length = single.map (fun n => .int n)
  files : r.infoGet? K.files = none
  pieces : r.infoGet? K.pieces = none
  metaVersion : r.infoGet? K.metaVersion = some (.int 2)
  pieceLength : r.infoGet? K.pieceLength = some (.int o.pieceLength)
  name : r.infoGet? K.name = some (.str o.name)
  layers : r.get? K.pieceLayers = some (.dict (sortDict (layersDict layers)))

theorem v2_keys (o : CreateOpts) (single : Option Nat) (tree : BVal)
    (layers : List (Bytes × Bytes)) (r : BVal)
    (h : sortMeta (assembleV2 o single tree layers) = some r) : V2Keys o single tree layers r := by
  rw [assembleV2_eq] at h
  have hg := assemble_infoGet _ _ r h
  have hn := metaDicts_info_name o
  have hpl := metaDicts_info_pieceLength o
  have hlen := metaDicts_info_absent o K.length (by decide) (by decide) (by decide) (by decide) (by decide)
  have hfl := metaDicts_info_absent o K.files (by decide) (by decide) (by decide) (by decide) (by decide)
  have hpc := metaDicts_info_absent o K.pieces (by decide) (by decide) (by decide) (by decide) (by decide)
  simp only [K.name] at hn
  simp only [K.pieceLength] at hpl
  simp only [K.length] at hlen
  simp only [K.files] at hfl
  simp only [K.pieces] at hpc
  have hly : r.get? K.pieceLayers = some (.dict (sortDict (layersDict layers))) := by
    rw [assemble_layers _ _ r h, topV2_layers]; rfl
  cases single with
  | none =>
    constructor <;> first | exact hly | (rw [hg]; ksimp [infoV2, dictGet_dictSet, hn, hpl, hlen, hfl, hpc])
  | some n =>
    constructor <;> first | exact hly | (rw [hg]; ksimp [infoV2, dictGet_dictSet, hn, hpl, hlen, hfl, hpc])

structure V1Keys (o : CreateOpts) (content : Content) (pieces : Bytes) (r : BVal) : Prop where
  pieces : r.infoGet? K.pieces = some (.str pieces)
  length : r.infoGet? K.length = (match content with | .single n => some (.int n) | .multi _ => none)
  files : r.infoGet? K.files = (match content with | .single _ => none | .multi f => some f)
  pieceLength : r.infoGet? K.pieceLength = some (.int o.pieceLength)
  name : r.infoGet? K.name = some (.str o.name)
  fileTree : r.infoGet? K.fileTree = none
  metaVersion : r.infoGet? K.metaVersion = none
  layers : r.get? K.pieceLayers = none

theorem v1_keys (o : CreateOpts) (content : Content) (pieces : Bytes) (r : BVal)
    (h : sortMeta (assembleV1 o content pieces) = some r) : V1Keys o content pieces r := by
  rw [assembleV1_eq] at h
  have hg := assemble_infoGet _ _ r h
  have hn := metaDicts_info_name o
  have hpl := metaDicts_info_pieceLength o
  have hlen := metaDicts_info_absent o K.length (by decide) (by decide) (by decide) (by decide) (by decide)
  have hfl := metaDicts_info_absent o K.files (by decide) (by decide) (by decide) (by decide) (by decide)
  have hft := metaDicts_info_absent o K.fileTree (by decide) (by decide) (by decide) (by decide) (by decide)
  have hmv := metaDicts_info_absent o K.metaVersion (by decide) (by decide) (by decide) (by decide) (by decide)
  simp only [K.name] at hn
  simp only [K.pieceLength] at hpl
  simp only [K.length] at hlen
  simp only [K.files] at hfl
  simp only [K.fileTree] at hft
  simp only [K.metaVersion] at hmv
  have hly : r.get? K.pieceLayers = none := by
    rw [assemble_layers _ _ r h, metaDicts_top_noLayers]; rfl
  cases content with
  | single n =>
    constructor <;> first | exact hly | (rw [hg]; ksimp [infoV1, dictGet_dictSet, hn, hpl, hlen, hfl, hft, hmv])
  | multi files =>
    constructor <;> first | exact hly | (rw [hg]; ksimp [infoV1, dictGet_dictSet, hn, hpl, hlen, hfl, hft, hmv])

/-! ### the hybrid creators on a directory -/

theorem hybridPieces_flatten (H1 : Bytes → Bytes) (pl : Nat) (hpl : 0 < pl) (datas : List Bytes) :
    (datas.map (Spec.hybridPieces H1 pl)).flatten
      = (chunks pl (Spec.alignedStream pl datas)).map H1 := by
  have e : Spec.alignedStream pl datas = (datas.map (padded pl)).flatten := rfl
  rw [e, chunks_flatten_aligned pl hpl (datas.map (padded pl))
    (by intro s hs; obtain ⟨g, _, rfl⟩ := List.mem_map.mp hs; exact padded_length_dvd pl hpl g)]
  rw [List.map_flatten, List.map_map, List.map_map]
  rfl

/-- `TorrentFileHybrid` on a directory: what was written -/
theorem createHybridClass_dir (o : CreateOpts) (H H1 : Bytes → Bytes) (B hs bpp : Nat)
    (hB : 0 < B) (hbpp : 0 < bpp) (hpl : o.pieceLength = bpp * B)
    (enum : List (Bytes × FTree) → List (Bytes × FTree)) (es : List (Bytes × Node))
    (r : BVal) (b : Bytes) (h : createHybridClass o H H1 B hs enum (.dir es) = some (r, b)) :
    b = encode r ∧
    HybridKeys o
      (.multi (.list (v1Entries true o.pieceLength
        ((ftreeFiles [] (traverse enum (.dir es))).map fun x => (x.1, x.2.length)))))
      (treeVal (fhHybrid H H1 B hs bpp) (traverse enum (.dir es)))
      ((chunks o.pieceLength (Spec.alignedStream o.pieceLength
        ((ftreeFiles [] (traverse enum (.dir es))).map (·.2)))).map H1).flatten
      (layerItems (fhHybrid H H1 B hs bpp) o.pieceLength (ftreeFiles [] (traverse enum (.dir es))))
      r := by
  have hpos : 0 < o.pieceLength := by rw [hpl]; exact Nat.mul_pos hbpp hB
  unfold createHybridClass at h
  simp only [pl_div o B bpp hB hpl] at h
  obtain ⟨hs', hb⟩ := written_some _ r b h
  refine ⟨hb, ?_⟩
  have hk := hybrid_keys _ _ _ _ _ r hs'
  rw [hybridEntries_eq (fhHybrid H H1 B hs bpp) o.pieceLength
    (fun d _ => by rw [hpl]; exact fhHybrid_padding_spec H H1 B hs bpp hB hbpp d)] at hk
  rw [hybridPieceList_eq _ _ (fhHybrid_pieces_nil H H1 B hs bpp hB hbpp)] at hk
  have e : ((ftreeFiles [] (traverse enum (.dir es))).map
      fun x => (fhHybrid H H1 B hs bpp x.2).pieces)
      = ((ftreeFiles [] (traverse enum (.dir es))).map (·.2)).map
          (Spec.hybridPieces H1 o.pieceLength) := by
    rw [List.map_map]
    apply List.map_congr_left
    intro x _
    rw [hpl]
    exact fhHybrid_pieces_spec H H1 B hs bpp hB hbpp x.2
  rw [e, hybridPieces_flatten H1 _ hpos] at hk
  exact hk

/-! ### the creators succeed -/

theorem written_value_some (top info : Dict)
    (h : dictGet top K.pieceLayers = none ∨ ∃ L, dictGet top K.pieceLayers = some (.dict L)) :
    ∃ r b, written (MetaB.value ⟨top, info⟩) = some (r, b) := by
  unfold written
  rcases h with h | ⟨L, h⟩
  · rw [sortMeta_value_none top info h]; exact ⟨_, _, rfl⟩
  · rw [sortMeta_value top info L h]; exact ⟨_, _, rfl⟩

theorem written_hybrid_some (o : CreateOpts) (content : Content) (tree : BVal) (pieces : Bytes)
    (layers : List (Bytes × Bytes)) :
    ∃ r b, written (assembleHybrid o content tree pieces layers) = some (r, b) := by
  rw [assembleHybrid_eq]
  exact written_value_some _ _ (Or.inr ⟨_, topV2_layers o layers⟩)

theorem written_v2_some (o : CreateOpts) (single : Option Nat) (tree : BVal)
    (layers : List (Bytes × Bytes)) :
    ∃ r b, written (assembleV2 o single tree layers) = some (r, b) := by
  rw [assembleV2_eq]
  exact written_value_some _ _ (Or.inr ⟨_, topV2_layers o layers⟩)

theorem written_v1_some (o : CreateOpts) (content : Content) (pieces : Bytes) :
    ∃ r b, written (assembleV1 o content pieces) = some (r, b) := by
  rw [assembleV1_eq]
  exact written_value_some _ _ (Or.inl (metaDicts_top_noLayers o))

theorem createV2Class_some (o : CreateOpts) (H : Bytes → Bytes) (B hs : Nat)
    (enum : List (Bytes × FTree) → List (Bytes × FTree)) (t : Node) :
    ∃ r b, createV2Class o H B hs enum t = some (r, b) := by
  unfold createV2Class; exact written_v2_some _ _ _ _

theorem createAsm_false_some (o : CreateOpts) (H H1 : Bytes → Bytes) (B hs bpp : Nat)
    (hB : 0 < B) (hbpp : 0 < bpp) (hpl : o.pieceLength = bpp * B)
    (enum : List (Bytes × FTree) → List (Bytes × FTree)) (t : Node) :
    ∃ r b, createAsm false o H H1 B hs enum t = some (r, b) := by
  rw [createAsm_false_eq o H H1 B hs bpp hB hbpp hpl]; exact createV2Class_some _ _ _ _ _ _

theorem createHybridClass_some (o : CreateOpts) (H H1 : Bytes → Bytes) (B hs bpp : Nat)
    (hB : 0 < B) (hbpp : 0 < bpp) (hpl : o.pieceLength = bpp * B)
    (enum : List (Bytes × FTree) → List (Bytes × FTree)) (t : Node) :
    ∃ r b, createHybridClass o H H1 B hs enum t = some (r, b) := by
  cases t with
  | file d =>
    rw [createHybridClass_file o H H1 B hs bpp hB hbpp hpl]; exact written_hybrid_some _ _ _ _ _
  | dir es => unfold createHybridClass; exact written_hybrid_some _ _ _ _ _

theorem createAsm_true_some (o : CreateOpts) (H H1 : Bytes → Bytes) (B hs bpp : Nat)
    (hB : 0 < B) (hbpp : 0 < bpp) (hpl : o.pieceLength = bpp * B) (h20 : ∀ x, (H1 x).length = 20)
    (enum : List (Bytes × FTree) → List (Bytes × FTree)) (t : Node) :
    ∃ r b, createAsm true o H H1 B hs enum t = some (r, b) := by
  rw [createAsm_true_eq o H H1 B hs bpp hB hbpp hpl h20]
  exact createHybridClass_some o H H1 B hs bpp hB hbpp hpl enum t

/-! ### leaves of the written tree -/

theorem entryLength_leafProps (hf : Bytes → FileHash) (d : Bytes) :
    entryLength (leafProps hf d) = some d.length := by
  unfold leafProps
  by_cases h : d.length = 0
  · simp [h, entryLength, BVal.get?, dictGet]
  · simp [h, entryLength, BVal.get?, dictGet]

theorem leafProps_root (hf : Bytes → FileHash) (d : Bytes) :
    (leafProps hf d).get? K.piecesRoot = if d.length = 0 then none else some (.str (hf d).root) := by
  unfold leafProps
  by_cases h : d.length = 0
  · simp [h, BVal.get?, dictGet, K.length, K.piecesRoot]
  · simp [h, BVal.get?, dictGet, K.length, K.piecesRoot]

/-- both hybrid creators write the same thing for a directory -/
theorem hybrid_dir_reduce (o : CreateOpts) (H H1 : Bytes → Bytes) (B hs bpp : Nat)
    (hB : 0 < B) (hbpp : 0 < bpp) (hpl : o.pieceLength = bpp * B)
    (enum : List (Bytes × FTree) → List (Bytes × FTree)) (es : List (Bytes × Node))
    (r : BVal) (b : Bytes)
    (hc : createHybridClass o H H1 B hs enum (.dir es) = some (r, b) ∨
          createAsm true o H H1 B hs enum (.dir es) = some (r, b)) :
    createHybridClass o H H1 B hs enum (.dir es) = some (r, b) := by
  rcases hc with hc | hc
  · exact hc
  · rwa [createAsm_true_dir_eq o H H1 B hs bpp hB hbpp hpl] at hc

/-- the traversal of a well-named directory finds every listed file in the content tree -/
theorem traverse_fileAt (enum : List (Bytes × FTree) → List (Bytes × FTree))
    (henum : ∀ l, (enum l).Perm l) (t : Node) (hwn : WellNamed t) :
    ∀ x ∈ ftreeFiles [] (traverse enum t), fileAt t x.1 = some x.2 := by
  intro x hx
  obtain ⟨q, hq, hf⟩ := fileAt_of_ftreeFiles enum henum t hwn [] x.1 x.2 hx
  simp only [List.nil_append] at hq
  rw [hq]; exact hf

end TorrentVerif

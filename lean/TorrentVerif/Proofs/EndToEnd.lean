import TorrentVerif.Proofs.RecheckFull
import TorrentVerif.Proofs.CreatorsV1
import TorrentVerif.Proofs.CreatorsV2
import TorrentVerif.Proofs.CreatorsCanon
import TorrentVerif.Proofs.Quote
/-
  End to end, common glue: a metafile written by one of the creators (`Model/Creators`) read by
  the whole `Checker` (`Model/RecheckFull`) against the very tree it was created from.

  * the bytes a creator writes decode (lenient pyben decoder) to the value it wrote;
  * a path of the content tree (`Spec.fileAt`) is found by the checker's look-up
    (`RF.lookup` / `Spec.fileBytes`), its components are proper names;
  * `relpath(...).split(os.sep)` of a listed full path gives back the components;
  * `find_root` resolves the payload root when all described top-level entries exist in it.
-/
namespace TorrentVerif
open Impl Spec Listing RF

namespace E2E

/-! ### what the statements need of a content tree -/

mutual
/-- every entry name of the tree is a proper file name: not empty, not `.` or `..`, no `/`
    (what every real directory listing satisfies) -/
def PlainNamed : Node → Prop
  | .file _ => True
  | .dir es => PlainNamedList es
def PlainNamedList : List (Bytes × Node) → Prop
  | [] => True
  | (n, c) :: t => Spec.plainName n = true ∧ PlainNamed c ∧ PlainNamedList t
end

/-- number of payload bytes in a content tree -/
def treeBytes (t : Node) : Nat := ((Spec.allFiles [] t).map (·.2.length)).sum

theorem plainNamedList_mem : ∀ {es : List (Bytes × Node)}, PlainNamedList es →
    ∀ {n c}, (n, c) ∈ es → Spec.plainName n = true ∧ PlainNamed c
  | [], _, _, _, hm => by cases hm
  | (n', c') :: t, hw, n, c, hm => by
    simp only [PlainNamedList] at hw
    rcases List.mem_cons.mp hm with e | hm'
    · cases e; exact ⟨hw.1, hw.2.1⟩
    · exact plainNamedList_mem hw.2.2 hm'

theorem plainName_parts (n : Bytes) (h : Spec.plainName n = true) :
    n ≠ [] ∧ n ≠ [46] ∧ n ≠ [46, 46] ∧ sep ∉ n := by
  unfold Spec.plainName at h
  simp only [Bool.and_eq_true, decide_eq_true_eq, Bool.not_eq_true', ne_eq] at h
  refine ⟨h.1.1.1, h.1.1.2, h.1.2, ?_⟩
  intro hm
  have : n.contains 47 = true := by simpa [sep] using hm
  rw [this] at h; exact absurd h.2 (by decide)

/-! ### (a) the written bytes decode to the written value -/

theorem loads_encode (r : BVal) (h : Canonical r = true) : loads (encode r) = some r := by
  have := decode_encode r [] (canon_uniq r h)
  rw [List.append_nil] at this
  simp [loads, this]

/-! ### look-ups -/

theorem fileAtList_eq_child (es : List (Bytes × Node)) (n : Bytes) (r : List Bytes) :
    fileAtList es n r = (child (.dir es) n).bind (fun c => fileAt c r) := by
  induction es with
  | nil => simp [fileAtList, child]
  | cons e t ih =>
    obtain ⟨m, c⟩ := e
    by_cases h : m = n
    · simp [fileAtList, child, h]
    · simp only [fileAtList, h, if_false, ih]
      simp [child, List.find?, h]

/-- a file of the content tree is found by the checker's look-up at the same components -/
theorem lookup_of_fileAt : ∀ (cs : List Bytes) (t : Node) (d : Bytes),
    fileAt t cs = some d → lookup t cs = some (.file d)
  | [], t, d, h => by
    cases t with
    | file d0 => simp only [fileAt, Option.some.injEq] at h; subst h; rfl
    | dir es => simp [fileAt] at h
  | c :: cs, t, d, h => by
    cases t with
    | file d0 => simp [fileAt] at h
    | dir es =>
      simp only [fileAt, fileAtList_eq_child] at h
      cases hc : child (.dir es) c with
      | none => simp [hc] at h
      | some x =>
        simp only [hc, Option.bind_some] at h
        simp only [lookup, hc]
        exact lookup_of_fileAt cs x d h

theorem fileBytes_of_fileAt (t : Node) (cs : List Bytes) (d : Bytes) (h : fileAt t cs = some d) :
    fileBytes t cs = some d := by
  simp [fileBytes, lookup_of_fileAt cs t d h]

theorem child_mem (es : List (Bytes × Node)) (n : Bytes) (c : Node)
    (h : child (.dir es) n = some c) : (n, c) ∈ es := by
  simp only [child, Option.map_eq_some_iff] at h
  obtain ⟨a, ha, rfl⟩ := h
  have hm := List.mem_of_find?_eq_some ha
  have hp := List.find?_some ha
  simp only [decide_eq_true_eq] at hp
  rw [← hp]; exact hm

/-- the components of a path of the content tree are entry names: proper names -/
theorem fileAt_plain : ∀ (cs : List Bytes) (t : Node) (d : Bytes), PlainNamed t →
    fileAt t cs = some d → ∀ c ∈ cs, Spec.plainName c = true
  | [], _, _, _, _ => by simp
  | c :: cs, t, d, hp, h => by
    cases t with
    | file d0 => simp [fileAt] at h
    | dir es =>
      simp only [fileAt, fileAtList_eq_child] at h
      cases hc : child (.dir es) c with
      | none => simp [hc] at h
      | some x =>
        simp only [hc, Option.bind_some] at h
        simp only [PlainNamed] at hp
        have hm := plainNamedList_mem hp (child_mem es c x hc)
        intro c' hc'
        rcases List.mem_cons.mp hc' with e | e
        · rw [e]; exact hm.1
        · exact fileAt_plain cs x d hm.2 h c' e

/-- the first component of a path of a directory is one of its entries -/
theorem fileAt_head_child (es : List (Bytes × Node)) (c : Bytes) (cs : List Bytes) (d : Bytes)
    (h : fileAt (.dir es) (c :: cs) = some d) : (child (.dir es) c).isSome = true := by
  simp only [fileAt, fileAtList_eq_child] at h
  cases hc : child (.dir es) c with
  | none => simp [hc] at h
  | some x => rfl

theorem fileAt_dir_ne_nil (es : List (Bytes × Node)) (cs : List Bytes) (d : Bytes)
    (h : fileAt (.dir es) cs = some d) : cs ≠ [] := by
  intro e; subst e; simp [fileAt] at h

/-! ### full path strings and components -/

theorem foldl_join (cs : List Bytes) (p : Bytes) :
    cs.foldl join p = p ++ (cs.map (sep :: ·)).flatten := by
  induction cs generalizing p with
  | nil => simp
  | cons c r ih => simp [ih, join]

/-- `os.path.relpath(full, root).split(os.sep)` gives back the components -/
theorem relPath_foldl (pre : Bytes) (cs : List Bytes) (hne : cs ≠ [])
    (h : ∀ c ∈ cs, sep ∉ c) : relPath pre (cs.foldl join pre) = cs := by
  cases cs with
  | nil => exact absurd rfl hne
  | cons c r =>
    unfold relPath
    rw [foldl_join]
    have e : (pre ++ ((c :: r).map (sep :: ·)).flatten).drop (pre.length + 1)
        = c ++ (r.map (sep :: ·)).flatten := by
      simp [List.drop_append]
    rw [e]
    apply splitOn_join
    · intro x hx e'; exact h c (by simp) (e' ▸ hx)
    · intro s hs x hx e'; exact h s (by simp [hs]) (e' ▸ hx)

/-- every listed file of a well-named tree: its full path is the root path joined with the
    components of a path of the tree that leads to its contents -/
theorem allFiles_comps (pre : Bytes) (t : Node) (hwn : WellNamed t) :
    ∀ x ∈ allFiles pre t, ∃ cs, x.1 = cs.foldl join pre ∧ fileAt t cs = some x.2 := by
  intro x hx
  have hp := ftreeFiles_traverse_perm id (fun _ => .refl _) pre t []
  simp only [List.foldl_nil] at hp
  obtain ⟨y, hy, e⟩ := List.mem_map.mp (hp.symm.subset hx)
  have hf := traverse_fileAt id (fun _ => .refl _) t hwn y hy
  refine ⟨y.1, ?_, ?_⟩
  · rw [← e]
  · rw [← e]; exact hf

/-! ### sums over permutations -/

theorem sum_map_perm {α : Type} (f : α → Nat) {l₁ l₂ : List α} (h : l₁.Perm l₂) :
    (l₁.map f).sum = (l₂.map f).sum := (h.map f).sum_nat

theorem treeBytes_sorted (pre : Bytes) (t : Node) :
    ((sortedFiles pre t).map (·.2.length)).sum = treeBytes t := by
  unfold treeBytes
  have h1 : ((sortedFiles pre t).map (·.2)) = ((sortedFiles [] t).map (·.2)) := by
    rw [← sortedFiles_relative pre t, List.map_map]; rfl
  have h2 : (sortedFiles pre t).map (·.2.length) = ((sortedFiles pre t).map (·.2)).map List.length := by
    simp [List.map_map, Function.comp_def]
  have h3 : (sortedFiles [] t).map (·.2.length) = ((sortedFiles [] t).map (·.2)).map List.length := by
    simp [List.map_map, Function.comp_def]
  rw [h2, h1, ← h3]
  exact sum_map_perm _ (List.mergeSort_perm _ _)

theorem treeBytes_traverse (enum : List (Bytes × FTree) → List (Bytes × FTree))
    (henum : ∀ l, (enum l).Perm l) (t : Node) :
    ((ftreeFiles [] (traverse enum t)).map (·.2.length)).sum = treeBytes t := by
  unfold treeBytes
  have hp := ftreeFiles_traverse_perm enum henum [] t []
  simp only [List.foldl_nil] at hp
  have := sum_map_perm (fun x : Bytes × Bytes => x.2.length) hp
  simpa [List.map_map, Function.comp_def] using this

/-! ### `find_root` on the payload root -/

theorem filter_length_mono {α : Type} (l : List α) (p q : α → Bool)
    (h : ∀ x ∈ l, p x = true → q x = true) : (l.filter p).length ≤ (l.filter q).length := by
  induction l with
  | nil => simp
  | cons a t ih =>
    have iht := ih (fun x hx => h x (List.mem_cons_of_mem _ hx))
    by_cases hp : p a = true
    · have hq := h a (by simp) hp
      simp [hp, hq, iht]
    · by_cases hq : q a = true
      · simp only [List.filter_cons, hp, hq, if_true, List.length_cons]
        simp only [Bool.not_eq_true] at hp
        simp only [Bool.false_eq_true, if_false]; omega
      · simp only [Bool.not_eq_true] at hp hq
        simp [hp, hq, iht]

/-- when every described top-level entry that an entry `inner` of the payload holds also
    exists in the payload itself, `inner` cannot hold strictly more of them: `find_root` stays
    at the payload -/
theorem countTops_all (nd inner : Node) (tops : List Bytes)
    (h : ∀ x ∈ tops, (child inner x).isSome = true → (child nd x).isSome = true) :
    ¬ countTops nd tops < countTops inner tops := by
  unfold countTops
  have := filter_length_mono tops.eraseDups (fun t => (child inner t).isSome)
    (fun t => (child nd t).isSome) (fun x hx => h x (List.mem_eraseDups.mp hx))
  omega

/-- `find_root` stays at a payload directory as soon as `_is_parent` counts over tops that
    all exist in the payload (or are absent from the entry named like the torrent) -/
theorem descends_false (info : Dict) (name : Bytes) (es : List (Bytes × Node)) (tops : List Bytes)
    (htops : topsOf info name = .ok (some tops))
    (h : ∀ inner, child (.dir es) name = some inner →
      ∀ x ∈ tops, (child inner x).isSome = true → (child (.dir es) x).isSome = true) :
    descends info name (.dir es) = .ok false := by
  unfold descends
  cases hc : child (.dir es) name with
  | none => rfl
  | some inner =>
    simp only
    rw [Spec.isParent_tops info name tops _ _ htops]
    simp [countTops_all (.dir es) inner tops (h inner hc)]

end E2E
end TorrentVerif

import TorrentVerif.Model.Creators
import TorrentVerif.Proofs.CreateWF
import TorrentVerif.Proofs.Merkle
/-
  Whole-metafile creators (`Model/Creators.lean`): general facts.
  * dictionaries: extensional equality of sorted dictionaries, closed form of `sort_meta` on an
    assembled value;
  * the three v2-capable hashers deliver the same `FileHash`;
  * what `createX … = some (r, b)` unfolds to.
-/
namespace TorrentVerif
open Impl Spec

/-! ### dictionaries -/

theorem dictSet_dictSet_same (d : Dict) (k : Bytes) (a b : BVal) :
    dictSet (dictSet d k a) k b = dictSet d k b := by
  induction d with
  | nil => simp [dictSet]
  | cons kv r ih =>
    obtain ⟨k0, v0⟩ := kv
    by_cases e : k0 = k
    · simp [dictSet, e]
    · simp [dictSet, e, ih]

theorem nodup_of_keys_nodup (d : Dict) (h : (keys d).Nodup) : d.Nodup := by
  unfold keys at h
  rw [List.Nodup, List.pairwise_map] at h
  exact h.imp (fun {a b} hab e => hab (by rw [e]))

/-- two dictionaries (distinct keys) with the same lookups sort to the same list -/
theorem sortDict_ext (d e : Dict) (hd : (keys d).Nodup) (he : (keys e).Nodup)
    (h : ∀ k, dictGet d k = dictGet e k) : sortDict d = sortDict e := by
  apply sortDict_unique d (sortDict e) _ (strictAsc_sortDict e he)
  refine (sortDict_perm e).trans ?_
  rw [List.perm_ext_iff_of_nodup (nodup_of_keys_nodup e he) (nodup_of_keys_nodup d hd)]
  intro kv
  obtain ⟨k, v⟩ := kv
  rw [← dictGet_eq_some_iff e he k v, ← dictGet_eq_some_iff d hd k v, h k]

/-- `sort_meta` of an assembled value whose top level has a `piece layers` dictionary -/
theorem sortMeta_value (top info L : Dict) (h : dictGet top K.pieceLayers = some (.dict L)) :
    sortMeta (MetaB.value ⟨top, info⟩) = some (.dict (sortDict (dictSet
      (dictSet top K.info (.dict (sortDict info))) K.pieceLayers (.dict (sortDict L))))) := by
  unfold sortMeta MetaB.value
  simp only [dictGet_dictSet_same, dictSet_dictSet_same]
  rw [dictGet_dictSet_other _ _ _ _ (by decide), h]

/-- `sort_meta` of an assembled value without `piece layers` (v1) -/
theorem sortMeta_value_none (top info : Dict) (h : dictGet top K.pieceLayers = none) :
    sortMeta (MetaB.value ⟨top, info⟩) = some (.dict (sortDict
      (dictSet top K.info (.dict (sortDict info))))) := by
  unfold sortMeta MetaB.value
  simp only [dictGet_dictSet_same, dictSet_dictSet_same]
  rw [dictGet_dictSet_other _ _ _ _ (by decide), h]

/-- `sort_meta` sees `info` only through its sorted form -/
theorem sortMeta_value_congr (top info info' : Dict) (h : sortDict info = sortDict info') :
    sortMeta (MetaB.value ⟨top, info⟩) = sortMeta (MetaB.value ⟨top, info'⟩) := by
  unfold sortMeta MetaB.value
  simp only [dictGet_dictSet_same, dictSet_dictSet_same, h]

/-! ### the hashers as `FileHash` -/

theorem fhAsm_false (H H1 : Bytes → Bytes) (B hs bpp : Nat) (hB : 0 < B) (hbpp : 0 < bpp)
    (d : Bytes) : fhAsm H H1 B hs bpp false d = fhV2 H B hs bpp d := by
  unfold fhAsm fhV2
  rw [fileHasher_closed H H1 B hs bpp hB hbpp false d, hasherV2_closed H B hs bpp hB hbpp d]
  simp [Impl.calcRoot]

theorem fhAsm_true (H H1 : Bytes → Bytes) (B hs bpp : Nat) (hB : 0 < B) (hbpp : 0 < bpp)
    (d : Bytes) : fhAsm H H1 B hs bpp true d = fhHybrid H H1 B hs bpp d := by
  unfold fhAsm fhHybrid
  rw [fileHasher_closed H H1 B hs bpp hB hbpp true d, hasherHybrid_closed H H1 B hs bpp hB hbpp d]
  simp

theorem fhHybrid_root_layer (H H1 : Bytes → Bytes) (B hs bpp : Nat) (hB : 0 < B) (hbpp : 0 < bpp)
    (d : Bytes) : (fhHybrid H H1 B hs bpp d).root = (fhV2 H B hs bpp d).root ∧
      (fhHybrid H H1 B hs bpp d).layer = (fhV2 H B hs bpp d).layer := by
  unfold fhHybrid fhV2
  rw [hasherHybrid_closed H H1 B hs bpp hB hbpp d, hasherV2_closed H B hs bpp hB hbpp d]
  simp [Impl.calcRoot]


theorem fhHybrid_pieces (H H1 : Bytes → Bytes) (B hs bpp : Nat) (hB : 0 < B) (hbpp : 0 < bpp)
    (d : Bytes) :
    (fhHybrid H H1 B hs bpp d).pieces = (chunks (bpp * B) d).map (v1Piece H1 (bpp * B)) := by
  unfold fhHybrid
  rw [hasherHybrid_closed H H1 B hs bpp hB hbpp d]

theorem fhHybrid_pieces_spec (H H1 : Bytes → Bytes) (B hs bpp : Nat) (hB : 0 < B) (hbpp : 0 < bpp)
    (d : Bytes) : (fhHybrid H H1 B hs bpp d).pieces = Spec.hybridPieces H1 (bpp * B) d := by
  rw [fhHybrid_pieces H H1 B hs bpp hB hbpp d, v1Pieces_eq_spec H1 (bpp * B) (Nat.mul_pos hbpp hB) d]

theorem fhHybrid_padding_spec (H H1 : Bytes → Bytes) (B hs bpp : Nat) (hB : 0 < B) (hbpp : 0 < bpp)
    (d : Bytes) : (fhHybrid H H1 B hs bpp d).padding = Spec.hybridPadding (bpp * B) d := by
  unfold fhHybrid
  rw [hasherHybrid_closed H H1 B hs bpp hB hbpp d]
  exact padAfter_none_eq_spec (bpp * B) (Nat.mul_pos hbpp hB) d

theorem fhV2_root_spec (H : Bytes → Bytes) (B hs j : Nat) (hB : 0 < B) (d : Bytes) (hd : d ≠ []) :
    (fhV2 H B hs (2 ^ j) d).root = Spec.root H B hs d := by
  unfold fhV2
  rw [hasherV2_closed H B hs (2 ^ j) hB (Nat.two_pow_pos j) d]
  exact calcRoot_layers H B hs hB j d hd

theorem fhV2_layer_spec (H : Bytes → Bytes) (B hs j : Nat) (hB : 0 < B) (d : Bytes)
    (hlen : 2 ^ j * B < d.length) :
    (fhV2 H B hs (2 ^ j) d).layer = (Spec.pieceLayer H B hs j d).flatten := by
  unfold fhV2
  rw [hasherV2_closed H B hs (2 ^ j) hB (Nat.two_pow_pos j) d]
  show (layersFrom H B hs (2 ^ j) true (chunks (2 ^ j * B) d)).flatten = _
  rw [layers_multi H B hs hB j d hlen]

/-- the pieces a hybrid hasher would deliver for an empty file are none, so skipping the hasher
    for empty files does not show in `self.pieces` -/
theorem hybridPieceList_eq (hf : Bytes → FileHash) (files : List (List Bytes × Bytes))
    (h0 : ∀ d, d.length = 0 → (hf d).pieces = []) :
    hybridPieceList hf files = (files.map fun x => (hf x.2).pieces).flatten := by
  unfold hybridPieceList
  congr 1
  apply List.map_congr_left
  intro x _
  by_cases h : x.2.length = 0
  · simp [h, h0 x.2 h]
  · simp [h]

theorem fhHybrid_pieces_nil (H H1 : Bytes → Bytes) (B hs bpp : Nat) (hB : 0 < B) (hbpp : 0 < bpp)
    (d : Bytes) (h : d.length = 0) : (fhHybrid H H1 B hs bpp d).pieces = [] := by
  rw [fhHybrid_pieces H H1 B hs bpp hB hbpp d, List.eq_nil_of_length_eq_zero h, chunks_nil]; rfl

theorem traverse_file (enum : List (Bytes × FTree) → List (Bytes × FTree)) (d : Bytes) :
    ftreeFiles [] (traverse enum (.file d)) = [([], d)] := by
  simp [traverse, ftreeFiles]

/-! ### unfolding a successful creation -/

theorem written_some (v r : BVal) (b : Bytes) (h : written v = some (r, b)) :
    sortMeta v = some r ∧ b = encode r := by
  unfold written at h
  cases hs : sortMeta v with
  | none => simp [hs] at h
  | some r' =>
    simp only [hs, Option.map_some, Option.some.injEq, Prod.mk.injEq] at h
    exact ⟨by rw [h.1], by rw [← h.2, h.1]⟩

/-! ### example inputs for the `example`s of the property files -/
namespace Ex.G7

/-- options: two trackers, comment, private, source, one web seed; piece length 4 (= 2 blocks
    of 2 bytes); root name `r` -/
def exOpts : CreateOpts :=
  { createdBy := [116], creationDate := 1700000000, announce := .list [[104], [105]],
    comment := [99], priv := true, source := [115], urlList := .str [119],
    httpseeds := .none, pieceLength := 4, name := [114] }

/-- the same payload options, other trackers / seeds / creator / clock -/
def exOpts' : CreateOpts :=
  { createdBy := [117], creationDate := 1800000000, announce := .none,
    comment := [99], priv := true, source := [115], urlList := .none,
    httpseeds := .list [[120]], pieceLength := 4, name := [114] }

/-- stored (enumeration) order is not sorted; `b` has 9 bytes (3 pieces, last one short),
    `a/y` 2 bytes, `a/x` is empty, `a.b` is exactly one piece, `c` is an empty directory -/
def exTree : Node :=
  .dir [([98], .file [1, 2, 3, 4, 5, 6, 7, 8, 9]),
        ([97], .dir [([121], .file [2, 3]), ([120], .file [])]),
        ([97, 46, 98], .file [4, 5, 6, 7]),
        ([99], .dir [])]

theorem exTree_wellNamed : Spec.WellNamed exTree := by
  simp [exTree, Spec.WellNamed, Spec.WellNamedList, Listing.sep]

/-- a single file of 9 bytes -/
def exFile : Node := .file [1, 2, 3, 4, 5, 6, 7, 8, 9]

end Ex.G7

end TorrentVerif

import TorrentVerif.Proofs.RbMeta
import TorrentVerif.Proofs.RbMetaV2
/-
  Facts about the files of a content tree that the end-to-end rebuild theorems need: every file
  is listed, no file path is a prefix of another, the accepted destinations of the records are
  separate, a view of the rebuilt destination finds every file.
-/
namespace TorrentVerif
open Rebuild PosixPath Spec Impl Listing

namespace RbMeta
open E2E RF

/-! ### paths of files -/

/-- a file has nothing below it -/
theorem fileAt_prefix : ∀ (p q : List Bytes) (t : Node) (d d' : Bytes),
    fileAt t p = some d → fileAt t (p ++ q) = some d' → q = []
  | [], q, t, d, d', h1, h2 => by
    cases t with
    | file d0 =>
      cases q with
      | nil => rfl
      | cons c q' => simp [fileAt] at h2
    | dir es => simp [fileAt] at h1
  | c :: p, q, t, d, d', h1, h2 => by
    cases t with
    | file d0 => simp [fileAt] at h1
    | dir es =>
      simp only [List.cons_append, fileAt, fileAtList_eq_child] at h1 h2
      cases hc : child (.dir es) c with
      | none => simp [hc] at h1
      | some x =>
        simp only [hc, Option.bind_some] at h1 h2
        exact fileAt_prefix p q x d d' h1 h2

theorem fileAt_of_lookup : ∀ (cs : List Bytes) (t : Node) (d : Bytes),
    lookup t cs = some (.file d) → fileAt t cs = some d
  | [], t, d, h => by
    simp only [lookup, Option.some.injEq] at h; subst h; rfl
  | c :: cs, t, d, h => by
    cases t with
    | file d0 => simp [lookup, child] at h
    | dir es =>
      simp only [fileAt, fileAtList_eq_child]
      cases hc : child (.dir es) c with
      | none => simp [lookup, hc] at h
      | some x =>
        simp only [lookup, hc] at h
        simp only [Option.bind_some]
        exact fileAt_of_lookup cs x d h

mutual
/-- the traversal lists every file of the tree -/
theorem mem_ftreeFiles_of_fileAt (enum : List (Bytes × FTree) → List (Bytes × FTree))
    (henum : ∀ l, (enum l).Perm l) : (t : Node) → ∀ (pre cs : List Bytes) (d : Bytes),
    fileAt t cs = some d → (pre ++ cs, d) ∈ ftreeFiles pre (traverse enum t)
  | .file d0, pre, cs, d, h => by
    cases cs with
    | nil =>
      simp only [fileAt, Option.some.injEq] at h; subst h
      simp [traverse, ftreeFiles]
    | cons c q => simp [fileAt] at h
  | .dir es, pre, cs, d, h => by
    cases cs with
    | nil => simp [fileAt] at h
    | cons n q =>
      simp only [fileAt] at h
      simp only [traverse, ftreeFiles]
      exact (ftreeFilesList_perm pre ((List.mergeSort_perm _ _).trans (henum _))).symm.subset
        (mem_ftreeFilesList_of_fileAtList enum henum es pre n q d h)
theorem mem_ftreeFilesList_of_fileAtList (enum : List (Bytes × FTree) → List (Bytes × FTree))
    (henum : ∀ l, (enum l).Perm l) : (es : List (Bytes × Node)) → ∀ (pre : List Bytes) (n : Bytes)
    (q : List Bytes) (d : Bytes), fileAtList es n q = some d →
    (pre ++ n :: q, d) ∈ ftreeFilesList pre (traverseChildren enum es)
  | [], _, _, _, _, h => by simp [fileAtList] at h
  | (m, c) :: t, pre, n, q, d, h => by
    simp only [fileAtList] at h
    simp only [traverseChildren, ftreeFilesList, List.mem_append]
    by_cases e : m = n
    · subst e
      simp only [if_true] at h
      left
      have := mem_ftreeFiles_of_fileAt enum henum c (pre ++ [m]) q d h
      simpa using this
    · simp only [e, if_false] at h
      exact Or.inr (mem_ftreeFilesList_of_fileAtList enum henum t pre n q d h)
end

mutual
/-- the stored listing contains every file of the tree under its full path string -/
theorem mem_allFiles_of_fileAt (pre : Bytes) : (t : Node) → ∀ (cs : List Bytes) (d : Bytes),
    fileAt t cs = some d → (cs.foldl Listing.join pre, d) ∈ allFiles pre t
  | .file d0, cs, d, h => by
    cases cs with
    | nil => simp only [fileAt, Option.some.injEq] at h; subst h; simp [allFiles]
    | cons c q => simp [fileAt] at h
  | .dir es, cs, d, h => by
    cases cs with
    | nil => simp [fileAt] at h
    | cons n q =>
      simp only [fileAt] at h
      simp only [allFiles, List.foldl_cons]
      exact mem_allFilesList_of_fileAtList pre es n q d h
theorem mem_allFilesList_of_fileAtList (pre : Bytes) : (es : List (Bytes × Node)) →
    ∀ (n : Bytes) (q : List Bytes) (d : Bytes), fileAtList es n q = some d →
    (q.foldl Listing.join (Listing.join pre n), d) ∈ allFilesList pre es
  | [], _, _, _, h => by simp [fileAtList] at h
  | (m, c) :: t, n, q, d, h => by
    simp only [fileAtList] at h
    simp only [allFilesList, List.mem_append]
    by_cases e : m = n
    · subst e
      simp only [if_true] at h
      exact Or.inl (mem_allFiles_of_fileAt (Listing.join pre m) c q d h)
    · simp only [e, if_false] at h
      exact Or.inr (mem_allFilesList_of_fileAtList pre t n q d h)
end

/-- the traversal lists no path twice -/
theorem ftreeFiles_paths_nodup (enum : List (Bytes × FTree) → List (Bytes × FTree))
    (henum : ∀ l, (enum l).Perm l) (t : Node) (hwn : WellNamed t) :
    ((ftreeFiles [] (traverse enum t)).map (·.1)).Nodup := by
  have hp := ftreeFiles_traverse_perm enum henum [] t []
  simp only [List.foldl_nil] at hp
  have h1 := (hp.map (·.1)).nodup_iff.mpr (allFiles_paths_nodup [] t hwn)
  rw [List.map_map] at h1
  have h2 : (fun x : List Bytes × Bytes => x.1.foldl Listing.join [])
      = (fun p : List Bytes => p.foldl Listing.join []) ∘ (·.1) := rfl
  have h3 : ((fun x : Bytes × Bytes => x.1) ∘ fun x : List Bytes × Bytes => (x.1.foldl Listing.join [], x.2))
      = (fun p : List Bytes => p.foldl Listing.join []) ∘ (·.1) := rfl
  rw [h3, ← List.map_map] at h1
  exact (List.pairwise_map.mp h1).imp (fun h e => h (congrArg _ e))

/-! ### separate destinations -/

/-- positions are determined by the key among the records that are not padding records -/
theorem index_of_nodup_filter {α β : Type} [DecidableEq β] (p : α → Bool) (f : α → β) :
    ∀ (l : List α), ((l.filter p).map f).Nodup → ∀ (i j : Nat) (a b : α), l[i]? = some a →
      l[j]? = some b → p a = true → p b = true → f a = f b → i = j
  | [], _, i, _, a, _, h, _, _, _, _ => by simp at h
  | x :: l, hnd, i, j, a, b, hi, hj, hpa, hpb, hf => by
    have ih := index_of_nodup_filter p f l
    by_cases hpx : p x = true
    · simp only [List.filter_cons, hpx, if_true, List.map_cons, List.nodup_cons] at hnd
      cases i with
      | zero =>
        cases j with
        | zero => rfl
        | succ j =>
          exfalso
          simp only [List.getElem?_cons_zero, Option.some.injEq] at hi
          simp only [List.getElem?_cons_succ] at hj
          subst hi
          apply hnd.1
          rw [hf]
          exact List.mem_map_of_mem (List.mem_filter.mpr ⟨List.mem_of_getElem? hj, hpb⟩)
      | succ i =>
        cases j with
        | zero =>
          exfalso
          simp only [List.getElem?_cons_zero, Option.some.injEq] at hj
          simp only [List.getElem?_cons_succ] at hi
          subst hj
          apply hnd.1
          rw [← hf]
          exact List.mem_map_of_mem (List.mem_filter.mpr ⟨List.mem_of_getElem? hi, hpa⟩)
        | succ j =>
          simp only [List.getElem?_cons_succ] at hi hj
          rw [ih hnd.2 i j a b hi hj hpa hpb hf]
    · have hnd' : ((l.filter p).map f).Nodup := by
        simpa [List.filter_cons, hpx] using hnd
      cases i with
      | zero =>
        simp only [List.getElem?_cons_zero, Option.some.injEq] at hi
        subst hi; exact absurd hpa hpx
      | succ i =>
        cases j with
        | zero =>
          simp only [List.getElem?_cons_zero, Option.some.injEq] at hj
          subst hj; exact absurd hpb hpx
        | succ j =>
          simp only [List.getElem?_cons_succ] at hi hj
          rw [ih hnd' i j a b hi hj hpa hpb hf]

/-- the records that are not padding records have separate destinations when their relative
    paths (`key`) are pairwise different and none is a prefix of another -/
theorem destsSeparate_of (dest : Path) (files : List Rebuild.FileRec) (key : Rebuild.FileRec → List Bytes)
    (hjoin : ∀ r ∈ files, r.pad = false → safeJoin dest r.full = some (dest ++ key r))
    (hnd : ((files.filter (fun r => !r.pad)).map key).Nodup)
    (hpre : ∀ r ∈ files, ∀ r' ∈ files, r.pad = false → r'.pad = false → key r' <+: key r →
      key r' = key r) :
    DestsSeparate dest files := by
  intro i j ri rj di dj hfi hfj hpi hpj hsi hsj hpref
  have hmi := List.mem_of_getElem? hfi
  have hmj := List.mem_of_getElem? hfj
  rw [hjoin ri hmi hpi] at hsi
  rw [hjoin rj hmj hpj] at hsj
  injection hsi with hsi
  injection hsj with hsj
  subst hsi hsj
  have hk : key rj <+: key ri := (List.prefix_append_right_inj dest).mp hpref
  have heq := hpre ri hmi rj hmj hpi hpj hk
  exact index_of_nodup_filter (fun r => !r.pad) key files hnd i j ri rj hfi hfj (by simp [hpi])
    (by simp [hpj]) heq.symm

/-! ### a view of the rebuilt destination -/

theorem objOf_file {n : Node} {d : Bytes} (h : objOf n = .file d) : n = .file d := by
  cases n with
  | file d0 => simp only [objOf, Obj.file.injEq] at h; rw [h]
  | dir es => simp [objOf] at h

/-- what is a regular file in the filesystem is one in every view of it -/
theorem view_fileAt {fs : FS} {p : Path} {disk : Node} (hv : ViewOf fs p disk) (cs : List Bytes)
    (d : Bytes) (h : fs (p ++ cs) = some (.file d)) : fileAt disk cs = some d := by
  have := hv cs
  rw [h] at this
  cases hl : lookup disk cs with
  | none => rw [hl] at this; simp at this
  | some n =>
    rw [hl] at this
    simp only [Option.map_some, Option.some.injEq] at this
    rw [objOf_file this.symm] at hl
    exact fileAt_of_lookup cs disk d hl

/-- a disk that holds every file of `t` is a file exactly when `t` is (`t` has a file) -/
theorem isFile_of_holds (t disk : Node) (hdisk : ∀ cs d, fileAt t cs = some d → fileAt disk cs = some d)
    (hex : ∃ cs d, fileAt t cs = some d) : isFile disk = isFile t := by
  obtain ⟨cs, d, h⟩ := hex
  have h' := hdisk cs d h
  cases t with
  | file d0 =>
    cases cs with
    | nil =>
      cases disk with
      | file d1 => rfl
      | dir es => simp [fileAt] at h'
    | cons c q => simp [fileAt] at h
  | dir es =>
    cases cs with
    | nil => simp [fileAt] at h
    | cons c q =>
      cases disk with
      | file d1 => simp [fileAt] at h'
      | dir es' => rfl

end RbMeta
end TorrentVerif

import TorrentVerif.Proofs.FilterEmpty
/-
  `edit_torrent`: exact effect on every key of the top level and of `info`.
-/
namespace TorrentVerif
open Impl Spec

def editInfo1 (req : EditReq) (i : Dict) : Dict :=
  putOpt (putOpt (putOpt i K.comment req.comment.val) K.source req.source.val) K.priv req.priv.one

def editTop1 (tr : Option (Bytes × List Bytes)) (t : Dict) : Dict :=
  match tr with
  | none => t
  | some (a, l) => dictSet (dictSet t K.announce (.str a)) K.announceList (.list [strs l])

def editTop2 (req : EditReq) (t : Dict) : Dict :=
  putOpt (putOpt t K.urlList req.urlList.seeds) K.httpseeds req.httpseeds.seeds

def editInfo2 (ks : List Bytes) (i : Dict) : Dict := if keys i ≠ ks then sortDict i else i

/-- a successful edit, spelled out -/
theorem edit_ok (mf mf' : BVal) (req : EditReq) (h : editTorrent mf req = .ok mf') :
    ∃ top info tr, mf = .dict top ∧ dictGet top K.info = some (.dict info) ∧
      req.announce.trackers = .ok tr ∧
      mf' = .dict (sortDict (dictSet
        (editTop2 req (editTop1 tr (filterEmpty req (top, info)).1)) K.info
        (.dict (editInfo2 (keys info) (editInfo1 req (filterEmpty req (top, info)).2))))) := by
  unfold editTorrent at h
  cases mf with
  | dict top =>
    simp only at h
    cases hi : dictGet top K.info with
    | none => simp [hi] at h
    | some iv =>
      cases iv with
      | dict info =>
        simp only [hi] at h
        cases ht : req.announce.trackers with
        | error e => simp [ht] at h
        | ok tr =>
          simp only [ht, Except.ok.injEq] at h
          refine ⟨top, info, tr, rfl, hi, rfl, ?_⟩
          rw [← h]
          cases tr with
          | none => rfl
          | some al => rfl
      | int _ => simp [hi] at h
      | str _ => simp [hi] at h
      | list _ => simp [hi] at h
  | int _ => simp at h
  | str _ => simp at h
  | list _ => simp at h

theorem putOpt_get (d : Dict) (key k : Bytes) (o : Option BVal) :
    dictGet (putOpt d key o) k = match o with
      | some v => if key = k then some v else dictGet d k
      | none => dictGet d k := by
  cases o <;> simp [putOpt, dictGet_dictSet]

theorem editInfo2_get (ks : List Bytes) (i : Dict) (k : Bytes) :
    dictGet (editInfo2 ks i) k = dictGet i k := by
  unfold editInfo2; split <;> simp [dictGet_sortDict']

/-! ### relations between the ways a request value is read -/

theorem val_isDel (e : EVal) (v : BVal) (h : e.val = some v) : e.isDel = false := by
  cases e with
  | str s => by_cases hs : s = [] <;> simp_all [EVal.val, EVal.isDel]
  | _ => simp_all [EVal.val, EVal.isDel]

theorem one_isDel (e : EVal) (v : BVal) (h : e.one = some v) : e.isDel = false := by
  cases e with
  | str s => by_cases hs : s = [] <;> simp_all [EVal.one, EVal.isDel]
  | _ => simp_all [EVal.one, EVal.isDel]

theorem seeds_isDel (e : EVal) (v : BVal) (h : e.seeds = some v) : e.isDel = false := by
  cases e with
  | str s => by_cases hs : s = [] <;> simp_all [EVal.seeds, EVal.isDel]
  | _ => simp_all [EVal.seeds, EVal.isDel]

theorem trackers_isDel (e : EVal) (al : Bytes × List Bytes) (h : e.trackers = .ok (some al)) :
    e.isDel = false := by
  cases e with
  | str s =>
    by_cases hs : s = []
    · simp_all [EVal.trackers]
    · simp [EVal.isDel, hs]
  | _ => simp_all [EVal.trackers, EVal.isDel]

/-! ### the general per-key effect (no assumption on the metafile) -/

/-- top level: besides the four top-level fields, a cleared `comment` / `source` / `private`
    removes a (foreign) top-level key of that name -/
def topWriteG (k : Bytes) (r : EditReq) : Write :=
  if k = K.comment then (if r.comment.isDel then .remove else .keep)
  else if k = K.source then (if r.source.isDel then .remove else .keep)
  else if k = K.priv then (if r.priv.isDel then .remove else .keep)
  else topWrite k r

/-- `info`: a cleared field is removed from `info` only if no top-level key had that name -/
def infoWriteG (top : Dict) (k : Bytes) (r : EditReq) : Write :=
  if k = K.comment then
    (match r.comment.val with
     | some v => .put v
     | none => if r.comment.isDel && !dictHas top K.comment then .remove else .keep)
  else if k = K.source then
    (match r.source.val with
     | some v => .put v
     | none => if r.source.isDel && !dictHas top K.source then .remove else .keep)
  else if k = K.priv then
    (match r.priv.one with
     | some v => .put v
     | none => if r.priv.isDel && !dictHas top K.priv then .remove else .keep)
  else .keep

theorem edit_info_get (mf mf' : BVal) (req : EditReq) (h : editTorrent mf req = .ok mf')
    (top : Dict) (hm : mf = .dict top) (k : Bytes) :
    mf'.infoGet? k = (infoWriteG top k req).apply (mf.infoGet? k) := by
  obtain ⟨top', info, tr, hmf, hi, _, rfl⟩ := edit_ok mf mf' req h
  subst hmf
  cases hm
  have hinfo : (BVal.dict top).infoGet? k = dictGet info k := by
    simp [BVal.infoGet?, BVal.get?, hi]
  rw [hinfo]
  simp only [BVal.infoGet?, BVal.get?, dictGet_sortDict', dictGet_dictSet_same, Option.bind_some,
    editInfo2_get, editInfo1, putOpt_get, filterEmpty_info_get]
  unfold infoWriteG
  cases hv1 : req.comment.val <;> cases hv2 : req.source.val <;> cases hv3 : req.priv.one <;>
    cases hd1 : req.comment.isDel <;> cases hd2 : req.source.isDel <;> cases hd3 : req.priv.isDel <;>
    (first
      | (have := val_isDel _ _ hv1; simp_all; done)
      | (have := val_isDel _ _ hv2; simp_all; done)
      | (have := one_isDel _ _ hv3; simp_all; done)
      | skip) <;>
    (by_cases h1 : k = K.comment
     · subst h1; cases hh : dictHas top K.comment <;> ksimp [Write.apply]
     · by_cases h2 : k = K.source
       · subst h2; cases hh : dictHas top K.source <;> ksimp [Write.apply]
       · by_cases h3 : k = K.priv
         · subst h3; cases hh : dictHas top K.priv <;> ksimp [Write.apply]
         · have h1' : ¬ K.comment = k := fun e => h1 e.symm
           have h2' : ¬ K.source = k := fun e => h2 e.symm
           have h3' : ¬ K.priv = k := fun e => h3 e.symm
           simp [h1, h2, h3, h1', h2', h3', Write.apply])


theorem edit_top_get (mf mf' : BVal) (req : EditReq) (h : editTorrent mf req = .ok mf')
    (k : Bytes) (hk : k ≠ K.info) :
    mf'.get? k = (topWriteG k req).apply (mf.get? k) := by
  obtain ⟨top, info, tr, hmf, hi, ht, rfl⟩ := edit_ok mf mf' req h
  subst hmf
  have hk' : K.info ≠ k := fun e => hk e.symm
  simp only [BVal.get?, dictGet_sortDict', dictGet_dictSet_other _ _ _ _ hk', editTop2, putOpt_get]
  unfold topWriteG topWrite
  by_cases h1 : k = K.comment
  · subst h1
    cases hs1 : req.urlList.seeds <;> cases hs2 : req.httpseeds.seeds <;> cases tr <;>
      cases hd : req.comment.isDel <;>
      ksimp [editTop1, dictGet_dictSet, filterEmpty_top_get, Write.apply, hd]
  · by_cases h2 : k = K.source
    · subst h2
      cases hs1 : req.urlList.seeds <;> cases hs2 : req.httpseeds.seeds <;> cases tr <;>
        cases hd : req.source.isDel <;>
        ksimp [editTop1, dictGet_dictSet, filterEmpty_top_get, Write.apply, hd]
    · by_cases h3 : k = K.priv
      · subst h3
        cases hs1 : req.urlList.seeds <;> cases hs2 : req.httpseeds.seeds <;> cases tr <;>
          cases hd : req.priv.isDel <;>
          ksimp [editTop1, dictGet_dictSet, filterEmpty_top_get, Write.apply, hd]
      · by_cases h4 : k = K.announce
        · subst h4
          cases hs1 : req.urlList.seeds <;> cases hs2 : req.httpseeds.seeds <;> cases tr <;>
            cases hd : req.announce.isDel <;>
            (first
              | (have := trackers_isDel _ _ ht; simp_all; done)
              | ksimp [editTop1, dictGet_dictSet, filterEmpty_top_get, Write.apply, hd, writeOf,
                  annFirst, ht])
        · by_cases h5 : k = K.announceList
          · subst h5
            cases hs1 : req.urlList.seeds <;> cases hs2 : req.httpseeds.seeds <;> cases tr <;>
              ksimp [editTop1, dictGet_dictSet, filterEmpty_top_get, Write.apply, annTiers, ht]
          · by_cases h6 : k = K.urlList
            · subst h6
              cases hs1 : req.urlList.seeds <;> cases hs2 : req.httpseeds.seeds <;> cases tr <;>
                cases hd : req.urlList.isDel <;>
                (first
                  | (have := seeds_isDel _ _ hs1; simp_all; done)
                  | ksimp [editTop1, dictGet_dictSet, filterEmpty_top_get, Write.apply, hd, writeOf,
                      hs1])
            · by_cases h7 : k = K.httpseeds
              · subst h7
                cases hs1 : req.urlList.seeds <;> cases hs2 : req.httpseeds.seeds <;> cases tr <;>
                  cases hd : req.httpseeds.isDel <;>
                  (first
                    | (have := seeds_isDel _ _ hs2; simp_all; done)
                    | ksimp [editTop1, dictGet_dictSet, filterEmpty_top_get, Write.apply, hd, writeOf,
                        hs2])
              · have e1 : ¬ K.comment = k := fun e => h1 e.symm
                have e2 : ¬ K.source = k := fun e => h2 e.symm
                have e3 : ¬ K.priv = k := fun e => h3 e.symm
                have e4 : ¬ K.announce = k := fun e => h4 e.symm
                have e5 : ¬ K.announceList = k := fun e => h5 e.symm
                have e6 : ¬ K.urlList = k := fun e => h6 e.symm
                have e7 : ¬ K.httpseeds = k := fun e => h7 e.symm
                cases hs1 : req.urlList.seeds <;> cases hs2 : req.httpseeds.seeds <;> cases tr <;>
                  simp [editTop1, dictGet_dictSet, filterEmpty_top_get, Write.apply, h1, h2, h3, h4,
                    h5, h6, h7, e1, e2, e3, e4, e5, e6, e7]

end TorrentVerif

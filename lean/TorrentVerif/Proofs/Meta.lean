import TorrentVerif.Proofs.Codec
import TorrentVerif.Model.Meta
/-
  Lemmas about metafile assembly and `sort_meta`:
  "good" dictionaries (distinct keys, canonical values) are preserved by every dictionary
  operation the code uses; `sortMeta` of a good metafile is canonical; what `sortMeta` keeps.
-/
namespace TorrentVerif

theorem dictGet_dictSet (d : Dict) (k k' : Bytes) (v : BVal) :
    dictGet (dictSet d k v) k' = if k = k' then some v else dictGet d k' := by
  by_cases h : k = k'
  · subst h; simp [dictGet_dictSet_same]
  · simp [h, dictGet_dictSet_other d k k' v h]

theorem dictGet_dictDel (d : Dict) (k k' : Bytes) :
    dictGet (dictDel d k) k' = if k = k' then none else dictGet d k' := by
  by_cases h : k = k'
  · subst h; simp [dictGet_dictDel_same]
  · simp [h, dictGet_dictDel_other d k k' h]

theorem dictGet_setIf (c : Bool) (d : Dict) (k k' : Bytes) (v : BVal) :
    dictGet (Impl.setIf c d k v) k' = if c = true ∧ k = k' then some v else dictGet d k' := by
  unfold Impl.setIf
  cases c <;> simp [dictGet_dictSet]

/-- simp with all key names unfolded (so that `K.a = K.b` is decided) -/
macro "ksimp" "[" ls:Lean.Parser.Tactic.simpLemma,* "]" : tactic =>
  `(tactic| simp [K.info, K.announce, K.announceList, K.urlList, K.httpseeds, K.comment, K.source,
      K.priv, K.pieceLength, K.name, K.createdBy, K.creationDate, K.length, K.files, K.pieces,
      K.fileTree, K.metaVersion, K.pieceLayers, $ls,*])
macro "ksimp" "[" ls:Lean.Parser.Tactic.simpLemma,* "]" " at " h:ident : tactic =>
  `(tactic| simp [K.info, K.announce, K.announceList, K.urlList, K.httpseeds, K.comment, K.source,
      K.priv, K.pieceLength, K.name, K.createdBy, K.creationDate, K.length, K.files, K.pieces,
      K.fileTree, K.metaVersion, K.pieceLayers, $ls,*] at $h:ident)

/-! ### good dictionaries -/

/-- distinct keys, canonical values -/
structure Good (d : Dict) : Prop where
  nodup : (keys d).Nodup
  vals : ∀ kv ∈ d, canon kv.2 = true

theorem Good.nil : Good [] := ⟨by simp, by simp⟩

theorem Good.set {d : Dict} (h : Good d) (k : Bytes) (v : BVal) (hv : canon v = true) :
    Good (dictSet d k v) :=
  ⟨nodup_keys_dictSet d k v h.nodup, by
    intro kv hkv
    rcases mem_dictSet d k v kv hkv with e | e
    · rw [e]; exact hv
    · exact h.vals kv e⟩

theorem Good.setIf {d : Dict} (h : Good d) (c : Bool) (k : Bytes) (v : BVal) (hv : canon v = true) :
    Good (Impl.setIf c d k v) := by
  unfold Impl.setIf; cases c
  · exact h
  · exact h.set k v hv

theorem Good.del {d : Dict} (h : Good d) (k : Bytes) : Good (dictDel d k) :=
  ⟨nodup_keys_dictDel d k h.nodup, fun kv hkv => h.vals kv (mem_dictDel d k kv hkv)⟩

theorem Good.putOpt {d : Dict} (h : Good d) (k : Bytes) (o : Option BVal)
    (hv : ∀ v, o = some v → canon v = true) : Good (Impl.putOpt d k o) := by
  cases o with
  | none => exact h
  | some v => exact h.set k v (hv v rfl)

theorem Good.canon_sort {d : Dict} (h : Good d) : canon (.dict (sortDict d)) = true :=
  canon_sortDict d h.nodup h.vals

theorem Good.sort {d : Dict} (h : Good d) : Good (sortDict d) :=
  ⟨nodup_keys_sortDict d h.nodup, fun kv hkv => h.vals kv ((mem_sortDict d kv).mp hkv)⟩

/-- a canonical dictionary is good -/
theorem Good.of_canon {d : Dict} (h : canon (.dict d) = true) : Good d :=
  ⟨strictAsc_nodup _ ((canon_dict d).mp h).1, ((canon_dict d).mp h).2⟩

theorem Good.canon_of_sorted {d : Dict} (h : Good d) (hs : strictAsc (keys d) = true) :
    canon (.dict d) = true := (canon_dict d).mpr ⟨hs, h.vals⟩

theorem canon_strs (l : List Bytes) : canon (strs l) = true := canon_list_str l

theorem canon_list1 (v : BVal) (h : canon v = true) : canon (.list [v]) = true := by
  rw [canon_list]; intro w hw; simp at hw; rw [hw]; exact h

/-! ### piece layers -/

theorem layersDict_good (layers : List (Bytes × Bytes)) : Good (Impl.layersDict layers) := by
  unfold Impl.layersDict
  suffices ∀ (acc : Dict), Good acc →
      Good (layers.foldl (fun d kv => dictSet d kv.1 (.str kv.2)) acc) from this [] Good.nil
  induction layers with
  | nil => intro acc h; exact h
  | cons kv r ih => intro acc h; exact ih _ (h.set kv.1 (.str kv.2) rfl)

theorem layersDict_vals (layers : List (Bytes × Bytes)) (P : BVal → Prop)
    (h : ∀ kv ∈ layers, P (.str kv.2)) : ∀ kv ∈ Impl.layersDict layers, P kv.2 := by
  unfold Impl.layersDict
  suffices ∀ (acc : Dict), (∀ kv ∈ acc, P kv.2) →
      ∀ kv ∈ layers.foldl (fun d kv => dictSet d kv.1 (.str kv.2)) acc, P kv.2 from
    this [] (by simp)
  induction layers with
  | nil => intro acc ha; exact ha
  | cons kv r ih =>
    intro acc ha
    apply ih (fun kv' hkv' => h kv' (List.mem_cons_of_mem _ hkv'))
    intro x hx
    rcases mem_dictSet acc kv.1 (.str kv.2) x hx with e | e
    · rw [e]; exact h kv (by simp)
    · exact ha x e

/-! ### `sort_meta` -/

/-- `dict(sorted(v.items()))` when `v` is a dictionary -/
def sortVal : BVal → BVal
  | .dict d => .dict (sortDict d)
  | v => v

/-- what `sort_meta` keeps: every top-level value (info and piece layers sorted) -/
theorem sortMeta_get (mf r : BVal) (h : Impl.sortMeta mf = some r) (k : Bytes) :
    r.get? k = if k = K.info ∨ k = K.pieceLayers then (mf.get? k).map sortVal else mf.get? k := by
  unfold Impl.sortMeta at h
  cases mf with
  | dict m =>
    simp only at h
    cases hi : dictGet m K.info with
    | none => simp [hi] at h
    | some iv =>
      cases iv with
      | dict info =>
        simp only [hi] at h
        have hpl : dictGet (dictSet m K.info (.dict (sortDict info))) K.pieceLayers
            = dictGet m K.pieceLayers := by
          rw [dictGet_dictSet_other _ _ _ _ (by decide)]
        rw [hpl] at h
        cases hl : dictGet m K.pieceLayers with
        | none =>
          simp only [hl, Option.some.injEq] at h
          subst h
          simp only [BVal.get?, dictGet_sortDict', dictGet_dictSet]
          by_cases e1 : K.info = k
          · subst e1; simp [hi, sortVal]
          · have e1' : ¬ k = K.info := fun e => e1 e.symm
            by_cases e2 : k = K.pieceLayers
            · subst e2; simp [hl, e1]
            · simp [e1, e1', e2]
        | some lv =>
          cases lv with
          | dict layers =>
            simp only [hl, Option.some.injEq] at h
            subst h
            simp only [BVal.get?, dictGet_sortDict', dictGet_dictSet]
            by_cases e2 : K.pieceLayers = k
            · subst e2; simp [hl, sortVal]
            · have e2' : ¬ k = K.pieceLayers := fun e => e2 e.symm
              by_cases e1 : K.info = k
              · subst e1; simp [hi, sortVal, e2]
              · have e1' : ¬ k = K.info := fun e => e1 e.symm
                simp [e1, e1', e2, e2']
          | int _ => simp [hl] at h
          | str _ => simp [hl] at h
          | list _ => simp [hl] at h
      | int _ => simp [hi] at h
      | str _ => simp [hi] at h
      | list _ => simp [hi] at h
  | int _ => simp at h
  | str _ => simp at h
  | list _ => simp at h

theorem get?_sortVal (v : BVal) (k : Bytes) : (sortVal v).get? k = v.get? k := by
  cases v <;> simp [sortVal, BVal.get?, dictGet_sortDict']

/-- `sort_meta` keeps every value of `info` -/
theorem sortMeta_infoGet (mf r : BVal) (h : Impl.sortMeta mf = some r) (k : Bytes) :
    r.infoGet? k = mf.infoGet? k := by
  unfold BVal.infoGet?
  rw [sortMeta_get mf r h K.info]
  simp only [true_or, if_true]
  cases mf.get? K.info with
  | none => rfl
  | some v => simp [get?_sortVal]

/-- `sort_meta` of a metafile whose dictionaries have distinct keys (they are Python
    dictionaries) and whose other values are canonical yields a canonical value -/
theorem sortMeta_canon (m info : Dict) (hi : dictGet m K.info = some (.dict info))
    (hm : (keys m).Nodup) (hinfo : Good info)
    (hrest : ∀ kv ∈ m, kv.1 ≠ K.info → kv.1 ≠ K.pieceLayers → canon kv.2 = true)
    (hl : ∀ v, dictGet m K.pieceLayers = some v → ∃ l, v = .dict l ∧ Good l) :
    ∃ r, Impl.sortMeta (.dict m) = some r ∧ canon r = true := by
  unfold Impl.sortMeta
  simp only [hi]
  have hpl : dictGet (dictSet m K.info (.dict (sortDict info))) K.pieceLayers
      = dictGet m K.pieceLayers := by
    rw [dictGet_dictSet_other _ _ _ _ (by decide)]
  rw [hpl]
  -- the top level after `meta["info"] = sorted info`
  have hm1 : (keys (dictSet m K.info (.dict (sortDict info)))).Nodup :=
    nodup_keys_dictSet _ _ _ hm
  cases hlv : dictGet m K.pieceLayers with
  | none =>
    refine ⟨_, rfl, ?_⟩
    apply canon_sortDict _ hm1
    intro kv hkv
    rcases mem_dictSet_nodup _ hm _ _ kv hkv with e | ⟨e, e1⟩
    · rw [e]; exact hinfo.canon_sort
    · by_cases e2 : kv.1 = K.pieceLayers
      · have := (dictGet_eq_some_iff m hm kv.1 kv.2).mpr e
        rw [e2, hlv] at this; cases this
      · exact hrest kv e e1 e2
  | some lv =>
    obtain ⟨l, rfl, hgl⟩ := hl lv hlv
    refine ⟨_, rfl, ?_⟩
    apply canon_sortDict _ (nodup_keys_dictSet _ _ _ hm1)
    intro kv hkv
    rcases mem_dictSet_nodup _ hm1 _ _ kv hkv with e | ⟨e, e2⟩
    · rw [e]; exact hgl.canon_sort
    · rcases mem_dictSet_nodup _ hm _ _ kv e with e' | ⟨e', e1⟩
      · rw [e']; exact hinfo.canon_sort
      · exact hrest kv e' e1 e2

end TorrentVerif

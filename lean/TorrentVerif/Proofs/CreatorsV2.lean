import TorrentVerif.Proofs.CreatorsHybrid
/-
  The v2 side of what the four v2-capable creators write: file tree and piece layers.
-/
namespace TorrentVerif
open Impl Spec Listing

mutual
theorem treeVal_congr (hf hf' : Bytes → FileHash) (h : ∀ d, (hf d).root = (hf' d).root) :
    (ft : FTree) → treeVal hf ft = treeVal hf' ft
  | .leaf d => by simp [treeVal, leafVal, h d]
  | .node es => by simp [treeVal, treeValList_congr hf hf' h es]
theorem treeValList_congr (hf hf' : Bytes → FileHash) (h : ∀ d, (hf d).root = (hf' d).root) :
    (es : List (Bytes × FTree)) → treeValList hf es = treeValList hf' es
  | [] => by simp [treeValList]
  | (n, c) :: t => by simp [treeValList, treeVal_congr hf hf' h c, treeValList_congr hf hf' h t]
end

theorem layerItems_congr (hf hf' : Bytes → FileHash) (h : ∀ d, (hf d).root = (hf' d).root)
    (h' : ∀ d, (hf d).layer = (hf' d).layer) (pl : Nat) (files : List (List Bytes × Bytes)) :
    layerItems hf pl files = layerItems hf' pl files := by
  unfold layerItems
  congr 1; funext x; simp [h, h']

/-- file tree and piece layers of a written value, in terms of `HasherV2` -/
def V2Conc (o : CreateOpts) (H : Bytes → Bytes) (B hs bpp : Nat)
    (enum : List (Bytes × FTree) → List (Bytes × FTree)) (t : Node) (r : BVal) (b : Bytes) : Prop :=
  b = encode r ∧
  r.infoGet? K.fileTree = some (treeOf o.name (singleLen t).isSome
    (treeVal (fhV2 H B hs bpp) (traverse enum t))) ∧
  r.get? K.pieceLayers = some (.dict (sortDict (layersDict
    (layerItems (fhV2 H B hs bpp) o.pieceLength (ftreeFiles [] (traverse enum t)))))) ∧
  r.infoGet? K.metaVersion = some (.int 2) ∧
  r.infoGet? K.pieceLength = some (.int o.pieceLength)

theorem v2conc_of_v2class (o : CreateOpts) (H : Bytes → Bytes) (B hs bpp : Nat)
    (hB : 0 < B) (hpl : o.pieceLength = bpp * B)
    (enum : List (Bytes × FTree) → List (Bytes × FTree)) (t : Node) (r : BVal) (b : Bytes)
    (h : createV2Class o H B hs enum t = some (r, b)) : V2Conc o H B hs bpp enum t r b := by
  unfold createV2Class at h
  simp only [pl_div o B bpp hB hpl] at h
  obtain ⟨hs', hb⟩ := written_some _ r b h
  have hk := v2_keys _ _ _ _ r hs'
  exact ⟨hb, hk.fileTree, hk.layers, hk.metaVersion, hk.pieceLength⟩

theorem v2conc_of_hybrid (o : CreateOpts) (H H1 : Bytes → Bytes) (B hs bpp : Nat)
    (hB : 0 < B) (hbpp : 0 < bpp) (hpl : o.pieceLength = bpp * B)
    (enum : List (Bytes × FTree) → List (Bytes × FTree)) (t : Node) (r : BVal) (b : Bytes)
    (h : createHybridClass o H H1 B hs enum t = some (r, b)) : V2Conc o H B hs bpp enum t r b := by
  have hroot : ∀ d, (fhHybrid H H1 B hs bpp d).root = (fhV2 H B hs bpp d).root :=
    fun d => (fhHybrid_root_layer H H1 B hs bpp hB hbpp d).1
  have hlayer : ∀ d, (fhHybrid H H1 B hs bpp d).layer = (fhV2 H B hs bpp d).layer :=
    fun d => (fhHybrid_root_layer H H1 B hs bpp hB hbpp d).2
  cases t with
  | file d =>
    rw [createHybridClass_file o H H1 B hs bpp hB hbpp hpl] at h
    obtain ⟨hs', hb⟩ := written_some _ r b h
    have hk := hybrid_keys _ _ _ _ _ r hs'
    have e1 : leafVal (fhHybrid H H1 B hs bpp) d
        = treeVal (fhV2 H B hs bpp) (traverse enum (.file d)) := by
      simp [traverse, treeVal, leafVal, hroot d]
    have e2 : layerItems (fhHybrid H H1 B hs bpp) o.pieceLength [([], d)]
        = layerItems (fhV2 H B hs bpp) o.pieceLength (ftreeFiles [] (traverse enum (.file d))) := by
      rw [traverse_file, layerItems_congr _ _ hroot hlayer]
    rw [e1] at hk
    rw [e2] at hk
    exact ⟨hb, hk.fileTree, hk.layers, hk.metaVersion, hk.pieceLength⟩
  | dir es =>
    unfold createHybridClass at h
    simp only [pl_div o B bpp hB hpl] at h
    obtain ⟨hs', hb⟩ := written_some _ r b h
    have hk := hybrid_keys _ _ _ _ _ r hs'
    rw [treeVal_congr _ _ hroot, layerItems_congr _ _ hroot hlayer] at hk
    exact ⟨hb, hk.fileTree, hk.layers, hk.metaVersion, hk.pieceLength⟩

/-- all four v2-capable creators -/
theorem v2cap_keys (o : CreateOpts) (H H1 : Bytes → Bytes) (B hs bpp : Nat)
    (hB : 0 < B) (hbpp : 0 < bpp) (hpl : o.pieceLength = bpp * B)
    (enum : List (Bytes × FTree) → List (Bytes × FTree)) (t : Node) (r : BVal) (b : Bytes)
    (hc : WrittenV2Capable o H H1 B hs enum t r b) : V2Conc o H B hs bpp enum t r b := by
  rcases hc with hc | hc | hc | ⟨h20, hc⟩
  · exact v2conc_of_v2class o H B hs bpp hB hpl enum t r b hc
  · rw [createAsm_false_eq o H H1 B hs bpp hB hbpp hpl] at hc
    exact v2conc_of_v2class o H B hs bpp hB hpl enum t r b hc
  · exact v2conc_of_hybrid o H H1 B hs bpp hB hbpp hpl enum t r b hc
  · rw [createAsm_true_eq o H H1 B hs bpp hB hbpp hpl h20] at hc
    exact v2conc_of_hybrid o H H1 B hs bpp hB hbpp hpl enum t r b hc

/-! ### lookups in the piece-layers dictionary -/

theorem dictGet_fold_keep (its : List (Bytes × Bytes)) : ∀ (acc : Dict) (k : Bytes),
    (dictGet acc k).isSome →
    (dictGet (its.foldl (fun d kv => dictSet d kv.1 (.str kv.2)) acc) k).isSome := by
  induction its with
  | nil => intro acc k h; exact h
  | cons a t ih =>
    intro acc k h
    apply ih
    rw [dictGet_dictSet]
    split <;> simp [h]

theorem dictGet_fold_present (its : List (Bytes × Bytes)) : ∀ (acc : Dict) (k : Bytes),
    (∃ a ∈ its, a.1 = k) →
    (dictGet (its.foldl (fun d kv => dictSet d kv.1 (.str kv.2)) acc) k).isSome := by
  induction its with
  | nil => intro acc k h; obtain ⟨a, ha, _⟩ := h; cases ha
  | cons a t ih =>
    intro acc k h
    obtain ⟨x, hx, hk⟩ := h
    by_cases ht : ∃ y ∈ t, y.1 = k
    · exact ih _ k ht
    · rcases List.mem_cons.mp hx with e | e
      · subst e
        exact dictGet_fold_keep t (dictSet acc x.1 (.str x.2)) k
          (by rw [dictGet_dictSet, if_pos hk]; rfl)
      · exact absurd ⟨x, e, hk⟩ ht

theorem dictGet_fold_source (its : List (Bytes × Bytes)) : ∀ (acc : Dict) (k : Bytes) (v : BVal),
    dictGet (its.foldl (fun d kv => dictSet d kv.1 (.str kv.2)) acc) k = some v →
    (∃ a ∈ its, a.1 = k ∧ v = .str a.2) ∨ dictGet acc k = some v := by
  induction its with
  | nil => intro acc k v h; exact Or.inr h
  | cons a t ih =>
    intro acc k v h
    rcases ih _ k v h with ⟨x, hx, hk, hv⟩ | h'
    · exact Or.inl ⟨x, List.mem_cons_of_mem _ hx, hk, hv⟩
    · rw [dictGet_dictSet] at h'
      by_cases e : a.1 = k
      · simp only [e, if_true, Option.some.injEq] at h'
        exact Or.inl ⟨a, by simp, e, h'.symm⟩
      · simp only [e, if_false] at h'
        exact Or.inr h'

/-- the piece-layers dictionary maps exactly the assigned roots, each to its layer, provided
    equal roots were assigned equal layers -/
theorem dictGet_layersDict (its : List (Bytes × Bytes))
    (hcons : ∀ a ∈ its, ∀ b ∈ its, a.1 = b.1 → a.2 = b.2) (k : Bytes) (v : BVal) :
    dictGet (layersDict its) k = some v ↔ ∃ a ∈ its, a.1 = k ∧ v = .str a.2 := by
  unfold layersDict
  constructor
  · intro h
    rcases dictGet_fold_source its [] k v h with h' | h'
    · exact h'
    · cases h'
  · intro ⟨a, ha, hk, hv⟩
    have hp := dictGet_fold_present its [] k ⟨a, ha, hk⟩
    cases hg : dictGet (its.foldl (fun d kv => dictSet d kv.1 (.str kv.2)) []) k with
    | none => rw [hg] at hp; cases hp
    | some v' =>
      rcases dictGet_fold_source its [] k v' hg with ⟨a', ha', hk', hv'⟩ | h'
      · have : a'.2 = a.2 := hcons a' ha' a ha (by rw [hk', hk])
        rw [hv, hv', this]
      · cases h'

/-- statements about the contents of the files of a tree do not depend on which of the two
    enumerations of its files is used -/
theorem allFiles_data_iff (enum : List (Bytes × FTree) → List (Bytes × FTree))
    (henum : ∀ l, (enum l).Perm l) (pre : Bytes) (t : Node) (P : Bytes → Prop) :
    (∃ x ∈ allFiles pre t, P x.2) ↔ (∃ y ∈ ftreeFiles [] (traverse enum t), P y.2) := by
  have hp := ftreeFiles_traverse_perm enum henum pre t []
  simp only [List.foldl_nil] at hp
  constructor
  · intro ⟨x, hx, hP⟩
    obtain ⟨y, hy, e⟩ := List.mem_map.mp (hp.symm.subset hx)
    exact ⟨y, hy, by rw [← e] at hP; exact hP⟩
  · intro ⟨y, hy, hP⟩
    exact ⟨_, hp.subset (List.mem_map_of_mem hy), hP⟩

/-! ### the leaves of the written file tree against the content tree -/

theorem leaves_perm (hf : Bytes → FileHash) (enum : List (Bytes × FTree) → List (Bytes × FTree))
    (henum : ∀ l, (enum l).Perm l) (t : Node) (hwn : WellNamed t) (name : Bytes)
    (hname : name ≠ []) (pre : Bytes) :
    ((treeLeaves [] (treeOf name (singleLen t).isSome (treeVal hf (traverse enum t)))).map
        (fun x => (x.1.foldl join pre, x.2))).Perm
      ((allFiles (treeBase pre name t) t).map (fun x => (x.1, leafProps hf x.2))) := by
  cases t with
  | file d =>
    simp [singleLen, treeOf, traverse, treeVal, leafVal_eq, treeLeaves, treeLeavesD, hname,
      treeBase, allFiles]
  | dir es =>
    simp only [singleLen, Option.isSome_none, treeOf, Bool.false_eq_true, if_false, treeBase]
    rw [treeLeaves_treeVal hf _ [] (traverse_noEmptyKey enum henum _ hwn)]
    have hp := ftreeFiles_traverse_perm enum henum pre (.dir es) []
    simp only [List.foldl_nil] at hp
    have := hp.map (fun x : Bytes × Bytes => (x.1, leafProps hf x.2))
    simpa [List.map_map, Function.comp_def] using this

theorem leafProps_spec (H : Bytes → Bytes) (B hs j : Nat) (hB : 0 < B) (d : Bytes) :
    leafProps (fhV2 H B hs (2 ^ j)) d =
      if d.length = 0 then .dict [(K.length, .int 0)]
      else .dict [(K.length, .int d.length), (K.piecesRoot, .str (Spec.root H B hs d))] := by
  unfold leafProps
  by_cases h : d.length = 0
  · simp [h]
  · have hd : d ≠ [] := by intro e; subst e; simp at h
    simp [h, fhV2_root_spec H B hs j hB d hd]

end TorrentVerif

import TorrentVerif.Model.Merkle
import TorrentVerif.Model.HybridSingle
import TorrentVerif.Proofs.Basic
/-
  Helper lemmas for C02 / C03 / C10: `lg`, `np2`, the merkle loop as a balanced tree,
  layering of trees, the block/piece readers, and closed forms of the three BEP 52 hashers.
-/
namespace TorrentVerif

/-! ### `lg` : least `k` with `n ≤ 2^k` -/

theorem lg_le_iff (n k : Nat) : lg n ≤ k ↔ n ≤ 2 ^ k := by
  unfold lg
  by_cases h : n ≤ 1
  · have : 0 < 2 ^ k := Nat.two_pow_pos k
    simp [h]; omega
  · rw [if_neg h]
    have hne : n - 1 ≠ 0 := by omega
    have := @Nat.log2_lt (n - 1) k hne
    constructor
    · intro h1
      have : n - 1 < 2 ^ k := this.mp (by omega)
      omega
    · intro h1
      have : (n - 1).log2 < k := this.mpr (by omega)
      omega

theorem le_two_pow_lg (n : Nat) : n ≤ 2 ^ lg n := (lg_le_iff n (lg n)).mp (Nat.le_refl _)

theorem lg_two_pow (k : Nat) : lg (2 ^ k) = k := by
  apply Nat.le_antisymm
  · exact (lg_le_iff _ _).mpr (Nat.le_refl _)
  · have := le_two_pow_lg (2 ^ k)
    exact (Nat.pow_le_pow_iff_right (by decide)).mp this

theorem lg_le_self (n : Nat) : lg n ≤ n := (lg_le_iff n n).mpr (Nat.le_of_lt Nat.lt_two_pow_self)

theorem lg_mono {a b : Nat} (h : a ≤ b) : lg a ≤ lg b :=
  (lg_le_iff a (lg b)).mpr (Nat.le_trans h (le_two_pow_lg b))

/-- `cdiv` is the ceiling: least `q` with `n ≤ q * k`. -/
theorem cdiv_le_iff (n k q : Nat) (hk : 0 < k) : cdiv n k ≤ q ↔ n ≤ q * k := by
  unfold cdiv
  rw [← Nat.lt_succ_iff, Nat.div_lt_iff_lt_mul hk, Nat.succ_mul]
  omega

theorem le_cdiv_mul (n k : Nat) (hk : 0 < k) : n ≤ cdiv n k * k :=
  (cdiv_le_iff n k _ hk).mp (Nat.le_refl _)

/-- depth of the tree of a multi-piece file = depth above the piece layer + depth of a piece -/
theorem lg_split (n j : Nat) (h : 2 ^ j < n) : lg n = lg (cdiv n (2 ^ j)) + j := by
  have hj : 0 < 2 ^ j := Nat.two_pow_pos j
  apply Nat.le_antisymm
  · rw [lg_le_iff, Nat.pow_add]
    have h1 := le_cdiv_mul n (2 ^ j) hj
    have h2 := le_two_pow_lg (cdiv n (2 ^ j))
    exact Nat.le_trans h1 (Nat.mul_le_mul_right _ h2)
  · have h1 := le_two_pow_lg n
    have hlt : j < lg n := (Nat.pow_lt_pow_iff_right (by decide)).mp (Nat.lt_of_lt_of_le h h1)
    have e : lg n = (lg n - j) + j := by omega
    have h3 : cdiv n (2 ^ j) ≤ 2 ^ (lg n - j) := by
      rw [cdiv_le_iff _ _ _ hj, ← Nat.pow_add, ← e]; exact h1
    have := (lg_le_iff _ _).mpr h3
    omega

/-! ### `next_power_2` -/

theorem pow2_of_land_pred : ∀ n : Nat, n ≠ 0 → n &&& (n - 1) = 0 → ∃ k, n = 2 ^ k := by
  intro n
  induction n using Nat.strongRecOn with
  | _ n ih =>
    intro hn h
    have h2 : (n &&& (n - 1)) / 2 = 0 := by rw [h]
    rw [Nat.and_div_two] at h2
    by_cases hodd : n % 2 = 1
    · have e : (n - 1) / 2 = n / 2 := by omega
      rw [e, Nat.and_self] at h2
      exact ⟨0, by omega⟩
    · have hm : n / 2 ≠ 0 := by omega
      have e : (n - 1) / 2 = n / 2 - 1 := by omega
      rw [e] at h2
      obtain ⟨k, hk⟩ := ih (n / 2) (by omega) hm h2
      exact ⟨k + 1, by rw [Nat.pow_succ, ← hk]; omega⟩

theorem np2Loop_eq (value : Nat) : ∀ fuel i, i ≤ lg value → lg value - i ≤ fuel →
    Impl.np2Loop fuel (2 ^ i) value = 2 ^ lg value := by
  intro fuel
  induction fuel with
  | zero => intro i h1 h2; have : i = lg value := by omega
            simp [Impl.np2Loop, this]
  | succ fuel ih =>
    intro i h1 h2
    unfold Impl.np2Loop
    by_cases hlt : 2 ^ i < value
    · rw [if_pos hlt]
      have : ¬ lg value ≤ i := by rw [lg_le_iff]; omega
      rw [← Nat.pow_succ]
      exact ih (i + 1) (by omega) (by omega)
    · rw [if_neg hlt]
      have : lg value ≤ i := by rw [lg_le_iff]; omega
      have : i = lg value := by omega
      rw [← this]

/-- `next_power_2 n = 2 ^ ⌈log2 n⌉` for every `n` (`next_power_2 0 = 1`). -/
theorem np2_eq (n : Nat) : Impl.np2 n = 2 ^ lg n := by
  unfold Impl.np2
  split
  · rename_i h
    obtain ⟨k, hk⟩ := pow2_of_land_pred n h.1 h.2
    rw [hk, lg_two_pow]
  · have := np2Loop_eq n n 0 (Nat.zero_le _) (by have := lg_le_self n; omega)
    simpa using this

theorem np2_two_pow (k : Nat) : Impl.np2 (2 ^ k) = 2 ^ k := by rw [np2_eq, lg_two_pow]

theorem le_np2 (n : Nat) : n ≤ Impl.np2 n := by rw [np2_eq]; exact le_two_pow_lg n

/-! ### the `merkle_root` loop is the balanced tree -/

open Impl in
theorem pairUp_append (H : Bytes → Bytes) (a b : List Bytes) (ha : a.length % 2 = 0) :
    pairUp H (a ++ b) = pairUp H a ++ pairUp H b := by
  induction a using pairUp.induct with
  | case1 x y t ih =>
    simp only [List.length_cons] at ha
    simp [pairUp, ih (by omega)]
  | case2 l h =>
    match l with
    | [] => simp [pairUp]
    | [x] => simp at ha
    | x :: y :: t => exact absurd rfl (h x y t)

open Impl in
theorem tree_pairUp (H : Bytes → Bytes) (k : Nat) (l : List Bytes) (hl : l.length = 2 ^ (k + 1)) :
    tree H k (pairUp H l) = tree H (k + 1) l := by
  induction k generalizing l with
  | zero =>
    match l, hl with
    | [x, y], _ => simp [pairUp, tree]
  | succ k ih =>
    have h2 : 2 ^ (k + 1) ≤ l.length := by
      rw [hl]; exact Nat.pow_le_pow_right (by decide) (by omega)
    have hsplit : l = l.take (2 ^ (k + 1)) ++ l.drop (2 ^ (k + 1)) :=
      (List.take_append_drop _ _).symm
    have hta : (l.take (2 ^ (k + 1))).length = 2 ^ (k + 1) := by
      simp [List.length_take]; omega
    have hda : (l.drop (2 ^ (k + 1))).length = 2 ^ (k + 1) := by
      simp [List.length_drop, hl]; rw [Nat.pow_succ 2 (k+1)]; omega
    have heven : (l.take (2 ^ (k + 1))).length % 2 = 0 := by rw [hta, Nat.pow_succ]; omega
    conv => lhs; rw [hsplit, pairUp_append H _ _ heven]
    have hpl : (pairUp H (l.take (2 ^ (k + 1)))).length = 2 ^ k := by
      rw [pairUp_length, hta, Nat.pow_succ]; omega
    rw [tree]
    rw [List.take_append_of_le_length (by omega), List.drop_append_of_le_length (by omega)]
    rw [← hpl, List.take_length, List.drop_length]
    simp only [List.nil_append]
    rw [ih _ hta, ih _ hda]
    conv => rhs; rw [tree]

/-- on exactly `2^k` hashes, `merkle_root`'s pairing loop computes the balanced tree of depth `k` -/
theorem merkleIter_eq_tree (H : Bytes → Bytes) (k : Nat) (l : List Bytes) (hl : l.length = 2 ^ k) :
    Impl.merkleIter H l = some (tree H k l) := by
  induction k generalizing l with
  | zero =>
    match l, hl with
    | [x], _ => unfold Impl.merkleIter; simp [tree]
  | succ k ih =>
    have : 1 < l.length := by rw [hl]; exact Nat.one_lt_two_pow (by omega)
    unfold Impl.merkleIter
    rw [dif_pos this, ih _ (by rw [Impl.pairUp_length, hl, Nat.pow_succ]; omega),
      tree_pairUp H k l hl]

theorem merkleRoot_eq_tree (H : Bytes → Bytes) (k : Nat) (l : List Bytes) (hl : l.length = 2 ^ k) :
    Impl.merkleRoot H l = tree H k l := by
  simp [Impl.merkleRoot, merkleIter_eq_tree H k l hl]

theorem merkleRoot_singleton (H : Bytes → Bytes) (x : Bytes) : Impl.merkleRoot H [x] = x := by
  rw [merkleRoot_eq_tree H 0 [x] rfl]; simp [tree]

/-- the hash of an all-padding piece: what `merkle_root([bytes(hs)] * bpp)` computes -/
theorem merkleRoot_replicate (H : Bytes → Bytes) (j : Nat) (Z : Bytes) :
    Impl.merkleRoot H (List.replicate (2 ^ j) Z) = tree H j (List.replicate (2 ^ j) Z) :=
  merkleRoot_eq_tree H j _ (by simp)

/-! ### more about `chunks` -/

theorem chunks_length_mul (n : Nat) (hn : 0 < n) (k : Nat) (l : List α) (hl : l.length = k * n) :
    (chunks n l).length = k := by
  rw [chunks_length n hn, hl]
  apply Nat.le_antisymm
  · exact (cdiv_le_iff _ _ _ hn).mpr (Nat.le_refl _)
  · have := le_cdiv_mul (k * n) n hn
    exact Nat.le_of_mul_le_mul_right this hn

theorem chunks_map (f : α → β) (n : Nat) (l : List α) :
    chunks n (l.map f) = (chunks n l).map (List.map f) := by
  induction l using chunks.induct n with
  | case1 l h =>
    cases h with
    | inl h => subst h; simp [chunks_zero]
    | inr h => subst h; simp [chunks_nil]
  | case2 l h ih =>
    have hn : 0 < n := by have : n ≠ 0 := fun e => h (Or.inl e); omega
    have hl : l ≠ [] := fun e => h (Or.inr e)
    have hl' : l.map f ≠ [] := by simpa using hl
    rw [chunks_cons n hn l hl, chunks_cons n hn _ hl', ← List.map_take, ← List.map_drop, ih]
    simp

theorem chunks_ne_nil (n : Nat) (hn : 0 < n) (l : List α) (hl : l ≠ []) : chunks n l ≠ [] := by
  rw [chunks_cons n hn l hl]; simp

theorem chunks_eq_nil_iff (n : Nat) (hn : 0 < n) (l : List α) : chunks n l = [] ↔ l = [] := by
  constructor
  · intro h; false_or_by_contra; rename_i hne; exact chunks_ne_nil n hn l hne h
  · intro h; subst h; exact chunks_nil n

theorem chunks_replicate (n : Nat) (hn : 0 < n) (q : Nat) (z : α) :
    chunks n (List.replicate (q * n) z) = List.replicate q (List.replicate n z) := by
  induction q with
  | zero => simp [chunks_nil]
  | succ q ih =>
    have e : (q + 1) * n = n + q * n := by rw [Nat.succ_mul]; omega
    rw [e, ← List.replicate_append_replicate,
      chunks_append n hn 1 _ _ (by simp), chunks_exact n hn _ (by simp), ih,
      List.replicate_succ]
    simp

/-- pad a slice on the right with `z` up to length `n` -/
def padR (n : Nat) (z : α) (p : List α) : List α := p ++ List.replicate (n - p.length) z

theorem padR_of_length (n : Nat) (z : α) (p : List α) (h : p.length = n) : padR n z p = p := by
  simp [padR, h]

/-- Slicing a list that has been padded with `r` copies of `z` up to a multiple `q * n`:
    the slices of the list, the last one padded, then slices consisting of padding only. -/
theorem chunks_append_replicate (n : Nat) (hn : 0 < n) (z : α) :
    ∀ (q : Nat) (l : List α) (r : Nat), l.length + r = q * n →
      chunks n (l ++ List.replicate r z)
        = (chunks n l).map (padR n z)
          ++ List.replicate (q - (chunks n l).length) (List.replicate n z) := by
  intro q
  induction q with
  | zero =>
    intro l r h
    have h1 : l = [] := List.eq_nil_of_length_eq_zero (by omega)
    have h2 : r = 0 := by omega
    subst h1; subst h2; simp [chunks_nil]
  | succ q ih =>
    intro l r h
    rw [Nat.succ_mul] at h
    by_cases hl : l = []
    · subst hl
      have : r = (q + 1) * n := by rw [Nat.succ_mul]; simpa using h
      subst this
      simp [chunks_nil, chunks_replicate n hn]
    · have hpos : 0 < l.length := List.length_pos_iff.mpr hl
      have hne' : l ++ List.replicate r z ≠ [] := by simp [hl]
      by_cases hge : n ≤ l.length
      · rw [chunks_cons n hn _ hne', chunks_cons n hn l hl,
          List.take_append_of_le_length hge, List.drop_append_of_le_length hge,
          ih (l.drop n) r (by rw [List.length_drop]; omega)]
        have : padR n z (l.take n) = l.take n :=
          padR_of_length _ _ _ (by rw [List.length_take]; omega)
        simp [this]
      · have hlt : l.length < n := by omega
        rw [chunks_short n l hl (by omega)]
        have hr : r = (n - l.length) + q * n := by omega
        rw [hr, ← List.replicate_append_replicate, ← List.append_assoc,
          chunks_append n hn 1 _ _ (by simp; omega), chunks_exact n hn _ (by simp; omega),
          chunks_replicate n hn]
        simp [padR]

/-- grouping blocks into pieces = cutting pieces into blocks -/
theorem chunks_chunks (k B : Nat) (hk : 0 < k) (hB : 0 < B) (d : List α) :
    (chunks (k * B) d).map (chunks B) = chunks k (chunks B d) := by
  have hkB : 0 < k * B := Nat.mul_pos hk hB
  induction d using chunks.induct (k * B) with
  | case1 l h =>
    cases h with
    | inl h => omega
    | inr h => subst h; simp [chunks_nil]
  | case2 l h ih =>
    have hl : l ≠ [] := fun e => h (Or.inr e)
    rw [chunks_cons _ hkB l hl, List.map_cons, ih]
    by_cases hge : k * B ≤ l.length
    · have ht : (l.take (k * B)).length = k * B := by rw [List.length_take]; omega
      have hc : (chunks B (l.take (k * B))).length = 1 * k := by
        rw [chunks_length_mul B hB k _ ht]; omega
      conv => rhs; rw [← List.take_append_drop (k * B) l, chunks_append B hB k _ _ ht,
        chunks_append k hk 1 _ _ hc, chunks_exact k hk _ (by omega)]
      simp
    · have hlt : l.length < k * B := by omega
      rw [List.take_of_length_le (by omega), List.drop_of_length_le (by omega)]
      have hc : (chunks B l).length ≤ k := by
        rw [chunks_length B hB, cdiv_le_iff _ _ _ hB]; omega
      rw [chunks_nil, chunks_nil, chunks_short k _ (chunks_ne_nil B hB l hl) hc]

/-! ### layering: a tree over `2^a * 2^j` leaves is the tree over its `2^j`-leaf subtrees -/

theorem tree_of_trees (H : Bytes → Bytes) (j a : Nat) (l : List Bytes)
    (hl : l.length = 2 ^ a * 2 ^ j) :
    tree H (a + j) l = tree H a ((chunks (2 ^ j) l).map (tree H j)) := by
  have hj : 0 < 2 ^ j := Nat.two_pow_pos j
  induction a generalizing l with
  | zero =>
    simp only [Nat.pow_zero, Nat.one_mul] at hl
    rw [chunks_exact _ hj l hl]; simp [tree]
  | succ a ih =>
    have e : a + 1 + j = (a + j) + 1 := by omega
    rw [e]
    have hhalf : 2 ^ (a + j) = 2 ^ a * 2 ^ j := Nat.pow_add 2 a j
    have hl' : l.length = 2 ^ (a + j) + 2 ^ (a + j) := by
      rw [hl, hhalf, Nat.pow_succ, Nat.mul_right_comm, Nat.mul_two]
    have ht : (l.take (2 ^ (a + j))).length = 2 ^ a * 2 ^ j := by
      rw [List.length_take, hl', ← hhalf]; omega
    have hd : (l.drop (2 ^ (a + j))).length = 2 ^ a * 2 ^ j := by
      rw [List.length_drop, hl', ← hhalf]; omega
    conv => lhs; rw [tree]
    rw [ih _ ht, ih _ hd]
    conv => rhs; rw [tree]
    have hc : chunks (2 ^ j) l = chunks (2 ^ j) (l.take (2 ^ (a + j)))
        ++ chunks (2 ^ j) (l.drop (2 ^ (a + j))) := by
      conv => lhs; rw [← List.take_append_drop (2 ^ (a + j)) l]
      exact chunks_append (2 ^ j) hj (2 ^ a) _ _ ht
    have h1 := chunks_length_mul (2 ^ j) hj (2 ^ a) _ ht
    rw [hc, List.map_append]
    generalize hA : (chunks (2 ^ j) (l.take (2 ^ (a + j)))).map (tree H j) = A
    generalize (chunks (2 ^ j) (l.drop (2 ^ (a + j)))).map (tree H j) = B
    have hAl : A.length = 2 ^ a := by rw [← hA, List.length_map, h1]
    have e1 : (A ++ B).take (2 ^ a) = A := by rw [← hAl]; simp
    have e2 : (A ++ B).drop (2 ^ a) = B := by rw [← hAl]; simp
    rw [e1, e2]

/-! ### the block readers -/

/-- `n` reads of `B` bytes return the `B`-slices of the first `n*B` bytes and leave the rest -/
theorem readBlocks_eq (B : Nat) (hB : 0 < B) : ∀ (n : Nat) (d : Bytes),
    Impl.readBlocks B n d = (chunks B (d.take (n * B)), d.drop (n * B)) := by
  intro n
  induction n with
  | zero => intro d; simp [Impl.readBlocks, chunks_nil]
  | succ n ih =>
    intro d
    unfold Impl.readBlocks
    by_cases hd : d = []
    · subst hd; simp [chunks_nil]
    · have hpos : 0 < d.length := List.length_pos_iff.mpr hd
      have hb : ¬ (d.take B).length = 0 := by rw [List.length_take]; omega
      simp only [hb, if_false]
      rw [ih (d.drop B)]
      have hne : d.take ((n + 1) * B) ≠ [] := by
        intro e
        rcases List.take_eq_nil_iff.mp e with h | h
        · rw [Nat.succ_mul] at h; omega
        · exact hd h
      have hmin : min B ((n + 1) * B) = B := by rw [Nat.succ_mul]; omega
      have hsub : (n + 1) * B - B = n * B := by rw [Nat.succ_mul]; omega
      have hadd : B + n * B = (n + 1) * B := by rw [Nat.succ_mul]; omega
      rw [chunks_cons B hB _ hne, List.take_take, List.drop_take, hmin, hsub,
        List.drop_drop, hadd]

theorem readBlocksEnd_eq (B : Nat) : ∀ (n : Nat) (d : Bytes),
    Impl.readBlocksEnd B n d =
      ((Impl.readBlocks B n d).1, (Impl.readBlocks B n d).2,
        decide ((Impl.readBlocks B n d).1.length < n)) := by
  intro n
  induction n with
  | zero => intro d; simp [Impl.readBlocksEnd, Impl.readBlocks]
  | succ n ih =>
    intro d
    unfold Impl.readBlocksEnd Impl.readBlocks
    by_cases hb : (d.take B).length = 0
    · simp [hb]
    · simp only [hb, if_false]
      rw [ih]
      simp

/-! ### closed forms of the three hashers -/

section Hashers
variable (H H1 : Bytes → Bytes) (B hs bpp : Nat)

/-- layer hash of one piece `p` as the loops compute it (`first` = no layer hash collected yet) -/
def pieceHash (first : Bool) (p : Bytes) : Bytes :=
  Impl.merkleRoot H (Impl.padBlocks hs bpp first ((chunks B p).map H))

/-- layer hashes of successive pieces; only the first is computed with `first = true` -/
def layersFrom : Bool → List Bytes → List Bytes
  | _, [] => []
  | first, p :: ps => pieceHash H B hs bpp first p :: layersFrom false ps

/-- v1 digest of one piece as the hybrid loops compute it -/
def v1Piece (pl : Nat) (p : Bytes) : Bytes :=
  H1 (if pl - p.length > 0 then p ++ zeros (pl - p.length) else p)

/-- `padding_file["length"]` after the given pieces: the last short piece wins -/
def padAfter (pl : Nat) : Option Nat → List Bytes → Option Nat
  | prev, [] => prev
  | prev, p :: ps => padAfter pl (if pl - p.length > 0 then some (pl - p.length) else prev) ps

theorem isEmpty_append_singleton (l : List α) (x : α) : (l ++ [x]).isEmpty = false := by
  cases l <;> rfl

theorem layersFrom_length (first : Bool) (cs : List Bytes) :
    (layersFrom H B hs bpp first cs).length = cs.length := by
  induction cs generalizing first with
  | nil => simp [layersFrom]
  | cons p ps ih => simp [layersFrom, ih]

theorem v2Loop_eq (hB : 0 < B) (hbpp : 0 < bpp) : ∀ (fuel : Nat) (d : Bytes) (acc : List Bytes),
    d.length < fuel →
    Impl.v2Loop H B hs bpp fuel d acc
      = acc ++ layersFrom H B hs bpp acc.isEmpty (chunks (bpp * B) d) := by
  have hpl : 0 < bpp * B := Nat.mul_pos hbpp hB
  intro fuel
  induction fuel with
  | zero => intro d acc h; omega
  | succ fuel ih =>
    intro d acc hlt
    unfold Impl.v2Loop
    rw [readBlocks_eq B hB]
    by_cases hd : d = []
    · subst hd; simp [chunks_nil, layersFrom]
    · have hpos : 0 < d.length := List.length_pos_iff.mpr hd
      have hne : chunks B (d.take (bpp * B)) ≠ [] := by
        apply chunks_ne_nil B hB
        intro e
        rcases List.take_eq_nil_iff.mp e with h | h
        · omega
        · exact hd h
      simp only [hne, if_false]
      rw [ih _ _ (by rw [List.length_drop]; omega), chunks_cons _ hpl d hd]
      simp [layersFrom, pieceHash, isEmpty_append_singleton]

theorem hybridLoop_eq (hB : 0 < B) (hbpp : 0 < bpp) :
    ∀ (fuel : Nat) (d : Bytes) (acc : Impl.HybridOut), d.length < fuel →
    Impl.hybridLoop H H1 B hs bpp fuel d acc
      = ⟨acc.layers ++ layersFrom H B hs bpp acc.layers.isEmpty (chunks (bpp * B) d),
         acc.pieces ++ (chunks (bpp * B) d).map (v1Piece H1 (bpp * B)),
         padAfter (bpp * B) acc.padding (chunks (bpp * B) d)⟩ := by
  have hpl : 0 < bpp * B := Nat.mul_pos hbpp hB
  intro fuel
  induction fuel with
  | zero => intro d acc h; omega
  | succ fuel ih =>
    intro d acc hlt
    unfold Impl.hybridLoop
    rw [readBlocks_eq B hB]
    by_cases hd : d = []
    · subst hd; simp [chunks_nil, layersFrom, padAfter]
    · have hpos : 0 < d.length := List.length_pos_iff.mpr hd
      have hne : chunks B (d.take (bpp * B)) ≠ [] := by
        apply chunks_ne_nil B hB
        intro e
        rcases List.take_eq_nil_iff.mp e with h | h
        · omega
        · exact hd h
      simp only [hne, if_false]
      rw [ih _ _ (by rw [List.length_drop]; omega), chunks_cons _ hpl d hd]
      simp [layersFrom, pieceHash, v1Piece, padAfter, chunks_flatten B hB, isEmpty_append_singleton]

theorem fhDrain_fin (hybrid : Bool) (fuel : Nat) (s : Impl.FHState) (h : s.fin = true) :
    Impl.fhDrain H H1 B hs bpp hybrid (fuel + 1) s = ([], { s with fin := false }) := by
  simp [Impl.fhDrain, Impl.fhNext, h]

theorem fhNext_nil (hB : 0 < B) (hbpp : 0 < bpp) (hybrid : Bool) (s : Impl.FHState)
    (hfin : s.fin = false) (hd : s.rest = []) :
    Impl.fhNext H H1 B hs bpp hybrid s
      = (none, { s with fin := true, root := some (Impl.calcRoot H hs bpp s.out.layers) }) := by
  cases s with
  | mk rest fin out root =>
    simp only at hfin hd
    subst hfin; subst hd
    simp [Impl.fhNext, readBlocksEnd_eq, readBlocks_eq B hB, chunks_nil, hbpp]

theorem fhNext_cons (hB : 0 < B) (hbpp : 0 < bpp) (hybrid : Bool) (s : Impl.FHState)
    (hfin : s.fin = false) (hd : s.rest ≠ []) :
    ∃ y s', Impl.fhNext H H1 B hs bpp hybrid s = (some y, s') ∧
      y.1 = pieceHash H B hs bpp s.out.layers.isEmpty (s.rest.take (bpp * B)) ∧
      y.2 = (if hybrid then some (v1Piece H1 (bpp * B) (s.rest.take (bpp * B))) else none) ∧
      s'.rest = s.rest.drop (bpp * B) ∧
      s'.fin = decide ((chunks B (s.rest.take (bpp * B))).length < bpp) ∧
      s'.out.layers = s.out.layers ++ [y.1] ∧
      s'.out.pieces = (if hybrid then s.out.pieces ++ [v1Piece H1 (bpp * B) (s.rest.take (bpp * B))]
                        else s.out.pieces) ∧
      s'.out.padding = (if hybrid then
          (if bpp * B - (s.rest.take (bpp * B)).length > 0
            then some (bpp * B - (s.rest.take (bpp * B)).length) else s.out.padding)
          else s.out.padding) ∧
      s'.root = (if (chunks B (s.rest.take (bpp * B))).length < bpp
          then some (Impl.calcRoot H hs bpp (s.out.layers ++ [y.1])) else s.root) := by
  have hpl : 0 < bpp * B := Nat.mul_pos hbpp hB
  have hne : chunks B (s.rest.take (bpp * B)) ≠ [] := by
    apply chunks_ne_nil B hB
    intro e
    rcases List.take_eq_nil_iff.mp e with h | h
    · omega
    · exact hd h
  cases hybrid
  · refine ⟨?_, ?_, ?_, ?_⟩
    rotate_left 2
    · simp only [Impl.fhNext, hfin, readBlocksEnd_eq, readBlocks_eq B hB, hne]
      simp only [Bool.false_eq_true, if_false]
      rfl
    · simp [pieceHash]
  · refine ⟨?_, ?_, ?_, ?_⟩
    rotate_left 2
    · simp only [Impl.fhNext, hfin, readBlocksEnd_eq, readBlocks_eq B hB, hne]
      simp only [Bool.false_eq_true, if_false, if_true]
      rfl
    · simp [pieceHash, v1Piece, chunks_flatten B hB]

/-- a piece with fewer than `bpp` blocks is the last one: nothing is left to read -/
theorem short_piece_is_last (hB : 0 < B) (d : Bytes)
    (h : (chunks B (d.take (bpp * B))).length < bpp) : d.drop (bpp * B) = [] := by
  apply List.drop_of_length_le
  false_or_by_contra
  rename_i hc
  have ht : (d.take (bpp * B)).length = bpp * B := by rw [List.length_take]; omega
  rw [chunks_length_mul B hB bpp _ ht] at h
  omega

theorem fhDrain_eq (hB : 0 < B) (hbpp : 0 < bpp) (hybrid : Bool) :
    ∀ (fuel : Nat) (s : Impl.FHState), s.fin = false → s.rest.length + 2 ≤ fuel →
    ((Impl.fhDrain H H1 B hs bpp hybrid fuel s).1.map (·.1)
        = layersFrom H B hs bpp s.out.layers.isEmpty (chunks (bpp * B) s.rest)) ∧
    ((Impl.fhDrain H H1 B hs bpp hybrid fuel s).1.filterMap (·.2)
        = if hybrid then (chunks (bpp * B) s.rest).map (v1Piece H1 (bpp * B)) else []) ∧
    ((Impl.fhDrain H H1 B hs bpp hybrid fuel s).2.out.padding
        = if hybrid then padAfter (bpp * B) s.out.padding (chunks (bpp * B) s.rest)
          else s.out.padding) ∧
    ((Impl.fhDrain H H1 B hs bpp hybrid fuel s).2.root
        = some (Impl.calcRoot H hs bpp
            (s.out.layers ++ layersFrom H B hs bpp s.out.layers.isEmpty (chunks (bpp * B) s.rest)))) := by
  have hpl : 0 < bpp * B := Nat.mul_pos hbpp hB
  intro fuel
  induction fuel with
  | zero => intro s _ h; omega
  | succ fuel ih =>
    intro s hfin hfuel
    by_cases hd : s.rest = []
    · unfold Impl.fhDrain
      rw [fhNext_nil H H1 B hs bpp hB hbpp hybrid s hfin hd]
      simp [hd, chunks_nil, layersFrom, padAfter]
    · have hpos : 0 < s.rest.length := List.length_pos_iff.mpr hd
      obtain ⟨y, s', hn, hy1, hy2, hrest, hfin', hlay, hpcs, hpad, hroot⟩ :=
        fhNext_cons H H1 B hs bpp hB hbpp hybrid s hfin hd
      unfold Impl.fhDrain
      rw [hn]
      simp only []
      rw [chunks_cons _ hpl _ hd]
      by_cases hshort : (chunks B (s.rest.take (bpp * B))).length < bpp
      · -- short piece: the `end` flag is set, the next call stops the iteration
        have hlast := short_piece_is_last B bpp hB s.rest hshort
        have hf : s'.fin = true := by rw [hfin']; simpa using hshort
        cases fuel with
        | zero => omega
        | succ fuel =>
          rw [fhDrain_fin H H1 B hs bpp hybrid fuel s' hf]
          rw [hlast, chunks_nil]
          refine ⟨?_, ?_, ?_, ?_⟩
          · simp [layersFrom, hy1]
          · cases hybrid <;> simp [hy2]
          · cases hybrid <;> simp [hpad, padAfter]
          · simp [hroot, hshort, layersFrom, hy1]
      · have hf : s'.fin = false := by rw [hfin']; simpa using hshort
        have hlen : s'.rest.length + 2 ≤ fuel := by
          rw [hrest, List.length_drop]; omega
        obtain ⟨i1, i2, i3, i4⟩ := ih s' hf hlen
        have hemp : s'.out.layers.isEmpty = false := by
          rw [hlay]; exact isEmpty_append_singleton _ _
        rw [hemp, hrest] at i1 i4
        rw [hrest] at i2 i3
        refine ⟨?_, ?_, ?_, ?_⟩
        · simp [layersFrom, hy1, i1]
        · cases hybrid <;> simp [hy2, i2]
        · rw [i3, hpad]; cases hybrid <;> simp [padAfter]
        · rw [i4, hlay, hy1]; simp [layersFrom]

/-! closed forms of the top-level functions -/

theorem hasherV2_closed (hB : 0 < B) (hbpp : 0 < bpp) (d : Bytes) :
    Impl.hasherV2 H B hs bpp d
      = Impl.calcRoot H hs bpp (layersFrom H B hs bpp true (chunks (bpp * B) d)) := by
  unfold Impl.hasherV2
  rw [v2Loop_eq H B hs bpp hB hbpp _ _ _ (Nat.lt_succ_self _)]
  simp

theorem hasherHybrid_closed (hB : 0 < B) (hbpp : 0 < bpp) (d : Bytes) :
    Impl.hasherHybrid H H1 B hs bpp d
      = ((Impl.calcRoot H hs bpp (layersFrom H B hs bpp true (chunks (bpp * B) d))).1,
         (layersFrom H B hs bpp true (chunks (bpp * B) d)).flatten,
         (chunks (bpp * B) d).map (v1Piece H1 (bpp * B)),
         padAfter (bpp * B) none (chunks (bpp * B) d)) := by
  unfold Impl.hasherHybrid
  rw [hybridLoop_eq H H1 B hs bpp hB hbpp _ _ _ (Nat.lt_succ_self _)]
  simp [Impl.calcRoot]

theorem fileHasher_closed (hB : 0 < B) (hbpp : 0 < bpp) (hybrid : Bool) (d : Bytes) :
    Impl.fileHasher H H1 B hs bpp hybrid d
      = ((Impl.calcRoot H hs bpp (layersFrom H B hs bpp true (chunks (bpp * B) d))).1,
         (layersFrom H B hs bpp true (chunks (bpp * B) d)).flatten,
         (if hybrid then (chunks (bpp * B) d).map (v1Piece H1 (bpp * B)) else []),
         (if hybrid then padAfter (bpp * B) none (chunks (bpp * B) d) else none)) := by
  unfold Impl.fileHasher
  obtain ⟨h1, h2, h3, h4⟩ := fhDrain_eq H H1 B hs bpp hB hbpp hybrid (d.length + 2)
    ⟨d, false, ⟨[], [], none⟩, none⟩ rfl (Nat.le_refl _)
  simp only [] at h1 h2 h3 h4 ⊢
  rw [h1, h2, h3, h4]
  simp

end Hashers

/-! ### what the closed forms are, in terms of the specification -/

section Meaning
variable (H H1 : Bytes → Bytes) (B hs : Nat)

theorem padR_length (n : Nat) (z : α) (p : List α) (h : p.length ≤ n) :
    (padR n z p).length = n := by
  simp [padR]; omega

theorem padBlocks_first (j : Nat) (l : List Bytes) :
    Impl.padBlocks hs (2 ^ j) true l = padR (2 ^ lg l.length) (zeros hs) l := by
  unfold Impl.padBlocks
  split
  · rename_i h
    rw [h, lg_two_pow, padR_of_length _ _ _ h]
  · simp [padR, np2_eq]

theorem padBlocks_later (bpp : Nat) (l : List Bytes) :
    Impl.padBlocks hs bpp false l = padR bpp (zeros hs) l := by
  unfold Impl.padBlocks
  split
  · rename_i h
    rw [padR_of_length _ _ _ h]
  · simp [padR]

theorem pieceHash_first (j : Nat) (p : Bytes) :
    pieceHash H B hs (2 ^ j) true p
      = tree H (lg (chunks B p).length)
          (padR (2 ^ lg (chunks B p).length) (zeros hs) ((chunks B p).map H)) := by
  unfold pieceHash
  rw [padBlocks_first, List.length_map]
  exact merkleRoot_eq_tree H _ _ (padR_length _ _ _ (by rw [List.length_map]; exact le_two_pow_lg _))

theorem pieceHash_later (j : Nat) (p : Bytes) (h : (chunks B p).length ≤ 2 ^ j) :
    pieceHash H B hs (2 ^ j) false p
      = tree H j (padR (2 ^ j) (zeros hs) ((chunks B p).map H)) := by
  unfold pieceHash
  rw [padBlocks_later]
  exact merkleRoot_eq_tree H _ _ (padR_length _ _ _ (by rw [List.length_map]; exact h))

theorem pieceHash_full (bpp : Nat) (p : Bytes) (h : (chunks B p).length = bpp) :
    pieceHash H B hs bpp true p = pieceHash H B hs bpp false p := by
  unfold pieceHash Impl.padBlocks
  simp [h]

theorem v1Piece_eq (pl : Nat) (p : Bytes) : v1Piece H1 pl p = H1 (padR pl 0 p) := by
  unfold v1Piece padR zeros
  split
  · rfl
  · rename_i h
    have : pl - p.length = 0 := by omega
    simp [this]

/-- v1 pieces of the hybrid loops = SHA-1 over the slices of the zero-extended file -/
theorem v1Pieces_eq_spec (pl : Nat) (hpl : 0 < pl) (d : Bytes) :
    (chunks pl d).map (v1Piece H1 pl) = Spec.hybridPieces H1 pl d := by
  unfold Spec.hybridPieces
  have hdvd := gap_dvd pl d.length hpl
  have hlt := gap_lt pl d.length hpl
  have hq : d.length + gap pl d.length = (d.length + gap pl d.length) / pl * pl := by
    have := Nat.div_add_mod (d.length + gap pl d.length) pl
    rw [hdvd, Nat.mul_comm] at this
    omega
  have hcnt : (d.length + gap pl d.length) / pl - (chunks pl d).length = 0 := by
    rw [chunks_length pl hpl]
    unfold cdiv
    apply Nat.sub_eq_zero_of_le
    rw [Nat.le_div_iff_mul_le hpl]
    omega
  unfold zeros
  rw [chunks_append_replicate pl hpl 0 _ d _ hq, hcnt]
  simp only [List.replicate_zero, List.append_nil, List.map_map]
  apply List.map_congr_left
  intro p _
  simp [v1Piece_eq]

/-- the recorded padding length = gap to the next piece boundary, absent when zero -/
theorem padAfter_eq_spec (pl : Nat) (hpl : 0 < pl) (d : Bytes) : ∀ prev : Option Nat,
    padAfter pl prev (chunks pl d)
      = if gap pl d.length = 0 then prev else some (gap pl d.length) := by
  induction d using chunks.induct pl with
  | case1 l h =>
    intro prev
    cases h with
    | inl h => omega
    | inr h => subst h; simp [chunks_nil, padAfter, gap]
  | case2 l h ih =>
    intro prev
    have hl : l ≠ [] := fun e => h (Or.inr e)
    have hpos : 0 < l.length := List.length_pos_iff.mpr hl
    rw [chunks_cons pl hpl l hl, padAfter, ih]
    by_cases hge : pl ≤ l.length
    · have h1 : pl - (l.take pl).length = 0 := by rw [List.length_take]; omega
      have h2 : gap pl (l.drop pl).length = gap pl l.length := by
        unfold gap; rw [List.length_drop, ← Nat.mod_eq_sub_mod hge]
      rw [h2, h1]; simp
    · have h1 : pl - (l.take pl).length = pl - l.length := by rw [List.length_take]; omega
      have h2 : gap pl (l.drop pl).length = 0 := by
        rw [List.length_drop]
        have : l.length - pl = 0 := by omega
        rw [this]; simp [gap]
      have h3 : gap pl l.length = pl - l.length := by
        unfold gap
        rw [Nat.mod_eq_of_lt (by omega : l.length < pl), Nat.mod_eq_of_lt (by omega)]
      rw [h1, h2, h3]
      have : pl - l.length > 0 := by omega
      have h4 : pl - l.length ≠ 0 := by omega
      simp [this, h4]

theorem padAfter_none_eq_spec (pl : Nat) (hpl : 0 < pl) (d : Bytes) :
    padAfter pl none (chunks pl d) = Spec.hybridPadding pl d := by
  rw [padAfter_eq_spec pl hpl d none]; rfl

/-- number of leaves exceeds one piece iff the file is longer than one piece -/
theorem leaves_length (hB : 0 < B) (d : Bytes) : (Spec.leaves H B d).length = cdiv d.length B := by
  simp [Spec.leaves, chunks_length B hB]

theorem cdiv_cdiv (n B k : Nat) (hB : 0 < B) (hk : 0 < k) :
    cdiv (cdiv n B) k = cdiv n (k * B) := by
  have hkB : 0 < k * B := Nat.mul_pos hk hB
  apply Nat.le_antisymm
  · rw [cdiv_le_iff _ _ _ hk, cdiv_le_iff _ _ _ hB, Nat.mul_assoc]
    exact le_cdiv_mul n (k * B) hkB
  · rw [cdiv_le_iff _ _ _ hkB, ← Nat.mul_assoc, ← cdiv_le_iff _ _ _ hB]
    exact le_cdiv_mul _ k hk

/-- single-piece file: one layer hash, which is the pieces root -/
theorem layers_single (j : Nat) (d : Bytes) (hd : d ≠ [])
    (hlen : d.length ≤ 2 ^ j * B) :
    layersFrom H B hs (2 ^ j) true (chunks (2 ^ j * B) d) = [Spec.root H B hs d] := by
  rw [chunks_short _ d hd hlen]
  simp only [layersFrom]
  rw [pieceHash_first]
  simp [Spec.root, Spec.leaves, Spec.padTo, padR]

/-- facts about the specification for a file longer than one piece -/
theorem spec_multi (hB : 0 < B) (j : Nat) (d : Bytes) (hlen : 2 ^ j * B < d.length) :
    Spec.pieceLayer H B hs j d
        = (chunks (2 ^ j) (Spec.leaves H B d)).map
            (fun g => tree H j (padR (2 ^ j) (zeros hs) g)) ∧
    (Spec.pieceLayer H B hs j d).length = cdiv (Spec.leaves H B d).length (2 ^ j) ∧
    1 < cdiv (Spec.leaves H B d).length (2 ^ j) ∧
    Spec.root H B hs d
        = tree H (lg (cdiv (Spec.leaves H B d).length (2 ^ j)))
            (Spec.pieceLayer H B hs j d
              ++ List.replicate
                  (2 ^ lg (cdiv (Spec.leaves H B d).length (2 ^ j))
                    - cdiv (Spec.leaves H B d).length (2 ^ j))
                  (tree H j (List.replicate (2 ^ j) (zeros hs)))) := by
  have hj : 0 < 2 ^ j := Nat.two_pow_pos j
  generalize hls : Spec.leaves H B d = ls
  have hn : 2 ^ j < ls.length := by
    rw [← hls, leaves_length H B hB]
    false_or_by_contra
    rename_i hc
    have := (cdiv_le_iff d.length B (2 ^ j) hB).mp (by omega)
    omega
  generalize hm : cdiv ls.length (2 ^ j) = m
  have hlg : lg ls.length = lg m + j := by rw [← hm]; exact lg_split ls.length j hn
  have hmax : max (lg ls.length) j = lg m + j := by omega
  have hle : ls.length ≤ 2 ^ (lg m + j) := by rw [← hlg]; exact le_two_pow_lg _
  have hq : ls.length + (2 ^ (lg m + j) - ls.length) = 2 ^ lg m * 2 ^ j := by
    rw [← Nat.pow_add]; omega
  have hc := chunks_append_replicate (2 ^ j) hj (zeros hs) (2 ^ lg m) ls _ hq
  have hcl : (chunks (2 ^ j) ls).length = m := by rw [chunks_length _ hj, hm]
  have hm1 : 1 < m := by
    false_or_by_contra
    rename_i hc'
    have : cdiv ls.length (2 ^ j) ≤ 1 := by omega
    rw [cdiv_le_iff _ _ _ hj] at this
    omega
  have hPL : Spec.pieceLayer H B hs j d
      = (chunks (2 ^ j) ls).map (fun g => tree H j (padR (2 ^ j) (zeros hs) g)) := by
    unfold Spec.pieceLayer Spec.padTo
    simp only [hls]
    rw [hmax, hc, hcl, hm, List.map_append, List.map_map,
      List.take_left' (by rw [List.length_map, hcl])]
    rfl
  refine ⟨hPL, ?_, hm1, ?_⟩
  · rw [hPL, List.length_map, hcl]
  · unfold Spec.root Spec.padTo
    simp only [hls]
    rw [hPL, hlg, tree_of_trees H j (lg m) _ (by rw [List.length_append, List.length_replicate]; exact hq),
      hc, hcl, List.map_append, List.map_map, List.map_replicate]
    rfl

/-- multi-piece file: the layer hashes of the loops are the specification's piece layer -/
theorem layers_multi (hB : 0 < B) (j : Nat) (d : Bytes) (hlen : 2 ^ j * B < d.length) :
    layersFrom H B hs (2 ^ j) true (chunks (2 ^ j * B) d) = Spec.pieceLayer H B hs j d := by
  have hj : 0 < 2 ^ j := Nat.two_pow_pos j
  have hpl : 0 < 2 ^ j * B := Nat.mul_pos hj hB
  have hd : d ≠ [] := by intro e; subst e; simp at hlen
  rw [(spec_multi H B hs hB j d hlen).1]
  -- every piece has at most 2^j blocks, the first exactly 2^j
  have hall : ∀ p ∈ chunks (2 ^ j * B) d, (chunks B p).length ≤ 2 ^ j := by
    intro p hp
    have := (chunks_mem_length _ hpl d p hp).2
    rw [chunks_length B hB, cdiv_le_iff _ _ _ hB]; exact this
  have hgen : ∀ cs : List Bytes, (∀ p ∈ cs, (chunks B p).length ≤ 2 ^ j) →
      layersFrom H B hs (2 ^ j) false cs
        = cs.map (fun p => tree H j (padR (2 ^ j) (zeros hs) ((chunks B p).map H))) := by
    intro cs
    induction cs with
    | nil => intro _; simp [layersFrom]
    | cons p ps ih =>
      intro h
      simp only [layersFrom, List.map_cons]
      rw [pieceHash_later H B hs j p (h p (by simp)), ih (fun q hq => h q (by simp [hq]))]
  have hfirst : layersFrom H B hs (2 ^ j) true (chunks (2 ^ j * B) d)
      = layersFrom H B hs (2 ^ j) false (chunks (2 ^ j * B) d) := by
    rw [chunks_cons _ hpl d hd]
    simp only [layersFrom]
    rw [pieceHash_full]
    exact chunks_length_mul B hB (2 ^ j) _ (by rw [List.length_take]; omega)
  rw [hfirst, hgen _ hall]
  unfold Spec.leaves
  rw [chunks_map, ← chunks_chunks (2 ^ j) B hj hB d, List.map_map, List.map_map]
  rfl

/-- `_calculate_root` on the collected layer hashes gives the specified root -/
theorem calcRoot_layers (hB : 0 < B) (j : Nat) (d : Bytes) (hd : d ≠ []) :
    (Impl.calcRoot H hs (2 ^ j) (layersFrom H B hs (2 ^ j) true (chunks (2 ^ j * B) d))).1
      = Spec.root H B hs d := by
  by_cases hlen : d.length ≤ 2 ^ j * B
  · rw [layers_single H B hs j d hd hlen]
    simp [Impl.calcRoot, merkleRoot_singleton]
  · have hlen' : 2 ^ j * B < d.length := by omega
    obtain ⟨_, h2, h3, h4⟩ := spec_multi H B hs hB j d hlen'
    rw [layers_multi H B hs hB j d hlen', h4]
    unfold Impl.calcRoot
    simp only [h2, h3, if_true, np2_eq, merkleRoot_replicate]
    exact merkleRoot_eq_tree H _ _ (by
      rw [List.length_append, List.length_replicate, h2]
      have := le_two_pow_lg (cdiv (Spec.leaves H B d).length (2 ^ j))
      omega)

end Meaning

/-! ### the single-file rule of the hybrid creators -/

section Single
variable (H1 : Bytes → Bytes)

/-- a file that does not end on a piece boundary: whole pieces, then the short tail -/
theorem chunks_tail_split (pl : Nat) (hpl : 0 < pl) (d : List α) (ht : d.length % pl ≠ 0) :
    chunks pl d = chunks pl (d.take (d.length - d.length % pl))
      ++ [d.drop (d.length - d.length % pl)] := by
  have hdm := Nat.div_add_mod d.length pl
  have hlt := Nat.mod_lt d.length hpl
  have hk : d.length - d.length % pl = d.length / pl * pl := by
    rw [Nat.mul_comm]; omega
  have hta : (d.take (d.length - d.length % pl)).length = d.length / pl * pl := by
    rw [List.length_take]; omega
  have hdl : (d.drop (d.length - d.length % pl)).length = d.length % pl := by
    rw [List.length_drop]; omega
  have hne : d.drop (d.length - d.length % pl) ≠ [] := by
    intro e; rw [e] at hdl; simp at hdl; omega
  conv => lhs; rw [← List.take_append_drop (d.length - d.length % pl) d]
  rw [chunks_append pl hpl (d.length / pl) _ _ hta, chunks_short pl _ hne (by omega)]

theorem v1Piece_full (pl : Nat) (p : Bytes) (h : p.length = pl) : v1Piece H1 pl p = H1 p := by
  unfold v1Piece; simp [h]

/-- replacing the last hybrid digest by the digest of the unpadded tail gives the plain
    BEP 3 pieces of the file -/
theorem singleTailList_pieces (pl : Nat) (hpl : 0 < pl) (d : Bytes) :
    Impl.singleTailList H1 pl d ((chunks pl d).map (v1Piece H1 pl))
      = some ((chunks pl d).map H1) := by
  unfold Impl.singleTailList Impl.sha1Tail
  by_cases ht : d.length % pl = 0
  · simp only [ht, ne_eq, not_true_eq_false, if_false]
    have hg : gap pl d.length = 0 := (gap_eq_zero_iff pl d.length hpl).mpr ht
    rw [v1Pieces_eq_spec H1 pl hpl d]
    simp [Spec.hybridPieces, hg, zeros]
  · have hle : d.length % pl ≤ d.length := Nat.mod_le _ _
    simp only [ht, ne_eq, not_false_eq_true, if_true, hle]
    have hsplit := chunks_tail_split pl hpl d ht
    have hfull : ∀ c ∈ chunks pl (d.take (d.length - d.length % pl)), c.length = pl := by
      have := chunks_dropLast_length pl hpl d
      rw [hsplit, List.dropLast_concat] at this
      exact this
    rw [hsplit]
    simp only [List.map_append, List.map_cons, List.map_nil]
    have hmap : (chunks pl (d.take (d.length - d.length % pl))).map (v1Piece H1 pl)
        = (chunks pl (d.take (d.length - d.length % pl))).map H1 :=
      List.map_congr_left (fun c hc => v1Piece_full H1 pl c (hfull c hc))
    simp [hmap]

theorem singleTailBytes_pieces (pl : Nat) (hpl : 0 < pl) (d : Bytes)
    (h20 : ∀ x, (H1 x).length = 20) :
    Impl.singleTailBytes H1 pl d ((chunks pl d).map (v1Piece H1 pl)).flatten
      = some ((chunks pl d).map H1).flatten := by
  unfold Impl.singleTailBytes Impl.sha1Tail
  by_cases ht : d.length % pl = 0
  · simp only [ht, ne_eq, not_true_eq_false, if_false]
    have hg : gap pl d.length = 0 := (gap_eq_zero_iff pl d.length hpl).mpr ht
    rw [v1Pieces_eq_spec H1 pl hpl d]
    simp [Spec.hybridPieces, hg, zeros]
  · have hle : d.length % pl ≤ d.length := Nat.mod_le _ _
    simp only [ht, ne_eq, not_false_eq_true, if_true, hle]
    have hsplit := chunks_tail_split pl hpl d ht
    have hfull : ∀ c ∈ chunks pl (d.take (d.length - d.length % pl)), c.length = pl := by
      have := chunks_dropLast_length pl hpl d
      rw [hsplit, List.dropLast_concat] at this
      exact this
    rw [hsplit]
    simp only [List.map_append, List.map_cons, List.map_nil, List.flatten_append,
      List.flatten_cons, List.flatten_nil, List.append_nil]
    have hmap : (chunks pl (d.take (d.length - d.length % pl))).map (v1Piece H1 pl)
        = (chunks pl (d.take (d.length - d.length % pl))).map H1 :=
      List.map_congr_left (fun c hc => v1Piece_full H1 pl c (hfull c hc))
    rw [hmap]
    have hl : (v1Piece H1 pl (d.drop (d.length - d.length % pl))).length = 20 := by
      unfold v1Piece; exact h20 _
    rw [List.length_append, hl, Nat.add_sub_cancel, List.take_left' rfl]

end Single

/-! ### toy hash functions, used only by the `example`s that follow the property theorems -/
namespace Toy
/-- one-byte block/node "hash" -/
def toyH : Bytes → Bytes := fun b => [b.foldl (fun a x => 3 * a + x + 1) 7]
/-- one-byte v1 "hash" -/
def toyH1 : Bytes → Bytes := fun b => [b.foldl (fun a x => 5 * a + x + 2) 1]
/-- a toy v1 hash with 20-byte digests, as `pieces[-20:] = …` in `TorrentAssembler` assumes -/
def toyH20 : Bytes → Bytes := fun b => List.replicate 20 (b.foldl (fun a x => 5 * a + x + 2) 1)
end Toy

end TorrentVerif

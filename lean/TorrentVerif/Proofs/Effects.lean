import TorrentVerif.Model.Effects
/-
  Frame lemmas of the effects model: what `get` sees after `set` / `del`; reads change nothing.
-/
namespace TorrentVerif

namespace FS

theorem get_set_same (fs : FS) (p : Path) (b : Bytes) : (fs.set p b).get p = some b := by
  induction fs with
  | nil => simp [set, get]
  | cons e r ih =>
    obtain ⟨q, c⟩ := e
    by_cases h : q = p <;> simp [set, get, h, ih]

theorem get_set_other (fs : FS) (p q : Path) (b : Bytes) (h : q ≠ p) :
    (fs.set p b).get q = fs.get q := by
  induction fs with
  | nil => simp [set, get, Ne.symm h]
  | cons e r ih =>
    obtain ⟨x, c⟩ := e
    by_cases hx : x = p
    · subst hx; simp [set, get, Ne.symm h]
    · by_cases hq : x = q
      · subst hq; simp [set, get, hx]
      · simp [set, get, hx, hq, ih]

theorem get_del_same (fs : FS) (p : Path) : (fs.del p).get p = none := by
  induction fs with
  | nil => rfl
  | cons e r ih =>
    obtain ⟨x, c⟩ := e
    by_cases hx : x = p
    · simpa [del, List.filter_cons, hx] using ih
    · simpa [del, List.filter_cons, hx, get] using ih

theorem get_del_other (fs : FS) (p q : Path) (h : q ≠ p) : (fs.del p).get q = fs.get q := by
  induction fs with
  | nil => rfl
  | cons e r ih =>
    obtain ⟨x, c⟩ := e
    by_cases hx : x = p
    · subst hx
      have : (del ((x, c) :: r) x) = del r x := by simp [del]
      rw [this, ih]; simp [get, Ne.symm h]
    · have : (del ((x, c) :: r) p) = (x, c) :: del r p := by simp [del, hx]
      rw [this]
      by_cases hq : x = q <;> simp [get, hq, ih]

/-- Removing a path that is not there changes nothing (literally). -/
theorem del_of_get_none (fs : FS) (p : Path) (h : fs.get p = none) : fs.del p = fs := by
  induction fs with
  | nil => rfl
  | cons e r ih =>
    obtain ⟨x, c⟩ := e
    by_cases hx : x = p
    · simp [get, hx] at h
    · simp only [get, hx, ↓reduceIte] at h
      have : (del ((x, c) :: r) p) = (x, c) :: del r p := by simp [del, hx]
      rw [this, ih h]

/-- Creating a path that was absent and removing it again restores the filesystem (literally). -/
theorem del_set_of_get_none (fs : FS) (p : Path) (b : Bytes) (h : fs.get p = none) :
    (fs.set p b).del p = fs := by
  induction fs with
  | nil => simp [set, del]
  | cons e r ih =>
    obtain ⟨x, c⟩ := e
    by_cases hx : x = p
    · simp [get, hx] at h
    · simp only [get, hx, ↓reduceIte] at h
      simp only [set, hx, ↓reduceIte]
      have : (del ((x, c) :: set r p b) p) = (x, c) :: del (set r p b) p := by
        simp [del, hx]
      rw [this, ih h]

theorem has_eq_true_iff (fs : FS) (p : Path) : fs.has p = true ↔ ∃ c, fs.get p = some c := by
  unfold has; cases fs.get p <;> simp

theorem has_eq_false_iff (fs : FS) (p : Path) : fs.has p = false ↔ fs.get p = none := by
  unfold has; cases fs.get p <;> simp

end FS

theorem run_append (fs : FS) (a b : List Op) :
    run fs (a ++ b) = (run fs a).bind (fun s => run s b) := by
  induction a generalizing fs with
  | nil => rfl
  | cons o r ih =>
    simp only [List.cons_append, run]
    cases applyOp fs o with
    | none => rfl
    | some s => exact ih s

/-- Reading existing files changes nothing. -/
theorem run_reads (fs : FS) (ps : List Path) (h : ∀ p ∈ ps, fs.has p = true) :
    run fs (ps.map .read) = some fs := by
  induction ps with
  | nil => rfl
  | cons p r ih =>
    have hp : fs.has p = true := h p (by simp)
    simp only [List.map_cons, run, applyOp, hp, ↓reduceIte]
    exact ih (fun q hq => h q (by simp [hq]))

theorem partPath_ne (mf : Path) : Impl.partPath mf ≠ mf := by
  intro h
  have := congrArg String.length h
  simp [Impl.partPath] at this

end TorrentVerif

namespace TorrentVerif

theorem FS.set_set (fs : FS) (p : Path) (a b : Bytes) : (fs.set p a).set p b = fs.set p b := by
  induction fs with
  | nil => simp [FS.set]
  | cons e r ih =>
    obtain ⟨x, c⟩ := e
    by_cases hx : x = p <;> simp [FS.set, hx, ih]

/-- A trace of read operations that completes leaves the filesystem literally unchanged. -/
theorem run_only_reads (fs : FS) (ops : List Op) (h : ∀ o ∈ ops, o.isRead = true) (s : FS)
    (hr : run fs ops = some s) : s = fs := by
  induction ops generalizing fs with
  | nil => simp [run] at hr; exact hr.symm
  | cons o r ih =>
    have ho : o.isRead = true := h o (by simp)
    cases o with
    | read p =>
      simp only [run, applyOp] at hr
      by_cases hp : fs.has p = true
      · simp only [hp, ↓reduceIte] at hr
        exact ih fs (fun o' ho' => h o' (by simp [ho'])) hr
      · simp [hp] at hr
    | create p => simp [Op.isRead] at ho
    | write p d => simp [Op.isRead] at ho
    | touch p => simp [Op.isRead] at ho
    | replace a b => simp [Op.isRead] at ho
    | remove p => simp [Op.isRead] at ho

/-- The writability probe restores the filesystem literally. -/
theorem run_probe (fs : FS) (out : Path) : run fs (Impl.probeOps fs out) = some fs := by
  unfold Impl.probeOps
  by_cases hp : fs.has (Impl.probePath out) = true
  · simp [run, applyOp, hp]
  · have hnone : fs.get (Impl.probePath out) = none :=
      (FS.has_eq_false_iff _ _).mp (by simpa using hp)
    have hhas : (fs.set (Impl.probePath out) []).has (Impl.probePath out) = true := by
      simp [FS.has, FS.get_set_same]
    simp [run, applyOp, hp, hhas, FS.del_set_of_get_none _ _ _ hnone]

/-- a crash point behind the first operation is a crash point of the rest, run on the state the
    first operation leaves -/
theorem crashState_cons (fs : FS) (o : Op) (ops : List Op) (c k : Nat) :
    crashState fs (o :: ops) (c + 1) k = match applyOp fs o with
      | some s => crashState s ops c k
      | none => none := by
  unfold crashState
  simp only [List.take_succ_cons, run]
  cases applyOp fs o with
  | none => rfl
  | some s =>
    simp only
    cases run s (ops.take c) with
    | none => rfl
    | some s' => simp [interrupted]

theorem errorState_cons (fs : FS) (o : Op) (ops : List Op) (fin : FS → List Op) (i k : Nat) :
    errorState fs (o :: ops) fin (i + 1) k = match applyOp fs o with
      | some s => errorState s ops fin i k
      | none => none := by
  unfold errorState
  rw [crashState_cons]
  cases applyOp fs o <;> rfl

theorem editOpsFrom_eq (fs : FS) (mf : Path) (enc : Option Bytes)
    (h : fs.get (Impl.partPath mf) = none) : Impl.editOpsFrom fs mf enc = Impl.editOps mf enc := by
  have : fs.has (Impl.partPath mf) = false := (FS.has_eq_false_iff _ _).mpr h
  simp [Impl.editOpsFrom, Impl.editOps, this]

theorem editOpsFrom_leftover (fs : FS) (mf : Path) (enc : Option Bytes)
    (h : fs.has (Impl.partPath mf) = true) :
    Impl.editOpsFrom fs mf enc
      = .read mf :: .remove (Impl.partPath mf) :: (Impl.editOps mf enc).tail := by
  simp [Impl.editOpsFrom, Impl.editOps, h]

theorem editOps_cons (mf : Path) (enc : Option Bytes) :
    Impl.editOps mf enc = .read mf :: (Impl.editOps mf enc).tail := by
  simp [Impl.editOps]

/-- with a leftover: two steps in (load, removal of the leftover) the run coincides with a run of
    the leftover-free operation list, one step in, on the filesystem without the leftover -/
theorem crash_leftover_shift (fs : FS) (mf : Path) (old : Bytes) (enc : Option Bytes)
    (hold : fs.get mf = some old) (hp : fs.has (Impl.partPath mf) = true) (c k : Nat) :
    crashState fs (Impl.editOpsFrom fs mf enc) (c + 2) k
      = crashState (fs.del (Impl.partPath mf)) (Impl.editOps mf enc) (c + 1) k := by
  have hne : mf ≠ Impl.partPath mf := Ne.symm (partPath_ne mf)
  have h1 : fs.has mf = true := by simp [FS.has, hold]
  have h2 : (fs.del (Impl.partPath mf)).has mf = true := by
    simp [FS.has, FS.get_del_other _ _ _ hne, hold]
  rw [editOpsFrom_leftover fs mf enc hp, crashState_cons, editOps_cons mf enc, crashState_cons]
  simp only [applyOp, h1, h2, ↓reduceIte]
  rw [crashState_cons]
  simp only [applyOp, hp, ↓reduceIte, List.tail_cons]

theorem error_leftover_shift (fs : FS) (mf : Path) (old : Bytes) (enc : Option Bytes)
    (fin : FS → List Op)
    (hold : fs.get mf = some old) (hp : fs.has (Impl.partPath mf) = true) (i k : Nat) :
    errorState fs (Impl.editOpsFrom fs mf enc) fin (i + 2) k
      = errorState (fs.del (Impl.partPath mf)) (Impl.editOps mf enc) fin (i + 1) k := by
  unfold errorState
  rw [crash_leftover_shift fs mf old enc hold hp]

end TorrentVerif

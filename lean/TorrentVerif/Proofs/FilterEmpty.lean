import TorrentVerif.Proofs.Create
/-
  `edit_torrent`: exact effect on every key of the top level and of `info`.
-/
namespace TorrentVerif
open Impl Spec

/-! ### `filter_empty` -/

theorem delField_fst (v : EVal) (key : Bytes) (b : Bool) (p : Dict × Dict) :
    (delField v key b p).1 = if v.isDel then dictDel p.1 key else p.1 := by
  unfold delField
  by_cases hd : v.isDel = true
  · simp only [hd, if_true]
    by_cases hh : dictHas p.1 key = true
    · simp [hh]
    · have : dictDel p.1 key = p.1 := dictDel_of_not_mem _ _ (by
        rw [← dictHas_iff]; exact hh)
      by_cases h2 : (dictHas p.2 key && b) = true <;> simp [hh, h2, this]
  · simp [hd]

theorem delField_snd (v : EVal) (key : Bytes) (b : Bool) (p : Dict × Dict) :
    (delField v key b p).2 = if (v.isDel && b && !dictHas p.1 key) = true then dictDel p.2 key else p.2 := by
  unfold delField
  by_cases hd : v.isDel = true
  · simp only [hd, if_true, Bool.true_and]
    by_cases hh : dictHas p.1 key = true
    · simp [hh]
    · simp only [hh, Bool.false_eq_true, if_false, Bool.not_false, Bool.and_true]
      cases b
      · simp
      · by_cases h2 : dictHas p.2 key = true
        · simp [h2]
        · have : dictDel p.2 key = p.2 := dictDel_of_not_mem _ _ (by
            rw [← dictHas_iff]; exact h2)
          simp [h2, this]
  · simp [hd]

theorem dictHas_dictDel (d : Dict) (k k' : Bytes) :
    dictHas (dictDel d k) k' = if k = k' then false else dictHas d k' := by
  unfold dictHas; rw [dictGet_dictDel]; by_cases h : k = k' <;> simp [h]

/-- top level after `filter_empty`: every cleared field's key is gone, nothing else changes -/
theorem filterEmpty_top_get (req : EditReq) (top info : Dict) (k : Bytes) :
    dictGet (filterEmpty req (top, info)).1 k =
      if (req.comment.isDel = true ∧ K.comment = k) ∨ (req.priv.isDel = true ∧ K.priv = k) ∨
         (req.source.isDel = true ∧ K.source = k) ∨ (req.announce.isDel = true ∧ K.announce = k) ∨
         (req.httpseeds.isDel = true ∧ K.httpseeds = k) ∨ (req.urlList.isDel = true ∧ K.urlList = k)
      then none else dictGet top k := by
  simp only [filterEmpty, delField_fst]
  cases req.comment.isDel <;> cases req.priv.isDel <;> cases req.source.isDel <;>
    cases req.announce.isDel <;> cases req.httpseeds.isDel <;> cases req.urlList.isDel <;>
    simp only [if_true, Bool.false_eq_true, if_false, dictGet_dictDel, false_and, true_and,
      false_or, or_false] <;>
    (repeat' split) <;> simp_all


theorem dictHas_delField_other (v : EVal) (key k : Bytes) (b : Bool) (p : Dict × Dict)
    (h : key ≠ k) : dictHas (delField v key b p).1 k = dictHas p.1 k := by
  rw [delField_fst]
  cases v.isDel <;> simp [dictHas_dictDel, h]

theorem delField_snd_false (v : EVal) (key : Bytes) (p : Dict × Dict) :
    (delField v key false p).2 = p.2 := by
  rw [delField_snd]; simp

/-- `info` after `filter_empty`: a cleared `comment` / `private` / `source` is removed from
    `info` unless a top-level key of that name took the hit; nothing else changes -/
theorem filterEmpty_info_get (req : EditReq) (top info : Dict) (k : Bytes) :
    dictGet (filterEmpty req (top, info)).2 k =
      if (req.comment.isDel = true ∧ K.comment = k ∧ dictHas top K.comment = false) ∨
         (req.priv.isDel = true ∧ K.priv = k ∧ dictHas top K.priv = false) ∨
         (req.source.isDel = true ∧ K.source = k ∧ dictHas top K.source = false)
      then none else dictGet info k := by
  simp only [filterEmpty, delField_snd]
  rw [dictHas_delField_other _ _ _ _ _ (by decide : K.priv ≠ K.comment),
    dictHas_delField_other _ _ _ _ _ (by decide : K.source ≠ K.comment),
    dictHas_delField_other _ _ _ _ _ (by decide : K.announce ≠ K.comment),
    dictHas_delField_other _ _ _ _ _ (by decide : K.httpseeds ≠ K.comment),
    dictHas_delField_other _ _ _ _ _ (by decide : K.urlList ≠ K.comment),
    dictHas_delField_other _ _ _ _ _ (by decide : K.source ≠ K.priv),
    dictHas_delField_other _ _ _ _ _ (by decide : K.announce ≠ K.priv),
    dictHas_delField_other _ _ _ _ _ (by decide : K.httpseeds ≠ K.priv),
    dictHas_delField_other _ _ _ _ _ (by decide : K.urlList ≠ K.priv),
    dictHas_delField_other _ _ _ _ _ (by decide : K.announce ≠ K.source),
    dictHas_delField_other _ _ _ _ _ (by decide : K.httpseeds ≠ K.source),
    dictHas_delField_other _ _ _ _ _ (by decide : K.urlList ≠ K.source)]
  cases req.comment.isDel <;> cases req.priv.isDel <;> cases req.source.isDel <;>
    cases dictHas top K.comment <;> cases dictHas top K.priv <;> cases dictHas top K.source <;>
    simp only [if_true, Bool.false_eq_true, if_false, dictGet_dictDel, false_and, true_and,
      false_or, or_false, Bool.and_true, Bool.and_false, Bool.not_true, Bool.not_false,
      and_true] <;>
    (repeat' split) <;> simp_all

/-- keys of `info` after `filter_empty` are among the old ones -/
theorem filterEmpty_info_keys_sub (req : EditReq) (top info : Dict) (k : Bytes)
    (h : k ∈ keys (filterEmpty req (top, info)).2) : k ∈ keys info := by
  have := filterEmpty_info_get req top info k
  rw [← dictHas_iff] at h ⊢
  unfold dictHas at h ⊢
  split at this
  · rw [this] at h; cases h
  · rw [← this]; exact h

end TorrentVerif

import TorrentVerif.Proofs.CreatorsV1
import TorrentVerif.Proofs.CreatorsV2
/-
  The payload parts the real traversals produce satisfy what `create_canonical_*` /
  `create_wellformed_*` (Props/C06) assume of their parameters.
-/
namespace TorrentVerif
open Impl Spec Listing

/-! ### canonical file tree -/

theorem bytesLt_of_leBytes : ∀ (a b : Bytes), leBytes a b = true → a ≠ b → bytesLt a b = true
  | [], [], _, hne => absurd rfl hne
  | [], _ :: _, _, _ => by simp [bytesLt]
  | _ :: _, [], h, _ => by simp [leBytes] at h
  | x :: xs, y :: ys, h, hne => by
    simp only [leBytes] at h
    simp only [bytesLt]
    by_cases h1 : x < y
    · simp [h1]
    · simp only [h1, if_false] at h ⊢
      by_cases h2 : y < x
      · simp [h2] at h
      · simp only [h2, if_false] at h
        have hxy : x = y := u8_eq_of_not_lt h1 h2
        subst hxy
        simp only [if_true]
        exact bytesLt_of_leBytes xs ys h (fun e => hne (by rw [e]))

theorem canon_leafVal (hf : Bytes → FileHash) (d : Bytes) : canon (leafVal hf d) = true := by
  unfold leafVal
  split <;> simp [canon, canonD, strictAsc, bytesLt, K.length, K.piecesRoot]

theorem keys_treeValList (hf : Bytes → FileHash) : (es : List (Bytes × FTree)) →
    keys (treeValList hf es) = es.map (·.1)
  | [] => by simp [treeValList, keys]
  | (n, c) :: t => by
    have := keys_treeValList hf t
    simp only [keys] at this
    simp [treeValList, keys, this]

mutual
theorem canon_treeVal (hf : Bytes → FileHash) : (ft : FTree) → KeysAscending ft →
    canon (treeVal hf ft) = true
  | .leaf d, _ => by simp [treeVal, canon_leafVal]
  | .node es, h => by
    simp only [KeysAscending] at h
    simp only [treeVal]
    rw [canon_dict, keys_treeValList, strictAsc_iff_pairwise, List.pairwise_map]
    exact ⟨h.2.imp (fun {a b} hab => bytesLt_of_leBytes a.1 b.1 hab.1 hab.2),
      canon_treeValList hf es h.1⟩
theorem canon_treeValList (hf : Bytes → FileHash) : (es : List (Bytes × FTree)) →
    KeysAscendingList es → ∀ kv ∈ treeValList hf es, canon kv.2 = true
  | [], _ => by simp [treeValList]
  | (n, c) :: t, h => by
    simp only [KeysAscendingList] at h
    intro kv hkv
    simp only [treeValList, List.mem_cons] at hkv
    rcases hkv with e | e
    · rw [e]; exact canon_treeVal hf c h.1
    · exact canon_treeValList hf t h.2 kv e
end

theorem canon_traverse (hf : Bytes → FileHash) (enum : List (Bytes × FTree) → List (Bytes × FTree))
    (henum : ∀ l, (enum l).Perm l) (t : Node) (hwn : WellNamed t) :
    canon (treeVal hf (traverse enum t)) = true :=
  canon_treeVal hf _ (traverse_keysAscending enum henum t hwn)

theorem isDict_traverse_dir (hf : Bytes → FileHash)
    (enum : List (Bytes × FTree) → List (Bytes × FTree)) (es : List (Bytes × Node)) :
    isDict (some (treeVal hf (traverse enum (.dir es)))) = true := by
  simp [traverse, treeVal, isDict]

/-! ### canonical `files` list -/

theorem canon_fileEntry (p : List Bytes) (s : Nat) : canon (fileEntry p s) = true := by
  have := canon_strs p
  simp [fileEntry, canon, canonD, strictAsc, bytesLt, K.length, K.path, this]

theorem canon_padEntry (n : Nat) : canon (padEntry n) = true := by
  have := canon_strs [sPad, natDec n]
  simp [padEntry, canon, canonD, strictAsc, bytesLt, K.length, K.path, K.attr, this]

theorem canon_v1Entries (al : Bool) (pl : Nat) (ps : List (List Bytes × Nat)) :
    canon (.list (v1Entries al pl ps)) = true := by
  rw [canon_list]
  intro v hv
  rcases v1Entries_shape al pl ps v hv with ⟨p, s, rfl⟩ | ⟨n, rfl⟩
  · exact canon_fileEntry p s
  · exact canon_padEntry n

/-! ### sizes of the hash strings -/

theorem flatten_map_mod (f : Bytes → Bytes) (n : Nat) (h : ∀ x, (f x).length = n)
    (l : List Bytes) : ((l.map f).flatten).length % n = 0 := by
  induction l with
  | nil => simp
  | cons a t ih =>
    simp only [List.map_cons, List.flatten_cons, List.length_append, h a]
    rw [Nat.add_mod, ih]; simp

theorem flatten_all_mod (n : Nat) (l : List Bytes) (h : ∀ x ∈ l, x.length = n) :
    l.flatten.length % n = 0 := by
  induction l with
  | nil => simp
  | cons a t ih =>
    simp only [List.flatten_cons, List.length_append, h a (by simp)]
    rw [Nat.add_mod, ih (fun x hx => h x (by simp [hx]))]; simp

theorem tree_length (H : Bytes → Bytes) (n : Nat) (hH : ∀ x, (H x).length = n) :
    ∀ (j : Nat) (l : List Bytes), l ≠ [] → (∀ x ∈ l, x.length = n) → (tree H j l).length = n
  | 0, l, hl, hall => by
    cases l with
    | nil => exact absurd rfl hl
    | cons a t => simp [tree, hall a (by simp)]
  | j + 1, l, _, _ => by simp [tree, hH]

theorem pieceLayer_mod (H : Bytes → Bytes) (B hs j : Nat) (hB : 0 < B)
    (hH : ∀ x, (H x).length = hs) (d : Bytes) (hlen : 2 ^ j * B < d.length) :
    (Spec.pieceLayer H B hs j d).flatten.length % hs = 0 := by
  apply flatten_all_mod
  rw [(spec_multi H B hs hB j d hlen).1]
  intro x hx
  obtain ⟨g, hg, rfl⟩ := List.mem_map.mp hx
  have hgl := (chunks_mem_length (2 ^ j) (Nat.two_pow_pos j) _ g hg).1
  have hsub : ∀ y ∈ g, y ∈ Spec.leaves H B d := by
    intro y hy
    have := chunks_flatten (2 ^ j) (Nat.two_pow_pos j) (Spec.leaves H B d)
    rw [← this]
    exact List.mem_flatten.mpr ⟨g, hg, hy⟩
  apply tree_length H hs hH
  · intro e
    have : g = [] := by
      unfold padR at e
      exact (List.append_eq_nil_iff.mp e).1
    rw [this] at hgl; simp at hgl
  · intro y hy
    unfold padR at hy
    rcases List.mem_append.mp hy with hy | hy
    · obtain ⟨c, _, rfl⟩ := List.mem_map.mp (hsub y hy)
      exact hH c
    · rw [(List.mem_replicate.mp hy).2]; simp [zeros]

theorem layerItems_mod (H : Bytes → Bytes) (B hs j : Nat) (hB : 0 < B)
    (hH : ∀ x, (H x).length = hs) (files : List (List Bytes × Bytes)) :
    ∀ kv ∈ layerItems (fhV2 H B hs (2 ^ j)) (2 ^ j * B) files, kv.2.length % hs = 0 := by
  intro kv hkv
  unfold layerItems at hkv
  obtain ⟨x, _, he⟩ := List.mem_filterMap.mp hkv
  by_cases hlt : 2 ^ j * B < x.2.length
  · simp only [hlt, if_true, Option.some.injEq] at he
    rw [← he]
    show (fhV2 H B hs (2 ^ j) x.2).layer.length % hs = 0
    rw [fhV2_layer_spec H B hs j hB x.2 hlt]
    exact pieceLayer_mod H B hs j hB hH x.2 hlt
  · simp [hlt] at he

/-! ### the assembled value behind each creator's result -/

theorem createV1_sortMeta (o : CreateOpts) (align : Bool) (H1 : Bytes → Bytes)
    (enum : List (List (Bytes × Bytes)) → List (List (Bytes × Bytes))) (pre : Bytes) (t : Node)
    (r : BVal) (b : Bytes) (h : createV1 o align H1 enum pre t = some (r, b)) :
    ∃ (content : Content) (l : List Bytes), sortMeta (assembleV1 o content ((l.map H1).flatten)) = some r ∧ b = encode r ∧
      content.canon = true ∧ content.isList = true := by
  unfold createV1 at h
  cases t with
  | file d =>
    obtain ⟨hs', hb⟩ := written_some _ r b h
    exact ⟨_, _, hs', hb, rfl, rfl⟩
  | dir es =>
    simp only at h
    split at h
    · cases h
    · obtain ⟨hs', hb⟩ := written_some _ r b h
      exact ⟨_, _, hs', hb, canon_v1Entries _ _ _, rfl⟩

theorem createHybridClass_sortMeta (o : CreateOpts) (H H1 : Bytes → Bytes) (B hs bpp : Nat)
    (hB : 0 < B) (hbpp : 0 < bpp) (hpl : o.pieceLength = bpp * B)
    (enum : List (Bytes × FTree) → List (Bytes × FTree)) (t : Node) (r : BVal) (b : Bytes)
    (h : createHybridClass o H H1 B hs enum t = some (r, b)) :
    ∃ (content : Content) (l : List Bytes), sortMeta (assembleHybrid o content
        (treeVal (fhHybrid H H1 B hs bpp) (traverse enum t)) ((l.map H1).flatten)
        (layerItems (fhHybrid H H1 B hs bpp) o.pieceLength (ftreeFiles [] (traverse enum t))))
        = some r ∧ b = encode r ∧ content.canon = true ∧ content.isList = true ∧
      ((∀ n, content ≠ .single n) → ∃ es, t = .dir es) := by
  cases t with
  | file d =>
    rw [createHybridClass_file o H H1 B hs bpp hB hbpp hpl] at h
    obtain ⟨hs', hb⟩ := written_some _ r b h
    refine ⟨.single d.length, chunks o.pieceLength d, ?_, hb, rfl, rfl, ?_⟩
    · rw [traverse_file]; simpa [traverse, treeVal] using hs'
    · intro hn; exact absurd rfl (hn d.length)
  | dir es =>
    have hk := createHybridClass_dir o H H1 B hs bpp hB hbpp hpl enum es r b h
    unfold createHybridClass at h
    simp only [pl_div o B bpp hB hpl] at h
    obtain ⟨hs', hb⟩ := written_some _ r b h
    rw [hybridEntries_eq (fhHybrid H H1 B hs bpp) o.pieceLength
      (fun d _ => by rw [hpl]; exact fhHybrid_padding_spec H H1 B hs bpp hB hbpp d)] at hs'
    rw [hybridPieceList_eq _ _ (fhHybrid_pieces_nil H H1 B hs bpp hB hbpp)] at hs'
    have hpos : 0 < o.pieceLength := by rw [hpl]; exact Nat.mul_pos hbpp hB
    have e : ((ftreeFiles [] (traverse enum (.dir es))).map
        fun x => (fhHybrid H H1 B hs bpp x.2).pieces)
        = ((ftreeFiles [] (traverse enum (.dir es))).map (·.2)).map
            (Spec.hybridPieces H1 o.pieceLength) := by
      rw [List.map_map]
      apply List.map_congr_left
      intro x _
      rw [hpl]
      exact fhHybrid_pieces_spec H H1 B hs bpp hB hbpp x.2
    rw [e, hybridPieces_flatten H1 _ hpos] at hs'
    exact ⟨_, _, hs', hb, canon_v1Entries _ _ _, rfl, fun _ => ⟨es, rfl⟩⟩

theorem layerItems_hybrid_mod (H H1 : Bytes → Bytes) (B hs j : Nat) (hB : 0 < B)
    (hH : ∀ x, (H x).length = hs) (files : List (List Bytes × Bytes)) :
    ∀ kv ∈ layerItems (fhHybrid H H1 B hs (2 ^ j)) (2 ^ j * B) files, kv.2.length % hs = 0 := by
  rw [layerItems_congr _ (fhV2 H B hs (2 ^ j))
    (fun d => (fhHybrid_root_layer H H1 B hs (2 ^ j) hB (Nat.two_pow_pos j) d).1)
    (fun d => (fhHybrid_root_layer H H1 B hs (2 ^ j) hB (Nat.two_pow_pos j) d).2)]
  exact layerItems_mod H B hs j hB hH files

end TorrentVerif

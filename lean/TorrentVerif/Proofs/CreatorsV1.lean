import TorrentVerif.Proofs.CreatorsHybrid
/-
  The v1 creator (`TorrentFile`), plain and piece-aligned: what was written.
-/
namespace TorrentVerif
open Impl Spec Listing

/-- the `(path components, length)` pairs the `files` entries are built from -/
def v1Listed (pre : Bytes) (lst : List (Bytes × Bytes)) : List (List Bytes × Nat) :=
  lst.map fun x => (relPath pre x.1, x.2.length)

/-- `TorrentFile` on a directory (names non-empty, `/`-free, distinct): it succeeds exactly when
    the directory contains a regular file, and then writes the sorted listing -/
theorem createV1_dir (o : CreateOpts) (align : Bool) (H1 : Bytes → Bytes)
    (enum : List (List (Bytes × Bytes)) → List (List (Bytes × Bytes)))
    (henum : ∀ l, (enum l).Perm l) (pre : Bytes) (es : List (Bytes × Node))
    (hwn : WellNamed (.dir es)) (hpl : 0 < o.pieceLength) (r : BVal) (b : Bytes)
    (h : createV1 o align H1 enum pre (.dir es) = some (r, b)) :
    sortedFiles pre (.dir es) ≠ [] ∧ b = encode r ∧
    V1Keys o (.multi (.list (v1Entries align o.pieceLength
        (v1Listed pre (sortedFiles pre (.dir es))))))
      ((chunks o.pieceLength (if align
          then Spec.alignedStream o.pieceLength ((sortedFiles pre (.dir es)).map (·.2))
          else ((sortedFiles pre (.dir es)).map (·.2)).flatten)).map H1).flatten r := by
  unfold createV1 at h
  simp only [listV1_eq_sortedFiles enum henum pre (.dir es) hwn] at h
  by_cases hne : sortedFiles pre (.dir es) = []
  · simp [hne] at h
  · simp only [hne, if_false] at h
    obtain ⟨hs', hb⟩ := written_some _ r b h
    refine ⟨hne, hb, ?_⟩
    have hk := v1_keys _ _ _ r hs'
    have hne' : (sortedFiles pre (.dir es)).map (·.2) ≠ [] := by simpa using hne
    cases align with
    | false =>
      rw [hasherV1_eq_chunks _ hpl _ hne'] at hk
      simpa [v1Listed] using hk
    | true =>
      rw [hasherV1_align_eq_chunks _ hpl _ hne'] at hk
      simpa [v1Listed] using hk

theorem createV1_dir_some (o : CreateOpts) (align : Bool) (H1 : Bytes → Bytes)
    (enum : List (List (Bytes × Bytes)) → List (List (Bytes × Bytes)))
    (henum : ∀ l, (enum l).Perm l) (pre : Bytes) (es : List (Bytes × Node))
    (hwn : WellNamed (.dir es)) (hne : sortedFiles pre (.dir es) ≠ []) :
    ∃ r b, createV1 o align H1 enum pre (.dir es) = some (r, b) := by
  unfold createV1
  simp only [listV1_eq_sortedFiles enum henum pre (.dir es) hwn, hne, if_false]
  exact written_v1_some _ _ _

/-- `TorrentFile` on a single file, with or without `align` -/
theorem createV1_file (o : CreateOpts) (align : Bool) (H1 : Bytes → Bytes)
    (enum : List (List (Bytes × Bytes)) → List (List (Bytes × Bytes))) (pre : Bytes) (d : Bytes)
    (hpl : 0 < o.pieceLength) :
    createV1 o align H1 enum pre (.file d) =
      written (assembleV1 o (.single d.length) ((chunks o.pieceLength d).map H1).flatten) := by
  unfold createV1
  simp only [listV1, List.map_cons, List.map_nil]
  rw [hasherV1_eq_chunks _ hpl [d] (by simp)]
  simp

/-- reading a piece-aligned list entry by entry gives the padding layout `alignedEntries` -/
theorem v1Entries_read_true (pl : Nat) (ps : List (List Bytes × Nat)) :
    (v1Entries true pl ps).map (fun e => (isPadEntry e, entryLength e))
      = (alignedEntries pl (ps.map (·.2))).map (fun a => (a.pad, some a.length)) := by
  induction ps with
  | nil => simp [v1Entries, alignedEntries]
  | cons x t ih =>
    obtain ⟨p, s⟩ := x
    simp only [v1Entries, List.map_cons, alignedEntries, Bool.true_and]
    by_cases h : gap pl s = 0
    · simp [h, isPad_fileEntry, entryLength_fileEntry, ih]
    · simp [h, isPad_fileEntry, entryLength_fileEntry, isPad_padEntry, entryLength_padEntry, ih]

theorem v1Listed_sizes (pre : Bytes) (lst : List (Bytes × Bytes)) :
    (v1Listed pre lst).map (·.2) = lst.map (·.2.length) := by
  simp [v1Listed, List.map_map, Function.comp_def]

theorem v1Listed_entries (pre : Bytes) (lst : List (Bytes × Bytes)) :
    (v1Listed pre lst).map (fun x => fileEntry x.1 x.2)
      = lst.map (fun x => BVal.dict [(K.length, .int x.2.length),
          (K.path, strs (Spec.splitOn Listing.sep (x.1.drop (pre.length + 1))))]) := by
  simp [v1Listed, List.map_map, Function.comp_def, fileEntry, relPath]

/-- the example tree contains regular files -/
theorem Ex.G7.exTree_sorted_ne (pre : Bytes) : Spec.sortedFiles pre Ex.G7.exTree ≠ [] := by
  unfold Spec.sortedFiles
  intro e
  have := (List.mergeSort_perm (Spec.allFiles pre Ex.G7.exTree) Listing.lePath).length_eq
  rw [e] at this
  simp [Ex.G7.exTree, Spec.allFiles, Spec.allFilesList] at this

end TorrentVerif

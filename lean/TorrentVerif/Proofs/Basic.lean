import TorrentVerif.Model.Basic
/- Lemmas about `chunks`, `zeros`, `gap` used by all properties. -/
namespace TorrentVerif

theorem chunks_nil (n : Nat) : chunks n ([] : List α) = [] := by unfold chunks; simp

theorem chunks_zero (l : List α) : chunks 0 l = [] := by unfold chunks; simp

theorem chunks_cons (n : Nat) (hn : 0 < n) (l : List α) (hl : l ≠ []) :
    chunks n l = l.take n :: chunks n (l.drop n) := by
  rw [chunks]; rw [if_neg]; intro h; cases h with
  | inl h => omega
  | inr h => exact hl h

/-- slicing loses nothing and invents nothing -/
theorem chunks_flatten (n : Nat) (hn : 0 < n) (l : List α) : (chunks n l).flatten = l := by
  induction l using chunks.induct n with
  | case1 l h =>
    cases h with
    | inl h => omega
    | inr h => subst h; simp [chunks_nil]
  | case2 l h ih =>
    have hl : l ≠ [] := fun e => h (Or.inr e)
    rw [chunks_cons n hn l hl, List.flatten_cons, ih, List.take_append_drop]

/-- a prefix that is exactly k pieces long chunks independently of what follows -/
theorem chunks_append (n : Nat) (hn : 0 < n) (k : Nat) (a b : List α) (ha : a.length = k * n) :
    chunks n (a ++ b) = chunks n a ++ chunks n b := by
  induction k generalizing a with
  | zero =>
    have : a = [] := List.eq_nil_of_length_eq_zero (by simpa using ha)
    subst this; simp [chunks_nil]
  | succ k ih =>
    have hlen : n ≤ a.length := by rw [ha, Nat.succ_mul]; omega
    have hne : a ≠ [] := by intro e; subst e; simp at hlen; omega
    have hne' : a ++ b ≠ [] := by simp [hne]
    rw [chunks_cons n hn _ hne', chunks_cons n hn a hne]
    rw [List.take_append_of_le_length hlen, List.drop_append_of_le_length hlen]
    rw [ih (a.drop n) (by rw [List.length_drop, ha, Nat.succ_mul]; omega)]
    simp

theorem chunks_exact (n : Nat) (hn : 0 < n) (l : List α) (hl : l.length = n) : chunks n l = [l] := by
  have hne : l ≠ [] := by intro e; subst e; simp at hl; omega
  rw [chunks_cons n hn l hne, List.take_of_length_le (by omega), List.drop_of_length_le (by omega), chunks_nil]

theorem chunks_short (n : Nat) (l : List α) (hl : l ≠ []) (hs : l.length ≤ n) : chunks n l = [l] := by
  have hn : 0 < n := by
    have : 0 < l.length := List.length_pos_iff.mpr hl
    omega
  rw [chunks_cons n hn l hl, List.take_of_length_le hs, List.drop_of_length_le hs, chunks_nil]

/-- every slice is non-empty and at most `n` long -/
theorem chunks_mem_length (n : Nat) (hn : 0 < n) (l : List α) :
    ∀ c ∈ chunks n l, 0 < c.length ∧ c.length ≤ n := by
  induction l using chunks.induct n with
  | case1 l h =>
    cases h with
    | inl h => omega
    | inr h => subst h; simp [chunks_nil]
  | case2 l h ih =>
    have hl : l ≠ [] := fun e => h (Or.inr e)
    rw [chunks_cons n hn l hl]
    intro c hc
    cases hc with
    | head =>
      have : 0 < l.length := List.length_pos_iff.mpr hl
      simp [List.length_take]; omega
    | tail _ hc => exact ih c hc

/-- only the last slice may be short: every slice except the last has length exactly `n` -/
theorem chunks_dropLast_length (n : Nat) (hn : 0 < n) (l : List α) :
    ∀ c ∈ (chunks n l).dropLast, c.length = n := by
  induction l using chunks.induct n with
  | case1 l h =>
    cases h with
    | inl h => omega
    | inr h => subst h; simp [chunks_nil]
  | case2 l h ih =>
    have hl : l ≠ [] := fun e => h (Or.inr e)
    rw [chunks_cons n hn l hl]
    intro c hc
    by_cases hd : l.drop n = []
    · rw [hd, chunks_nil] at hc; simp at hc
    · have hne : chunks n (l.drop n) ≠ [] := by
        rw [chunks_cons n hn _ hd]; simp
      rw [List.dropLast_cons_of_ne_nil hne] at hc
      cases hc with
      | head =>
        have : n < l.length := by
          have := List.length_pos_iff.mpr hd
          rw [List.length_drop] at this; omega
        simp [List.length_take]; omega
      | tail _ hc => exact ih c hc

/-- number of slices is the ceiling of length / n -/
theorem chunks_length (n : Nat) (hn : 0 < n) (l : List α) :
    (chunks n l).length = cdiv l.length n := by
  induction l using chunks.induct n with
  | case1 l h =>
    cases h with
    | inl h => omega
    | inr h =>
      subst h
      have : (n - 1) / n = 0 := Nat.div_eq_of_lt (by omega)
      simp [chunks_nil, cdiv, this]
  | case2 l h ih =>
    have hl : l ≠ [] := fun e => h (Or.inr e)
    have hpos : 0 < l.length := List.length_pos_iff.mpr hl
    rw [chunks_cons n hn l hl, List.length_cons, ih, List.length_drop]
    unfold cdiv
    by_cases hle : l.length ≤ n
    · have h1 : l.length - n = 0 := by omega
      have h2 : (l.length + n - 1) / n = 1 := by
        apply Nat.div_eq_of_lt_le <;> omega
      have h3 : (0 + n - 1) / n = 0 := Nat.div_eq_of_lt (by omega)
      rw [h1, h2, h3]
    · have : l.length + n - 1 = (l.length - n + n - 1) + n := by omega
      rw [this, Nat.add_div_right _ hn]

@[simp] theorem zeros_length (n : Nat) : (zeros n).length = n := by simp [zeros]

theorem zeros_add (a b : Nat) : zeros (a + b) = zeros a ++ zeros b := by
  simp [zeros, List.replicate_append_replicate]

theorem gap_lt (pl s : Nat) (hpl : 0 < pl) : gap pl s < pl := Nat.mod_lt _ hpl

/-- a file followed by its gap ends on a piece boundary -/
theorem gap_dvd (pl s : Nat) (hpl : 0 < pl) : (s + gap pl s) % pl = 0 := by
  unfold gap
  have h1 : s % pl < pl := Nat.mod_lt _ hpl
  by_cases h0 : s % pl = 0
  · simp [h0]
  · have : (pl - s % pl) % pl = pl - s % pl := Nat.mod_eq_of_lt (by omega)
    rw [this]
    have : s + (pl - s % pl) = pl * (s / pl) + pl := by
      have := Nat.div_add_mod s pl; omega
    rw [this]; simp

theorem gap_eq_zero_iff (pl s : Nat) (hpl : 0 < pl) : gap pl s = 0 ↔ s % pl = 0 := by
  unfold gap
  have h1 : s % pl < pl := Nat.mod_lt _ hpl
  constructor
  · intro h
    by_cases h0 : s % pl = 0
    · exact h0
    · have : (pl - s % pl) % pl = pl - s % pl := Nat.mod_eq_of_lt (by omega)
      omega
  · intro h; simp [h]

end TorrentVerif

import TorrentVerif.Model.RecheckFull
import TorrentVerif.Proofs.Recheck
import TorrentVerif.Proofs.Dict
/- Lemmas about the whole-`Checker` model (`Model/RecheckFull.lean`) for C04, C05, C16. -/
namespace TorrentVerif
open RF

namespace RF

@[simp] theorem bind_ok {ε α β : Type} (a : α) (f : α → Except ε β) :
    (Except.ok a >>= f) = f a := rfl

@[simp] theorem bind_error {ε α β : Type} (e : ε) (f : α → Except ε β) :
    ((Except.error e : Except ε α) >>= f) = Except.error e := rfl

@[simp] theorem map_ok {ε α β : Type} (a : α) (f : α → β) :
    (f <$> (Except.ok a : Except ε α)) = Except.ok (f a) := rfl

theorem get?_some_dict (v : BVal) (k : Bytes) (x : BVal) (h : v.get? k = some x) :
    ∃ d, v = .dict d ∧ dictGet d k = some x := by
  cases v with
  | dict d => exact ⟨d, rfl, h⟩
  | int _ => simp [BVal.get?] at h
  | str _ => simp [BVal.get?] at h
  | list _ => simp [BVal.get?] at h

theorem sub_of_get? (v : BVal) (k : Bytes) (x : BVal) (h : v.get? k = some x) :
    sub v k = .ok x := by
  obtain ⟨d, rfl, hd⟩ := get?_some_dict v k x h
  simp [sub, hd]

theorem sub_dict (d : Dict) (k : Bytes) (x : BVal) (h : dictGet d k = some x) :
    sub (.dict d) k = .ok x := by simp [sub, h]

theorem keys_singleton (d : Dict) (k : Bytes) (h : keys d = [k]) : ∃ v, d = [(k, v)] := by
  match d, h with
  | [(k', v)], h => simp [keys] at h; subst h; exact ⟨v, rfl⟩

end RF

namespace Spec

theorem parseEntries_no_empty_key (d : Dict) (es : List (Bytes × MTree))
    (h : parseEntries d = some es) : dictGet d [] = none := by
  induction d generalizing es with
  | nil => rfl
  | cons kv r ih =>
    obtain ⟨k, v⟩ := kv
    unfold parseEntries at h
    by_cases hp : plainName k = true
    · rw [if_pos hp] at h
      have hk : k ≠ [] := by
        intro e; subst e; simp [plainName] at hp
      cases hn : parseNode v with
      | none => simp [hn] at h
      | some n =>
        cases ht : parseEntries r with
        | none => simp [hn, ht] at h
        | some t =>
          simp only [dictGet, if_neg hk]
          exact ih t ht
    · rw [if_neg hp] at h; cases h

/-- the file node (`leafOf`) branch of `walk_file_tree` -/
theorem leafRec_of_leafOf (path : List Bytes) (d : Dict) (x : BVal) (t : MTree)
    (hx : dictGet d [] = some x) (hl : leafOf x = some t) :
    ∃ len root, t = .leaf len root ∧ Impl.leafRec path (.dict d) = .ok (path, len, root) ∧
      (root = none → len = 0) := by
  unfold leafOf at hl
  cases hlen : x.get? K.length with
  | none => simp [hlen] at hl
  | some lv =>
    cases lv with
    | int i =>
      simp only [hlen] at hl
      have hs := sub_of_get? x K.length _ hlen
      by_cases h0 : i = 0
      · subst h0
        simp only [if_true, Option.some.injEq] at hl
        subst hl
        refine ⟨0, none, rfl, ?_, fun _ => rfl⟩
        simp [Impl.leafRec, sub_dict d [] x hx, hs, nat]
      · rw [if_neg h0] at hl
        by_cases hp : 0 < i
        · rw [if_pos hp] at hl
          cases hr : x.get? RF.kPiecesRoot with
          | none => simp [hr] at hl
          | some rv =>
            cases rv with
            | str r =>
              simp only [hr, Option.some.injEq] at hl
              subst hl
              have hs2 := sub_of_get? x RF.kPiecesRoot _ hr
              have hi : 0 ≤ i := by omega
              have hn : i.toNat ≠ 0 := by omega
              refine ⟨i.toNat, some r, rfl, ?_, fun h => by cases h⟩
              simp [Impl.leafRec, sub_dict d [] x hx, hs, nat, hi, hn, hs2, str]
            | int _ => simp [hr] at hl
            | list _ => simp [hr] at hl
            | dict _ => simp [hr] at hl
        · rw [if_neg hp] at hl; cases hl
    | str _ => simp [hlen] at hl
    | list _ => simp [hlen] at hl
    | dict _ => simp [hlen] at hl

mutual
/-- on a well-formed node `walk_file_tree` lists the files of the tree -/
theorem walkVal_of_parseNode : ∀ (v : BVal) (pre : List Bytes) (key : Bytes) (t : MTree),
    parseNode v = some t → Impl.walkVal pre key v = .ok (treeFiles (pre ++ [key]) t)
  | .dict d, pre, key, t, h => by
    unfold parseNode at h
    by_cases hk : keys d = [[]]
    · rw [if_pos hk] at h
      obtain ⟨x, rfl⟩ := keys_singleton d [] hk
      have hx : dictGet [(([] : Bytes), x)] [] = some x := by simp [dictGet]
      simp only [hx, Option.bind_some] at h
      obtain ⟨len, root, rfl, hrec, _⟩ := leafRec_of_leafOf (pre ++ [key]) _ x t hx h
      simp [Impl.walkVal, dictHas, hx, hrec, treeFiles, Except.map]
    · rw [if_neg hk] at h
      cases he : parseEntries d with
      | none => simp [he] at h
      | some es =>
        simp only [he, Option.map_some, Option.some.injEq] at h
        subst h
        have hno := parseEntries_no_empty_key d es he
        have ih := walkItems_of_parseEntries d (pre ++ [key]) es he
        simp [Impl.walkVal, dictHas, hno, ih, treeFiles]
  | .int _, _, _, _, h => by simp [parseNode] at h
  | .str _, _, _, _, h => by simp [parseNode] at h
  | .list _, _, _, _, h => by simp [parseNode] at h
theorem walkItems_of_parseEntries : ∀ (kvs : List (Bytes × BVal)) (pre : List Bytes)
    (es : List (Bytes × MTree)), parseEntries kvs = some es →
    Impl.walkItems pre kvs = .ok (entriesFiles pre es)
  | [], pre, es, h => by
    simp only [parseEntries, Option.some.injEq] at h
    subst h
    simp [Impl.walkItems, entriesFiles]
  | (k, v) :: r, pre, es, h => by
    unfold parseEntries at h
    by_cases hp : plainName k = true
    · rw [if_pos hp] at h
      cases hn : parseNode v with
      | none => simp [hn] at h
      | some n =>
        cases ht : parseEntries r with
        | none => simp [hn, ht] at h
        | some t =>
          simp only [hn, ht, Option.some.injEq] at h
          subst h
          have h1 := walkVal_of_parseNode v pre k n hn
          have h2 := walkItems_of_parseEntries r pre t ht
          simp [Impl.walkItems, h1, h2, entriesFiles]
    · rw [if_neg hp] at h; cases h
end

/-- on an entry whose `attr` is a string (or absent) the code's test `"p" in attr` is the
    BEP 47 padding mark -/
theorem padAttr_of_v1Pad (item : BVal) (x : BVal) (pad : Bool)
    (hd : item.get? K.length = some x) (h : v1Pad item = some pad) :
    padAttr item = .ok pad := by
  obtain ⟨d, rfl, _⟩ := get?_some_dict item K.length x hd
  unfold v1Pad at h
  simp only [BVal.get?] at h
  unfold padAttr
  split at h
  · rename_i hn
    simp only [Option.some.injEq] at h
    simp [hn, h]
  · rename_i a ha
    simp only [Option.some.injEq] at h
    subst h
    simp only [ha]
  · cases h

theorem v1Item_spec (item : BVal) (r : FileRec) (h : v1Item item = some r) :
    ∃ i l comps pad, sub item K.length = .ok (.int i) ∧ 0 ≤ i ∧
      sub item RF.kPath = .ok (.list l) ∧ strs l = .ok comps ∧ comps ≠ [] ∧
      padAttr item = .ok pad ∧ r = (comps, i.toNat, if pad then padMark else none) := by
  unfold v1Item at h
  split at h
  · rename_i i l hlen hpath
    split at h
    · rename_i comps pad hc hp
      split at h
      · rename_i hcond
        simp only [Option.some.injEq] at h
        exact ⟨i, l, comps, pad, sub_of_get? _ _ _ hlen, hcond.1, sub_of_get? _ _ _ hpath, hc,
          hcond.2.1, padAttr_of_v1Pad item _ pad hlen hp, h.symm⟩
      · cases h
    · cases h
  · cases h

theorem v1Files_of_v1Items (items : List BVal) (recs : List FileRec)
    (h : v1Items items = some recs) : Impl.v1Files items = .ok recs := by
  induction items generalizing recs with
  | nil =>
    simp only [v1Items, Option.some.injEq] at h
    subst h; rfl
  | cons x xs ih =>
    unfold v1Items at h
    cases hx : v1Item x with
    | none => simp [hx] at h
    | some r =>
      cases ht : v1Items xs with
      | none => simp [hx, ht] at h
      | some t =>
        simp only [hx, ht, Option.some.injEq] at h
        subst h
        obtain ⟨i, l, comps, pad, h1, h2, h3, h4, h5, h6, rfl⟩ := v1Item_spec x r hx
        simp [Impl.v1Files, h1, nat, h2, h3, h4, h5, h6, ih t ht]

theorem metaVersion_v2 (info : Dict) (h : hasV2 info = true) :
    Impl.metaVersion info > 1 ∧ Impl.metaVersion info ≠ 1 := by
  unfold hasV2 at h
  unfold Impl.metaVersion
  rw [if_pos h]
  split <;> omega

theorem metaVersion_v1 (info : Dict) (h : ¬ hasV2 info = true) : Impl.metaVersion info = 1 := by
  unfold hasV2 at h
  unfold Impl.metaVersion
  rw [if_neg h]

theorem parseEntries_singleton (k : Bytes) (v : BVal) (es : List (Bytes × MTree))
    (h : parseEntries [(k, v)] = some es) : ∃ n, parseNode v = some n ∧ es = [(k, n)] := by
  unfold parseEntries at h
  split at h
  · cases hn : parseNode v with
    | none => simp [hn] at h
    | some n =>
      simp only [hn, parseEntries, Option.some.injEq] at h
      exact ⟨n, rfl, h.symm⟩
  · cases h

theorem parseNode_leaf (v : BVal) (len : Nat) (root : Option Bytes)
    (h : parseNode v = some (.leaf len root)) :
    ∃ x, v = .dict [([], x)] ∧ leafOf x = some (.leaf len root) := by
  cases v with
  | dict d =>
    unfold parseNode at h
    by_cases hk : keys d = [[]]
    · rw [if_pos hk] at h
      obtain ⟨x, rfl⟩ := keys_singleton d [] hk
      simp only [dictGet, if_true, Option.bind_some] at h
      exact ⟨x, rfl, h⟩
    · rw [if_neg hk] at h
      cases he : parseEntries d with
      | none => simp [he] at h
      | some es => simp [he] at h
  | int _ => simp [parseNode] at h
  | str _ => simp [parseNode] at h
  | list _ => simp [parseNode] at h

/-- a well-formed node that has the key `""` is a file -/
theorem parseNode_hasEmpty (d : Dict) (t : MTree) (h : parseNode (.dict d) = some t)
    (he : dictHas d [] = true) : ∃ len root, t = .leaf len root := by
  unfold parseNode at h
  by_cases hk : keys d = [[]]
  · rw [if_pos hk] at h
    obtain ⟨x, rfl⟩ := keys_singleton d [] hk
    simp only [dictGet, if_true, Option.bind_some] at h
    unfold leafOf at h
    split at h
    · split at h
      · simp only [Option.some.injEq] at h; exact ⟨_, _, h.symm⟩
      · split at h
        · split at h
          · simp only [Option.some.injEq] at h; exact ⟨_, _, h.symm⟩
          · cases h
        · cases h
    · cases h
  · rw [if_neg hk] at h
    cases hes : parseEntries d with
    | none => simp [hes] at h
    | some es =>
      have := parseEntries_no_empty_key d es hes
      simp [dictHas, this] at he

theorem leafOf_spec (x : BVal) (len : Nat) (root : Option Bytes)
    (h : leafOf x = some (.leaf len root)) :
    ∃ i : Int, x.get? K.length = some (.int i) ∧ ((i = 0 ∧ len = 0 ∧ root = none) ∨
      (0 < i ∧ len = i.toNat ∧ ∃ r, x.get? RF.kPiecesRoot = some (.str r) ∧ root = some r)) := by
  unfold leafOf at h
  split at h
  · rename_i i hlen
    refine ⟨i, hlen, ?_⟩
    split at h
    · rename_i h0
      simp only [Option.some.injEq, MTree.leaf.injEq] at h
      exact Or.inl ⟨h0, h.1.symm, h.2.symm⟩
    · split at h
      · rename_i hp
        split at h
        · rename_i r hr
          simp only [Option.some.injEq, MTree.leaf.injEq] at h
          exact Or.inr ⟨hp, h.1.symm, r, hr, h.2.symm⟩
        · cases h
      · cases h
  · cases h

/-- the single-file branch of `check_paths` for a v2 / hybrid metafile whose tree is
    `{name: file}` -/
theorem checkPaths_single_v2 (info : Dict) (name : Bytes) (x : BVal) (i : Int) (len : Nat)
    (root : Option Bytes) (ver : Nat) (hver : ver > 1)
    (htree : dictGet info K.fileTree = some (.dict [(name, .dict [([], x)])]))
    (hleaf : leafOf x = some (.leaf len root)) (hi : (i : Int) = len)
    (hne : ¬ (len = 0 ∧ root = none)) :
    (do
      let len ← nat (.int i)
      if ver > 1 then
        let tree ← sub (.dict info) K.fileTree
        let node ← sub tree name
        let inner ← sub node []
        let r ← (← sub inner RF.kPiecesRoot) |> str
        (Except.ok ([(([] : List Bytes), len, some r)], len) : Except Err (List FileRec × Nat))
      else .ok ([([], len, none)], len)) = .ok ([([], len, root)], totalOf [([], len, root)]) := by
  obtain ⟨j, hj, hcase⟩ := leafOf_spec x len root hleaf
  have hnat : nat (.int i) = .ok len := by
    have : 0 ≤ i := by omega
    simp [nat, this]; omega
  rcases hcase with ⟨_, h0, hr⟩ | ⟨hp, hl, r, hr, hroot⟩
  · exact absurd ⟨h0, hr⟩ hne
  · subst hroot
    have hs := sub_of_get? x RF.kPiecesRoot _ hr
    have h1 := sub_dict info K.fileTree _ htree
    have h2 : sub (.dict [(name, .dict [([], x)])]) name = .ok (.dict [([], x)]) := by
      simp [sub, dictGet]
    have h3 : sub (.dict [([], x)]) [] = .ok x := by simp [sub, dictGet]
    simp [hnat, hver, h1, h2, h3, hs, str, totalOf]

theorem parseEntries_keys (kvs : Dict) (es : List (Bytes × MTree))
    (h : parseEntries kvs = some es) : keys kvs = es.map (·.1) := by
  induction kvs generalizing es with
  | nil =>
    simp only [parseEntries, Option.some.injEq] at h
    subst h; rfl
  | cons kv r ih =>
    obtain ⟨k, v⟩ := kv
    unfold parseEntries at h
    split at h
    · cases hn : parseNode v with
      | none => simp [hn] at h
      | some n =>
        cases ht : parseEntries r with
        | none => simp [hn, ht] at h
        | some t =>
          simp only [hn, ht, Option.some.injEq] at h
          subst h
          have := ih t ht
          simp only [keys] at this ⊢
          simp [this]
    · cases h

/-- a tree that parses to the single file `name` is `{name: {"": x}}` -/
theorem single_shape (kvs : Dict) (name : Bytes) (len : Nat) (root : Option Bytes)
    (h : parseEntries kvs = some [(name, .leaf len root)]) :
    ∃ x, kvs = [(name, .dict [([], x)])] ∧ leafOf x = some (.leaf len root) := by
  have hk := parseEntries_keys kvs _ h
  obtain ⟨v, rfl⟩ := keys_singleton kvs name (by simpa using hk)
  obtain ⟨n, hn, he⟩ := parseEntries_singleton name v _ h
  simp only [List.cons.injEq, Prod.mk.injEq, true_and, and_true] at he
  subst he
  obtain ⟨x, rfl, hx⟩ := parseNode_leaf v len root hn
  exact ⟨x, rfl, hx⟩

/-- no `length` key, and the tree is not the single file `name` on a regular-file payload:
    `check_paths` goes on to the multi-file branch -/
theorem singleLength_none (info : Dict) (name : Bytes) (rif : Bool) (kvs : Dict)
    (es : List (Bytes × MTree)) (hlen : dictGet info K.length = none)
    (htree : dictGet info K.fileTree = some (.dict kvs)) (hes : parseEntries kvs = some es)
    (hns : ∀ len root, es = [(name, .leaf len root)] → rif = false) :
    Impl.singleLength info name rif = .ok none := by
  unfold Impl.singleLength
  simp only [hlen, htree]
  by_cases hk : keys kvs = [name]
  · rw [if_pos hk]
    obtain ⟨v, rfl⟩ := keys_singleton kvs name hk
    obtain ⟨n, hn, rfl⟩ := parseEntries_singleton name v es hes
    simp only [dictGet, if_true]
    cases v with
    | dict d =>
      simp only
      by_cases he : dictHas d [] = true
      · obtain ⟨len, root, rfl⟩ := parseNode_hasEmpty d n hn he
        have := hns len root rfl
        simp [this]
      · simp [he]
    | int _ => simp [parseNode] at hn
    | str _ => simp [parseNode] at hn
    | list _ => simp [parseNode] at hn
  · rw [if_neg hk]

/-- no `length` key, the tree is the single file `name` and the payload is a regular file:
    the repair of `check_paths` takes the length from the tree -/
theorem singleLength_single (info : Dict) (name : Bytes) (x : BVal) (len : Nat)
    (root : Option Bytes) (hlen : dictGet info K.length = none)
    (htree : dictGet info K.fileTree = some (.dict [(name, .dict [([], x)])]))
    (hleaf : leafOf x = some (.leaf len root)) :
    ∃ j : Int, Impl.singleLength info name true = .ok (some (.int j)) ∧ j = len := by
  obtain ⟨j, hj, hcase⟩ := leafOf_spec x len root hleaf
  refine ⟨j, ?_, ?_⟩
  · have hs := sub_of_get? x K.length _ hj
    have h3 : sub (.dict [([], x)]) [] = .ok x := by simp [sub, dictGet]
    unfold Impl.singleLength
    simp [hlen, htree, keys, dictGet, dictHas, h3, hs]
  · rcases hcase with ⟨h0, hl, _⟩ | ⟨hp, hl, _⟩ <;> omega

/-- `check_paths` builds exactly the file map the metafile describes -/
theorem checkPaths_of_described (mf : BVal) (info : Dict) (name : Bytes) (rif : Bool)
    (recs : List FileRec) (hinfo : mf.get? K.info = some (.dict info))
    (hname : dictGet info K.name = some (.str name))
    (hd : describedFiles mf rif = some recs)
    (hne : hasV2 info = true → recs ≠ [([], 0, none)]) :
    Impl.checkPaths info name (Impl.metaVersion info) rif = .ok (recs, totalOf recs) := by
  unfold describedFiles at hd
  simp only [hinfo, hname] at hd
  by_cases hv : hasV2 info = true
  · obtain ⟨hver, hver1⟩ := metaVersion_v2 info hv
    rw [if_pos hv] at hd
    split at hd
    · rename_i kvs htree
      split at hd
      · rename_i es hes
        split at hd
        · -- `{name: file}` with `length`
          rename_i k len root l hlen
          split at hd
          · rename_i hc
            simp only [Option.some.injEq] at hd
            subst hd
            obtain ⟨rfl, hl⟩ := hc
            obtain ⟨x, rfl, hx⟩ := single_shape kvs k len root hes
            have hsl : Impl.singleLength info k rif = .ok (some (.int l)) := by
              simp [Impl.singleLength, hlen]
            unfold Impl.checkPaths
            simp only [hsl, bind_ok]
            exact checkPaths_single_v2 info k x l len root _ hver htree hx hl
              (fun h => hne hv (by rw [h.1, h.2]))
          · cases hd
        · -- `{k: file}` without `length`
          rename_i k len root hlen
          by_cases hc : k = name ∧ rif = true
          · rw [if_pos hc] at hd
            simp only [Option.some.injEq] at hd
            subst hd
            obtain ⟨rfl, rfl⟩ := hc
            obtain ⟨x, rfl, hx⟩ := single_shape kvs k len root hes
            obtain ⟨j, hsl, hj⟩ := singleLength_single info k x len root hlen htree hx
            unfold Impl.checkPaths
            simp only [hsl, bind_ok]
            exact checkPaths_single_v2 info k x j len root _ hver htree hx hj
              (fun h => hne hv (by rw [h.1, h.2]))
          · rw [if_neg hc] at hd
            simp only [Option.some.injEq] at hd
            subst hd
            have hsl := singleLength_none info name rif kvs _ hlen htree hes (by
              intro len' root' he
              simp only [List.cons.injEq, Prod.mk.injEq, and_true] at he
              cases hr : rif with
              | false => rfl
              | true => exact absurd ⟨he.1, hr⟩ hc)
            have hw := walkItems_of_parseEntries kvs [] _ hes
            unfold Impl.checkPaths
            simp [hsl, hver1, sub_dict info K.fileTree _ htree, Impl.walkFileTree, hw]
        · -- any other tree, without `length`
          rename_i hnot hlen
          simp only [Option.some.injEq] at hd
          subst hd
          have hsl := singleLength_none info name rif kvs _ hlen htree hes (by
            intro len' root' he
            exact absurd he (by intro he; exact hnot name len' root' he))
          have hw := walkItems_of_parseEntries kvs [] _ hes
          unfold Impl.checkPaths
          simp [hsl, hver1, sub_dict info K.fileTree _ htree, Impl.walkFileTree, hw]
        · cases hd
      · cases hd
    · cases hd
  · have hver := metaVersion_v1 info hv
    rw [if_neg hv] at hd
    split at hd
    · cases hd
    · rename_i hnt
      have hnt' : dictGet info K.fileTree = none := by
        cases h : dictGet info K.fileTree with
        | none => rfl
        | some _ => simp [dictHas, h] at hnt
      split at hd
      · -- single file
        rename_i l hlen hfiles
        split at hd
        · rename_i hl
          simp only [Option.some.injEq] at hd
          subst hd
          have hsl : Impl.singleLength info name rif = .ok (some (.int l)) := by
            simp [Impl.singleLength, hlen]
          unfold Impl.checkPaths
          simp [hsl, hver, nat, hl, totalOf]
        · cases hd
      · -- `files`
        rename_i items hlen hfiles
        have hsl : Impl.singleLength info name rif = .ok none := by
          simp [Impl.singleLength, hlen, hnt']
        have hf := v1Files_of_v1Items items recs hd
        unfold Impl.checkPaths
        simp [hsl, hver, sub_dict info K.files _ hfiles, hf]
      · cases hd

/-! ### shape of the file map of the v2 part -/

mutual
theorem treeFiles_root : ∀ (v : BVal) (pre : List Bytes) (t : MTree), parseNode v = some t →
    ∀ r ∈ treeFiles pre t, r.2.2 = none → r.2.1 = 0
  | .dict d, pre, t, h => by
    unfold parseNode at h
    by_cases hk : keys d = [[]]
    · rw [if_pos hk] at h
      obtain ⟨x, rfl⟩ := keys_singleton d [] hk
      simp only [dictGet, if_true, Option.bind_some] at h
      obtain ⟨len, root, rfl, _, hr⟩ := leafRec_of_leafOf pre [([], x)] x t (by simp [dictGet]) h
      intro r hr'
      simp only [treeFiles, List.mem_singleton] at hr'
      subst hr'
      exact hr
    · rw [if_neg hk] at h
      cases he : parseEntries d with
      | none => simp [he] at h
      | some es =>
        simp only [he, Option.map_some, Option.some.injEq] at h
        subst h
        simp only [treeFiles]
        exact entriesFiles_root d pre es he
  | .int _, _, _, h => by simp [parseNode] at h
  | .str _, _, _, h => by simp [parseNode] at h
  | .list _, _, _, h => by simp [parseNode] at h
theorem entriesFiles_root : ∀ (kvs : List (Bytes × BVal)) (pre : List Bytes)
    (es : List (Bytes × MTree)), parseEntries kvs = some es →
    ∀ r ∈ entriesFiles pre es, r.2.2 = none → r.2.1 = 0
  | [], pre, es, h => by
    simp only [parseEntries, Option.some.injEq] at h
    subst h
    simp [entriesFiles]
  | (k, v) :: rest, pre, es, h => by
    unfold parseEntries at h
    split at h
    · cases hn : parseNode v with
      | none => simp [hn] at h
      | some n =>
        cases ht : parseEntries rest with
        | none => simp [hn, ht] at h
        | some t =>
          simp only [hn, ht, Option.some.injEq] at h
          subst h
          intro r hr
          simp only [entriesFiles, List.mem_append] at hr
          rcases hr with hr | hr
          · exact treeFiles_root v (pre ++ [k]) n hn r hr
          · exact entriesFiles_root rest pre t ht r hr
    · cases h
end

/-- the file map of a v2 / hybrid metafile: the leaves of its tree, or its single file -/
theorem describedFiles_v2_shape (mf : BVal) (info : Dict) (name : Bytes) (rif : Bool)
    (recs : List FileRec) (hinfo : mf.get? K.info = some (.dict info))
    (hname : dictGet info K.name = some (.str name)) (hv : hasV2 info = true)
    (hd : describedFiles mf rif = some recs) :
    ∃ kvs es, dictGet info K.fileTree = some (.dict kvs) ∧ parseEntries kvs = some es ∧
      (recs = entriesFiles [] es ∨
        ∃ len root, es = [(name, .leaf len root)] ∧ recs = [([], len, root)]) := by
  unfold describedFiles at hd
  simp only [hinfo, hname, if_pos hv] at hd
  split at hd
  · rename_i kvs htree
    split at hd
    · rename_i es hes
      refine ⟨kvs, _, htree, hes, ?_⟩
      split at hd
      · split at hd
        · rename_i hc
          simp only [Option.some.injEq] at hd
          exact Or.inr ⟨_, _, by rw [hc.1], hd.symm⟩
        · cases hd
      · split at hd
        · rename_i hc
          simp only [Option.some.injEq] at hd
          exact Or.inr ⟨_, _, by rw [hc.1], hd.symm⟩
        · simp only [Option.some.injEq] at hd
          exact Or.inl hd.symm
      · simp only [Option.some.injEq] at hd
        exact Or.inl hd.symm
      · cases hd
    · cases hd
  · cases hd

theorem describedFiles_v2_root (mf : BVal) (info : Dict) (name : Bytes) (rif : Bool)
    (recs : List FileRec) (hinfo : mf.get? K.info = some (.dict info))
    (hname : dictGet info K.name = some (.str name)) (hv : hasV2 info = true)
    (hd : describedFiles mf rif = some recs) :
    ∀ r ∈ recs, r.2.2 = none → r.2.1 = 0 := by
  obtain ⟨kvs, es, _, hes, hshape⟩ := describedFiles_v2_shape mf info name rif recs hinfo hname hv hd
  have hall := entriesFiles_root kvs [] es hes
  rcases hshape with rfl | ⟨len, root, rfl, rfl⟩
  · exact hall
  · intro r hr
    simp only [List.mem_singleton] at hr
    subst hr
    exact hall ([] ++ [name], len, root) (by simp [entriesFiles, treeFiles])

/-! ### looking the file map up on disk -/

theorem content_eq_fileBytes (root : Node) (path : List Bytes)
    (h : ∀ es, lookup root path ≠ some (.dir es)) :
    Impl.content root path = .ok (fileBytes root path) := by
  unfold Impl.content fileBytes
  cases hl : lookup root path with
  | none => rfl
  | some nd =>
    cases nd with
    | file d => rfl
    | dir es => exact absurd hl (h es)

theorem rcV1Entries_eq (root : Node) (recs : List FileRec)
    (h : ∀ r ∈ recs, isPadRec r = false → ∀ es, lookup root r.1 ≠ some (.dir es)) :
    Impl.rcV1Entries root recs = .ok (recs.map fun r => (r.2.1, v1Disk root r)) := by
  induction recs with
  | nil => rfl
  | cons r rs ih =>
    have h2 := ih (fun x hx => h x (by simp [hx]))
    cases hp : isPadRec r with
    | true => simp [Impl.rcV1Entries, hp, h2, v1Disk]
    | false =>
      have h1 := content_eq_fileBytes root r.1 (h r (by simp) hp)
      simp [Impl.rcV1Entries, hp, h1, h2, v1Disk]

/-- a padding entry is not looked up -/
theorem rcV1Entries_pad (root : Node) (r : FileRec) (rs : List FileRec) (h : isPadRec r = true) :
    Impl.rcV1Entries root (r :: rs) = (Impl.rcV1Entries root rs).map ((r.2.1, none) :: ·) := by
  simp only [Impl.rcV1Entries, h, if_true, bind_ok]
  cases Impl.rcV1Entries root rs <;> rfl

theorem rcV2Entry_eq (pl : Nat) (layers : Dict) (root : Node) (r : FileRec) (f : Impl.V2File)
    (hf : v2FileOf pl layers root r = some f)
    (hnd : ∀ es, lookup root r.1 ≠ some (.dir es))
    (hroot : r.2.2 = none → r.2.1 = 0) (hnl : (Impl.fDisk f).length ≤ f.1) :
    Impl.rcV2Entry pl layers root r = .ok f := by
  have hc := content_eq_fileBytes root r.1 hnd
  unfold v2FileOf at hf
  unfold Impl.rcV2Entry
  by_cases hbig : r.2.1 > pl
  · rw [if_pos hbig] at hf
    simp only [if_pos hbig]
    cases hr : r.2.2 with
    | none => simp [hr] at hf
    | some h =>
      simp only [hr] at hf ⊢
      cases hl : dictGet layers h with
      | none => simp [hl] at hf
      | some lv =>
        cases lv with
        | str layer =>
          simp only [hl, Option.some.injEq] at hf
          subst hf
          simp [str, hc]
        | int _ => simp [hl] at hf
        | list _ => simp [hl] at hf
        | dict _ => simp [hl] at hf
  · rw [if_neg hbig] at hf
    simp only [Option.some.injEq] at hf
    subst hf
    simp only [if_neg hbig, bind_ok, hc]
    by_cases hn : r.2.2 = none
    · have h0 := hroot hn
      simp only [Impl.fDisk] at hnl
      have : (fileBytes root r.1).getD [] = [] := by
        apply List.eq_nil_of_length_eq_zero; omega
      simp [this]
    · simp [hn]

theorem rcV2Entries_eq (pl : Nat) (layers : Dict) (root : Node) (recs : List FileRec)
    (files : List Impl.V2File) (hf : v2FilesOf pl layers root recs = some files)
    (hnd : ∀ r ∈ recs, ∀ es, lookup root r.1 ≠ some (.dir es))
    (hroot : ∀ r ∈ recs, r.2.2 = none → r.2.1 = 0)
    (hnl : ∀ f ∈ files, (Impl.fDisk f).length ≤ f.1) :
    Impl.rcV2Entries pl layers root recs = .ok files := by
  induction recs generalizing files with
  | nil =>
    simp only [v2FilesOf, Option.some.injEq] at hf
    subst hf; rfl
  | cons r rs ih =>
    unfold v2FilesOf at hf
    cases h1 : v2FileOf pl layers root r with
    | none => simp [h1] at hf
    | some f =>
      cases h2 : v2FilesOf pl layers root rs with
      | none => simp [h1, h2] at hf
      | some t =>
        simp only [h1, h2, Option.some.injEq] at hf
        subst hf
        have e1 := rcV2Entry_eq pl layers root r f h1 (hnd r (by simp)) (hroot r (by simp))
          (hnl f (by simp))
        have e2 := ih t h2 (fun x hx => hnd x (by simp [hx])) (fun x hx => hroot x (by simp [hx]))
          (fun x hx => hnl x (by simp [hx]))
        simp [Impl.rcV2Entries, e1, e2]

theorem v2FileOf_length (pl : Nat) (layers : Dict) (root : Node) (r : FileRec) (f : Impl.V2File)
    (hf : v2FileOf pl layers root r = some f) : f.1 = r.2.1 ∧ f.2.2.2 = fileBytes root r.1 := by
  unfold v2FileOf at hf
  split at hf
  · split at hf
    · split at hf
      · simp only [Option.some.injEq] at hf; subst hf; exact ⟨rfl, rfl⟩
      · cases hf
    · cases hf
  · simp only [Option.some.injEq] at hf; subst hf; exact ⟨rfl, rfl⟩

theorem v2FilesOf_lengths (pl : Nat) (layers : Dict) (root : Node) (recs : List FileRec)
    (files : List Impl.V2File) (hf : v2FilesOf pl layers root recs = some files) :
    files.map (·.1) = recs.map (·.2.1) := by
  induction recs generalizing files with
  | nil =>
    simp only [v2FilesOf, Option.some.injEq] at hf
    subst hf; rfl
  | cons r rs ih =>
    unfold v2FilesOf at hf
    cases h1 : v2FileOf pl layers root r with
    | none => simp [h1] at hf
    | some f =>
      cases h2 : v2FilesOf pl layers root rs with
      | none => simp [h1, h2] at hf
      | some t =>
        simp only [h1, h2, Option.some.injEq] at hf
        subst hf
        simp [ih t h2, (v2FileOf_length pl layers root r f h1).1]

/-! ### nothing to check: no verdicts -/

theorem v1Check_total_zero (H1 : Bytes → Bytes) (pl : Nat) (recorded : Bytes)
    (entries : List (Nat × Option Bytes)) (h : (entries.map (·.1)).sum = 0) :
    v1Check H1 pl recorded entries = [] := by
  have hl := flatMap_zeroFill_length entries
  rw [h] at hl
  have : entries.flatMap zeroFill = [] := List.eq_nil_of_length_eq_zero hl
  simp [v1Check, this, chunks_nil]

theorem cdiv_zero (pl : Nat) : cdiv 0 pl = 0 := by
  unfold cdiv
  by_cases h : pl = 0
  · subst h; simp
  · simp only [Nat.zero_add]
    exact Nat.div_eq_of_lt (by omega)

theorem v2Check_total_zero (H : Bytes → Bytes) (B hs bpp : Nat) (files : List Impl.V2File)
    (h : (files.map (·.1)).sum = 0) : v2Check H B hs bpp files = [] := by
  induction files with
  | nil => rfl
  | cons f fs ih =>
    simp only [List.map_cons, List.sum_cons] at h
    have hf : f.1 = 0 := by omega
    have ht := ih (by omega)
    simp only [v2Check, List.flatMap_cons] at ht ⊢
    rw [ht]
    simp [v2File, hf, cdiv_zero]

/-! ### the parts of a plan -/

theorem describedFiles_name (mf : BVal) (rif : Bool) (recs : List FileRec) (info : Dict)
    (hinfo : mf.get? K.info = some (.dict info)) (hd : describedFiles mf rif = some recs) :
    ∃ name, dictGet info K.name = some (.str name) := by
  unfold describedFiles at hd
  simp only [hinfo] at hd
  split at hd
  · rename_i name hn; exact ⟨name, hn⟩
  · cases hd

/-- what `Spec.plan` has read off a well-formed metafile -/
structure PlanParts (B : Nat) (mf : BVal) (disk : Disk) (p : Plan) where
  recs : List FileRec
  info : Dict
  name : Bytes
  pi : Int
  hrecs : describedFiles mf (isFile disk) = some recs
  hinfo : mf.get? K.info = some (.dict info)
  hname : dictGet info K.name = some (.str name)
  hpl : dictGet info K.pieceLength = some (.int pi)
  hpos : 0 < pi
  hcase :
    (hasV2 info = true ∧ ∃ layers files, mf.get? K.pieceLayers = some (.dict layers) ∧ 0 < B ∧
        pi.toNat % B = 0 ∧ recs ≠ [] ∧ v2FilesOf pi.toNat layers disk recs = some files ∧
        p = .v2 (pi.toNat / B) files) ∨
    (¬ hasV2 info = true ∧ ∃ recorded, dictGet info K.pieces = some (.str recorded) ∧
        p = .v1 pi.toNat recorded (recs.map fun r => (r.2.1, v1Disk disk r)))

theorem plan_inv (B : Nat) (mf : BVal) (disk : Disk) (p : Plan) (hplan : plan B mf disk = some p) :
    Nonempty (PlanParts B mf disk p) := by
  unfold plan at hplan
  split at hplan
  · rename_i recs info hrecs hinfo
    obtain ⟨name, hname⟩ := describedFiles_name mf _ recs info hinfo hrecs
    split at hplan
    · rename_i pi hpl
      split at hplan
      · rename_i hpos
        split at hplan
        · rename_i hv
          split at hplan
          · rename_i layers hlay
            split at hplan
            · rename_i hc
              cases hf : v2FilesOf pi.toNat layers disk recs with
              | none => simp [hf] at hplan
              | some files =>
                simp only [hf, Option.map_some, Option.some.injEq] at hplan
                exact ⟨⟨recs, info, name, pi, hrecs, hinfo, hname, hpl, hpos,
                  Or.inl ⟨hv, layers, files, hlay, hc.1, hc.2.1, hc.2.2, hf, hplan.symm⟩⟩⟩
            · cases hplan
          · cases hplan
        · rename_i hv
          split at hplan
          · rename_i recorded hrec
            simp only [Option.some.injEq] at hplan
            exact ⟨⟨recs, info, name, pi, hrecs, hinfo, hname, hpl, hpos,
              Or.inr ⟨hv, recorded, hrec, hplan.symm⟩⟩⟩
          · cases hplan
      · cases hplan
    · cases hplan
  · cases hplan

theorem nameOf_eq (mf : BVal) (info : Dict) (name : Bytes)
    (hinfo : mf.get? K.info = some (.dict info)) (hname : dictGet info K.name = some (.str name)) :
    Impl.nameOf mf = name := by
  unfold Impl.nameOf
  rw [hinfo]
  simp only [Option.bind_some, BVal.get?, hname]

theorem infoOf_eq (mf : BVal) (info : Dict) (hinfo : mf.get? K.info = some (.dict info)) :
    Impl.infoOf mf = info := by
  simp only [Impl.infoOf, hinfo]

/-- THE whole-`Checker` refinement -/
theorem recheckMeta_of_plan (H1 H : Bytes → Bytes) (B hs : Nat) (hhs : 0 < hs) (mf : BVal)
    (disk : Disk) (p : Plan) (argName : Bytes) (here : Option Node)
    (hplan : plan B mf disk = some p) (hscope : p.InScope B hs)
    (hroot : Impl.findRoot (Impl.infoOf mf) (Impl.nameOf mf) argName here = .ok disk)
    (hnodir : NoDirAtFile mf disk) (hne : ¬ EmptySingleV2 mf (isFile disk)) :
    Impl.recheckMeta H1 H B hs mf argName here
      = .ok (p.verdicts H1 H B hs, ratio (p.verdicts H1 H B hs)) := by
  obtain ⟨pp⟩ := plan_inv B mf disk p hplan
  obtain ⟨recs, info, name, pi, hrecs, hinfo, hname, hpl, hpos, hcase⟩ := pp
  have hnm := nameOf_eq mf info name hinfo hname
  rw [hnm, infoOf_eq mf info hinfo] at hroot
  have hsubinfo := sub_of_get? mf K.info _ hinfo
  have hcp := checkPaths_of_described mf info name (isFile disk) recs hinfo hname hrecs (by
    intro hv he
    exact hne ⟨by rw [hrecs, he], info, hinfo, hv⟩)
  have hnd := hnodir recs hrecs
  have hio := infoOf_eq mf info hinfo
  have hplen : Impl.pieceLen (.int pi) = .ok pi.toNat := by simp [Impl.pieceLen, hpos]
  unfold Impl.recheckMeta
  simp only [hsubinfo, bind_ok, sub_dict info K.name _ hname, str, sub_dict info K.pieceLength _ hpl,
    hroot, hcp]
  rcases hcase with ⟨hv, layers, files, hlay, hB, hmod, hrne, hfiles, rfl⟩ |
    ⟨hv, recorded, hrec, rfl⟩
  · -- v2 / hybrid
    obtain ⟨_, hver1⟩ := metaVersion_v2 info hv
    have hsublay := sub_of_get? mf K.pieceLayers _ hlay
    have hmul : pi.toNat / B * B = pi.toNat := Nat.div_mul_cancel (Nat.dvd_of_mod_eq_zero hmod)
    have hbpp : 0 < pi.toNat / B := by
      apply Nat.pos_of_ne_zero; intro h0; rw [h0] at hmul; omega
    simp only [Plan.InScope] at hscope
    have hent := rcV2Entries_eq pi.toNat layers disk recs files hfiles
      (fun r hr => hnd r hr (by simp [isPad, hio, hv]))
      (describedFiles_v2_root mf info name _ recs hinfo hname hv hrecs)
      (fun f hf => (hscope f hf).notLonger)
    have hhc := Impl.hashCheck_eq_v2Check H B hs (pi.toNat / B) hB hbpp hhs files hscope
    have hBne : ¬ (B = 0 ∨ pi.toNat % B ≠ 0) := by omega
    simp only [if_neg hver1, hsublay, bind_ok, hplen, if_neg hBne, if_neg hrne, hent, hhc,
      Plan.verdicts]
    unfold Impl.finishRun
    by_cases ht : totalOf recs = 0
    · have hz : v2Check H B hs (pi.toNat / B) files = [] := by
        apply v2Check_total_zero
        rw [v2FilesOf_lengths _ _ _ _ _ hfiles]; exact ht
      simp [hz, Impl.iterHashes_eq_ratio]
    · simp [ht, Impl.iterHashes_eq_ratio]
  · -- v1
    have hver := metaVersion_v1 info hv
    simp only [Plan.InScope] at hscope
    have hent := rcV1Entries_eq disk recs
      (fun r hr hp => hnd r hr (by simp [isPad, hio, hv, hp]))
    have hfc := Impl.feedCheck_eq_v1Check H1 pi.toNat (by omega) recorded _ hscope
    simp only [hver, if_true, sub_dict info K.pieces _ hrec, bind_ok, hplen, hent, hfc,
      Plan.verdicts]
    unfold Impl.finishRun
    by_cases ht : totalOf recs = 0
    · have hz : v1Check H1 pi.toNat recorded (recs.map fun r => (r.2.1, v1Disk disk r)) = [] := by
        apply v1Check_total_zero
        simpa [totalOf, List.map_map, Function.comp_def] using ht
      simp [hz, Impl.iterHashes_eq_ratio]
    · simp [ht, Impl.iterHashes_eq_ratio]

/-! ### `find_root` -/

theorem findRoot_root (info : Dict) (name : Bytes) (nd : Node)
    (h : Impl.descends info name nd = .ok false) :
    Impl.findRoot info name name (some nd) = .ok nd := by
  simp [Impl.findRoot, h]

theorem findRoot_parent (info : Dict) (name pname : Bytes) (es : List (Bytes × Node))
    (payload : Node) (hne : pname ≠ name) (hc : child (.dir es) name = some payload) :
    Impl.findRoot info name pname (some (.dir es)) = .ok payload := by
  simp [Impl.findRoot, hne, hc]

/-- a parent directory that is itself named like the torrent: `_is_parent` decides -/
theorem findRoot_parent_named (info : Dict) (name : Bytes) (es : List (Bytes × Node))
    (payload : Node) (hc : child (.dir es) name = some payload)
    (hp : Impl.isParent info name (.dir es) payload = .ok true) :
    Impl.findRoot info name name (some (.dir es)) = .ok payload := by
  simp [Impl.findRoot, Impl.descends, hc, hp]

theorem findRoot_parent_any (info : Dict) (name pname : Bytes) (es : List (Bytes × Node))
    (payload : Node) (hc : child (.dir es) name = some payload)
    (h : pname ≠ name ∨ Impl.isParent info name (.dir es) payload = .ok true) :
    Impl.findRoot info name pname (some (.dir es)) = .ok payload := by
  by_cases hn : pname = name
  · subst hn
    rcases h with h | h
    · exact absurd rfl h
    · exact findRoot_parent_named info pname es payload hc h
  · exact findRoot_parent info name pname es payload hn hc

theorem isParent_tops (info : Dict) (name : Bytes) (tops : List Bytes) (outer inner : Node)
    (h : Impl.topsOf info name = .ok (some tops)) :
    Impl.isParent info name outer inner
      = .ok (decide (Impl.countTops outer tops < Impl.countTops inner tops)) := by
  simp [Impl.isParent, h]

theorem isParent_single (info : Dict) (name : Bytes) (outer inner : Node)
    (h : Impl.topsOf info name = .ok none) :
    Impl.isParent info name outer inner = .ok (isFile inner) := by
  simp [Impl.isParent, h]

/-- `find_root` stays at a regular file -/
theorem descends_file (info : Dict) (name : Bytes) (d : Bytes) :
    Impl.descends info name (.file d) = .ok false := rfl

/-- `find_root` stays at a directory that has no entry named like the torrent -/
theorem descends_no_entry (info : Dict) (name : Bytes) (nd : Node) (h : child nd name = none) :
    Impl.descends info name nd = .ok false := by
  cases nd with
  | file d => rfl
  | dir es => simp [Impl.descends, h]

theorem get?_of_sub (v : BVal) (k : Bytes) (x : BVal) (h : sub v k = .ok x) : v.get? k = some x := by
  cases v with
  | dict d =>
    simp only [sub] at h
    cases hd : dictGet d k with
    | none => simp [hd] at h
    | some y => simp only [hd, Except.ok.injEq] at h; subst h; exact hd
  | int _ => simp [sub] at h
  | str _ => simp [sub] at h
  | list _ => simp [sub] at h

/-- `Checker` uses the content path only through `find_root` -/
theorem recheckMeta_congr (H1 H : Bytes → Bytes) (B hs : Nat) (mf : BVal) (a1 a2 : Bytes)
    (h1 h2 : Option Node)
    (h : Impl.findRoot (Impl.infoOf mf) (Impl.nameOf mf) a1 h1 = Impl.findRoot (Impl.infoOf mf) (Impl.nameOf mf) a2 h2) :
    Impl.recheckMeta H1 H B hs mf a1 h1 = Impl.recheckMeta H1 H B hs mf a2 h2 := by
  unfold Impl.recheckMeta
  cases e1 : sub mf K.info with
  | error e => rfl
  | ok infoV =>
    simp only [bind_ok]
    cases infoV with
    | dict info =>
      simp only
      cases e2 : sub (.dict info) K.name with
      | error e => rfl
      | ok nv =>
        simp only [bind_ok]
        cases nv with
        | str name =>
          have hn : Impl.nameOf mf = name :=
            nameOf_eq mf info name (get?_of_sub _ _ _ e1) (get?_of_sub (.dict info) _ _ e2)
          rw [hn, infoOf_eq mf info (get?_of_sub _ _ _ e1)] at h
          simp only [str, bind_ok, h]
        | int _ => rfl
        | list _ => rfl
        | dict _ => rfl
    | int _ => rfl
    | str _ => rfl
    | list _ => rfl

/-! ### facts about a plan -/

theorem fileBytes_some_not_dir (disk : Node) (path : List Bytes) (d : Bytes)
    (h : fileBytes disk path = some d) : ∀ es, lookup disk path ≠ some (.dir es) := by
  intro es he
  simp [fileBytes, he] at h

theorem v2FilesOf_mem (pl : Nat) (layers : Dict) (root : Node) (recs : List FileRec)
    (files : List Impl.V2File) (hf : v2FilesOf pl layers root recs = some files) :
    ∀ r ∈ recs, ∃ f ∈ files, v2FileOf pl layers root r = some f := by
  induction recs generalizing files with
  | nil => simp
  | cons r rs ih =>
    unfold v2FilesOf at hf
    cases h1 : v2FileOf pl layers root r with
    | none => simp [h1] at hf
    | some f =>
      cases h2 : v2FilesOf pl layers root rs with
      | none => simp [h1, h2] at hf
      | some t =>
        simp only [h1, h2, Option.some.injEq] at hf
        subst hf
        intro x hx
        simp only [List.mem_cons] at hx
        rcases hx with rfl | hx
        · exact ⟨f, by simp, h1⟩
        · obtain ⟨g, hg, hgf⟩ := ih t h2 x hx
          exact ⟨g, by simp [hg], hgf⟩

/-- the total of a plan is the total of the file map -/
theorem plan_total (B : Nat) (mf : BVal) (disk : Disk) (p : Plan) (recs : List FileRec)
    (hplan : plan B mf disk = some p) (hrecs : describedFiles mf (isFile disk) = some recs) :
    p.total = totalOf recs := by
  obtain ⟨pp⟩ := plan_inv B mf disk p hplan
  obtain ⟨recs', info, name, pi, hrecs', hinfo, hname, hpl, hpos, hcase⟩ := pp
  obtain rfl : recs' = recs := by rw [hrecs] at hrecs'; exact (Option.some.inj hrecs').symm
  rcases hcase with ⟨_, layers, files, _, _, _, _, hfiles, rfl⟩ | ⟨_, recorded, _, rfl⟩
  · simp only [Plan.total, totalOf]
    rw [v2FilesOf_lengths _ _ _ _ _ hfiles]
  · simp [Plan.total, totalOf, List.map_map, Function.comp_def]

theorem plan_pos (B : Nat) (mf : BVal) (disk : Disk) (p : Plan) (hplan : plan B mf disk = some p) :
    match p with
    | .v1 pl _ _ => 0 < pl
    | .v2 bpp _ => 0 < B ∧ 0 < bpp := by
  obtain ⟨pp⟩ := plan_inv B mf disk p hplan
  obtain ⟨recs, info, name, pi, hrecs, hinfo, hname, hpl, hpos, hcase⟩ := pp
  rcases hcase with ⟨_, layers, files, _, hB, hmod, _, _, rfl⟩ | ⟨_, recorded, _, rfl⟩
  · have hmul : pi.toNat / B * B = pi.toNat := Nat.div_mul_cancel (Nat.dvd_of_mod_eq_zero hmod)
    refine ⟨hB, ?_⟩
    apply Nat.pos_of_ne_zero; intro h0; rw [h0] at hmul; omega
  · show 0 < pi.toNat
    omega

/-- the sizes of the reference verdicts add up to the total recorded length -/
theorem verdicts_sizes (H1 H : Bytes → Bytes) (B hs : Nat) (mf : BVal) (disk : Disk) (p : Plan)
    (hplan : plan B mf disk = some p) :
    (ratio (p.verdicts H1 H B hs)).2 = p.total := by
  have hpos := plan_pos B mf disk p hplan
  cases p with
  | v1 pl recorded entries =>
    simp only [Plan.verdicts, Plan.total, ratio]
    rw [v1Check_sizes H1 pl hpos, flatMap_zeroFill_length]
  | v2 bpp files =>
    simp only [Plan.verdicts, Plan.total, ratio]
    exact Impl.v2Check_sizes H B hs bpp (Nat.mul_pos hpos.2 hpos.1) files

/-- every reference verdict covers at least one byte -/
theorem verdicts_size_pos (H1 H : Bytes → Bytes) (B hs : Nat) (mf : BVal) (disk : Disk) (p : Plan)
    (hplan : plan B mf disk = some p) : ∀ v ∈ p.verdicts H1 H B hs, 0 < v.2 := by
  have hpos := plan_pos B mf disk p hplan
  cases p with
  | v1 pl recorded entries =>
    intro v hv
    simp only [Plan.verdicts, v1Check, List.mem_map] at hv
    obtain ⟨ci, hci, rfl⟩ := hv
    have hmem : ci.1 ∈ chunks pl (entries.flatMap zeroFill) := by
      have := List.mem_zipIdx_iff_getElem?.mp hci
      exact List.mem_of_getElem? this
    exact (chunks_mem_length pl hpos _ ci.1 hmem).1
  | v2 bpp files =>
    have hpl : 0 < bpp * B := Nat.mul_pos hpos.2 hpos.1
    intro v hv
    simp only [Plan.verdicts, v2Check, List.mem_flatMap] at hv
    obtain ⟨f, _, hvf⟩ := hv
    simp only [v2File, List.mem_map, List.mem_range] at hvf
    obtain ⟨k, hk, rfl⟩ := hvf
    have := (Impl.lt_cdiv_iff k f.1 _ hpl).mp hk
    simp only [v2Verdict]
    omega

/-! ### intact content -/

theorem v2Verdict_congr (H : Bytes → Bytes) (B hs bpp : Nat) (f g : Impl.V2File) (k : Nat)
    (h1 : f.1 = g.1) (hp : Impl.fPieces (bpp * B) f = Impl.fPieces (bpp * B) g)
    (hd : f.2.2.2 = g.2.2.2) : v2Verdict H B hs bpp f k = v2Verdict H B hs bpp g k := by
  simp only [Impl.fPieces, h1] at hp
  simp only [v2Verdict, h1, hd, hp]

/-- a file whose recorded root / layer are those of its on-disk content `d` is checked like
    the entry `FileHasher` writes for `d` -/
theorem fPieces_of_intact (H H1 : Bytes → Bytes) (B hs bpp : Nat) (f : Impl.V2File) (d : Bytes)
    (hlen : f.1 = d.length) (hne : d ≠ [])
    (hroot : d ≠ [] → f.2.1 = (Impl.fileHasher H H1 B hs bpp false d).1)
    (hlayer : d.length > bpp * B → f.2.2.1 = (Impl.fileHasher H H1 B hs bpp false d).2.1) :
    Impl.fPieces (bpp * B) f = Impl.fPieces (bpp * B) (Impl.intactFile H H1 B hs bpp d) := by
  show (if f.1 > bpp * B then f.2.2.1 else f.2.1)
    = if d.length > bpp * B then (Impl.fileHasher H H1 B hs bpp false d).2.1
      else (Impl.fileHasher H H1 B hs bpp false d).1
  by_cases hbig : d.length > bpp * B
  · rw [if_pos (by omega), if_pos hbig, hlayer hbig]
  · rw [if_neg (by omega), if_neg hbig, hroot hne]

theorem intact_inScope (H1 H : Bytes → Bytes) (B hs : Nat) (hH : ∀ b, (H b).length = hs)
    (mf : BVal) (disk : Disk) (p : Plan) (hplan : plan B mf disk = some p)
    (hint : p.Intact H1 H B hs) : p.InScope B hs := by
  have hpos := plan_pos B mf disk p hplan
  cases p with
  | v1 pl recorded entries =>
    obtain ⟨data, rfl, _⟩ := hint
    intro e he d hed
    obtain ⟨x, _, rfl⟩ := List.mem_map.mp he
    simp only [Option.some.injEq] at hed
    subst hed; exact Nat.le_refl _
  | v2 bpp files =>
    intro f hf
    obtain ⟨d, hd, hlen, hroot, hlayer⟩ := hint f hf
    refine ⟨by simp [Impl.fDisk, hd, hlen], ?_⟩
    by_cases hne : d = []
    · subst hne
      simp only [List.length_nil] at hlen
      rw [hlen, cdiv_zero]; simp
    · rw [fPieces_of_intact H H1 B hs bpp f d hlen hne hroot hlayer, hlen]
      exact (Impl.intactFile_ok H H1 B hs bpp hpos.1 hpos.2 hH d).1.layerLen

theorem intact_all_true (H1 H : Bytes → Bytes) (B hs : Nat) (hH1 : ∀ b, (H1 b).length = 20)
    (hH : ∀ b, (H b).length = hs) (mf : BVal) (disk : Disk) (p : Plan)
    (hplan : plan B mf disk = some p) (hint : p.Intact H1 H B hs) :
    ∀ v ∈ p.verdicts H1 H B hs, v.1 = true := by
  have hpos := plan_pos B mf disk p hplan
  cases p with
  | v1 pl recorded entries =>
    obtain ⟨data, rfl, rfl⟩ := hint
    intro v hv
    simp only [Plan.verdicts] at hv
    unfold v1Check at hv
    rw [flatMap_zeroFill_intact] at hv
    obtain ⟨ci, hci, rfl⟩ := List.mem_map.mp hv
    have hget := List.mem_zipIdx_iff_getElem?.mp hci
    simp only [decide_eq_true_eq]
    symm
    apply digestSlice_flatten 20 _ _ ci.2 (H1 ci.1)
    · rw [List.getElem?_map, hget]; rfl
    · intro x hx
      obtain ⟨c, _, rfl⟩ := List.mem_map.mp hx
      exact hH1 c
  | v2 bpp files =>
    have hpl : 0 < bpp * B := Nat.mul_pos hpos.2 hpos.1
    intro v hv
    simp only [Plan.verdicts, v2Check, List.mem_flatMap] at hv
    obtain ⟨f, hf, hvf⟩ := hv
    simp only [v2File, List.mem_map, List.mem_range] at hvf
    obtain ⟨k, hk, rfl⟩ := hvf
    obtain ⟨d, hd, hlen, hroot, hlayer⟩ := hint f hf
    have hne : d ≠ [] := by
      intro e; subst e
      simp only [List.length_nil] at hlen
      rw [hlen, cdiv_zero] at hk; omega
    rw [v2Verdict_congr H B hs bpp f (Impl.intactFile H H1 B hs bpp d) k hlen
      (fPieces_of_intact H H1 B hs bpp f d hlen hne hroot hlayer) (by simp [hd, Impl.intactFile])]
    exact (Impl.intactFile_ok H H1 B hs bpp hpos.1 hpos.2 hH d).2.1 k (by rw [← hlen]; exact hk)

theorem intact_noDir (H1 H : Bytes → Bytes) (B hs : Nat) (mf : BVal) (disk : Disk) (p : Plan)
    (hplan : plan B mf disk = some p) (hint : p.Intact H1 H B hs) : NoDirAtFile mf disk := by
  obtain ⟨pp⟩ := plan_inv B mf disk p hplan
  obtain ⟨recs, info, name, pi, hrecs, hinfo, hname, hpl, hpos, hcase⟩ := pp
  intro recs' hrecs' r hr _
  obtain rfl : recs' = recs := by rw [hrecs] at hrecs'; exact (Option.some.inj hrecs').symm
  rcases hcase with ⟨_, layers, files, _, _, _, _, hfiles, rfl⟩ | ⟨_, recorded, _, rfl⟩
  · obtain ⟨f, hf, hfr⟩ := v2FilesOf_mem _ _ _ _ _ hfiles r hr
    obtain ⟨d, hd, _⟩ := hint f hf
    have := (v2FileOf_length _ _ _ _ _ hfr).2
    exact fileBytes_some_not_dir disk r.1 d (by rw [← this, hd])
  · obtain ⟨data, hdata, _⟩ := hint
    have hm : (r.2.1, v1Disk disk r) ∈ recs'.map fun r => (r.2.1, v1Disk disk r) :=
      List.mem_map.mpr ⟨r, hr, rfl⟩
    rw [hdata] at hm
    obtain ⟨d, _, hd⟩ := List.mem_map.mp hm
    simp only [Prod.mk.injEq] at hd
    have hfb : fileBytes disk r.1 = some d := by
      have h2 := hd.2
      unfold v1Disk at h2
      split at h2
      · cases h2
      · exact h2.symm
    exact fileBytes_some_not_dir disk r.1 d hfb

theorem total_pos_not_emptySingle (B : Nat) (mf : BVal) (disk : Disk) (p : Plan)
    (hplan : plan B mf disk = some p) (ht : 0 < p.total) : ¬ EmptySingleV2 mf (isFile disk) := by
  intro he
  have := plan_total B mf disk p _ hplan he.1
  simp [totalOf] at this
  omega

/-- intact content: the whole run reports `(total, total)` -/
theorem recheckMeta_intact (H1 H : Bytes → Bytes) (B hs : Nat) (hhs : 0 < hs)
    (hH1 : ∀ b, (H1 b).length = 20) (hH : ∀ b, (H b).length = hs) (mf : BVal) (disk : Disk)
    (p : Plan) (argName : Bytes) (here : Option Node) (hplan : plan B mf disk = some p)
    (hint : p.Intact H1 H B hs) (htotal : 0 < p.total)
    (hroot : Impl.findRoot (Impl.infoOf mf) (Impl.nameOf mf) argName here = .ok disk) :
    Impl.recheckMeta H1 H B hs mf argName here = .ok (p.verdicts H1 H B hs, p.total, p.total) := by
  rw [recheckMeta_of_plan H1 H B hs hhs mf disk p argName here hplan
    (intact_inScope H1 H B hs hH mf disk p hplan hint) hroot
    (intact_noDir H1 H B hs mf disk p hplan hint)
    (total_pos_not_emptySingle B mf disk p hplan htotal)]
  have hall := intact_all_true H1 H B hs hH1 hH mf disk p hplan hint
  have hs2 := verdicts_sizes H1 H B hs mf disk p hplan
  rw [ratio_all _ hall] at hs2 ⊢
  simp only at hs2
  rw [hs2]

theorem findRoot_place (arg : ContentArg) (info : Dict) (name : Bytes) (disk : Disk)
    (h : arg.Resolves info name disk) :
    Impl.findRoot info name arg.argName (some (arg.place name disk)) = .ok disk := by
  obtain ⟨kind, argName⟩ := arg
  cases kind with
  | root =>
    simp only [ContentArg.Resolves] at h
    obtain ⟨rfl, hd⟩ := h
    exact findRoot_root info _ _ hd
  | parent =>
    simp only [ContentArg.Resolves] at h
    exact findRoot_parent_any info name argName _ disk (by simp [child]) h

end Spec

/-! ### example metafiles (toy digests: `toyH` 2 bytes, block 2, piece length 4) -/
namespace RF.Ex

/-- toy v1 digest: the first byte of the piece, 20 times -/
def h1 : Bytes → Bytes := fun b => List.replicate 20 (b.headD 0)

/-- a file node of a v2 file tree -/
def leaf (len : Int) (root : Option Bytes) : BVal :=
  .dict [([], .dict ((K.length, .int len) ::
    (match root with | some r => [(RF.kPiecesRoot, .str r)] | none => [])))]

/-- v1, directory `n`: `a` = 1 2 3, `b` empty, `d/c` = 4 5 6 7; keys not in sorted order -/
def v1Meta : BVal :=
  .dict [(K.info, .dict [(K.name, .str [110]), (K.pieceLength, .int 4),
    (K.pieces, .str (List.replicate 20 1 ++ List.replicate 20 5)),
    (K.files, .list [.dict [(K.length, .int 3), (RF.kPath, .list [.str [97]])],
                     .dict [(RF.kPath, .list [.str [98]]), (K.length, .int 0)],
                     .dict [(K.length, .int 4), (RF.kPath, .list [.str [100], .str [99]])]])])]

def v1Disk : Disk :=
  .dir [([97], .file [1, 2, 3]), ([98], .file []), ([100], .dir [([99], .file [4, 5, 6, 7])])]

/-- v2 file tree: `a` (7 bytes, two pieces), `b` (empty), `d/c` (3 bytes) -/
def tree : BVal :=
  .dict [([97], leaf 7 (some [1, 2])), ([98], leaf 0 none),
         ([100], .dict [([99], leaf 3 (some [8, 9]))])]

def v2Meta : BVal :=
  .dict [(K.info, .dict [(K.fileTree, tree), (K.metaVersion, .int 2), (K.name, .str [110]),
    (K.pieceLength, .int 4)]), (K.pieceLayers, .dict [([1, 2], .str [1, 2, 5, 6])])]

/-- hybrid: the v2 part of `v2Meta` plus a v1 part (with padding entries, no trailing one) -/
def hybridMeta : BVal :=
  .dict [(K.pieceLayers, .dict [([1, 2], .str [1, 2, 5, 6])]),
    (K.info, .dict [(K.pieceLength, .int 4), (K.name, .str [110]), (K.metaVersion, .int 2),
      (K.fileTree, tree),
      (K.files, .list [.dict [(K.length, .int 7), (RF.kPath, .list [.str [97]])],
                       .dict [(K.length, .int 1), (RF.kPath, .list [.str [46, 112, 97, 100], .str [49]])],
                       .dict [(K.length, .int 0), (RF.kPath, .list [.str [98]])],
                       .dict [(K.length, .int 3), (RF.kPath, .list [.str [100], .str [99]])]]),
      (K.pieces, .str (List.replicate 20 1 ++ List.replicate 20 5 ++ List.replicate 20 8))])]

def v2Disk : Disk :=
  .dir [([97], .file [1, 2, 3, 4, 5, 6, 7]), ([98], .file []),
        ([100], .dir [([99], .file [8, 9, 10])])]

/-- `a` truncated to 5 bytes, `d/c` removed -/
def v2Damaged : Disk := .dir [([97], .file [1, 2, 3, 4, 5]), ([98], .file [])]

/-- v1 with a BEP 47 padding entry: `a` = 1 2 3 4, padding `.pad/2` (2 bytes, `attr` as
    given), `b` = 5 6; `pieces` hashes 1 2 3 4 | 0 0 5 6 -/
def v1PadMeta (attr : Bytes) : BVal :=
  .dict [(K.info, .dict [(K.name, .str [110]), (K.pieceLength, .int 4),
    (K.pieces, .str (List.replicate 20 1 ++ List.replicate 20 0)),
    (K.files, .list [.dict [(K.length, .int 4), (RF.kPath, .list [.str [97]])],
                     .dict [(RF.kAttr, .str attr), (K.length, .int 2),
                            (RF.kPath, .list [.str [46, 112, 97, 100], .str [50]])],
                     .dict [(K.length, .int 2), (RF.kPath, .list [.str [98]])]])])]

/-- the payload of `v1PadMeta` with a REAL file `.pad/2` = 9 9 on disk -/
def v1PadDisk : Disk :=
  .dir [([97], .file [1, 2, 3, 4]), ([46, 112, 97, 100], .dir [([50], .file [9, 9])]),
        ([98], .file [5, 6])]

/-- a directory `n` that holds the intact payload `n` AND, directly, entries named like all
    three described top-level entries (`a` with other content): a tie for `_is_parent` -/
def v2Crowded : List (Bytes × Node) :=
  [([110], v2Disk), ([97], .file [9]), ([98], .file []), ([100], .dir [])]

/-- a payload directory `n` without any of the described entries, but with a stray directory
    `n` that has `a` and `b` -/
def v2Stray : Disk := .dir [([110], .dir [([97], .file [1, 2, 3, 4, 5, 6, 7]), ([98], .file [])])]

/-- v2 single file `n` (7 bytes) as a specification-conformant encoder writes it: no
    `info.length` -/
def singleMeta : BVal :=
  .dict [(K.info, .dict [(K.fileTree, .dict [([110], leaf 7 (some [1, 2]))]),
    (K.metaVersion, .int 2), (K.name, .str [110]), (K.pieceLength, .int 4)]),
    (K.pieceLayers, .dict [([1, 2], .str [1, 2, 5, 6])])]

def singleDisk : Disk := .file [1, 2, 3, 4, 5, 6, 7]

/-- v2 single EMPTY file `n` -/
def emptySingleMeta : BVal :=
  .dict [(K.info, .dict [(K.fileTree, .dict [([110], leaf 0 none)]),
    (K.metaVersion, .int 2), (K.name, .str [110]), (K.pieceLength, .int 4)]),
    (K.pieceLayers, .dict [])]

end RF.Ex
end TorrentVerif

import TorrentVerif.Model.Spelling
import TorrentVerif.Proofs.RbPath
/-
  Lemmas for `name_of_spelling` (C08): `normpath` of an absolute path is a run of `normStep`
  over the components; the run is compositional at every `/`; every `Spec.SpellingStep` leaves
  the resulting component stack unchanged; `basename` of the normalised string is the top of
  that stack.
-/
namespace TorrentVerif
open Rebuild PosixPath Spec

namespace PosixPath

/-! ### splitting at a separator -/

theorem splitSep_append_sep' (a b : Bytes) :
    splitSep (a ++ 47 :: b) = splitSep a ++ splitSep b := by
  induction a with
  | nil => simp [splitSep]
  | cons c t ih =>
    by_cases hc : c = 47
    · subst hc
      simp only [List.cons_append, splitSep_cons_sep, ih]
    · cases h : splitSep t with
      | nil => exact absurd h (splitSep_ne_nil t)
      | cons x r =>
        rw [h] at ih
        simp [splitSep, hc, ih, h]

/-- the component stack after processing the string `s` starting from stack `stk`
    (absolute flavour of `normpath`: `..` at the root is dropped) -/
def run (stk : List Bytes) (s : Bytes) : List Bytes := (splitSep s).foldl (normStep 1) stk

theorem run_append_sep (stk : List Bytes) (a b : Bytes) :
    run stk (a ++ 47 :: b) = run (run stk a) b := by
  simp [run, splitSep_append_sep', List.foldl_append]

theorem run_nil (stk : List Bytes) : run stk [] = stk := by
  simp [run, splitSep, normStep]

theorem run_dot (stk : List Bytes) : run stk [46] = stk := by
  simp [run, splitSep, normStep, DOT]

theorem run_clean (stk : List Bytes) (x : Bytes) (hx : CleanComp x) : run stk x = x :: stk := by
  simp [run, splitSep_noSep x hx.noSep, normStep_clean 1 stk x hx]

theorem run_dotdot_clean (stk : List Bytes) (x : Bytes) (hx : CleanComp x) :
    run (x :: stk) [46, 46] = stk := by
  have h1 : splitSep [46, 46] = [[46, 46]] := by decide
  have h2 : x ≠ DOTDOT := hx.2.2.1
  simp [run, h1, normStep, DOT, DOTDOT]
  intro h
  exact absurd h h2

theorem normStep_pos (k : Nat) (hk : k ≠ 0) : normStep k = normStep 1 := by
  funext stk c
  simp [normStep, hk]

/-- two spellings of a path suffix that act alike on every stack -/
def Equiv (a b : Bytes) : Prop := ∀ stk, run stk a = run stk b

theorem equiv_dotSlash (v : Bytes) : Equiv v (46 :: 47 :: v) := by
  intro stk
  have : (46 : UInt8) :: 47 :: v = [46] ++ 47 :: v := rfl
  rw [this, run_append_sep, run_dot]

theorem equiv_sep (v : Bytes) : Equiv v (47 :: v) := by
  intro stk
  have : (47 : UInt8) :: v = [] ++ 47 :: v := rfl
  rw [this, run_append_sep, run_nil]

theorem equiv_xDotDot (x v : Bytes) (hx : CleanComp x) :
    Equiv v (x ++ 47 :: 46 :: 46 :: 47 :: v) := by
  intro stk
  have : x ++ (47 : UInt8) :: 46 :: 46 :: 47 :: v = x ++ 47 :: ([46, 46] ++ 47 :: v) := rfl
  rw [this, run_append_sep, run_append_sep, run_clean stk x hx, run_dotdot_clean stk x hx]

theorem equiv_trailSep (s : Bytes) : Equiv s (s ++ [47]) := by
  intro stk
  rw [run_append_sep, run_nil]

theorem equiv_trailDot (s : Bytes) : Equiv s (s ++ [47, 46]) := by
  intro stk
  have : s ++ [(47 : UInt8), 46] = s ++ 47 :: [46] := rfl
  rw [this, run_append_sep, run_dot]

/-- the stack `abspath` ends with, for spelling `s` in a directory whose stack is `st`:
    an absolute spelling starts from the root -/
def stackOf (st : List Bytes) (s : Bytes) : List Bytes :=
  if s.head? = some 47 then run [] s else run st s

theorem head?_append_sep (u a b : Bytes) (hu : u.getLast? = some 47) :
    (u ++ a).head? = (u ++ b).head? := by
  cases u with
  | nil => simp at hu
  | cons c t => simp

theorem stackOf_congr (st : List Bytes) (u a b : Bytes) (hu : u.getLast? = some 47)
    (h : Equiv a b) : stackOf st (u ++ a) = stackOf st (u ++ b) := by
  obtain ⟨u', rfl⟩ : ∃ u', u = u' ++ [47] := List.getLast?_eq_some_iff.mp hu
  unfold stackOf
  rw [head?_append_sep _ a b hu]
  have e : ∀ c : Bytes, u' ++ [47] ++ c = u' ++ 47 :: c := by intro c; simp
  rw [e a, e b]
  split <;> rw [run_append_sep, run_append_sep, h]

theorem stackOf_step (st : List Bytes) (s t : Bytes) (h : SpellingStep s t) :
    stackOf st s = stackOf st t := by
  cases h with
  | dotSlash u v hb =>
    rcases hb with ⟨rfl, hv⟩ | hu
    · simp only [List.nil_append]
      unfold stackOf
      rw [if_neg hv, if_neg (by simp)]
      exact equiv_dotSlash v st
    · exact stackOf_congr st u _ _ hu (equiv_dotSlash v)
  | dblSep u v =>
    have e : ∀ c : Bytes, u ++ 47 :: c = (u ++ [47]) ++ c := by intro c; simp
    rw [e v, e (47 :: v)]
    exact stackOf_congr st _ _ _ (by simp) (equiv_sep v)
  | trailSep s hs =>
    unfold stackOf
    have : (s ++ [47]).head? = s.head? := by cases s with | nil => exact absurd rfl hs | cons c r => simp
    rw [this]
    split <;> exact equiv_trailSep s _
  | trailDot s hs =>
    unfold stackOf
    have : (s ++ [47, 46]).head? = s.head? := by cases s with | nil => exact absurd rfl hs | cons c r => simp
    rw [this]
    split <;> exact equiv_trailDot s _
  | xDotDot u v x hx hb =>
    rcases hb with ⟨rfl, hv⟩ | hu
    · simp only [List.nil_append]
      unfold stackOf
      have hxh : (x ++ 47 :: 46 :: 46 :: 47 :: v).head? ≠ some 47 := by
        cases x with
        | nil => exact absurd rfl hx.ne_nil
        | cons c r =>
          have := clean_first_ne_sep _ hx
          simpa using this
      rw [if_neg hv, if_neg hxh]
      exact equiv_xDotDot x v hx st
    · exact stackOf_congr st u _ _ hu (equiv_xDotDot x v hx)
  | prefixDot s hs =>
    unfold stackOf
    rw [if_neg hs, if_neg (by simp)]
    exact equiv_dotSlash s st

theorem stackOf_same (st : List Bytes) (s t : Bytes) (h : SameSpelling s t) :
    stackOf st s = stackOf st t := by
  induction h with
  | refl => rfl
  | step _ st' ih => rw [ih, stackOf_step st _ _ st']

/-! ### `join` with the working directory -/

/-- what `join(cwd, ·)` contributes for a relative spelling: `cwd` without a trailing `/` -/
def cwdBase (cwd : Bytes) : Bytes := if cwd.getLast? = some 47 then cwd.dropLast else cwd

theorem join_rel (cwd s : Bytes) (hc : cwd.head? = some 47) (hs : s.head? ≠ some 47) :
    join cwd s = cwdBase cwd ++ 47 :: s := by
  have hne : cwd ≠ [] := by intro e; subst e; simp at hc
  unfold join cwdBase
  rw [if_neg hs]
  by_cases hl : cwd.getLast? = some 47
  · rw [if_pos (Or.inr hl), if_pos hl]
    obtain ⟨c', rfl⟩ := List.getLast?_eq_some_iff.mp hl
    simp
  · rw [if_neg (by simp [hne, hl]), if_neg hl]

theorem join_abs (cwd s : Bytes) (hs : s.head? = some 47) : join cwd s = s := by
  simp [join, hs]

theorem join_head (cwd s : Bytes) (hc : cwd.head? = some 47) : (join cwd s).head? = some 47 := by
  by_cases hs : s.head? = some 47
  · rw [join_abs cwd s hs]; exact hs
  · unfold join
    rw [if_neg hs]
    cases cwd with
    | nil => simp at hc
    | cons c r => split <;> simpa using hc

/-- the stack of the absolute path `join(cwd, s)` -/
theorem run_join (cwd s : Bytes) (hc : cwd.head? = some 47) :
    run [] (join cwd s) = stackOf (run [] (cwdBase cwd)) s := by
  unfold stackOf
  by_cases hs : s.head? = some 47
  · rw [join_abs cwd s hs, if_pos hs]
  · rw [join_rel cwd s hc hs, if_neg hs, run_append_sep]

/-! ### `basename` of a normalised absolute path -/

theorem basename_append_sep (pre c : Bytes) (hc : (47 : UInt8) ∉ c) :
    basename (pre ++ 47 :: c) = c := by
  unfold basename
  rw [List.reverse_append, List.reverse_cons, List.append_assoc,
    List.takeWhile_append_of_pos (by
      intro a ha
      rw [List.mem_reverse] at ha
      simp only [ne_eq, decide_not, Bool.not_eq_eq_eq_not, Bool.not_true, decide_eq_false_iff_not]
      intro e; subst e; exact hc ha)]
  simp

theorem joinSep_append_singleton (l : List Bytes) (c : Bytes) (hl : l ≠ []) :
    joinSep (l ++ [c]) = joinSep l ++ 47 :: c := by
  induction l with
  | nil => exact absurd rfl hl
  | cons a r ih =>
    cases r with
    | nil => simp [joinSep]
    | cons b r' =>
      have := ih (by simp)
      simp only [List.cons_append] at this ⊢
      rw [joinSep, this, joinSep]
      simp

/-- `basename` of `/…/c` (one or more leading slashes, clean components) is the last component;
    of the bare root it is empty -/
theorem basename_slashes (k : Nat) (hk : k ≠ 0) (q : Path) (hq : CleanPath q) :
    basename (List.replicate k 47 ++ joinSep q) = q.getLast?.getD [] := by
  obtain ⟨k', rfl⟩ : ∃ k', k = k' + 1 := ⟨k - 1, by omega⟩
  have hrep : List.replicate (k' + 1) (47 : UInt8) = List.replicate k' 47 ++ [47] := by
    rw [List.replicate_succ']
  rcases List.eq_nil_or_concat q with rfl | ⟨l, c, rfl⟩
  · have : basename (List.replicate k' 47 ++ 47 :: []) = [] :=
      basename_append_sep _ [] (by simp)
    simpa [joinSep, hrep] using this
  · have hc : (47 : UInt8) ∉ c := (hq c (by simp)).noSep
    simp only [List.concat_eq_append, List.getLast?_append, List.getLast?_singleton,
      Option.some_or, Option.getD_some]
    by_cases hl : l = []
    · subst hl
      have := basename_append_sep (List.replicate k' 47) c hc
      simpa [joinSep, hrep] using this
    · rw [joinSep_append_singleton l c hl, ← List.append_assoc]
      exact basename_append_sep _ c hc

/-- `normpath` of an absolute path, in terms of `run` -/
theorem normpath_run (j : Bytes) (hj : j.head? = some 47) :
    CleanPath (run [] j).reverse ∧
    normpath j = List.replicate (initialSlashes j) 47 ++ joinSep (run [] j).reverse := by
  have hne : j ≠ [] := by intro e; subst e; simp at hj
  have hk := initialSlashes_abs j hj
  have hk0 : initialSlashes j ≠ 0 := by omega
  have hrun : run [] j = (splitSep j).foldl (normStep (initialSlashes j)) [] := by
    rw [normStep_pos _ hk0]; rfl
  constructor
  · intro c hc
    rw [List.mem_reverse, hrun] at hc
    exact foldl_normStep_inv _ hk0 _ (splitSep_mem_noSep j) [] (by simp) c hc
  · rw [hrun]
    unfold normpath
    simp only [hne, if_false]
    rw [if_neg]
    rcases hk with h | h <;> rw [h] <;> simp [List.replicate]

end PosixPath

namespace Impl

/-- the recorded name is the top of the component stack of `join(cwd, s)` -/
theorem torrentName_eq (cwd s : Bytes) (hc : cwd.head? = some 47) :
    torrentName cwd s = (run [] (join cwd s)).head?.getD [] := by
  have hj := join_head cwd s hc
  obtain ⟨hq, hn⟩ := normpath_run _ hj
  have hk0 : initialSlashes (join cwd s) ≠ 0 := by
    have := initialSlashes_abs _ hj; omega
  unfold torrentName abspathIn
  rw [hn, basename_slashes _ hk0 _ hq, List.getLast?_reverse]

end Impl
end TorrentVerif

/-! ### canonical spellings: the name they give -/
namespace TorrentVerif
open Rebuild PosixPath Spec

namespace PosixPath

theorem run_cwdBase (cwd : Bytes) : run [] (cwdBase cwd) = run [] cwd := by
  unfold cwdBase
  split
  · rename_i h
    obtain ⟨c', rfl⟩ := List.getLast?_eq_some_iff.mp h
    have : c' ++ [(47 : UInt8)] = c' ++ 47 :: [] := rfl
    rw [List.dropLast_concat, this, run_append_sep, run_nil]
  · rfl

theorem run_joinSep (st : List Bytes) (r : Path) (hr : CleanPath r) :
    run st (joinSep r) = r.reverse ++ st := by
  by_cases hre : r = []
  · subst hre; simp [joinSep, run_nil]
  · unfold run
    rw [splitSep_joinSep r hre (fun c hc => (hr c hc).noSep), foldl_normStep_clean 1 r hr]

theorem run_render (p : Path) (hp : CleanPath p) : run [] (render p) = p.reverse := by
  have : render p = [] ++ 47 :: joinSep p := rfl
  rw [this, run_append_sep, run_nil, run_joinSep [] p hp]
  simp

end PosixPath

namespace Impl

/-- a clean relative spelling `r₁/…/rₙ` in the directory `/p₁/…/pₘ` -/
theorem torrentName_canonical (p r : Path) (hp : CleanPath p) (hr : CleanPath r) :
    torrentName (render p) (joinSep r) = (p ++ r).getLast?.getD [] := by
  have hc : (render p).head? = some 47 := by simp [render]
  rw [torrentName_eq _ _ hc, run_join _ _ hc, run_cwdBase, run_render p hp]
  unfold stackOf
  rw [if_neg (joinSep_head r hr), run_joinSep _ r hr, ← List.reverse_append, List.head?_reverse]

/-- the spelling `.` -/
theorem torrentName_dot (p : Path) (hp : CleanPath p) :
    torrentName (render p) [46] = p.getLast?.getD [] := by
  have hc : (render p).head? = some 47 := by simp [render]
  rw [torrentName_eq _ _ hc, run_join _ _ hc, run_cwdBase, run_render p hp]
  unfold stackOf
  rw [if_neg (by simp), run_dot, List.head?_reverse]

end Impl
end TorrentVerif

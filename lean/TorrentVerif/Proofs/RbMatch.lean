import TorrentVerif.Proofs.RbRun
/- `_match_v2`, `_find_matches` and `_match_v1` are runs of justified `copypath` calls. -/
namespace TorrentVerif
open Rebuild PosixPath Spec

namespace Impl

/-! ### v2 -/

/-- why `_match_v2` calls `copypath(src, dst)`: `src` is a same-name same-size candidate of a file
    record whose merkle root it has (or the file is empty), `dst` is where `safe_join` puts it -/
def GoodV2 (rootOf : Bytes → Bytes) (filemap : FileMap) (dest : Path) (files : List FileRec)
    (fs : FS) (src dst : Path) : Prop :=
  ∃ r ∈ files, ∃ cands sz, filemap.lookup r.filename = some cands ∧ (src, sz) ∈ cands ∧
    sz = r.length ∧ (r.length = 0 ∨ ∃ d, fs.readFile? src = some d ∧ r.root = some (rootOf d)) ∧
    safeJoin dest r.full = some dst

theorem rootMatches_true {rootOf : Bytes → Bytes} {fs : FS} {r : FileRec} {p : Path}
    (h : rootMatches rootOf fs r p = true) : ∃ d, fs.readFile? p = some d ∧ r.root = some (rootOf d) := by
  unfold rootMatches at h
  cases hr : fs.readFile? p with
  | none => rw [hr] at h; simp at h
  | some d => rw [hr] at h; exact ⟨d, rfl, by simpa using h⟩

theorem matchV2Pick_some {rootOf : Bytes → Bytes} {fs : FS} {dest : Path} {r : FileRec}
    {cands : List (Path × Nat)} {src dp : Path}
    (h : matchV2Pick rootOf fs dest r cands = some (src, dp)) :
    ∃ sz, (src, sz) ∈ cands ∧ sz = r.length ∧
      (r.length = 0 ∨ ∃ d, fs.readFile? src = some d ∧ r.root = some (rootOf d)) ∧
      safeJoin dest r.full = some dp := by
  induction cands with
  | nil => simp [matchV2Pick] at h
  | cons c cs ih =>
    obtain ⟨path, size⟩ := c
    simp only [matchV2Pick] at h
    split at h
    · rename_i hsz
      split at h
      · rename_i hok
        cases hsj : safeJoin dest r.full with
        | none => rw [hsj] at h; simp at h
        | some q =>
          rw [hsj] at h
          simp at h
          obtain ⟨h1, h2⟩ := h
          subst h1 h2
          refine ⟨size, List.mem_cons_self, hsz, ?_, rfl⟩
          rcases hok with h0 | hm
          · exact Or.inl h0
          · exact Or.inr (rootMatches_true hm)
      · obtain ⟨sz, hm, rest⟩ := ih h
        exact ⟨sz, List.mem_cons_of_mem _ hm, rest⟩
    · obtain ⟨sz, hm, rest⟩ := ih h
      exact ⟨sz, List.mem_cons_of_mem _ hm, rest⟩

theorem matchV2_run (rootOf : Bytes → Bytes) (ds : Nat) (filemap : FileMap) (dest : Path)
    (all : List FileRec) (files : List FileRec) :
    ∀ fs, (∀ r ∈ files, r ∈ all) →
      Run ds (GoodV2 rootOf filemap dest all) fs (matchV2 rootOf ds filemap dest fs files).1 := by
  induction files with
  | nil => intro fs _; exact Run.nil fs
  | cons r rest ih =>
    intro fs hsub
    have hrest : ∀ x ∈ rest, x ∈ all := fun x hx => hsub x (List.mem_cons_of_mem _ hx)
    simp only [matchV2]
    cases hl : filemap.lookup r.filename with
    | none => exact ih fs hrest
    | some cands =>
      simp only
      cases hp : matchV2Pick rootOf fs dest r cands with
      | none => exact ih fs hrest
      | some sd =>
        obtain ⟨src, dp⟩ := sd
        simp only
        obtain ⟨sz, hm, hsz, hv, hsj⟩ := matchV2Pick_some hp
        exact Run.single ⟨r, hsub r List.mem_cons_self, cands, sz, hl, hm, hsz, hv, hsj⟩ (ih _ hrest)

/-- every counted v2 file is a record whose destination was accepted -/
theorem matchV2_counted (rootOf : Bytes → Bytes) (ds : Nat) (filemap : FileMap) (dest : Path)
    (files : List FileRec) :
    ∀ fs, ∀ f ∈ (matchV2 rootOf ds filemap dest fs files).2,
      ∃ r ∈ files, f = r.full ∧ (safeJoin dest r.full).isSome := by
  induction files with
  | nil => intro fs f h; simp [matchV2] at h
  | cons r rest ih =>
    intro fs f h
    simp only [matchV2] at h
    have lift : (∃ x ∈ rest, f = x.full ∧ (safeJoin dest x.full).isSome) →
        ∃ x ∈ r :: rest, f = x.full ∧ (safeJoin dest x.full).isSome := by
      rintro ⟨x, hx, h1⟩; exact ⟨x, List.mem_cons_of_mem _ hx, h1⟩
    cases hl : filemap.lookup r.filename with
    | none => rw [hl] at h; exact lift (ih fs f h)
    | some cands =>
      rw [hl] at h
      simp only at h
      cases hp : matchV2Pick rootOf fs dest r cands with
      | none => rw [hp] at h; exact lift (ih fs f h)
      | some sd =>
        obtain ⟨src, dp⟩ := sd
        rw [hp] at h
        simp only at h
        obtain ⟨sz, _, _, _, hsj⟩ := matchV2Pick_some hp
        cases h with
        | head => exact ⟨r, List.mem_cons_self, rfl, by simp [hsj]⟩
        | tail _ h => exact lift (ih _ f h)

/-! ### `_find_matches` -/

/-- the `copypath` calls made for a matching combination (last node first; none for a
    padding node) -/
def comboCalls (dest : Path) : List PathNode → List (Path × Bytes) → List (Path × Path)
  | pn :: ps, c :: cs =>
    comboCalls dest ps cs ++ (if pn.file.pad then [] else
                              match safeJoin dest pn.file.full with
                              | some dp => [(c.1, dp)]
                              | none => [])
  | _, _ => []

theorem nodePart_pad {pn : PathNode} (h : pn.file.pad = true) (d : Bytes) : nodePart pn d = padPart pn := by
  simp [nodePart, h]

theorem nodePart_file {pn : PathNode} (h : pn.file.pad = false) (d : Bytes) :
    nodePart pn d = getPart pn.start pn.stop d := by
  simp [nodePart, h]

theorem findMatches_sound (H1 : Bytes → Bytes) (fs : FS) (filemap : FileMap) (dest : Path)
    (piece : Bytes) (paths : List PathNode) :
    ∀ data calls, findMatches H1 fs filemap dest piece paths data = some calls →
      ∃ choice, Combo fs filemap paths choice ∧ H1 (data ++ comboData paths choice) = piece ∧
        calls = comboCalls dest paths choice := by
  induction paths with
  | nil =>
    intro data calls h
    simp only [findMatches] at h
    split at h
    · rename_i hh
      injection h with h
      exact ⟨[], trivial, by simpa [comboData] using hh, by simp [comboCalls, ← h]⟩
    · cases h
  | cons pn ps ih =>
    intro data calls h
    simp only [findMatches] at h
    cases hpad : pn.file.pad with
    | true =>
      simp only [hpad, if_true] at h
      obtain ⟨choice, hcombo, hhash, hcalls⟩ := ih _ _ h
      refine ⟨([], []) :: choice, ⟨fun hf => absurd (hpad.symm.trans hf) (by decide), hcombo⟩, ?_, ?_⟩
      · simpa [comboData, nodePart_pad hpad, List.append_assoc] using hhash
      · simp [comboCalls, hpad, hcalls]
    | false =>
    simp only [hpad, Bool.false_eq_true, if_false] at h
    cases hl : filemap.lookup pn.file.filename with
    | none => rw [hl] at h; cases h
    | some cands =>
      rw [hl] at h
      simp only at h
      obtain ⟨c, hc, hf⟩ := List.exists_of_findSome?_eq_some h
      split at hf
      · cases hf
      · rename_i hsz
        cases hr : fs.readFile? c.1 with
        | none => rw [hr] at hf; cases hf
        | some d =>
          rw [hr] at hf
          simp only at hf
          cases hrec : findMatches H1 fs filemap dest piece ps (data ++ getPart pn.start pn.stop d) with
          | none => rw [hrec] at hf; cases hf
          | some calls' =>
            rw [hrec] at hf
            simp only at hf
            injection hf with hf
            obtain ⟨choice, hcombo, hhash, hcalls⟩ := ih _ _ hrec
            refine ⟨(c.1, d) :: choice, ⟨fun _ => ⟨cands, c.2, hl, hc, ?_, hr⟩, hcombo⟩, ?_, ?_⟩
            · exact Classical.not_not.mp hsz
            · simpa [comboData, nodePart_file hpad, List.append_assoc] using hhash
            · simp only [comboCalls, hpad, Bool.false_eq_true, if_false]; rw [← hf, hcalls]
              cases safeJoin dest pn.file.full <;> rfl

theorem comboCalls_mem {dest : Path} {paths : List PathNode} :
    ∀ {choice : List (Path × Bytes)} {src dst : Path}, (src, dst) ∈ comboCalls dest paths choice →
      ∃ pc ∈ List.zip paths choice, pc.2.1 = src ∧ safeJoin dest pc.1.file.full = some dst ∧
        pc.1.file.pad = false := by
  induction paths with
  | nil => intro choice src dst h; simp [comboCalls] at h
  | cons pn ps ih =>
    intro choice src dst h
    cases choice with
    | nil => simp [comboCalls] at h
    | cons c cs =>
      simp only [comboCalls, List.mem_append] at h
      rcases h with h | h
      · obtain ⟨pc, hpc, h1⟩ := ih h
        exact ⟨pc, by simp [List.zip_cons_cons, hpc], h1⟩
      · cases hpad : pn.file.pad with
        | true => rw [hpad] at h; simp at h
        | false =>
        rw [hpad] at h
        simp only [Bool.false_eq_true, if_false] at h
        cases hsj : safeJoin dest pn.file.full with
        | none => rw [hsj] at h; simp at h
        | some dp =>
          rw [hsj] at h
          simp at h
          obtain ⟨h1, h2⟩ := h
          subst h1 h2
          exact ⟨(pn, c), by simp [List.zip_cons_cons], rfl, hsj, hpad⟩

/-! ### v1 -/

/-- why `_match_v1` calls `copypath(src, dst)`: `src` is the candidate chosen for one node of a
    piece in a combination of readable same-name same-size candidates whose concatenated parts
    hash to the recorded piece; `dst` is where `safe_join` puts that node's file -/
def GoodV1 (H1 : Bytes → Bytes) (filemap : FileMap) (dest : Path)
    (pieceNodes : List (Bytes × List PathNode)) (fs : FS) (src dst : Path) : Prop :=
  ∃ pp ∈ pieceNodes, ∃ choice, Combo fs filemap pp.2 choice ∧ H1 (comboData pp.2 choice) = pp.1 ∧
    ∃ pc ∈ List.zip pp.2 choice, pc.2.1 = src ∧ safeJoin dest pc.1.file.full = some dst ∧
      pc.1.file.pad = false

theorem matchV1Loop_run (H1 : Bytes → Bytes) (ds : Nat) (filemap : FileMap) (dest : Path)
    (all : List (Bytes × List PathNode)) (pns : List (Bytes × List PathNode)) :
    ∀ fs copied, (∀ x ∈ pns, x ∈ all) →
      Run ds (GoodV1 H1 filemap dest all) fs (matchV1Loop H1 ds filemap dest fs copied pns).1 := by
  induction pns with
  | nil => intro fs _ _; exact Run.nil fs
  | cons pp rest ih =>
    intro fs copied hsub
    obtain ⟨piece, paths⟩ := pp
    have hrest : ∀ x ∈ rest, x ∈ all := fun x hx => hsub x (List.mem_cons_of_mem _ hx)
    simp only [matchV1Loop]
    split
    · exact ih fs copied hrest
    · cases hf : findMatches H1 fs filemap dest piece paths [] with
      | none => exact ih fs copied hrest
      | some calls =>
        simp only
        obtain ⟨choice, hcombo, hhash, hcalls⟩ := findMatches_sound H1 fs filemap dest piece paths [] calls hf
        refine Run.batch fs calls _ ?_ (ih _ _ hrest)
        intro c hc
        rw [hcalls] at hc
        obtain ⟨pc, hpc, h1, h2⟩ := comboCalls_mem (src := c.1) (dst := c.2) hc
        exact ⟨(piece, paths), hsub _ List.mem_cons_self, choice, hcombo, by simpa using hhash, pc, hpc, h1, h2⟩

theorem markCopied_counted (dest : Path) (paths : List PathNode) :
    ∀ copied, ∀ f ∈ (markCopied dest copied paths).2,
      (safeJoin dest f).isSome ∧ ∃ pn ∈ paths, pn.file.full = f ∧ pn.file.pad = false := by
  induction paths with
  | nil => intro copied f h; simp [markCopied] at h
  | cons pn ps ih =>
    intro copied f h
    simp only [markCopied] at h
    split at h
    · obtain ⟨h1, pn', hp, h2⟩ := ih copied f h
      exact ⟨h1, pn', List.mem_cons_of_mem _ hp, h2⟩
    · rename_i hpad
      split at h
      · obtain ⟨h1, pn', hp, h2⟩ := ih copied f h
        exact ⟨h1, pn', List.mem_cons_of_mem _ hp, h2⟩
      · simp only [List.mem_append] at h
        rcases h with h | h
        · split at h
          · rename_i hs
            simp at h
            subst h
            exact ⟨hs, pn, List.mem_cons_self, rfl, by simpa using hpad⟩
          · simp at h
        · obtain ⟨h1, pn', hp, h2⟩ := ih _ f h
          exact ⟨h1, pn', List.mem_cons_of_mem _ hp, h2⟩

theorem matchV1Loop_counted (H1 : Bytes → Bytes) (ds : Nat) (filemap : FileMap) (dest : Path)
    (pns : List (Bytes × List PathNode)) :
    ∀ fs copied, ∀ f ∈ (matchV1Loop H1 ds filemap dest fs copied pns).2,
      (safeJoin dest f).isSome ∧ ∃ pp ∈ pns, ∃ pn ∈ pp.2, pn.file.full = f ∧ pn.file.pad = false := by
  induction pns with
  | nil => intro fs copied f h; simp [matchV1Loop] at h
  | cons pp rest ih =>
    intro fs copied f h
    obtain ⟨piece, paths⟩ := pp
    have lift : ((safeJoin dest f).isSome ∧ ∃ pp ∈ rest, ∃ pn ∈ pp.2, pn.file.full = f ∧ pn.file.pad = false) →
        (safeJoin dest f).isSome ∧ ∃ pp ∈ (piece, paths) :: rest, ∃ pn ∈ pp.2,
          pn.file.full = f ∧ pn.file.pad = false := by
      rintro ⟨h1, pp, hpp, h2⟩; exact ⟨h1, pp, List.mem_cons_of_mem _ hpp, h2⟩
    simp only [matchV1Loop] at h
    split at h
    · exact lift (ih _ _ f h)
    · cases hf : findMatches H1 fs filemap dest piece paths [] with
      | none => rw [hf] at h; exact lift (ih _ _ f h)
      | some calls =>
        rw [hf] at h
        simp only [List.mem_append] at h
        rcases h with h | h
        · obtain ⟨h1, pn, hp, h2⟩ := markCopied_counted dest paths copied f h
          exact ⟨h1, (piece, paths), List.mem_cons_self, pn, hp, h2⟩
        · exact lift (ih _ _ f h)

theorem toPathNodes_mem {files : List FileRec} {nodes : List Node} {pn : PathNode}
    (h : pn ∈ toPathNodes files nodes) :
    files[pn.idx]? = some pn.file ∧ (pn.idx, pn.start, pn.stop) ∈ nodes := by
  unfold toPathNodes at h
  rw [List.mem_filterMap] at h
  obtain ⟨n, hn, h⟩ := h
  cases hf : files[n.1]? with
  | none => rw [hf] at h; simp at h
  | some r =>
    rw [hf] at h
    simp at h
    subst h
    exact ⟨hf, hn⟩

theorem combo_zip_mem {fs : FS} {filemap : FileMap} {paths : List PathNode} :
    ∀ {choice : List (Path × Bytes)}, Combo fs filemap paths choice →
      ∀ pc ∈ List.zip paths choice, pc.1.file.pad = false →
        ∃ cands sz, filemap.lookup pc.1.file.filename = some cands ∧
        (pc.2.1, sz) ∈ cands ∧ sz = pc.1.file.length ∧ fs.readFile? pc.2.1 = some pc.2.2 := by
  induction paths with
  | nil => intro choice _ pc h; simp at h
  | cons pn ps ih =>
    intro choice hc pc h hpad
    cases choice with
    | nil => simp at h
    | cons c cs =>
      simp only [List.zip_cons_cons, List.mem_cons] at h
      rcases h with h | h
      · subst h; exact hc.1 hpad
      · exact ih hc.2 pc h hpad

theorem matchV1_run (H1 : Bytes → Bytes) (ds : Nat) (fs : FS) (filemap : FileMap) (dest : Path)
    (pl : Nat) (pieces : List Bytes) (files : List FileRec) :
    Run ds (GoodV1 H1 filemap dest (v1PieceNodes pl pieces files)) fs
      (matchV1 H1 ds fs filemap dest pl pieces files).1 :=
  matchV1Loop_run H1 ds filemap dest _ _ fs [] (fun _ h => h)

theorem v1PieceNodes_file {pl : Nat} {pieces : List Bytes} {files : List FileRec}
    {pp : Bytes × List PathNode} (hpp : pp ∈ v1PieceNodes pl pieces files) {pn : PathNode}
    (hpn : pn ∈ pp.2) : pn.file ∈ files := by
  unfold v1PieceNodes at hpp
  have h2 := (List.of_mem_zip hpp).2
  rw [List.mem_map] at h2
  obtain ⟨ns, _, hns⟩ := h2
  rw [← hns] at hpn
  exact List.mem_of_getElem? (toPathNodes_mem hpn).1

/-- the static content of `GoodV1`: the source is a same-name same-size candidate of a file
    record, the target is that record's accepted destination -/
theorem GoodV1.file {H1 : Bytes → Bytes} {filemap : FileMap} {dest : Path} {pl : Nat}
    {pieces : List Bytes} {files : List FileRec} {fs : FS} {src dst : Path}
    (h : GoodV1 H1 filemap dest (v1PieceNodes pl pieces files) fs src dst) :
    ∃ r ∈ files, safeJoin dest r.full = some dst ∧ ∃ cands sz,
      filemap.lookup r.filename = some cands ∧ (src, sz) ∈ cands ∧ sz = r.length := by
  obtain ⟨pp, hpp, choice, hcombo, _, pc, hpc, h1, h2, hpad⟩ := h
  obtain ⟨cands, sz, hl, hm, hsz, _⟩ := combo_zip_mem hcombo pc hpc hpad
  refine ⟨pc.1.file, v1PieceNodes_file hpp (List.of_mem_zip hpc).1, h2, cands, sz, hl, ?_, hsz⟩
  rw [← h1]; exact hm

/-- a padding record is never the target of a `copypath` call -/
theorem GoodV1.nonpad {H1 : Bytes → Bytes} {filemap : FileMap} {dest : Path} {pl : Nat}
    {pieces : List Bytes} {files : List FileRec} {fs : FS} {src dst : Path}
    (h : GoodV1 H1 filemap dest (v1PieceNodes pl pieces files) fs src dst) :
    ∃ r ∈ files, r.pad = false ∧ safeJoin dest r.full = some dst := by
  obtain ⟨pp, hpp, choice, _, _, pc, hpc, _, h2, hpad⟩ := h
  exact ⟨pc.1.file, v1PieceNodes_file hpp (List.of_mem_zip hpc).1, hpad, h2⟩

theorem GoodV2.file {rootOf : Bytes → Bytes} {filemap : FileMap} {dest : Path}
    {files : List FileRec} {fs : FS} {src dst : Path}
    (h : GoodV2 rootOf filemap dest files fs src dst) :
    ∃ r ∈ files, safeJoin dest r.full = some dst ∧ ∃ cands sz,
      filemap.lookup r.filename = some cands ∧ (src, sz) ∈ cands ∧ sz = r.length := by
  obtain ⟨r, hr, cands, sz, hl, hm, hsz, _, hsj⟩ := h
  exact ⟨r, hr, hsj, cands, sz, hl, hm, hsz⟩

theorem matchV1_counted (H1 : Bytes → Bytes) (ds : Nat) (fs : FS) (filemap : FileMap) (dest : Path)
    (pl : Nat) (pieces : List Bytes) (files : List FileRec) :
    ∀ f ∈ (matchV1 H1 ds fs filemap dest pl pieces files).2,
      ∃ r ∈ files, f = r.full ∧ (safeJoin dest r.full).isSome ∧ r.pad = false := by
  intro f hf
  obtain ⟨h1, pp, hpp, pn, hpn, h2, h3⟩ := matchV1Loop_counted H1 ds filemap dest _ fs [] f hf
  exact ⟨pn.file, v1PieceNodes_file (pl := pl) (pieces := pieces) hpp hpn, h2.symm, by rw [h2]; exact h1, h3⟩

end Impl
end TorrentVerif

import TorrentVerif.Model.Recheck
import TorrentVerif.Proofs.Basic
/- Refinement lemmas for the recheck model (C04, C05, C16). -/
namespace TorrentVerif

theorem take_zeros (n m : Nat) : (zeros m).take n = zeros (min n m) := by
  simp [zeros, List.take_replicate]

theorem drop_zeros (n m : Nat) : (zeros m).drop n = zeros (m - n) := by
  simp [zeros, List.drop_replicate]

theorem zeros_ne_nil (n : Nat) (h : 0 < n) : zeros n ≠ [] := by
  intro e; have := congrArg List.length e; simp at this; omega

/-- pieces that are all exactly `pl` long, followed by anything, slice back into themselves -/
theorem chunks_flatten_full (pl : Nat) (hpl : 0 < pl) (em : List Bytes) (t : Bytes)
    (h : ∀ y ∈ em, y.length = pl) : chunks pl (em.flatten ++ t) = em ++ chunks pl t := by
  induction em with
  | nil => simp
  | cons y ys ih =>
    have hy : y.length = 1 * pl := by simpa using h y (by simp)
    rw [List.flatten_cons, List.append_assoc, chunks_append pl hpl 1 y _ hy,
      ih (fun z hz => h z (by simp [hz])), chunks_exact pl hpl y (by simpa using hy)]
    simp

/-- the `i`-th slice is the bytes `[i*pl, (i+1)*pl)` of the stream -/
theorem chunks_getElem? (pl : Nat) (hpl : 0 < pl) (s : List α) (i : Nat) :
    (chunks pl s)[i]? = if i * pl < s.length then some ((s.drop (i * pl)).take pl) else none := by
  induction i generalizing s with
  | zero =>
    by_cases hs : s = []
    · subst hs; simp [chunks_nil]
    · have : 0 < s.length := List.length_pos_iff.mpr hs
      rw [chunks_cons pl hpl s hs]; simp [this]
  | succ i ih =>
    by_cases hs : s = []
    · subst hs; simp [chunks_nil]
    · rw [chunks_cons pl hpl s hs, List.getElem?_cons_succ, ih, List.length_drop, List.drop_drop]
      have e : pl + i * pl = (i + 1) * pl := by rw [Nat.succ_mul]; omega
      rw [e]
      by_cases h : (i + 1) * pl < s.length
      · rw [if_pos h, if_pos (by rw [Nat.succ_mul] at h; omega)]
      · rw [if_neg h, if_neg (by rw [Nat.succ_mul] at h; omega)]

theorem chunks_getElem?_piece (pl : Nat) (hpl : 0 < pl) (s : Bytes) (i : Nat) :
    (chunks pl s)[i]? = if i * pl < s.length then some (pieceBytes pl s i) else none :=
  chunks_getElem? pl hpl s i

theorem pieceBytes_length (pl : Nat) (s : Bytes) (i : Nat) :
    (pieceBytes pl s i).length = min pl (s.length - i * pl) := by
  simp [pieceBytes, List.length_take, List.length_drop]

/-- two streams of equal length that differ, differ in the data of some piece -/
theorem exists_piece_ne (pl : Nat) (hpl : 0 < pl) (s s' : Bytes) (hl : s.length = s'.length)
    (hne : s ≠ s') : ∃ i, i * pl < s.length ∧ pieceBytes pl s i ≠ pieceBytes pl s' i := by
  apply Classical.byContradiction
  intro hno
  apply hne
  rw [← chunks_flatten pl hpl s, ← chunks_flatten pl hpl s']
  congr 1
  apply List.ext_getElem?
  intro i
  rw [chunks_getElem?_piece pl hpl, chunks_getElem?_piece pl hpl, ← hl]
  by_cases h : i * pl < s.length
  · rw [if_pos h, if_pos h]
    congr 1
    apply Classical.byContradiction
    intro hn
    exact hno ⟨i, h, hn⟩
  · rw [if_neg h, if_neg h]

theorem sum_length_chunks (pl : Nat) (hpl : 0 < pl) (s : Bytes) :
    ((chunks pl s).map List.length).sum = s.length := by
  rw [← List.length_flatten, chunks_flatten pl hpl]

/-- the `i`-th `n`-byte slice of a concatenation of `n`-byte digests is the `i`-th digest -/
theorem digestSlice_flatten (n : Nat) (l : List Bytes) (hl : ∀ x ∈ l, x.length = n) (i : Nat)
    (x : Bytes) (hi : l[i]? = some x) : digestSlice n l.flatten i = x := by
  induction l generalizing i with
  | nil => simp at hi
  | cons y ys ih =>
    have hy : y.length = n := hl y (by simp)
    cases i with
    | zero =>
      simp only [List.getElem?_cons_zero, Option.some.injEq] at hi
      subst hi
      simp [digestSlice, List.take_append_of_le_length (Nat.le_of_eq hy.symm),
        List.take_of_length_le (Nat.le_of_eq hy)]
    | succ i =>
      simp only [List.getElem?_cons_succ] at hi
      have := ih (fun z hz => hl z (by simp [hz])) i hi
      unfold digestSlice at this ⊢
      rw [List.flatten_cons, List.drop_append, List.drop_of_length_le (by rw [hy, Nat.mul_succ]; omega)]
      have e : n * (i + 1) - y.length = n * i := by rw [hy, Nat.mul_succ]; omega
      rw [e, List.nil_append, this]

namespace Spec

theorem zeroFill_length (e : Nat × Option Bytes) : (zeroFill e).length = e.1 := by
  simp [zeroFill, List.length_take]

theorem zeroFill_some (len : Nat) (d : Bytes) (h : d.length ≤ len) :
    zeroFill (len, some d) = d ++ zeros (len - d.length) := by
  simp only [zeroFill, Option.getD_some]
  rw [List.take_append, List.take_of_length_le h, take_zeros]
  congr 2; omega

theorem zeroFill_none (len : Nat) : zeroFill (len, none) = zeros len := by
  simp [zeroFill, take_zeros]

theorem zeroFill_exact (d : Bytes) : zeroFill (d.length, some d) = d := by
  rw [zeroFill_some _ _ (Nat.le_refl _)]; simp [zeros]

theorem flatMap_zeroFill_length (entries : List (Nat × Option Bytes)) :
    (entries.flatMap zeroFill).length = (entries.map (·.1)).sum := by
  induction entries with
  | nil => rfl
  | cons e es ih => simp [List.flatMap_cons, zeroFill_length, ih]

theorem flatMap_zeroFill_intact (data : List Bytes) :
    (data.map (fun d => (d.length, some d))).flatMap zeroFill = data.flatten := by
  induction data with
  | nil => rfl
  | cons x xs ih => simp [List.flatMap_cons, zeroFill_exact, ih]

/-- byte `k` of a zero-filled file: the byte on disk if there is one, else zero -/
theorem zeroFill_getElem? (len : Nat) (disk : Option Bytes) (k : Nat) (hk : k < len) :
    (zeroFill (len, disk))[k]? = some ((disk.getD [])[k]?.getD 0) := by
  simp only [zeroFill, List.getElem?_take, hk, if_true, List.getElem?_append]
  split
  · rename_i h; simp [List.getElem?_eq_getElem h]
  · rename_i h
    have h1 : (disk.getD [])[k]? = none := List.getElem?_eq_none (by omega)
    have h2 : (zeros len)[k - (disk.getD []).length]? = some 0 := by
      simp [zeros, List.getElem?_replicate]; omega
    rw [h1, h2]; rfl

/-- changing bytes of a file (same length) changes its zero-filled data -/
theorem zeroFill_flip_ne (len : Nat) (d d' : Bytes) (hl : d.length ≤ len)
    (hs : d'.length = d.length) (hne : d' ≠ d) :
    zeroFill (len, some d') ≠ zeroFill (len, some d) := by
  intro e
  apply hne
  apply List.ext_getElem?
  intro k
  by_cases hk : k < d.length
  · have h1 := zeroFill_getElem? len (some d) k (by omega)
    have h2 := zeroFill_getElem? len (some d') k (by omega)
    rw [e, h1] at h2
    simp only [Option.getD_some, Option.some.injEq] at h2
    rw [List.getElem?_eq_getElem hk, List.getElem?_eq_getElem (by omega : k < d'.length)] at h2 ⊢
    simp only [Option.getD_some] at h2
    rw [h2]
  · rw [List.getElem?_eq_none (by omega), List.getElem?_eq_none (by omega)]

/-- cutting off a tail that is not all zero changes the zero-filled data -/
theorem zeroFill_truncate_ne (len : Nat) (d : Bytes) (n k : Nat) (b : UInt8) (hl : d.length ≤ len)
    (hnk : n ≤ k) (hk : d[k]? = some b) (hb : b ≠ 0) :
    zeroFill (len, some (d.take n)) ≠ zeroFill (len, some d) := by
  intro e
  have hkl : k < d.length := by
    apply Classical.byContradiction; intro h
    rw [List.getElem?_eq_none (by omega)] at hk; cases hk
  have h1 := zeroFill_getElem? len (some d) k (by omega)
  have h2 := zeroFill_getElem? len (some (d.take n)) k (by omega)
  rw [e, h1] at h2
  simp only [Option.getD_some, hk, List.getElem?_take, if_neg (by omega : ¬ k < n),
    Option.getD_none, Option.some.injEq] at h2
  exact hb h2

/-- removing a file that is not all zero changes the zero-filled data -/
theorem zeroFill_remove_ne (len : Nat) (d : Bytes) (k : Nat) (b : UInt8) (hl : d.length ≤ len)
    (hk : d[k]? = some b) (hb : b ≠ 0) :
    zeroFill (len, none) ≠ zeroFill (len, some d) := by
  intro e
  have hkl : k < d.length := by
    apply Classical.byContradiction; intro h
    rw [List.getElem?_eq_none (by omega)] at hk; cases hk
  have h1 := zeroFill_getElem? len (some d) k (by omega)
  have h2 := zeroFill_getElem? len none k (by omega)
  rw [e, h1] at h2
  simp only [Option.getD_some, hk, Option.getD_none, List.getElem?_nil, Option.some.injEq] at h2
  exact hb h2

/-- replacing one file's contribution changes the stream, not its length -/
theorem stream_replace (pre post : List (Nat × Option Bytes)) (len : Nat) (x y : Option Bytes)
    (h : zeroFill (len, x) ≠ zeroFill (len, y)) :
    ((pre ++ (len, x) :: post).flatMap zeroFill).length
      = ((pre ++ (len, y) :: post).flatMap zeroFill).length ∧
    (pre ++ (len, x) :: post).flatMap zeroFill ≠ (pre ++ (len, y) :: post).flatMap zeroFill := by
  constructor
  · rw [flatMap_zeroFill_length, flatMap_zeroFill_length]; simp
  · intro e
    simp only [List.flatMap_append, List.flatMap_cons] at e
    have e1 := List.append_cancel_left e
    have := (List.append_inj e1 (by simp [zeroFill_length])).1
    exact h this

/-- sum of the sizes of the reference stream = payload length -/
theorem v1Check_sizes (H1 : Bytes → Bytes) (pl : Nat) (hpl : 0 < pl) (recorded : Bytes)
    (entries : List (Nat × Option Bytes)) :
    ((v1Check H1 pl recorded entries).map (·.2)).sum = (entries.flatMap zeroFill).length := by
  unfold v1Check
  rw [List.map_map]
  have : ((fun x : Bool × Nat => x.2) ∘ fun ci : Bytes × Nat =>
      (decide (H1 ci.1 = digestSlice 20 recorded ci.2), ci.1.length))
      = List.length ∘ Prod.fst := rfl
  rw [this, ← List.map_map, List.zipIdx_map_fst, sum_length_chunks pl hpl]

theorem ratio_cons (v : Bool × Nat) (l : List (Bool × Nat)) :
    ratio (v :: l) = ((if v.1 then v.2 else 0) + (ratio l).1, v.2 + (ratio l).2) := by
  obtain ⟨ok, size⟩ := v
  cases ok <;> simp [ratio]

theorem ratio_le (l : List (Bool × Nat)) : (ratio l).1 ≤ (ratio l).2 := by
  induction l with
  | nil => simp [ratio]
  | cons v l ih => rw [ratio_cons]; simp only; split <;> omega

/-- all pieces verify: matched = consumed -/
theorem ratio_all (l : List (Bool × Nat)) (h : ∀ v ∈ l, v.1 = true) :
    ratio l = ((l.map (·.2)).sum, (l.map (·.2)).sum) := by
  induction l with
  | nil => simp [ratio]
  | cons v l ih =>
    rw [ratio_cons, ih (fun w hw => h w (by simp [hw])), h v (by simp)]
    simp

/-- one non-empty piece fails: matched < consumed -/
theorem ratio_lt (l : List (Bool × Nat)) (v : Bool × Nat) (hv : v ∈ l) (hf : v.1 = false)
    (hs : 0 < v.2) : (ratio l).1 < (ratio l).2 := by
  induction l with
  | nil => simp at hv
  | cons w l ih =>
    rw [ratio_cons]
    have hle := ratio_le l
    simp only [List.mem_cons] at hv
    cases hv with
    | inl e => subst e; simp only [hf]; simp; omega
    | inr hm => have := ih hm; simp only; split <;> omega

end Spec

/-- toy 2-byte "digest" used by the examples of the v2 property theorems
    (`B = 2`, `hs = 2`, `bpp = 2`: 4-byte pieces) -/
def toyH : Bytes → Bytes := fun b => (b ++ zeros 2).take 2

namespace Impl

/-! ### v1 -/

theorem genPadding_spec (pl : Nat) (hpl : 0 < pl) (len : Nat) (fuel : Nat) (p : Bytes) (read : Nat)
    (hp : p.length < pl) (hr : read < len) (hf : len - read ≤ fuel) :
    genPadding pl fuel p len read = chunks pl (p ++ zeros (len - read)) := by
  induction fuel generalizing p read with
  | zero => omega
  | succ n ih =>
    unfold genPadding
    rw [if_pos hr]
    have hne : p ++ zeros (len - read) ≠ [] := by
      simp only [ne_eq, List.append_eq_nil_iff, not_and]
      intro _; exact zeros_ne_nil _ (by omega)
    by_cases hgt : len - read > pl - p.length
    · simp only [hgt, if_true]
      rw [chunks_cons pl hpl _ hne]
      have ht : (p ++ zeros (len - read)).take pl = p ++ zeros (pl - p.length) := by
        rw [List.take_append, List.take_of_length_le (by omega), take_zeros]
        congr 2; omega
      have hd : (p ++ zeros (len - read)).drop pl = zeros (len - (read + (pl - p.length))) := by
        rw [List.drop_append, List.drop_of_length_le (by omega), drop_zeros]
        simp; congr 1; omega
      rw [ht, hd, ih [] (read + (pl - p.length)) (by simpa using hpl) (by omega) (by omega)]
      simp
    · simp only [hgt, if_false]
      rw [chunks_short pl _ hne (by simp; omega)]

theorem genPadding_done (pl len fuel : Nat) (p : Bytes) (read : Nat) (h : len ≤ read) :
    genPadding pl fuel p len read = [] := by
  cases fuel with
  | zero => rfl
  | succ n => unfold genPadding; rw [if_neg (by omega)]

/-- `extract` after its read loop: `if length != read: yield from _gen_padding(...)` -/
def finish (pl len : Nat) (r : ExtractOut) : List Bytes :=
  if len ≠ r.read then r.ys ++ genPadding pl (len - r.read + 1) r.p len r.read else r.ys

theorem finish_cons (pl len : Nat) (y : Bytes) (ys : List Bytes) (p : Bytes) (read : Nat) :
    finish pl len ⟨y :: ys, p, read⟩ = y :: finish pl len ⟨ys, p, read⟩ := by
  unfold finish; split <;> simp

theorem extractLoop_short (pl len n : Nat) (rest p : Bytes) (read : Nat)
    (h : rest.length < pl - p.length) :
    extractLoop pl len (n + 1) rest p read =
      if rest.length > 0 ∧ read + rest.length = len
      then ⟨[p ++ rest], p ++ rest, read + rest.length⟩ else ⟨[], p ++ rest, read + rest.length⟩ := by
  have htake : rest.take (pl - p.length) = rest := List.take_of_length_le (by omega)
  unfold extractLoop
  simp only [htake, h, if_true]

theorem extractLoop_full (pl len n : Nat) (rest p : Bytes) (read : Nat)
    (h : pl - p.length ≤ rest.length) :
    extractLoop pl len (n + 1) rest p read =
      ⟨(p ++ rest.take (pl - p.length)) ::
          (extractLoop pl len n (rest.drop (pl - p.length)) [] (read + (pl - p.length))).ys,
        (extractLoop pl len n (rest.drop (pl - p.length)) [] (read + (pl - p.length))).p,
        (extractLoop pl len n (rest.drop (pl - p.length)) [] (read + (pl - p.length))).read⟩ := by
  have hl : (rest.take (pl - p.length)).length = pl - p.length := by
    simp [List.length_take]; omega
  conv => lhs; unfold extractLoop
  simp only [hl, Nat.lt_irrefl, if_false]

/-- the yields of `extract` (read loop followed by `_gen_padding`) for the unread suffix
    `rest`: the slices of the carried bytes followed by the rest of the file zero-filled to
    its recorded length. -/
theorem extractLoop_spec (pl : Nat) (hpl : 0 < pl) (len : Nat) (fuel : Nat) (rest p : Bytes)
    (read : Nat) (hp : p.length < pl) (hlen : read + rest.length ≤ len)
    (hside : p = [] ∨ read < len) (hf : rest.length < fuel) :
    finish pl len (extractLoop pl len fuel rest p read)
      = chunks pl (p ++ rest ++ zeros (len - read - rest.length)) := by
  induction fuel generalizing rest p read with
  | zero => omega
  | succ n ih =>
    by_cases hshort : rest.length < pl - p.length
    · -- the file ends inside this piece
      rw [extractLoop_short pl len n rest p read hshort]
      by_cases hy : rest.length > 0 ∧ read + rest.length = len
      · rw [if_pos hy]
        have hz : len - read - rest.length = 0 := by omega
        have hne : p ++ rest ≠ [] := List.ne_nil_of_length_pos (by simp; omega)
        have hfin : finish pl len ⟨[p ++ rest], p ++ rest, read + rest.length⟩ = [p ++ rest] := by
          unfold finish; rw [if_neg (by simp; omega)]
        rw [hfin, hz]; simp only [zeros, List.replicate_zero, List.append_nil]
        rw [chunks_short pl _ hne (by simp; omega)]
      · rw [if_neg hy]
        unfold finish
        simp only
        by_cases hne : len ≠ read + rest.length
        · rw [if_pos hne]
          simp only [List.nil_append]
          rw [genPadding_spec pl hpl len _ (p ++ rest) (read + rest.length) (by simp; omega)
            (by omega) (by omega)]
          congr 2; congr 1; omega
        · rw [if_neg hne]
          have he : len = read + rest.length := by omega
          have hr0 : rest = [] := by
            apply List.eq_nil_of_length_eq_zero; omega
          have hp0 : p = [] := by
            cases hside with
            | inl h => exact h
            | inr h => subst hr0; simp at he; omega
          subst hr0; subst hp0
          have : len - read - 0 = 0 := by omega
          simp [this, zeros, chunks_nil]
    · -- a full piece is read
      have hge : pl - p.length ≤ rest.length := by omega
      rw [extractLoop_full pl len n rest p read hge, finish_cons]
      have hrec := ih (rest.drop (pl - p.length)) [] (read + (pl - p.length))
        (by simpa using hpl) (by simp [List.length_drop]; omega) (Or.inl rfl)
        (by simp [List.length_drop]; omega)
      have hne : p ++ rest ++ zeros (len - read - rest.length) ≠ [] :=
        List.ne_nil_of_length_pos (by simp; omega)
      rw [chunks_cons pl hpl _ hne]
      have ht : (p ++ rest ++ zeros (len - read - rest.length)).take pl
          = p ++ rest.take (pl - p.length) := by
        rw [List.append_assoc, List.take_append, List.take_of_length_le (by omega),
          List.take_append_of_le_length hge]
      have hd : (p ++ rest ++ zeros (len - read - rest.length)).drop pl
          = [] ++ rest.drop (pl - p.length) ++
            zeros (len - (read + (pl - p.length)) - (rest.drop (pl - p.length)).length) := by
        rw [List.append_assoc, List.drop_append, List.drop_of_length_le (by omega),
          List.drop_append_of_le_length hge]
        simp only [List.nil_append, List.length_drop]
        congr 2; omega
      rw [ht, hd, ← hrec]

/-- `extract` on a file not longer than recorded, entered with a short carried piece:
    yields the slices of carried bytes ++ zero-filled file; nothing at all for an empty file,
    in which case the caller's object is unchanged. -/
theorem extract_spec (pl : Nat) (hpl : 0 < pl) (len : Nat) (disk p : Bytes)
    (hp : p.length < pl) (hd : disk.length ≤ len) :
    (0 < len → (extract pl len disk p).1 = chunks pl (p ++ Spec.zeroFill (len, some disk))) ∧
    (len = 0 → extract pl len disk p = ([], p)) := by
  have hfresh : ¬ p.length = pl := by omega
  have hz : Spec.zeroFill (len, some disk) = disk ++ zeros (len - disk.length) := by
    simp only [Spec.zeroFill, Option.getD_some]
    rw [List.take_append, List.take_of_length_le hd, take_zeros]
    congr 2; omega
  constructor
  · intro hl
    have h := extractLoop_spec pl hpl len (disk.length + 1) disk p 0 hp (by omega)
      (Or.inr hl) (by omega)
    show finish pl len (extractLoop pl len (disk.length + 1) disk
      (if p.length = pl then [] else p) 0) = _
    rw [if_neg hfresh, h, hz, List.append_assoc]
    simp
  · intro hl
    subst hl
    have : disk = [] := List.eq_nil_of_length_eq_zero (by omega)
    subst this
    unfold extract
    simp only [if_neg hfresh, List.length_nil, Nat.zero_add]
    rw [extractLoop_short pl 0 0 [] p 0 (by simp; omega)]
    simp

/-- the caller's loop over the slices of a stream: the full slices are passed on, a short
    last slice is carried. -/
theorem consume_chunks (pl : Nat) (hpl : 0 < pl) (s a : Bytes) (h : s ≠ [] ∨ a = []) :
    (∀ y ∈ (consume pl (chunks pl s) a).1, y.length = pl) ∧
    (consume pl (chunks pl s) a).2.length < pl ∧
    (consume pl (chunks pl s) a).1.flatten ++ (consume pl (chunks pl s) a).2 = s := by
  induction s using chunks.induct pl generalizing a with
  | case1 s hs =>
    have hs0 : s = [] := by
      cases hs with
      | inl h => omega
      | inr h => exact h
    subst hs0
    have ha : a = [] := by
      cases h with
      | inl h => exact absurd rfl h
      | inr h => exact h
    subst ha
    simp [chunks_nil, consume, hpl]
  | case2 s hs ih =>
    have hne : s ≠ [] := fun e => hs (Or.inr e)
    have hpos : 0 < s.length := List.length_pos_iff.mpr hne
    rw [chunks_cons pl hpl s hne]
    unfold consume
    by_cases hfull : (s.take pl).length = pl
    · rw [if_pos hfull]
      obtain ⟨h1, h2, h3⟩ := ih [] (Or.inr rfl)
      refine ⟨?_, h2, ?_⟩
      · intro y hy
        simp only [List.mem_cons] at hy
        cases hy with
        | inl e => rw [e]; exact hfull
        | inr hy => exact h1 y hy
      · simp only [List.flatten_cons, List.append_assoc]
        rw [h3, List.take_append_drop]
    · rw [if_neg hfull]
      have hlt : s.length < pl := by
        simp only [List.length_take] at hfull; omega
      have hd : s.drop pl = [] := List.drop_of_length_le (by omega)
      have ht : s.take pl = s := List.take_of_length_le (by omega)
      rw [hd, chunks_nil, ht]
      simp [consume, hlt]

/-- one file of `iter_pieces`: the full pieces yielded and the carried rest together are the
    carried bytes followed by the zero-filled file. -/
theorem feedFile_spec (pl : Nat) (hpl : 0 < pl) (p : Bytes) (e : Nat × Option Bytes)
    (hp : p.length < pl) (hd : ∀ d, e.2 = some d → d.length ≤ e.1) :
    (∀ y ∈ (feedFile pl p e).1, y.length = pl) ∧
    (feedFile pl p e).2.length < pl ∧
    (feedFile pl p e).1.flatten ++ (feedFile pl p e).2 = p ++ Spec.zeroFill e := by
  obtain ⟨len, disk⟩ := e
  by_cases hl : len = 0
  · -- a recorded-empty file yields nothing and leaves the carried piece alone
    subst hl
    have hz : Spec.zeroFill (0, disk) = [] := by simp [Spec.zeroFill]
    cases disk with
    | none =>
      simp [feedFile, genPadding, consume, hz, hp]
    | some d =>
      have := (extract_spec pl hpl 0 d p hp (hd d rfl)).2 rfl
      simp [feedFile, this, consume, hz, hp]
  · have hlen : 0 < len := by omega
    have hzne : Spec.zeroFill (len, disk) ≠ [] := by
      apply List.ne_nil_of_length_pos
      simp [Spec.zeroFill, List.length_take]; omega
    have hne : p ++ Spec.zeroFill (len, disk) ≠ [] := by simp [hzne]
    cases disk with
    | none =>
      have hg : genPadding pl (len + 1) p len 0 = chunks pl (p ++ Spec.zeroFill (len, none)) := by
        rw [genPadding_spec pl hpl len (len + 1) p 0 hp hlen (by omega)]
        simp [Spec.zeroFill, take_zeros]
      simp only [feedFile, hg]
      exact consume_chunks pl hpl _ p (Or.inl hne)
    | some d =>
      have hx := (extract_spec pl hpl len d p hp (hd d rfl)).1 hlen
      simp only [feedFile, hx]
      exact consume_chunks pl hpl _ _ (Or.inl hne)

theorem feedLoop_eq_chunks (pl : Nat) (hpl : 0 < pl) (entries : List (Nat × Option Bytes))
    (p : Bytes) (hp : p.length < pl)
    (hd : ∀ e ∈ entries, ∀ d, e.2 = some d → d.length ≤ e.1) :
    feedLoop pl p entries = chunks pl (p ++ entries.flatMap Spec.zeroFill) := by
  induction entries generalizing p with
  | nil =>
    simp only [feedLoop, List.flatMap_nil, List.append_nil]
    by_cases h0 : p = []
    · subst h0; simp [chunks_nil]
    · have : p.length ≠ 0 := by
        intro e; exact h0 (List.eq_nil_of_length_eq_zero e)
      rw [if_pos this, chunks_short pl p h0 (by omega)]
  | cons e es ih =>
    obtain ⟨h1, h2, h3⟩ := feedFile_spec pl hpl p e hp (hd e (by simp))
    simp only [feedLoop, List.flatMap_cons]
    rw [ih _ h2 (fun e' he' => hd e' (by simp [he'])), ← List.append_assoc, ← h3,
      List.append_assoc, chunks_flatten_full pl hpl _ _ h1]

/-- THE v1 refinement: the byte strings `FeedChecker.iter_pieces` produces are the
    piece-length slices of the concatenation of the zero-filled files. -/
theorem feedPieces_eq_chunks (pl : Nat) (hpl : 0 < pl) (entries : List (Nat × Option Bytes))
    (hd : ∀ e ∈ entries, ∀ d, e.2 = some d → d.length ≤ e.1) :
    feedPieces pl entries = chunks pl (entries.flatMap Spec.zeroFill) := by
  have := feedLoop_eq_chunks pl hpl entries [] (by simpa using hpl) hd
  simpa [feedPieces] using this

theorem feedCompare_eq (H1 : Bytes → Bytes) (recorded : Bytes) (k : Nat) (ps : List Bytes) :
    feedCompare H1 recorded k ps = (ps.zipIdx k).map
      (fun ci => (decide (H1 ci.1 = digestSlice 20 recorded ci.2), ci.1.length)) := by
  induction ps generalizing k with
  | nil => rfl
  | cons p ps ih => simp [feedCompare, List.zipIdx_cons, ih]

theorem iterHashesFrom_eq (acc : Nat × Nat) (l : List (Bool × Nat)) :
    iterHashesFrom acc l = (acc.1 + (Spec.ratio l).1, acc.2 + (Spec.ratio l).2) := by
  induction l generalizing acc with
  | nil => simp [iterHashesFrom, Spec.ratio]
  | cons v l ih =>
    obtain ⟨m, c⟩ := acc
    obtain ⟨ok, size⟩ := v
    rw [iterHashesFrom, ih, Spec.ratio_cons]
    cases ok <;> simp <;> omega

/-- `Checker.iter_hashes` computes (bytes in verifying pieces, bytes in all pieces) -/
theorem iterHashes_eq_ratio (l : List (Bool × Nat)) : iterHashes l = Spec.ratio l := by
  simp [iterHashes, iterHashesFrom_eq]

/-- the verdict stream of the v1 checker is the reference stream -/
theorem feedCheck_eq_v1Check (H1 : Bytes → Bytes) (pl : Nat) (hpl : 0 < pl) (recorded : Bytes)
    (entries : List (Nat × Option Bytes))
    (hd : ∀ e ∈ entries, ∀ d, e.2 = some d → d.length ≤ e.1) :
    feedCheck H1 pl recorded entries = Spec.v1Check H1 pl recorded entries := by
  unfold feedCheck Spec.v1Check
  rw [feedCompare_eq, feedPieces_eq_chunks pl hpl entries hd]

/-- verdict and size of piece `i` of the reference stream, explicitly -/
theorem v1Check_getElem? (H1 : Bytes → Bytes) (pl : Nat) (hpl : 0 < pl) (recorded : Bytes)
    (entries : List (Nat × Option Bytes)) (i : Nat) :
    (Spec.v1Check H1 pl recorded entries)[i]? =
      if i * pl < (entries.flatMap Spec.zeroFill).length then
        some (decide (H1 (pieceBytes pl (entries.flatMap Spec.zeroFill) i)
                = digestSlice 20 recorded i),
              min pl ((entries.flatMap Spec.zeroFill).length - i * pl))
      else none := by
  unfold Spec.v1Check
  rw [List.getElem?_map, List.getElem?_zipIdx, chunks_getElem?_piece pl hpl]
  split
  · simp [pieceBytes_length]
  · simp

/-! ### v2 / hybrid -/

theorem lt_cdiv_iff (k len pl : Nat) (hpl : 0 < pl) : k < cdiv len pl ↔ k * pl < len := by
  unfold cdiv
  rw [show k < (len + pl - 1) / pl ↔ k + 1 ≤ (len + pl - 1) / pl from Iff.rfl,
    Nat.le_div_iff_mul_le hpl, Nat.succ_mul]
  omega

/-- the block-reading loop of `FileHasher.__next__`: it reads the blocks of the next (at most)
    `n * B` bytes; the `end` flag is only raised when nothing is left. -/
theorem readBlocksEnd_spec (B : Nat) (hB : 0 < B) (n : Nat) (r : Bytes) :
    (readBlocksEnd B n r).1 = chunks B (r.take (n * B)) ∧
    (readBlocksEnd B n r).2.1 = r.drop (n * B) ∧
    ((readBlocksEnd B n r).2.2 = true → r.drop (n * B) = []) := by
  induction n generalizing r with
  | zero => simp [readBlocksEnd, chunks_nil]
  | succ n ih =>
    unfold readBlocksEnd
    by_cases h0 : (r.take B).length = 0
    · have hr : r = [] := by
        apply List.eq_nil_of_length_eq_zero
        simp only [List.length_take] at h0; omega
      subst hr
      simp [chunks_nil]
    · simp only [h0, if_false]
      obtain ⟨i1, i2, i3⟩ := ih (r.drop B)
      have hrne : r ≠ [] := by intro e; subst e; simp at h0
      have hpos : 0 < r.length := List.length_pos_iff.mpr hrne
      have hne : r.take ((n + 1) * B) ≠ [] := by
        apply List.ne_nil_of_length_pos
        rw [List.length_take, Nat.succ_mul]; omega
      refine ⟨?_, ?_, ?_⟩
      · rw [i1, chunks_cons B hB _ hne, List.take_take, List.drop_take]
        have e1 : min B ((n + 1) * B) = B := by rw [Nat.succ_mul]; omega
        have e2 : (n + 1) * B - B = n * B := by rw [Nat.succ_mul]; omega
        rw [e1, e2]
      · rw [i2, List.drop_drop]; congr 1; rw [Nat.succ_mul]; omega
      · intro h
        have := i3 h
        rw [List.drop_drop] at this
        rw [← this]; congr 1; rw [Nat.succ_mul]; omega

/-- the layer hashes `FileHasher` has produced after `k` pieces of the file `d` -/
def layersUpTo (H : Bytes → Bytes) (B hs bpp : Nat) (d : Bytes) (k : Nat) : List Bytes :=
  (List.range k).map (fun j => Spec.pieceHash H B hs bpp (j == 0) (pieceBytes (bpp * B) d j))

theorem layersUpTo_succ (H : Bytes → Bytes) (B hs bpp : Nat) (d : Bytes) (k : Nat) :
    layersUpTo H B hs bpp d (k + 1) = layersUpTo H B hs bpp d k ++
      [Spec.pieceHash H B hs bpp (k == 0) (pieceBytes (bpp * B) d k)] := by
  simp [layersUpTo, List.range_succ]

theorem layersUpTo_one (H : Bytes → Bytes) (B hs bpp : Nat) (d : Bytes) :
    layersUpTo H B hs bpp d 1
      = [Spec.pieceHash H B hs bpp true (pieceBytes (bpp * B) d 0)] := by
  rw [layersUpTo_succ]; rfl

theorem layersUpTo_isEmpty (H : Bytes → Bytes) (B hs bpp : Nat) (d : Bytes) (k : Nat) :
    (layersUpTo H B hs bpp d k).isEmpty = (k == 0) := by
  cases k with
  | zero => simp [layersUpTo]
  | succ k => simp [layersUpTo_succ]

/-- state of a `FileHasher` on file `d` after `k` pieces -/
structure FHInv (H : Bytes → Bytes) (B hs bpp : Nat) (d : Bytes) (k : Nat) (s : FHState) : Prop where
  rest : s.rest = d.drop (k * (bpp * B))
  layers : s.out.layers = layersUpTo H B hs bpp d k
  fin : s.fin = true →
    d.drop (k * (bpp * B)) = [] ∧ s.root = some (calcRoot H hs bpp (layersUpTo H B hs bpp d k))

theorem FHInv_init (H : Bytes → Bytes) (B hs bpp : Nat) (d : Bytes) :
    FHInv H B hs bpp d 0 ⟨d, false, ⟨[], [], none⟩, none⟩ :=
  ⟨by simp, by simp [layersUpTo], by simp⟩

theorem pieceBytes_eq_nil_iff (pl : Nat) (hpl : 0 < pl) (d : Bytes) (k : Nat) :
    pieceBytes pl d k = [] ↔ d.length ≤ k * pl := by
  rw [← List.length_eq_zero_iff, pieceBytes_length]; omega

/-- `FileHasher.__next__` while data is left: yields the merkle hash of the next piece -/
theorem fhNext_data (H H1 : Bytes → Bytes) (B hs bpp : Nat) (hB : 0 < B) (hbpp : 0 < bpp)
    (d : Bytes) (k : Nat) (s : FHState) (inv : FHInv H B hs bpp d k s)
    (hk : k * (bpp * B) < d.length) :
    (fhNext H H1 B hs bpp false s).1
      = some (Spec.pieceHash H B hs bpp (k == 0) (pieceBytes (bpp * B) d k), none) ∧
    FHInv H B hs bpp d (k + 1) (fhNext H H1 B hs bpp false s).2 := by
  have hpl : 0 < bpp * B := Nat.mul_pos hbpp hB
  have hfin : s.fin = false := by
    cases hf : s.fin with
    | false => rfl
    | true =>
      have := (inv.fin hf).1
      have := congrArg List.length this
      simp [List.length_drop] at this; omega
  obtain ⟨r1, r2, r3⟩ := readBlocksEnd_spec B hB bpp s.rest
  have hpiece : s.rest.take (bpp * B) = pieceBytes (bpp * B) d k := by rw [inv.rest]; rfl
  have hne : pieceBytes (bpp * B) d k ≠ [] := by
    intro e; have := (pieceBytes_eq_nil_iff _ hpl d k).mp e; omega
  have hbl : (readBlocksEnd B bpp s.rest).1 ≠ [] := by
    rw [r1, hpiece, chunks_cons B hB _ hne]; simp
  have hdrop : (readBlocksEnd B bpp s.rest).2.1 = d.drop ((k + 1) * (bpp * B)) := by
    rw [r2, inv.rest, List.drop_drop, Nat.succ_mul]
  unfold fhNext
  simp only [hfin, Bool.false_eq_true, if_false, hbl]
  refine ⟨?_, ?_, ?_, ?_⟩
  · simp only [Spec.pieceHash, inv.layers, layersUpTo_isEmpty, r1, hpiece]
  · exact hdrop
  · simp only [inv.layers, layersUpTo_succ, Spec.pieceHash, r1, hpiece, layersUpTo_isEmpty]
  · intro hf
    simp only at hf
    refine ⟨?_, ?_⟩
    · rw [← hdrop]; rw [r2]; exact r3 hf
    · simp only [hf, if_true, inv.layers, layersUpTo_succ, Spec.pieceHash, r1, hpiece,
        layersUpTo_isEmpty]

/-- `FileHasher.__next__` when no data is left: `StopIteration`; the root has been computed -/
theorem fhNext_done (H H1 : Bytes → Bytes) (B hs bpp : Nat) (hB : 0 < B) (hbpp : 0 < bpp)
    (d : Bytes) (k : Nat) (s : FHState) (inv : FHInv H B hs bpp d k s)
    (hk : d.length ≤ k * (bpp * B)) :
    (fhNext H H1 B hs bpp false s).1 = none ∧
    (fhNext H H1 B hs bpp false s).2.root
      = some (calcRoot H hs bpp (layersUpTo H B hs bpp d k)) ∧
    (fhNext H H1 B hs bpp false s).2.out = s.out := by
  have hpl : 0 < bpp * B := Nat.mul_pos hbpp hB
  unfold fhNext
  cases hf : s.fin with
  | true => simp [(inv.fin hf).2]
  | false =>
    obtain ⟨r1, r2, r3⟩ := readBlocksEnd_spec B hB bpp s.rest
    have hpiece : s.rest.take (bpp * B) = pieceBytes (bpp * B) d k := by rw [inv.rest]; rfl
    have hnil : pieceBytes (bpp * B) d k = [] := (pieceBytes_eq_nil_iff _ hpl d k).mpr hk
    have hbl : (readBlocksEnd B bpp s.rest).1 = [] := by
      rw [r1, hpiece, hnil, chunks_nil]
    simp [hbl, inv.layers]

theorem advance_eq (hs pl : Nat) (s : HCState) :
    advance hs pl s = ((digestSlice hs s.pieces s.count, min pl s.length),
      { s with count := s.count + 1, length := s.length - pl }) := by
  unfold advance
  split
  · rename_i h; rw [Nat.min_eq_left h]
  · rename_i h
    have h1 : min pl s.length = s.length := by omega
    have h2 : s.length - pl = 0 := by omega
    rw [h1, h2]

theorem padderNext_pos (H : Bytes → Bytes) (pl L : Nat) (hL : 0 < L) :
    padderNext H pl L = some (H (zeros (min pl L)), L - pl) := by
  unfold padderNext
  by_cases h : L ≥ pl
  · rw [if_pos h, Nat.min_eq_left h]
  · have h1 : min pl L = L := by omega
    have h2 : L - pl = 0 := by omega
    rw [if_neg h, if_pos hL, h1, h2]

theorem padderNext_zero (H : Bytes → Bytes) (pl : Nat) (hpl : 0 < pl) :
    padderNext H pl 0 = none := by
  unfold padderNext; rw [if_neg (by omega), if_neg (by omega)]

/-- `HashChecker` is about to produce piece `k` of file `f` -/
def Mode (H : Bytes → Bytes) (B hs bpp : Nat) (f : V2File) (k : Nat) (s : HCState) : Prop :=
  s.length = f.1 - k * (bpp * B) ∧ s.pieces = fPieces (bpp * B) f ∧ s.count = k ∧
  ((∃ st, s.hasher = .file st ∧ FHInv H B hs bpp (fDisk f) k st) ∨
   (s.hasher = .pad (f.1 - k * (bpp * B)) ∧ (fDisk f).length ≤ k * (bpp * B)))

theorem nextFile_mode (H : Bytes → Bytes) (B hs bpp : Nat) (f : V2File) :
    Mode H B hs bpp f 0 (nextFile (bpp * B) f) := by
  obtain ⟨len, root, layer, disk⟩ := f
  refine ⟨by simp [nextFile], by simp [nextFile, fPieces], rfl, ?_⟩
  cases disk with
  | none => right; simp [nextFile, fDisk]
  | some d => left; exact ⟨_, rfl, FHInv_init H B hs bpp d⟩

/-- one `process_current()`: piece `k` of the file gets the reference verdict, or — when all
    pieces of the recorded length are done — `StopIteration`. -/
theorem processCurrent_step (H : Bytes → Bytes) (B hs bpp : Nat) (hB : 0 < B) (hbpp : 0 < bpp)
    (hhs : 0 < hs) (f : V2File) (ok : FileOK hs (bpp * B) f) (k : Nat) (s : HCState)
    (m : Mode H B hs bpp f k s) :
    (k < cdiv f.1 (bpp * B) → ∃ layer s', processCurrent H B hs bpp s
        = (some (layer, digestSlice hs (fPieces (bpp * B) f) k, min (bpp * B) (f.1 - k * (bpp * B))), s') ∧
      (decide (layer = digestSlice hs (fPieces (bpp * B) f) k), min (bpp * B) (f.1 - k * (bpp * B)))
        = Spec.v2Verdict H B hs bpp f k ∧
      Mode H B hs bpp f (k + 1) s') ∧
    (cdiv f.1 (bpp * B) ≤ k → (processCurrent H B hs bpp s).1 = none) := by
  have hpl : 0 < bpp * B := Nat.mul_pos hbpp hB
  obtain ⟨hlen, hpcs, hcnt, hh⟩ := m
  obtain ⟨slen, spcs, scnt, shash⟩ := s
  simp only at hlen hpcs hcnt hh
  have hcnt' := hcnt.symm
  subst hlen hpcs hcnt'
  have hiff := lt_cdiv_iff k f.1 (bpp * B) hpl
  have hsub : f.1 - k * (bpp * B) - bpp * B = f.1 - (k + 1) * (bpp * B) := by
    rw [Nat.succ_mul]; omega
  cases hh with
  | inl hfile =>
    obtain ⟨st, hst, inv⟩ := hfile
    subst hst
    by_cases hdata : k * (bpp * B) < (fDisk f).length
    · -- the hasher yields the merkle hash of piece k
      obtain ⟨h1, inv'⟩ := fhNext_data H (fun _ => []) B hs bpp hB hbpp _ k st inv hdata
      have hkn : k < cdiv f.1 (bpp * B) := hiff.mpr (by have := ok.notLonger; omega)
      refine ⟨fun _ => ?_, fun h => by omega⟩
      refine ⟨Spec.pieceHash H B hs bpp (k == 0) (pieceBytes (bpp * B) (fDisk f) k),
        { length := f.1 - k * (bpp * B) - bpp * B, pieces := fPieces (bpp * B) f, count := k + 1,
          hasher := .file (fhNext H (fun _ => []) B hs bpp false st).2 }, ?_, ?_, ?_⟩
      · simp only [processCurrent, hasherNext, h1, Option.map_some, advance_eq]
      · simp only [Spec.v2Verdict, fDisk, fPieces] at hdata ⊢
        rw [if_pos hdata]
      · refine ⟨by simp only [hsub], rfl, rfl, Or.inl ⟨_, rfl, inv'⟩⟩
    · -- the hasher is exhausted
      have hle : (fDisk f).length ≤ k * (bpp * B) := by omega
      obtain ⟨h1, _, _⟩ := fhNext_done H (fun _ => []) B hs bpp hB hbpp _ k st inv hle
      refine ⟨fun hkn => ?_, fun hkn => ?_⟩
      · have hL : 0 < f.1 - k * (bpp * B) := by have := hiff.mp hkn; omega
        have hcnt : k * hs < (fPieces (bpp * B) f).length := by
          have h2 := ok.layerLen
          have : hs * (k + 1) ≤ hs * cdiv f.1 (bpp * B) := Nat.mul_le_mul_left hs hkn
          rw [Nat.mul_succ, Nat.mul_comm hs k] at this
          omega
        refine ⟨H (zeros (min (bpp * B) (f.1 - k * (bpp * B)))),
          { length := f.1 - k * (bpp * B) - bpp * B, pieces := fPieces (bpp * B) f, count := k + 1,
            hasher := .pad (f.1 - k * (bpp * B) - bpp * B) }, ?_, ?_, ?_⟩
        · simp only [processCurrent, hasherNext, h1, Option.map_none, hL, hcnt, and_self, if_true,
            padderNext_pos H _ _ hL, advance_eq]
        · simp only [Spec.v2Verdict, fDisk, fPieces] at hdata ⊢
          rw [if_neg hdata]
        · refine ⟨by simp only [hsub], rfl, rfl, Or.inr ⟨by simp only [hsub], ?_⟩⟩
          rw [Nat.succ_mul]; omega
      · have hL : ¬ (0 < f.1 - k * (bpp * B)) := by
          have : ¬ k * (bpp * B) < f.1 := fun h => by have := hiff.mpr h; omega
          omega
        simp [processCurrent, hasherNext, h1, hL]
  | inr hpad =>
    obtain ⟨hst, hle⟩ := hpad
    subst hst
    have hdata : ¬ k * (bpp * B) < (fDisk f).length := by omega
    refine ⟨fun hkn => ?_, fun hkn => ?_⟩
    · have hL : 0 < f.1 - k * (bpp * B) := by have := hiff.mp hkn; omega
      refine ⟨H (zeros (min (bpp * B) (f.1 - k * (bpp * B)))),
        { length := f.1 - k * (bpp * B) - bpp * B, pieces := fPieces (bpp * B) f, count := k + 1,
          hasher := .pad (f.1 - k * (bpp * B) - bpp * B) }, ?_, ?_, ?_⟩
      · simp only [processCurrent, hasherNext, padderNext_pos H _ _ hL, advance_eq]
      · simp only [Spec.v2Verdict, fDisk, fPieces] at hdata ⊢
        rw [if_neg hdata]
      · refine ⟨by simp only [hsub], rfl, rfl, Or.inr ⟨by simp only [hsub], ?_⟩⟩
        rw [Nat.succ_mul]; omega
    · have hL : f.1 - k * (bpp * B) = 0 := by
        have : ¬ k * (bpp * B) < f.1 := fun h => by have := hiff.mpr h; omega
        omega
      simp [processCurrent, hasherNext, hL, padderNext_zero H _ hpl]

/-- `next_file()` after a `StopIteration`: the rest of the iteration -/
def handOver (H : Bytes → Bytes) (B hs bpp : Nat) (fuel : Nat) (rest : List V2File) :
    List (Bool × Nat) :=
  match rest with
  | [] => []
  | g :: gs => hcLoop H B hs bpp fuel (nextFile (bpp * B) g) gs

theorem hcLoop_succ (H : Bytes → Bytes) (B hs bpp : Nat) (fuel : Nat) (s : HCState)
    (rest : List V2File) :
    hcLoop H B hs bpp (fuel + 1) s rest =
      match processCurrent H B hs bpp s with
      | (some (layer, piece, size), s') =>
        (decide (layer = piece), size) :: hcLoop H B hs bpp fuel s' rest
      | (none, _) => handOver H B hs bpp fuel rest := by
  conv => lhs; unfold hcLoop
  unfold handOver
  rfl

/-- the rounds spent inside one file: the reference verdicts of its remaining pieces, then
    the hand-over -/
theorem hcLoop_file (H : Bytes → Bytes) (B hs bpp : Nat) (hB : 0 < B) (hbpp : 0 < bpp)
    (hhs : 0 < hs) (f : V2File) (ok : FileOK hs (bpp * B) f) (rest : List V2File)
    (cont : List (Bool × Nat)) (need : Nat)
    (hcont : ∀ fuel, need ≤ fuel → handOver H B hs bpp fuel rest = cont) :
    ∀ (j k : Nat) (s : HCState) (fuel : Nat), cdiv f.1 (bpp * B) - k = j →
      Mode H B hs bpp f k s → j + 1 + need ≤ fuel →
      hcLoop H B hs bpp fuel s rest
        = (List.range' k j).map (Spec.v2Verdict H B hs bpp f) ++ cont := by
  intro j
  induction j with
  | zero =>
    intro k s fuel hj m hf
    obtain ⟨fuel', rfl⟩ : ∃ n, fuel = n + 1 := ⟨fuel - 1, by omega⟩
    have hnone := (processCurrent_step H B hs bpp hB hbpp hhs f ok k s m).2 (by omega)
    rw [hcLoop_succ]
    generalize processCurrent H B hs bpp s = r at hnone
    obtain ⟨r1, r2⟩ := r
    simp only at hnone
    subst hnone
    simp only [List.range'_zero, List.map_nil, List.nil_append]
    exact hcont fuel' (by omega)
  | succ j ih =>
    intro k s fuel hj m hf
    obtain ⟨fuel', rfl⟩ : ∃ n, fuel = n + 1 := ⟨fuel - 1, by omega⟩
    obtain ⟨layer, s', heq, hv, m'⟩ :=
      (processCurrent_step H B hs bpp hB hbpp hhs f ok k s m).1 (by omega)
    rw [hcLoop_succ, heq]
    simp only
    rw [hv, ih (k + 1) s' fuel' (by omega) m' (by omega), List.range'_succ]
    simp

/-- rounds the iteration needs for a list of files -/
def hcNeed (pl : Nat) (files : List V2File) : Nat := (files.map (fun f => cdiv f.1 pl + 1)).sum

theorem hcLoop_spec (H : Bytes → Bytes) (B hs bpp : Nat) (hB : 0 < B) (hbpp : 0 < bpp)
    (hhs : 0 < hs) (rest : List V2File) :
    ∀ (f : V2File) (fuel : Nat), FileOK hs (bpp * B) f →
      (∀ g ∈ rest, FileOK hs (bpp * B) g) →
      cdiv f.1 (bpp * B) + 1 + hcNeed (bpp * B) rest ≤ fuel →
      hcLoop H B hs bpp fuel (nextFile (bpp * B) f) rest
        = Spec.v2Check H B hs bpp (f :: rest) := by
  induction rest with
  | nil =>
    intro f fuel ok _ hf
    have := hcLoop_file H B hs bpp hB hbpp hhs f ok [] [] 0 (fun _ _ => rfl)
      (cdiv f.1 (bpp * B)) 0 _ fuel (by omega) (nextFile_mode H B hs bpp f)
      (by simp [hcNeed] at hf; omega)
    rw [this]
    simp [Spec.v2Check, Spec.v2File, List.range_eq_range']
  | cons g gs ih =>
    intro f fuel ok hrest hf
    have hneed : hcNeed (bpp * B) (g :: gs) = cdiv g.1 (bpp * B) + 1 + hcNeed (bpp * B) gs := by
      simp [hcNeed]
    have := hcLoop_file H B hs bpp hB hbpp hhs f ok (g :: gs) (Spec.v2Check H B hs bpp (g :: gs))
      (hcNeed (bpp * B) (g :: gs))
      (fun fuel' hf' => ih g fuel' (hrest g (by simp)) (fun x hx => hrest x (by simp [hx]))
        (by omega))
      (cdiv f.1 (bpp * B)) 0 _ fuel (by omega) (nextFile_mode H B hs bpp f) (by omega)
    rw [this]
    simp [Spec.v2Check, Spec.v2File, List.range_eq_range']

theorem cdiv_le_self (len pl : Nat) (hpl : 0 < pl) : cdiv len pl ≤ len := by
  unfold cdiv
  apply Nat.le_of_lt_succ
  rw [Nat.div_lt_iff_lt_mul hpl, Nat.succ_mul]
  have := Nat.le_mul_of_pos_right len hpl
  omega

theorem hcNeed_le_fuel (pl : Nat) (hpl : 0 < pl) (files : List V2File) :
    hcNeed pl files + 1 ≤ hcFuel files := by
  unfold hcFuel
  suffices h : hcNeed pl files ≤ (files.map (fun f => f.1 + (f.2.2.2.getD []).length + 2)).sum by omega
  induction files with
  | nil => simp [hcNeed]
  | cons f fs ih =>
    have := cdiv_le_self f.1 pl hpl
    simp only [hcNeed, List.map_cons, List.sum_cons] at ih ⊢
    omega

/-- THE v2 / hybrid refinement: the verdict stream of `HashChecker` is the reference stream -/
theorem hashCheck_eq_v2Check (H : Bytes → Bytes) (B hs bpp : Nat) (hB : 0 < B) (hbpp : 0 < bpp)
    (hhs : 0 < hs) (files : List V2File) (hok : ∀ f ∈ files, FileOK hs (bpp * B) f) :
    hashCheck H B hs bpp files = Spec.v2Check H B hs bpp files := by
  cases files with
  | nil => rfl
  | cons f fs =>
    unfold hashCheck
    apply hcLoop_spec H B hs bpp hB hbpp hhs fs f _ (hok f (by simp))
      (fun g hg => hok g (by simp [hg]))
    have := hcNeed_le_fuel (bpp * B) (Nat.mul_pos hbpp hB) (f :: fs)
    simp only [hcNeed, List.map_cons, List.sum_cons] at this ⊢
    omega

/-! ### shape of the v2 reference stream -/

theorem v2File_length (H : Bytes → Bytes) (B hs bpp : Nat) (f : V2File) :
    (Spec.v2File H B hs bpp f).length = cdiv f.1 (bpp * B) := by
  simp [Spec.v2File]

theorem v2File_getElem? (H : Bytes → Bytes) (B hs bpp : Nat) (f : V2File) (k : Nat)
    (hk : k < cdiv f.1 (bpp * B)) :
    (Spec.v2File H B hs bpp f)[k]? = some (Spec.v2Verdict H B hs bpp f k) := by
  simp [Spec.v2File, List.getElem?_map, List.getElem?_range hk]

theorem v2Check_length (H : Bytes → Bytes) (B hs bpp : Nat) (files : List V2File) :
    (Spec.v2Check H B hs bpp files).length = (files.map (fun g => cdiv g.1 (bpp * B))).sum := by
  induction files with
  | nil => rfl
  | cons f fs ih =>
    simp only [Spec.v2Check, List.flatMap_cons, List.length_append, v2File_length, List.map_cons,
      List.sum_cons] at ih ⊢
    rw [ih]

/-- the verdict on piece `k` of a file sits after the verdicts of all earlier files -/
theorem v2Check_getElem? (H : Bytes → Bytes) (B hs bpp : Nat) (pre post : List V2File)
    (f : V2File) (k : Nat) (hk : k < cdiv f.1 (bpp * B)) :
    (Spec.v2Check H B hs bpp (pre ++ f :: post))[(pre.map (fun g => cdiv g.1 (bpp * B))).sum + k]?
      = some (Spec.v2Verdict H B hs bpp f k) := by
  have hl := v2Check_length H B hs bpp pre
  simp only [Spec.v2Check] at hl ⊢
  rw [List.flatMap_append, List.flatMap_cons, ← hl, List.getElem?_append_right (by omega)]
  have : (pre.flatMap (Spec.v2File H B hs bpp)).length + k
      - (pre.flatMap (Spec.v2File H B hs bpp)).length = k := by omega
  rw [this, List.getElem?_append_left (by rw [v2File_length]; exact hk)]
  exact v2File_getElem? H B hs bpp f k hk

theorem piece_sizes_sum (pl : Nat) (hpl : 0 < pl) (len : Nat) :
    ((List.range (cdiv len pl)).map (fun k => min pl (len - k * pl))).sum = len := by
  have h : (List.range (cdiv len pl)).map (fun k => min pl (len - k * pl))
      = (chunks pl (zeros len)).map List.length := by
    apply List.ext_getElem?
    intro i
    rw [List.getElem?_map, List.getElem?_map, chunks_getElem?_piece pl hpl, zeros_length]
    by_cases hi : i * pl < len
    · have := (lt_cdiv_iff i len pl hpl).mpr hi
      rw [List.getElem?_range this, if_pos hi]
      simp [pieceBytes_length]
    · have : ¬ i < cdiv len pl := fun h => hi ((lt_cdiv_iff i len pl hpl).mp h)
      rw [List.getElem?_eq_none (by simp; omega), if_neg hi]
      rfl
  rw [h, sum_length_chunks pl hpl, zeros_length]

theorem v2File_sizes (H : Bytes → Bytes) (B hs bpp : Nat) (hpl : 0 < bpp * B) (f : V2File) :
    ((Spec.v2File H B hs bpp f).map (·.2)).sum = f.1 := by
  have := piece_sizes_sum (bpp * B) hpl f.1
  simp only [Spec.v2File, List.map_map]
  exact this

theorem v2Check_sizes (H : Bytes → Bytes) (B hs bpp : Nat) (hpl : 0 < bpp * B)
    (files : List V2File) :
    ((Spec.v2Check H B hs bpp files).map (·.2)).sum = (files.map (·.1)).sum := by
  induction files with
  | nil => rfl
  | cons f fs ih =>
    simp only [Spec.v2Check, List.flatMap_cons, List.map_append, List.sum_append, List.map_cons,
      List.sum_cons] at ih ⊢
    rw [ih, v2File_sizes H B hs bpp hpl]

/-- the reference verdict on piece `k` reads, of the on-disk data, the bytes of piece `k` only -/
theorem v2Verdict_local (H : Bytes → Bytes) (B hs bpp : Nat) (hpl : 0 < bpp * B) (f f' : V2File)
    (k : Nat) (h1 : f.1 = f'.1) (h2 : f.2.1 = f'.2.1) (h3 : f.2.2.1 = f'.2.2.1)
    (hsame : pieceBytes (bpp * B) (fDisk f) k = pieceBytes (bpp * B) (fDisk f') k) :
    Spec.v2Verdict H B hs bpp f k = Spec.v2Verdict H B hs bpp f' k := by
  have hiff : k * (bpp * B) < (fDisk f).length ↔ k * (bpp * B) < (fDisk f').length := by
    have a := pieceBytes_eq_nil_iff (bpp * B) hpl (fDisk f) k
    have b := pieceBytes_eq_nil_iff (bpp * B) hpl (fDisk f') k
    rw [hsame] at a
    constructor
    · intro h; apply Classical.byContradiction; intro hn
      have := a.mp (b.mpr (by omega)); omega
    · intro h; apply Classical.byContradiction; intro hn
      have := b.mp (a.mpr (by omega)); omega
  simp only [Spec.v2Verdict, fDisk] at hsame hiff ⊢
  rw [h1, h2, h3, hsame]
  by_cases h : k * (bpp * B) < (f.2.2.2.getD []).length
  · rw [if_pos h, if_pos (hiff.mp h)]
  · rw [if_neg h, if_neg (fun h' => h (hiff.mpr h'))]

/-! ### what `FileHasher` records for an intact file (for C05) -/

theorem mem_pairUp (H : Bytes → Bytes) (l : List Bytes) : ∀ z ∈ pairUp H l, ∃ b, z = H b := by
  induction l using pairUp.induct with
  | case1 x y t ih =>
    intro z hz
    simp only [pairUp, List.mem_cons] at hz
    cases hz with
    | inl h => exact ⟨_, h⟩
    | inr h => exact ih z h
  | case2 l h =>
    intro z hz
    match l, h with
    | [], _ => simp [pairUp] at hz
    | [x], _ => simp [pairUp] at hz
    | x :: y :: t, h => exact absurd rfl (h x y t)

/-- the merkle root of a non-empty list of digests is a digest -/
theorem merkleIter_length (H : Bytes → Bytes) (hs : Nat) (hH : ∀ b, (H b).length = hs)
    (l : List Bytes) (hne : l ≠ []) (hl : ∀ x ∈ l, x.length = hs) :
    ∃ y, merkleIter H l = some y ∧ y.length = hs := by
  induction l using merkleIter.induct H with
  | case1 l hlt ih =>
    rw [merkleIter, dif_pos hlt]
    apply ih
    · apply List.ne_nil_of_length_pos; rw [pairUp_length]; omega
    · intro x hx
      obtain ⟨b, rfl⟩ := mem_pairUp H l x hx
      exact hH b
  | case2 l hlt =>
    rw [merkleIter, dif_neg hlt]
    match l, hne with
    | x :: t, _ => exact ⟨x, rfl, hl x (by simp)⟩

theorem pieceHash_length (H : Bytes → Bytes) (B hs bpp : Nat) (hB : 0 < B)
    (hH : ∀ b, (H b).length = hs) (first : Bool) (piece : Bytes) (hne : piece ≠ []) :
    (Spec.pieceHash H B hs bpp first piece).length = hs := by
  have hbl : (chunks B piece).map H ≠ [] := by rw [chunks_cons B hB _ hne]; simp
  have hall : ∀ x ∈ (chunks B piece).map H, x.length = hs := by
    intro x hx; obtain ⟨c, _, rfl⟩ := List.mem_map.mp hx; exact hH c
  have hpad : padBlocks hs bpp first ((chunks B piece).map H) ≠ [] ∧
      ∀ x ∈ padBlocks hs bpp first ((chunks B piece).map H), x.length = hs := by
    unfold padBlocks
    split
    · exact ⟨hbl, hall⟩
    · refine ⟨by simp [hbl], ?_⟩
      intro x hx
      simp only [List.mem_append, List.mem_replicate] at hx
      cases hx with
      | inl h => exact hall x h
      | inr h => rw [h.2]; simp
  obtain ⟨y, hy, hyl⟩ := merkleIter_length H hs hH _ hpad.1 hpad.2
  simp [Spec.pieceHash, merkleRoot, hy, hyl]

theorem layersUpTo_length (H : Bytes → Bytes) (B hs bpp : Nat) (d : Bytes) (k : Nat) :
    (layersUpTo H B hs bpp d k).length = k := by simp [layersUpTo]

theorem layersUpTo_getElem? (H : Bytes → Bytes) (B hs bpp : Nat) (d : Bytes) (n k : Nat)
    (hk : k < n) : (layersUpTo H B hs bpp d n)[k]?
      = some (Spec.pieceHash H B hs bpp (k == 0) (pieceBytes (bpp * B) d k)) := by
  simp [layersUpTo, List.getElem?_map, List.getElem?_range hk]

theorem layersUpTo_all_length (H : Bytes → Bytes) (B hs bpp : Nat) (hB : 0 < B) (hbpp : 0 < bpp)
    (hH : ∀ b, (H b).length = hs) (d : Bytes) :
    ∀ x ∈ layersUpTo H B hs bpp d (cdiv d.length (bpp * B)), x.length = hs := by
  have hpl : 0 < bpp * B := Nat.mul_pos hbpp hB
  intro x hx
  simp only [layersUpTo, List.mem_map, List.mem_range] at hx
  obtain ⟨j, hj, rfl⟩ := hx
  apply pieceHash_length H B hs bpp hB hH
  intro e
  have := (pieceBytes_eq_nil_iff _ hpl d j).mp e
  have := (lt_cdiv_iff j d.length _ hpl).mp hj
  omega

theorem flatten_length_all (hs : Nat) (l : List Bytes) (h : ∀ x ∈ l, x.length = hs) :
    l.flatten.length = hs * l.length := by
  induction l with
  | nil => simp
  | cons x xs ih =>
    rw [List.flatten_cons, List.length_append, h x (by simp), ih (fun y hy => h y (by simp [hy])),
      List.length_cons, Nat.mul_succ]
    omega

/-- draining a `FileHasher` from piece `k` on -/
theorem fhDrain_spec (H H1 : Bytes → Bytes) (B hs bpp : Nat) (hB : 0 < B) (hbpp : 0 < bpp)
    (d : Bytes) :
    ∀ (j k : Nat) (s : FHState) (fuel : Nat), cdiv d.length (bpp * B) - k = j →
      k ≤ cdiv d.length (bpp * B) → FHInv H B hs bpp d k s → j + 1 ≤ fuel →
      (fhDrain H H1 B hs bpp false fuel s).1
        = (List.range' k j).map (fun i =>
            (Spec.pieceHash H B hs bpp (i == 0) (pieceBytes (bpp * B) d i), none)) ∧
      (fhDrain H H1 B hs bpp false fuel s).2.root
        = some (calcRoot H hs bpp (layersUpTo H B hs bpp d (cdiv d.length (bpp * B)))) := by
  have hpl : 0 < bpp * B := Nat.mul_pos hbpp hB
  intro j
  induction j with
  | zero =>
    intro k s fuel hj hkn inv hf
    obtain ⟨fuel', rfl⟩ : ∃ n, fuel = n + 1 := ⟨fuel - 1, by omega⟩
    have hk : k = cdiv d.length (bpp * B) := by omega
    have hle : d.length ≤ k * (bpp * B) := by
      apply Classical.byContradiction; intro h
      have := (lt_cdiv_iff k d.length _ hpl).mpr (by omega); omega
    obtain ⟨h1, h2, _⟩ := fhNext_done H H1 B hs bpp hB hbpp d k s inv hle
    unfold fhDrain
    generalize fhNext H H1 B hs bpp false s = r at h1 h2
    obtain ⟨r1, r2⟩ := r
    simp only at h1 h2
    subst h1
    simp [h2, hk]
  | succ j ih =>
    intro k s fuel hj hkn inv hf
    obtain ⟨fuel', rfl⟩ : ∃ n, fuel = n + 1 := ⟨fuel - 1, by omega⟩
    have hlt : k * (bpp * B) < d.length := (lt_cdiv_iff k d.length _ hpl).mp (by omega)
    obtain ⟨h1, inv'⟩ := fhNext_data H H1 B hs bpp hB hbpp d k s inv hlt
    unfold fhDrain
    generalize fhNext H H1 B hs bpp false s = r at h1 inv'
    obtain ⟨r1, r2⟩ := r
    simp only at h1 inv'
    subst h1
    obtain ⟨i1, i2⟩ := ih (k + 1) r2 fuel' (by omega) (by omega) inv' (by omega)
    simp only [i1, i2, List.range'_succ, List.map_cons, and_self]

/-- what `FileHasher(path, piece_length)` reports for a file: `root` is the root over the
    per-piece merkle hashes, the piece layer is their concatenation -/
theorem fileHasher_spec (H H1 : Bytes → Bytes) (B hs bpp : Nat) (hB : 0 < B) (hbpp : 0 < bpp)
    (d : Bytes) :
    (fileHasher H H1 B hs bpp false d).1
      = (calcRoot H hs bpp (layersUpTo H B hs bpp d (cdiv d.length (bpp * B)))).1 ∧
    (fileHasher H H1 B hs bpp false d).2.1
      = (layersUpTo H B hs bpp d (cdiv d.length (bpp * B))).flatten := by
  have hpl : 0 < bpp * B := Nat.mul_pos hbpp hB
  obtain ⟨h1, h2⟩ := fhDrain_spec H H1 B hs bpp hB hbpp d (cdiv d.length (bpp * B)) 0
    ⟨d, false, ⟨[], [], none⟩, none⟩ (d.length + 2) (by omega) (by omega)
    (FHInv_init H B hs bpp d) (by have := cdiv_le_self d.length _ hpl; omega)
  unfold fileHasher
  simp only [h1, h2, Option.getD_some, List.map_map]
  refine ⟨trivial, ?_⟩
  simp [layersUpTo, List.range_eq_range', Function.comp_def]

/-- a file of at most one piece: the recorded root is the hash of its only piece -/
theorem calcRoot_single (H : Bytes → Bytes) (hs bpp : Nat) (x : Bytes) :
    (calcRoot H hs bpp [x]).1 = x := by
  simp [calcRoot, merkleRoot, merkleIter]

/-- the metafile entry `FileHasher` produces for the file `d` -/
def intactFile (H H1 : Bytes → Bytes) (B hs bpp : Nat) (d : Bytes) : V2File :=
  (d.length, (fileHasher H H1 B hs bpp false d).1, (fileHasher H H1 B hs bpp false d).2.1, some d)

theorem cdiv_le_one (len pl : Nat) (hpl : 0 < pl) (h : len ≤ pl) : cdiv len pl ≤ 1 := by
  apply Classical.byContradiction; intro hn
  have := (lt_cdiv_iff 1 len pl hpl).mp (by omega)
  omega

theorem fPieces_intact (H H1 : Bytes → Bytes) (B hs bpp : Nat) (hB : 0 < B) (hbpp : 0 < bpp)
    (d : Bytes) :
    fPieces (bpp * B) (intactFile H H1 B hs bpp d) =
      if d.length > bpp * B then (layersUpTo H B hs bpp d (cdiv d.length (bpp * B))).flatten
      else (calcRoot H hs bpp (layersUpTo H B hs bpp d (cdiv d.length (bpp * B)))).1 := by
  obtain ⟨h1, h2⟩ := fileHasher_spec H H1 B hs bpp hB hbpp d
  simp only [fPieces, intactFile, h1, h2]

/-- an intact file with the entry `FileHasher` records is in scope, and each of its pieces
    verifies -/
theorem intactFile_ok (H H1 : Bytes → Bytes) (B hs bpp : Nat) (hB : 0 < B) (hbpp : 0 < bpp)
    (hH : ∀ b, (H b).length = hs) (d : Bytes) :
    FileOK hs (bpp * B) (intactFile H H1 B hs bpp d) ∧
    (∀ k, k < cdiv d.length (bpp * B) →
      (Spec.v2Verdict H B hs bpp (intactFile H H1 B hs bpp d) k).1 = true) ∧
    (∀ k, k < cdiv d.length (bpp * B) →
      digestSlice hs (fPieces (bpp * B) (intactFile H H1 B hs bpp d)) k
        = Spec.pieceHash H B hs bpp (k == 0) (pieceBytes (bpp * B) d k)) := by
  have hpl : 0 < bpp * B := Nat.mul_pos hbpp hB
  have hall := layersUpTo_all_length H B hs bpp hB hbpp hH d
  have hpcs := fPieces_intact H H1 B hs bpp hB hbpp d
  -- slice k of the recorded string is the hash of piece k
  have hslice : ∀ k, k < cdiv d.length (bpp * B) →
      digestSlice hs (fPieces (bpp * B) (intactFile H H1 B hs bpp d)) k
        = Spec.pieceHash H B hs bpp (k == 0) (pieceBytes (bpp * B) d k) := by
    intro k hk
    rw [hpcs]
    by_cases hbig : d.length > bpp * B
    · rw [if_pos hbig]
      exact digestSlice_flatten hs _ hall k _ (layersUpTo_getElem? H B hs bpp d _ k hk)
    · rw [if_neg hbig]
      have hn1 := cdiv_le_one d.length _ hpl (by omega)
      have hn : cdiv d.length (bpp * B) = 1 := by omega
      have hk0 : k = 0 := by omega
      subst hk0
      have hl1 := layersUpTo_one H B hs bpp d
      rw [hn, hl1, calcRoot_single]
      have hlen := hall (Spec.pieceHash H B hs bpp true (pieceBytes (bpp * B) d 0)) (by rw [hn, hl1]; simp)
      simp [digestSlice, List.take_of_length_le (Nat.le_of_eq hlen)]
  refine ⟨⟨by simp [intactFile, fDisk], ?_⟩, ?_, hslice⟩
  · show hs * cdiv d.length (bpp * B) ≤ _
    rw [hpcs]
    by_cases hbig : d.length > bpp * B
    · rw [if_pos hbig, flatten_length_all hs _ hall, layersUpTo_length]
      exact Nat.le_refl _
    · rw [if_neg hbig]
      have hn1 := cdiv_le_one d.length _ hpl (by omega)
      by_cases h0 : cdiv d.length (bpp * B) = 0
      · rw [h0]; simp
      · have hn : cdiv d.length (bpp * B) = 1 := by omega
        have hl1 := layersUpTo_one H B hs bpp d
        have hlen := hall (Spec.pieceHash H B hs bpp true (pieceBytes (bpp * B) d 0)) (by rw [hn, hl1]; simp)
        rw [hn, hl1, calcRoot_single, hlen]; omega
  · intro k hk
    have hdata : k * (bpp * B) < d.length := (lt_cdiv_iff k d.length _ hpl).mp hk
    have := hslice k hk
    simp only [Spec.v2Verdict, decide_eq_true_eq]
    simp only [fPieces] at this
    rw [this]
    simp only [intactFile, Option.getD_some]
    simp [hdata]

/-- all files intact, metafile as `FileHasher` records it: every verdict of the reference
    stream is positive -/
theorem v2Check_intact_all (H H1 : Bytes → Bytes) (B hs bpp : Nat) (hB : 0 < B) (hbpp : 0 < bpp)
    (hH : ∀ b, (H b).length = hs) (data : List Bytes) :
    ∀ v ∈ Spec.v2Check H B hs bpp (data.map (intactFile H H1 B hs bpp)), v.1 = true := by
  intro v hv
  simp only [Spec.v2Check, List.mem_flatMap, List.mem_map] at hv
  obtain ⟨f, ⟨d, _, rfl⟩, hvf⟩ := hv
  simp only [Spec.v2File, List.mem_map, List.mem_range] at hvf
  obtain ⟨k, hk, rfl⟩ := hvf
  exact (intactFile_ok H H1 B hs bpp hB hbpp hH d).2.1 k hk

/-- a damaged copy of the file `d` under the metafile entry `FileHasher` records for `d` -/
def damagedFile (H H1 : Bytes → Bytes) (B hs bpp : Nat) (d : Bytes) (disk : Option Bytes) : V2File :=
  (d.length, (fileHasher H H1 B hs bpp false d).1, (fileHasher H H1 B hs bpp false d).2.1, disk)

/-- a damaged copy (not longer than the original) is in scope; where the on-disk bytes of a
    piece differ from the described ones and the digest does not collide, the verdict is
    negative -/
theorem damagedFile_verdict (H H1 : Bytes → Bytes) (B hs bpp : Nat) (hB : 0 < B) (hbpp : 0 < bpp)
    (hH : ∀ b, (H b).length = hs) (d : Bytes) (disk : Option Bytes)
    (hlen : (disk.getD []).length ≤ d.length) :
    FileOK hs (bpp * B) (damagedFile H H1 B hs bpp d disk) ∧
    ∀ k, k < cdiv d.length (bpp * B) →
      (if k * (bpp * B) < (disk.getD []).length
        then Spec.pieceHash H B hs bpp (k == 0) (pieceBytes (bpp * B) (disk.getD []) k)
        else H (zeros (min (bpp * B) (d.length - k * (bpp * B)))))
        ≠ Spec.pieceHash H B hs bpp (k == 0) (pieceBytes (bpp * B) d k) →
      (Spec.v2Verdict H B hs bpp (damagedFile H H1 B hs bpp d disk) k).1 = false := by
  obtain ⟨ok, _, hslice⟩ := intactFile_ok H H1 B hs bpp hB hbpp hH d
  refine ⟨⟨hlen, ok.layerLen⟩, ?_⟩
  intro k hk hne
  have hs' := hslice k hk
  simp only [Spec.v2Verdict, decide_eq_false_iff_not]
  simp only [fPieces, intactFile] at hs'
  intro heq
  exact hne (heq.trans hs')

end Impl
end TorrentVerif

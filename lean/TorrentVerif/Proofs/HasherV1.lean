import TorrentVerif.Model.HasherV1
import TorrentVerif.Proofs.Basic
/- Refinement of the v1 hasher iterator to piece slicing of the concatenated stream. -/
namespace TorrentVerif.Impl
open TorrentVerif

theorem fill_spec (pl : Nat) (arr : Bytes) (rest : List Bytes) (h : arr.length < pl) :
    (fill pl arr rest).1 = arr ++ rest.flatten.take (pl - arr.length) ∧
    (fill pl arr rest).2.1 ++ (fill pl arr rest).2.2.flatten = rest.flatten.drop (pl - arr.length) := by
  induction rest generalizing arr with
  | nil => simp [fill]
  | cons f fs ih =>
    simp only [fill]
    split
    · rename_i hg
      simp only [List.length_take] at hg
      have hle : pl - arr.length ≤ f.length := by omega
      simp [List.flatten_cons, List.take_append_of_le_length hle, List.drop_append_of_le_length hle]
    · rename_i hg
      simp only [List.length_take] at hg
      have hlt : f.length < pl - arr.length := by omega
      have htake : f.take (pl - arr.length) = f := List.take_of_length_le (by omega)
      have hlen : (arr ++ List.take (pl - arr.length) f).length < pl := by
        simp [htake]; omega
      have := ih (arr ++ List.take (pl - arr.length) f) hlen
      rw [htake] at this ⊢
      obtain ⟨h1, h2⟩ := this
      refine ⟨?_, ?_⟩
      · rw [h1]; simp [List.flatten_cons, List.take_append, List.length_append]
        have : pl - arr.length - f.length = pl - (arr.length + f.length) := by omega
        rw [List.take_of_length_le (by omega : f.length ≤ pl - arr.length), this]
      · rw [h2]; simp [List.flatten_cons, List.drop_append, List.length_append]
        have : pl - arr.length - f.length = pl - (arr.length + f.length) := by omega
        rw [List.drop_of_length_le (by omega : f.length ≤ pl - arr.length), this]; simp

/-- `StopIteration` is raised exactly when no unread byte is left in any file. -/
theorem next_none (al : Bool) (pl : Nat) (hpl : 0 < pl) (cur : Bytes) (rest : List Bytes) :
    next al pl cur rest = none ↔ cur ++ rest.flatten = [] := by
  induction rest generalizing cur with
  | nil =>
    unfold next
    cases cur with
    | nil => simp
    | cons a t =>
      have : 0 < min pl (t.length + 1) := by omega
      simp only [List.length_take, List.length_cons]
      rw [if_neg (by omega)]
      split
      · cases al <;> simp
      · simp
  | cons f fs ih =>
    unfold next
    cases cur with
    | nil => simp [ih]
    | cons a t =>
      have : 0 < min pl (t.length + 1) := by omega
      simp only [List.length_take, List.length_cons]
      rw [if_neg (by omega)]
      split
      · cases al <;> simp
      · simp

/-- without `align`, one `__next__` returns the next `pl` bytes of the remaining stream and
    leaves the rest of the stream. -/
theorem next_some (pl : Nat) (hpl : 0 < pl) (cur : Bytes) (rest : List Bytes)
    (p c' : Bytes) (r' : List Bytes) (h : next false pl cur rest = some (p, c', r')) :
    p = (cur ++ rest.flatten).take pl ∧ c' ++ r'.flatten = (cur ++ rest.flatten).drop pl := by
  induction rest generalizing cur with
  | nil =>
    unfold next at h
    simp only [List.length_take] at h
    split at h
    · simp at h
    · split at h
      · rename_i h0 h1
        have hf := fill_spec pl (cur.take pl) [] (by simp [List.length_take]; omega)
        simp only [Bool.false_eq_true, if_false, Option.some.injEq] at h
        rw [h] at hf
        simp at hf
        have hcl : cur.length < pl := by omega
        simp [List.take_of_length_le (Nat.le_of_lt hcl), List.drop_of_length_le (Nat.le_of_lt hcl)] at hf ⊢
        exact hf
      · rename_i h0 h1
        simp only [Option.some.injEq, Prod.mk.injEq] at h
        obtain ⟨rfl, rfl, rfl⟩ := h
        simp
  | cons f fs ih =>
    unfold next at h
    simp only [List.length_take] at h
    split at h
    · rename_i h0
      have hc : cur = [] := by
        cases cur with
        | nil => rfl
        | cons a t => simp at h0; omega
      subst hc
      have := ih f h
      simpa using this
    · split at h
      · rename_i h0 h1
        have hcl : cur.length < pl := by omega
        have hlen : (cur.take pl).length < pl := by simp [List.length_take]; omega
        have hf := fill_spec pl (cur.take pl) (f :: fs) hlen
        simp only [Bool.false_eq_true, if_false, Option.some.injEq] at h
        rw [h] at hf
        simp only [List.take_of_length_le (Nat.le_of_lt hcl)] at hf
        obtain ⟨h1', h2'⟩ := hf
        refine ⟨?_, ?_⟩
        · rw [h1', List.take_append]; simp [List.take_of_length_le (Nat.le_of_lt hcl)]
        · rw [h2', List.drop_append]; simp [List.drop_of_length_le (Nat.le_of_lt hcl)]
      · rename_i h0 h1
        simp only [Option.some.injEq, Prod.mk.injEq] at h
        obtain ⟨rfl, rfl, rfl⟩ := h
        have hcl : pl ≤ cur.length := by omega
        simp [List.take_append_of_le_length hcl, List.drop_append_of_le_length hcl]

theorem drain_eq_chunks (pl : Nat) (hpl : 0 < pl) (fuel : Nat) (cur : Bytes) (rest : List Bytes)
    (hf : (cur ++ rest.flatten).length < fuel) :
    drain false pl fuel cur rest = chunks pl (cur ++ rest.flatten) := by
  induction fuel generalizing cur rest with
  | zero => omega
  | succ n ih =>
    unfold drain
    cases hn : next false pl cur rest with
    | none =>
      have := (next_none false pl hpl cur rest).mp hn
      rw [this]; unfold chunks; simp
    | some v =>
      obtain ⟨p, c', r'⟩ := v
      have ⟨hp, hr⟩ := next_some pl hpl cur rest p c' r' hn
      have hne : cur ++ rest.flatten ≠ [] := by
        intro he; have := (next_none false pl hpl cur rest).mpr he; rw [this] at hn; cases hn
      have hpos : 0 < (cur ++ rest.flatten).length := List.length_pos_iff.mpr hne
      simp only
      rw [chunks_cons pl hpl _ hne, ← hp, ← hr]
      congr 1
      apply ih
      rw [hr, List.length_drop]; omega

/-- a file followed by zeros up to the next piece boundary -/
def padded (pl : Nat) (f : Bytes) : Bytes := f ++ zeros (gap pl f.length)

theorem padded_nil (pl : Nat) : padded pl [] = [] := by simp [padded, gap, zeros]

theorem padded_length_dvd (pl : Nat) (hpl : 0 < pl) (f : Bytes) :
    ∃ k, (padded pl f).length = k * pl := by
  have h := gap_dvd pl f.length hpl
  refine ⟨(f.length + gap pl f.length) / pl, ?_⟩
  simp only [padded, List.length_append, zeros_length]
  have := Nat.div_add_mod (f.length + gap pl f.length) pl
  rw [h] at this
  rw [Nat.mul_comm]; omega

theorem gap_sub (pl s : Nat) (hpl : 0 < pl) (h : pl ≤ s) : gap pl (s - pl) = gap pl s := by
  unfold gap
  have : (s - pl) % pl = s % pl := by
    have : s = (s - pl) + pl := by omega
    conv => rhs; rw [this, Nat.add_mod_right]
  rw [this]

/-- the piece `__next__` returns in `align` mode when the current file has unread bytes -/
def firstPiece (pl : Nat) (cur : Bytes) : Bytes :=
  if cur.length < pl then cur ++ zeros (pl - cur.length) else cur.take pl

theorem next_align_cons (pl : Nat) (cur : Bytes) (rest : List Bytes) (hc : cur ≠ []) (_hpl : 0 < pl) :
    next true pl cur rest = some (firstPiece pl cur, cur.drop pl, rest) := by
  have hpos : 0 < cur.length := List.length_pos_iff.mpr hc
  unfold next firstPiece
  simp only [List.length_take]
  rw [if_neg (by omega)]
  by_cases hlt : cur.length < pl
  · rw [if_pos (by omega), if_pos hlt]
    have htake : cur.take pl = cur := List.take_of_length_le (by omega)
    have hmin : min pl cur.length = cur.length := by omega
    simp [htake, hmin]
  · rw [if_neg (by omega), if_neg hlt]

theorem next_align_nil_cons (pl : Nat) (f : Bytes) (fs : List Bytes) :
    next true pl [] (f :: fs) = next true pl f fs := by
  conv => lhs; unfold next
  simp

theorem next_align_nil_nil (pl : Nat) : next true pl [] [] = none := by
  unfold next; simp

theorem chunks_padded_cons (pl : Nat) (hpl : 0 < pl) (cur : Bytes) (hc : cur ≠ []) :
    chunks pl (padded pl cur) = firstPiece pl cur :: chunks pl (padded pl (cur.drop pl)) := by
  have hpos : 0 < cur.length := List.length_pos_iff.mpr hc
  unfold firstPiece
  by_cases hlt : cur.length < pl
  · rw [if_pos hlt]
    have hg : gap pl cur.length = pl - cur.length := by
      unfold gap
      rw [Nat.mod_eq_of_lt hlt, Nat.mod_eq_of_lt (by omega)]
    have hl : (cur ++ zeros (pl - cur.length)).length = pl := by simp; omega
    have hdrop : cur.drop pl = [] := List.drop_of_length_le (by omega)
    rw [hdrop, padded_nil, chunks_nil]
    simp only [padded, hg]
    exact chunks_exact pl hpl _ hl
  · rw [if_neg hlt]
    have hle : pl ≤ cur.length := by omega
    have hpad : padded pl cur = cur.take pl ++ padded pl (cur.drop pl) := by
      simp only [padded, List.length_drop]
      rw [gap_sub pl cur.length hpl hle, ← List.append_assoc, List.take_append_drop]
    have hne : padded pl cur ≠ [] := by simp [padded, hc]
    have htl : (cur.take pl).length = pl := by simp [List.length_take]; omega
    rw [chunks_cons pl hpl _ hne, hpad]
    rw [List.take_append_of_le_length (by omega), List.drop_append_of_le_length (by omega)]
    have e1 : (cur.take pl).take pl = cur.take pl := List.take_of_length_le (by omega)
    have e2 : (cur.take pl).drop pl = [] := List.drop_of_length_le (by omega)
    rw [e1, e2]; simp

/-- with `align`: draining yields the slices of each zero-padded file in turn -/
theorem drain_align (pl : Nat) (hpl : 0 < pl) (fuel : Nat) (cur : Bytes) (rest : List Bytes)
    (hf : (cur ++ rest.flatten).length < fuel) :
    drain true pl fuel cur rest
      = chunks pl (padded pl cur) ++ (rest.map (fun f => chunks pl (padded pl f))).flatten := by
  induction fuel generalizing cur rest with
  | zero => omega
  | succ n ih =>
    have step : ∀ (cur : Bytes) (rest : List Bytes), cur ≠ [] →
        (cur ++ rest.flatten).length < n + 1 →
        drain true pl (n + 1) cur rest
          = chunks pl (padded pl cur) ++ (rest.map (fun f => chunks pl (padded pl f))).flatten := by
      intro cur rest hc hf
      have hpos : 0 < cur.length := List.length_pos_iff.mpr hc
      unfold drain
      rw [next_align_cons pl cur rest hc hpl]
      simp only
      rw [ih (cur.drop pl) rest (by simp [List.length_drop] at hf ⊢; omega)]
      rw [chunks_padded_cons pl hpl cur hc]
      simp
    induction rest generalizing cur with
    | nil =>
      by_cases hc : cur = []
      · subst hc
        unfold drain
        rw [next_align_nil_nil]
        simp [padded_nil, chunks_nil]
      · exact step cur [] hc hf
    | cons f fs ihr =>
      by_cases hc : cur = []
      · subst hc
        have h1 : drain true pl (n + 1) [] (f :: fs) = drain true pl (n + 1) f fs := by
          conv => lhs; unfold drain
          conv => rhs; unfold drain
          rw [next_align_nil_cons]
        rw [h1, ihr f (by simpa using hf)]
        simp [padded_nil, chunks_nil]
      · exact step cur (f :: fs) hc hf

/-- slicing a concatenation of piece-aligned segments = concatenating the slicings -/
theorem chunks_flatten_aligned (pl : Nat) (hpl : 0 < pl) (segs : List Bytes)
    (h : ∀ s ∈ segs, ∃ k, s.length = k * pl) :
    chunks pl segs.flatten = (segs.map (chunks pl)).flatten := by
  induction segs with
  | nil => simp [chunks_nil]
  | cons s ss ih =>
    obtain ⟨k, hk⟩ := h s (by simp)
    rw [List.flatten_cons, chunks_append pl hpl k s _ hk, ih (fun t ht => h t (by simp [ht]))]
    simp

/-- the whole v1 hasher without `align` is piece slicing of the concatenation -/
theorem hasherV1_eq_chunks (pl : Nat) (hpl : 0 < pl) (files : List Bytes) (hne : files ≠ []) :
    hasherV1 false pl files = chunks pl files.flatten := by
  cases files with
  | nil => exact absurd rfl hne
  | cons f fs =>
    show drain false pl _ f fs = _
    rw [drain_eq_chunks pl hpl]
    · simp
    · simp only [List.flatten_cons, List.length_append, List.length_cons]; omega

/-- the whole v1 hasher with `align` is piece slicing of the stream in which every file is
    followed by zeros up to the next piece boundary -/
theorem hasherV1_align_eq_chunks (pl : Nat) (hpl : 0 < pl) (files : List Bytes) (hne : files ≠ []) :
    hasherV1 true pl files = chunks pl (Spec.alignedStream pl files) := by
  cases files with
  | nil => exact absurd rfl hne
  | cons f fs =>
    show drain true pl _ f fs = _
    rw [drain_align pl hpl]
    · unfold Spec.alignedStream
      have h := chunks_flatten_aligned pl hpl ((f :: fs).map (padded pl))
        (by intro s hs; obtain ⟨g, _, rfl⟩ := List.mem_map.mp hs; exact padded_length_dvd pl hpl g)
      have e : (f :: fs).map (fun f => f ++ zeros (gap pl f.length)) = (f :: fs).map (padded pl) := rfl
      rw [e, h]
      simp [List.map_map, Function.comp_def]
    · simp only [List.flatten_cons, List.length_append, List.length_cons]; omega

end TorrentVerif.Impl

import TorrentVerif.Model.Path
/- Lemmas about the `os.path` model: split/join inverse, `normpath` of absolute paths,
   and the containment theorem for `safeJoin`. -/
namespace TorrentVerif
open Rebuild PosixPath

namespace PosixPath

theorem splitSep_cons_sep (t : Bytes) : splitSep (47 :: t) = [] :: splitSep t := by
  simp [splitSep]

theorem splitSep_ne_nil (s : Bytes) : splitSep s ≠ [] := by
  induction s with
  | nil => simp [splitSep]
  | cons c t ih =>
    by_cases hc : c = 47
    · subst hc; simp [splitSep]
    · cases h : splitSep t with
      | nil => exact absurd h ih
      | cons a r => simp [splitSep, hc, h]

theorem splitSep_noSep (a : Bytes) (ha : (47 : UInt8) ∉ a) : splitSep a = [a] := by
  induction a with
  | nil => simp [splitSep]
  | cons c t ih =>
    have hc : c ≠ 47 := by intro e; subst e; simp at ha
    have ht : (47 : UInt8) ∉ t := by intro e; exact ha (List.mem_cons_of_mem _ e)
    simp [splitSep, hc, ih ht]

theorem splitSep_append_sep (a t : Bytes) (ha : (47 : UInt8) ∉ a) :
    splitSep (a ++ 47 :: t) = a :: splitSep t := by
  induction a with
  | nil => simp [splitSep]
  | cons c r ih =>
    have hc : c ≠ 47 := by intro e; subst e; simp at ha
    have hr : (47 : UInt8) ∉ r := by intro e; exact ha (List.mem_cons_of_mem _ e)
    simp [splitSep, hc, ih hr]

theorem splitSep_mem_noSep (s : Bytes) : ∀ c ∈ splitSep s, (47 : UInt8) ∉ c := by
  induction s with
  | nil => simp [splitSep]
  | cons c t ih =>
    by_cases hc : c = 47
    · subst hc
      rw [splitSep_cons_sep]
      intro x hx
      cases hx with
      | head => simp
      | tail _ hx => exact ih x hx
    · cases h : splitSep t with
      | nil => exact absurd h (splitSep_ne_nil t)
      | cons a r =>
        rw [h] at ih
        simp only [splitSep, hc, h, if_false]
        intro x hx
        cases hx with
        | head =>
          intro hm
          cases hm with
          | head => exact hc rfl
          | tail _ hm => exact ih a (List.mem_cons_self) hm
        | tail _ hx => exact ih x (List.mem_cons_of_mem _ hx)

theorem splitSep_joinSep (l : List Bytes) (hne : l ≠ []) (hl : ∀ c ∈ l, (47 : UInt8) ∉ c) :
    splitSep (joinSep l) = l := by
  induction l with
  | nil => exact absurd rfl hne
  | cons a r ih =>
    cases r with
    | nil => simp [joinSep, splitSep_noSep a (hl a (List.mem_cons_self))]
    | cons b r' =>
      have h1 : (47 : UInt8) ∉ a := hl a (List.mem_cons_self)
      rw [joinSep, splitSep_append_sep a _ h1, ih (by simp) (fun c hc => hl c (List.mem_cons_of_mem _ hc))]

theorem joinSep_eq_nil (l : List Bytes) (hl : ∀ c ∈ l, c ≠ []) (h : joinSep l = []) : l = [] := by
  cases l with
  | nil => rfl
  | cons a r =>
    exfalso
    have ha : a ≠ [] := hl a (List.mem_cons_self)
    cases r with
    | nil => exact ha (by simpa [joinSep] using h)
    | cons b r' => simp [joinSep] at h

/-- `"/".join` is injective on lists of non-empty separator-free components -/
theorem joinSep_inj (l m : List Bytes) (hl : ∀ c ∈ l, c ≠ [] ∧ (47 : UInt8) ∉ c)
    (hm : ∀ c ∈ m, c ≠ [] ∧ (47 : UInt8) ∉ c) (h : joinSep l = joinSep m) : l = m := by
  by_cases hle : l = []
  · subst hle
    exact (joinSep_eq_nil m (fun c hc => (hm c hc).1) (by simpa [joinSep] using h.symm)).symm
  · by_cases hme : m = []
    · subst hme
      exact joinSep_eq_nil l (fun c hc => (hl c hc).1) (by simpa [joinSep] using h)
    · rw [← splitSep_joinSep l hle (fun c hc => (hl c hc).2),
          ← splitSep_joinSep m hme (fun c hc => (hm c hc).2), h]

end PosixPath

namespace Spec

theorem CleanComp.ne_nil {c : Comp} (h : CleanComp c) : c ≠ [] := h.1
theorem CleanComp.noSep {c : Comp} (h : CleanComp c) : (47 : UInt8) ∉ c := h.2.2.2

end Spec

namespace PosixPath
open Spec

theorem normStep_clean (k : Nat) (stk : List Bytes) (c : Bytes) (hc : CleanComp c) :
    normStep k stk c = c :: stk := by
  obtain ⟨h1, h2, h3, _⟩ := hc
  simp [normStep, h1, h2, h3]

theorem foldl_normStep_clean (k : Nat) (l : List Bytes) (hl : ∀ c ∈ l, CleanComp c) :
    ∀ stk, l.foldl (normStep k) stk = l.reverse ++ stk := by
  induction l with
  | nil => intro stk; simp
  | cons a r ih =>
    intro stk
    rw [List.foldl_cons, normStep_clean k stk a (hl a (List.mem_cons_self)),
      ih (fun c hc => hl c (List.mem_cons_of_mem _ hc))]
    simp

theorem normStep_inv (k : Nat) (hk : k ≠ 0) (stk : List Bytes) (c : Bytes)
    (hs : ∀ x ∈ stk, CleanComp x) (hc : (47 : UInt8) ∉ c) :
    ∀ x ∈ normStep k stk c, CleanComp x := by
  unfold normStep
  split
  · exact hs
  · rename_i h1
    split
    · rename_i h2
      have hdd : c ≠ DOTDOT := by
        rcases h2 with h2 | h2 | h2
        · exact h2
        · exact absurd h2.1 hk
        · intro _
          cases stk with
          | nil => simp at h2
          | cons y ys =>
            simp at h2
            have := hs y (List.mem_cons_self)
            exact this.2.2.1 h2
      intro x hx
      cases hx with
      | head => exact ⟨fun e => h1 (Or.inl e), fun e => h1 (Or.inr e), hdd, hc⟩
      | tail _ hx => exact hs x hx
    · intro x hx
      exact hs x (List.mem_of_mem_tail hx)

theorem foldl_normStep_inv (k : Nat) (hk : k ≠ 0) (l : List Bytes) (hl : ∀ c ∈ l, (47 : UInt8) ∉ c) :
    ∀ stk, (∀ x ∈ stk, CleanComp x) → ∀ x ∈ l.foldl (normStep k) stk, CleanComp x := by
  induction l with
  | nil => intro stk hs; simpa using hs
  | cons a r ih =>
    intro stk hs
    rw [List.foldl_cons]
    exact ih (fun c hc => hl c (List.mem_cons_of_mem _ hc)) _
      (normStep_inv k hk stk a hs (hl a (List.mem_cons_self)))

theorem initialSlashes_abs (j : Bytes) (hj : j.head? = some 47) :
    initialSlashes j = 1 ∨ initialSlashes j = 2 := by
  unfold initialSlashes
  simp only [hj, ne_eq, not_true_eq_false, if_false]
  split <;> simp

/-- `normpath` of an absolute path: one or two slashes followed by clean components -/
theorem normpath_abs (j : Bytes) (hj : j.head? = some 47) :
    ∃ q : Path, CleanPath q ∧
      normpath j = List.replicate (initialSlashes j) 47 ++ joinSep q := by
  have hne : j ≠ [] := by intro e; subst e; simp at hj
  have hk := initialSlashes_abs j hj
  have hk0 : initialSlashes j ≠ 0 := by omega
  refine ⟨((splitSep j).foldl (normStep (initialSlashes j)) []).reverse, ?_, ?_⟩
  · intro c hc
    rw [List.mem_reverse] at hc
    exact foldl_normStep_inv _ hk0 _ (splitSep_mem_noSep j) [] (by simp) c hc
  · unfold normpath
    simp only [hne, if_false]
    rw [if_neg]
    rcases hk with h | h <;> rw [h] <;> simp [List.replicate]

theorem clean_first_ne_sep (c : Comp) (hc : CleanComp c) : c.head? ≠ some 47 := by
  intro h
  cases c with
  | nil => simp at h
  | cons x xs => simp at h; subst h; exact hc.noSep (List.mem_cons_self)

theorem joinSep_head (q : Path) (hq : CleanPath q) : (joinSep q).head? ≠ some 47 := by
  cases q with
  | nil => simp [joinSep]
  | cons a r =>
    have ha := hq a (List.mem_cons_self)
    have := clean_first_ne_sep a ha
    cases r with
    | nil => simpa [joinSep] using this
    | cons b r' =>
      cases a with
      | nil => exact absurd rfl ha.ne_nil
      | cons x xs => simpa [joinSep] using this

theorem initialSlashes_render (p : Path) (hp : CleanPath p) : initialSlashes (render p) = 1 := by
  have := joinSep_head p hp
  unfold initialSlashes render
  simp
  intro h
  exact absurd h this

theorem splitSep_render (p : Path) (hp : CleanPath p) :
    (splitSep (render p)).filter (fun c => c ≠ []) = p ∧ cpComps (render p) = p := by
  unfold render cpComps
  rw [splitSep_cons_sep]
  by_cases hpe : p = []
  · subst hpe; simp [joinSep, splitSep]
  · rw [splitSep_joinSep p hpe (fun c hc => (hp c hc).noSep)]
    constructor
    · simp
      intro c hc
      exact (hp c hc).ne_nil
    · simp
      intro c hc
      exact ⟨(hp c hc).1, (hp c hc).2.1⟩

theorem normpath_render (p : Path) (hp : CleanPath p) : normpath (render p) = render p := by
  unfold normpath
  have hne : render p ≠ [] := by simp [render]
  simp only [hne, if_false, initialSlashes_render p hp]
  have : (splitSep (render p)).foldl (normStep 1) [] = p.reverse := by
    unfold render
    rw [splitSep_cons_sep]
    by_cases hpe : p = []
    · subst hpe; simp [joinSep, splitSep, normStep]
    · rw [splitSep_joinSep p hpe (fun c hc => (hp c hc).noSep), List.foldl_cons]
      have : normStep 1 [] [] = [] := by simp [normStep]
      rw [this, foldl_normStep_clean 1 p hp]
      simp
  rw [this]
  simp [render, List.replicate]

/-- the components of `//…/a/b` or `/a/b` -/
theorem comps_slashes (k : Nat) (q : Path) (hq : CleanPath q) :
    comps (List.replicate k 47 ++ joinSep q) = q ∧
    cpComps (List.replicate k 47 ++ joinSep q) = q := by
  induction k with
  | zero =>
    simp only [List.replicate, List.nil_append]
    unfold comps cpComps
    by_cases hqe : q = []
    · subst hqe; simp [joinSep, splitSep]
    · rw [splitSep_joinSep q hqe (fun c hc => (hq c hc).noSep)]
      constructor
      · simp
        intro c hc
        exact (hq c hc).ne_nil
      · simp
        intro c hc
        exact ⟨(hq c hc).1, (hq c hc).2.1⟩
  | succ k ih =>
    unfold comps cpComps at *
    simp only [List.replicate_succ, List.cons_append]
    rw [splitSep_cons_sep]
    simpa using ih

theorem commonPrefix_prefix (a b : List Bytes) :
    commonPrefix a b <+: a ∧ commonPrefix a b <+: b := by
  induction a generalizing b with
  | nil => simp [commonPrefix]
  | cons x xs ih =>
    cases b with
    | nil => simp [commonPrefix]
    | cons y ys =>
      by_cases h : x = y
      · subst h
        simp only [commonPrefix, if_true]
        exact ⟨(List.cons_prefix_cons).mpr ⟨rfl, (ih ys).1⟩, (List.cons_prefix_cons).mpr ⟨rfl, (ih ys).2⟩⟩
      · simp [commonPrefix, h]

end PosixPath

namespace Impl
open Spec

/-- after the removal of a doubled leading slash the normalised path is `/` + clean components -/
theorem stripSlash_norm (k : Nat) (hk : k = 1 ∨ k = 2) (q : Path) (hq : CleanPath q) :
    stripSlash (List.replicate k 47 ++ joinSep q) = render q := by
  have hjs := joinSep_head q hq
  unfold stripSlash render
  rcases hk with rfl | rfl
  · simp only [List.replicate, List.cons_append, List.nil_append, List.head?_cons, List.drop_one,
      List.tail_cons, true_and]
    rw [if_neg hjs]
  · simp [List.replicate]

/-- everything `safe_join` can return, in terms of resolved paths -/
theorem safeJoinStr_some (dest : Path) (hd : CleanPath dest) (rel full : Bytes)
    (h : safeJoinStr (render dest) rel = some full) :
    ∃ q, CleanPath q ∧ full = render q ∧ dest <+: q ∧ q ≠ dest := by
  unfold safeJoinStr abspath at h
  rw [normpath_render dest hd] at h
  simp only at h
  -- the joined path is absolute
  have hj : (join (render dest) rel).head? = some 47 := by
    unfold join
    split
    · assumption
    · split <;> simp [render]
  obtain ⟨q, hq, hn⟩ := normpath_abs _ hj
  have hk := initialSlashes_abs _ hj
  rw [hn, stripSlash_norm _ hk q hq] at h
  split at h
  · exact absurd h (by simp)
  · rename_i hcond
    have hcond1 : ¬ render q = render dest := fun e => hcond (Or.inl e)
    have hcond2 : commonpath (render dest) (render q) = some (render dest) := by
      apply Classical.byContradiction
      intro e
      exact hcond (Or.inr e)
    injection h with h
    refine ⟨q, hq, h.symm, ?_, fun e => hcond1 (by rw [e])⟩
    -- containment from commonpath
    unfold commonpath at hcond2
    have ha : ∀ p : Path, (render p).head? = some 47 := fun p => by simp [render]
    simp only [ha, decide_true, ne_eq, not_true_eq_false, if_false, if_true] at hcond2
    rw [(splitSep_render dest hd).2, (splitSep_render q hq).2] at hcond2
    injection hcond2 with hc
    unfold render at hc
    injection hc with _ hc
    have hpre := commonPrefix_prefix dest q
    have hcl : ∀ c ∈ commonPrefix dest q, c ≠ [] ∧ (47 : UInt8) ∉ c := by
      intro c hc
      have := hd c (hpre.1.subset hc)
      exact ⟨this.ne_nil, this.noSep⟩
    have := joinSep_inj _ _ hcl (fun c hc => ⟨(hd c hc).ne_nil, (hd c hc).noSep⟩) hc
    rw [← this]
    exact hpre.2

/-- containment theorem for the resolved form of `safe_join` -/
theorem safeJoin_some (dest : Path) (hd : CleanPath dest) (rel : Bytes) (p : Path)
    (h : safeJoin dest rel = some p) :
    dest <+: p ∧ CleanPath p ∧ p ≠ dest := by
  unfold safeJoin at h
  cases hs : safeJoinStr (render dest) rel with
  | none => rw [hs] at h; simp at h
  | some full =>
    rw [hs] at h
    simp at h
    obtain ⟨q, hq, hfull, hpre, hne⟩ := safeJoinStr_some dest hd rel full hs
    rw [hfull] at h
    have : comps (render q) = q := (splitSep_render q hq).1
    unfold comps at this h
    rw [this] at h
    subst h
    exact ⟨hpre, hq, hne⟩

end Impl
end TorrentVerif

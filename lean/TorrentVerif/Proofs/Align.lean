import TorrentVerif.Proofs.HasherV1
/- Lemmas about the padding entries of piece-aligned v1 torrents. -/
namespace TorrentVerif.Impl
open TorrentVerif

theorem add_mod_zero (a b n : Nat) (ha : a % n = 0) (hb : b % n = 0) : (a + b) % n = 0 := by
  rw [Nat.add_mod, ha, hb]; simp

/-- total length described by a list of entries -/
def entriesLength (es : List FileEntry) : Nat := (es.map (·.length)).sum

/-- the byte stream a client reconstructs from the entries: payload entries take the file
    contents in order, padding entries stand for zero bytes -/
def entriesStream : List FileEntry → List Bytes → Bytes
  | [], _ => []
  | e :: es, fs =>
    if e.pad then zeros e.length ++ entriesStream es fs
    else match fs with
      | [] => entriesStream es []
      | f :: fs' => f ++ entriesStream es fs'

theorem entriesLength_cons (e : FileEntry) (es : List FileEntry) :
    entriesLength (e :: es) = e.length + entriesLength es := by
  simp [entriesLength]

theorem entriesLength_append (a b : List FileEntry) :
    entriesLength (a ++ b) = entriesLength a + entriesLength b := by
  simp [entriesLength]

/-- every file together with its padding entry occupies a whole number of pieces -/
theorem alignedEntries_length_dvd (pl : Nat) (hpl : 0 < pl) (sizes : List Nat) :
    entriesLength (alignedEntries pl sizes) % pl = 0 := by
  induction sizes with
  | nil => simp [alignedEntries, entriesLength]
  | cons s ss ih =>
    simp only [alignedEntries]
    have hg := gap_dvd pl s hpl
    split
    · rename_i h0
      simp only [h0, Nat.add_zero] at hg
      rw [entriesLength_cons]
      exact add_mod_zero _ _ _ hg ih
    · rw [entriesLength_cons, entriesLength_cons, ← Nat.add_assoc]
      exact add_mod_zero _ _ _ hg ih

/-- every payload entry starts on a piece boundary -/
theorem alignedEntries_starts (pl : Nat) (hpl : 0 < pl) (sizes : List Nat)
    (pre suf : List FileEntry) (s : Nat)
    (h : alignedEntries pl sizes = pre ++ ⟨false, s⟩ :: suf) :
    entriesLength pre % pl = 0 := by
  induction sizes generalizing pre with
  | nil => simp [alignedEntries] at h
  | cons t ts ih =>
    simp only [alignedEntries] at h
    have hg := gap_dvd pl t hpl
    split at h
    · rename_i h0
      cases pre with
      | nil => simp [entriesLength]
      | cons p ps =>
        simp only [List.cons_append, List.cons.injEq] at h
        obtain ⟨hp, hrest⟩ := h
        have := ih ps hrest
        rw [entriesLength_cons, ← hp]
        simp only [h0, Nat.add_zero] at hg
        exact add_mod_zero _ _ _ hg this
    · rename_i h0
      cases pre with
      | nil => simp [entriesLength]
      | cons p ps =>
        simp only [List.cons_append, List.cons.injEq] at h
        obtain ⟨hp, hrest⟩ := h
        cases ps with
        | nil =>
          simp only [List.nil_append, List.cons.injEq] at hrest
          have := hrest.1
          simp at this
        | cons q qs =>
          simp only [List.cons_append, List.cons.injEq] at hrest
          obtain ⟨hq, hrest⟩ := hrest
          have := ih qs hrest
          rw [entriesLength_cons, entriesLength_cons, ← hp, ← hq, ← Nat.add_assoc]
          exact add_mod_zero _ _ _ hg this

/-- a padding entry is present exactly where the gap is non-zero, directly after its file,
    and its length is the gap -/
theorem alignedEntries_pad (pl : Nat) (sizes : List Nat) (pre suf : List FileEntry) (n : Nat)
    (h : alignedEntries pl sizes = pre ++ ⟨true, n⟩ :: suf) :
    ∃ pre' s, pre = pre' ++ [⟨false, s⟩] ∧ n = gap pl s ∧ n ≠ 0 := by
  induction sizes generalizing pre with
  | nil => simp [alignedEntries] at h
  | cons t ts ih =>
    simp only [alignedEntries] at h
    split at h
    · cases pre with
      | nil => simp at h
      | cons p ps =>
        simp only [List.cons_append, List.cons.injEq] at h
        obtain ⟨hp, hrest⟩ := h
        obtain ⟨pre', s, h1, h2, h3⟩ := ih ps hrest
        exact ⟨p :: pre', s, by simp [h1], h2, h3⟩
    · rename_i h0
      cases pre with
      | nil => simp at h
      | cons p ps =>
        simp only [List.cons_append, List.cons.injEq] at h
        obtain ⟨hp, hrest⟩ := h
        cases ps with
        | nil =>
          simp only [List.nil_append, List.cons.injEq] at hrest
          have hn := hrest.1
          simp only [FileEntry.mk.injEq, true_and] at hn
          exact ⟨[], t, by simp [← hp], hn.symm, by omega⟩
        | cons q qs =>
          simp only [List.cons_append, List.cons.injEq] at hrest
          obtain ⟨hq, hrest⟩ := hrest
          obtain ⟨pre', s, h1, h2, h3⟩ := ih qs hrest
          exact ⟨p :: q :: pre', s, by simp [h1], h2, h3⟩

/-- the stream described by the entries is the aligned stream of the specification -/
theorem entriesStream_aligned (pl : Nat) (files : List Bytes) :
    entriesStream (alignedEntries pl (files.map List.length)) files
      = Spec.alignedStream pl files := by
  induction files with
  | nil => simp [alignedEntries, entriesStream, Spec.alignedStream]
  | cons f fs ih =>
    simp only [List.map_cons, alignedEntries]
    unfold Spec.alignedStream at ih ⊢
    split
    · rename_i h0
      simp [entriesStream, ih, h0, zeros]
    · simp [entriesStream, ih]

/-- listed lengths = length of the aligned stream -/
theorem alignedStream_length (pl : Nat) (files : List Bytes) :
    (Spec.alignedStream pl files).length
      = entriesLength (alignedEntries pl (files.map List.length)) := by
  induction files with
  | nil => simp [alignedEntries, entriesLength, Spec.alignedStream]
  | cons f fs ih =>
    unfold Spec.alignedStream at ih ⊢
    simp only [List.map_cons, alignedEntries, List.flatten_cons, List.length_append, zeros_length]
    split
    · rename_i h0
      rw [entriesLength_cons, ← ih]; simp [h0]
    · rw [entriesLength_cons, entriesLength_cons, ← ih]; simp; omega

end TorrentVerif.Impl

import TorrentVerif.Proofs.RbEffects
/- The common shape of `_match_v1` and `_match_v2`: batches of `copypath` calls, each batch
   justified (`Good`) in the state in which its checks were made.  Generic consequences. -/
namespace TorrentVerif
open Rebuild PosixPath Spec

namespace Impl

/-- `ops` is produced by successive batches of `copypath` calls; every call of a batch satisfies
    `Good` in the state at the start of the batch -/
inductive Run (ds : Nat) (Good : FS → Path → Path → Prop) : FS → List Op → Prop
  | nil (fs : FS) : Run ds Good fs []
  | batch (fs : FS) (calls : List (Path × Path)) (rest : List Op) :
      (∀ c ∈ calls, Good fs c.1 c.2) →
      Run ds Good (applyOps fs (runCalls ds fs calls)) rest →
      Run ds Good fs (runCalls ds fs calls ++ rest)

theorem Run.mono {ds : Nat} {G G' : FS → Path → Path → Prop} (h : ∀ fs s d, G fs s d → G' fs s d)
    {fs : FS} {ops : List Op} (r : Run ds G fs ops) : Run ds G' fs ops := by
  induction r with
  | nil fs => exact Run.nil fs
  | batch fs calls rest hg _ ih => exact Run.batch fs calls rest (fun c hc => h _ _ _ (hg c hc)) ih

theorem runCalls_single (ds : Nat) (fs : FS) (s d : Path) :
    runCalls ds fs [(s, d)] = copypath ds fs s d := by simp [runCalls]

/-- one `copypath` call is a run -/
theorem Run.single {ds : Nat} {G : FS → Path → Path → Prop} {fs : FS} {s d : Path} {rest : List Op}
    (hg : G fs s d) (r : Run ds G (applyOps fs (copypath ds fs s d)) rest) :
    Run ds G fs (copypath ds fs s d ++ rest) := by
  have := Run.batch (ds := ds) (Good := G) fs [(s, d)] rest (by simpa using hg)
    (by rw [runCalls_single]; exact r)
  rwa [runCalls_single] at this

/-! #### what a `copypath` call emits -/

theorem copypath_copy_mem {ds : Nat} {fs : FS} {s d src dst : Path}
    (h : Op.copy src dst ∈ copypath ds fs s d) : src = s ∧ dst = d := by
  unfold copypath at h
  split at h
  · simp at h
  · split at h
    · simp at h
    · simp only [List.mem_append, List.mem_singleton] at h
      rcases h with h | h
      · obtain ⟨k, _, _, hk, _⟩ := mkdirChain_mem fs _ _ _ h
        cases hk
      · injection h with h1 h2
        exact ⟨h1, h2⟩

theorem copypath_mkdir_mem {ds : Nat} {fs : FS} {s d p : Path}
    (h : Op.mkdir p ∈ copypath ds fs s d) : p <+: d ∧ p ≠ d ∧ fs.ex p = false := by
  unfold copypath at h
  split at h
  · simp at h
  · split at h
    · simp at h
    · rename_i hdne
      simp only [List.mem_append, List.mem_singleton] at h
      rcases h with h | h
      · obtain ⟨k, _, _, hk, hex⟩ := mkdirChain_mem fs _ _ _ h
        injection hk with hk
        simp only [List.nil_append] at hk hex
        subst hk
        refine ⟨(List.take_prefix _ _).trans (List.dropLast_prefix _), ?_, hex⟩
        intro e
        have h1 : (d.dropLast.take k).length ≤ d.dropLast.length := by
          simp [List.length_take]; omega
        rw [e] at h1
        have : 0 < d.length := List.length_pos_iff.mpr hdne
        simp at h1
        omega
      · cases h

theorem runCalls_copy_mem {ds : Nat} {calls : List (Path × Path)} {src dst : Path} :
    ∀ {fs : FS}, Op.copy src dst ∈ runCalls ds fs calls → (src, dst) ∈ calls := by
  induction calls with
  | nil => intro fs h; simp [runCalls] at h
  | cons c cs ih =>
    intro fs h
    obtain ⟨s, d⟩ := c
    simp only [runCalls, List.mem_append] at h
    rcases h with h | h
    · obtain ⟨h1, h2⟩ := copypath_copy_mem h
      subst h1 h2
      exact List.mem_cons_self
    · exact List.mem_cons_of_mem _ (ih h)

theorem runCalls_mkdir_mem {ds : Nat} {calls : List (Path × Path)} {p : Path} :
    ∀ {fs : FS}, Op.mkdir p ∈ runCalls ds fs calls → ∃ c ∈ calls, p <+: c.2 ∧ p ≠ c.2 := by
  induction calls with
  | nil => intro fs h; simp [runCalls] at h
  | cons c cs ih =>
    intro fs h
    obtain ⟨s, d⟩ := c
    simp only [runCalls, List.mem_append] at h
    rcases h with h | h
    · obtain ⟨h1, h2, _⟩ := copypath_mkdir_mem h
      exact ⟨(s, d), List.mem_cons_self, h1, h2⟩
    · obtain ⟨c, hc, h1⟩ := ih h
      exact ⟨c, List.mem_cons_of_mem _ hc, h1⟩

/-! #### containment -/

theorem runCalls_below (ds : Nat) (dest : Path) (calls : List (Path × Path)) :
    ∀ fs, DestReady fs dest → (∀ c ∈ calls, dest <+: c.2) →
      (∀ op ∈ runCalls ds fs calls, OpBelow dest op) := by
  induction calls with
  | nil => intro fs _ _ op h; simp [runCalls] at h
  | cons c cs ih =>
    intro fs hr hall op hop
    obtain ⟨s, d⟩ := c
    simp only [runCalls, List.mem_append] at hop
    have hb := copypath_below ds fs dest s d hr (hall (s, d) List.mem_cons_self)
    rcases hop with hop | hop
    · exact hb op hop
    · exact ih _ (trace_below dest _ fs hr hb).2 (fun c hc => hall c (List.mem_cons_of_mem _ hc)) op hop

/-- every operation of a run below an existing destination is statically below it, and the
    destination stays ready -/
theorem Run.opsBelow {ds : Nat} {G : FS → Path → Path → Prop} {dest : Path}
    (hG : ∀ fs s d, G fs s d → dest <+: d) {fs : FS} {ops : List Op} (r : Run ds G fs ops) :
    DestReady fs dest → (∀ op ∈ ops, OpBelow dest op) := by
  induction r with
  | nil fs => intro _ op h; simp at h
  | batch fs calls rest hg _ ih =>
    intro hr op hop
    have hb := runCalls_below ds dest calls fs hr (fun c hc => hG _ _ _ (hg c hc))
    rcases List.mem_append.mp hop with h | h
    · exact hb op h
    · exact ih (trace_below dest _ fs hr hb).2 op h

/-! #### provenance -/

theorem Run.copy_mem {ds : Nat} {G : FS → Path → Path → Prop} {src dst : Path}
    {fs : FS} {ops : List Op} (r : Run ds G fs ops) :
    Op.copy src dst ∈ ops → ∃ pre, pre <+: ops ∧ G (applyOps fs pre) src dst := by
  induction r with
  | nil fs => intro h; simp at h
  | batch fs calls rest hg _ ih =>
    intro h
    rcases List.mem_append.mp h with h | h
    · exact ⟨[], List.nil_prefix, hg _ (runCalls_copy_mem h)⟩
    · obtain ⟨pre, hpre, hgood⟩ := ih h
      refine ⟨runCalls ds fs calls ++ pre, (List.prefix_append_right_inj _).mpr hpre, ?_⟩
      rwa [applyOps_append]

theorem Run.mkdir_mem {ds : Nat} {G : FS → Path → Path → Prop} {p : Path}
    {fs : FS} {ops : List Op} (r : Run ds G fs ops) :
    Op.mkdir p ∈ ops → ∃ pre src dst, pre <+: ops ∧ G (applyOps fs pre) src dst ∧ p <+: dst ∧ p ≠ dst := by
  induction r with
  | nil fs => intro h; simp at h
  | batch fs calls rest hg _ ih =>
    intro h
    rcases List.mem_append.mp h with h | h
    · obtain ⟨c, hc, h1, h2⟩ := runCalls_mkdir_mem h
      exact ⟨[], c.1, c.2, List.nil_prefix, hg c hc, h1, h2⟩
    · obtain ⟨pre, src, dst, hpre, hgood, h1, h2⟩ := ih h
      refine ⟨runCalls ds fs calls ++ pre, src, dst, (List.prefix_append_right_inj _).mpr hpre, ?_, h1, h2⟩
      rwa [applyOps_append]

/-! #### the `copypath` guard holds when the copy is executed -/

/-- `copypath`'s guard, in the state in which `shutil.copy` runs -/
def Guard (ds : Nat) (fs : FS) (op : Op) : Prop :=
  ∀ src dst, op = Op.copy src dst →
    fs.ex src = true ∧ ¬ (fs.ex dst = true ∧ fs.size ds src ≤ fs.size ds dst)

theorem applyOps_mkdirs_frame (q : Path) (ops : List Op) :
    ∀ fs, (∀ op ∈ ops, ∃ p, op = Op.mkdir p ∧ p ≠ q) → applyOps fs ops q = fs q := by
  induction ops with
  | nil => intro fs _; rfl
  | cons x xs ih =>
    intro fs h
    rw [applyOps_cons, ih _ (fun op hop => h op (List.mem_cons_of_mem _ hop))]
    obtain ⟨p, rfl, hp⟩ := h x List.mem_cons_self
    exact applyOp_frame fs _ q (by simpa [Op.writes] using hp.symm)

theorem traceAll_mkdirs (ds : Nat) (ops : List Op) :
    ∀ fs, (∀ op ∈ ops, ∃ p, op = Op.mkdir p) → TraceAll (Guard ds) fs ops := by
  induction ops with
  | nil => intro fs _; trivial
  | cons x xs ih =>
    intro fs h
    refine ⟨?_, ih _ (fun op hop => h op (List.mem_cons_of_mem _ hop))⟩
    obtain ⟨p, rfl⟩ := h x List.mem_cons_self
    intro src dst e; cases e

theorem copypath_guard (ds : Nat) (fs : FS) (s d : Path) : TraceAll (Guard ds) fs (copypath ds fs s d) := by
  unfold copypath
  split
  · trivial
  · rename_i hcond
    split
    · trivial
    · rename_i hne
      rw [TraceAll_append]
      have hm : ∀ op ∈ mkdirChain fs [] d.dropLast, ∃ p, op = Op.mkdir p ∧ fs.ex p = false ∧ p.length < d.length := by
        intro op hop
        obtain ⟨k, _, hk, rfl, hex⟩ := mkdirChain_mem fs _ _ _ hop
        refine ⟨_, rfl, hex, ?_⟩
        have : 0 < d.length := List.length_pos_iff.mpr hne
        simp [List.length_take]
        omega
      refine ⟨traceAll_mkdirs ds _ fs (fun op hop => (hm op hop).imp fun p hp => hp.1), ?_, trivial⟩
      intro src dst e
      injection e with e1 e2
      subst e1 e2
      simp only [Bool.or_eq_true, Bool.not_eq_true', Bool.and_eq_true, decide_eq_true_eq, not_or] at hcond
      have hsrc : fs.ex s = true := by
        cases h : fs.ex s with
        | true => rfl
        | false => exact absurd h hcond.1
      have fr1 : applyOps fs (mkdirChain fs [] d.dropLast) s = fs s := by
        apply applyOps_mkdirs_frame
        intro op hop
        obtain ⟨p, rfl, hex, _⟩ := hm op hop
        refine ⟨p, rfl, ?_⟩
        intro e; subst e; rw [hsrc] at hex; cases hex
      have fr2 : applyOps fs (mkdirChain fs [] d.dropLast) d = fs d := by
        apply applyOps_mkdirs_frame
        intro op hop
        obtain ⟨p, rfl, _, hlen⟩ := hm op hop
        refine ⟨p, rfl, ?_⟩
        intro e; subst e; omega
      simp only [FS.ex, FS.size, fr1, fr2]
      simp only [FS.ex, FS.size] at hcond hsrc
      exact ⟨hsrc, hcond.2⟩

theorem runCalls_guard (ds : Nat) (calls : List (Path × Path)) :
    ∀ fs, TraceAll (Guard ds) fs (runCalls ds fs calls) := by
  induction calls with
  | nil => intro fs; trivial
  | cons c cs ih =>
    intro fs
    obtain ⟨s, d⟩ := c
    simp only [runCalls]
    rw [TraceAll_append]
    exact ⟨copypath_guard ds fs s d, ih _⟩

theorem Run.guard {ds : Nat} {G : FS → Path → Path → Prop} {fs : FS} {ops : List Op}
    (r : Run ds G fs ops) : TraceAll (Guard ds) fs ops := by
  induction r with
  | nil fs => trivial
  | batch fs calls rest _ _ ih =>
    rw [TraceAll_append]
    exact ⟨runCalls_guard ds calls fs, ih⟩

end Impl
end TorrentVerif

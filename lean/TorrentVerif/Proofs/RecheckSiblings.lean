import TorrentVerif.Proofs.RecheckFull
/-
  Helper lemmas for `Props/C05.recheck_ignores_siblings`: with the content path = a parent
  directory, `find_root` (and with it the whole `Checker`) looks at the ONE entry of the parent
  whose name is byte-for-byte `info.name` (`RF.child` = `name in os.listdir(root)` /
  `root / name`); nothing else in the parent is read, unless the parent itself is named like the
  torrent (then `_is_parent` counts described top-level names directly in the parent).
  Example metafile `album` with its namesakes `Album`, `albu?`, `*`.
-/
namespace TorrentVerif
open RF

namespace Spec

/-- `find_root` on two parent directories that hold the same thing (or both nothing) under the
    torrent's exact name.  Side condition as in `root_or_parent`: the parent is not named like the
    torrent, or `_is_parent` recognises the entry as the content in both. -/
theorem findRoot_only_entry (info : Dict) (name pname : Bytes) (p1 p2 : List (Bytes × Node))
    (hsame : child (.dir p1) name = child (.dir p2) name)
    (hside : pname ≠ name ∨ ∃ payload, child (.dir p1) name = some payload ∧
      Impl.isParent info name (.dir p1) payload = .ok true ∧
      Impl.isParent info name (.dir p2) payload = .ok true) :
    Impl.findRoot info name pname (some (.dir p1)) = Impl.findRoot info name pname (some (.dir p2)) := by
  by_cases hn : pname = name
  · rcases hside with h | ⟨payload, hc, h1, h2⟩
    · exact absurd hn h
    · rw [findRoot_parent_any info name pname p1 payload hc (Or.inr h1),
        findRoot_parent_any info name pname p2 payload (hsame ▸ hc) (Or.inr h2)]
  · simp [Impl.findRoot, hn, hsame]

end Spec

namespace RF.Ex

/-- `album` -/
def sAlbum : Bytes := [97, 108, 98, 117, 109]
/-- `Album`: differs from `album` in letter case only -/
def sAlbumCap : Bytes := [65, 108, 98, 117, 109]
/-- `albu?`: as a glob pattern it matches `album` -/
def sAlbumGlob : Bytes := [97, 108, 98, 117, 63]
/-- `*` -/
def sStar : Bytes := [42]

/-- `v2Meta` under the name `album` -/
def albumMeta : BVal :=
  .dict [(K.info, .dict [(K.fileTree, tree), (K.metaVersion, .int 2), (K.name, .str sAlbum),
    (K.pieceLength, .int 4)]), (K.pieceLayers, .dict [([1, 2], .str [1, 2, 5, 6])])]

/-- a directory with a DAMAGED `album` (`a` truncated, `d/c` missing) between intact copies named
    `Album`, `albu?` and `*` -/
def albumCrowd : List (Bytes × Node) :=
  [(sAlbumCap, v2Disk), (sAlbumGlob, v2Disk), (sAlbum, v2Damaged), (sStar, v2Disk)]

/-- a directory with the intact copies only: nothing is named exactly `album` -/
def albumAbsent : List (Bytes × Node) :=
  [(sAlbumCap, v2Disk), (sAlbumGlob, v2Disk), (sStar, v2Disk)]

end RF.Ex
end TorrentVerif

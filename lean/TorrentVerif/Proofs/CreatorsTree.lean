import TorrentVerif.Proofs.Creators
import TorrentVerif.Proofs.Listing
/-
  The file tree a v2 / hybrid creator writes, read back: its leaves are the files of the
  traversal; the traversal visits every file of the content tree once; a traversal path leads
  to that file in the content tree.
-/
namespace TorrentVerif
open Impl Spec Listing

/-- the properties dictionary of the leaf of a file with contents `d` -/
def leafProps (hf : Bytes → FileHash) (d : Bytes) : BVal :=
  if d.length = 0 then .dict [(K.length, .int 0)]
  else .dict [(K.length, .int d.length), (K.piecesRoot, .str (hf d).root)]

theorem leafVal_eq (hf : Bytes → FileHash) (d : Bytes) :
    leafVal hf d = .dict [([], leafProps hf d)] := by
  unfold leafVal leafProps; split <;> rfl

mutual
/-- no dictionary of the tree has an empty key (no directory entry has an empty name) -/
def NoEmptyKey : FTree → Prop
  | .leaf _ => True
  | .node es => NoEmptyKeyList es
def NoEmptyKeyList : List (Bytes × FTree) → Prop
  | [] => True
  | (n, c) :: t => n ≠ [] ∧ NoEmptyKey c ∧ NoEmptyKeyList t
end

theorem noEmptyKeyList_iff : (es : List (Bytes × FTree)) →
    (NoEmptyKeyList es ↔ ∀ x ∈ es, x.1 ≠ [] ∧ NoEmptyKey x.2)
  | [] => by simp [NoEmptyKeyList]
  | (n, c) :: t => by simp [NoEmptyKeyList, noEmptyKeyList_iff t, and_assoc]

mutual
theorem treeLeaves_treeVal (hf : Bytes → FileHash) : (ft : FTree) → (pre : List Bytes) →
    NoEmptyKey ft →
    treeLeaves pre (treeVal hf ft) = (ftreeFiles pre ft).map (fun x => (x.1, leafProps hf x.2))
  | .leaf d, pre, _ => by simp [treeVal, leafVal_eq, treeLeaves, treeLeavesD, ftreeFiles]
  | .node es, pre, h => by
    simp only [treeVal, treeLeaves, ftreeFiles]
    exact treeLeavesD_treeValList hf es pre (by simpa [NoEmptyKey] using h)
theorem treeLeavesD_treeValList (hf : Bytes → FileHash) : (es : List (Bytes × FTree)) →
    (pre : List Bytes) → NoEmptyKeyList es →
    treeLeavesD pre (treeValList hf es)
      = (ftreeFilesList pre es).map (fun x => (x.1, leafProps hf x.2))
  | [], pre, _ => by simp [treeValList, treeLeavesD, ftreeFilesList]
  | (n, c) :: t, pre, h => by
    simp only [NoEmptyKeyList] at h
    simp only [treeValList, treeLeavesD, ftreeFilesList, h.1, if_false, List.map_append]
    rw [treeLeaves_treeVal hf c (pre ++ [n]) h.2.1, treeLeavesD_treeValList hf t pre h.2.2]
end

mutual
theorem traverse_noEmptyKey (enum : List (Bytes × FTree) → List (Bytes × FTree))
    (henum : ∀ l, (enum l).Perm l) : (t : Node) → WellNamed t → NoEmptyKey (traverse enum t)
  | .file d, _ => by simp [traverse, NoEmptyKey]
  | .dir es, h => by
    simp only [traverse, NoEmptyKey]
    rw [noEmptyKeyList_iff]
    intro x hx
    have hx' := (henum _).subset (List.mem_mergeSort.mp hx)
    simp only [WellNamed] at h
    exact (noEmptyKeyList_iff _).mp (traverseChildren_noEmptyKey enum henum es h.1) x hx'
theorem traverseChildren_noEmptyKey (enum : List (Bytes × FTree) → List (Bytes × FTree))
    (henum : ∀ l, (enum l).Perm l) : (es : List (Bytes × Node)) → WellNamedList es →
    NoEmptyKeyList (traverseChildren enum es)
  | [], _ => by simp [traverseChildren, NoEmptyKeyList]
  | (n, c) :: t, h => by
    simp only [WellNamedList] at h
    simp only [traverseChildren, NoEmptyKeyList]
    exact ⟨h.1, traverse_noEmptyKey enum henum c h.2.2.1,
      traverseChildren_noEmptyKey enum henum t h.2.2.2⟩
end

theorem ftreeFilesList_eq_flatMap (pre : List Bytes) : (es : List (Bytes × FTree)) →
    ftreeFilesList pre es = es.flatMap (fun x => ftreeFiles (pre ++ [x.1]) x.2)
  | [] => by simp [ftreeFilesList]
  | (n, c) :: t => by simp [ftreeFilesList, ftreeFilesList_eq_flatMap pre t]

theorem ftreeFilesList_perm (pre : List Bytes) {l₁ l₂ : List (Bytes × FTree)} (h : l₁.Perm l₂) :
    (ftreeFilesList pre l₁).Perm (ftreeFilesList pre l₂) := by
  rw [ftreeFilesList_eq_flatMap, ftreeFilesList_eq_flatMap]
  exact h.flatMap_right _

mutual
/-- the traversal visits exactly the files of the content tree (each once), whatever the
    enumeration order; `cs` are the path components already walked -/
theorem ftreeFiles_traverse_perm (enum : List (Bytes × FTree) → List (Bytes × FTree))
    (henum : ∀ l, (enum l).Perm l) (pre : Bytes) : (t : Node) → (cs : List Bytes) →
    ((ftreeFiles cs (traverse enum t)).map (fun x => (x.1.foldl join pre, x.2))).Perm
      (allFiles (cs.foldl join pre) t)
  | .file d, cs => by simp [traverse, ftreeFiles, allFiles]
  | .dir es, cs => by
    simp only [traverse, ftreeFiles, allFiles]
    exact (List.Perm.map _ (ftreeFilesList_perm cs
      ((List.mergeSort_perm _ _).trans (henum _)))).trans
      (ftreeFilesList_traverse_perm enum henum pre es cs)
theorem ftreeFilesList_traverse_perm (enum : List (Bytes × FTree) → List (Bytes × FTree))
    (henum : ∀ l, (enum l).Perm l) (pre : Bytes) : (es : List (Bytes × Node)) → (cs : List Bytes) →
    ((ftreeFilesList cs (traverseChildren enum es)).map (fun x => (x.1.foldl join pre, x.2))).Perm
      (allFilesList (cs.foldl join pre) es)
  | [], cs => by simp [traverseChildren, ftreeFilesList, allFilesList]
  | (n, c) :: t, cs => by
    simp only [traverseChildren, ftreeFilesList, allFilesList, List.map_append]
    have h1 := ftreeFiles_traverse_perm enum henum pre c (cs ++ [n])
    rw [List.foldl_append] at h1
    exact List.Perm.append h1 (ftreeFilesList_traverse_perm enum henum pre t cs)
end

/-! ### a traversal path leads to its file -/

theorem fileAtList_name : (es : List (Bytes × Node)) → (n : Bytes) → (r : List Bytes) →
    (d : Bytes) → fileAtList es n r = some d → n ∈ es.map (·.1)
  | [], n, r, d, h => by simp [fileAtList] at h
  | (m, c) :: t, n, r, d, h => by
    simp only [fileAtList] at h
    by_cases e : m = n
    · simp [e]
    · simp only [e, if_false] at h
      simp [fileAtList_name t n r d h]

mutual
theorem fileAt_of_ftreeFiles (enum : List (Bytes × FTree) → List (Bytes × FTree))
    (henum : ∀ l, (enum l).Perm l) : (t : Node) → WellNamed t → ∀ (cs p : List Bytes) (d : Bytes),
    (p, d) ∈ ftreeFiles cs (traverse enum t) → ∃ q, p = cs ++ q ∧ fileAt t q = some d
  | .file d0, _, cs, p, d, hm => by
    simp only [traverse, ftreeFiles, List.mem_singleton, Prod.mk.injEq] at hm
    exact ⟨[], by simp [hm.1], by simp [fileAt, hm.2]⟩
  | .dir es, h, cs, p, d, hm => by
    simp only [traverse, ftreeFiles] at hm
    have hm' := (ftreeFilesList_perm cs ((List.mergeSort_perm _ _).trans (henum _))).subset hm
    simp only [WellNamed] at h
    obtain ⟨n, q, hp, hf⟩ := fileAtList_of_ftreeFilesList enum henum es h.1 h.2 cs p d hm'
    exact ⟨n :: q, hp, by simp [fileAt, hf]⟩
theorem fileAtList_of_ftreeFilesList (enum : List (Bytes × FTree) → List (Bytes × FTree))
    (henum : ∀ l, (enum l).Perm l) : (es : List (Bytes × Node)) → WellNamedList es →
    (es.map (·.1)).Nodup → ∀ (cs p : List Bytes) (d : Bytes),
    (p, d) ∈ ftreeFilesList cs (traverseChildren enum es) →
    ∃ n q, p = cs ++ n :: q ∧ fileAtList es n q = some d
  | [], _, _, cs, p, d, hm => by simp [traverseChildren, ftreeFilesList] at hm
  | (m, c) :: t, h, hn, cs, p, d, hm => by
    simp only [WellNamedList] at h
    simp only [List.map_cons, List.nodup_cons] at hn
    simp only [traverseChildren, ftreeFilesList, List.mem_append] at hm
    rcases hm with hm | hm
    · obtain ⟨q, hp, hf⟩ := fileAt_of_ftreeFiles enum henum c h.2.2.1 (cs ++ [m]) p d hm
      exact ⟨m, q, by simp [hp], by simp [fileAtList, hf]⟩
    · obtain ⟨n, q, hp, hf⟩ := fileAtList_of_ftreeFilesList enum henum t h.2.2.2 hn.2 cs p d hm
      have hne : m ≠ n := by
        intro e; subst e
        exact hn.1 (fileAtList_name t m q d hf)
      exact ⟨n, q, hp, by simp [fileAtList, hne, hf]⟩
end

end TorrentVerif

import TorrentVerif.Proofs.RbPath
import TorrentVerif.Proofs.EndToEnd
/-
  Path strings of proper names: what `os.path.join`, `pathlib` and `safe_join` make of a torrent
  name followed by the components of a file of the content tree.
-/
namespace TorrentVerif
open Rebuild PosixPath Spec Impl

namespace RbMeta

/-- a proper name (`Spec.plainName`) is a clean path component -/
theorem cleanComp_of_plain (n : Bytes) (h : Spec.plainName n = true) : CleanComp n := by
  obtain ⟨h1, h2, h3, h4⟩ := E2E.plainName_parts n h
  exact ⟨h1, h2, h3, by simpa [Listing.sep] using h4⟩

theorem joinSep_cons_cons (a b : Bytes) (r : List Bytes) :
    joinSep (a :: b :: r) = a ++ 47 :: joinSep (b :: r) := rfl

theorem joinSep_append (l m : List Bytes) (hl : l ≠ []) (hm : m ≠ []) :
    joinSep (l ++ m) = joinSep l ++ 47 :: joinSep m := by
  induction l with
  | nil => exact absurd rfl hl
  | cons a r ih =>
    cases r with
    | nil =>
      cases m with
      | nil => exact absurd rfl hm
      | cons b m' => simp [joinSep]
    | cons b r' =>
      have := ih (by simp)
      simp only [List.cons_append] at this ⊢
      rw [joinSep_cons_cons, this, joinSep_cons_cons]
      simp

theorem joinSep_snoc (l : List Bytes) (c : Bytes) (hl : l ≠ []) :
    joinSep (l ++ [c]) = joinSep l ++ 47 :: c := by
  rw [joinSep_append l [c] hl (by simp)]; rfl

theorem joinSep_ne_nil (l : List Bytes) (hne : l ≠ []) (hl : ∀ c ∈ l, c ≠ []) : joinSep l ≠ [] :=
  fun h => hne (joinSep_eq_nil l hl h)

/-- the last byte of `"/".join(l)` is the last byte of the last component -/
theorem joinSep_getLast (l : List Bytes) (c : Bytes) :
    (joinSep (l ++ [c])).getLast? = if c = [] then (if l = [] then none else some 47) else c.getLast? := by
  by_cases hl : l = []
  · subst hl; by_cases hc : c = [] <;> simp [joinSep, hc]
  · rw [joinSep_snoc l c hl]
    by_cases hc : c = []
    · subst hc; simp [hl]
    · simp only [hc, if_false]
      rw [List.getLast?_append]
      simp [List.getLast?_cons]
      cases h : c.getLast? with
      | none => exact absurd (List.getLast?_eq_none_iff.mp h) hc
      | some x => simp

theorem getLast_ne_sep (c : Bytes) (h2 : (47 : UInt8) ∉ c) : c.getLast? ≠ some 47 := by
  intro h
  exact h2 (List.mem_of_getLast? h)

/-- `os.path.join(name, *cs)` of proper names is `"/".join([name] + cs)` -/
theorem joinAll_plain (l : List Bytes) (hl : l ≠ []) (hc : ∀ c ∈ l, c ≠ [] ∧ (47 : UInt8) ∉ c)
    (cs : List Bytes) (hcs : ∀ c ∈ cs, c ≠ [] ∧ (47 : UInt8) ∉ c) :
    joinAll (joinSep l) cs = joinSep (l ++ cs) := by
  induction cs generalizing l with
  | nil => simp [joinAll]
  | cons c r ih =>
    have hcc := hcs c List.mem_cons_self
    have hstep : PosixPath.join (joinSep l) c = joinSep (l ++ [c]) := by
      unfold PosixPath.join
      have h1 : c.head? ≠ some 47 := by
        intro h
        cases c with
        | nil => simp at h
        | cons x xs => simp at h; subst h; exact hcc.2 List.mem_cons_self
      rw [if_neg h1]
      have h2 : ¬ (joinSep l = [] ∨ (joinSep l).getLast? = some 47) := by
        intro h
        rcases h with h | h
        · exact joinSep_ne_nil l hl (fun x hx => (hc x hx).1) h
        · obtain ⟨l', x, rfl⟩ : ∃ l' x, l = l' ++ [x] :=
            ⟨l.dropLast, l.getLast hl, (List.dropLast_concat_getLast hl).symm⟩
          have hx := hc x (by simp)
          rw [joinSep_getLast, if_neg hx.1] at h
          exact getLast_ne_sep x hx.2 h
      rw [if_neg h2, joinSep_snoc l c hl]
    have := ih (l ++ [c]) (by simp)
      (by intro x hx
          rcases List.mem_append.mp hx with h | h
          · exact hc x h
          · simp at h; subst h; exact hcc)
      (fun x hx => hcs x (List.mem_cons_of_mem _ hx))
    simp only [joinAll, List.foldl_cons] at this ⊢
    rw [hstep, this]
    simp

/-- `str(PurePosixPath(*l))` of proper names is `"/".join(l)` -/
theorem pathlibStr_plain (l : List Bytes) (hl : l ≠ []) (hc : ∀ c ∈ l, CleanComp c) :
    pathlibStr l = joinSep l := by
  have hc' : ∀ c ∈ l, c ≠ [] ∧ (47 : UInt8) ∉ c := fun c h => ⟨(hc c h).ne_nil, (hc c h).noSep⟩
  obtain ⟨a, r, rfl⟩ : ∃ a r, l = a :: r := by
    cases l with
    | nil => exact absurd rfl hl
    | cons a r => exact ⟨a, r, rfl⟩
  unfold pathlibStr
  have hj : joinAll a r = joinSep (a :: r) := by
    have := joinAll_plain [a] (by simp) (fun c h => hc' c (by simp at h; subst h; simp))
      r (fun c h => hc' c (List.mem_cons_of_mem _ h))
    simpa [joinSep] using this
  simp only [hj]
  have hk : initialSlashes (joinSep (a :: r)) = 0 := by
    unfold initialSlashes
    rw [if_pos (joinSep_head (a :: r) hc)]
  simp only [hk, List.drop_zero, List.replicate_zero, List.nil_append]
  rw [splitSep_joinSep (a :: r) hl (fun c h => (hc' c h).2)]
  have hf : (a :: r).filter (fun c => decide (c ≠ [] ∧ c ≠ DOT)) = a :: r := by
    apply List.filter_eq_self.mpr
    intro c h
    simp only [decide_eq_true_eq]
    exact ⟨(hc c h).1, (hc c h).2.1⟩
  rw [hf, if_neg (joinSep_ne_nil _ hl (fun c h => (hc' c h).1))]

theorem commonPrefix_append (a ext : List Bytes) : commonPrefix a (a ++ ext) = a := by
  induction a with
  | nil => cases ext <;> simp [commonPrefix]
  | cons x xs ih => simp [commonPrefix, ih]

theorem render_inj (p q : Path) (hp : CleanPath p) (hq : CleanPath q) (h : render p = render q) : p = q := by
  unfold render at h
  injection h with _ h
  exact joinSep_inj p q (fun c hc => ⟨(hp c hc).ne_nil, (hp c hc).noSep⟩)
    (fun c hc => ⟨(hq c hc).ne_nil, (hq c hc).noSep⟩) h

/-- `safe_join(dest, "c1/…/cn")` for proper names is `dest/c1/…/cn` -/
theorem safeJoin_plain (dest : Path) (hd : CleanPath dest) (cs : List Bytes) (hne : cs ≠ [])
    (hcs : ∀ c ∈ cs, CleanComp c) : safeJoin dest (joinSep cs) = some (dest ++ cs) := by
  have hq : CleanPath (dest ++ cs) := by
    intro c hc
    rcases List.mem_append.mp hc with h | h
    · exact hd c h
    · exact hcs c h
  have hjoin : PosixPath.join (render dest) (joinSep cs) = render (dest ++ cs) := by
    unfold PosixPath.join
    rw [if_neg (joinSep_head cs hcs)]
    by_cases hde : dest = []
    · subst hde
      simp [render, joinSep]
    · have h2 : ¬ (render dest = [] ∨ (render dest).getLast? = some 47) := by
        intro h
        rcases h with h | h
        · simp [render] at h
        · obtain ⟨l', x, rfl⟩ : ∃ l' x, dest = l' ++ [x] :=
            ⟨dest.dropLast, dest.getLast hde, (List.dropLast_concat_getLast hde).symm⟩
          have hx := hd x (by simp)
          unfold render at h
          rw [List.getLast?_cons, joinSep_getLast, if_neg hx.ne_nil] at h
          cases hl : x.getLast? with
          | none => exact hx.ne_nil (List.getLast?_eq_none_iff.mp hl)
          | some y =>
            rw [hl] at h
            simp at h
            subst h
            exact getLast_ne_sep x hx.noSep hl
      rw [if_neg h2]
      unfold render
      rw [joinSep_append dest cs hde hne]
      simp
  unfold safeJoin safeJoinStr abspath
  rw [normpath_render dest hd]
  simp only
  rw [hjoin, normpath_render _ hq]
  have hstrip : stripSlash (render (dest ++ cs)) = render (dest ++ cs) := by
    have := stripSlash_norm 1 (Or.inl rfl) (dest ++ cs) hq
    simpa [render, List.replicate] using this
  rw [hstrip]
  have hne' : render (dest ++ cs) ≠ render dest := by
    intro h
    have := render_inj _ _ hq hd h
    have hlen := congrArg List.length this
    simp at hlen
    exact hne hlen
  have hcp : commonpath (render dest) (render (dest ++ cs)) = some (render dest) := by
    unfold commonpath
    have ha : ∀ p : Path, (render p).head? = some 47 := fun p => by simp [render]
    simp only [ha, decide_true, ne_eq, not_true_eq_false, if_false, if_true]
    rw [(splitSep_render dest hd).2, (splitSep_render _ hq).2, commonPrefix_append]
    rfl
  rw [if_neg (by
    intro h
    rcases h with h | h
    · exact hne' h
    · exact h hcp)]
  simp only [Option.map_some]
  have : comps (render (dest ++ cs)) = dest ++ cs := (splitSep_render _ hq).1
  rw [this]

end RbMeta
end TorrentVerif

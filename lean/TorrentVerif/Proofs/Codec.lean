import TorrentVerif.Proofs.Bencode
import TorrentVerif.Proofs.Dict
/-
  * `canon` / `uniq` unfolded to statements about keys and items;
  * the lenient pyben decoder inverts the encoder on values with unique keys (`dec_encode`);
  * `valueSpan` finds the raw bytes of a top-level value (`valueSpan_encode`).
-/
namespace TorrentVerif

/-! ### canonical / unique keys, unfolded -/

theorem canonD_iff (d : Dict) : canonD d = true ↔ ∀ kv ∈ d, canon kv.2 = true := by
  induction d with
  | nil => simp [canonD]
  | cons kv r ih => obtain ⟨k, v⟩ := kv; simp [canonD, ih]

theorem canonL_iff (l : List BVal) : canonL l = true ↔ ∀ v ∈ l, canon v = true := by
  induction l with
  | nil => simp [canonL]
  | cons v r ih => simp [canonL, ih]

theorem canon_dict (d : Dict) :
    canon (.dict d) = true ↔ strictAsc (keys d) = true ∧ ∀ kv ∈ d, canon kv.2 = true := by
  simp only [canon, Bool.and_eq_true, canonD_iff]; rfl

theorem canon_list (l : List BVal) : canon (.list l) = true ↔ ∀ v ∈ l, canon v = true := by
  simp only [canon, canonL_iff]

theorem uniqD_iff (d : Dict) : uniqD d = true ↔ ∀ kv ∈ d, uniq kv.2 = true := by
  induction d with
  | nil => simp [uniqD]
  | cons kv r ih => obtain ⟨k, v⟩ := kv; simp [uniqD, ih]

theorem uniqL_iff (l : List BVal) : uniqL l = true ↔ ∀ v ∈ l, uniq v = true := by
  induction l with
  | nil => simp [uniqL]
  | cons v r ih => simp [uniqL, ih]

theorem uniq_dict (d : Dict) :
    uniq (.dict d) = true ↔ (keys d).Nodup ∧ ∀ kv ∈ d, uniq kv.2 = true := by
  simp only [uniq, Bool.and_eq_true, uniqD_iff, uniqKeys_iff_nodup]; rfl

mutual
/-- canonical values have unique keys -/
theorem canon_uniq : ∀ v : BVal, canon v = true → uniq v = true
  | .int _, _ => rfl
  | .str _, _ => rfl
  | .list l, h => by simp only [canon] at h; simp only [uniq]; exact canonL_uniqL l h
  | .dict d, h => by
    simp only [canon, Bool.and_eq_true] at h
    simp only [uniq, Bool.and_eq_true]
    exact ⟨(uniqKeys_iff_nodup _).mpr (strictAsc_nodup _ h.1), canonD_uniqD d h.2⟩
theorem canonL_uniqL : ∀ l : List BVal, canonL l = true → uniqL l = true
  | [], _ => rfl
  | v :: vs, h => by
    simp only [canonL, Bool.and_eq_true] at h
    simp only [uniqL, Bool.and_eq_true]
    exact ⟨canon_uniq v h.1, canonL_uniqL vs h.2⟩
theorem canonD_uniqD : ∀ d : List (Bytes × BVal), canonD d = true → uniqD d = true
  | [], _ => rfl
  | (_, v) :: r, h => by
    simp only [canonD, Bool.and_eq_true] at h
    simp only [uniqD, Bool.and_eq_true]
    exact ⟨canon_uniq v h.1, canonD_uniqD r h.2⟩
end

/-- strings and lists of strings are canonical -/
theorem canon_list_str (l : List Bytes) : canon (.list (l.map .str)) = true := by
  rw [canon_list]; intro v hv
  obtain ⟨s, _, rfl⟩ := List.mem_map.mp hv
  rfl

/-- sorting a dictionary with distinct keys and canonical values gives a canonical dictionary -/
theorem canon_sortDict (d : Dict) (hn : (keys d).Nodup) (hv : ∀ kv ∈ d, canon kv.2 = true) :
    canon (.dict (sortDict d)) = true := by
  rw [canon_dict]
  refine ⟨strictAsc_sortDict d hn, ?_⟩
  intro kv hkv; exact hv kv ((mem_sortDict d kv).mp hkv)

/-! ### the lenient decoder on encodings of values with unique keys -/
namespace Impl

theorem decStr_encStr (s r : Bytes) : decStr (encStr s ++ r) = some (s, r) := by
  obtain ⟨c, t, hc, hd⟩ := natDec_head_digit s.length
  have hrn := readNat_natDec s.length (58 :: (s ++ r)) (by intro c r' h; cases h; decide)
  unfold decStr encStr
  rw [List.append_assoc, hc] at *
  simp only [List.cons_append, hd, if_true]
  rw [List.cons_append] at hrn
  rw [hrn]
  simp

theorem decInt_encInt (i : Int) (r : Bytes) :
    decInt ((if i < 0 then [45] else []) ++ natDec i.natAbs ++ [101] ++ r) = some (i, r) := by
  obtain ⟨c, t, hc, hd⟩ := natDec_head_digit i.natAbs
  have hrn := readNat_natDec i.natAbs (101 :: r) (by intro c r' h; cases h; decide)
  have hne := isDigit_ne c hd
  by_cases hi : i < 0
  · simp only [hi, if_true, List.append_assoc, List.cons_append, List.nil_append]
    unfold decInt
    simp only [if_true]
    rw [hc] at hrn ⊢
    simp only [List.cons_append] at hrn ⊢
    simp only [hd, if_true, hrn, Option.some.injEq, Prod.mk.injEq, and_true]
    omega
  · simp only [hi, if_false, List.append_assoc, List.singleton_append, List.nil_append]
    rw [hc] at hrn ⊢
    simp only [List.cons_append] at hrn ⊢
    unfold decInt
    simp only [hne.2.2.2.2, if_false, hd, if_true, hrn, Option.some.injEq, Prod.mk.injEq, and_true]
    omega

theorem dec_str (fuel : Nat) (s r : Bytes) : dec (fuel + 1) (encStr s ++ r) = some (.str s, r) := by
  obtain ⟨c, t, hc, hd⟩ := encStr_head s
  have hne := isDigit_ne c hd
  have hs := decStr_encStr s r
  rw [hc] at hs ⊢
  simp only [List.cons_append] at hs ⊢
  simp [dec, hne.1, hd, hs]

mutual
theorem dec_encode : ∀ (v : BVal) (fuel : Nat) (r : Bytes), uniq v = true →
    (encode v).length ≤ fuel → dec fuel (encode v ++ r) = some (v, r)
  | .int i, fuel, r, _, h => by
    cases fuel with
    | zero => simp [encode, encInt] at h
    | succ f =>
      have := decInt_encInt i r
      simp only [List.append_assoc, List.singleton_append] at this
      simp [encode, encInt, dec, this]
  | .str s, fuel, r, _, h => by
    cases fuel with
    | zero => have := encStr_length_pos s; simp only [encode] at h; omega
    | succ f => simpa [encode] using dec_str f s r
  | .list l, fuel, r, hu, h => by
    cases fuel with
    | zero => simp [encode] at h
    | succ f =>
      simp only [encode, List.length_cons, List.length_append] at h
      simp only [uniq] at hu
      have := decList_encode l f r hu (by omega)
      have h1 : ¬ isDigit 108 = true := by decide
      simp [encode, dec, this, h1]
  | .dict d, fuel, r, hu, h => by
    cases fuel with
    | zero => simp [encode] at h
    | succ f =>
      simp only [encode, List.length_cons, List.length_append] at h
      simp only [uniq, Bool.and_eq_true, uniqKeys_iff_nodup] at hu
      have := decDict_encode d f [] r hu.2 (by simpa [keys] using hu.1) (by omega)
      have h1 : ¬ isDigit 100 = true := by decide
      simp [encode, dec, this, h1]
theorem decList_encode : ∀ (l : List BVal) (fuel : Nat) (r : Bytes), uniqL l = true →
    (encodeL l).length + 1 ≤ fuel → decList fuel (encodeL l ++ 101 :: r) = some (l, r)
  | [], fuel, r, _, h => by
    cases fuel with
    | zero => simp at h
    | succ f => simp [encodeL, decList]
  | v :: vs, fuel, r, hu, h => by
    cases fuel with
    | zero => simp at h
    | succ f =>
      simp only [encodeL, List.length_append] at h
      simp only [uniqL, Bool.and_eq_true] at hu
      have hp := encode_length_pos v
      obtain ⟨c, t, hc, hne⟩ := encode_head v
      have h1 := dec_encode v f (encodeL vs ++ 101 :: r) hu.1 (by omega)
      have h2 := decList_encode vs f r hu.2 (by omega)
      simp only [encodeL, List.append_assoc]
      rw [hc] at h1 ⊢
      simp only [List.cons_append] at h1 ⊢
      simp [decList, hne, h1, h2]
theorem decDict_encode : ∀ (d : List (Bytes × BVal)) (fuel : Nat) (acc : Dict) (r : Bytes),
    uniqD d = true → (keys (acc ++ d)).Nodup → (encodeD d).length + 1 ≤ fuel →
    decDict fuel acc (encodeD d ++ 101 :: r) = some (acc ++ d, r)
  | [], fuel, acc, r, _, _, h => by
    cases fuel with
    | zero => simp at h
    | succ f => simp [encodeD, decDict]
  | (k, v) :: kvs, fuel, acc, r, hu, hn, h => by
    cases fuel with
    | zero => simp at h
    | succ f =>
      simp only [encodeD, List.length_append] at h
      simp only [uniqD, Bool.and_eq_true] at hu
      have hp := encStr_length_pos k
      obtain ⟨c, t, hc, hd⟩ := encStr_head k
      have hne := (isDigit_ne c hd).2.2.2.1
      have h0 := decStr_encStr k (encode v ++ (encodeD kvs ++ 101 :: r))
      have h1 := dec_encode v f (encodeD kvs ++ 101 :: r) hu.1 (by omega)
      have hk : k ∉ keys acc := by
        rw [keys_append, keys_cons, List.nodup_append] at hn
        intro hk; exact hn.2.2 k hk k (by simp) rfl
      have hset : dictSet acc k v = acc ++ [(k, v)] := dictSet_of_not_mem acc k v hk
      have h2 := decDict_encode kvs f (acc ++ [(k, v)]) r hu.2
        (by simpa [List.append_assoc] using hn) (by omega)
      simp only [encodeD, List.append_assoc]
      rw [hc] at h0 ⊢
      simp only [List.cons_append] at h0 ⊢
      simp [decDict, hne, h0, h1, hset, h2]
end

/-- pyben reads back exactly what it wrote, for every value with unique keys -/
theorem decode_encode (v : BVal) (r : Bytes) (hu : UniqueKeys v = true) :
    decode (encode v ++ r) = some (v, r) := by
  unfold decode
  exact dec_encode v _ r hu (by simp)

end Impl

/-! ### locating a value on the raw bytes -/
namespace Spec

theorem spanLoop_encode (key : Bytes) : ∀ (d : Dict) (fuel : Nat) (r : Bytes), d.length + 1 ≤ fuel →
    spanLoop key fuel (Impl.encodeD d ++ 101 :: r) = (dictGet d key).map Impl.encode
  | [], fuel, r, h => by
    cases fuel with
    | zero => simp at h
    | succ f => simp [Impl.encodeD, spanLoop, dictGet]
  | (k, v) :: kvs, fuel, r, h => by
    cases fuel with
    | zero => simp at h
    | succ f =>
      obtain ⟨c, t, hc, hd⟩ := encStr_head k
      have hne := (isDigit_ne c hd).2.2.2.1
      have h0 := pStr_encStr k (Impl.encode v ++ (Impl.encodeD kvs ++ 101 :: r))
      have h1 := parse_encode v (Impl.encode v ++ (Impl.encodeD kvs ++ 101 :: r)).length
        (Impl.encodeD kvs ++ 101 :: r) (by simp)
      have h2 := spanLoop_encode key kvs f r (by simp at h; omega)
      simp only [Impl.encodeD, List.append_assoc]
      rw [hc] at h0 ⊢
      simp only [List.cons_append] at h0 ⊢
      unfold spanLoop
      simp only [hne, if_false, h0, h1]
      by_cases e : k = key
      · subst e
        simp [dictGet]
      · simp [e, dictGet, h2]

/-- On the encoding of a dictionary, `valueSpan key` is the encoding of the value stored
    under `key` (of the first such item), i.e. the raw bytes of that value. -/
theorem valueSpan_encode (key : Bytes) (d : Dict) :
    valueSpan key (Impl.encode (.dict d)) = (dictGet d key).map Impl.encode := by
  simp only [Impl.encode, valueSpan, if_true]
  have : d.length + 1 ≤ (Impl.encodeD d ++ [101]).length := by
    induction d with
    | nil => simp
    | cons kv r ih =>
      obtain ⟨k, v⟩ := kv
      have := encStr_length_pos k
      simp only [Impl.encodeD, List.length_append, List.length_cons] at ih ⊢
      omega
  exact spanLoop_encode key d _ [] this

end Spec
end TorrentVerif

import TorrentVerif.Proofs.RbV1First
/-
  `Proofs/RbV1First.lean` once more, with the global injectivity of the digest replaced by the
  absence of collisions AMONG THE CONCRETE CANDIDATES (`NoPieceCollision`): a digest of 20 bytes
  cannot be injective on all byte strings, so the end-to-end theorems (which need 20-byte digests
  to cut `info["pieces"]`) use this local hypothesis.  The proofs are those of
  `findMatches_first`, `firstLoop`, `matchV1_restores` with the one use of injectivity replaced.
-/
namespace TorrentVerif
open Rebuild PosixPath Spec

namespace Impl

/-- no collision among the concrete candidates: two combinations of candidates for the path nodes
    of a piece whose data both have the recorded digest have the same data (true of any pair of
    combinations unless `H1` collides on them) -/
def NoPieceCollision (H1 : Bytes → Bytes) (fs0 : FS) (filemap : FileMap)
    (pns : List (Bytes × List PathNode)) : Prop :=
  ∀ pp ∈ pns, ∀ choice choice0, Combo fs0 filemap pp.2 choice → Combo fs0 filemap pp.2 choice0 →
    H1 (comboData pp.2 choice) = pp.1 → H1 (comboData pp.2 choice0) = pp.1 →
    comboData pp.2 choice = comboData pp.2 choice0

/-- an injective digest has no collisions -/
theorem noPieceCollision_of_inj (H1 : Bytes → Bytes) (hinj : ∀ a b, H1 a = H1 b → a = b) (fs0 : FS)
    (filemap : FileMap) (pns : List (Bytes × List PathNode)) : NoPieceCollision H1 fs0 filemap pns :=
  fun _ _ _ _ _ _ h1 h2 => hinj _ _ (h1.trans h2.symm)

theorem findMatches_first_local (H1 : Bytes → Bytes) (fs : FS)
    (filemap : FileMap) (dest : Path) (piece : Bytes)
    (hsize : ∀ name cands, filemap.lookup name = some cands → ∀ x ∈ cands, ∀ d,
      fs.readFile? x.1 = some d → d.length = x.2)
    (paths : List PathNode) :
    ∀ (choice0 : List (Path × Bytes)) (data : Bytes) (calls : List (Path × Path)),
      Combo fs filemap paths choice0 → H1 (data ++ comboData paths choice0) = piece →
      (∀ choice, Combo fs filemap paths choice → H1 (data ++ comboData paths choice) = piece →
        comboData paths choice = comboData paths choice0) →
      findMatches H1 fs filemap dest piece paths data = some calls →
      ∃ choice, Combo fs filemap paths choice ∧ calls = comboCalls dest paths choice ∧
        FirstCombo fs filemap paths choice choice0 := by
  induction paths with
  | nil =>
    intro choice0 data calls hc0 _ _ h
    cases choice0 with
    | cons a as => exact absurd hc0 (by simp [Combo])
    | nil =>
      simp only [findMatches] at h
      split at h
      · injection h with h
        exact ⟨[], trivial, by simp [comboCalls, ← h], trivial⟩
      · cases h
  | cons pn ps ih =>
    intro choice0 data calls hc0 hhash0 hloc h
    cases choice0 with
    | nil => exact absurd hc0 (by simp [Combo])
    | cons c0 cs0 =>
      obtain ⟨hhead0, hrest0⟩ := hc0
      cases hpad : pn.file.pad with
      | true =>
        simp only [findMatches, hpad, if_true] at h
        have hloc' : ∀ choice, Combo fs filemap ps choice →
            H1 ((data ++ padPart pn) ++ comboData ps choice) = piece →
            comboData ps choice = comboData ps cs0 := by
          intro choice hch hh
          have := hloc (([], []) :: choice)
            ⟨fun hf => absurd (hpad.symm.trans hf) (by decide), hch⟩
            (by simpa [comboData, nodePart_pad hpad, List.append_assoc] using hh)
          simp only [comboData, nodePart_pad hpad] at this
          exact List.append_cancel_left this
        obtain ⟨choice, hcombo, hcalls, hfirst⟩ := ih cs0 (data ++ padPart pn) calls hrest0
          (by simpa [comboData, nodePart_pad hpad, List.append_assoc] using hhash0) hloc' h
        refine ⟨([], []) :: choice, ⟨fun hf => absurd (hpad.symm.trans hf) (by decide), hcombo⟩, ?_,
          ⟨fun hf => absurd (hpad.symm.trans hf) (by decide), hfirst⟩⟩
        simp [comboCalls, hpad, hcalls]
      | false =>
      obtain ⟨cands0, sz0, hl0, hm0, hsz0, hread0⟩ := hhead0 hpad
      simp only [comboData, nodePart_file hpad] at hhash0
      simp only [findMatches, hpad, Bool.false_eq_true, if_false, hl0] at h
      obtain ⟨l1, a, l2, hsplit, hfa, hbefore⟩ := List.findSome?_eq_some_iff.mp h
      have hlen0 : c0.2.length = pn.file.length := by
        rw [hsize _ _ hl0 _ hm0 _ hread0]; exact hsz0
      -- the chosen candidate
      split at hfa
      · cases hfa
      · rename_i hsza
        have hsza' : a.2 = pn.file.length := Classical.not_not.mp hsza
        cases hr : fs.readFile? a.1 with
        | none => rw [hr] at hfa; cases hfa
        | some d =>
          rw [hr] at hfa
          simp only at hfa
          cases hrec : findMatches H1 fs filemap dest piece ps (data ++ getPart pn.start pn.stop d) with
          | none => rw [hrec] at hfa; cases hfa
          | some calls' =>
            rw [hrec] at hfa
            simp only at hfa
            injection hfa with hfa
            have hmema : a ∈ cands0 := by rw [hsplit]; simp
            have hlena : d.length = pn.file.length := by rw [hsize _ _ hl0 _ hmema _ hr]; exact hsza'
            -- the chosen part equals the reference part
            obtain ⟨ch', hch', hh', _⟩ := findMatches_sound H1 fs filemap dest piece ps _ _ hrec
            have heq' : getPart pn.start pn.stop d ++ comboData ps ch'
                = getPart pn.start pn.stop c0.2 ++ comboData ps cs0 := by
              have := hloc ((a.1, d) :: ch') ⟨fun _ => ⟨cands0, a.2, hl0, hmema, hsza', hr⟩, hch'⟩
                (by simpa [comboData, nodePart_file hpad, List.append_assoc] using hh')
              simpa [comboData, nodePart_file hpad] using this
            have hpl : (getPart pn.start pn.stop d).length = (getPart pn.start pn.stop c0.2).length := by
              rw [getPart_length, getPart_length, hlena, hlen0]
            obtain ⟨hpart, _⟩ := List.append_inj heq' hpl
            have hhash1 : H1 ((data ++ getPart pn.start pn.stop d) ++ comboData ps cs0) = piece := by
              rw [hpart]; simpa [comboData, List.append_assoc] using hhash0
            have hloc' : ∀ choice, Combo fs filemap ps choice →
                H1 ((data ++ getPart pn.start pn.stop d) ++ comboData ps choice) = piece →
                comboData ps choice = comboData ps cs0 := by
              intro choice hch hh
              have := hloc ((a.1, d) :: choice) ⟨fun _ => ⟨cands0, a.2, hl0, hmema, hsza', hr⟩, hch⟩
                (by simpa [comboData, nodePart_file hpad, List.append_assoc] using hh)
              simp only [comboData, nodePart_file hpad, hpart] at this
              exact List.append_cancel_left this
            obtain ⟨choice, hcombo, hcalls, hfirst⟩ := ih cs0 _ _ hrest0 hhash1 hloc' hrec
            refine ⟨(a.1, d) :: choice, ⟨fun _ => ⟨cands0, a.2, hl0, hmema, hsza', hr⟩, hcombo⟩, ?_,
              ⟨fun _ => ⟨hpart, ?_⟩, hfirst⟩⟩
            · simp only [comboCalls, hpad, Bool.false_eq_true, if_false]; rw [← hfa, hcalls]
              cases safeJoin dest pn.file.full <;> rfl
            · refine ⟨cands0, l1, a.2, l2, hl0, hsplit, hsza', ?_⟩
              intro x hx hxsz dx hdx hagree
              have hfx := hbefore x hx
              simp only [hxsz, ne_eq, not_true_eq_false, if_false, hdx] at hfx
              have hcomp := findMatches_complete_combo H1 fs filemap dest piece ps cs0
                (data ++ getPart pn.start pn.stop dx) hrest0
                (by rw [hagree]; simpa [comboData, List.append_assoc] using hhash0)
              cases hrx : findMatches H1 fs filemap dest piece ps (data ++ getPart pn.start pn.stop dx) with
              | none => rw [hrx] at hcomp; cases hcomp
              | some cx => rw [hrx] at hfx; cases hfx


theorem firstLoop_local (H1 : Bytes → Bytes) (ds : Nat) (fs0 : FS)
    (filemap : FileMap) (dest : Path) (files : List FileRec) (orig : List Bytes)
    (hd : CleanPath dest) (hok : FilemapOK fs0 dest filemap) (hsep : DestsSeparate dest files)
    (hlens : files.map (·.length) = orig.map List.length)
    (pns : List (Bytes × List PathNode))
    (hlink : ∀ pp ∈ pns, ∀ pn ∈ pp.2, files[pn.idx]? = some pn.file)
    (hsolv : ∀ pp ∈ pns, SolvableOrig H1 fs0 filemap orig pp)
    (hF : NoFirstPieceDecoy fs0 filemap pns orig)
    (hnc : NoPieceCollision H1 fs0 filemap pns) :
    ∀ post pre fs copied, pns = pre ++ post → SInv fs0 dest files orig fs copied pre →
      CopiesOrig fs0 dest files orig (matchV1Loop H1 ds filemap dest fs copied post).1 ∧
      Keeps dest files orig fs (applyOps fs (matchV1Loop H1 ds filemap dest fs copied post).1) ∧
      (∀ pp ∈ post, ∀ pn ∈ pp.2, pn.file.pad = false → ∀ d, safeJoin dest pn.file.full = some d →
        ∃ o, orig[pn.idx]? = some o ∧
          (applyOps fs (matchV1Loop H1 ds filemap dest fs copied post).1) d = some (.file o)) := by
  intro post
  induction post with
  | nil =>
    intro pre fs copied _ _
    exact ⟨fun _ _ h => by simp [matchV1Loop] at h, fun _ _ _ _ _ _ _ _ h => h, fun _ h => by simp at h⟩
  | cons pp rest ih =>
    intro pre fs copied hsplit inv
    obtain ⟨piece, paths⟩ := pp
    have hppmem : (piece, paths) ∈ pns := by rw [hsplit]; simp
    have hsplit' : pns = (pre ++ [(piece, paths)]) ++ rest := by rw [hsplit]; simp
    simp only [matchV1Loop]
    cases hskip : skipPiece copied paths with
    | true =>
      simp only [if_true]
      obtain ⟨pn0, hp0, hin⟩ := skipPiece_true hskip
      have inv' : SInv fs0 dest files orig fs copied (pre ++ [(piece, paths)]) := by
        refine ⟨inv.core, inv.done, ?_⟩
        intro pp hpp pn hpn hpad
        rcases List.mem_append.mp hpp with h | h
        · exact inv.seen pp h pn hpn hpad
        · simp at h; subst h
          simp only [hp0, List.mem_singleton] at hpn
          subst hpn; exact hin
      obtain ⟨h1, h2, h3⟩ := ih _ fs copied hsplit' inv'
      refine ⟨h1, h2, ?_⟩
      intro pp hpp pn hpn hpad d hsj
      cases hpp with
      | head =>
        simp only [hp0, List.mem_singleton] at hpn
        subst hpn
        have hl := hlink _ hppmem pn (by simp [hp0])
        obtain ⟨o, ho, hfile⟩ := inv.done _ hin pn.idx pn.file d hl hpad rfl hsj
        exact ⟨o, ho, h2 _ _ d o hl hpad hsj ho hfile⟩
      | tail _ hpp => exact h3 pp hpp pn hpn hpad d hsj
    | false =>
      simp only [Bool.false_eq_true, if_false]
      obtain ⟨choice0, hcombo0, hhash0, horig⟩ := hsolv _ hppmem
      have hsome := findMatches_complete_combo H1 fs filemap dest piece paths choice0 []
        (combo_agree inv.core.agree hok hcombo0) (by simpa using hhash0)
      cases hf : findMatches H1 fs filemap dest piece paths [] with
      | none => rw [hf] at hsome; cases hsome
      | some calls =>
        simp only
        have hsize : ∀ name cands, filemap.lookup name = some cands → ∀ x ∈ cands, ∀ d,
            fs.readFile? x.1 = some d → d.length = x.2 := by
          intro name cands hl x hx d hdx
          obtain ⟨hnp, d', hd', hlen'⟩ := hok _ _ hl _ hx
          rw [agree_readFile inv.core.agree hnp, hd'] at hdx
          injection hdx with hdx
          rw [← hdx]; exact hlen'
        obtain ⟨choice, hcombo, hcalls, hfirst⟩ := findMatches_first_local H1 fs filemap dest piece hsize
          paths choice0 [] calls (combo_agree inv.core.agree hok hcombo0) (by simpa using hhash0)
          (fun ch hch hh => hnc _ hppmem ch choice0 (combo_agree' inv.core.agree hok hch) hcombo0
            (by simpa using hh) hhash0) hf
        have hcomboF := combo_agree' inv.core.agree hok hcombo
        -- every call of the batch is justified
        have hjust : ∀ call ∈ calls, CallJust fs0 dest files orig fs call := by
          intro call hc
          rw [hcalls] at hc
          obtain ⟨pc, hpc, hsrc, hsj, hpcpad⟩ := comboCalls_mem (src := call.1) (dst := call.2) hc
          obtain ⟨c0, hz0, hpart, candsF, l1, szF, l2, hlF, hsplitF, hszF, hbefore⟩ :=
            firstCombo_zip_mem hfirst pc hpc hpcpad
          have ho := horig _ hz0 hpcpad
          simp only at ho
          obtain ⟨cands, sz, hl, hm, hsz, hread⟩ := combo_zip_mem hcomboF pc hpc hpcpad
          obtain ⟨hnp, dd, hdd, hlen'⟩ := hok _ _ hl _ hm
          rw [hread] at hdd; injection hdd with hdd
          have hpn : pc.1 ∈ paths := (List.of_mem_zip hpc).1
          have hlk := hlink _ hppmem pc.1 hpn
          have hrl := lens_eq hlens hlk ho
          refine ⟨pc.1.idx, pc.1.file, pc.2.2, c0.2, hlk, hpcpad, hsj, ho, hsrc ▸ hread, hsrc ▸ hnp, ?_, ?_⟩
          · rw [hdd, hlen', hsz, hrl]
          · by_cases hin : pc.1.file.full ∈ copied
            · right
              obtain ⟨o, ho', hfile⟩ := inv.done _ hin pc.1.idx pc.1.file call.2 hlk hpcpad rfl hsj
              rw [ho] at ho'; injection ho' with ho'; subst ho'
              exact hfile
            · left
              have hfirstpiece : ∀ pp' ∈ pre, ∀ pn' ∈ pp'.2, pn'.idx ≠ pc.1.idx := by
                intro pp' hpp' pn' hpn' heq
                apply hin
                have hl' := hlink pp' (by rw [hsplit]; exact List.mem_append_left _ hpp') pn' hpn'
                rw [heq, hlk] at hl'
                injection hl' with hl'
                rw [hl']
                exact inv.seen pp' hpp' pn' hpn' (by rw [← hl']; exact hpcpad)
              -- the intact candidate of this node
              obtain ⟨cands0, sz0, hl0, hm0, hsz0, hread0⟩ := combo_zip_mem hcombo0 (pc.1, c0) hz0 hpcpad
              simp only at hl0 hm0 hsz0 hread0
              rw [hlF] at hl0; injection hl0 with hl0; subst hl0
              rw [hsplitF] at hm0
              rcases List.mem_append.mp hm0 with h | h
              · exfalso
                have hnp0 := (hok _ _ hlF _ (by rw [hsplitF]; exact hm0)).1
                exact hbefore _ h hsz0 c0.2 (by rw [agree_readFile inv.core.agree hnp0]; exact hread0) rfl
              · rcases List.mem_cons.mp h with h | h
                · have h1 : c0.1 = pc.2.1 := (Prod.mk.injEq _ _ _ _ ▸ h).1
                  rw [h1, hread] at hread0; injection hread0
                · obtain ⟨s, t, hst⟩ := List.append_of_mem h
                  exact hF pre (piece, paths) rest hsplit pc.1 hpn hpcpad hfirstpiece candsF
                    (l1 ++ (pc.2.1, szF) :: s) (c0.1, sz0) t c0.2 hlF
                    (by rw [hsplitF, hst]; simp) hsz0 hread0 ho (pc.2.1, szF) (by simp) hszF
                    pc.2.2 hread hpart
        obtain ⟨core', hdone', hk', hc'⟩ := batchStep ds fs0 dest files orig hd hsep calls fs inv.core hjust
        -- the invariant after the batch
        have inv' : SInv fs0 dest files orig (applyOps fs (runCalls ds fs calls))
            (markCopied dest copied paths).1 (pre ++ [(piece, paths)]) := by
          refine ⟨core', ?_, ?_⟩
          · intro f hfm i r d hfi hrp hrf hsj
            rcases (markCopied_fst dest paths copied f).mp hfm with hin | ⟨pn, hpn, hpnpad, hpf⟩
            · obtain ⟨o, ho, hfile⟩ := inv.done f hin i r d hfi hrp hrf hsj
              exact ⟨o, ho, hk' i r d o hfi hrp hsj ho hfile⟩
            · have hsj' : safeJoin dest pn.file.full = some d := by rw [hpf, ← hrf]; exact hsj
              obtain ⟨src, hm, _⟩ := comboCalls_has hcombo pn hpn d hpnpad hsj'
              rw [← hcalls] at hm
              obtain ⟨i', r', o', h1, hp', h2, h3, h4⟩ := hdone' _ hm
              simp only at h2 h4
              have := hsep i i' r r' d d hfi h1 hrp hp' hsj h2 (List.prefix_refl _)
              subst this
              exact ⟨o', h3, h4⟩
          · intro pp hpp pn hpn hpad
            rcases List.mem_append.mp hpp with h | h
            · exact (markCopied_fst dest paths copied _).mpr (Or.inl (inv.seen pp h pn hpn hpad))
            · simp at h; subst h
              exact (markCopied_fst dest paths copied _).mpr (Or.inr ⟨pn, hpn, hpad, rfl⟩)
        obtain ⟨h1, h2, h3⟩ := ih _ _ _ hsplit' inv'
        rw [applyOps_append]
        refine ⟨?_, ?_, ?_⟩
        · intro src dst hm
          rcases List.mem_append.mp hm with hm | hm
          · exact hc' src dst hm
          · exact h1 src dst hm
        · intro j r' d' o' a1 ap a2 a3 a4
          exact h2 j r' d' o' a1 ap a2 a3 (hk' j r' d' o' a1 ap a2 a3 a4)
        · intro pp hpp pn hpn hpad d hsj
          cases hpp with
          | head =>
            have hlk := hlink _ hppmem pn hpn
            obtain ⟨o, ho, hfile⟩ := inv'.done pn.file.full
              ((markCopied_fst dest paths copied _).mpr (Or.inr ⟨pn, hpn, hpad, rfl⟩)) pn.idx pn.file d hlk hpad rfl hsj
            exact ⟨o, ho, h2 _ _ d o hlk hpad hsj ho hfile⟩
          | tail _ hpp => exact h3 pp hpp pn hpn hpad d hsj


/-- v1 into a fresh destination: every accepted file ends up with its original contents, and every
    executed copy copies original contents -/
theorem matchV1_restores_local (H1 : Bytes → Bytes) (ds : Nat) (fs0 : FS)
    (filemap : FileMap) (dest : Path) (pl : Nat) (hpl : 0 < pl) (files : List FileRec) (orig : List Bytes)
    (hd : CleanPath dest) (hr : DestReady fs0 dest) (hok : FilemapOK fs0 dest filemap)
    (hlens : files.map (·.length) = orig.map List.length) (hne : orig.flatten ≠ [])
    (hint : IntactV1 fs0 filemap files orig) (hpads : PadsAreZeros files orig)
    (hsep : DestsSeparate dest files) (hfresh : DestFresh fs0 dest files)
    (hF : NoFirstPieceDecoy fs0 filemap (v1PieceNodes pl ((chunks pl orig.flatten).map H1) files) orig)
    (hnc : NoPieceCollision H1 fs0 filemap (v1PieceNodes pl ((chunks pl orig.flatten).map H1) files)) :
    (∀ (i : Nat) (r : FileRec) (dp : Path), files[i]? = some r → r.pad = false →
      safeJoin dest r.full = some dp →
      ∃ o, orig[i]? = some o ∧
        applyOps fs0 (matchV1 H1 ds fs0 filemap dest pl ((chunks pl orig.flatten).map H1) files).1 dp
          = some (.file o)) ∧
    CopiesOrig fs0 dest files orig
      (matchV1 H1 ds fs0 filemap dest pl ((chunks pl orig.flatten).map H1) files).1 := by
  have hlink : ∀ pp ∈ v1PieceNodes pl ((chunks pl orig.flatten).map H1) files, ∀ pn ∈ pp.2,
      files[pn.idx]? = some pn.file := by
    intro pp hpp pn hpn
    unfold v1PieceNodes at hpp
    have h2 := (List.of_mem_zip hpp).2
    rw [List.mem_map] at h2
    obtain ⟨ns, _, hns⟩ := h2
    rw [← hns] at hpn
    exact (toPathNodes_mem hpn).1
  have inv0 : SInv fs0 dest files orig fs0 [] [] := by
    refine ⟨⟨hr, fun _ _ => rfl, ?_⟩, by simp, by simp⟩
    intro i r d hfi hrp hsj
    exact Or.inl (hfresh r (List.mem_of_getElem? hfi) hrp d hsj)
  obtain ⟨h1, _, h3⟩ := firstLoop_local H1 ds fs0 filemap dest files orig hd hok hsep hlens _ hlink
    (v1PieceNodes_solvable H1 pl hpl hlens hint hpads) hF hnc _ [] fs0 [] rfl inv0
  refine ⟨?_, h1⟩
  intro i r dp hfi hrp hsj
  obtain ⟨pp, hpp, pn, hpn, hidx, hfile⟩ := record_has_node H1 pl hpl hlens hne hfi
  obtain ⟨o, ho, hfin⟩ := h3 pp hpp pn hpn (by rw [hfile]; exact hrp) dp (by rw [hfile]; exact hsj)
  exact ⟨o, hidx ▸ ho, hfin⟩

end Impl
end TorrentVerif

import TorrentVerif.Model.PyDecode
import TorrentVerif.Proofs.Dict
/-
  Lemmas about `Model/PyDecode.lean`: tagging is injective on keys, `untag ∘ pyTag = id`, the
  accessors commute with tagging, `hash_bytes` forgets the tag, the normalised `piece layers`.
-/
namespace TorrentVerif
open RF

/-! ### association lists -/

theorem assocGet_assocSet {β : Type} (d : List (Bytes × β)) (k h : Bytes) (v : β) :
    assocGet (assocSet d k v) h = if k = h then some v else assocGet d h := by
  induction d with
  | nil => simp [assocSet, assocGet]
  | cons kv r ih =>
    obtain ⟨k0, v0⟩ := kv
    by_cases e : k0 = k
    · subst e
      by_cases e' : k0 = h <;> simp [assocSet, assocGet, e']
    · by_cases e' : k0 = h
      · subst e'
        have : ¬ k = k0 := fun x => e x.symm
        simp [assocSet, e, assocGet, this]
      · simp [assocSet, e, assocGet, e', ih]

theorem assocGet_append {β : Type} (a b : List (Bytes × β)) (h : Bytes) :
    assocGet (a ++ b) h = (assocGet a h).or (assocGet b h) := by
  induction a with
  | nil => simp [assocGet]
  | cons kv r ih =>
    obtain ⟨k0, v0⟩ := kv
    by_cases e : k0 = h
    · simp [assocGet, e]
    · simp [assocGet, e, ih]

theorem assocSet_of_not_mem {β : Type} (d : List (Bytes × β)) (k : Bytes) (v : β)
    (h : k ∉ d.map (·.1)) : assocSet d k v = d ++ [(k, v)] := by
  induction d with
  | nil => rfl
  | cons kv r ih =>
    obtain ⟨k0, v0⟩ := kv
    simp only [List.map_cons, List.mem_cons, not_or] at h
    have : k0 ≠ k := fun e => h.1 e.symm
    simp [assocSet, this, ih h.2]

namespace Impl

/-! ### tagging -/

theorem tagKey_raw (b : Bytes) : (tagKey b).raw = b := by
  unfold tagKey; split <;> rfl

theorem tagKey_inj (a b : Bytes) : tagKey a = tagKey b ↔ a = b := by
  constructor
  · intro h
    have := congrArg PyKey.raw h
    rwa [tagKey_raw, tagKey_raw] at this
  · rintro rfl; rfl

theorem tagKey_toVal (b : Bytes) : (tagKey b).toVal = tagStr b := by
  unfold tagKey tagStr; split <;> rfl

theorem hashBytes_tagStr (b : Bytes) : hashBytes (tagStr b) = some b := by
  unfold tagStr; split <;> rfl

theorem hashBytesPy_tagStr (b : Bytes) : hashBytesPy (tagStr b) = .bytes b := by
  unfold tagStr; split <;> rfl

theorem untag_tagStr (b : Bytes) : untag (tagStr b) = .str b := by
  unfold tagStr; split <;> rfl

mutual
theorem untag_pyTag : ∀ v : BVal, untag (pyTag v) = v
  | .int _ => rfl
  | .str b => by rw [pyTag, untag_tagStr]
  | .list l => by rw [pyTag, untag, untagL_pyTagL l]
  | .dict d => by rw [pyTag, untag, untagD_pyTagD d]
theorem untagL_pyTagL : ∀ l : List BVal, untagL (pyTagL l) = l
  | [] => rfl
  | v :: vs => by rw [pyTagL, untagL, untag_pyTag v, untagL_pyTagL vs]
theorem untagD_pyTagD : ∀ d : List (Bytes × BVal), untagD (pyTagD d) = d
  | [] => rfl
  | (k, v) :: r => by rw [pyTagD, untagD, tagKey_raw, untag_pyTag v, untagD_pyTagD r]
end

theorem pyLoads_normalise (b : Bytes) : (pyLoads b).map normalise = loads b := by
  unfold pyLoads normalise
  cases loads b with
  | none => rfl
  | some v => simp [untag_pyTag]

/-! ### `hash_bytes` -/

theorem hashBytes_eq_untag (p : PyVal) :
    hashBytes p = (match untag p with | .str b => some b | _ => none) := by
  cases p <;> rfl

theorem hashBytes_hashBytesPy (p : PyVal) : hashBytes (hashBytesPy p) = hashBytes p := by
  cases p <;> rfl

theorem pyHashStr_eq_str (p : PyVal) : pyHashStr p = RF.str (normalise p) := by
  cases p <;> rfl

theorem pyHashStr_pyTag (v : BVal) : pyHashStr (pyTag v) = RF.str v := by
  rw [pyHashStr_eq_str, normalise, untag_pyTag]

theorem pyHashStr_hashBytesPy (p : PyVal) : pyHashStr (hashBytesPy p) = pyHashStr p := by
  cases p <;> rfl

theorem bytesEqPy_hashBytesPy (p : PyVal) (d : Bytes) :
    bytesEqPy (hashBytesPy p) d = (match hashBytes p with | some b => b == d | none => false) := by
  cases p <;> rfl

/-! ### accessors -/

theorem pyDictGet_pyTagD (d : Dict) (k : Bytes) :
    pyDictGet (pyTagD d) (tagKey k) = (dictGet d k).map pyTag := by
  induction d with
  | nil => rfl
  | cons kv r ih =>
    obtain ⟨k0, v0⟩ := kv
    by_cases e : k0 = k
    · subst e; simp [pyTagD, pyDictGet, dictGet]
    · have : tagKey k0 ≠ tagKey k := fun h => e ((tagKey_inj _ _).mp h)
      simp [pyTagD, pyDictGet, dictGet, e, this, ih]

theorem pySub_pyTag (v : BVal) (k : Bytes) :
    pySub (pyTag v) (tagKey k) = (RF.sub v k).map pyTag := by
  cases v with
  | int i => rfl
  | str b => unfold pyTag tagStr; split <;> rfl
  | list l => rfl
  | dict d =>
    simp only [pyTag, pySub, pyDictGet_pyTagD, RF.sub]
    cases dictGet d k <;> rfl

theorem pyPath_pyTag (v : BVal) (ks : List Bytes) :
    pyPath (pyTag v) ks = (bPath v ks).map pyTag := by
  induction ks generalizing v with
  | nil => rfl
  | cons k ks ih =>
    simp only [pyPath, bPath, pySub_pyTag]
    cases RF.sub v k with
    | error e => rfl
    | ok x => exact ih x

theorem pyHashAt_pyTag (v : BVal) (k : Bytes) :
    pyHashAt (pyTag v) k = (match RF.sub v k with | .ok x => RF.str x | .error e => .error e) := by
  simp only [pyHashAt, pySub_pyTag]
  cases RF.sub v k with
  | error e => rfl
  | ok x => exact pyHashStr_pyTag x

/-! ### the normalised `piece layers` -/

/-- the dict comprehension, started from an accumulated dictionary: the LAST item of `kvs` whose
    key has the bytes `h` decides; without one the accumulated entry stays -/
theorem assocGet_layersFold (kvs : List (PyKey × PyVal)) (acc : List (Bytes × PyVal)) (h : Bytes) :
    assocGet (kvs.foldl (fun acc kv => assocSet acc kv.1.raw (hashBytesPy kv.2)) acc) h
      = match kvs.reverse.find? (fun kv => kv.1.raw = h) with
        | some kv => some (hashBytesPy kv.2)
        | none => assocGet acc h := by
  induction kvs generalizing acc with
  | nil => rfl
  | cons kv r ih =>
    rw [List.foldl_cons, ih, List.reverse_cons, List.find?_append]
    cases hf : r.reverse.find? (fun kv => kv.1.raw = h) with
    | some x => rfl
    | none =>
      by_cases e : kv.1.raw = h
      · simp [assocGet_assocSet, e]
      · simp [assocGet_assocSet, e]

theorem assocGet_layersNew (kvs : List (PyKey × PyVal)) (h : Bytes) :
    assocGet (layersNew kvs) h
      = (kvs.reverse.find? (fun kv => kv.1.raw = h)).map (fun kv => hashBytesPy kv.2) := by
  rw [layersNew, assocGet_layersFold]
  cases kvs.reverse.find? (fun kv => kv.1.raw = h) <;> rfl

/-- with pairwise distinct keys the comprehension just maps the items -/
theorem layersFold_nodup (d : Dict) (acc : List (Bytes × PyVal))
    (hn : (acc.map (·.1) ++ keys d).Nodup) :
    (pyTagD d).foldl (fun acc kv => assocSet acc kv.1.raw (hashBytesPy kv.2)) acc
      = acc ++ d.map (fun kv => (kv.1, hashBytesPy (pyTag kv.2))) := by
  induction d generalizing acc with
  | nil => simp [pyTagD]
  | cons kv r ih =>
    obtain ⟨k, v⟩ := kv
    have hk : k ∉ acc.map (·.1) := by
      intro hm
      rw [List.nodup_append] at hn
      exact hn.2.2 k hm k (by simp [keys]) rfl
    rw [pyTagD, List.foldl_cons]
    simp only [tagKey_raw]
    rw [assocSet_of_not_mem acc k _ hk, ih]
    · simp
    · simpa [keys, List.append_assoc] using hn

theorem layersNew_pyTagD (d : Dict) (hn : (keys d).Nodup) :
    layersNew (pyTagD d) = d.map (fun kv => (kv.1, hashBytesPy (pyTag kv.2))) := by
  rw [layersNew, layersFold_nodup d [] (by simpa using hn)]; rfl

theorem assocGet_map_dict (f : BVal → PyVal) (d : Dict) (h : Bytes) :
    assocGet (d.map (fun kv => (kv.1, f kv.2))) h = (dictGet d h).map f := by
  induction d with
  | nil => rfl
  | cons kv r ih =>
    obtain ⟨k, v⟩ := kv
    by_cases e : k = h
    · simp [assocGet, dictGet, e]
    · simp [assocGet, dictGet, e, ih]

theorem assocGet_layersNew_pyTagD (d : Dict) (hn : (keys d).Nodup) (h : Bytes) :
    assocGet (layersNew (pyTagD d)) h = (dictGet d h).map (fun v => hashBytesPy (pyTag v)) := by
  rw [layersNew_pyTagD d hn]
  exact assocGet_map_dict (fun v => hashBytesPy (pyTag v)) d h

theorem pyLayerOf_pyTagD (d : Dict) (hn : (keys d).Nodup) (h : Bytes) :
    pyLayerOf (pyTagD d) h
      = (match dictGet d h with | some v => RF.str v | none => .error .keyError) := by
  rw [pyLayerOf, assocGet_layersNew_pyTagD d hn]
  cases dictGet d h with
  | none => rfl
  | some v => simp only [Option.map_some]; rw [pyHashStr_hashBytesPy, pyHashStr_pyTag]

end Impl
end TorrentVerif

import TorrentVerif.Model.RenameName
import TorrentVerif.Proofs.Effects
/-
  Helper lemmas for the rename theorems of `Props/C18` (`rename_stays_in_directory`,
  `rename_refuses_occupied`, `rename_moves_only_the_name`): `posixpath.dirname` / `basename` of a
  path that was put together by `posixpath.join` from a `dirname` and a component without `/`.
-/
namespace TorrentVerif
open Rebuild

namespace PosixPath

/-- a `dropWhile` stops at an element that fails the test, or at the end -/
theorem dropWhile_nil_or_head {α : Type} (q : α → Bool) (l : List α) :
    l.dropWhile q = [] ∨ ∃ x t, l.dropWhile q = x :: t ∧ q x = false := by
  induction l with
  | nil => exact Or.inl rfl
  | cons a r ih =>
    by_cases h : q a = true
    · simpa [h] using ih
    · exact Or.inr ⟨a, r, by simp [h], by simpa using h⟩

theorem dropWhile_of_head_false {α : Type} (q : α → Bool) (x : α) (t : List α) (h : q x = false) :
    (x :: t).dropWhile q = x :: t := by
  simp [h]

theorem mem_takeWhile_imp {α : Type} (q : α → Bool) (l : List α) (a : α)
    (h : a ∈ l.takeWhile q) : q a = true := by
  induction l with
  | nil => simp at h
  | cons b r ih =>
    by_cases hb : q b = true
    · simp only [List.takeWhile_cons, hb, ↓reduceIte, List.mem_cons] at h
      rcases h with rfl | h
      · exact hb
      · exact ih h
    · simp [hb] at h

/-- `p = p[:i] + p[i:]` -/
theorem headOf_append_basename (p : Bytes) : headOf p ++ basename p = p := by
  unfold headOf basename
  rw [← List.reverse_append, List.takeWhile_append_dropWhile, List.reverse_reverse]

/-- the last component has no separator -/
theorem sep_not_mem_basename (p : Bytes) : (47 : UInt8) ∉ basename p := by
  unfold basename
  intro h
  have := mem_takeWhile_imp _ _ _ (List.mem_reverse.mp h)
  simp at this

/-- `p[:i]` is empty or ends in the separator -/
theorem headOf_nil_or_sep (p : Bytes) : headOf p = [] ∨ (headOf p).getLast? = some 47 := by
  unfold headOf
  rcases dropWhile_nil_or_head (fun c : UInt8 => decide (c ≠ 47)) p.reverse with h | ⟨x, t, h, hx⟩
  · left; rw [h]; rfl
  · right
    rw [h, List.getLast?_reverse]
    simp only [ne_eq, decide_not, Bool.not_eq_eq_eq_not, Bool.not_false, decide_eq_true_eq] at hx
    simp [hx]

/-- splitting `h ++ b` where `h` is empty or ends in `/` and `b` has no `/` -/
theorem split_append (h b : Bytes) (hh : h = [] ∨ h.getLast? = some 47) (hb : (47 : UInt8) ∉ b) :
    headOf (h ++ b) = h ∧ basename (h ++ b) = b := by
  have hall : ∀ a ∈ b.reverse, (fun c : UInt8 => decide (c ≠ 47)) a = true := by
    intro a ha
    have : a ≠ 47 := fun e => hb (e ▸ List.mem_reverse.mp ha)
    simpa using this
  have hrest : h.reverse.takeWhile (fun c : UInt8 => decide (c ≠ 47)) = [] ∧
      h.reverse.dropWhile (fun c : UInt8 => decide (c ≠ 47)) = h.reverse := by
    rcases hh with rfl | hl
    · simp
    · rw [← List.head?_reverse] at hl
      cases hr : h.reverse with
      | nil => simp
      | cons x t =>
        rw [hr] at hl
        simp only [List.head?_cons, Option.some.injEq] at hl
        subst hl
        simp
  unfold headOf basename
  rw [List.reverse_append, List.takeWhile_append_of_pos hall, List.dropWhile_append_of_pos hall,
    hrest.1, hrest.2]
  simp

/-! ### `rstrip("/")` -/

theorem rstripSep_snoc_sep (l : Bytes) : rstripSep (l ++ [47]) = rstripSep l := by
  unfold rstripSep
  simp

theorem rstripSep_getLast (l : Bytes) : (rstripSep l).getLast? ≠ some 47 := by
  unfold rstripSep
  rw [List.getLast?_reverse]
  rcases dropWhile_nil_or_head (fun c : UInt8 => decide (c = 47)) l.reverse with h | ⟨x, t, h, hx⟩
  · simp [h]
  · rw [h]
    simp only [decide_eq_false_iff_not] at hx
    simpa using hx

theorem rstripSep_of_getLast (l : Bytes) (h : l.getLast? ≠ some 47) : rstripSep l = l := by
  unfold rstripSep
  rw [← List.head?_reverse] at h
  cases hr : l.reverse with
  | nil =>
    have : l = [] := by simpa using hr
    simp [this]
  | cons x t =>
    rw [hr] at h
    have hx : x ≠ 47 := by simpa using h
    rw [dropWhile_of_head_false _ x t (by simpa using hx), ← hr, List.reverse_reverse]

theorem any_dropWhile_sep (r : Bytes) :
    (r.dropWhile (fun c : UInt8 => decide (c = 47))).any (fun c => decide (c ≠ 47))
      = r.any (fun c => decide (c ≠ 47)) := by
  induction r with
  | nil => rfl
  | cons a t ih =>
    by_cases h : a = 47
    · subst h
      have e1 : ((47 : UInt8) :: t).dropWhile (fun c : UInt8 => decide (c = 47))
          = t.dropWhile (fun c : UInt8 => decide (c = 47)) := rfl
      have e2 : ((47 : UInt8) :: t).any (fun c => decide (c ≠ 47)) = t.any (fun c => decide (c ≠ 47)) := rfl
      rw [e1, e2, ih]
    · rw [dropWhile_of_head_false _ a t (by simpa using h)]

theorem any_rstripSep (l : Bytes) :
    (rstripSep l).any (fun c => decide (c ≠ 47)) = l.any (fun c => decide (c ≠ 47)) := by
  unfold rstripSep
  rw [List.any_reverse, any_dropWhile_sep, List.any_reverse]

/-! ### `dirname` of a joined path -/

/-- `dirname(join(dirname(t), n)) = dirname(t)` and `basename(join(dirname(t), n)) = n` for every
    path string `t` and every non-empty `n` without a separator -/
theorem dirname_join_dirname (t n : Bytes) (hn : n ≠ []) (hs : (47 : UInt8) ∉ n) :
    dirname (join (dirname t) n) = dirname t ∧ basename (join (dirname t) n) = n := by
  have hhead : n.head? ≠ some 47 := by
    cases n with
    | nil => exact absurd rfl hn
    | cons c r =>
      intro h
      simp only [List.head?_cons, Option.some.injEq] at h
      exact hs (h ▸ List.mem_cons_self)
  by_cases hany : (headOf t).any (fun c => decide (c ≠ 47)) = true
  · -- a real directory part: `rstrip`ped, then joined with a separator
    have hd : dirname t = rstripSep (headOf t) := by unfold dirname; simp only [hany, if_true]
    have hdany : (rstripSep (headOf t)).any (fun c => decide (c ≠ 47)) = true := by
      rw [any_rstripSep]; exact hany
    have hdne : rstripSep (headOf t) ≠ [] := by
      intro e; rw [e] at hdany; simp at hdany
    have hdl := rstripSep_getLast (headOf t)
    have hj : join (rstripSep (headOf t)) n = (rstripSep (headOf t) ++ [47]) ++ n := by
      unfold join
      simp [hhead, hdne, hdl]
    have hsp := split_append (rstripSep (headOf t) ++ [47]) n (Or.inr (by simp)) hs
    rw [hd, hj]
    refine ⟨?_, hsp.2⟩
    unfold dirname
    rw [hsp.1]
    have : (rstripSep (headOf t) ++ [47]).any (fun c => decide (c ≠ 47)) = true := by
      rw [List.any_append, hdany]; rfl
    simp only [this, if_true]
    rw [rstripSep_snoc_sep, rstripSep_of_getLast _ hdl]
  · -- no directory part, or the root (`/`, `//`, …): kept as it is, joined without a separator
    have hd : dirname t = headOf t := by unfold dirname; simp only [hany]; rfl
    have hh := headOf_nil_or_sep t
    have hj : join (headOf t) n = headOf t ++ n := by
      unfold join
      rcases hh with h | h
      · simp [hhead, h]
      · simp [hhead, h]
    have hsp := split_append (headOf t) n hh hs
    rw [hd, hj]
    refine ⟨?_, hsp.2⟩
    unfold dirname
    rw [hsp.1]
    simp only [hany]; rfl

end PosixPath

namespace Impl
open PosixPath

theorem sep_not_mem_sTorrent : (47 : UInt8) ∉ sTorrent := by decide

/-- what `renameName` accepts -/
theorem renameName_ok (infoName name : Bytes) (h : renameName infoName = .ok name) :
    name = basename (rstripSep (pyStr infoName)) ∧ name ≠ [] ∧ name ≠ DOT ∧ name ≠ DOTDOT ∧
      (47 : UInt8) ∉ name := by
  unfold renameName at h
  simp only at h
  split at h
  · cases h
  · rename_i hne
    simp only [Except.ok.injEq] at h
    subst h
    simp only [not_or] at hne
    exact ⟨rfl, hne.1, hne.2.1, hne.2.2, sep_not_mem_basename _⟩

theorem renameName_error (infoName : Bytes) (e : RenameErr) (h : renameName infoName = .error e) :
    e = .badName ∧ (basename (rstripSep (pyStr infoName)) = [] ∨
      basename (rstripSep (pyStr infoName)) = DOT ∨ basename (rstripSep (pyStr infoName)) = DOTDOT) := by
  unfold renameName at h
  simp only at h
  split at h
  · rename_i hc
    simp only [Except.error.injEq] at h
    exact ⟨h.symm, hc⟩
  · cases h

theorem renameTarget_ok (target infoName new : Bytes) (h : renameTarget target infoName = .ok new) :
    ∃ name, renameName infoName = .ok name ∧ new = join (dirname target) (name ++ sTorrent) := by
  unfold renameTarget at h
  cases hn : renameName infoName with
  | error e => rw [hn] at h; cases h
  | ok name =>
    rw [hn] at h
    simp only [Except.ok.injEq] at h
    exact ⟨name, rfl, h.symm⟩

/-! ### the key of a path string -/

theorem char_ofNat_toNat (n : Nat) (h : n < 256) : (Char.ofNat n).toNat = n := by
  unfold Char.ofNat
  have : n.isValidChar := Or.inl (by omega)
  simp [this, Char.ofNatAux, Char.toNat]

/-- distinct path strings are distinct keys -/
theorem fsKey_injective (p q : Bytes) (h : fsKey p = fsKey q) : p = q := by
  unfold fsKey at h
  have h2 := congrArg String.toList h
  rw [String.toList_ofList, String.toList_ofList] at h2
  have h3 := congrArg (List.map fun c : Char => UInt8.ofNat c.toNat) h2
  have hid : ∀ l : Bytes, (l.map fun c => Char.ofNat c.toNat).map (fun c : Char => UInt8.ofNat c.toNat) = l := by
    intro l
    rw [List.map_map]
    conv => rhs; rw [← List.map_id l]
    apply List.map_congr_left
    intro c _
    simp only [Function.comp, id]
    rw [char_ofNat_toNat _ c.toNat_lt]
    simp
  rwa [hid, hid] at h3

end Impl
end TorrentVerif

import TorrentVerif.Proofs.RbComplete
import TorrentVerif.Proofs.RbMapPieces
/- v1: presence of counted files, completeness of `_find_matches`, trace helpers. -/
namespace TorrentVerif
open Rebuild PosixPath Spec

namespace Spec

theorem TraceAll_and {P Q : FS → Op → Prop} (ops : List Op) :
    ∀ fs, TraceAll P fs ops → TraceAll Q fs ops → TraceAll (fun fs op => P fs op ∧ Q fs op) fs ops := by
  induction ops with
  | nil => intro fs _ _; trivial
  | cons x xs ih => intro fs hp hq; exact ⟨⟨hp.1, hq.1⟩, ih _ hp.2 hq.2⟩

theorem TraceAll_of_mem {Q : Op → Prop} (ops : List Op) (h : ∀ op ∈ ops, Q op) :
    ∀ fs, TraceAll (fun _ op => Q op) fs ops := by
  induction ops with
  | nil => intro fs; trivial
  | cons x xs ih =>
    intro fs
    exact ⟨h x List.mem_cons_self, ih (fun op hop => h op (List.mem_cons_of_mem _ hop)) _⟩

end Spec

namespace Rebuild

/-- along a trace that only writes strictly below `dest`, every state agrees with the initial
    one outside of `dest` -/
theorem traceAll_agree (dest : Path) (fs0 : FS) (ops : List Op) :
    ∀ fs, Agree fs fs0 dest → TraceAll (fun fs op => StrictlyBelow dest (Op.writes fs op)) fs ops →
      TraceAll (fun fs _ => Agree fs fs0 dest) fs ops := by
  induction ops with
  | nil => intro fs _ _; trivial
  | cons x xs ih =>
    intro fs ha h
    refine ⟨ha, ih _ ?_ h.2⟩
    intro q hq
    rw [applyOp_frame fs x q (fun e => hq (e ▸ h.1))]
    exact ha q hq

end Rebuild

namespace Impl

theorem comboCalls_has {fs : FS} {filemap : FileMap} {dest : Path} {paths : List PathNode} :
    ∀ {choice : List (Path × Bytes)}, Combo fs filemap paths choice → ∀ pn ∈ paths, ∀ dp,
      pn.file.pad = false → safeJoin dest pn.file.full = some dp →
      ∃ src, (src, dp) ∈ comboCalls dest paths choice ∧ (fs.readFile? src).isSome := by
  induction paths with
  | nil => intro choice _ pn hpn; simp at hpn
  | cons p ps ih =>
    intro choice hc pn hpn dp hpad hsj
    cases choice with
    | nil => exact absurd hc (by simp [Combo])
    | cons c cs =>
      obtain ⟨hhead, hrest⟩ := hc
      simp only [comboCalls]
      cases hpn with
      | head =>
        obtain ⟨_, _, _, _, _, hread⟩ := hhead hpad
        exact ⟨c.1, by simp [hsj, hpad], by rw [hread]; rfl⟩
      | tail _ hpn =>
        obtain ⟨src, hm, hf⟩ := ih hrest pn hpn dp hpad hsj
        exact ⟨src, List.mem_append_left _ hm, hf⟩

theorem matchV1Loop_present (H1 : Bytes → Bytes) (ds : Nat) (filemap : FileMap) (dest : Path)
    (pns : List (Bytes × List PathNode)) :
    ∀ fs copied, fs.ex [] = true →
      ∀ f ∈ (matchV1Loop H1 ds filemap dest fs copied pns).2, ∃ dp, safeJoin dest f = some dp ∧
        ((applyOps fs (matchV1Loop H1 ds filemap dest fs copied pns).1) dp).isSome := by
  induction pns with
  | nil => intro fs copied _ f h; simp [matchV1Loop] at h
  | cons pp rest ih =>
    intro fs copied hroot f h
    obtain ⟨piece, paths⟩ := pp
    simp only [matchV1Loop] at h ⊢
    split
    · rename_i hskip
      simp only [hskip, if_true] at h
      exact ih fs copied hroot f h
    · rename_i hskip
      simp only [hskip] at h
      cases hf : findMatches H1 fs filemap dest piece paths [] with
      | none => rw [hf] at h; exact ih fs copied hroot f h
      | some calls =>
        rw [hf] at h
        simp only at h ⊢
        have hroot' : (applyOps fs (runCalls ds fs calls)).ex [] = true := applyOps_ex _ fs [] hroot
        rcases List.mem_append.mp h with h | h
        · obtain ⟨hs, pn, hpn, hfull, hpad⟩ := markCopied_counted dest paths copied f h
          obtain ⟨choice, hcombo, _, hcalls⟩ := findMatches_sound H1 fs filemap dest piece paths [] calls hf
          cases hsj : safeJoin dest f with
          | none => rw [hsj] at hs; cases hs
          | some dp =>
            obtain ⟨src, hm, hfile⟩ := comboCalls_has hcombo pn hpn dp hpad (by rw [hfull]; exact hsj)
            refine ⟨dp, rfl, ?_⟩
            rw [applyOps_append]
            apply applyOps_ex
            rw [hcalls]
            exact runCalls_present ds _ fs hroot (src, dp) hm hfile
        · obtain ⟨dp, h1, h2⟩ := ih _ _ hroot' f h
          exact ⟨dp, h1, by rw [applyOps_append]; exact h2⟩

/-- if some combination of readable same-name same-size candidates hashes to the piece, the
    backtracking search succeeds -/
theorem findMatches_complete_combo (H1 : Bytes → Bytes) (fs : FS) (filemap : FileMap) (dest : Path)
    (piece : Bytes) (paths : List PathNode) :
    ∀ (choice : List (Path × Bytes)) (data : Bytes), Combo fs filemap paths choice →
      H1 (data ++ comboData paths choice) = piece →
      (findMatches H1 fs filemap dest piece paths data).isSome := by
  induction paths with
  | nil =>
    intro choice data hc hh
    cases choice with
    | nil => simp only [findMatches]; simp [comboData] at hh; simp [hh]
    | cons c cs => exact absurd hc (by simp [Combo])
  | cons pn ps ih =>
    intro choice data hc hh
    cases choice with
    | nil => exact absurd hc (by simp [Combo])
    | cons c cs =>
      obtain ⟨hhead, hrest⟩ := hc
      cases hpad : pn.file.pad with
      | true =>
        simp only [findMatches, hpad, if_true]
        exact ih cs (data ++ padPart pn) hrest
          (by simpa [comboData, nodePart_pad hpad, List.append_assoc] using hh)
      | false =>
      obtain ⟨cands, sz, hl, hm, hsz, hread⟩ := hhead hpad
      simp only [findMatches, hpad, Bool.false_eq_true, if_false, hl]
      rw [List.findSome?_isSome_iff]
      refine ⟨(c.1, sz), hm, ?_⟩
      simp only [hsz, ne_eq, not_true_eq_false, if_false, hread]
      have := ih cs (data ++ getPart pn.start pn.stop c.2) hrest
        (by simpa [comboData, nodePart_file hpad, List.append_assoc] using hh)
      cases hrec : findMatches H1 fs filemap dest piece ps (data ++ getPart pn.start pn.stop c.2) with
      | none => rw [hrec] at this; cases this
      | some calls => rfl

end Impl
end TorrentVerif

import TorrentVerif.Model.PyDecode
import TorrentVerif.Proofs.Utf8
/-
  `validUtf8` (Model/PyDecode.lean) against the UTF-8 ENCODER of Model/Utf8.lean:
  a byte string is valid iff it is `Utf8.encodeStr` of a list of Unicode scalar values, and that
  list is unique.  So a Python `str` is faithfully represented by its UTF-8 bytes, and
  `text.decode("utf-8").encode("utf-8")` is the identity on valid strings (what `hash_bytes`
  relies on).
-/
namespace TorrentVerif
open Utf8

/-! ### the byte tests as statements about `toNat` -/

theorem u8_lt_lit (b : UInt8) (n : Nat) (hn : n < 256) : b < UInt8.ofNat n ↔ b.toNat < n := by
  rw [UInt8.lt_iff_toNat_lt, UInt8.toNat_ofNat', Nat.mod_eq_of_lt (by simpa using hn)]

theorem isCont_iff (c : UInt8) : isCont c = true ↔ 0x80 ≤ c.toNat ∧ c.toNat ≤ 0xBF := by
  simp [isCont, UInt8.le_iff_toNat_le]

theorem u8_eq_lit (b : UInt8) (n : Nat) (hn : n < 256) : b = UInt8.ofNat n ↔ b.toNat = n := by
  rw [← UInt8.toNat_inj, UInt8.toNat_ofNat', Nat.mod_eq_of_lt (by simpa using hn)]

theorem second3_iff (b0 b1 : UInt8) : second3 b0 b1 = true ↔
    (if b0.toNat = 0xE0 then 0xA0 ≤ b1.toNat ∧ b1.toNat ≤ 0xBF
     else if b0.toNat = 0xED then 0x80 ≤ b1.toNat ∧ b1.toNat ≤ 0x9F
     else 0x80 ≤ b1.toNat ∧ b1.toNat ≤ 0xBF) := by
  have e0 : b0 = 0xE0 ↔ b0.toNat = 0xE0 := u8_eq_lit b0 0xE0 (by decide)
  have ed : b0 = 0xED ↔ b0.toNat = 0xED := u8_eq_lit b0 0xED (by decide)
  unfold second3
  by_cases h0 : b0.toNat = 0xE0
  · simp [e0.mpr h0, UInt8.le_iff_toNat_le]
  · by_cases hd : b0.toNat = 0xED
    · simp [ed.mpr hd, UInt8.le_iff_toNat_le]
    · have n0 : ¬ b0 = 0xE0 := fun h => h0 (e0.mp h)
      have nd : ¬ b0 = 0xED := fun h => hd (ed.mp h)
      simp [n0, nd, h0, hd, isCont_iff]

theorem second4_iff (b0 b1 : UInt8) : second4 b0 b1 = true ↔
    (if b0.toNat = 0xF0 then 0x90 ≤ b1.toNat ∧ b1.toNat ≤ 0xBF
     else if b0.toNat = 0xF4 then 0x80 ≤ b1.toNat ∧ b1.toNat ≤ 0x8F
     else 0x80 ≤ b1.toNat ∧ b1.toNat ≤ 0xBF) := by
  have e0 : b0 = 0xF0 ↔ b0.toNat = 0xF0 := u8_eq_lit b0 0xF0 (by decide)
  have e4 : b0 = 0xF4 ↔ b0.toNat = 0xF4 := u8_eq_lit b0 0xF4 (by decide)
  unfold second4
  by_cases h0 : b0.toNat = 0xF0
  · simp [e0.mpr h0, UInt8.le_iff_toNat_le]
  · by_cases h4 : b0.toNat = 0xF4
    · simp [e4.mpr h4, UInt8.le_iff_toNat_le]
    · have n0 : ¬ b0 = 0xF0 := fun h => h0 (e0.mp h)
      have n4 : ¬ b0 = 0xF4 := fun h => h4 (e4.mp h)
      simp [n0, n4, h0, h4, isCont_iff]

/-! ### one step of `validUtf8`, by the class of the lead byte -/

theorem valid_step1 (b0 : UInt8) (r : Bytes) (h : b0.toNat < 0x80) :
    validUtf8 (b0 :: r) = validUtf8 r := by
  have h1 : b0 < 0x80 := (u8_lt_lit b0 0x80 (by decide)).mpr h
  rw [validUtf8.eq_def]; simp [h1]

theorem valid_stepBad (b0 : UInt8) (r : Bytes)
    (h : (0x80 ≤ b0.toNat ∧ b0.toNat < 0xC2) ∨ 0xF5 ≤ b0.toNat) : validUtf8 (b0 :: r) = false := by
  have h1 : ¬ b0 < 0x80 := fun x => by have := (u8_lt_lit b0 0x80 (by decide)).mp x; omega
  rcases h with h | h
  · have h2 : b0 < 0xC2 := (u8_lt_lit b0 0xC2 (by decide)).mpr h.2
    rw [validUtf8.eq_def]; simp [h1, h2]
  · have h2 : ¬ b0 < 0xC2 := fun x => by have := (u8_lt_lit b0 0xC2 (by decide)).mp x; omega
    have h3 : ¬ b0 < 0xE0 := fun x => by have := (u8_lt_lit b0 0xE0 (by decide)).mp x; omega
    have h4 : ¬ b0 < 0xF0 := fun x => by have := (u8_lt_lit b0 0xF0 (by decide)).mp x; omega
    have h5 : ¬ b0 < 0xF5 := fun x => by have := (u8_lt_lit b0 0xF5 (by decide)).mp x; omega
    rw [validUtf8.eq_def]; simp [h1, h2, h3, h4, h5]

theorem valid_step2 (b0 : UInt8) (r : Bytes) (h : 0xC2 ≤ b0.toNat ∧ b0.toNat < 0xE0) :
    validUtf8 (b0 :: r) = (match r with
      | b1 :: r1 => isCont b1 && validUtf8 r1
      | [] => false) := by
  have h1 : ¬ b0 < 0x80 := fun x => by have := (u8_lt_lit b0 0x80 (by decide)).mp x; omega
  have h2 : ¬ b0 < 0xC2 := fun x => by have := (u8_lt_lit b0 0xC2 (by decide)).mp x; omega
  have h3 : b0 < 0xE0 := (u8_lt_lit b0 0xE0 (by decide)).mpr h.2
  rw [validUtf8.eq_def]; simp only [h1, h2, h3, if_true, if_false]
  cases r <;> rfl

theorem valid_step3 (b0 : UInt8) (r : Bytes) (h : 0xE0 ≤ b0.toNat ∧ b0.toNat < 0xF0) :
    validUtf8 (b0 :: r) = (match r with
      | b1 :: b2 :: r2 => second3 b0 b1 && isCont b2 && validUtf8 r2
      | _ => false) := by
  have h1 : ¬ b0 < 0x80 := fun x => by have := (u8_lt_lit b0 0x80 (by decide)).mp x; omega
  have h2 : ¬ b0 < 0xC2 := fun x => by have := (u8_lt_lit b0 0xC2 (by decide)).mp x; omega
  have h3 : ¬ b0 < 0xE0 := fun x => by have := (u8_lt_lit b0 0xE0 (by decide)).mp x; omega
  have h4 : b0 < 0xF0 := (u8_lt_lit b0 0xF0 (by decide)).mpr h.2
  rw [validUtf8.eq_def]; simp only [h1, h2, h3, h4, if_true, if_false]
  rcases r with _ | ⟨_, _ | ⟨_, _⟩⟩ <;> rfl

theorem valid_step4 (b0 : UInt8) (r : Bytes) (h : 0xF0 ≤ b0.toNat ∧ b0.toNat < 0xF5) :
    validUtf8 (b0 :: r) = (match r with
      | b1 :: b2 :: b3 :: r3 => second4 b0 b1 && isCont b2 && isCont b3 && validUtf8 r3
      | _ => false) := by
  have h1 : ¬ b0 < 0x80 := fun x => by have := (u8_lt_lit b0 0x80 (by decide)).mp x; omega
  have h2 : ¬ b0 < 0xC2 := fun x => by have := (u8_lt_lit b0 0xC2 (by decide)).mp x; omega
  have h3 : ¬ b0 < 0xE0 := fun x => by have := (u8_lt_lit b0 0xE0 (by decide)).mp x; omega
  have h4 : ¬ b0 < 0xF0 := fun x => by have := (u8_lt_lit b0 0xF0 (by decide)).mp x; omega
  have h5 : b0 < 0xF5 := (u8_lt_lit b0 0xF5 (by decide)).mpr h.2
  rw [validUtf8.eq_def]; simp only [h1, h2, h3, h4, h5, if_true, if_false]
  rcases r with _ | ⟨_, _ | ⟨_, _ | ⟨_, _⟩⟩⟩ <;> rfl

theorem toNat_ofNat_small (n : Nat) (h : n < 256) : (UInt8.ofNat n).toNat = n := by
  simp [UInt8.toNat_ofNat', Nat.mod_eq_of_lt h]

/-! ### an encoded scalar value is accepted -/

theorem valid_encode_append (c : Nat) (hc : Scalar c) (r : Bytes) :
    validUtf8 (encode c ++ r) = validUtf8 r := by
  have hlt := scalar_lt hc
  unfold Scalar at hc
  rcases classes c with h | ⟨h0, h⟩ | ⟨h0, h⟩ | h0
  · rw [encode, encodeNat_1 c h]
    exact valid_step1 _ _ (by rw [toNat_ofNat_small c (by omega)]; exact h)
  · rw [encode, encodeNat_2 c h0 h]
    simp only [List.map_cons, List.map_nil, List.cons_append, List.nil_append]
    rw [valid_step2 _ _ (by rw [toNat_ofNat_small _ (by omega)]; omega)]
    have : isCont (UInt8.ofNat (0x80 + c % 64)) = true := by
      rw [isCont_iff, toNat_ofNat_small _ (by omega)]; omega
    simp only [this, Bool.true_and]
  · rw [encode, encodeNat_3 c h0 h]
    simp only [List.map_cons, List.map_nil, List.cons_append, List.nil_append]
    rw [valid_step3 _ _ (by rw [toNat_ofNat_small _ (by omega)]; omega)]
    have h2 : isCont (UInt8.ofNat (0x80 + c % 64)) = true := by
      rw [isCont_iff, toNat_ofNat_small _ (by omega)]; omega
    have h1 : second3 (UInt8.ofNat (0xE0 + c / 4096)) (UInt8.ofNat (0x80 + c / 64 % 64)) = true := by
      rw [second3_iff, toNat_ofNat_small _ (by omega), toNat_ofNat_small _ (by omega)]
      split
      · omega
      · split <;> omega
    simp only [h1, h2, Bool.true_and]
  · rw [encode, encodeNat_4 c h0]
    simp only [List.map_cons, List.map_nil, List.cons_append, List.nil_append]
    rw [valid_step4 _ _ (by rw [toNat_ofNat_small _ (by omega)]; omega)]
    have h3 : isCont (UInt8.ofNat (0x80 + c % 64)) = true := by
      rw [isCont_iff, toNat_ofNat_small _ (by omega)]; omega
    have h2 : isCont (UInt8.ofNat (0x80 + c / 64 % 64)) = true := by
      rw [isCont_iff, toNat_ofNat_small _ (by omega)]; omega
    have h1 : second4 (UInt8.ofNat (0xF0 + c / 262144)) (UInt8.ofNat (0x80 + c / 4096 % 64)) = true := by
      rw [second4_iff, toNat_ofNat_small _ (by omega), toNat_ofNat_small _ (by omega)]
      split
      · omega
      · split <;> omega
    simp only [h1, h2, h3, Bool.true_and]

theorem valid_encodeStr (s : List Nat) (hs : ∀ c ∈ s, Scalar c) : validUtf8 (encodeStr s) = true := by
  induction s with
  | nil => rfl
  | cons c t ih =>
    rw [encodeStr_cons, valid_encode_append c (hs c (by simp))]
    exact ih (fun x hx => hs x (List.mem_cons_of_mem _ hx))

/-! ### an accepted byte string decodes -/

theorem decodes_of_valid : ∀ (n : Nat) (b : Bytes), b.length ≤ n → validUtf8 b = true →
    ∃ s : List Nat, (∀ c ∈ s, Scalar c) ∧ encodeStr s = b := by
  intro n
  induction n with
  | zero =>
    intro b hl _
    have : b = [] := List.eq_nil_of_length_eq_zero (by omega)
    exact ⟨[], by simp, by simp [this, encodeStr]⟩
  | succ n ih =>
    intro b hl hv
    match b, hl, hv with
    | [], _, _ => exact ⟨[], by simp, by simp [encodeStr]⟩
    | b0 :: r, hl, hv =>
      have hb0 := b0.toNat_lt
      simp only [List.length_cons] at hl
      by_cases c1 : b0.toNat < 0x80
      · rw [valid_step1 b0 r c1] at hv
        obtain ⟨s, hs, he⟩ := ih r (by omega) hv
        refine ⟨b0.toNat :: s, ?_, ?_⟩
        · intro c hc
          rcases List.mem_cons.mp hc with rfl | hc
          · unfold Scalar; omega
          · exact hs c hc
        · rw [encodeStr_cons, he, encode, encodeNat_1 _ c1]
          simp [UInt8.ofNat_toNat]
      · by_cases c2 : b0.toNat < 0xC2
        · rw [valid_stepBad b0 r (Or.inl ⟨by omega, c2⟩)] at hv; exact absurd hv (by simp)
        · by_cases c3 : b0.toNat < 0xE0
          · rw [valid_step2 b0 r ⟨by omega, c3⟩] at hv
            match r, hl, hv with
            | [], _, hv => exact absurd hv (by simp)
            | b1 :: r1, hl, hv =>
              simp only [Bool.and_eq_true, isCont_iff, List.length_cons] at hv hl
              obtain ⟨s, hs, he⟩ := ih r1 (by omega) hv.2
              refine ⟨((b0.toNat - 0xC0) * 64 + (b1.toNat - 0x80)) :: s, ?_, ?_⟩
              · intro c hc
                rcases List.mem_cons.mp hc with h | hc
                · rw [h]; unfold Scalar; omega
                · exact hs c hc
              · rw [encodeStr_cons, he, encode, encodeNat_2 _ (by omega) (by omega)]
                have e0 : 0xC0 + ((b0.toNat - 0xC0) * 64 + (b1.toNat - 0x80)) / 64 = b0.toNat := by omega
                have e1 : 0x80 + ((b0.toNat - 0xC0) * 64 + (b1.toNat - 0x80)) % 64 = b1.toNat := by omega
                simp only [e0, e1, List.map_cons, List.map_nil, UInt8.ofNat_toNat, List.cons_append,
                  List.nil_append]
          · by_cases c4 : b0.toNat < 0xF0
            · rw [valid_step3 b0 r ⟨by omega, c4⟩] at hv
              match r, hl, hv with
              | [], _, hv => exact absurd hv (by simp)
              | [_], _, hv => exact absurd hv (by simp)
              | b1 :: b2 :: r2, hl, hv =>
                simp only [Bool.and_eq_true, isCont_iff, second3_iff, List.length_cons] at hv hl
                obtain ⟨⟨hs3, hc2⟩, hv2⟩ := hv
                obtain ⟨s, hs, he⟩ := ih r2 (by omega) hv2
                have hb1 : 0x80 ≤ b1.toNat ∧ b1.toNat ≤ 0xBF ∧
                    (b0.toNat = 0xE0 → 0xA0 ≤ b1.toNat) ∧ (b0.toNat = 0xED → b1.toNat ≤ 0x9F) := by
                  split at hs3
                  · omega
                  · split at hs3 <;> omega
                refine ⟨((b0.toNat - 0xE0) * 4096 + (b1.toNat - 0x80) * 64 + (b2.toNat - 0x80)) :: s, ?_, ?_⟩
                · intro c hc
                  rcases List.mem_cons.mp hc with h | hc
                  · rw [h]; unfold Scalar; omega
                  · exact hs c hc
                · rw [encodeStr_cons, he, encode, encodeNat_3 _ (by omega) (by omega)]
                  have e0 : 0xE0 + ((b0.toNat - 0xE0) * 4096 + (b1.toNat - 0x80) * 64 + (b2.toNat - 0x80)) / 4096
                      = b0.toNat := by omega
                  have e1 : 0x80 + ((b0.toNat - 0xE0) * 4096 + (b1.toNat - 0x80) * 64 + (b2.toNat - 0x80)) / 64 % 64
                      = b1.toNat := by omega
                  have e2 : 0x80 + ((b0.toNat - 0xE0) * 4096 + (b1.toNat - 0x80) * 64 + (b2.toNat - 0x80)) % 64
                      = b2.toNat := by omega
                  simp only [e0, e1, e2, List.map_cons, List.map_nil, UInt8.ofNat_toNat, List.cons_append,
                    List.nil_append]
            · by_cases c5 : b0.toNat < 0xF5
              · rw [valid_step4 b0 r ⟨by omega, c5⟩] at hv
                match r, hl, hv with
                | [], _, hv => exact absurd hv (by simp)
                | [_], _, hv => exact absurd hv (by simp)
                | [_, _], _, hv => exact absurd hv (by simp)
                | b1 :: b2 :: b3 :: r3, hl, hv =>
                  simp only [Bool.and_eq_true, isCont_iff, second4_iff, List.length_cons] at hv hl
                  obtain ⟨⟨⟨hs4, hc2⟩, hc3⟩, hv3⟩ := hv
                  obtain ⟨s, hs, he⟩ := ih r3 (by omega) hv3
                  have hb1 : 0x80 ≤ b1.toNat ∧ b1.toNat ≤ 0xBF ∧
                      (b0.toNat = 0xF0 → 0x90 ≤ b1.toNat) ∧ (b0.toNat = 0xF4 → b1.toNat ≤ 0x8F) := by
                    split at hs4
                    · omega
                    · split at hs4 <;> omega
                  refine ⟨((b0.toNat - 0xF0) * 262144 + (b1.toNat - 0x80) * 4096 + (b2.toNat - 0x80) * 64
                    + (b3.toNat - 0x80)) :: s, ?_, ?_⟩
                  · intro c hc
                    rcases List.mem_cons.mp hc with h | hc
                    · rw [h]; unfold Scalar; omega
                    · exact hs c hc
                  · rw [encodeStr_cons, he, encode, encodeNat_4 _ (by omega)]
                    have e0 : 0xF0 + ((b0.toNat - 0xF0) * 262144 + (b1.toNat - 0x80) * 4096
                        + (b2.toNat - 0x80) * 64 + (b3.toNat - 0x80)) / 262144 = b0.toNat := by omega
                    have e1 : 0x80 + ((b0.toNat - 0xF0) * 262144 + (b1.toNat - 0x80) * 4096
                        + (b2.toNat - 0x80) * 64 + (b3.toNat - 0x80)) / 4096 % 64 = b1.toNat := by omega
                    have e2 : 0x80 + ((b0.toNat - 0xF0) * 262144 + (b1.toNat - 0x80) * 4096
                        + (b2.toNat - 0x80) * 64 + (b3.toNat - 0x80)) / 64 % 64 = b2.toNat := by omega
                    have e3 : 0x80 + ((b0.toNat - 0xF0) * 262144 + (b1.toNat - 0x80) * 4096
                        + (b2.toNat - 0x80) * 64 + (b3.toNat - 0x80)) % 64 = b3.toNat := by omega
                    simp only [e0, e1, e2, e3, List.map_cons, List.map_nil, UInt8.ofNat_toNat,
                      List.cons_append, List.nil_append]
              · rw [valid_stepBad b0 r (Or.inr (by omega))] at hv; exact absurd hv (by simp)

/-- `validUtf8 b` iff `b` is the UTF-8 encoding of a sequence of Unicode scalar values -/
theorem validUtf8_iff (b : Bytes) :
    validUtf8 b = true ↔ ∃ s : List Nat, (∀ c ∈ s, Scalar c) ∧ encodeStr s = b :=
  ⟨decodes_of_valid b.length b (Nat.le_refl _), fun ⟨s, hs, he⟩ => he ▸ valid_encodeStr s hs⟩

/-- the encoder is injective on code points below 0x110000: the text of a `str` is determined by
    its UTF-8 bytes -/
theorem encodeStr_inj (a b : List Nat) (ha : ∀ c ∈ a, c < 0x110000) (hb : ∀ c ∈ b, c < 0x110000)
    (h : encodeStr a = encodeStr b) : a = b := by
  have h1 := leBytes_encodeStr a b ha hb
  have h2 := leBytes_encodeStr b a hb ha
  rw [h, Listing.leBytes_refl] at h1
  rw [h, Listing.leBytes_refl] at h2
  exact leCode_antisymm a b h1.symm h2.symm

end TorrentVerif

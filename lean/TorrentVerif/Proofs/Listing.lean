import TorrentVerif.Model.Listing
/-
  Lemmas about the directory-listing model (`Model/Listing.lean`):
  the byte order `leBytes` is a total order compatible with common prefixes; full paths of a
  well-named tree are pairwise distinct; both listings are determined by the tree as a set.
-/
namespace TorrentVerif
namespace Listing

/-! ### `leBytes` is a total order -/

theorem u8_eq_of_not_lt {x y : UInt8} (h1 : ¬ x < y) (h2 : ¬ y < x) : x = y :=
  UInt8.le_antisymm (UInt8.not_lt.mp h2) (UInt8.not_lt.mp h1)

theorem leBytes_cons_cons (x y : UInt8) (xs ys : Bytes) :
    leBytes (x :: xs) (y :: ys) = true ↔ x < y ∨ (x = y ∧ leBytes xs ys = true) := by
  simp only [leBytes]
  by_cases h1 : x < y
  · simp [h1]
  · by_cases h2 : y < x
    · have : x ≠ y := by
        intro e; subst e; exact h1 h2
      simp [h1, h2, this]
    · have : x = y := u8_eq_of_not_lt h1 h2
      simp [this]

theorem leBytes_refl (a : Bytes) : leBytes a a = true := by
  induction a with
  | nil => rfl
  | cons x xs ih => rw [leBytes_cons_cons]; exact Or.inr ⟨rfl, ih⟩

theorem leBytes_total (a b : Bytes) : (leBytes a b || leBytes b a) = true := by
  induction a generalizing b with
  | nil => simp [leBytes]
  | cons x xs ih =>
    cases b with
    | nil => simp [leBytes]
    | cons y ys =>
      rw [Bool.or_eq_true, leBytes_cons_cons, leBytes_cons_cons]
      have := ih ys
      rw [Bool.or_eq_true] at this
      by_cases h1 : x < y
      · exact Or.inl (Or.inl h1)
      · by_cases h2 : y < x
        · exact Or.inr (Or.inl h2)
        · have e : x = y := u8_eq_of_not_lt h1 h2
          rcases this with h | h
          · exact Or.inl (Or.inr ⟨e, h⟩)
          · exact Or.inr (Or.inr ⟨e.symm, h⟩)

theorem leBytes_trans (a b c : Bytes) :
    leBytes a b = true → leBytes b c = true → leBytes a c = true := by
  induction a generalizing b c with
  | nil => intro _ _; simp [leBytes]
  | cons x xs ih =>
    cases b with
    | nil => simp [leBytes]
    | cons y ys =>
      cases c with
      | nil => simp [leBytes]
      | cons z zs =>
        rw [leBytes_cons_cons, leBytes_cons_cons, leBytes_cons_cons]
        rintro (h1 | ⟨e1, h1⟩) (h2 | ⟨e2, h2⟩)
        · exact Or.inl (UInt8.lt_trans h1 h2)
        · subst e2; exact Or.inl h1
        · subst e1; exact Or.inl h2
        · subst e1; subst e2; exact Or.inr ⟨rfl, ih _ _ h1 h2⟩

theorem leBytes_antisymm (a b : Bytes) :
    leBytes a b = true ∧ leBytes b a = true → a = b := by
  induction a generalizing b with
  | nil => cases b <;> simp [leBytes]
  | cons x xs ih =>
    cases b with
    | nil => simp [leBytes]
    | cons y ys =>
      rw [leBytes_cons_cons, leBytes_cons_cons]
      rintro ⟨h1 | ⟨e1, h1⟩, h2 | ⟨e2, h2⟩⟩
      · exact absurd (UInt8.lt_trans h1 h2) (UInt8.lt_irrefl _)
      · subst e2; exact absurd h1 (UInt8.lt_irrefl _)
      · subst e1; exact absurd h2 (UInt8.lt_irrefl _)
      · subst e1; rw [ih ys ⟨h1, h2⟩]

/-- comparing two strings with a common prefix = comparing what follows the prefix -/
theorem leBytes_append_left (p a b : Bytes) : leBytes (p ++ a) (p ++ b) = leBytes a b := by
  induction p with
  | nil => rfl
  | cons x xs ih => simp [leBytes, UInt8.lt_irrefl, ih]

theorem lePath_trans (a b c : Bytes × Bytes) :
    lePath a b = true → lePath b c = true → lePath a c = true := leBytes_trans _ _ _

theorem lePath_total (a b : Bytes × Bytes) : (lePath a b || lePath b a) = true :=
  leBytes_total _ _

theorem leName_trans {α : Type} (a b c : Bytes × α) :
    leName a b = true → leName b c = true → leName a c = true := leBytes_trans _ _ _

theorem leName_total {α : Type} (a b : Bytes × α) : (leName a b || leName b a) = true :=
  leBytes_total _ _

/-! ### generic facts about sorting -/

/-- two elements of a list whose keys are pairwise distinct are equal once their keys are -/
theorem eq_of_key_eq {α β : Type} (f : α → β) :
    ∀ (l : List α), (l.map f).Nodup → ∀ a b, a ∈ l → b ∈ l → f a = f b → a = b
  | [], _, _, _, ha, _, _ => by cases ha
  | x :: t, hn, a, b, ha, hb, e => by
    rw [List.map_cons, List.nodup_cons] at hn
    rcases List.mem_cons.mp ha with rfl | ha' <;> rcases List.mem_cons.mp hb with rfl | hb'
    · rfl
    · exact absurd (e ▸ List.mem_map_of_mem hb') hn.1
    · exact absurd (e ▸ List.mem_map_of_mem ha') hn.1
    · exact eq_of_key_eq f t hn.2 a b ha' hb' e

/-- sorting is insensitive to the order of the input when the comparison is a total preorder
    that is antisymmetric on the elements present -/
theorem mergeSort_eq_of_perm {α : Type} (le : α → α → Bool)
    (trans : ∀ a b c, le a b = true → le b c = true → le a c = true)
    (total : ∀ a b, (le a b || le b a) = true)
    {l₁ l₂ : List α} (hp : l₁.Perm l₂)
    (anti : ∀ a b, a ∈ l₁ → b ∈ l₁ → le a b = true → le b a = true → a = b) :
    l₁.mergeSort le = l₂.mergeSort le := by
  apply List.Perm.eq_of_pairwise (le := fun a b => le a b = true)
  · intro a b ha hb
    exact anti a b (List.mem_mergeSort.mp ha) (hp.symm.subset (List.mem_mergeSort.mp hb))
  · exact List.pairwise_mergeSort trans total l₁
  · exact List.pairwise_mergeSort trans total l₂
  · exact (List.mergeSort_perm l₁ le).trans (hp.trans (List.mergeSort_perm l₂ le).symm)

/-! ### full paths of a well-named tree are distinct -/

/-- what can follow a name inside a full path: nothing, or `/…` -/
def SepTail (r : Bytes) : Prop := r = [] ∨ ∃ r', r = sep :: r'

/-- the key fact: a `/`-free name is determined by any string that starts with it and
    continues with nothing or with `/` -/
theorem name_eq_of_append_eq : ∀ {n₁ n₂ r₁ r₂ : Bytes}, sep ∉ n₁ → sep ∉ n₂ →
    SepTail r₁ → SepTail r₂ → n₁ ++ r₁ = n₂ ++ r₂ → n₁ = n₂
  | [], [], _, _, _, _, _, _, _ => rfl
  | [], y :: ys, r₁, r₂, _, h2, t1, _, h => by
    rcases t1 with rfl | ⟨r', rfl⟩
    · simp at h
    · simp only [List.nil_append, List.cons_append, List.cons.injEq] at h
      exact absurd (h.1 ▸ List.mem_cons_self) h2
  | x :: xs, [], r₁, r₂, h1, _, _, t2, h => by
    rcases t2 with rfl | ⟨r', rfl⟩
    · simp at h
    · simp only [List.nil_append, List.cons_append, List.cons.injEq] at h
      exact absurd (h.1 ▸ List.mem_cons_self) h1
  | x :: xs, y :: ys, r₁, r₂, h1, h2, t1, t2, h => by
    simp only [List.cons_append, List.cons.injEq] at h
    rw [h.1, name_eq_of_append_eq (fun m => h1 (List.mem_cons_of_mem _ m))
      (fun m => h2 (List.mem_cons_of_mem _ m)) t1 t2 h.2]

end Listing

open Listing

namespace Spec

theorem wellNamedList_mem : ∀ {es : List (Bytes × Node)}, WellNamedList es →
    ∀ {n c}, (n, c) ∈ es → n ≠ [] ∧ sep ∉ n ∧ WellNamed c
  | [], _, _, _, hm => by cases hm
  | (n', c') :: t, hw, n, c, hm => by
    simp only [WellNamedList] at hw
    rcases List.mem_cons.mp hm with e | hm'
    · cases e; exact ⟨hw.1, hw.2.1, hw.2.2.1⟩
    · exact wellNamedList_mem hw.2.2.2 hm'

mutual
/-- every listed path is the prefix followed by nothing or by `/…` -/
theorem allFiles_path_form (pre : Bytes) : (t : Node) → ∀ x ∈ allFiles pre t,
    ∃ r, x.1 = pre ++ r ∧ SepTail r
  | .file d, x, hx => by
    simp only [allFiles, List.mem_singleton] at hx
    subst hx; exact ⟨[], by simp, Or.inl rfl⟩
  | .dir es, x, hx => by
    simp only [allFiles] at hx
    obtain ⟨n, c, r, _, e, _⟩ := allFilesList_path_form pre es x hx
    exact ⟨sep :: (n ++ r), by simp [e, join], Or.inr ⟨_, rfl⟩⟩
/-- every path listed below a directory starts with `pre/<name of one of its entries>` -/
theorem allFilesList_path_form (pre : Bytes) : (es : List (Bytes × Node)) →
    ∀ x ∈ allFilesList pre es, ∃ n c r, (n, c) ∈ es ∧ x.1 = join pre n ++ r ∧ SepTail r
  | [], x, hx => by simp [allFilesList] at hx
  | (n, c) :: t, x, hx => by
    simp only [allFilesList, List.mem_append] at hx
    rcases hx with hx | hx
    · obtain ⟨r, e, hr⟩ := allFiles_path_form (join pre n) c x hx
      exact ⟨n, c, r, List.mem_cons_self, e, hr⟩
    · obtain ⟨n', c', r, hm, e, hr⟩ := allFilesList_path_form pre t x hx
      exact ⟨n', c', r, List.mem_cons_of_mem _ hm, e, hr⟩
end

mutual
/-- path injectivity: in a well-named tree no two files have the same full path -/
theorem allFiles_paths_nodup (pre : Bytes) : (t : Node) → WellNamed t →
    ((allFiles pre t).map (·.1)).Nodup
  | .file d, _ => by simp [allFiles]
  | .dir es, h => by
    simp only [WellNamed] at h
    simpa only [allFiles] using allFilesList_paths_nodup pre es h.1 h.2
theorem allFilesList_paths_nodup (pre : Bytes) : (es : List (Bytes × Node)) →
    WellNamedList es → (es.map (·.1)).Nodup → ((allFilesList pre es).map (·.1)).Nodup
  | [], _, _ => by simp [allFilesList]
  | (n, c) :: t, hw, hn => by
    have hwt := hw
    simp only [WellNamedList] at hwt
    rw [List.map_cons, List.nodup_cons] at hn
    simp only [allFilesList, List.map_append]
    rw [List.nodup_append]
    refine ⟨allFiles_paths_nodup (join pre n) c hwt.2.2.1,
      allFilesList_paths_nodup pre t hwt.2.2.2 hn.2, ?_⟩
    intro p hp q hq e
    obtain ⟨x, hx, rfl⟩ := List.mem_map.mp hp
    obtain ⟨y, hy, rfl⟩ := List.mem_map.mp hq
    obtain ⟨r₁, e₁, t₁⟩ := allFiles_path_form (join pre n) c x hx
    obtain ⟨n₂, c₂, r₂, hm, e₂, t₂⟩ := allFilesList_path_form pre t y hy
    have hn₂ := wellNamedList_mem hwt.2.2.2 hm
    have e' : n ++ r₁ = n₂ ++ r₂ := by
      have : pre ++ sep :: (n ++ r₁) = pre ++ sep :: (n₂ ++ r₂) := by
        simpa [join, e₁, e₂] using e
      simpa using this
    have : n = n₂ := name_eq_of_append_eq hwt.2.1 hn₂.2.1 t₁ t₂ e'
    subst this
    exact hn.1 (List.mem_map_of_mem (f := (·.1)) hm)
end

/-- in a well-named tree a listed file is determined by its path -/
theorem allFiles_eq_of_path_eq (pre : Bytes) (t : Node) (h : WellNamed t) :
    ∀ a b, a ∈ allFiles pre t → b ∈ allFiles pre t → lePath a b = true → lePath b a = true →
      a = b := fun a b ha hb h1 h2 =>
  eq_of_key_eq (·.1) _ (allFiles_paths_nodup pre t h) a b ha hb (leBytes_antisymm a.1 b.1 ⟨h1, h2⟩)

/-! ### moving the root: a different prefix only changes the prefix -/

/-- put `p` in front of the path of a listed file -/
def prepend (p : Bytes) (x : Bytes × Bytes) : Bytes × Bytes := (p ++ x.1, x.2)

mutual
theorem allFiles_prepend (p s : Bytes) : (t : Node) →
    allFiles (p ++ s) t = (allFiles s t).map (prepend p)
  | .file d => by simp [allFiles, prepend]
  | .dir es => by simpa only [allFiles] using allFilesList_prepend p s es
theorem allFilesList_prepend (p s : Bytes) : (es : List (Bytes × Node)) →
    allFilesList (p ++ s) es = (allFilesList s es).map (prepend p)
  | [] => by simp [allFilesList]
  | (n, c) :: t => by
    have e : join (p ++ s) n = p ++ join s n := by simp [join]
    simp only [allFilesList, List.map_append]
    rw [e, allFiles_prepend p (join s n) c, allFilesList_prepend p s t]
end

/-- sorting full path strings that share a prefix = sorting the relative paths -/
theorem sortedFiles_prepend (p : Bytes) (t : Node) :
    sortedFiles p t = (sortedFiles [] t).map (prepend p) := by
  have e := allFiles_prepend p [] t
  rw [List.append_nil] at e
  unfold sortedFiles
  rw [e]
  symm
  apply List.map_mergeSort
  intro a _ b _
  simp [lePath, prepend, leBytes_append_left]

theorem sortedFiles_relative (p : Bytes) (t : Node) :
    (sortedFiles p t).map (fun x => (x.1.drop p.length, x.2)) = sortedFiles [] t := by
  rw [sortedFiles_prepend, List.map_map]
  conv => rhs; rw [← List.map_id (sortedFiles [] t)]
  apply List.map_congr_left
  intro x _
  simp [prepend]

end Spec

namespace Impl

/-! ### the v1 listing -/

mutual
/-- the v1 listing holds exactly the files of the tree (as a multiset), whatever the
    enumeration order -/
theorem listV1_perm (enum : List (List (Bytes × Bytes)) → List (List (Bytes × Bytes)))
    (henum : ∀ l, (enum l).Perm l) (pre : Bytes) : (t : Node) →
    (listV1 enum pre t).Perm (Spec.allFiles pre t)
  | .file d => by simp [listV1, Spec.allFiles]
  | .dir es => by
    simp only [listV1, Spec.allFiles]
    exact (List.mergeSort_perm _ _).trans
      ((henum _).flatten.trans (listV1Children_perm enum henum pre es))
theorem listV1Children_perm (enum : List (List (Bytes × Bytes)) → List (List (Bytes × Bytes)))
    (henum : ∀ l, (enum l).Perm l) (pre : Bytes) : (es : List (Bytes × Node)) →
    (listV1Children enum pre es).flatten.Perm (Spec.allFilesList pre es)
  | [] => by simp [listV1Children, Spec.allFilesList]
  | (n, c) :: t => by
    simp only [listV1Children, Spec.allFilesList, List.flatten_cons]
    exact (listV1_perm enum henum (join pre n) c).append (listV1Children_perm enum henum pre t)
end

/-- the v1 listing is the sorted list of all files -/
theorem listV1_eq_sortedFiles (enum : List (List (Bytes × Bytes)) → List (List (Bytes × Bytes)))
    (henum : ∀ l, (enum l).Perm l) (pre : Bytes) (t : Node) (h : Spec.WellNamed t) :
    listV1 enum pre t = Spec.sortedFiles pre t := by
  cases t with
  | file d => simp [listV1, Spec.sortedFiles, Spec.allFiles]
  | dir es =>
    have hp : ((enum (listV1Children enum pre es)).flatten).Perm (Spec.allFiles pre (.dir es)) := by
      simpa only [Spec.allFiles] using
        (henum _).flatten.trans (listV1Children_perm enum henum pre es)
    simp only [listV1, Spec.sortedFiles]
    apply (mergeSort_eq_of_perm lePath lePath_trans lePath_total hp.symm
      (Spec.allFiles_eq_of_path_eq pre _ h)).symm

/-! ### the v2 traversal -/

theorem traverseChildren_names (enum : List (Bytes × FTree) → List (Bytes × FTree)) :
    (es : List (Bytes × Node)) → (traverseChildren enum es).map (·.1) = es.map (·.1)
  | [] => by simp [traverseChildren]
  | (n, c) :: t => by simp [traverseChildren, traverseChildren_names enum t]

mutual
theorem traverse_enum (enum : List (Bytes × FTree) → List (Bytes × FTree))
    (henum : ∀ l, (enum l).Perm l) : (t : Node) → Spec.WellNamed t →
    traverse enum t = traverse id t
  | .file d, _ => by simp [traverse]
  | .dir es, h => by
    simp only [Spec.WellNamed] at h
    simp only [traverse, id_eq]
    rw [traverseChildren_enum enum henum es h.1]
    congr 1
    apply mergeSort_eq_of_perm leName leName_trans leName_total (henum _)
    intro a b ha hb h1 h2
    have hn : ((enum (traverseChildren id es)).map (·.1)).Nodup :=
      ((henum _).map _).nodup_iff.mpr (by rw [traverseChildren_names]; exact h.2)
    exact eq_of_key_eq (·.1) _ hn a b ha hb (leBytes_antisymm a.1 b.1 ⟨h1, h2⟩)
theorem traverseChildren_enum (enum : List (Bytes × FTree) → List (Bytes × FTree))
    (henum : ∀ l, (enum l).Perm l) : (es : List (Bytes × Node)) → Spec.WellNamedList es →
    traverseChildren enum es = traverseChildren id es
  | [], _ => by simp [traverseChildren]
  | (n, c) :: t, h => by
    simp only [Spec.WellNamedList] at h
    simp only [traverseChildren]
    rw [traverse_enum enum henum c h.2.2.1, traverseChildren_enum enum henum t h.2.2.2]
end

theorem keysAscendingList_iff : (es : List (Bytes × FTree)) →
    (Spec.KeysAscendingList es ↔ ∀ e ∈ es, Spec.KeysAscending e.2)
  | [] => by simp [Spec.KeysAscendingList]
  | (n, c) :: t => by simp [Spec.KeysAscendingList, keysAscendingList_iff t]

mutual
theorem traverse_keysAscending (enum : List (Bytes × FTree) → List (Bytes × FTree))
    (henum : ∀ l, (enum l).Perm l) : (t : Node) → Spec.WellNamed t →
    Spec.KeysAscending (traverse enum t)
  | .file d, _ => by simp [traverse, Spec.KeysAscending]
  | .dir es, h => by
    simp only [Spec.WellNamed] at h
    simp only [traverse, Spec.KeysAscending]
    have hperm : ((enum (traverseChildren enum es)).mergeSort leName).Perm
        (traverseChildren enum es) := (List.mergeSort_perm _ _).trans (henum _)
    refine ⟨?_, ?_⟩
    · rw [keysAscendingList_iff]
      intro e he
      exact (keysAscendingList_iff _).mp (traverseChildren_keysAscending enum henum es h.1) e
        (hperm.subset he)
    · have hs := List.pairwise_mergeSort (le := leName) leName_trans leName_total
        (enum (traverseChildren enum es))
      have hn : (((enum (traverseChildren enum es)).mergeSort leName).map (·.1)).Nodup :=
        (hperm.map _).nodup_iff.mpr (by rw [traverseChildren_names]; exact h.2)
      rw [List.Nodup, List.pairwise_map] at hn
      exact hs.and hn
theorem traverseChildren_keysAscending (enum : List (Bytes × FTree) → List (Bytes × FTree))
    (henum : ∀ l, (enum l).Perm l) : (es : List (Bytes × Node)) → Spec.WellNamedList es →
    Spec.KeysAscendingList (traverseChildren enum es)
  | [], _ => by simp [traverseChildren, Spec.KeysAscendingList]
  | (n, c) :: t, h => by
    simp only [Spec.WellNamedList] at h
    simp only [traverseChildren, Spec.KeysAscendingList]
    exact ⟨traverse_keysAscending enum henum c h.2.2.1,
      traverseChildren_keysAscending enum henum t h.2.2.2⟩
end

end Impl

namespace Listing

/-- the example tree is well named -/
theorem exTree_wellNamed : Spec.WellNamed exTree := by
  simp [exTree, Spec.WellNamed, Spec.WellNamedList, sep]

end Listing
end TorrentVerif

import TorrentVerif.Model.Rebuild
import TorrentVerif.Proofs.RbPath
/- Frame and containment lemmas for the filesystem-effect model of rebuild. -/
namespace TorrentVerif
open Rebuild PosixPath

namespace Spec

/-- static containment of a call: what `copypath` below an existing destination emits -/
def OpBelow (dest : Path) : Op → Prop
  | .mkdir p => StrictlyBelow dest p
  | .copy _ dst => dest <+: dst

theorem StrictlyBelow.not_prefix {dest p : Path} (h : StrictlyBelow dest p) : ¬ p <+: dest := by
  obtain ⟨ext, hne, rfl⟩ := h
  intro hp
  have := hp.length_le
  simp at this
  exact hne (List.eq_nil_of_length_eq_zero (by omega))

theorem StrictlyBelow.ne {dest p : Path} (h : StrictlyBelow dest p) : p ≠ dest := by
  intro e; subst e; exact h.not_prefix (List.prefix_refl _)

theorem StrictlyBelow.prefix {dest p : Path} (h : StrictlyBelow dest p) : dest <+: p := by
  obtain ⟨ext, _, rfl⟩ := h; exact List.prefix_append _ _

theorem strictlyBelow_of_prefix_ne {dest p : Path} (h : dest <+: p) (hne : p ≠ dest) :
    StrictlyBelow dest p := by
  obtain ⟨ext, rfl⟩ := h
  refine ⟨ext, ?_, rfl⟩
  intro e; subst e; simp at hne

theorem StrictlyBelow.append {dest p : Path} (h : StrictlyBelow dest p) (x : Path) :
    StrictlyBelow dest (p ++ x) := by
  obtain ⟨ext, hne, rfl⟩ := h
  exact ⟨ext ++ x, by simp [hne], by simp⟩

theorem TraceAll_append (P : FS → Op → Prop) (a b : List Op) :
    ∀ fs, TraceAll P fs (a ++ b) ↔ TraceAll P fs a ∧ TraceAll P (applyOps fs a) b := by
  induction a with
  | nil => intro fs; simp [TraceAll, applyOps]
  | cons x xs ih =>
    intro fs
    simp only [List.cons_append, TraceAll, ih, applyOps, List.foldl_cons]
    exact and_assoc.symm

theorem TraceAll_mono {P Q : FS → Op → Prop} (h : ∀ fs op, P fs op → Q fs op) (ops : List Op) :
    ∀ fs, TraceAll P fs ops → TraceAll Q fs ops := by
  induction ops with
  | nil => intro fs _; trivial
  | cons x xs ih => intro fs hp; exact ⟨h _ _ hp.1, ih _ hp.2⟩

end Spec

namespace Rebuild
open Spec

theorem applyOps_append (fs : FS) (a b : List Op) : applyOps fs (a ++ b) = applyOps (applyOps fs a) b := by
  simp [applyOps]

theorem applyOps_nil (fs : FS) : applyOps fs [] = fs := rfl

theorem applyOps_cons (fs : FS) (a : Op) (b : List Op) : applyOps fs (a :: b) = applyOps (applyOp fs a) b := rfl

/-- an operation changes nothing but the path it writes -/
theorem applyOp_frame (fs : FS) (op : Op) (q : Path) (hq : q ≠ Op.writes fs op) :
    applyOp fs op q = fs q := by
  cases op with
  | mkdir p => simp [applyOp, FS.set, Op.writes] at *; intro e; exact absurd e hq
  | copy src dst =>
    simp only [applyOp]
    cases fs.readFile? src with
    | none => rfl
    | some d => simp [FS.set]; intro e; exact absurd e hq

/-- nothing that exists ever disappears -/
theorem applyOp_ex (fs : FS) (op : Op) (q : Path) (h : (fs q).isSome) : (applyOp fs op q).isSome := by
  cases op with
  | mkdir p => simp [applyOp, FS.set]; split <;> simp [h]
  | copy src dst =>
    simp only [applyOp]
    cases fs.readFile? src with
    | none => exact h
    | some d => simp [FS.set]; split <;> simp [h]

theorem destReady_ex_prefix {fs : FS} {dest pre : Path} (hr : DestReady fs dest) (h : pre <+: dest) :
    (fs pre).isSome = true := by
  have hlen := h.length_le
  rw [List.prefix_iff_eq_take.mp h]
  by_cases hk : pre.length < dest.length
  · exact hr.2 _ hk
  · rw [List.take_of_length_le (by omega), hr.1]; rfl

theorem writes_below {fs : FS} {dest : Path} (hr : DestReady fs dest) {op : Op} (hb : OpBelow dest op) :
    StrictlyBelow dest (Op.writes fs op) := by
  cases op with
  | mkdir p => exact hb
  | copy src dst =>
    simp only [OpBelow] at hb
    simp only [Op.writes]
    by_cases hd : dst = dest
    · subst hd
      simp [hr.1]
      exact ⟨[baseName src], by simp, rfl⟩
    · have := strictlyBelow_of_prefix_ne hb hd
      split
      · exact this.append _
      · exact this

theorem destReady_applyOp {fs : FS} {dest : Path} (hr : DestReady fs dest) {op : Op}
    (hw : StrictlyBelow dest (Op.writes fs op)) : DestReady (applyOp fs op) dest := by
  constructor
  · rw [applyOp_frame fs op dest (fun e => hw.ne e.symm)]; exact hr.1
  · intro k hk
    exact applyOp_ex fs op _ (hr.2 k hk)

/-- calls that are statically below an existing destination only write strictly below it,
    and leave the destination ready -/
theorem trace_below (dest : Path) (ops : List Op) :
    ∀ fs, DestReady fs dest → (∀ op ∈ ops, OpBelow dest op) →
      TraceAll (fun fs op => StrictlyBelow dest (Op.writes fs op)) fs ops ∧
      DestReady (applyOps fs ops) dest := by
  induction ops with
  | nil => intro fs hr _; exact ⟨trivial, hr⟩
  | cons x xs ih =>
    intro fs hr hall
    have hw := writes_below hr (hall x (List.mem_cons_self))
    have hr' := destReady_applyOp hr hw
    have := ih (applyOp fs x) hr' (fun op hop => hall op (List.mem_cons_of_mem _ hop))
    exact ⟨⟨hw, this.1⟩, this.2⟩

end Rebuild

namespace Impl
open Spec

theorem mkdirChain_mem (fs : FS) (parts : List Comp) :
    ∀ root op, op ∈ mkdirChain fs root parts →
      ∃ k, 0 < k ∧ k ≤ parts.length ∧ op = Op.mkdir (root ++ parts.take k) ∧
        fs.ex (root ++ parts.take k) = false := by
  induction parts with
  | nil => intro root op h; simp [mkdirChain] at h
  | cons a r ih =>
    intro root op h
    simp only [mkdirChain, List.mem_append] at h
    rcases h with h | h
    · split at h
      · simp at h
      · rename_i hex
        simp at h
        exact ⟨1, by omega, by simp, by simpa using h, by simpa using hex⟩
    · obtain ⟨k, hk0, hk, hop, hex⟩ := ih (root ++ [a]) op h
      refine ⟨k + 1, by omega, by simp; omega, ?_, ?_⟩
      · simpa [List.append_assoc] using hop
      · simpa [List.append_assoc] using hex

/-- the calls of one `copypath` below an existing destination are statically below it -/
theorem copypath_below (ds : Nat) (fs : FS) (dest src dst : Path) (hr : DestReady fs dest)
    (hd : dest <+: dst) : ∀ op ∈ copypath ds fs src dst, OpBelow dest op := by
  intro op hop
  unfold copypath at hop
  split at hop
  · simp at hop
  · split at hop
    · simp at hop
    · simp only [List.mem_append, List.mem_singleton] at hop
      rcases hop with hop | hop
      · obtain ⟨k, _, _, rfl, hex⟩ := mkdirChain_mem fs _ [] op hop
        simp only [List.nil_append] at hex ⊢
        simp only [OpBelow]
        -- the created path is a prefix of dst that does not exist, hence not a prefix of dest
        have hp : dst.dropLast.take k <+: dst :=
          (List.take_prefix _ _).trans (List.dropLast_prefix _)
        obtain ⟨ext, rfl⟩ := hd
        rcases List.prefix_or_prefix_of_prefix hp (List.prefix_append dest ext) with h | h
        · have := Rebuild.destReady_ex_prefix hr h
          simp [FS.ex] at hex
          rw [hex] at this
          simp at this
        · apply strictlyBelow_of_prefix_ne h
          intro e
          have := Rebuild.destReady_ex_prefix hr (List.prefix_refl dest)
          rw [← e] at this
          simp [FS.ex] at hex
          rw [hex] at this
          simp at this
      · subst hop; exact hd

end Impl
end TorrentVerif

import TorrentVerif.Proofs.RbMetaTree
import TorrentVerif.Proofs.RbMetaView
/-
  End to end, v2 and hybrid: created metafile → `rebuildFromBytes` → recheck of the rebuilt
  destination (helper lemmas of `Props/C13.rebuild_of_created_v2`).
-/
namespace TorrentVerif
open Rebuild PosixPath Spec Impl Listing

namespace RbMeta
open E2E RF

/-- the file name `_index_contents` looks for: the last component of the relative path, the
    torrent's name for a single file -/
def fileNameOf (name : Bytes) (cs : List Bytes) : Bytes := (name :: cs).getLast?.getD name

/-- the metafile was written by a pure v2 creator (`TorrentFileV2`, `TorrentAssembler` "2"): the
    only case in which `extract` cannot tell the directory `name/{name: file}` from a single file
    (a hybrid metafile of a directory carries a `files` list; since commit 777cf99 `extract` then
    does not apply the single-file rule) -/
def PureV2 (o : CreateOpts) (H H1 : Bytes → Bytes) (B hs : Nat)
    (enum : List (Bytes × FTree) → List (Bytes × FTree)) (t : Node) (r : BVal) (b : Bytes) : Prop :=
  createV2Class o H B hs enum t = some (r, b) ∨ createAsm false o H H1 B hs enum t = some (r, b)

theorem infoGet_eq (r : BVal) (info : Dict) (h : r.get? K.info = some (.dict info)) (k : Bytes) :
    r.infoGet? k = dictGet info k := by
  unfold BVal.infoGet?; rw [h]; rfl

/-- all four v2-capable creators: what was written, as `extract` / the checker read it; `info` has
    a `files` key only for a directory (hybrid), and then always -/
theorem written_of_v2capable (o : CreateOpts) (H H1 : Bytes → Bytes) (B hs j : Nat) (hB : 0 < B)
    (hpl : o.pieceLength = 2 ^ j * B)
    (enum : List (Bytes × FTree) → List (Bytes × FTree)) (henum : ∀ l, (enum l).Perm l)
    (t : Node) (hwn : WellNamed t) (r : BVal) (b : Bytes)
    (hc : WrittenV2Capable o H H1 B hs enum t r b) :
    ∃ info, V2Written o H B hs (2 ^ j) enum t r b info ∧
      (dictHas info K.files = true → ∃ es, t = .dir es) ∧
      ((PureV2 o H H1 B hs enum t r b → ∀ d, t ≠ .dir [(o.name, .file d)]) →
        dictHas info K.files = false → ∀ d, t ≠ .dir [(o.name, .file d)]) := by
  have hbpp := Nat.two_pow_pos j
  have v2case : createV2Class o H B hs enum t = some (r, b) → PureV2 o H H1 B hs enum t r b →
      ∃ info, V2Written o H B hs (2 ^ j) enum t r b info ∧
        (dictHas info K.files = true → ∃ es, t = .dir es) ∧
        ((PureV2 o H H1 B hs enum t r b → ∀ d, t ≠ .dir [(o.name, .file d)]) →
          dictHas info K.files = false → ∀ d, t ≠ .dir [(o.name, .file d)]) := by
    intro h hp
    obtain ⟨info, hw, hfiles⟩ := v2class_written o H B hs (2 ^ j) hB hpl enum henum t hwn r b h
    refine ⟨info, hw, ?_, fun hv _ => hv hp⟩
    intro hh; simp [dictHas, hfiles] at hh
  have hycase : createHybridClass o H H1 B hs enum t = some (r, b) →
      ∃ info, V2Written o H B hs (2 ^ j) enum t r b info ∧
        (dictHas info K.files = true → ∃ es, t = .dir es) ∧
        ((PureV2 o H H1 B hs enum t r b → ∀ d, t ≠ .dir [(o.name, .file d)]) →
          dictHas info K.files = false → ∀ d, t ≠ .dir [(o.name, .file d)]) := by
    intro h
    obtain ⟨info, hw, hfiles⟩ := hybrid_written o H H1 B hs (2 ^ j) hB hbpp hpl enum henum t hwn r b h
    refine ⟨info, hw, ?_, ?_⟩
    · intro hh
      cases t with
      | dir es => exact ⟨es, rfl⟩
      | file d =>
        exfalso
        rw [createHybridClass_file o H H1 B hs (2 ^ j) hB hbpp hpl] at h
        obtain ⟨hs2, _⟩ := written_some _ r b h
        have hk := hybrid_keys _ _ _ _ _ r hs2
        have hnone : dictGet info K.files = none := by
          rw [← infoGet_eq r info hw.hm.hinfo]; exact hk.files
        simp [dictHas, hnone] at hh
    · intro _ hfalse d e
      have := hfiles _ e
      simp [dictHas, this] at hfalse
  rcases hc with h | h | h | ⟨h20, h⟩
  · exact v2case h (Or.inl h)
  · have h' := h
    rw [createAsm_false_eq o H H1 B hs (2 ^ j) hB hbpp hpl] at h'
    exact v2case h' (Or.inr h)
  · exact hycase h
  · rw [createAsm_true_eq o H H1 B hs (2 ^ j) hB hbpp hpl h20] at h
    exact hycase h

/-- a hybrid metafile without a `files` key was made from a single file -/
theorem hybrid_files_key (o : CreateOpts) (H H1 : Bytes → Bytes) (B hs j : Nat) (hB : 0 < B)
    (hpl : o.pieceLength = 2 ^ j * B)
    (enum : List (Bytes × FTree) → List (Bytes × FTree)) (henum : ∀ l, (enum l).Perm l)
    (t : Node) (hwn : WellNamed t) (r : BVal) (b : Bytes)
    (hc : createHybridClass o H H1 B hs enum t = some (r, b) ∨
          ((∀ x, (H1 x).length = 20) ∧ createAsm true o H H1 B hs enum t = some (r, b)))
    (info : Dict) (hinfo : r.get? K.info = some (.dict info)) (hfalse : dictHas info K.files = false) :
    ∃ d, t = .file d := by
  have hbpp := Nat.two_pow_pos j
  have h : createHybridClass o H H1 B hs enum t = some (r, b) := by
    rcases hc with h | ⟨h20, h⟩
    · exact h
    · rwa [createAsm_true_eq o H H1 B hs (2 ^ j) hB hbpp hpl h20] at h
  obtain ⟨info', hw, hfiles⟩ := hybrid_written o H H1 B hs (2 ^ j) hB hbpp hpl enum henum t hwn r b h
  have : info' = info := by
    have := hw.hm.hinfo
    rw [hinfo] at this
    injection this with this
    injection this with this
    exact this.symm
  subst this
  cases t with
  | file d => exact ⟨d, rfl⟩
  | dir es =>
    have := hfiles es rfl
    simp [dictHas, this] at hfalse

/-- the bytes a hybrid creator writes for a directory are not the bytes of a pure v2 creator: they
    carry a `files` list -/
theorem not_pureV2_of_hybrid_dir (o : CreateOpts) (H H1 : Bytes → Bytes) (B hs j : Nat) (hB : 0 < B)
    (hpl : o.pieceLength = 2 ^ j * B)
    (enum : List (Bytes × FTree) → List (Bytes × FTree)) (henum : ∀ l, (enum l).Perm l)
    (es : List (Bytes × Node)) (hwn : WellNamed (.dir es)) (r : BVal) (b : Bytes)
    (hc : createHybridClass o H H1 B hs enum (.dir es) = some (r, b) ∨
          ((∀ x, (H1 x).length = 20) ∧ createAsm true o H H1 B hs enum (.dir es) = some (r, b))) :
    ¬ PureV2 o H H1 B hs enum (.dir es) r b := by
  intro hp
  have hbpp := Nat.two_pow_pos j
  have h2 : createV2Class o H B hs enum (.dir es) = some (r, b) := by
    rcases hp with h | h
    · exact h
    · rwa [createAsm_false_eq o H H1 B hs (2 ^ j) hB hbpp hpl] at h
  obtain ⟨info, hw, hnone⟩ := v2class_written o H B hs (2 ^ j) hB hpl enum henum (.dir es) hwn r b h2
  obtain ⟨d, e⟩ := hybrid_files_key o H H1 B hs j hB hpl enum henum (.dir es) hwn r b hc info hw.hm.hinfo
    (by simp [dictHas, hnone])
  cases e

/-- the traversal of the directory `{n: file}` -/
theorem traverse_namesake (enum : List (Bytes × FTree) → List (Bytes × FTree))
    (henum : ∀ l, (enum l).Perm l) (n d : Bytes) :
    ftreeFiles [] (traverse enum (.dir [(n, .file d)])) = [([n], d)] := by
  have h1 : enum [(n, FTree.leaf d)] = [(n, .leaf d)] := List.perm_singleton.mp (henum _)
  simp [traverse, traverseChildren, h1, ftreeFiles, ftreeFilesList]

theorem nodup_map_cons (name : Bytes) (l : List (List Bytes)) (h : l.Nodup) :
    (l.map (name :: ·)).Nodup :=
  List.pairwise_map.mpr (h.imp (fun hne e => hne (List.cons.inj e).2))

/-- the records of a listing of files of a plainly named tree: accepted paths, keys -/
theorem rec_facts (dest : Path) (hd : CleanPath dest) (name : Bytes) (hname : Spec.plainName name = true)
    (t : Node) (hplain : PlainNamed t) (cs : List Bytes) (d : Bytes) (hf : fileAt t cs = some d)
    (len : Nat) (root : Option Bytes) :
    safeJoin dest (fileRecOf name cs len root).full = some (dest ++ name :: cs) ∧
    splitSep (fileRecOf name cs len root).full = name :: cs := by
  have hcl : ∀ c ∈ name :: cs, CleanComp c := by
    intro c hc
    rcases List.mem_cons.mp hc with rfl | hc
    · exact cleanComp_of_plain _ hname
    · exact cleanComp_of_plain _ (fileAt_plain cs t d hplain hf c hc)
  exact ⟨safeJoin_plain dest hd (name :: cs) (by simp) hcl,
    splitSep_joinSep (name :: cs) (by simp) (fun c hc => (hcl c hc).noSep)⟩

/-- created v2 / hybrid metafile → rebuild: every file of the tree is restored, all are counted -/
theorem rebuild_v2_core (o : CreateOpts) (H1 H : Bytes → Bytes) (B hs j : Nat) (hB : 0 < B)
    (enum : List (Bytes × FTree) → List (Bytes × FTree)) (henum : ∀ l, (enum l).Perm l)
    (t : Node) (hwn : WellNamed t) (hplain : PlainNamed t) (hname : Spec.plainName o.name = true)
    (r : BVal) (b : Bytes) (info : Dict) (hw : V2Written o H B hs (2 ^ j) enum t r b info)
    (hfk : dictHas info K.files = true → ∃ es, t = .dir es)
    (hns : dictHas info K.files = false → ∀ d, t ≠ .dir [(o.name, .file d)])
    (ds : Nat) (fs : FS) (filemap : FileMap) (dest : Path) (hd : CleanPath dest)
    (hr : DestReady fs dest) (hok : FilemapOK fs dest filemap)
    (hfresh : ∀ cs, fs (dest ++ o.name :: cs) = none)
    (hint : ∀ cs d, fileAt t cs = some d → ∃ cands p, filemap.lookup (fileNameOf o.name cs) = some cands ∧
      (p, d.length) ∈ cands ∧ fs.readFile? p = some d)
    (hnc : ∀ cs d, fileAt t cs = some d → d ≠ [] → ∀ cands c d',
      filemap.lookup (fileNameOf o.name cs) = some cands → c ∈ cands → c.2 = d.length →
      fs.readFile? c.1 = some d' → Spec.root H B hs d' = Spec.root H B hs d → d' = d) :
    ∃ ops, rebuildFromBytes H1 H B hs ds fs filemap dest b
        = .ok (ops, (ftreeFiles [] (traverse enum t)).length) ∧
      (∀ cs d, fileAt t cs = some d → applyOps fs ops (dest ++ o.name :: cs) = some (.file d)) ∧
      ((∃ cs d, fileAt t cs = some d) → ViewOf (applyOps fs ops) (dest ++ [o.name]) (pruneNode t)) := by
  let hf := fhV2 H B hs (2 ^ j)
  let L := ftreeFiles [] (traverse enum t)
  have hload : loads b = some r := by rw [hw.hb]; exact loads_encode r hw.hcanon
  obtain ⟨m, hm, _, hmpl, hmv, _, hmfiles, _⟩ := extractMeta_v2 o hf enum henum t hplain hname r info
    (2 ^ j * B) hw.hm.hinfo hfk hns hw.hm.hname hw.hm.hpl hw.hm.hmv hw.hft
  have hLfa : ∀ x ∈ L, fileAt t x.1 = some x.2 := traverse_fileAt enum henum t hwn
  -- the hasher of `_match_v2`
  have hrootOf : (fun d => (hasherV2 H B hs (m.pieceLength.toNat / B) d).1) = fun d => (hf d).root := by
    funext d
    rw [hmpl, Int.toNat_natCast, Nat.mul_div_cancel _ hB]
    rfl
  let files := L.map (recV2 o.name hf)
  let orig := L.map (·.2)
  have hrec : ∀ r' ∈ files, ∃ x ∈ L, r' = recV2 o.name hf x := by
    intro r' hr'
    obtain ⟨x, hx, e⟩ := List.mem_map.mp hr'
    exact ⟨x, hx, e.symm⟩
  have hpad : ∀ r' ∈ files, r'.pad = false := by
    intro r' hr'; obtain ⟨x, _, rfl⟩ := hrec r' hr'; rfl
  have hjoin : ∀ r' ∈ files, r'.pad = false →
      safeJoin dest r'.full = some (dest ++ splitSep r'.full) := by
    intro r' hr' _
    obtain ⟨x, hx, rfl⟩ := hrec r' hr'
    obtain ⟨h1, h2⟩ := rec_facts dest hd o.name hname t hplain x.1 x.2 (hLfa x hx) x.2.length
      (rootOpt hf x.2)
    simp only [recV2]; rw [h2]; exact h1
  have hkey : ∀ x ∈ L, splitSep (recV2 o.name hf x).full = o.name :: x.1 := by
    intro x hx
    exact (rec_facts dest hd o.name hname t hplain x.1 x.2 (hLfa x hx) x.2.length (rootOpt hf x.2)).2
  have hsep : DestsSeparate dest files := by
    apply destsSeparate_of dest files (fun r' => splitSep r'.full) hjoin
    · have hfil : files.filter (fun r' => !r'.pad) = files := by
        apply List.filter_eq_self.mpr
        intro r' hr'; simp [hpad r' hr']
      rw [hfil]
      have : files.map (fun r' => splitSep r'.full) = (L.map (·.1)).map (o.name :: ·) := by
        simp only [files, List.map_map]
        apply List.map_congr_left
        intro x hx
        exact hkey x hx
      rw [this]
      exact nodup_map_cons _ _ (ftreeFiles_paths_nodup enum henum t hwn)
    · intro r1 hr1 r2 hr2 _ _ hpre
      obtain ⟨x, hx, rfl⟩ := hrec r1 hr1
      obtain ⟨y, hy, rfl⟩ := hrec r2 hr2
      simp only [hkey x hx, hkey y hy] at hpre ⊢
      obtain ⟨_, hp⟩ := List.cons_prefix_cons.mp hpre
      obtain ⟨q, hq⟩ := hp
      have := fileAt_prefix y.1 q t y.2 x.2 (hLfa y hy) (by rw [hq]; exact hLfa x hx)
      subst this
      simp at hq
      rw [hq]
  have hfreshF : DestFresh fs dest files := by
    intro r' hr' hp d hsj
    rw [hjoin r' hr' hp] at hsj
    injection hsj with hsj
    obtain ⟨x, hx, rfl⟩ := hrec r' hr'
    rw [← hsj, hkey x hx]
    exact hfresh x.1
  have hacc : ∀ r' ∈ files, ∃ dp, safeJoin dest r'.full = some dp :=
    fun r' hr' => ⟨_, hjoin r' hr' (hpad r' hr')⟩
  have hidx : ∀ (i : Nat) (r' : Rebuild.FileRec), files[i]? = some r' →
      ∃ x, L[i]? = some x ∧ r' = recV2 o.name hf x ∧ orig[i]? = some x.2 := by
    intro i r' hfi
    simp only [files, List.getElem?_map] at hfi
    cases hx : L[i]? with
    | none => rw [hx] at hfi; simp at hfi
    | some x =>
      rw [hx] at hfi
      simp only [Option.map_some, Option.some.injEq] at hfi
      exact ⟨x, rfl, hfi.symm, by simp [orig, List.getElem?_map, hx]⟩
  have hintA : IntactV2All (fun d => (hf d).root) fs filemap files orig := by
    intro i r' hfi
    obtain ⟨x, hx, rfl, ho⟩ := hidx i r' hfi
    have hxm : x ∈ L := List.mem_of_getElem? hx
    obtain ⟨cands, p, hl, hp, hread⟩ := hint x.1 x.2 (hLfa x hxm)
    refine ⟨x.2, ho, cands, p, hl, hp, hread, ?_⟩
    intro hne
    simp only [recV2, fileRecOf] at hne ⊢
    simp [rootOpt, hne]
  have hncA : NoRootCollision (fun d => (hf d).root) fs filemap files orig := by
    intro i r' o' hfi ho hne cands c d' hl hc hsz hread hroot
    obtain ⟨x, hx, rfl, ho'⟩ := hidx i r' hfi
    rw [ho] at ho'; injection ho' with ho'; subst ho'
    have hxm : x ∈ L := List.mem_of_getElem? hx
    simp only [recV2, fileRecOf] at hne hsz hroot hl
    have hxne : x.2 ≠ [] := by intro e; rw [e] at hne; exact hne rfl
    have hd'len : d'.length = c.2 := by
      obtain ⟨_, dd, hdd, hlen⟩ := hok _ _ hl _ hc
      rw [hread] at hdd; injection hdd with hdd; rw [hdd]; exact hlen
    have hd'ne : d' ≠ [] := by
      intro e; rw [e] at hd'len; simp at hd'len; omega
    simp only [rootOpt, hne, if_false, Option.some.injEq] at hroot
    apply hnc x.1 x.2 (hLfa x hxm) hxne cands c d' hl hc hsz hread
    rw [← fhV2_root_spec H B hs j hB d' hd'ne, ← fhV2_root_spec H B hs j hB x.2 hxne]
    exact hroot.symm
  obtain ⟨hcount, hfin, hcopies⟩ := matchV2_restores (fun d => (hf d).root) ds fs filemap dest files orig
    hd hr hok hsep hfreshF hpad hacc hintA hncA
  have hpresent : ∀ cs d, fileAt t cs = some d →
      applyOps fs (matchV2 (fun d => (hf d).root) ds filemap dest fs files).1 (dest ++ o.name :: cs)
        = some (.file d) := by
    intro cs d hfa
    have hmem : (cs, d) ∈ L := by
      have := mem_ftreeFiles_of_fileAt enum henum t [] cs d hfa
      simpa using this
    obtain ⟨i, hi⟩ := List.mem_iff_getElem?.mp hmem
    have hfi : files[i]? = some (recV2 o.name hf (cs, d)) := by
      simp [files, List.getElem?_map, hi]
    obtain ⟨o', ho', hfin'⟩ := hfin i _ _ hfi (hjoin _ (List.mem_of_getElem? hfi) rfl)
    have : orig[i]? = some d := by simp [orig, List.getElem?_map, hi]
    rw [this] at ho'; injection ho' with ho'; subst ho'
    rw [hkey (cs, d) hmem] at hfin'
    exact hfin'
  refine ⟨(matchV2 (fun d => (hf d).root) ds filemap dest fs files).1, ?_, hpresent, ?_⟩
  · simp only [rebuildFromBytes, hload, hm, bind, Except.bind, rebuildMeta, hmv, if_true, hrootOf,
      hmfiles]
    have : (matchV2 (fun d => (hf d).root) ds filemap dest fs files).2.length = L.length := by
      rw [hcount]; simp [files]
    rw [← this]
  · intro hex
    apply view_of_run ds (GoodV2 (fun d => (hf d).root) filemap dest files) t hwn hex dest o.name fs _
      (matchV2_run (fun d => (hf d).root) ds filemap dest files files fs (fun _ h => h)) hr
    · intro fs' s d hg
      obtain ⟨r', hr', hsj, cands, sz, hl, hm, _⟩ := hg.file
      obtain ⟨x, hx, rfl⟩ := hrec r' hr'
      rw [hjoin _ hr' rfl, hkey x hx] at hsj
      injection hsj with hsj
      exact ⟨x.1, x.2, hLfa x hx, hsj.symm, (hok _ _ hl _ hm).1⟩
    · intro src dst hc cs dd hfa hdst
      obtain ⟨r', hr', i, o', hfi, _, hsj, ho', hread⟩ := hcopies src dst hc
      obtain ⟨x, hx, rfl, hox⟩ := hidx i r' hfi
      have hxm : x ∈ L := List.mem_of_getElem? hx
      rw [hjoin _ hr' rfl, hkey x hxm, hdst] at hsj
      injection hsj with hsj
      have hcs : x.1 = cs := by
        have := List.append_cancel_left hsj
        exact (List.cons.inj this).2
      rw [hox] at ho'; injection ho' with ho'
      have hx2 : x.2 = dd := by
        have h1 := hLfa x hxm
        rw [hcs, hfa] at h1
        injection h1 with h1; exact h1.symm
      rw [hread, ← ho', hx2]
    · exact hfresh
    · exact hpresent

/-- the whole `Checker` on a created v2 / hybrid metafile, with a disk that holds every file of
    the tree as content (below a parent named differently from the torrent) -/
theorem recheck_v2_view (o : CreateOpts) (H1 H : Bytes → Bytes) (B hs bpp : Nat)
    (hhs : 0 < hs) (hH : ∀ x, (H x).length = hs) (hB : 0 < B) (hbpp : 0 < bpp)
    (enum : List (Bytes × FTree) → List (Bytes × FTree)) (henum : ∀ l, (enum l).Perm l)
    (t : Node) (hwn : WellNamed t) (hplain : PlainNamed t)
    (hsingle : ∀ d, t = .file d → Spec.plainName o.name = true)
    (hcoll : ∀ x ∈ ftreeFiles [] (traverse enum t), ∀ y ∈ ftreeFiles [] (traverse enum t),
      bpp * B < x.2.length → bpp * B < y.2.length →
      (fhV2 H B hs bpp x.2).root = (fhV2 H B hs bpp y.2).root →
      (fhV2 H B hs bpp x.2).layer = (fhV2 H B hs bpp y.2).layer)
    (hpos : 0 < treeBytes t) (r : BVal) (b : Bytes) (info : Dict)
    (hw : V2Written o H B hs bpp enum t r b info) (disk : Node)
    (hdisk : ∀ cs d, fileAt t cs = some d → fileAt disk cs = some d)
    (pname : Bytes) (hp : pname ≠ o.name) :
    ∃ vs, Impl.recheck H1 H B hs b ⟨.parent, pname⟩ disk = .ok (vs, treeBytes t, treeBytes t) ∧
      ∀ v ∈ vs, v.1 = true := by
  have hload : loads b = some r := by rw [hw.hb]; exact loads_encode r hw.hcanon
  have hnm := nameOf_eq r info o.name hw.hm.hinfo hw.hm.hname
  have hLfa := traverse_fileAt enum henum t hwn
  have htb := treeBytes_traverse enum henum t
  have hex : ∃ cs d, fileAt t cs = some d := by
    cases hL : ftreeFiles [] (traverse enum t) with
    | nil => rw [hL] at htb; simp at htb; omega
    | cons x rest => exact ⟨x.1, x.2, hLfa x (by rw [hL]; simp)⟩
  have hisf := isFile_of_holds t disk hdisk hex
  have hdesc := described_v2 o (fhV2 H B hs bpp) enum henum t hplain hsingle r info hw.hm.hinfo
    hw.hm.hname hw.hm.hmv hw.hft hw.hlen
  rw [← hisf] at hdesc
  have hfa : ∀ x ∈ ftreeFiles [] (traverse enum t), fileBytes disk x.1 = some x.2 :=
    fun x hx => fileBytes_of_fileAt disk x.1 x.2 (hdisk _ _ (hLfa x hx))
  have hlay := layers_lookup (fhV2 H B hs bpp) (bpp * B) _ hcoll
  have hroot := Spec.findRoot_place ⟨.parent, pname⟩ info o.name disk (Or.inl hp)
  have := recheckMeta_v2_general H1 H B hs bpp hhs hH hB hbpp r info o.name _ hw.hm disk _ hdesc hfa
    hlay (by rw [htb]; exact hpos) pname _ hroot
  rw [htb] at this
  simp only [Impl.recheck, hload, hnm]
  exact this

/-- the record `extract` makes of a traversed file, in terms of the BEP 52 root -/
def recSpec (name : Bytes) (H : Bytes → Bytes) (B hs : Nat) (x : List Bytes × Bytes) : Rebuild.FileRec :=
  fileRecOf name x.1 x.2.length (if x.2 = [] then none else some (Spec.root H B hs x.2))

theorem recV2_eq_spec (name : Bytes) (H : Bytes → Bytes) (B hs j : Nat) (hB : 0 < B)
    (x : List Bytes × Bytes) : recV2 name (fhV2 H B hs (2 ^ j)) x = recSpec name H B hs x := by
  unfold recV2 recSpec rootOpt
  by_cases h : x.2 = []
  · simp [h]
  · have : ¬ x.2.length = 0 := fun e => h (List.eq_nil_of_length_eq_zero e)
    simp [h, this, fhV2_root_spec H B hs j hB x.2 h]

/-- all four v2-capable creators: the bytes decode and `extract` yields one record per traversed
    file; the traversal lists every file of the tree once -/
theorem extract_v2cap (o : CreateOpts) (H H1 : Bytes → Bytes) (B hs j : Nat) (hB : 0 < B)
    (hpl : o.pieceLength = 2 ^ j * B)
    (enum : List (Bytes × FTree) → List (Bytes × FTree)) (henum : ∀ l, (enum l).Perm l)
    (t : Node) (hwn : WellNamed t) (hplain : PlainNamed t) (hname : Spec.plainName o.name = true)
    (r : BVal) (b : Bytes)
    (hc : WrittenV2Capable o H H1 B hs enum t r b)
    (hns : ∀ info, r.get? K.info = some (.dict info) → dictHas info K.files = false →
      ∀ d, t ≠ .dir [(o.name, .file d)]) :
    ∃ m, (loads b).map extractMeta = some (.ok m) ∧ m.name = o.name ∧
      m.pieceLength = o.pieceLength ∧ m.metaVersion = some 2 ∧
      m.files = (ftreeFiles [] (traverse enum t)).map (recSpec o.name H B hs) ∧
      m.filenames = nameSet (m.files.map (·.filename)) ∧
      (∀ x ∈ ftreeFiles [] (traverse enum t), fileAt t x.1 = some x.2) ∧
      (∀ cs d, fileAt t cs = some d → (cs, d) ∈ ftreeFiles [] (traverse enum t)) ∧
      ((ftreeFiles [] (traverse enum t)).map (·.1)).Nodup := by
  obtain ⟨info, hw, hfk, _⟩ := written_of_v2capable o H H1 B hs j hB hpl enum henum t hwn r b hc
  have hload : loads b = some r := by rw [hw.hb]; exact loads_encode r hw.hcanon
  obtain ⟨m, hm, h1, h2, h3, _, h5, h6⟩ := extractMeta_v2 o (fhV2 H B hs (2 ^ j)) enum henum t hplain
    hname r info (2 ^ j * B) hw.hm.hinfo hfk (hns info hw.hm.hinfo) hw.hm.hname hw.hm.hpl hw.hm.hmv hw.hft
  refine ⟨m, by rw [hload]; simp [hm], h1, by rw [h2, hpl], h3, ?_, h6,
    traverse_fileAt enum henum t hwn, ?_, ftreeFiles_paths_nodup enum henum t hwn⟩
  · rw [h5]
    apply List.map_congr_left
    intro x _
    exact recV2_eq_spec o.name H B hs j hB x
  · intro cs d h
    have := mem_ftreeFiles_of_fileAt enum henum t [] cs d h
    simpa using this

end RbMeta
end TorrentVerif

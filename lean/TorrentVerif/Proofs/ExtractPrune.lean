import TorrentVerif.Model.ExtractPrune
import TorrentVerif.Proofs.RecheckFull
/-
  Helper lemmas for `Props/C14.extract_skips_empty_directories`: `_parse_tree` on a file tree and
  on the same tree without its empty directories.
-/
namespace TorrentVerif
namespace Spec
open Impl Rebuild PosixPath

mutual
/-- a node without a file below it contributes no record -/
theorem parseEntry_noFile : (t : MetaTree) → (p : List Bytes) → (k : Bytes) → hasFile t = false →
    parseEntry p k t = []
  | .file _ _, _, _, h => by simp [hasFile] at h
  | .dir es, p, k, h => by
    simp only [hasFile] at h
    simp only [parseEntry]
    exact parseTree_noFile es (p ++ [k]) h
theorem parseTree_noFile : (es : List (Bytes × MetaTree)) → (p : List Bytes) → anyFile es = false →
    parseTree p es = []
  | [], _, _ => by simp [parseTree]
  | (k, t) :: r, p, h => by
    simp only [anyFile, Bool.or_eq_false_iff] at h
    simp only [parseTree, parseEntry_noFile t p k h.1, parseTree_noFile r p h.2, List.append_nil]
end

mutual
theorem parseEntry_prune : (t : MetaTree) → (p : List Bytes) → (k : Bytes) →
    parseEntry p k (pruneTree t) = parseEntry p k t
  | .file _ _, _, _ => by simp [pruneTree]
  | .dir es, p, k => by
    simp only [pruneTree, parseEntry]
    exact parseTree_prune es (p ++ [k])
/-- `_parse_tree` does not see the empty directories: same records, same order, same paths -/
theorem parseTree_prune : (es : List (Bytes × MetaTree)) → (p : List Bytes) →
    parseTree p (pruneEntries es) = parseTree p es
  | [], _ => by simp [pruneEntries]
  | (k, t) :: r, p => by
    simp only [pruneEntries]
    by_cases h : hasFile t = true
    · simp only [h, if_true, parseTree, parseEntry_prune t p k, parseTree_prune r p]
    · have h' : hasFile t = false := by simpa using h
      simp only [h', Bool.false_eq_true, if_false, parseTree, parseEntry_noFile t p k h',
        parseTree_prune r p, List.nil_append]
end

mutual
theorem parseEntry_leaves : (t : MetaTree) → (p : List Bytes) → (k : Bytes) →
    parseEntry p k t = (leavesOf (p ++ [k]) t).map recOfLeaf
  | .file _ _, p, k => by simp [parseEntry, leavesOf, recOfLeaf]
  | .dir es, p, k => by
    simp only [parseEntry, leavesOf]
    exact parseTree_leaves es (p ++ [k])
/-- every record is the record of one file of the tree under that file's own path -/
theorem parseTree_leaves : (es : List (Bytes × MetaTree)) → (p : List Bytes) →
    parseTree p es = (leavesList p es).map recOfLeaf
  | [], _ => by simp [parseTree, leavesList]
  | (k, t) :: r, p => by
    simp only [parseTree, leavesList, List.map_append, parseEntry_leaves t p k, parseTree_leaves r p]
end

mutual
theorem leavesOf_noFile : (t : MetaTree) → (p : List Bytes) → hasFile t = false → leavesOf p t = []
  | .file _ _, _, h => by simp [hasFile] at h
  | .dir es, p, h => by
    simp only [hasFile] at h
    simp only [leavesOf]
    exact leavesList_noFile es p h
theorem leavesList_noFile : (es : List (Bytes × MetaTree)) → (p : List Bytes) → anyFile es = false →
    leavesList p es = []
  | [], _, _ => by simp [leavesList]
  | (k, t) :: r, p, h => by
    simp only [anyFile, Bool.or_eq_false_iff] at h
    simp only [leavesList, leavesOf_noFile t (p ++ [k]) h.1, leavesList_noFile r p h.2, List.append_nil]
end

mutual
theorem leavesOf_prune : (t : MetaTree) → (p : List Bytes) → leavesOf p (pruneTree t) = leavesOf p t
  | .file _ _, _ => by simp [pruneTree]
  | .dir es, p => by
    simp only [pruneTree, leavesOf]
    exact leavesList_prune es p
/-- removing the empty directories removes no file and moves none -/
theorem leavesList_prune : (es : List (Bytes × MetaTree)) → (p : List Bytes) →
    leavesList p (pruneEntries es) = leavesList p es
  | [], _ => by simp [pruneEntries]
  | (k, t) :: r, p => by
    simp only [pruneEntries]
    by_cases h : hasFile t = true
    · simp only [h, if_true, leavesList, leavesOf_prune t (p ++ [k]), leavesList_prune r p]
    · have h' : hasFile t = false := by simpa using h
      simp only [h', Bool.false_eq_true, if_false, leavesList, leavesOf_noFile t (p ++ [k]) h',
        leavesList_prune r p, List.nil_append]
end

mutual
theorem hasFile_prune : (t : MetaTree) → hasFile (pruneTree t) = hasFile t
  | .file _ _ => by simp [pruneTree]
  | .dir es => by
    simp only [pruneTree, hasFile]
    exact anyFile_prune es
theorem anyFile_prune : (es : List (Bytes × MetaTree)) → anyFile (pruneEntries es) = anyFile es
  | [] => by simp [pruneEntries]
  | (k, t) :: r => by
    simp only [pruneEntries]
    by_cases h : hasFile t = true
    · simp only [h, if_true, anyFile, hasFile_prune t, anyFile_prune r]
    · have h' : hasFile t = false := by simpa using h
      simp only [h', Bool.false_eq_true, if_false, anyFile, anyFile_prune r, Bool.false_or]
end

mutual
theorem dirsFullTree_prune : (t : MetaTree) → hasFile t = true → dirsFullTree (pruneTree t) = true
  | .file _ _, _ => by simp [pruneTree, dirsFullTree]
  | .dir es, h => by
    simp only [hasFile] at h
    simp only [pruneTree, dirsFullTree, anyFile_prune es, h, dirsFull_prune es, Bool.and_self]
/-- after the removal every directory node has a file below it -/
theorem dirsFull_prune : (es : List (Bytes × MetaTree)) → dirsFull (pruneEntries es) = true
  | [] => by simp [pruneEntries, dirsFull]
  | (k, t) :: r => by
    simp only [pruneEntries]
    by_cases h : hasFile t = true
    · simp only [h, if_true, dirsFull, dirsFullTree_prune t h, dirsFull_prune r, Bool.and_self]
    · have h' : hasFile t = false := by simpa using h
      simp only [h', Bool.false_eq_true, if_false, dirsFull_prune r]
end

mutual
theorem pruneTree_of_full : (t : MetaTree) → dirsFullTree t = true → pruneTree t = t ∧ hasFile t = true
  | .file _ _, _ => by simp [pruneTree, hasFile]
  | .dir es, h => by
    simp only [dirsFullTree, Bool.and_eq_true] at h
    simp only [pruneTree, hasFile, pruneEntries_of_full es h.2, h.1, and_self]
/-- a tree without empty directories is left as it is: nothing else is removed -/
theorem pruneEntries_of_full : (es : List (Bytes × MetaTree)) → dirsFull es = true →
    pruneEntries es = es
  | [], _ => by simp [pruneEntries]
  | (k, t) :: r, h => by
    simp only [dirsFull, Bool.and_eq_true] at h
    obtain ⟨h1, h2⟩ := pruneTree_of_full t h.1
    simp only [pruneEntries, h2, if_true, h1, pruneEntries_of_full r h.2]
end

/-- the v2 branch of `Metadata.extract` in terms of the tree without its empty directories;
    the single-file rule is decided on the tree AS RECORDED -/
theorem extractV2_prune (name : Bytes) (es : List (Bytes × MetaTree)) :
    extractV2 name es = parseTree (v2Partials false name es) (pruneEntries es) := by
  rw [parseTree_prune]
  unfold extractV2 v2Partials isSingleFileTree
  split <;> simp
  rename_i k _ _
  by_cases hk : k = name <;> simp [hk]

/-- `_parse_tree` works entry by entry -/
theorem parseTree_append (p : List Bytes) (a b : List (Bytes × MetaTree)) :
    parseTree p (a ++ b) = parseTree p a ++ parseTree p b := by
  induction a with
  | nil => simp [parseTree]
  | cons x r ih =>
    obtain ⟨k, t⟩ := x
    simp only [List.cons_append, parseTree, ih, List.append_assoc]

/-- an entry without a file below it can be dropped where it stands -/
theorem parseTree_drop_noFile (p : List Bytes) (a b : List (Bytes × MetaTree)) (k : Bytes)
    (t : MetaTree) (h : hasFile t = false) :
    parseTree p (a ++ (k, t) :: b) = parseTree p (a ++ b) := by
  rw [parseTree_append, parseTree_append]
  simp only [parseTree, parseEntry_noFile t p k h, List.nil_append]

theorem pruneEntries_idem (es : List (Bytes × MetaTree)) :
    pruneEntries (pruneEntries es) = pruneEntries es :=
  pruneEntries_of_full _ (dirsFull_prune es)

/-- a tree that IS `{name: file}` has nothing to remove -/
theorem prune_of_single (name : Bytes) (es : List (Bytes × MetaTree))
    (h : isSingleFileTree name es = true) : pruneEntries es = es := by
  unfold isSingleFileTree at h
  split at h
  · simp [pruneEntries, hasFile, pruneTree]
  · cases h

namespace Ex

/-- the tree `{a: {}, b: file 3, c: {d: {}}, e: {f: file 5, g: {}}, z: {}}`: empty directories
    before, between (nested), inside a directory with a file, and after the files -/
def holedTree : List (Bytes × MetaTree) :=
  [([97], .dir []), ([98], .file 3 (some [1])), ([99], .dir [([100], .dir [])]),
   ([101], .dir [([102], .file 5 (some [2])), ([103], .dir [])]), ([122], .dir [])]

/-- the same metafile tree as bencoded value -/
def holedVal : BVal :=
  .dict [([97], .dict []), ([98], RF.Ex.leaf 3 (some [1])), ([99], .dict [([100], .dict [])]),
    ([101], .dict [([102], RF.Ex.leaf 5 (some [2])), ([103], .dict [])]), ([122], .dict [])]

/-- a v2 metafile `T` with that tree; with `hybrid` also a `files` list (hybrid torrent) -/
def holedMeta (hybrid : Bool) : BVal :=
  .dict [(K.info, .dict ([(K.fileTree, holedVal), (K.metaVersion, .int 2), (K.name, .str [84]),
    (K.pieceLength, .int 16)] ++ (if hybrid then [(K.files, .list [])] else [])))]

/-- the directory `D` that holds a file `D` and an empty directory `x` -/
def namesakeTree : List (Bytes × MetaTree) := [([68], .file 3 (some [1])), ([120], .dir [])]

end Ex

open RF in
/-- `Metadata.extract` on a `meta version` 2 metafile (v2 or hybrid): the records are those of
    the file tree without its empty directories, parsed below `v2Partials` -/
theorem extractMeta_v2_files (mf : BVal) (m : RebuildMeta) (h : extractMeta mf = .ok m)
    (hv : m.metaVersion = some 2) :
    ∃ info tree es, mf.get? K.info = some (.dict info) ∧
      dictGet info K.fileTree = some (.dict tree) ∧ toMetaEntries tree = .ok es ∧
      m.files = parseTree (v2Partials (dictHas info K.files) m.name es) (pruneEntries es) ∧
      m.filenames = nameSet (m.files.map (·.filename)) := by
  unfold extractMeta at h
  cases e1 : RF.sub mf K.info with
  | error e => simp [e1] at h
  | ok infoV =>
    simp only [e1, bind_ok] at h
    cases e2 : RF.sub infoV K.pieceLength with
    | error e => simp [e2] at h
    | ok plv =>
      simp only [e2, bind_ok] at h
      cases plv with
      | int pl =>
        simp only [pure, Except.pure, bind_ok] at h
        cases e3 : RF.sub infoV K.name with
        | error e => simp [e3] at h
        | ok nv =>
          simp only [e3, bind_ok] at h
          cases nv with
          | str name =>
            simp only [RF.str, bind_ok] at h
            cases infoV with
            | dict info =>
              simp only at h
              cases hmvd : dictGet info K.metaVersion with
              | none =>
                exfalso
                simp only [hmvd] at h
                rw [if_neg (by decide)] at h
                repeat' split at h
                all_goals first
                  | (cases h; simp at hv; done)
                  | (cases h; done)
                  | skip
                all_goals (
                  simp only [bind, Except.bind] at h
                  repeat' split at h
                  all_goals first
                    | (cases h; simp at hv; done)
                    | (cases h; done))
              | some v =>
                cases v with
                | int i =>
                  simp only [hmvd] at h
                  by_cases hi : i = 2
                  · subst hi
                    rw [if_pos rfl] at h
                    cases e4 : RF.sub (.dict info) K.fileTree with
                    | error e => simp [e4] at h
                    | ok tv =>
                      simp only [e4, bind_ok] at h
                      cases tv with
                      | dict tree =>
                        simp only at h
                        cases e5 : toMetaEntries tree with
                        | error e => simp [e5] at h
                        | ok es =>
                          simp only [e5, bind_ok, Except.ok.injEq] at h
                          subst h
                          refine ⟨info, tree, es, get?_of_sub _ _ _ e1, get?_of_sub (.dict info) _ _ e4, e5, ?_, rfl⟩
                          simp only
                          cases hf : dictHas info K.files with
                          | true => simp [v2Partials, parseTree_prune]
                          | false => simpa using extractV2_prune name es
                      | _ => simp at h
                  · exfalso
                    rw [if_neg (by simpa using hi)] at h
                    repeat' split at h
                    all_goals first
                      | (cases h; simp at hv; exact hi hv)
                      | (cases h; done)
                      | skip
                    all_goals (
                      simp only [bind, Except.bind] at h
                      repeat' split at h
                      all_goals first
                        | (cases h; simp at hv; exact hi hv)
                        | (cases h; done))
                | _ =>
                  exfalso
                  simp only [hmvd] at h
                  rw [if_neg (by decide)] at h
                  repeat' split at h
                  all_goals first
                    | (cases h; simp at hv; done)
                    | (cases h; done)
                    | skip
                  all_goals (
                    simp only [bind, Except.bind] at h
                    repeat' split at h
                    all_goals first
                      | (cases h; simp at hv; done)
                      | (cases h; done))
            | _ => simp at h
          | _ => simp [RF.str] at h
      | _ => simp at h
end Spec
end TorrentVerif

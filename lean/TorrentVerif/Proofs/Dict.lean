import TorrentVerif.Model.Bencode
import TorrentVerif.Proofs.Order
/-
  Association-list dictionaries: get / set / delete / sort.
-/
namespace TorrentVerif

@[simp] theorem keys_nil : keys [] = [] := rfl
@[simp] theorem keys_cons (k : Bytes) (v : BVal) (d : Dict) : keys ((k, v) :: d) = k :: keys d := rfl
theorem keys_append (a b : Dict) : keys (a ++ b) = keys a ++ keys b := by simp [keys]

theorem dictGet_none_iff (d : Dict) (k : Bytes) : dictGet d k = none ↔ k ∉ keys d := by
  induction d with
  | nil => simp [dictGet]
  | cons kv r ih =>
    obtain ⟨k', v'⟩ := kv
    by_cases h : k' = k
    · simp [dictGet, h]
    · have h' : ¬ k = k' := fun e => h e.symm
      simp [dictGet, h, ih, h']

theorem dictHas_iff (d : Dict) (k : Bytes) : dictHas d k = true ↔ k ∈ keys d := by
  unfold dictHas
  rw [Option.isSome_iff_ne_none, ne_eq, dictGet_none_iff]; simp

theorem dictHas_false_iff (d : Dict) (k : Bytes) : dictHas d k = false ↔ k ∉ keys d := by
  rw [← dictHas_iff]; simp

theorem dictGet_mem (d : Dict) (k : Bytes) (v : BVal) (h : dictGet d k = some v) : (k, v) ∈ d := by
  induction d with
  | nil => simp [dictGet] at h
  | cons kv r ih =>
    obtain ⟨k', v'⟩ := kv
    by_cases e : k' = k
    · subst e; simp [dictGet] at h; subst h; simp
    · simp [dictGet, e] at h; exact List.mem_cons_of_mem _ (ih h)

/-- with distinct keys, `get` finds exactly the items -/
theorem dictGet_eq_some_iff (d : Dict) (hn : (keys d).Nodup) (k : Bytes) (v : BVal) :
    dictGet d k = some v ↔ (k, v) ∈ d := by
  constructor
  · exact dictGet_mem d k v
  · intro h
    induction d with
    | nil => simp at h
    | cons kv r ih =>
      obtain ⟨k', v'⟩ := kv
      simp only [keys_cons, List.nodup_cons] at hn
      rcases List.mem_cons.mp h with e | h'
      · cases e; simp [dictGet]
      · have : k' ≠ k := by
          intro e; subst e
          exact hn.1 (List.mem_map.mpr ⟨(k', v), h', rfl⟩)
        simp [dictGet, this, ih hn.2 h']

/-- `get` only depends on the set of items (distinct keys) -/
theorem dictGet_perm (d e : Dict) (hp : d.Perm e) (hn : (keys d).Nodup) (k : Bytes) :
    dictGet d k = dictGet e k := by
  have hn' : (keys e).Nodup := (hp.map (fun kv : Bytes × BVal => kv.1)).nodup_iff.mp hn
  cases h : dictGet e k with
  | none =>
    rw [dictGet_none_iff] at h ⊢
    intro hk; exact h ((hp.map (fun kv : Bytes × BVal => kv.1)).mem_iff.mp hk)
  | some v =>
    rw [dictGet_eq_some_iff e hn'] at h
    rw [dictGet_eq_some_iff d hn]
    exact hp.mem_iff.mpr h

theorem dictGet_sortDict (d : Dict) (hn : (keys d).Nodup) (k : Bytes) :
    dictGet (sortDict d) k = dictGet d k :=
  dictGet_perm _ _ (sortDict_perm d)
    ((keys_sortDict_perm d).nodup_iff.mpr hn) k

theorem nodup_keys_sortDict (d : Dict) (hn : (keys d).Nodup) : (keys (sortDict d)).Nodup :=
  (keys_sortDict_perm d).nodup_iff.mpr hn

/-! ### set -/

theorem dictGet_dictSet_same (d : Dict) (k : Bytes) (v : BVal) : dictGet (dictSet d k v) k = some v := by
  induction d with
  | nil => simp [dictSet, dictGet]
  | cons kv r ih =>
    obtain ⟨k', v'⟩ := kv
    by_cases e : k' = k
    · simp [dictSet, e, dictGet]
    · simp [dictSet, e, dictGet, ih]

theorem dictGet_dictSet_other (d : Dict) (k k' : Bytes) (v : BVal) (h : k ≠ k') :
    dictGet (dictSet d k v) k' = dictGet d k' := by
  induction d with
  | nil => simp [dictSet, dictGet, h]
  | cons kv r ih =>
    obtain ⟨k0, v0⟩ := kv
    by_cases e : k0 = k
    · subst e; simp [dictSet, dictGet, h]
    · by_cases e' : k0 = k'
      · subst e'; simp [dictSet, e, dictGet]
      · simp [dictSet, e, dictGet, e', ih]

theorem dictSet_of_not_mem (d : Dict) (k : Bytes) (v : BVal) (h : k ∉ keys d) :
    dictSet d k v = d ++ [(k, v)] := by
  induction d with
  | nil => rfl
  | cons kv r ih =>
    obtain ⟨k0, v0⟩ := kv
    simp only [keys_cons, List.mem_cons, not_or] at h
    have : k0 ≠ k := fun e => h.1 e.symm
    simp [dictSet, this, ih h.2]

theorem keys_dictSet_of_mem (d : Dict) (k : Bytes) (v : BVal) (h : k ∈ keys d) :
    keys (dictSet d k v) = keys d := by
  induction d with
  | nil => simp at h
  | cons kv r ih =>
    obtain ⟨k0, v0⟩ := kv
    by_cases e : k0 = k
    · simp [dictSet, e]
    · simp only [keys_cons, List.mem_cons] at h
      rcases h with h | h
      · exact absurd h.symm e
      · simp [dictSet, e, ih h]

theorem keys_dictSet (d : Dict) (k : Bytes) (v : BVal) :
    keys (dictSet d k v) = if k ∈ keys d then keys d else keys d ++ [k] := by
  by_cases h : k ∈ keys d
  · simp [h, keys_dictSet_of_mem d k v h]
  · simp [h, dictSet_of_not_mem d k v h, keys_append]

theorem nodup_keys_dictSet (d : Dict) (k : Bytes) (v : BVal) (hn : (keys d).Nodup) :
    (keys (dictSet d k v)).Nodup := by
  rw [keys_dictSet]
  by_cases h : k ∈ keys d
  · simp [h, hn]
  · simp only [h, if_false]
    rw [List.nodup_append]
    refine ⟨hn, by simp, ?_⟩
    intro a ha b hb
    simp only [List.mem_singleton] at hb
    subst hb; intro e; subst e; exact h ha

theorem mem_keys_dictSet (d : Dict) (k k' : Bytes) (v : BVal) :
    k' ∈ keys (dictSet d k v) ↔ k' = k ∨ k' ∈ keys d := by
  rw [keys_dictSet]
  by_cases h : k ∈ keys d
  · simp only [h, if_true]
    constructor
    · exact Or.inr
    · rintro (rfl | h') <;> assumption
  · simp only [h, if_false, List.mem_append, List.mem_singleton]
    constructor
    · rintro (h' | h') <;> simp [h']
    · rintro (h' | h') <;> simp [h']

/-- the items after `d[k] = v`: the new one, or old ones under other keys -/
theorem mem_dictSet (d : Dict) (k : Bytes) (v : BVal) (kv : Bytes × BVal) (h : kv ∈ dictSet d k v) :
    kv = (k, v) ∨ kv ∈ d := by
  induction d with
  | nil => simp [dictSet] at h; exact Or.inl h
  | cons kv0 r ih =>
    obtain ⟨k0, v0⟩ := kv0
    by_cases e : k0 = k
    · simp only [dictSet, e, if_true, List.mem_cons] at h
      rcases h with h | h
      · exact Or.inl h
      · exact Or.inr (List.mem_cons_of_mem _ h)
    · simp only [dictSet, e, if_false, List.mem_cons] at h
      rcases h with h | h
      · exact Or.inr (by simp [h])
      · rcases ih h with h' | h'
        · exact Or.inl h'
        · exact Or.inr (List.mem_cons_of_mem _ h')

/-- with distinct keys, `d[k] = v` leaves no other item under `k` -/
theorem mem_dictSet_nodup (d : Dict) (hn : (keys d).Nodup) (k : Bytes) (v : BVal)
    (kv : Bytes × BVal) (h : kv ∈ dictSet d k v) : kv = (k, v) ∨ (kv ∈ d ∧ kv.1 ≠ k) := by
  induction d with
  | nil => simp [dictSet] at h; exact Or.inl h
  | cons kv0 r ih =>
    obtain ⟨k0, v0⟩ := kv0
    simp only [keys_cons, List.nodup_cons] at hn
    by_cases e : k0 = k
    · simp only [dictSet, e, if_true, List.mem_cons] at h
      rcases h with h | h
      · exact Or.inl h
      · refine Or.inr ⟨List.mem_cons_of_mem _ h, ?_⟩
        intro e'
        apply hn.1
        rw [e, ← e']
        exact List.mem_map.mpr ⟨kv, h, rfl⟩
    · simp only [dictSet, e, if_false, List.mem_cons] at h
      rcases h with h | h
      · exact Or.inr ⟨by simp [h], by rw [h]; exact e⟩
      · rcases ih hn.2 h with h' | h'
        · exact Or.inl h'
        · exact Or.inr ⟨List.mem_cons_of_mem _ h'.1, h'.2⟩

/-! ### delete -/

theorem keys_dictDel (d : Dict) (k : Bytes) : keys (dictDel d k) = (keys d).filter (· ≠ k) := by
  induction d with
  | nil => rfl
  | cons kv r ih =>
    obtain ⟨k0, v0⟩ := kv
    by_cases e : k0 = k
    · simp [dictDel, List.filter, e] at ih ⊢; exact ih
    · simp [dictDel, List.filter, e] at ih ⊢; exact ih

theorem nodup_keys_dictDel (d : Dict) (k : Bytes) (hn : (keys d).Nodup) :
    (keys (dictDel d k)).Nodup := by
  rw [keys_dictDel]; exact hn.filter _

theorem dictGet_dictDel_same (d : Dict) (k : Bytes) : dictGet (dictDel d k) k = none := by
  rw [dictGet_none_iff, keys_dictDel]; simp

theorem dictGet_dictDel_other (d : Dict) (k k' : Bytes) (h : k ≠ k') :
    dictGet (dictDel d k) k' = dictGet d k' := by
  induction d with
  | nil => rfl
  | cons kv r ih =>
    obtain ⟨k0, v0⟩ := kv
    by_cases e : k0 = k
    · subst e
      have : dictDel ((k0, v0) :: r) k0 = dictDel r k0 := by simp [dictDel, List.filter]
      rw [this, ih]; simp [dictGet, h]
    · have : dictDel ((k0, v0) :: r) k = (k0, v0) :: dictDel r k := by
        simp [dictDel, List.filter, e]
      rw [this]
      by_cases e' : k0 = k'
      · simp [dictGet, e']
      · simp [dictGet, e', ih]

theorem mem_dictDel (d : Dict) (k : Bytes) (kv : Bytes × BVal) (h : kv ∈ dictDel d k) : kv ∈ d :=
  (List.mem_filter.mp h).1

theorem mem_keys_dictDel (d : Dict) (k k' : Bytes) : k' ∈ keys (dictDel d k) ↔ k' ∈ keys d ∧ k' ≠ k := by
  rw [keys_dictDel]; simp

theorem dictDel_of_not_mem (d : Dict) (k : Bytes) (h : k ∉ keys d) : dictDel d k = d := by
  unfold dictDel
  rw [List.filter_eq_self]
  intro kv hkv
  simp only [ne_eq, decide_eq_true_eq]
  intro e; exact h (List.mem_map.mpr ⟨kv, hkv, e⟩)


/-! ### `get` after sorting, without any assumption (the sort is stable) -/

theorem dictGet_eq_find (d : Dict) (k : Bytes) :
    dictGet d k = ((d.filter (fun kv => kv.1 = k)).head?).map (·.2) := by
  induction d with
  | nil => rfl
  | cons kv r ih =>
    obtain ⟨k0, v0⟩ := kv
    by_cases e : k0 = k
    · simp [dictGet, List.filter, e]
    · simp [dictGet, List.filter, e, ih]

theorem filter_key_sortDict (d : Dict) (k : Bytes) :
    (sortDict d).filter (fun kv => kv.1 = k) = d.filter (fun kv => kv.1 = k) := by
  have hsub : (d.filter (fun kv => kv.1 = k)).Sublist (sortDict d) := by
    apply List.sublist_mergeSort (le := fun a b : Bytes × BVal => bytesLe a.1 b.1)
      (fun a b c => bytesLe_trans a.1 b.1 c.1) (fun a b => bytesLe_total a.1 b.1)
    · rw [List.pairwise_filter]
      apply List.pairwise_of_forall
      intro a b ha hb
      simp only [decide_eq_true_eq] at ha hb
      rw [ha, hb]; exact bytesLe_refl k
    · exact List.filter_sublist
  have h2 := hsub.filter (fun kv => decide (kv.1 = k))
  rw [List.filter_filter] at h2
  simp only [Bool.and_self] at h2
  have hlen := ((sortDict_perm d).filter (fun kv => decide (kv.1 = k))).length_eq
  exact (h2.eq_of_length hlen.symm).symm

/-- sorting never changes what `get` returns -/
theorem dictGet_sortDict' (d : Dict) (k : Bytes) : dictGet (sortDict d) k = dictGet d k := by
  rw [dictGet_eq_find, dictGet_eq_find, filter_key_sortDict]

theorem dictHas_sortDict (d : Dict) (k : Bytes) : dictHas (sortDict d) k = dictHas d k := by
  simp [dictHas, dictGet_sortDict']

end TorrentVerif

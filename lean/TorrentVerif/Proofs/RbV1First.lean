import TorrentVerif.Proofs.RbV1Complete
/- v1 into a fresh destination with separate file paths: under the KF-C13-1 hypothesis (no decoy
   agrees with the original on the FIRST piece covering a file) every file ends up with its
   original contents and every copy that is executed copies original contents. -/
namespace TorrentVerif
open Rebuild PosixPath Spec

namespace Impl

/-! ### one `copypath` call, pointwise -/

theorem mkdirChain_facts (fs : FS) (d : Path) (hne : d ≠ []) :
    ∀ op ∈ mkdirChain fs [] d.dropLast, ∃ p, op = Op.mkdir p ∧ fs.ex p = false ∧ p <+: d ∧ p.length < d.length := by
  intro op hop
  obtain ⟨k, _, hk, rfl, hex⟩ := mkdirChain_mem fs _ _ _ hop
  simp only [List.nil_append] at hex ⊢
  refine ⟨_, rfl, hex, (List.take_prefix _ _).trans (List.dropLast_prefix _), ?_⟩
  have : 0 < d.length := List.length_pos_iff.mpr hne
  simp [List.length_take]
  omega

/-- a `copypath` call whose destination is not a directory changes nothing but the destination
    and its proper ancestors -/
theorem copypath_frame (ds : Nat) (fs : FS) (s d q : Path) (hnd : fs d ≠ some .dir)
    (hq1 : q ≠ d) (hq2 : ¬ q <+: d) : applyOps fs (copypath ds fs s d) q = fs q := by
  unfold copypath
  split
  · rfl
  · split
    · rfl
    · rename_i hne
      have hm := mkdirChain_facts fs d hne
      rw [applyOps_append]
      have fr : ∀ q', (¬ q' <+: d ∨ q'.length = d.length) →
          applyOps fs (mkdirChain fs [] d.dropLast) q' = fs q' := by
        intro q' hq'
        apply applyOps_mkdirs_frame
        intro op hop
        obtain ⟨p, rfl, _, hp, hlen⟩ := hm op hop
        refine ⟨p, rfl, ?_⟩
        intro e; subst e
        rcases hq' with h | h
        · exact h hp
        · omega
      have hw : Op.writes (applyOps fs (mkdirChain fs [] d.dropLast)) (Op.copy s d) = d := by
        simp only [Op.writes]
        rw [fr d (Or.inr rfl), if_neg hnd]
      rw [applyOps_cons, applyOps_nil, applyOp_frame _ _ q (by rw [hw]; exact hq1)]
      exact fr q (Or.inl hq2)

/-- at the destination: either the call is skipped (destination exists, at least as large as the
    source) or afterwards the destination holds the source's contents -/
theorem copypath_at_dst (ds : Nat) (fs : FS) (s d : Path) (c : Bytes) (hnd : fs d ≠ some .dir)
    (hs : fs.readFile? s = some c) (hne : d ≠ []) :
    (copypath ds fs s d = [] ∧ fs.ex d = true ∧ fs.size ds s ≤ fs.size ds d) ∨
    ((applyOps fs (copypath ds fs s d)) d = some (.file c) ∧
      ¬ (fs.ex d = true ∧ fs.size ds s ≤ fs.size ds d)) := by
  have hex : fs.ex s = true := isFile_ex (by rw [hs]; rfl)
  by_cases hg : fs.ex d = true ∧ fs.size ds s ≤ fs.size ds d
  · left
    refine ⟨?_, hg.1, hg.2⟩
    unfold copypath
    rw [if_pos]
    simp [hex, hg.1, hg.2]
  · right
    refine ⟨?_, hg⟩
    unfold copypath
    rw [if_neg, if_neg hne]
    · have hm := mkdirChain_facts fs d hne
      rw [applyOps_append]
      have fr1 : applyOps fs (mkdirChain fs [] d.dropLast) s = fs s := by
        apply applyOps_mkdirs_frame
        intro op hop
        obtain ⟨p, rfl, hexp, _, _⟩ := hm op hop
        refine ⟨p, rfl, ?_⟩
        intro e; subst e; rw [hex] at hexp; cases hexp
      have fr2 : applyOps fs (mkdirChain fs [] d.dropLast) d = fs d := by
        apply applyOps_mkdirs_frame
        intro op hop
        obtain ⟨p, rfl, _, _, hlen⟩ := hm op hop
        refine ⟨p, rfl, ?_⟩
        intro e; subst e; omega
      have hr : (applyOps fs (mkdirChain fs [] d.dropLast)).readFile? s = some c := by
        unfold FS.readFile? at hs ⊢; rw [fr1]; exact hs
      simp only [applyOps_cons, applyOps_nil, applyOp, hr, Op.writes, fr2, if_neg hnd, FS.set, if_true]
    · simp only [Bool.or_eq_true, Bool.not_eq_true', Bool.and_eq_true, decide_eq_true_eq, not_or]
      exact ⟨by rw [hex]; simp, hg⟩

/-! ### invariant: accepted destinations are absent or hold the original -/

/-- every accepted destination is absent or already holds the original contents of its file -/
def Clean (dest : Path) (files : List FileRec) (orig : List Bytes) (fs : FS) : Prop :=
  ∀ (i : Nat) (r : FileRec) (d : Path), files[i]? = some r → r.pad = false →
    safeJoin dest r.full = some d → fs d = none ∨ ∃ o, orig[i]? = some o ∧ fs d = some (.file o)

structure Core (fs0 : FS) (dest : Path) (files : List FileRec) (orig : List Bytes) (fs : FS) : Prop where
  ready : DestReady fs dest
  agree : Agree fs fs0 dest
  clean : Clean dest files orig fs

/-- justification of one `copypath(s, d)` call in state `fs`: `d` is the accepted destination of a
    file record, `s` a candidate outside the destination of the right size, and either its
    contents are the original ones or the destination already holds the original -/
def CallJust (fs0 : FS) (dest : Path) (files : List FileRec) (orig : List Bytes) (fs : FS)
    (call : Path × Path) : Prop :=
  ∃ (i : Nat) (r : FileRec) (c o : Bytes), files[i]? = some r ∧ r.pad = false ∧ safeJoin dest r.full = some call.2 ∧
    orig[i]? = some o ∧ fs0.readFile? call.1 = some c ∧ ¬ dest <+: call.1 ∧ c.length = o.length ∧
    (c = o ∨ fs call.2 = some (.file o))

/-- destinations that hold their original keep it -/
def Keeps (dest : Path) (files : List FileRec) (orig : List Bytes) (fs fs' : FS) : Prop :=
  ∀ (j : Nat) (r' : FileRec) (d' : Path) (o' : Bytes), files[j]? = some r' → r'.pad = false →
    safeJoin dest r'.full = some d' → orig[j]? = some o' → fs d' = some (.file o') → fs' d' = some (.file o')

/-- every executed copy copies original contents to the file's destination -/
def CopiesOrig (fs0 : FS) (dest : Path) (files : List FileRec) (orig : List Bytes) (ops : List Op) : Prop :=
  ∀ src dst, Op.copy src dst ∈ ops → ∃ r ∈ files, ∃ (i : Nat) (o : Bytes), files[i]? = some r ∧
    r.pad = false ∧ safeJoin dest r.full = some dst ∧ orig[i]? = some o ∧ fs0.readFile? src = some o

theorem size_of_file {fs : FS} {p : Path} {c : Bytes} (ds : Nat) (h : fs.readFile? p = some c) :
    fs.size ds p = c.length ∧ fs.ex p = true := by
  unfold FS.readFile? at h
  unfold FS.size FS.ex
  split at h
  · rename_i d hd; injection h with h; subst h; rw [hd]; exact ⟨rfl, rfl⟩
  · cases h

theorem callStep (ds : Nat) (fs0 : FS) (dest : Path) (files : List FileRec) (orig : List Bytes)
    (hd : CleanPath dest) (hsep : DestsSeparate dest files) (fs : FS)
    (core : Core fs0 dest files orig fs) (call : Path × Path)
    (hj : CallJust fs0 dest files orig fs call) :
    Core fs0 dest files orig (applyOps fs (copypath ds fs call.1 call.2)) ∧
    (∃ (i : Nat) (r : FileRec) (o : Bytes), files[i]? = some r ∧ r.pad = false ∧ safeJoin dest r.full = some call.2 ∧
      orig[i]? = some o ∧ (applyOps fs (copypath ds fs call.1 call.2)) call.2 = some (.file o)) ∧
    Keeps dest files orig fs (applyOps fs (copypath ds fs call.1 call.2)) ∧
    CopiesOrig fs0 dest files orig (copypath ds fs call.1 call.2) := by
  obtain ⟨s, d⟩ := call
  obtain ⟨i, r, c, o, hfi, hrp, hsj, hoi, hread0, hout, hlen, hco⟩ := hj
  simp only at hsj hread0 hout hco ⊢
  obtain ⟨hpre, _, hned⟩ := safeJoin_some dest hd _ _ hsj
  have hdne : d ≠ [] := by
    obtain ⟨ext, hext, rfl⟩ := strictlyBelow_of_prefix_ne hpre hned
    simp [hext]
  have hreadfs : fs.readFile? s = some c := by rw [agree_readFile core.agree hout]; exact hread0
  obtain ⟨hsz, hexs⟩ := size_of_file ds hreadfs
  have hnd : fs d ≠ some .dir := by
    rcases core.clean i r d hfi hrp hsj with h | ⟨o', _, h⟩ <;> rw [h] <;> simp
  -- containment facts
  have hb := copypath_below ds fs dest s d core.ready hpre
  obtain ⟨htr, hr'⟩ := trace_below dest _ fs core.ready hb
  have ha' := core.agree.trans_trace htr
  -- the destination afterwards
  have hdst : (applyOps fs (copypath ds fs s d)) d = some (.file o) ∧
      (∀ src dst, Op.copy src dst ∈ copypath ds fs s d → c = o) := by
    rcases core.clean i r d hfi hrp hsj with hnone | ⟨o', ho', hfile⟩
    · have hc : c = o := by
        rcases hco with h | h
        · exact h
        · rw [hnone] at h; cases h
      rcases copypath_at_dst ds fs s d c hnd hreadfs hdne with ⟨_, hex, _⟩ | ⟨h, _⟩
      · unfold FS.ex at hex; rw [hnone] at hex; cases hex
      · exact ⟨hc ▸ h, fun _ _ _ => hc⟩
    · rw [hoi] at ho'; injection ho' with ho'; subst ho'
      rcases copypath_at_dst ds fs s d c hnd hreadfs hdne with ⟨h, _, _⟩ | ⟨_, h⟩
      · rw [h]; exact ⟨hfile, fun _ _ hm => by simp at hm⟩
      · exfalso
        apply h
        refine ⟨by unfold FS.ex; rw [hfile]; rfl, ?_⟩
        have : fs.size ds d = o.length := by unfold FS.size; rw [hfile]
        rw [hsz, this]; omega
  -- other destinations are untouched
  have hother : ∀ (j : Nat) (r' : FileRec) (d' : Path), files[j]? = some r' → r'.pad = false →
      safeJoin dest r'.full = some d' → d' ≠ d → (applyOps fs (copypath ds fs s d)) d' = fs d' := by
    intro j r' d' hfj hpj hsj' hne'
    apply copypath_frame ds fs s d d' hnd hne'
    intro hp
    have := hsep i j r r' d d' hfi hfj hrp hpj hsj hsj' hp
    subst this
    rw [hfi] at hfj; injection hfj with hfj; subst hfj
    rw [hsj] at hsj'; injection hsj' with hsj'
    exact hne' hsj'.symm
  have hsame : ∀ (j : Nat) (r' : FileRec), files[j]? = some r' → r'.pad = false →
      safeJoin dest r'.full = some d → orig[j]? = some o := by
    intro j r' hfj hpj hsj'
    have := hsep i j r r' d d hfi hfj hrp hpj hsj hsj' (List.prefix_refl _)
    subst this; exact hoi
  refine ⟨⟨hr', ha', ?_⟩, ⟨i, r, o, hfi, hrp, hsj, hoi, hdst.1⟩, ?_, ?_⟩
  · intro j r' d' hfj hpj hsj'
    by_cases hdd : d' = d
    · subst hdd; exact Or.inr ⟨o, hsame j r' hfj hpj hsj', hdst.1⟩
    · rw [hother j r' d' hfj hpj hsj' hdd]; exact core.clean j r' d' hfj hpj hsj'
  · intro j r' d' o' hfj hpj hsj' hoj hfile
    by_cases hdd : d' = d
    · subst hdd
      have := hsame j r' hfj hpj hsj'
      rw [hoj] at this; injection this with this; subst this
      exact hdst.1
    · rw [hother j r' d' hfj hpj hsj' hdd]; exact hfile
  · intro src dst hm
    obtain ⟨h1, h2⟩ := copypath_copy_mem hm
    subst h1 h2
    have hc := hdst.2 _ _ hm
    subst hc
    exact ⟨r, List.mem_of_getElem? hfi, i, c, hfi, hrp, hsj, hoi, hread0⟩

theorem CallJust.mono {fs0 : FS} {dest : Path} {files : List FileRec} {orig : List Bytes} {fs fs' : FS}
    (hk : Keeps dest files orig fs fs') {call : Path × Path}
    (h : CallJust fs0 dest files orig fs call) : CallJust fs0 dest files orig fs' call := by
  obtain ⟨i, r, c, o, hfi, hrp, hsj, hoi, hread0, hout, hlen, hco⟩ := h
  refine ⟨i, r, c, o, hfi, hrp, hsj, hoi, hread0, hout, hlen, ?_⟩
  rcases hco with h | h
  · exact Or.inl h
  · exact Or.inr (hk i r _ o hfi hrp hsj hoi h)

theorem batchStep (ds : Nat) (fs0 : FS) (dest : Path) (files : List FileRec) (orig : List Bytes)
    (hd : CleanPath dest) (hsep : DestsSeparate dest files) (calls : List (Path × Path)) :
    ∀ fs, Core fs0 dest files orig fs → (∀ call ∈ calls, CallJust fs0 dest files orig fs call) →
      Core fs0 dest files orig (applyOps fs (runCalls ds fs calls)) ∧
      (∀ call ∈ calls, ∃ (i : Nat) (r : FileRec) (o : Bytes), files[i]? = some r ∧ r.pad = false ∧
        safeJoin dest r.full = some call.2 ∧ orig[i]? = some o ∧
        (applyOps fs (runCalls ds fs calls)) call.2 = some (.file o)) ∧
      Keeps dest files orig fs (applyOps fs (runCalls ds fs calls)) ∧
      CopiesOrig fs0 dest files orig (runCalls ds fs calls) := by
  induction calls with
  | nil =>
    intro fs core _
    exact ⟨core, by simp, fun _ _ _ _ _ _ _ _ h => h, fun _ _ h => by simp [runCalls] at h⟩
  | cons c0 cs ih =>
    intro fs core hj
    obtain ⟨core1, hdone1, hk1, hc1⟩ := callStep ds fs0 dest files orig hd hsep fs core c0 (hj c0 List.mem_cons_self)
    obtain ⟨core2, hdone2, hk2, hc2⟩ := ih _ core1
      (fun call hc => (hj call (List.mem_cons_of_mem _ hc)).mono hk1)
    have happ : applyOps fs (runCalls ds fs (c0 :: cs)) =
        applyOps (applyOps fs (copypath ds fs c0.1 c0.2)) (runCalls ds (applyOps fs (copypath ds fs c0.1 c0.2)) cs) := by
      obtain ⟨s, d⟩ := c0
      simp only [runCalls, applyOps_append]
    rw [happ]
    refine ⟨core2, ?_, ?_, ?_⟩
    · intro call hc
      cases hc with
      | head =>
        obtain ⟨i, r, o, h1, hp, h2, h3, h4⟩ := hdone1
        exact ⟨i, r, o, h1, hp, h2, h3, hk2 i r _ o h1 hp h2 h3 h4⟩
      | tail _ hc => exact hdone2 call hc
    · intro j r' d' o' h1 hp h2 h3 h4
      exact hk2 j r' d' o' h1 hp h2 h3 (hk1 j r' d' o' h1 hp h2 h3 h4)
    · intro src dst hm
      obtain ⟨s, d⟩ := c0
      simp only [runCalls, List.mem_append] at hm
      rcases hm with hm | hm
      · exact hc1 src dst hm
      · exact hc2 src dst hm

/-! ### the search returns the first agreeing candidates -/

/-- `choice` agrees part by part with `choice0`, and every candidate enumerated before a chosen one
    (same size, readable) disagrees with `choice0` on the node's range -/
def FirstCombo (fs : FS) (filemap : FileMap) :
    List PathNode → List (Path × Bytes) → List (Path × Bytes) → Prop
  | [], [], [] => True
  | pn :: ps, c :: cs, c0 :: cs0 =>
    (pn.file.pad = false → getPart pn.start pn.stop c.2 = getPart pn.start pn.stop c0.2 ∧
      ∃ cands l1 sz l2, filemap.lookup pn.file.filename = some cands ∧ cands = l1 ++ (c.1, sz) :: l2 ∧
        sz = pn.file.length ∧
        ∀ x ∈ l1, x.2 = pn.file.length → ∀ d, fs.readFile? x.1 = some d →
          getPart pn.start pn.stop d ≠ getPart pn.start pn.stop c0.2) ∧
    FirstCombo fs filemap ps cs cs0
  | _, _, _ => False

theorem findMatches_first (H1 : Bytes → Bytes) (hinj : ∀ a b, H1 a = H1 b → a = b) (fs : FS)
    (filemap : FileMap) (dest : Path) (piece : Bytes)
    (hsize : ∀ name cands, filemap.lookup name = some cands → ∀ x ∈ cands, ∀ d,
      fs.readFile? x.1 = some d → d.length = x.2)
    (paths : List PathNode) :
    ∀ (choice0 : List (Path × Bytes)) (data : Bytes) (calls : List (Path × Path)),
      Combo fs filemap paths choice0 → H1 (data ++ comboData paths choice0) = piece →
      findMatches H1 fs filemap dest piece paths data = some calls →
      ∃ choice, Combo fs filemap paths choice ∧ calls = comboCalls dest paths choice ∧
        FirstCombo fs filemap paths choice choice0 := by
  induction paths with
  | nil =>
    intro choice0 data calls hc0 _ h
    cases choice0 with
    | cons a as => exact absurd hc0 (by simp [Combo])
    | nil =>
      simp only [findMatches] at h
      split at h
      · injection h with h
        exact ⟨[], trivial, by simp [comboCalls, ← h], trivial⟩
      · cases h
  | cons pn ps ih =>
    intro choice0 data calls hc0 hhash0 h
    cases choice0 with
    | nil => exact absurd hc0 (by simp [Combo])
    | cons c0 cs0 =>
      obtain ⟨hhead0, hrest0⟩ := hc0
      cases hpad : pn.file.pad with
      | true =>
        simp only [findMatches, hpad, if_true] at h
        obtain ⟨choice, hcombo, hcalls, hfirst⟩ := ih cs0 (data ++ padPart pn) calls hrest0
          (by simpa [comboData, nodePart_pad hpad, List.append_assoc] using hhash0) h
        refine ⟨([], []) :: choice, ⟨fun hf => absurd (hpad.symm.trans hf) (by decide), hcombo⟩, ?_,
          ⟨fun hf => absurd (hpad.symm.trans hf) (by decide), hfirst⟩⟩
        simp [comboCalls, hpad, hcalls]
      | false =>
      obtain ⟨cands0, sz0, hl0, hm0, hsz0, hread0⟩ := hhead0 hpad
      simp only [comboData, nodePart_file hpad] at hhash0
      simp only [findMatches, hpad, Bool.false_eq_true, if_false, hl0] at h
      obtain ⟨l1, a, l2, hsplit, hfa, hbefore⟩ := List.findSome?_eq_some_iff.mp h
      have hlen0 : c0.2.length = pn.file.length := by
        rw [hsize _ _ hl0 _ hm0 _ hread0]; exact hsz0
      -- the chosen candidate
      split at hfa
      · cases hfa
      · rename_i hsza
        have hsza' : a.2 = pn.file.length := Classical.not_not.mp hsza
        cases hr : fs.readFile? a.1 with
        | none => rw [hr] at hfa; cases hfa
        | some d =>
          rw [hr] at hfa
          simp only at hfa
          cases hrec : findMatches H1 fs filemap dest piece ps (data ++ getPart pn.start pn.stop d) with
          | none => rw [hrec] at hfa; cases hfa
          | some calls' =>
            rw [hrec] at hfa
            simp only at hfa
            injection hfa with hfa
            have hmema : a ∈ cands0 := by rw [hsplit]; simp
            have hlena : d.length = pn.file.length := by rw [hsize _ _ hl0 _ hmema _ hr]; exact hsza'
            -- the chosen part equals the reference part
            obtain ⟨ch', _, hh', _⟩ := findMatches_sound H1 fs filemap dest piece ps _ _ hrec
            have heq := hinj _ _ (hh'.trans hhash0.symm)
            simp only [List.append_assoc] at heq
            have heq' := List.append_cancel_left heq
            have hpl : (getPart pn.start pn.stop d).length = (getPart pn.start pn.stop c0.2).length := by
              rw [getPart_length, getPart_length, hlena, hlen0]
            obtain ⟨hpart, _⟩ := List.append_inj heq' hpl
            have hhash1 : H1 ((data ++ getPart pn.start pn.stop d) ++ comboData ps cs0) = piece := by
              rw [hpart]; simpa [comboData, List.append_assoc] using hhash0
            obtain ⟨choice, hcombo, hcalls, hfirst⟩ := ih cs0 _ _ hrest0 hhash1 hrec
            refine ⟨(a.1, d) :: choice, ⟨fun _ => ⟨cands0, a.2, hl0, hmema, hsza', hr⟩, hcombo⟩, ?_,
              ⟨fun _ => ⟨hpart, ?_⟩, hfirst⟩⟩
            · simp only [comboCalls, hpad, Bool.false_eq_true, if_false]; rw [← hfa, hcalls]
              cases safeJoin dest pn.file.full <;> rfl
            · refine ⟨cands0, l1, a.2, l2, hl0, hsplit, hsza', ?_⟩
              intro x hx hxsz dx hdx hagree
              have hfx := hbefore x hx
              simp only [hxsz, ne_eq, not_true_eq_false, if_false, hdx] at hfx
              have hcomp := findMatches_complete_combo H1 fs filemap dest piece ps cs0
                (data ++ getPart pn.start pn.stop dx) hrest0
                (by rw [hagree]; simpa [comboData, List.append_assoc] using hhash0)
              cases hrx : findMatches H1 fs filemap dest piece ps (data ++ getPart pn.start pn.stop dx) with
              | none => rw [hrx] at hcomp; cases hcomp
              | some cx => rw [hrx] at hfx; cases hfx

theorem firstCombo_zip_mem {fs : FS} {filemap : FileMap} {paths : List PathNode} :
    ∀ {choice choice0 : List (Path × Bytes)}, FirstCombo fs filemap paths choice choice0 →
      ∀ pc ∈ List.zip paths choice, pc.1.file.pad = false → ∃ c0, (pc.1, c0) ∈ List.zip paths choice0 ∧
        getPart pc.1.start pc.1.stop pc.2.2 = getPart pc.1.start pc.1.stop c0.2 ∧
        ∃ cands l1 sz l2, filemap.lookup pc.1.file.filename = some cands ∧
          cands = l1 ++ (pc.2.1, sz) :: l2 ∧ sz = pc.1.file.length ∧
          ∀ x ∈ l1, x.2 = pc.1.file.length → ∀ d, fs.readFile? x.1 = some d →
            getPart pc.1.start pc.1.stop d ≠ getPart pc.1.start pc.1.stop c0.2 := by
  induction paths with
  | nil => intro choice choice0 _ pc h; simp at h
  | cons pn ps ih =>
    intro choice choice0 hf pc h hpad
    cases choice with
    | nil => simp at h
    | cons c cs =>
      cases choice0 with
      | nil => exact absurd hf (by simp [FirstCombo])
      | cons c0 cs0 =>
        obtain ⟨hhead, hrest⟩ := hf
        simp only [List.zip_cons_cons, List.mem_cons] at h
        rcases h with h | h
        · subst h
          obtain ⟨hpart, hfirst⟩ := hhead hpad
          exact ⟨c0, by simp, hpart, hfirst⟩
        · obtain ⟨c0', hm, rest⟩ := ih hrest pc h hpad
          exact ⟨c0', by simp [hm], rest⟩

/-! ### the loop -/

theorem lens_eq {files : List FileRec} {orig : List Bytes}
    (hlens : files.map (·.length) = orig.map List.length) {i : Nat} {r : FileRec} {o : Bytes}
    (h1 : files[i]? = some r) (h2 : orig[i]? = some o) : r.length = o.length := by
  have := congrArg (fun l => l[i]?) hlens
  simpa [List.getElem?_map, h1, h2] using this

structure SInv (fs0 : FS) (dest : Path) (files : List FileRec) (orig : List Bytes) (fs : FS)
    (copied : List Bytes) (pre : List (Bytes × List PathNode)) : Prop where
  core : Core fs0 dest files orig fs
  done : ∀ f ∈ copied, ∀ (i : Nat) (r : FileRec) (d : Path), files[i]? = some r → r.pad = false →
    r.full = f → safeJoin dest r.full = some d → ∃ o, orig[i]? = some o ∧ fs d = some (.file o)
  seen : ∀ pp ∈ pre, ∀ pn ∈ pp.2, pn.file.pad = false → pn.file.full ∈ copied

theorem firstLoop (H1 : Bytes → Bytes) (hinj : ∀ a b, H1 a = H1 b → a = b) (ds : Nat) (fs0 : FS)
    (filemap : FileMap) (dest : Path) (files : List FileRec) (orig : List Bytes)
    (hd : CleanPath dest) (hok : FilemapOK fs0 dest filemap) (hsep : DestsSeparate dest files)
    (hlens : files.map (·.length) = orig.map List.length)
    (pns : List (Bytes × List PathNode))
    (hlink : ∀ pp ∈ pns, ∀ pn ∈ pp.2, files[pn.idx]? = some pn.file)
    (hsolv : ∀ pp ∈ pns, SolvableOrig H1 fs0 filemap orig pp)
    (hF : NoFirstPieceDecoy fs0 filemap pns orig) :
    ∀ post pre fs copied, pns = pre ++ post → SInv fs0 dest files orig fs copied pre →
      CopiesOrig fs0 dest files orig (matchV1Loop H1 ds filemap dest fs copied post).1 ∧
      Keeps dest files orig fs (applyOps fs (matchV1Loop H1 ds filemap dest fs copied post).1) ∧
      (∀ pp ∈ post, ∀ pn ∈ pp.2, pn.file.pad = false → ∀ d, safeJoin dest pn.file.full = some d →
        ∃ o, orig[pn.idx]? = some o ∧
          (applyOps fs (matchV1Loop H1 ds filemap dest fs copied post).1) d = some (.file o)) := by
  intro post
  induction post with
  | nil =>
    intro pre fs copied _ _
    exact ⟨fun _ _ h => by simp [matchV1Loop] at h, fun _ _ _ _ _ _ _ _ h => h, fun _ h => by simp at h⟩
  | cons pp rest ih =>
    intro pre fs copied hsplit inv
    obtain ⟨piece, paths⟩ := pp
    have hppmem : (piece, paths) ∈ pns := by rw [hsplit]; simp
    have hsplit' : pns = (pre ++ [(piece, paths)]) ++ rest := by rw [hsplit]; simp
    simp only [matchV1Loop]
    cases hskip : skipPiece copied paths with
    | true =>
      simp only [if_true]
      obtain ⟨pn0, hp0, hin⟩ := skipPiece_true hskip
      have inv' : SInv fs0 dest files orig fs copied (pre ++ [(piece, paths)]) := by
        refine ⟨inv.core, inv.done, ?_⟩
        intro pp hpp pn hpn hpad
        rcases List.mem_append.mp hpp with h | h
        · exact inv.seen pp h pn hpn hpad
        · simp at h; subst h
          simp only [hp0, List.mem_singleton] at hpn
          subst hpn; exact hin
      obtain ⟨h1, h2, h3⟩ := ih _ fs copied hsplit' inv'
      refine ⟨h1, h2, ?_⟩
      intro pp hpp pn hpn hpad d hsj
      cases hpp with
      | head =>
        simp only [hp0, List.mem_singleton] at hpn
        subst hpn
        have hl := hlink _ hppmem pn (by simp [hp0])
        obtain ⟨o, ho, hfile⟩ := inv.done _ hin pn.idx pn.file d hl hpad rfl hsj
        exact ⟨o, ho, h2 _ _ d o hl hpad hsj ho hfile⟩
      | tail _ hpp => exact h3 pp hpp pn hpn hpad d hsj
    | false =>
      simp only [Bool.false_eq_true, if_false]
      obtain ⟨choice0, hcombo0, hhash0, horig⟩ := hsolv _ hppmem
      have hsome := findMatches_complete_combo H1 fs filemap dest piece paths choice0 []
        (combo_agree inv.core.agree hok hcombo0) (by simpa using hhash0)
      cases hf : findMatches H1 fs filemap dest piece paths [] with
      | none => rw [hf] at hsome; cases hsome
      | some calls =>
        simp only
        have hsize : ∀ name cands, filemap.lookup name = some cands → ∀ x ∈ cands, ∀ d,
            fs.readFile? x.1 = some d → d.length = x.2 := by
          intro name cands hl x hx d hdx
          obtain ⟨hnp, d', hd', hlen'⟩ := hok _ _ hl _ hx
          rw [agree_readFile inv.core.agree hnp, hd'] at hdx
          injection hdx with hdx
          rw [← hdx]; exact hlen'
        obtain ⟨choice, hcombo, hcalls, hfirst⟩ := findMatches_first H1 hinj fs filemap dest piece hsize
          paths choice0 [] calls (combo_agree inv.core.agree hok hcombo0) (by simpa using hhash0) hf
        have hcomboF := combo_agree' inv.core.agree hok hcombo
        -- every call of the batch is justified
        have hjust : ∀ call ∈ calls, CallJust fs0 dest files orig fs call := by
          intro call hc
          rw [hcalls] at hc
          obtain ⟨pc, hpc, hsrc, hsj, hpcpad⟩ := comboCalls_mem (src := call.1) (dst := call.2) hc
          obtain ⟨c0, hz0, hpart, candsF, l1, szF, l2, hlF, hsplitF, hszF, hbefore⟩ :=
            firstCombo_zip_mem hfirst pc hpc hpcpad
          have ho := horig _ hz0 hpcpad
          simp only at ho
          obtain ⟨cands, sz, hl, hm, hsz, hread⟩ := combo_zip_mem hcomboF pc hpc hpcpad
          obtain ⟨hnp, dd, hdd, hlen'⟩ := hok _ _ hl _ hm
          rw [hread] at hdd; injection hdd with hdd
          have hpn : pc.1 ∈ paths := (List.of_mem_zip hpc).1
          have hlk := hlink _ hppmem pc.1 hpn
          have hrl := lens_eq hlens hlk ho
          refine ⟨pc.1.idx, pc.1.file, pc.2.2, c0.2, hlk, hpcpad, hsj, ho, hsrc ▸ hread, hsrc ▸ hnp, ?_, ?_⟩
          · rw [hdd, hlen', hsz, hrl]
          · by_cases hin : pc.1.file.full ∈ copied
            · right
              obtain ⟨o, ho', hfile⟩ := inv.done _ hin pc.1.idx pc.1.file call.2 hlk hpcpad rfl hsj
              rw [ho] at ho'; injection ho' with ho'; subst ho'
              exact hfile
            · left
              have hfirstpiece : ∀ pp' ∈ pre, ∀ pn' ∈ pp'.2, pn'.idx ≠ pc.1.idx := by
                intro pp' hpp' pn' hpn' heq
                apply hin
                have hl' := hlink pp' (by rw [hsplit]; exact List.mem_append_left _ hpp') pn' hpn'
                rw [heq, hlk] at hl'
                injection hl' with hl'
                rw [hl']
                exact inv.seen pp' hpp' pn' hpn' (by rw [← hl']; exact hpcpad)
              -- the intact candidate of this node
              obtain ⟨cands0, sz0, hl0, hm0, hsz0, hread0⟩ := combo_zip_mem hcombo0 (pc.1, c0) hz0 hpcpad
              simp only at hl0 hm0 hsz0 hread0
              rw [hlF] at hl0; injection hl0 with hl0; subst hl0
              rw [hsplitF] at hm0
              rcases List.mem_append.mp hm0 with h | h
              · exfalso
                have hnp0 := (hok _ _ hlF _ (by rw [hsplitF]; exact hm0)).1
                exact hbefore _ h hsz0 c0.2 (by rw [agree_readFile inv.core.agree hnp0]; exact hread0) rfl
              · rcases List.mem_cons.mp h with h | h
                · have h1 : c0.1 = pc.2.1 := (Prod.mk.injEq _ _ _ _ ▸ h).1
                  rw [h1, hread] at hread0; injection hread0
                · obtain ⟨s, t, hst⟩ := List.append_of_mem h
                  exact hF pre (piece, paths) rest hsplit pc.1 hpn hpcpad hfirstpiece candsF
                    (l1 ++ (pc.2.1, szF) :: s) (c0.1, sz0) t c0.2 hlF
                    (by rw [hsplitF, hst]; simp) hsz0 hread0 ho (pc.2.1, szF) (by simp) hszF
                    pc.2.2 hread hpart
        obtain ⟨core', hdone', hk', hc'⟩ := batchStep ds fs0 dest files orig hd hsep calls fs inv.core hjust
        -- the invariant after the batch
        have inv' : SInv fs0 dest files orig (applyOps fs (runCalls ds fs calls))
            (markCopied dest copied paths).1 (pre ++ [(piece, paths)]) := by
          refine ⟨core', ?_, ?_⟩
          · intro f hfm i r d hfi hrp hrf hsj
            rcases (markCopied_fst dest paths copied f).mp hfm with hin | ⟨pn, hpn, hpnpad, hpf⟩
            · obtain ⟨o, ho, hfile⟩ := inv.done f hin i r d hfi hrp hrf hsj
              exact ⟨o, ho, hk' i r d o hfi hrp hsj ho hfile⟩
            · have hsj' : safeJoin dest pn.file.full = some d := by rw [hpf, ← hrf]; exact hsj
              obtain ⟨src, hm, _⟩ := comboCalls_has hcombo pn hpn d hpnpad hsj'
              rw [← hcalls] at hm
              obtain ⟨i', r', o', h1, hp', h2, h3, h4⟩ := hdone' _ hm
              simp only at h2 h4
              have := hsep i i' r r' d d hfi h1 hrp hp' hsj h2 (List.prefix_refl _)
              subst this
              exact ⟨o', h3, h4⟩
          · intro pp hpp pn hpn hpad
            rcases List.mem_append.mp hpp with h | h
            · exact (markCopied_fst dest paths copied _).mpr (Or.inl (inv.seen pp h pn hpn hpad))
            · simp at h; subst h
              exact (markCopied_fst dest paths copied _).mpr (Or.inr ⟨pn, hpn, hpad, rfl⟩)
        obtain ⟨h1, h2, h3⟩ := ih _ _ _ hsplit' inv'
        rw [applyOps_append]
        refine ⟨?_, ?_, ?_⟩
        · intro src dst hm
          rcases List.mem_append.mp hm with hm | hm
          · exact hc' src dst hm
          · exact h1 src dst hm
        · intro j r' d' o' a1 ap a2 a3 a4
          exact h2 j r' d' o' a1 ap a2 a3 (hk' j r' d' o' a1 ap a2 a3 a4)
        · intro pp hpp pn hpn hpad d hsj
          cases hpp with
          | head =>
            have hlk := hlink _ hppmem pn hpn
            obtain ⟨o, ho, hfile⟩ := inv'.done pn.file.full
              ((markCopied_fst dest paths copied _).mpr (Or.inr ⟨pn, hpn, hpad, rfl⟩)) pn.idx pn.file d hlk hpad rfl hsj
            exact ⟨o, ho, h2 _ _ d o hlk hpad hsj ho hfile⟩
          | tail _ hpp => exact h3 pp hpp pn hpn hpad d hsj

/-- every file record has a path node in some piece of an honest metafile with at least one byte -/
theorem record_has_node (H1 : Bytes → Bytes) (pl : Nat) (hpl : 0 < pl) {files : List FileRec}
    {orig : List Bytes} (hlens : files.map (·.length) = orig.map List.length) (hne : orig.flatten ≠ [])
    {i : Nat} {r : FileRec} (hfi : files[i]? = some r) :
    ∃ pp ∈ v1PieceNodes pl ((chunks pl orig.flatten).map H1) files, ∃ pn ∈ pp.2, pn.idx = i ∧ pn.file = r := by
  have hlen : files.length = orig.length := by
    have := congrArg List.length hlens; simpa using this
  have hi : i < files.length := (List.getElem?_eq_some_iff.mp hfi).1
  obtain ⟨p, hp, nd, hnd, hni⟩ := mapPieces_all_files pl hpl orig _ rfl hne i (by omega)
  have hpn : (⟨nd.1, nd.2.1, nd.2.2, r⟩ : PathNode) ∈ toPathNodes files p := by
    unfold toPathNodes
    rw [List.mem_filterMap]
    refine ⟨nd, hnd, ?_⟩
    have : files[nd.1]? = some r := by rw [hni]; exact hfi
    simp [this]
  obtain ⟨k, hk⟩ := List.mem_iff_getElem?.mp hp
  have hklt : k < (chunks pl orig.flatten).length := by
    have h1 := (List.getElem?_eq_some_iff.mp hk).1
    have h2 := congrArg List.length (mapPieces_read pl hpl orig _ rfl)
    simp at h2
    omega
  refine ⟨(H1 (chunks pl orig.flatten)[k], toPathNodes files p), ?_, _, hpn, hni, rfl⟩
  unfold v1PieceNodes
  rw [hlens, List.length_map]
  apply List.mem_iff_getElem?.mpr
  refine ⟨k, ?_⟩
  rw [List.getElem?_zip_eq_some]
  constructor
  · simp [List.getElem?_map, List.getElem?_eq_getElem hklt]
  · rw [List.getElem?_map, hk]; rfl

/-- v1 into a fresh destination: every accepted file ends up with its original contents, and every
    executed copy copies original contents -/
theorem matchV1_restores (H1 : Bytes → Bytes) (hinj : ∀ a b, H1 a = H1 b → a = b) (ds : Nat) (fs0 : FS)
    (filemap : FileMap) (dest : Path) (pl : Nat) (hpl : 0 < pl) (files : List FileRec) (orig : List Bytes)
    (hd : CleanPath dest) (hr : DestReady fs0 dest) (hok : FilemapOK fs0 dest filemap)
    (hlens : files.map (·.length) = orig.map List.length) (hne : orig.flatten ≠ [])
    (hint : IntactV1 fs0 filemap files orig) (hpads : PadsAreZeros files orig)
    (hsep : DestsSeparate dest files) (hfresh : DestFresh fs0 dest files)
    (hF : NoFirstPieceDecoy fs0 filemap (v1PieceNodes pl ((chunks pl orig.flatten).map H1) files) orig) :
    (∀ (i : Nat) (r : FileRec) (dp : Path), files[i]? = some r → r.pad = false →
      safeJoin dest r.full = some dp →
      ∃ o, orig[i]? = some o ∧
        applyOps fs0 (matchV1 H1 ds fs0 filemap dest pl ((chunks pl orig.flatten).map H1) files).1 dp
          = some (.file o)) ∧
    CopiesOrig fs0 dest files orig
      (matchV1 H1 ds fs0 filemap dest pl ((chunks pl orig.flatten).map H1) files).1 := by
  have hlink : ∀ pp ∈ v1PieceNodes pl ((chunks pl orig.flatten).map H1) files, ∀ pn ∈ pp.2,
      files[pn.idx]? = some pn.file := by
    intro pp hpp pn hpn
    unfold v1PieceNodes at hpp
    have h2 := (List.of_mem_zip hpp).2
    rw [List.mem_map] at h2
    obtain ⟨ns, _, hns⟩ := h2
    rw [← hns] at hpn
    exact (toPathNodes_mem hpn).1
  have inv0 : SInv fs0 dest files orig fs0 [] [] := by
    refine ⟨⟨hr, fun _ _ => rfl, ?_⟩, by simp, by simp⟩
    intro i r d hfi hrp hsj
    exact Or.inl (hfresh r (List.mem_of_getElem? hfi) hrp d hsj)
  obtain ⟨h1, _, h3⟩ := firstLoop H1 hinj ds fs0 filemap dest files orig hd hok hsep hlens _ hlink
    (v1PieceNodes_solvable H1 pl hpl hlens hint hpads) hF _ [] fs0 [] rfl inv0
  refine ⟨?_, h1⟩
  intro i r dp hfi hrp hsj
  obtain ⟨pp, hpp, pn, hpn, hidx, hfile⟩ := record_has_node H1 pl hpl hlens hne hfi
  obtain ⟨o, ho, hfin⟩ := h3 pp hpp pn hpn (by rw [hfile]; exact hrp) dp (by rw [hfile]; exact hsj)
  exact ⟨o, hidx ▸ ho, hfin⟩

end Impl
end TorrentVerif

import TorrentVerif.Proofs.EndToEnd
/-
  End to end, v1: the metafile `TorrentFile` writes (plain, piece-aligned, single file),
  rechecked against the tree it was created from.
-/
namespace TorrentVerif
open Impl Spec Listing RF

namespace E2E

/-! ### reading `info` of a written value -/

theorem info_of_infoGet (r : BVal) (k : Bytes) (v : BVal) (h : r.infoGet? k = some v) :
    ∃ info, r.get? K.info = some (.dict info) ∧ ∀ k', r.infoGet? k' = dictGet info k' := by
  unfold BVal.infoGet? at h
  cases hi : r.get? K.info with
  | none => simp [hi] at h
  | some x =>
    simp only [hi, Option.bind_some] at h
    obtain ⟨info, rfl, _⟩ := get?_some_dict x k v h
    exact ⟨info, rfl, fun k' => by rw [BVal.infoGet?, hi]; rfl⟩

/-! ### decimal numerals are proper names -/

theorem natDec_digits (n : Nat) : ∀ c ∈ natDec n, isDigit c = true := by
  induction n using Nat.strongRecOn with
  | _ n ih =>
    rw [natDec]
    by_cases h : n < 10
    · simp only [h, dite_true, List.mem_singleton]
      intro c hc; rw [hc]; exact isDigit_digit n h
    · simp only [h, dite_false, List.mem_append, List.mem_singleton]
      intro c hc
      rcases hc with hc | hc
      · exact ih (n / 10) (by omega) c hc
      · rw [hc]; exact isDigit_digit _ (Nat.mod_lt _ (by decide))

theorem plainName_natDec (n : Nat) : Spec.plainName (natDec n) = true := by
  have hd := natDec_digits n
  obtain ⟨c, t, hc, _⟩ := natDec_head_digit n
  have h46 : ∀ x ∈ natDec n, x ≠ 46 := by
    intro x hx e; have := hd x hx; rw [e] at this; revert this; decide
  have h47 : ∀ x ∈ natDec n, x ≠ 47 := by
    intro x hx e; have := hd x hx; rw [e] at this; revert this; decide
  unfold Spec.plainName
  simp only [Bool.and_eq_true, decide_eq_true_eq, Bool.not_eq_true', ne_eq]
  refine ⟨⟨⟨?_, ?_⟩, ?_⟩, ?_⟩
  · rw [hc]; simp
  · intro e; exact h46 46 (by rw [e]; simp) rfl
  · intro e; exact h46 46 (by rw [e]; simp) rfl
  · cases hcon : (natDec n).contains 47 with
    | false => rfl
    | true =>
      have : (47 : UInt8) ∈ natDec n := by simpa using hcon
      exact absurd rfl (h47 47 this)

/-! ### the `files` list read back by the specification -/

theorem v1Item_fileEntry (p : List Bytes) (s : Nat) (hne : p ≠ [])
    (hp : ∀ c ∈ p, Spec.plainName c = true) : v1Item (fileEntry p s) = some (p, s, none) := by
  have hs : RF.strs (p.map BVal.str) = .ok p := by
    clear hne hp
    induction p with
    | nil => rfl
    | cons a t ih => simp [RF.strs, RF.str, ih, bind, Except.bind]
  have hall : p.all Spec.plainName = true := by simpa [List.all_eq_true] using hp
  simp [v1Item, v1Pad, fileEntry, BVal.get?, dictGet, K.length, K.path, RF.kPath, RF.kAttr,
    TorrentVerif.strs, hs, hne, hall]

theorem v1Item_padEntry (n : Nat) : v1Item (padEntry n) = some ([sPad, natDec n], n, padMark) := by
  have hs : RF.strs [BVal.str sPad, BVal.str (natDec n)] = .ok [sPad, natDec n] := by
    simp [RF.strs, RF.str, bind, Except.bind]
  have h1 : Spec.plainName sPad = true := by decide
  simp [v1Item, v1Pad, padEntry, BVal.get?, dictGet, K.length, K.path, K.attr, RF.kPath, RF.kAttr,
    TorrentVerif.strs, hs, h1, plainName_natDec, sP]

/-- the stream the listed entries stand for -/
def v1Stream (align : Bool) (pl : Nat) (datas : List Bytes) : Bytes :=
  if align then Spec.alignedStream pl datas else datas.flatten

theorem v1Stream_cons (align : Bool) (pl : Nat) (d : Bytes) (ds : List Bytes) :
    v1Stream align pl (d :: ds)
      = d ++ (if align then zeros (gap pl d.length) else []) ++ v1Stream align pl ds := by
  cases align <;> simp [v1Stream, Spec.alignedStream]

theorem filesTops_fileEntry (c : Bytes) (cs : List Bytes) (s : Nat) (rest : List BVal) :
    filesTops (fileEntry (c :: cs) s :: rest) = (filesTops rest).map (c :: ·) := by
  simp only [filesTops, padAttr, fileEntry, RF.sub, dictGet, K.length, K.path, RF.kPath, RF.kAttr,
    TorrentVerif.strs, List.map_cons]
  simp only [bind, Except.bind]
  cases filesTops rest <;> simp [Except.map]

/-- a padding entry does not count among the described top-level entries -/
theorem filesTops_padEntry (n : Nat) (rest : List BVal) :
    filesTops (padEntry n :: rest) = filesTops rest := by
  simp [filesTops, padAttr, padEntry, RF.sub, dictGet, K.length, K.path, K.attr, RF.kPath,
    RF.kAttr, TorrentVerif.strs, sP, bind, Except.bind]

/-- the `files` list of a v1 creator over files found in the tree: well-formed for the
    specification, every listed file is on disk with its listed length, padding entries are
    never looked up on disk (whatever sits at `.pad/<n>`) and do not count among the described
    top-level names, and the zero-filled stream is the listed stream -/
theorem v1_list_core (t : Node) (align : Bool) (pl : Nat) (files : List (List Bytes × Bytes))
    (hfa : ∀ x ∈ files, fileAt t x.1 = some x.2) (hne : ∀ x ∈ files, x.1 ≠ [])
    (hplain : ∀ x ∈ files, ∀ c ∈ x.1, Spec.plainName c = true) :
    ∃ recs tops, v1Items (v1Entries align pl (files.map fun x => (x.1, x.2.length))) = some recs ∧
      NotLonger (recs.map fun r => (r.2.1, v1Disk t r)) ∧
      (recs.map fun r => (r.2.1, v1Disk t r)).flatMap zeroFill
        = v1Stream align pl (files.map (·.2)) ∧
      (∀ r ∈ recs, isPadRec r = false → ∀ es, lookup t r.1 ≠ some (.dir es)) ∧
      filesTops (v1Entries align pl (files.map fun x => (x.1, x.2.length))) = .ok tops ∧
      (∀ x ∈ tops, ∃ y ∈ files, x = y.1.headD []) := by
  induction files with
  | nil =>
    exact ⟨[], [], by simp [v1Entries, v1Items], by simp [NotLonger], by simp [v1Stream, Spec.alignedStream],
      by simp, by simp [v1Entries, filesTops], by simp⟩
  | cons x rest ih =>
    obtain ⟨p, d⟩ := x
    obtain ⟨recs, tops, h1, h2, h3, h4, h5, h6⟩ := ih (fun y hy => hfa y (by simp [hy]))
      (fun y hy => hne y (by simp [hy])) (fun y hy => hplain y (by simp [hy]))
    have hfd : fileAt t p = some d := hfa (p, d) (by simp)
    have hpne : p ≠ [] := hne (p, d) (by simp)
    have hpp := hplain (p, d) (by simp)
    have hfb := fileBytes_of_fileAt t p d hfd
    have hlk := lookup_of_fileAt p t d hfd
    have hitem := v1Item_fileEntry p d.length hpne hpp
    have hvd : v1Disk t (p, d.length, none) = some d := by simp [v1Disk, isPadRec, hfb]
    obtain ⟨c, cs, hpc⟩ : ∃ c cs, p = c :: cs := by
      cases p with
      | nil => exact absurd rfl hpne
      | cons c cs => exact ⟨c, cs, rfl⟩
    by_cases hcond : (align && decide (gap pl d.length ≠ 0)) = true
    · -- a padding entry follows
      have hal : align = true := by
        cases align
        · simp at hcond
        · rfl
      have hfbp : v1Disk t ([sPad, natDec (gap pl d.length)], gap pl d.length, padMark) = none := by
        simp [v1Disk, isPadRec, padMark]
      refine ⟨(p, d.length, none) :: ([sPad, natDec (gap pl d.length)], gap pl d.length, padMark) :: recs,
        c :: tops, ?_, ?_, ?_, ?_, ?_, ?_⟩
      · simp only [List.map_cons, v1Entries, hcond, if_true, v1Items, hitem, v1Item_padEntry, h1]
      · intro e he dd hdd
        simp only [List.map_cons, List.mem_cons] at he
        rcases he with rfl | rfl | he
        · simp only [hvd, Option.some.injEq] at hdd; subst hdd; exact Nat.le_refl _
        · simp [hfbp] at hdd
        · exact h2 e he dd hdd
      · simp only [List.map_cons, List.flatMap_cons, hvd, zeroFill_exact, h3, v1Stream_cons, hal,
          if_true, hfbp, zeroFill_none, List.append_assoc]
      · intro r hr hnp es
        simp only [List.mem_cons] at hr
        rcases hr with rfl | rfl | hr
        · simp [hlk]
        · simp [isPadRec, padMark] at hnp
        · exact h4 r hr hnp es
      · simp only [List.map_cons, v1Entries, hcond, if_true]
        rw [hpc, filesTops_fileEntry, filesTops_padEntry, h5]; rfl
      · intro x hx
        simp only [List.mem_cons] at hx
        rcases hx with rfl | hx
        · exact ⟨(p, d), by simp, by simp [hpc]⟩
        · obtain ⟨y, hy, e⟩ := h6 x hx
          exact ⟨y, by simp [hy], e⟩
    · refine ⟨(p, d.length, none) :: recs, c :: tops, ?_, ?_, ?_, ?_, ?_, ?_⟩
      · simp only [List.map_cons, v1Entries, hcond]
        simp only [Bool.false_eq_true, if_false, v1Items, hitem, h1]
      · intro e he dd hdd
        simp only [List.map_cons, List.mem_cons] at he
        rcases he with rfl | he
        · simp only [hvd, Option.some.injEq] at hdd; subst hdd; exact Nat.le_refl _
        · exact h2 e he dd hdd
      · have hz : (if align = true then zeros (gap pl d.length) else []) = [] := by
          cases align
          · rfl
          · simp only [Bool.true_and, decide_eq_true_eq, ne_eq, Decidable.not_not] at hcond
            simp [hcond, zeros]
        simp only [List.map_cons, List.flatMap_cons, hvd, zeroFill_exact, h3, v1Stream_cons, hz,
          List.append_nil]
      · intro r hr hnp es
        simp only [List.mem_cons] at hr
        rcases hr with rfl | hr
        · simp [hlk]
        · exact h4 r hr hnp es
      · simp only [List.map_cons, v1Entries, hcond]
        simp only [Bool.false_eq_true, if_false]
        rw [hpc, filesTops_fileEntry, h5]; rfl
      · intro x hx
        simp only [List.mem_cons] at hx
        rcases hx with rfl | hx
        · exact ⟨(p, d), by simp, by simp [hpc]⟩
        · obtain ⟨y, hy, e⟩ := h6 x hx
          exact ⟨y, by simp [hy], e⟩

/-! ### the whole run on a v1 metafile -/

/-- all verdicts of the reference are positive when `pieces` is the hashing of the zero-filled
    stream itself -/
theorem v1Check_all_true (H1 : Bytes → Bytes) (hH : ∀ b, (H1 b).length = 20) (pl : Nat)
    (entries : List (Nat × Option Bytes)) :
    ∀ v ∈ v1Check H1 pl ((chunks pl (entries.flatMap zeroFill)).map H1).flatten entries,
      v.1 = true := by
  intro v hv
  unfold v1Check at hv
  obtain ⟨ci, hci, rfl⟩ := List.mem_map.mp hv
  have hget := List.mem_zipIdx_iff_getElem?.mp hci
  simp only [decide_eq_true_eq]
  symm
  apply digestSlice_flatten 20 _ _ ci.2 (H1 ci.1)
  · rw [List.getElem?_map, hget]; rfl
  · intro x hx
    obtain ⟨c, _, rfl⟩ := List.mem_map.mp hx
    exact hH c

/-- what the checker reads of a v1 metafile -/
structure V1Meta (r : BVal) (info : Dict) (name : Bytes) (pl : Nat) (pieces : Bytes) : Prop where
  hinfo : r.get? K.info = some (.dict info)
  hname : dictGet info K.name = some (.str name)
  hpl : dictGet info K.pieceLength = some (.int pl)
  hmv : dictGet info K.metaVersion = none
  hft : dictGet info K.fileTree = none
  hpieces : dictGet info K.pieces = some (.str pieces)

theorem V1Meta.of_keys {o : CreateOpts} {content : Content} {pieces : Bytes} {r : BVal}
    (hk : V1Keys o content pieces r) :
    ∃ info, V1Meta r info o.name o.pieceLength pieces ∧ ∀ k, r.infoGet? k = dictGet info k := by
  obtain ⟨info, hinfo, hget⟩ := info_of_infoGet r K.name _ hk.name
  exact ⟨info, ⟨hinfo, by rw [← hget]; exact hk.name, by rw [← hget]; exact hk.pieceLength,
    by rw [← hget]; exact hk.metaVersion, by rw [← hget]; exact hk.fileTree,
    by rw [← hget]; exact hk.pieces⟩, hget⟩

/-- the whole `Checker` on the bytes of a v1 metafile whose `pieces` hash the very stream the
    disk zero-fills to: every piece verifies -/
theorem recheck_v1_general (H1 H : Bytes → Bytes) (B hs : Nat) (hhs : 0 < hs)
    (hH1 : ∀ x, (H1 x).length = 20) (b : Bytes) (r : BVal) (info : Dict) (name : Bytes)
    (pl : Nat) (pieces : Bytes) (hm : V1Meta r info name pl pieces) (hb : loads b = some r)
    (hpl : 0 < pl) (t : Node) (recs : List FileRec)
    (hdesc : describedFiles r (isFile t) = some recs)
    (hscope : NotLonger (recs.map fun x => (x.2.1, v1Disk t x)))
    (hpieces : pieces = ((chunks pl ((recs.map fun x => (x.2.1, v1Disk t x)).flatMap
      zeroFill)).map H1).flatten)
    (hnodir : ∀ x ∈ recs, isPadRec x = false → ∀ es, lookup t x.1 ≠ some (.dir es))
    (arg : ContentArg) (harg : arg.Resolves info name t) :
    ∃ vs, Impl.recheck H1 H B hs b arg t
        = .ok (vs, ((recs.map fun x => (x.2.1, v1Disk t x)).flatMap zeroFill).length,
            ((recs.map fun x => (x.2.1, v1Disk t x)).flatMap zeroFill).length) ∧
      ∀ v ∈ vs, v.1 = true := by
  have hv2 : hasV2 info = false := by simp [hasV2, dictHas, hm.hmv]
  have hplan : plan B r t = some (.v1 pl pieces (recs.map fun x => (x.2.1, v1Disk t x))) := by
    unfold plan
    have hposI : (0 : Int) < (pl : Int) := by omega
    simp only [hdesc, hm.hinfo, hm.hpl, hposI, if_true, hv2, Bool.false_eq_true, if_false,
      hm.hpieces, Int.toNat_natCast]
  have hnm := nameOf_eq r info name hm.hinfo hm.hname
  have hio := infoOf_eq r info hm.hinfo
  have hroot := Spec.findRoot_place arg info name t harg
  have hne : ¬ EmptySingleV2 r (isFile t) := by
    intro he
    obtain ⟨_, info', hi', hv'⟩ := he
    rw [hm.hinfo] at hi'
    cases hi'
    rw [hv2] at hv'; cases hv'
  have hnd : NoDirAtFile r t := by
    intro recs' hr'
    rw [hdesc] at hr'; cases hr'
    intro x hx hnp
    apply hnodir x hx
    simpa [isPad, hio, hv2] using hnp
  have hrun := recheckMeta_of_plan H1 H B hs hhs r t _ arg.argName
    (some (arg.place name t)) hplan (by simpa [Plan.InScope] using hscope)
    (by rw [hnm, hio]; exact hroot) hnd hne
  refine ⟨v1Check H1 pl pieces (recs.map fun x => (x.2.1, v1Disk t x)), ?_, ?_⟩
  · simp only [Impl.recheck, hb, hnm]
    rw [hrun]
    simp only [Plan.verdicts]
    have hall : ∀ v ∈ v1Check H1 pl pieces (recs.map fun x => (x.2.1, v1Disk t x)), v.1 = true := by
      rw [hpieces]; exact v1Check_all_true H1 hH1 pl _
    rw [ratio_all _ hall, v1Check_sizes H1 pl hpl]
  · rw [hpieces]; exact v1Check_all_true H1 hH1 pl _

/-- the content arguments covered by the end-to-end theorems: the payload root passed under
    the torrent's name, or a parent directory (holding the payload under the torrent's name)
    whose own name differs from the torrent's -/
def ArgOK (arg : ContentArg) (name : Bytes) : Prop :=
  (arg.kind = .root ∧ arg.argName = name) ∨ (arg.kind = .parent ∧ arg.argName ≠ name)

theorem resolves_of_argOK (arg : ContentArg) (info : Dict) (name : Bytes) (t : Node)
    (h : ArgOK arg name) (hroot : arg.kind = .root → descends info name t = .ok false) :
    arg.Resolves info name t := by
  obtain ⟨kind, an⟩ := arg
  rcases h with ⟨hk, hn⟩ | ⟨hk, hn⟩
  · simp only at hk hn; subst hk
    exact ⟨hn, hroot rfl⟩
  · simp only at hk hn; subst hk
    exact Or.inl hn

/-- v1 (plain or piece-aligned) on a directory, end to end -/
theorem recheck_created_v1_dir (o : CreateOpts) (align : Bool) (H1 H : Bytes → Bytes) (B hs : Nat)
    (hhs : 0 < hs) (hH1 : ∀ x, (H1 x).length = 20)
    (enum : List (List (Bytes × Bytes)) → List (List (Bytes × Bytes)))
    (henum : ∀ l, (enum l).Perm l) (pre : Bytes) (es : List (Bytes × Node))
    (hwn : WellNamed (.dir es)) (hplain : PlainNamed (.dir es)) (hpl : 0 < o.pieceLength)
    (r : BVal) (b : Bytes) (h : createV1 o align H1 enum pre (.dir es) = some (r, b))
    (arg : ContentArg) (harg : ArgOK arg o.name) :
    ∃ vs, Impl.recheck H1 H B hs b arg (.dir es)
        = .ok (vs, (v1Stream align o.pieceLength ((sortedFiles pre (.dir es)).map (·.2))).length,
            (v1Stream align o.pieceLength ((sortedFiles pre (.dir es)).map (·.2))).length) ∧
      ∀ v ∈ vs, v.1 = true := by
  obtain ⟨_, hb, hk⟩ := createV1_dir o align H1 enum henum pre es hwn hpl r b h
  -- the bytes decode to the value
  obtain ⟨content, l, hs', _, hc, _⟩ := createV1_sortMeta o align H1 enum pre (.dir es) r b h
  obtain ⟨r', hr', hcan⟩ := v1_canon o content ((l.map H1).flatten) hc
  rw [hs'] at hr'; cases hr'
  have hload : loads b = some r := by rw [hb]; exact loads_encode r hcan
  -- the listed files as paths of the tree
  let files : List (List Bytes × Bytes) := (sortedFiles pre (.dir es)).map fun x => (relPath pre x.1, x.2)
  have hmem : ∀ x ∈ sortedFiles pre (.dir es), ∃ cs, cs ≠ [] ∧ relPath pre x.1 = cs ∧
      fileAt (.dir es) cs = some x.2 ∧ ∀ c ∈ cs, Spec.plainName c = true := by
    intro x hx
    have hx' : x ∈ allFiles pre (.dir es) := (List.mergeSort_perm _ _).subset hx
    obtain ⟨cs, e, hf⟩ := allFiles_comps pre (.dir es) hwn x hx'
    have hne := fileAt_dir_ne_nil es cs x.2 hf
    have hp := fileAt_plain cs (.dir es) x.2 hplain hf
    refine ⟨cs, hne, ?_, hf, hp⟩
    rw [e]
    exact relPath_foldl pre cs hne (fun c hc => (plainName_parts c (hp c hc)).2.2.2)
  have hfa : ∀ x ∈ files, fileAt (.dir es) x.1 = some x.2 := by
    intro x hx
    obtain ⟨y, hy, rfl⟩ := List.mem_map.mp hx
    obtain ⟨cs, _, e, hf, _⟩ := hmem y hy
    simp only [e]; exact hf
  have hne : ∀ x ∈ files, x.1 ≠ [] := by
    intro x hx
    obtain ⟨y, hy, rfl⟩ := List.mem_map.mp hx
    obtain ⟨cs, hn, e, _, _⟩ := hmem y hy
    simp only [e]; exact hn
  have hpn : ∀ x ∈ files, ∀ c ∈ x.1, Spec.plainName c = true := by
    intro x hx
    obtain ⟨y, hy, rfl⟩ := List.mem_map.mp hx
    obtain ⟨cs, _, e, _, hp⟩ := hmem y hy
    simp only [e]; exact hp
  have hlisted : v1Listed pre (sortedFiles pre (.dir es)) = files.map fun x => (x.1, x.2.length) := by
    simp [v1Listed, files, List.map_map, Function.comp_def]
  have hdatas : files.map (·.2) = (sortedFiles pre (.dir es)).map (·.2) := by
    simp [files, List.map_map, Function.comp_def]
  obtain ⟨recs, tops, h1, h2, h3, h4, h5, h6⟩ :=
    v1_list_core (.dir es) align o.pieceLength files hfa hne hpn
  rw [← hlisted] at h1 h5
  rw [hdatas] at h3
  -- what the checker reads
  obtain ⟨info, hm, hget⟩ := V1Meta.of_keys hk
  have hlen : dictGet info K.length = none := by rw [← hget]; exact hk.length
  have hfiles : dictGet info K.files = some (.list (v1Entries align o.pieceLength
      (v1Listed pre (sortedFiles pre (.dir es))))) := by rw [← hget]; exact hk.files
  have hv2 : hasV2 info = false := by simp [hasV2, dictHas, hm.hmv]
  have hdesc : describedFiles r (isFile (.dir es)) = some recs := by
    unfold describedFiles
    simp only [hm.hinfo, hm.hname, hv2, Bool.false_eq_true, if_false, dictHas, hm.hft,
      Option.isSome_none, hlen, hfiles, h1]
  have hres : arg.Resolves info o.name (.dir es) := by
    apply resolves_of_argOK arg info o.name _ harg
    intro _
    apply descends_false info o.name es tops
    · simp only [topsOf, hfiles, h5, bind, Except.bind]
    · intro inner hin x hx hsome
      obtain ⟨y, hy, rfl⟩ := h6 x hx
      have hfy := hfa y hy
      have hny := hne y hy
      cases hy1 : y.1 with
      | nil => exact absurd hy1 hny
      | cons c cs =>
        rw [hy1] at hfy
        simpa using fileAt_head_child es c cs y.2 hfy
  have hpieces : (chunks o.pieceLength (if align = true
        then Spec.alignedStream o.pieceLength ((sortedFiles pre (.dir es)).map (·.2))
        else ((sortedFiles pre (.dir es)).map (·.2)).flatten)).map H1
      = (chunks o.pieceLength (v1Stream align o.pieceLength
          ((sortedFiles pre (.dir es)).map (·.2)))).map H1 := rfl
  have := recheck_v1_general H1 H B hs hhs hH1 b r info o.name o.pieceLength _ hm hload hpl
    (.dir es) recs hdesc h2 (by rw [h3, hpieces]) h4 arg hres
  rw [h3] at this
  exact this

/-- v1 on a single file (with or without `align`), end to end -/
theorem recheck_created_v1_file (o : CreateOpts) (align : Bool) (H1 H : Bytes → Bytes) (B hs : Nat)
    (hhs : 0 < hs) (hH1 : ∀ x, (H1 x).length = 20)
    (enum : List (List (Bytes × Bytes)) → List (List (Bytes × Bytes))) (pre : Bytes) (d : Bytes)
    (hpl : 0 < o.pieceLength) (r : BVal) (b : Bytes)
    (h : createV1 o align H1 enum pre (.file d) = some (r, b))
    (arg : ContentArg) (harg : ArgOK arg o.name) :
    ∃ vs, Impl.recheck H1 H B hs b arg (.file d) = .ok (vs, d.length, d.length) ∧
      ∀ v ∈ vs, v.1 = true := by
  obtain ⟨content, l, hs', hb, hc, _⟩ := createV1_sortMeta o align H1 enum pre (.file d) r b h
  obtain ⟨r', hr', hcan⟩ := v1_canon o content ((l.map H1).flatten) hc
  rw [hs'] at hr'; cases hr'
  have hload : loads b = some r := by rw [hb]; exact loads_encode r hcan
  rw [createV1_file o align H1 enum pre d hpl] at h
  obtain ⟨hs2, _⟩ := written_some _ r b h
  have hk := v1_keys _ _ _ r hs2
  obtain ⟨info, hm, hget⟩ := V1Meta.of_keys hk
  have hlen : dictGet info K.length = some (.int d.length) := by rw [← hget]; exact hk.length
  have hfiles : dictGet info K.files = none := by rw [← hget]; exact hk.files
  have hv2 : hasV2 info = false := by simp [hasV2, dictHas, hm.hmv]
  have hdesc : describedFiles r (isFile (.file d)) = some [([], d.length, none)] := by
    unfold describedFiles
    simp only [hm.hinfo, hm.hname, hv2, Bool.false_eq_true, if_false, dictHas, hm.hft,
      Option.isSome_none, hlen, hfiles]
    simp
  have hfb : v1Disk (.file d) (([] : List Bytes), d.length, (none : Option Bytes)) = some d := rfl
  have hstream : ([(([] : List Bytes), d.length, (none : Option Bytes))].map
      fun x => (x.2.1, v1Disk (.file d) x)).flatMap zeroFill = d := by
    simp [hfb, zeroFill_exact]
  have hres : arg.Resolves info o.name (.file d) :=
    resolves_of_argOK arg info o.name _ harg (fun _ => descends_file info o.name d)
  have := recheck_v1_general H1 H B hs hhs hH1 b r info o.name o.pieceLength _ hm hload hpl
    (.file d) _ hdesc
    (by intro e he dd hdd
        simp only [List.map_cons, List.map_nil, List.mem_singleton] at he
        subst he
        simp only [hfb, Option.some.injEq] at hdd; subst hdd; exact Nat.le_refl _)
    (by rw [hstream])
    (by intro x hx es'
        simp only [List.mem_singleton] at hx; subst hx
        simp [lookup])
    arg hres
  rw [hstream] at this
  exact this

/-! ### (b), (c) for plain v1: the plan is defined and intact -/

theorem v1_entries_plain (t : Node) (pl : Nat) (files : List (List Bytes × Bytes))
    (hfa : ∀ x ∈ files, fileAt t x.1 = some x.2) (hne : ∀ x ∈ files, x.1 ≠ [])
    (hplain : ∀ x ∈ files, ∀ c ∈ x.1, Spec.plainName c = true) :
    ∃ recs, v1Items (v1Entries false pl (files.map fun x => (x.1, x.2.length))) = some recs ∧
      recs.map (fun r => (r.2.1, v1Disk t r))
        = (files.map (·.2)).map (fun d => (d.length, some d)) := by
  induction files with
  | nil => exact ⟨[], by simp [v1Entries, v1Items], rfl⟩
  | cons x rest ih =>
    obtain ⟨recs, h1, h2⟩ := ih (fun y hy => hfa y (by simp [hy])) (fun y hy => hne y (by simp [hy]))
      (fun y hy => hplain y (by simp [hy]))
    have hitem := v1Item_fileEntry x.1 x.2.length (hne x (by simp)) (hplain x (by simp))
    have hfb : v1Disk t (x.1, x.2.length, none) = some x.2 := by
      simp [v1Disk, isPadRec, fileBytes_of_fileAt t x.1 x.2 (hfa x (by simp))]
    refine ⟨(x.1, x.2.length, none) :: recs, ?_, ?_⟩
    · simp only [List.map_cons, v1Entries, Bool.false_and, Bool.false_eq_true, if_false, v1Items,
        hitem, h1]
    · simp only [List.map_cons, hfb, h2]

/-- plain v1 on a directory: `Spec.plan` of the written metafile over the tree itself is
    defined and `Plan.Intact` — `pieces` is the BEP 3 hashing of the listed files, each of
    which is on disk with its listed length -/
theorem plan_created_v1_plain (o : CreateOpts) (H1 H : Bytes → Bytes) (B hs : Nat)
    (enum : List (List (Bytes × Bytes)) → List (List (Bytes × Bytes)))
    (henum : ∀ l, (enum l).Perm l) (pre : Bytes) (es : List (Bytes × Node))
    (hwn : WellNamed (.dir es)) (hplain : PlainNamed (.dir es)) (hpl : 0 < o.pieceLength)
    (r : BVal) (b : Bytes) (h : createV1 o false H1 enum pre (.dir es) = some (r, b)) :
    ∃ p, plan B r (.dir es) = some p ∧ p.Intact H1 H B hs ∧ p.total = treeBytes (.dir es) := by
  obtain ⟨_, _, hk⟩ := createV1_dir o false H1 enum henum pre es hwn hpl r b h
  let files : List (List Bytes × Bytes) := (sortedFiles pre (.dir es)).map fun x => (relPath pre x.1, x.2)
  have hmem : ∀ x ∈ sortedFiles pre (.dir es), ∃ cs, cs ≠ [] ∧ relPath pre x.1 = cs ∧
      fileAt (.dir es) cs = some x.2 ∧ ∀ c ∈ cs, Spec.plainName c = true := by
    intro x hx
    have hx' : x ∈ allFiles pre (.dir es) := (List.mergeSort_perm _ _).subset hx
    obtain ⟨cs, e, hf⟩ := allFiles_comps pre (.dir es) hwn x hx'
    have hne := fileAt_dir_ne_nil es cs x.2 hf
    have hp := fileAt_plain cs (.dir es) x.2 hplain hf
    refine ⟨cs, hne, ?_, hf, hp⟩
    rw [e]
    exact relPath_foldl pre cs hne (fun c hc => (plainName_parts c (hp c hc)).2.2.2)
  have hfa : ∀ x ∈ files, fileAt (.dir es) x.1 = some x.2 := by
    intro x hx
    obtain ⟨y, hy, rfl⟩ := List.mem_map.mp hx
    obtain ⟨cs, _, e, hf, _⟩ := hmem y hy
    simp only [e]; exact hf
  have hne : ∀ x ∈ files, x.1 ≠ [] := by
    intro x hx
    obtain ⟨y, hy, rfl⟩ := List.mem_map.mp hx
    obtain ⟨cs, hn, e, _, _⟩ := hmem y hy
    simp only [e]; exact hn
  have hpn : ∀ x ∈ files, ∀ c ∈ x.1, Spec.plainName c = true := by
    intro x hx
    obtain ⟨y, hy, rfl⟩ := List.mem_map.mp hx
    obtain ⟨cs, _, e, _, hp⟩ := hmem y hy
    simp only [e]; exact hp
  have hlisted : v1Listed pre (sortedFiles pre (.dir es)) = files.map fun x => (x.1, x.2.length) := by
    simp [v1Listed, files, List.map_map, Function.comp_def]
  have hdatas : files.map (·.2) = (sortedFiles pre (.dir es)).map (·.2) := by
    simp [files, List.map_map, Function.comp_def]
  obtain ⟨recs, h1, h2⟩ := v1_entries_plain (.dir es) o.pieceLength files hfa hne hpn
  rw [← hlisted] at h1
  rw [hdatas] at h2
  obtain ⟨info, hm, hget⟩ := V1Meta.of_keys hk
  have hlen : dictGet info K.length = none := by rw [← hget]; exact hk.length
  have hfiles : dictGet info K.files = some (.list (v1Entries false o.pieceLength
      (v1Listed pre (sortedFiles pre (.dir es))))) := by rw [← hget]; exact hk.files
  have hv2 : hasV2 info = false := by simp [hasV2, dictHas, hm.hmv]
  have hdesc : describedFiles r (isFile (.dir es)) = some recs := by
    unfold describedFiles
    simp only [hm.hinfo, hm.hname, hv2, Bool.false_eq_true, if_false, dictHas, hm.hft,
      Option.isSome_none, hlen, hfiles, h1]
  have hposI : (0 : Int) < (o.pieceLength : Int) := by omega
  refine ⟨.v1 o.pieceLength ((chunks o.pieceLength
      ((sortedFiles pre (.dir es)).map (·.2)).flatten).map H1).flatten
    (recs.map fun x => (x.2.1, v1Disk (.dir es) x)), ?_, ?_, ?_⟩
  · have hp := hm.hpieces
    simp only [Bool.false_eq_true, if_false] at hp
    unfold plan
    simp only [hdesc, hm.hinfo, hm.hpl, hposI, if_true, hv2, Bool.false_eq_true, if_false,
      hp, Int.toNat_natCast]
  · exact ⟨(sortedFiles pre (.dir es)).map (·.2), h2, rfl⟩
  · simp only [Plan.total, h2, List.map_map, Function.comp_def]
    rw [← treeBytes_sorted pre (.dir es)]

/-! ### totals -/

theorem alignedStream_ge (pl : Nat) (ds : List Bytes) :
    (ds.map List.length).sum ≤ (Spec.alignedStream pl ds).length := by
  unfold Spec.alignedStream
  induction ds with
  | nil => simp
  | cons d r ih => simp only [List.map_cons, List.sum_cons, List.flatten_cons, List.length_append]; omega

theorem v1Stream_length_ge (align : Bool) (pl : Nat) (pre : Bytes) (t : Node) :
    treeBytes t ≤ (v1Stream align pl ((sortedFiles pre t).map (·.2))).length := by
  rw [← treeBytes_sorted pre t]
  have e : (sortedFiles pre t).map (·.2.length) = ((sortedFiles pre t).map (·.2)).map List.length := by
    simp [List.map_map, Function.comp_def]
  rw [e]
  cases align with
  | false => simp [v1Stream, List.length_flatten]
  | true => exact alignedStream_ge pl _

theorem v1Stream_length_plain (pl : Nat) (pre : Bytes) (t : Node) :
    (v1Stream false pl ((sortedFiles pre t).map (·.2))).length = treeBytes t := by
  rw [← treeBytes_sorted pre t]
  simp [v1Stream, List.length_flatten, List.map_map, Function.comp_def]

theorem treeBytes_file (d : Bytes) : treeBytes (.file d) = d.length := by
  simp [treeBytes, allFiles]

theorem sortedFiles_ne_nil (pre : Bytes) (t : Node) (h : 0 < treeBytes t) : sortedFiles pre t ≠ [] := by
  intro e
  rw [← treeBytes_sorted pre t, e] at h
  simp at h

/-! ### evaluating the v1 creator on a concrete tree (for witnesses)

  `List.mergeSort` does not reduce in the kernel, so `decide` cannot run a creator.  The sorted
  lists are supplied instead, with a proof that they are sorted rearrangements. -/

theorem createV1_dir_value (o : CreateOpts) (align : Bool) (H1 : Bytes → Bytes)
    (enum : List (List (Bytes × Bytes)) → List (List (Bytes × Bytes)))
    (henum : ∀ l, (enum l).Perm l) (pre : Bytes) (es : List (Bytes × Node))
    (hwn : WellNamed (.dir es)) (L : List (Bytes × Bytes))
    (hs : sortedFiles pre (.dir es) = L) (hne : L ≠ []) (I T : Dict)
    (hI : I.Perm (infoV1 o (.multi (.list (v1Entries align o.pieceLength (v1Listed pre L))))
      ((hasherV1 align o.pieceLength (L.map (·.2))).map H1).flatten))
    (hIs : strictAsc (keys I) = true)
    (hT : T.Perm (dictSet (metaDicts o).top K.info (.dict I))) (hTs : strictAsc (keys T) = true) :
    createV1 o align H1 enum pre (.dir es) = some (.dict T, encode (.dict T)) := by
  unfold createV1
  simp only [listV1_eq_sortedFiles enum henum pre (.dir es) hwn, hs, hne, if_false]
  unfold written
  rw [assembleV1_eq, sortMeta_value_none _ _ (metaDicts_top_noLayers o)]
  have e1 := sortDict_unique _ I hI hIs
  simp only [v1Listed] at e1
  rw [e1, sortDict_unique _ T hT hTs]
  rfl

/-! ### two concrete trees that really contain `.pad` entries (they were rechecked wrongly before
  the repairs d2b4fef / 65351cc of `recheck.py`; no side condition about `.pad` is needed now) -/
namespace Ex

/-- minimal options: piece length 4, root name `r` -/
def plainOpts : CreateOpts :=
  { createdBy := [116], creationDate := 0, announce := .none, comment := [], priv := false,
    source := [], urlList := .none, httpseeds := .none, pieceLength := 4, name := [114] }

/-- `r/.pad/1` (one byte, 7) and `r/a` (three bytes): with `align`, the padding entry after
    `a` is `.pad/1` — the path of a real file -/
def padTree : Node := .dir [(sPad, .dir [([49], .file [7])]), ([97], .file [1, 2, 3])]

/-- `r/a` and a directory `r/r` holding `.pad`, `a` and `r` -/
def innerTree : Node :=
  .dir [([97], .file [1, 2, 3]),
        ([114], .dir [(sPad, .file [9]), ([97], .file [1, 2, 3]), ([114], .file [5])])]

theorem padTree_wellNamed : WellNamed padTree := by
  simp [padTree, WellNamed, WellNamedList, Listing.sep, sPad]

theorem padTree_plainNamed : PlainNamed padTree := by
  simp [padTree, PlainNamed, PlainNamedList, Spec.plainName, sPad]

theorem innerTree_wellNamed : WellNamed innerTree := by
  simp [innerTree, WellNamed, WellNamedList, Listing.sep, sPad]

theorem innerTree_plainNamed : PlainNamed innerTree := by
  simp [innerTree, PlainNamed, PlainNamedList, Spec.plainName, sPad]

/-- the `info` dictionary `TorrentFile(align=True)` writes for `padTree` (toy SHA-1) -/
def padInfo : Dict :=
  [(K.files, .list [fileEntry [sPad, [49]] 1, padEntry 3, fileEntry [[97]] 3, padEntry 1]),
   (K.name, .str [114]), (K.pieceLength, .int 4),
   (K.pieces, .str (List.replicate 20 20 ++ List.replicate 20 103))]

/-- … and for `innerTree` -/
def innerInfo : Dict :=
  [(K.files, .list [fileEntry [[97]] 3, padEntry 1, fileEntry [[114], sPad] 1, padEntry 3,
      fileEntry [[114], [97]] 3, padEntry 1, fileEntry [[114], [114]] 1, padEntry 3]),
   (K.name, .str [114]), (K.pieceLength, .int 4),
   (K.pieces, .str (List.replicate 20 103 ++ List.replicate 20 14 ++ List.replicate 20 103
      ++ List.replicate 20 26))]

def metaOf (info : Dict) : BVal :=
  .dict [(K.createdBy, .str [116]), (K.creationDate, .int 0), (K.info, .dict info)]

theorem padTree_created :
    createV1 plainOpts true Toy.toyH20 id [114] padTree
      = some (metaOf padInfo, encode (metaOf padInfo)) := by
  exact createV1_dir_value plainOpts true Toy.toyH20 id (fun _ => .refl _) [114] _
    padTree_wellNamed (Spec.allFiles [114] padTree)
    (by unfold Spec.sortedFiles; exact List.mergeSort_of_pairwise (by decide)) (by decide)
    padInfo [(K.createdBy, .str [116]), (K.creationDate, .int 0), (K.info, .dict padInfo)]
    (by decide +kernel) (by decide +kernel) (by decide +kernel) (by decide +kernel)

theorem innerTree_created :
    createV1 plainOpts true Toy.toyH20 id [114] innerTree
      = some (metaOf innerInfo, encode (metaOf innerInfo)) := by
  exact createV1_dir_value plainOpts true Toy.toyH20 id (fun _ => .refl _) [114] _
    innerTree_wellNamed (Spec.allFiles [114] innerTree)
    (by unfold Spec.sortedFiles; exact List.mergeSort_of_pairwise (by decide)) (by decide)
    innerInfo [(K.createdBy, .str [116]), (K.creationDate, .int 0), (K.info, .dict innerInfo)]
    (by decide +kernel) (by decide +kernel) (by decide +kernel) (by decide +kernel)

end Ex

end E2E
end TorrentVerif

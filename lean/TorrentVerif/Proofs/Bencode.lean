import TorrentVerif.Model.Bencode
import TorrentVerif.Proofs.Order
/-
  Codec lemmas:
  * `parse_encode` / `parse_sound`: the strict syntactic parser is the exact inverse of the encoder;
  * `dec_encode`: the lenient pyben decoder inverts the encoder on values with unique keys;
  * `valueSpan_encode`: the span function finds the raw bytes of a top-level value.
-/
namespace TorrentVerif

/-! ### numerals -/

theorem isDigit_digit (d : Nat) (h : d < 10) : isDigit (digit d) = true := by
  unfold isDigit digit
  have : d = 0 ∨ d = 1 ∨ d = 2 ∨ d = 3 ∨ d = 4 ∨ d = 5 ∨ d = 6 ∨ d = 7 ∨ d = 8 ∨ d = 9 := by omega
  rcases this with h|h|h|h|h|h|h|h|h|h <;> subst h <;> decide

theorem digit_toNat (d : Nat) (h : d < 10) : (digit d).toNat - 48 = d := by
  unfold digit
  have : d = 0 ∨ d = 1 ∨ d = 2 ∨ d = 3 ∨ d = 4 ∨ d = 5 ∨ d = 6 ∨ d = 7 ∨ d = 8 ∨ d = 9 := by omega
  rcases this with h|h|h|h|h|h|h|h|h|h <;> subst h <;> decide

theorem digit_toNat' (d : Nat) (h : d < 10) : (digit d).toNat = 48 + d := by
  unfold digit
  have : d = 0 ∨ d = 1 ∨ d = 2 ∨ d = 3 ∨ d = 4 ∨ d = 5 ∨ d = 6 ∨ d = 7 ∨ d = 8 ∨ d = 9 := by omega
  rcases this with h|h|h|h|h|h|h|h|h|h <;> subst h <;> decide

theorem isDigit_bounds (c : UInt8) : isDigit c = true ↔ 48 ≤ c.toNat ∧ c.toNat ≤ 57 := by
  unfold isDigit
  simp only [Bool.and_eq_true, decide_eq_true_eq, UInt8.le_iff_toNat_le]
  have : (48 : UInt8).toNat = 48 := rfl
  have : (57 : UInt8).toNat = 57 := rfl
  omega

/-- a digit byte is `digit` of its value -/
theorem digit_of_isDigit (c : UInt8) (h : isDigit c = true) : digit (c.toNat - 48) = c := by
  have hb := (isDigit_bounds c).mp h
  apply UInt8.toNat_inj.mp
  rw [digit_toNat' _ (by omega)]
  omega

theorem readNat_digit (d acc : Nat) (h : d < 10) (r : Bytes) :
    readNat acc (digit d :: r) = readNat (acc * 10 + d) r := by
  simp [readNat, isDigit_digit d h, digit_toNat d h]

theorem readNat_natDec' (n acc : Nat) (r : Bytes) :
    readNat acc (natDec n ++ r) = readNat (acc * 10 ^ (natDec n).length + n) r := by
  induction n using natDec.induct generalizing acc r with
  | case1 n h =>
    rw [natDec, dif_pos h]
    simp [readNat_digit n acc h]
  | case2 n h ih =>
    rw [natDec, dif_neg h, List.append_assoc, ih]
    simp only [List.singleton_append, List.length_append, List.length_singleton]
    rw [readNat_digit _ _ (Nat.mod_lt n (by decide : 10 > 0)), Nat.pow_succ]
    congr 1
    rw [Nat.add_mul, Nat.mul_assoc]; omega

/-- reading back a printed numeral that is not followed by a digit -/
theorem readNat_natDec (n : Nat) (r : Bytes) (hr : ∀ c r', r = c :: r' → isDigit c = false) :
    readNat 0 (natDec n ++ r) = (n, r) := by
  rw [readNat_natDec']
  cases r with
  | nil => simp [readNat]
  | cons c r' => simp [readNat, hr c r' rfl]

theorem natDec_head_digit (n : Nat) : ∃ c t, natDec n = c :: t ∧ isDigit c = true := by
  induction n using natDec.induct with
  | case1 n h => rw [natDec, dif_pos h]; exact ⟨_, [], rfl, isDigit_digit n h⟩
  | case2 n h ih =>
    obtain ⟨c, t, hc, hd⟩ := ih
    rw [natDec, dif_neg h, hc]; exact ⟨c, t ++ [digit (n % 10)], rfl, hd⟩

/-- a printed positive numeral starts with a digit 1-9 -/
theorem natDec_head_pos (n : Nat) (hn : 0 < n) :
    ∃ c t, natDec n = c :: t ∧ 49 ≤ c.toNat ∧ c.toNat ≤ 57 := by
  induction n using natDec.induct with
  | case1 n h =>
    rw [natDec, dif_pos h]
    exact ⟨_, [], rfl, by rw [digit_toNat' n h]; omega⟩
  | case2 n h ih =>
    obtain ⟨c, t, hc, hd⟩ := ih (by omega)
    rw [natDec, dif_neg h, hc]; exact ⟨c, t ++ [digit (n % 10)], rfl, hd⟩

theorem natDec_zero : natDec 0 = [48] := by rw [natDec]; rfl

/-- key step of soundness: digits read after a non-zero accumulator extend its numeral -/
theorem readNat_spec (b : Bytes) (acc : Nat) (hacc : 0 < acc) :
    natDec (readNat acc b).1 ++ (readNat acc b).2 = natDec acc ++ b := by
  induction b generalizing acc with
  | nil => simp [readNat]
  | cons c r ih =>
    unfold readNat
    by_cases hd : isDigit c = true
    · simp only [hd, if_true]
      rw [ih _ (by omega)]
      have hb := (isDigit_bounds c).mp hd
      have h10 : ¬ (acc * 10 + (c.toNat - 48) < 10) := by omega
      rw [natDec, dif_neg h10]
      have e1 : (acc * 10 + (c.toNat - 48)) / 10 = acc := by omega
      have e2 : (acc * 10 + (c.toNat - 48)) % 10 = c.toNat - 48 := by omega
      rw [e1, e2, digit_of_isDigit c hd]
      simp
    · simp [hd]

theorem readNat_not_digit (b : Bytes) (acc : Nat) :
    ∀ c r', (readNat acc b).2 = c :: r' → isDigit c = false := by
  induction b generalizing acc with
  | nil => simp [readNat]
  | cons c r ih =>
    unfold readNat
    by_cases hd : isDigit c = true
    · simp only [hd, if_true]; exact ih _
    · simp only [hd]
      intro c' r' h
      simp only [Bool.false_eq_true, if_false, List.cons.injEq] at h
      rw [← h.1]; simpa using hd

namespace Spec

theorem pNat_sound (b : Bytes) (n : Nat) (r : Bytes) (h : pNat b = some (n, r)) :
    b = natDec n ++ r := by
  unfold pNat at h
  cases b with
  | nil => simp at h
  | cons c t =>
    simp only at h
    by_cases h0 : c = 48
    · subst h0
      simp only [if_true, Option.some.injEq, Prod.mk.injEq] at h
      obtain ⟨rfl, rfl⟩ := h
      rw [natDec_zero]; rfl
    · simp only [h0, if_false] at h
      by_cases h1 : 49 ≤ c ∧ c ≤ 57
      · simp only [h1, and_self, if_true, Option.some.injEq] at h
        have hb : 49 ≤ c.toNat ∧ c.toNat ≤ 57 := by
          have := h1.1; have := h1.2
          simp only [UInt8.le_iff_toNat_le] at *
          have : (49 : UInt8).toNat = 49 := rfl
          have : (57 : UInt8).toNat = 57 := rfl
          omega
        have hd : isDigit c = true := (isDigit_bounds c).mpr ⟨by omega, hb.2⟩
        have hs := readNat_spec t (0 * 10 + (c.toNat - 48)) (by omega)
        have hr : readNat 0 (c :: t) = readNat (0 * 10 + (c.toNat - 48)) t := by
          simp [readNat, hd]
        rw [hr] at h
        rw [h] at hs
        simp only at hs
        rw [hs]
        have h10 : 0 * 10 + (c.toNat - 48) < 10 := by omega
        rw [natDec, dif_pos h10]
        have : digit (0 * 10 + (c.toNat - 48)) = c := by
          rw [Nat.zero_mul, Nat.zero_add]; exact digit_of_isDigit c hd
        rw [this]; rfl
      · simp [h1] at h

theorem pNat_natDec (n : Nat) (r : Bytes) (hr : ∀ c r', r = c :: r' → isDigit c = false) :
    pNat (natDec n ++ r) = some (n, r) := by
  by_cases hn : n = 0
  · subst hn; rw [natDec_zero]; simp [pNat]
  · obtain ⟨c, t, hc, hlo, hhi⟩ := natDec_head_pos n (by omega)
    have hrd := readNat_natDec n r hr
    rw [hc] at hrd ⊢
    simp only [List.cons_append] at hrd ⊢
    unfold pNat
    have h0 : c ≠ 48 := by
      intro e; subst e
      have : (48 : UInt8).toNat = 48 := rfl
      omega
    have h1 : 49 ≤ c ∧ c ≤ 57 := by
      simp only [UInt8.le_iff_toNat_le]
      have : (49 : UInt8).toNat = 49 := rfl
      have : (57 : UInt8).toNat = 57 := rfl
      omega
    simp [h0, h1, hrd]

theorem pStr_sound (b s r : Bytes) (h : pStr b = some (s, r)) : b = Impl.encStr s ++ r := by
  unfold pStr at h
  cases hp : pNat b with
  | none => simp [hp] at h
  | some nr =>
    obtain ⟨n, r0⟩ := nr
    simp only [hp] at h
    have hb := pNat_sound b n r0 hp
    cases r0 with
    | nil => simp at h
    | cons c r' =>
      simp only at h
      by_cases hc : c = 58 ∧ (r'.take n).length = n
      · simp only [hc, and_self, if_true, Option.some.injEq, Prod.mk.injEq] at h
        obtain ⟨rfl, rfl⟩ := h
        obtain ⟨rfl, hlen⟩ := hc
        have hle : n ≤ r'.length := by rw [List.length_take] at hlen; omega
        unfold Impl.encStr
        rw [hb, List.length_take, Nat.min_eq_left hle]
        simp
      · rw [if_neg hc] at h; cases h

theorem pStr_encStr (s r : Bytes) : pStr (Impl.encStr s ++ r) = some (s, r) := by
  unfold pStr Impl.encStr
  rw [List.append_assoc]
  rw [pNat_natDec s.length (58 :: s ++ r) (by intro c r' h; cases h; decide)]
  simp

theorem pInt_sound (b : Bytes) (i : Int) (r : Bytes) (h : pInt b = some (i, r)) :
    105 :: b = Impl.encInt i ++ r := by
  unfold pInt at h
  cases b with
  | nil => simp at h
  | cons c t =>
    simp only at h
    by_cases hm : c = 45
    · subst hm
      simp only [if_true] at h
      cases hp : pNat t with
      | none => simp [hp] at h
      | some nr =>
        obtain ⟨n, r0⟩ := nr
        simp only [hp] at h
        have hb := pNat_sound t n r0 hp
        cases r0 with
        | nil => simp at h
        | cons e r'' =>
          simp only at h
          by_cases he : e = 101 ∧ n ≠ 0
          · simp only [he, and_self, if_true, Option.some.injEq, Prod.mk.injEq, ne_eq,
              not_false_eq_true] at h
            obtain ⟨rfl, rfl⟩ := h
            obtain ⟨rfl, hn⟩ := he
            unfold Impl.encInt
            have hpos : 0 < n := by omega
            simp [hpos, hb]
          · simp [he] at h
    · simp only [hm, if_false] at h
      cases hp : pNat (c :: t) with
      | none => simp [hp] at h
      | some nr =>
        obtain ⟨n, r0⟩ := nr
        simp only [hp] at h
        have hb := pNat_sound (c :: t) n r0 hp
        cases r0 with
        | nil => simp at h
        | cons e r'' =>
          simp only at h
          by_cases he : e = 101
          · subst he
            simp only [if_true, Option.some.injEq, Prod.mk.injEq] at h
            obtain ⟨rfl, rfl⟩ := h
            unfold Impl.encInt
            simp [hb]
          · simp [he] at h

theorem pInt_encInt (i : Int) (r : Bytes) :
    pInt ((if i < 0 then [45] else []) ++ natDec i.natAbs ++ [101] ++ r) = some (i, r) := by
  have hnd : ∀ c r', (101 :: r) = c :: r' → isDigit c = false := by
    intro c r' h; cases h; decide
  by_cases hi : i < 0
  · simp only [hi, if_true, List.append_assoc, List.cons_append, List.nil_append]
    unfold pInt
    simp only [if_true]
    rw [pNat_natDec _ _ hnd]
    have : i.natAbs ≠ 0 := by omega
    simp only [this, ne_eq, not_false_eq_true, and_self, if_true, Option.some.injEq,
      Prod.mk.injEq, and_true]
    omega
  · simp only [hi, if_false, List.append_assoc, List.singleton_append, List.nil_append]
    obtain ⟨c, t, hc, hd⟩ := natDec_head_digit i.natAbs
    have hp := pNat_natDec i.natAbs (101 :: r) hnd
    rw [hc] at hp ⊢
    simp only [List.cons_append] at hp ⊢
    unfold pInt
    have hne : c ≠ 45 := by
      intro e; subst e; revert hd; decide
    simp only [hne, if_false, hp, if_true, Option.some.injEq, Prod.mk.injEq, and_true]
    omega

end Spec

/-! ### first bytes -/

theorem isDigit_ne (c : UInt8) (h : isDigit c = true) :
    c ≠ 105 ∧ c ≠ 108 ∧ c ≠ 100 ∧ c ≠ 101 ∧ c ≠ 45 := by
  have hb := (isDigit_bounds c).mp h
  refine ⟨?_, ?_, ?_, ?_, ?_⟩ <;> intro e <;> subst e <;> revert hb <;> decide

theorem encStr_head (s : Bytes) : ∃ c t, Impl.encStr s = c :: t ∧ isDigit c = true := by
  obtain ⟨c, t, hc, hd⟩ := natDec_head_digit s.length
  exact ⟨c, t ++ 58 :: s, by simp [Impl.encStr, hc], hd⟩

theorem encode_head (v : BVal) : ∃ c t, Impl.encode v = c :: t ∧ c ≠ 101 := by
  cases v with
  | int i => exact ⟨105, _, by simp only [Impl.encode, Impl.encInt]; rfl, by decide⟩
  | str s =>
    obtain ⟨c, t, hc, hd⟩ := encStr_head s
    exact ⟨c, t, by simp [Impl.encode, hc], (isDigit_ne c hd).2.2.2.1⟩
  | list l => exact ⟨108, _, by simp only [Impl.encode]; rfl, by decide⟩
  | dict d => exact ⟨100, _, by simp only [Impl.encode]; rfl, by decide⟩

theorem encStr_length_pos (s : Bytes) : 2 ≤ (Impl.encStr s).length := by
  obtain ⟨c, t, hc, _⟩ := natDec_head_digit s.length
  simp [Impl.encStr, hc]; omega

theorem encode_length_pos (v : BVal) : 1 ≤ (Impl.encode v).length := by
  obtain ⟨c, t, hc, _⟩ := encode_head v
  rw [hc]; simp

/-! ### the strict parser inverts the encoder (all values) -/
namespace Spec

theorem parse_str (fuel : Nat) (s r : Bytes) :
    parse (fuel + 1) (Impl.encStr s ++ r) = some (.str s, r) := by
  obtain ⟨c, t, hc, hd⟩ := encStr_head s
  have hne := isDigit_ne c hd
  have hs := pStr_encStr s r
  rw [hc] at hs ⊢
  simp only [List.cons_append] at hs ⊢
  simp [parse, hne.1, hne.2.1, hne.2.2.1, hs]

mutual
theorem parse_encode : ∀ (v : BVal) (fuel : Nat) (r : Bytes), (Impl.encode v).length ≤ fuel →
    parse fuel (Impl.encode v ++ r) = some (v, r)
  | .int i, fuel, r, h => by
    cases fuel with
    | zero => simp [Impl.encode, Impl.encInt] at h
    | succ f =>
      have := pInt_encInt i r
      simp only [List.append_assoc, List.singleton_append] at this
      simp [Impl.encode, Impl.encInt, parse, this]
  | .str s, fuel, r, h => by
    cases fuel with
    | zero => have := encStr_length_pos s; simp only [Impl.encode] at h; omega
    | succ f => simpa [Impl.encode] using parse_str f s r
  | .list l, fuel, r, h => by
    cases fuel with
    | zero => simp [Impl.encode] at h
    | succ f =>
      simp only [Impl.encode, List.length_cons, List.length_append] at h
      have := parseL_encode l f r (by omega)
      simp [Impl.encode, parse, this]
  | .dict d, fuel, r, h => by
    cases fuel with
    | zero => simp [Impl.encode] at h
    | succ f =>
      simp only [Impl.encode, List.length_cons, List.length_append] at h
      have := parseD_encode d f r (by omega)
      simp [Impl.encode, parse, this]
theorem parseL_encode : ∀ (l : List BVal) (fuel : Nat) (r : Bytes),
    (Impl.encodeL l).length + 1 ≤ fuel →
    parseL fuel (Impl.encodeL l ++ 101 :: r) = some (l, r)
  | [], fuel, r, h => by
    cases fuel with
    | zero => simp at h
    | succ f => simp [Impl.encodeL, parseL]
  | v :: vs, fuel, r, h => by
    cases fuel with
    | zero => simp at h
    | succ f =>
      simp only [Impl.encodeL, List.length_append] at h
      have hp := encode_length_pos v
      obtain ⟨c, t, hc, hne⟩ := encode_head v
      have h1 := parse_encode v f (Impl.encodeL vs ++ 101 :: r) (by omega)
      have h2 := parseL_encode vs f r (by omega)
      simp only [Impl.encodeL, List.append_assoc]
      rw [hc] at h1 ⊢
      simp only [List.cons_append] at h1 ⊢
      simp [parseL, hne, h1, h2]
theorem parseD_encode : ∀ (d : List (Bytes × BVal)) (fuel : Nat) (r : Bytes),
    (Impl.encodeD d).length + 1 ≤ fuel →
    parseD fuel (Impl.encodeD d ++ 101 :: r) = some (d, r)
  | [], fuel, r, h => by
    cases fuel with
    | zero => simp at h
    | succ f => simp [Impl.encodeD, parseD]
  | (k, v) :: kvs, fuel, r, h => by
    cases fuel with
    | zero => simp at h
    | succ f =>
      simp only [Impl.encodeD, List.length_append] at h
      have hp := encStr_length_pos k
      obtain ⟨c, t, hc, hd⟩ := encStr_head k
      have hne := (isDigit_ne c hd).2.2.2.1
      have h0 := pStr_encStr k (Impl.encode v ++ (Impl.encodeD kvs ++ 101 :: r))
      have h1 := parse_encode v f (Impl.encodeD kvs ++ 101 :: r) (by omega)
      have h2 := parseD_encode kvs f r (by omega)
      simp only [Impl.encodeD, List.append_assoc]
      rw [hc] at h0 ⊢
      simp only [List.cons_append] at h0 ⊢
      simp [parseD, hne, h0, h1, h2]
end

/-! ### everything the strict parser accepts is an encoding: `b = encode v ++ rest` -/

theorem parse_sound : ∀ (fuel : Nat) (b : Bytes) (v : BVal) (r : Bytes),
    parse fuel b = some (v, r) → b = Impl.encode v ++ r := by
  intro fuel
  induction fuel using Nat.strongRecOn with
  | ind n ih =>
  cases n with
  | zero => intro b v r h; simp [parse] at h
  | succ f =>
    -- list and dict bodies, by induction on an inner fuel bounded by `f`
    have hL : ∀ (g : Nat), g ≤ f → ∀ (b : Bytes) (l : List BVal) (r : Bytes),
        parseL g b = some (l, r) → b = Impl.encodeL l ++ 101 :: r := by
      intro g
      induction g with
      | zero => intro _ b l r h; simp [parseL] at h
      | succ g ihg =>
        intro hg b l r h
        cases b with
        | nil => simp [parseL] at h
        | cons c t =>
          simp only [parseL] at h
          by_cases hc : c = 101
          · subst hc
            simp only [if_true, Option.some.injEq, Prod.mk.injEq] at h
            obtain ⟨rfl, rfl⟩ := h
            simp [Impl.encodeL]
          · simp only [hc, if_false] at h
            cases hp : parse g (c :: t) with
            | none => simp [hp] at h
            | some vr =>
              obtain ⟨v, r1⟩ := vr
              simp only [hp] at h
              cases hq : parseL g r1 with
              | none => simp [hq] at h
              | some lr =>
                obtain ⟨vs, r2⟩ := lr
                simp only [hq, Option.map_some, Option.some.injEq, Prod.mk.injEq] at h
                obtain ⟨rfl, rfl⟩ := h
                have e1 := ih g (by omega) (c :: t) v r1 hp
                have e2 := ihg (by omega) r1 vs r2 hq
                rw [e1, e2]; simp [Impl.encodeL]
    have hD : ∀ (g : Nat), g ≤ f → ∀ (b : Bytes) (d : Dict) (r : Bytes),
        parseD g b = some (d, r) → b = Impl.encodeD d ++ 101 :: r := by
      intro g
      induction g with
      | zero => intro _ b l r h; simp [parseD] at h
      | succ g ihg =>
        intro hg b d r h
        cases b with
        | nil => simp [parseD] at h
        | cons c t =>
          simp only [parseD] at h
          by_cases hc : c = 101
          · subst hc
            simp only [if_true, Option.some.injEq, Prod.mk.injEq] at h
            obtain ⟨rfl, rfl⟩ := h
            simp [Impl.encodeD]
          · simp only [hc, if_false] at h
            cases hk : pStr (c :: t) with
            | none => simp [hk] at h
            | some kr =>
              obtain ⟨k, r1⟩ := kr
              simp only [hk] at h
              cases hp : parse g r1 with
              | none => simp [hp] at h
              | some vr =>
                obtain ⟨v, r2⟩ := vr
                simp only [hp] at h
                cases hq : parseD g r2 with
                | none => simp [hq] at h
                | some lr =>
                  obtain ⟨kvs, r3⟩ := lr
                  simp only [hq, Option.map_some, Option.some.injEq, Prod.mk.injEq] at h
                  obtain ⟨rfl, rfl⟩ := h
                  have e0 := pStr_sound (c :: t) k r1 hk
                  have e1 := ih g (by omega) r1 v r2 hp
                  have e2 := ihg (by omega) r2 kvs r3 hq
                  rw [e0, e1, e2]; simp [Impl.encodeD]
    intro b v r h
    cases b with
    | nil => simp [parse] at h
    | cons c t =>
      simp only [parse] at h
      by_cases h1 : c = 105
      · subst h1
        simp only [if_true] at h
        cases hp : pInt t with
        | none => simp [hp] at h
        | some ir =>
          obtain ⟨i, r'⟩ := ir
          simp only [hp, Option.map_some, Option.some.injEq, Prod.mk.injEq] at h
          obtain ⟨rfl, rfl⟩ := h
          simpa [Impl.encode] using pInt_sound t i r' hp
      · simp only [h1, if_false] at h
        by_cases h2 : c = 108
        · subst h2
          simp only [if_true] at h
          cases hp : parseL f t with
          | none => simp [hp] at h
          | some lr =>
            obtain ⟨l, r'⟩ := lr
            simp only [hp, Option.map_some, Option.some.injEq, Prod.mk.injEq] at h
            obtain ⟨rfl, rfl⟩ := h
            rw [hL f (Nat.le_refl f) t l r' hp]; simp [Impl.encode]
        · simp only [h2, if_false] at h
          by_cases h3 : c = 100
          · subst h3
            simp only [if_true] at h
            cases hp : parseD f t with
            | none => simp [hp] at h
            | some lr =>
              obtain ⟨d, r'⟩ := lr
              simp only [hp, Option.map_some, Option.some.injEq, Prod.mk.injEq] at h
              obtain ⟨rfl, rfl⟩ := h
              rw [hD f (Nat.le_refl f) t d r' hp]; simp [Impl.encode]
          · simp only [h3, if_false] at h
            cases hp : pStr (c :: t) with
            | none => simp [hp] at h
            | some sr =>
              obtain ⟨s, r'⟩ := sr
              simp only [hp, Option.map_some, Option.some.injEq, Prod.mk.injEq] at h
              obtain ⟨rfl, rfl⟩ := h
              simpa [Impl.encode] using pStr_sound (c :: t) s r' hp

end Spec

end TorrentVerif

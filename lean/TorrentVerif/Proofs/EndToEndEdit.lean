import TorrentVerif.Proofs.EndToEnd
import TorrentVerif.Proofs.EditCanon
/-
  End to end, edit: the whole `Checker` reads a metafile only through the hash-bearing keys
  (`name`, `piece length`, `meta version`, `pieces`, `files`, `length`, `file tree` of `info`,
  and the top-level `piece layers`), none of which `edit_torrent` can change.
-/
namespace TorrentVerif
open Impl Spec RF

namespace E2E

/-- the keys of `info` the `Checker` reads -/
def checkerKeys : List Bytes :=
  [K.name, K.pieceLength, K.metaVersion, K.pieces, K.files, K.length, K.fileTree]

/-- two `info` dictionaries the `Checker` cannot tell apart -/
def SameForChecker (info info' : Dict) : Prop := ∀ k ∈ checkerKeys, dictGet info' k = dictGet info k

section
variable {info info' : Dict} (h : SameForChecker info info')
include h

theorem same_get (k : Bytes) (hk : k ∈ checkerKeys) : dictGet info' k = dictGet info k := h k hk

theorem same_sub (k : Bytes) (hk : k ∈ checkerKeys) : sub (.dict info') k = sub (.dict info) k := by
  simp only [sub, h k hk]

theorem same_metaVersion : metaVersion info' = metaVersion info := by
  unfold metaVersion dictHas
  rw [h K.metaVersion (by decide), h K.pieces (by decide)]

theorem same_topsOf (name : Bytes) : topsOf info' name = topsOf info name := by
  unfold topsOf dictHas
  rw [h K.files (by decide), h K.length (by decide), h K.fileTree (by decide)]

theorem same_isParent (name : Bytes) (outer inner : Node) :
    isParent info' name outer inner = isParent info name outer inner := by
  unfold isParent
  rw [same_topsOf h]

theorem same_descends (name : Bytes) (nd : Node) : descends info' name nd = descends info name nd := by
  unfold descends
  cases nd with
  | file d => rfl
  | dir es => simp only []; cases child (Node.dir es) name <;> simp only [same_isParent h]

theorem same_findRoot (name argName : Bytes) (here : Option Node) :
    findRoot info' name argName here = findRoot info name argName here := by
  unfold findRoot
  cases here with
  | none => rfl
  | some nd => simp only [same_descends h]

theorem same_singleLength (name : Bytes) (rif : Bool) :
    singleLength info' name rif = singleLength info name rif := by
  unfold singleLength
  rw [h K.length (by decide), h K.fileTree (by decide)]

theorem same_checkPaths (name : Bytes) (version : Nat) (rif : Bool) :
    checkPaths info' name version rif = checkPaths info name version rif := by
  unfold checkPaths
  rw [same_singleLength h, same_sub h K.fileTree (by decide), same_sub h K.files (by decide)]

end

/-- the whole `Checker` on two decoded metafiles that agree on what it reads -/
theorem recheckMeta_same (H1 H : Bytes → Bytes) (B hs : Nat) (top top' info info' : Dict)
    (hi : dictGet top K.info = some (.dict info)) (hi' : dictGet top' K.info = some (.dict info'))
    (h : SameForChecker info info')
    (hl : dictGet top' K.pieceLayers = dictGet top K.pieceLayers)
    (argName : Bytes) (here : Option Node) :
    recheckMeta H1 H B hs (.dict top') argName here = recheckMeta H1 H B hs (.dict top) argName here := by
  have hs1 : sub (.dict top) K.info = .ok (.dict info) := sub_dict top K.info _ hi
  have hs1' : sub (.dict top') K.info = .ok (.dict info') := sub_dict top' K.info _ hi'
  have hs2 : sub (.dict top') K.pieceLayers = sub (.dict top) K.pieceLayers := by
    simp only [sub, hl]
  unfold recheckMeta
  simp only [hs1, hs1', bind_ok, same_sub h K.name (by decide),
    same_sub h K.pieceLength (by decide), same_sub h K.pieces (by decide), same_metaVersion h,
    same_findRoot h, same_checkPaths h, hs2]

/-! ### whatever pyben decodes has unique keys, and `edit_torrent` keeps it so -/

/-- distinct keys, values with unique keys at every depth -/
structure GoodU (d : Dict) : Prop where
  nodup : (keys d).Nodup
  vals : ∀ kv ∈ d, uniq kv.2 = true

theorem GoodU.nil : GoodU [] := ⟨by simp [keys], by simp⟩

theorem GoodU.set {d : Dict} (h : GoodU d) (k : Bytes) (v : BVal)
    (hv : TorrentVerif.uniq v = true) :
    GoodU (dictSet d k v) :=
  ⟨nodup_keys_dictSet d k v h.nodup, by
    intro kv hkv
    rcases mem_dictSet d k v kv hkv with e | e
    · rw [e]; exact hv
    · exact h.vals kv e⟩

theorem GoodU.del {d : Dict} (h : GoodU d) (k : Bytes) : GoodU (dictDel d k) :=
  ⟨nodup_keys_dictDel d k h.nodup, fun kv hkv => h.vals kv (mem_dictDel d k kv hkv)⟩

theorem GoodU.putOpt {d : Dict} (h : GoodU d) (k : Bytes) (o : Option BVal)
    (hv : ∀ v, o = some v → TorrentVerif.uniq v = true) : GoodU (Impl.putOpt d k o) := by
  cases o with
  | none => exact h
  | some v => exact h.set k v (hv v rfl)

theorem GoodU.sort {d : Dict} (h : GoodU d) : GoodU (sortDict d) :=
  ⟨nodup_keys_sortDict d h.nodup, fun kv hkv => h.vals kv ((mem_sortDict d kv).mp hkv)⟩

theorem GoodU.toUniq {d : Dict} (h : GoodU d) : TorrentVerif.uniq (.dict d) = true :=
  (uniq_dict d).mpr ⟨h.nodup, h.vals⟩

theorem GoodU.of_uniq {d : Dict} (h : TorrentVerif.uniq (.dict d) = true) : GoodU d :=
  ⟨((uniq_dict d).mp h).1, ((uniq_dict d).mp h).2⟩

mutual
theorem dec_uniq : ∀ (fuel : Nat) (b : Bytes) (v : BVal) (r : Bytes),
    dec fuel b = some (v, r) → uniq v = true
  | 0, _, _, _, h => by simp [dec] at h
  | _ + 1, [], _, _, h => by simp [dec] at h
  | fuel + 1, c :: t, v, r, h => by
    simp only [dec] at h
    by_cases h1 : c = 105
    · simp only [h1, if_true, Option.map_eq_some_iff] at h
      obtain ⟨a, _, e⟩ := h
      cases e; rfl
    · simp only [h1, if_false] at h
      by_cases h2 : isDigit c = true
      · simp only [h2, if_true, Option.map_eq_some_iff] at h
        obtain ⟨a, _, e⟩ := h
        cases e; rfl
      · simp only [h2, Bool.false_eq_true, if_false] at h
        by_cases h3 : c = 108
        · simp only [h3, if_true, Option.map_eq_some_iff] at h
          obtain ⟨a, ha, e⟩ := h
          cases e
          simp only [uniq]
          exact decList_uniq fuel t a.1 a.2 ha
        · simp only [h3, if_false] at h
          by_cases h4 : c = 100
          · simp only [h4, if_true, Option.map_eq_some_iff] at h
            obtain ⟨a, ha, e⟩ := h
            cases e
            exact (decDict_uniq fuel [] t a.1 a.2 GoodU.nil ha).toUniq
          · simp [h4] at h
theorem decList_uniq : ∀ (fuel : Nat) (b : Bytes) (l : List BVal) (r : Bytes),
    decList fuel b = some (l, r) → uniqL l = true
  | 0, _, _, _, h => by simp [decList] at h
  | _ + 1, [], _, _, h => by simp [decList] at h
  | fuel + 1, c :: t, l, r, h => by
    simp only [decList] at h
    by_cases h1 : c = 101
    · simp only [h1, if_true, Option.some.injEq, Prod.mk.injEq] at h
      rw [← h.1]; rfl
    · simp only [h1, if_false] at h
      cases hd : dec fuel (c :: t) with
      | none => simp [hd] at h
      | some vr =>
        obtain ⟨v, r1⟩ := vr
        simp only [hd, Option.map_eq_some_iff] at h
        obtain ⟨a, ha, e⟩ := h
        cases e
        simp only [uniqL, Bool.and_eq_true]
        exact ⟨dec_uniq fuel (c :: t) v r1 hd, decList_uniq fuel r1 a.1 a.2 ha⟩
theorem decDict_uniq : ∀ (fuel : Nat) (acc : Dict) (b : Bytes) (d : Dict) (r : Bytes),
    GoodU acc → decDict fuel acc b = some (d, r) → GoodU d
  | 0, _, _, _, _, _, h => by simp [decDict] at h
  | _ + 1, _, [], _, _, _, h => by simp [decDict] at h
  | fuel + 1, acc, c :: t, d, r, hg, h => by
    simp only [decDict] at h
    by_cases h1 : c = 101
    · simp only [h1, if_true, Option.some.injEq, Prod.mk.injEq] at h
      rw [← h.1]; exact hg
    · simp only [h1, if_false] at h
      cases hk : decStr (c :: t) with
      | none => simp [hk] at h
      | some kr =>
        obtain ⟨k, r1⟩ := kr
        simp only [hk] at h
        cases hd : dec fuel r1 with
        | none => simp [hd] at h
        | some vr =>
          obtain ⟨v, r2⟩ := vr
          simp only [hd] at h
          exact decDict_uniq fuel (dictSet acc k v) r2 d r (hg.set k v (dec_uniq fuel r1 v r2 hd)) h
end

/-- what `pyben.loads` returns has unique keys at every depth -/
theorem loads_uniq (b : Bytes) (mf : BVal) (h : loads b = some mf) : UniqueKeys mf = true := by
  unfold loads decode at h
  cases hd : dec b.length b with
  | none => simp [hd] at h
  | some vr =>
    obtain ⟨v, r⟩ := vr
    simp only [hd, Option.map_some, Option.some.injEq] at h
    subst h
    exact dec_uniq _ _ _ _ hd

theorem loads_encode_uniq (r : BVal) (h : UniqueKeys r = true) : loads (encode r) = some r := by
  have := decode_encode r [] h
  rw [List.append_nil] at this
  simp [loads, this]

theorem GoodU.delField {p : Dict × Dict} (h1 : GoodU p.1) (h2 : GoodU p.2) (v : EVal)
    (key : Bytes) (b : Bool) : GoodU (delField v key b p).1 ∧ GoodU (delField v key b p).2 := by
  rw [delField_fst, delField_snd]
  constructor
  · split
    · exact h1.del key
    · exact h1
  · split
    · exact h2.del key
    · exact h2

theorem filterEmpty_goodU (req : EditReq) (top info : Dict) (h1 : GoodU top) (h2 : GoodU info) :
    GoodU (filterEmpty req (top, info)).1 ∧ GoodU (filterEmpty req (top, info)).2 := by
  unfold filterEmpty
  have a := GoodU.delField (p := (top, info)) h1 h2 req.urlList K.urlList false
  have b := GoodU.delField a.1 a.2 req.httpseeds K.httpseeds false
  have c := GoodU.delField b.1 b.2 req.announce K.announce false
  have d := GoodU.delField c.1 c.2 req.source K.source true
  have e := GoodU.delField d.1 d.2 req.priv K.priv true
  exact GoodU.delField e.1 e.2 req.comment K.comment true

theorem uniq_strs (l : List Bytes) : uniq (strs l) = true := canon_uniq _ (canon_strs l)

theorem uniq_val (e : EVal) (v : BVal) (h : e.val = some v) : uniq v = true :=
  canon_uniq v (canon_val e v h)
theorem uniq_one (e : EVal) (v : BVal) (h : e.one = some v) : uniq v = true :=
  canon_uniq v (canon_one e v h)
theorem uniq_seeds (e : EVal) (v : BVal) (h : e.seeds = some v) : uniq v = true :=
  canon_uniq v (canon_seeds e v h)

theorem editInfo1_goodU (req : EditReq) (i : Dict) (h : GoodU i) : GoodU (editInfo1 req i) := by
  unfold editInfo1
  exact ((h.putOpt _ _ (uniq_val _)).putOpt _ _ (uniq_val _)).putOpt _ _ (uniq_one _)

theorem editTop1_goodU (tr : Option (Bytes × List Bytes)) (t : Dict) (h : GoodU t) :
    GoodU (editTop1 tr t) := by
  unfold editTop1
  cases tr with
  | none => exact h
  | some al =>
    exact (h.set _ _ rfl).set _ _ (canon_uniq _ (canon_list1 _ (canon_strs _)))

theorem editTop2_goodU (req : EditReq) (t : Dict) (h : GoodU t) : GoodU (editTop2 req t) := by
  unfold editTop2
  exact (h.putOpt _ _ (uniq_seeds _)).putOpt _ _ (uniq_seeds _)

theorem editInfo2_goodU (ks : List Bytes) (i : Dict) (h : GoodU i) : GoodU (editInfo2 ks i) := by
  unfold editInfo2
  split
  · exact h.sort
  · exact h

/-- `edit_torrent` on a value with unique keys yields a value with unique keys -/
theorem edit_uniq (mf mf' : BVal) (req : EditReq) (hu : UniqueKeys mf = true)
    (h : editTorrent mf req = .ok mf') : UniqueKeys mf' = true := by
  obtain ⟨top, info, tr, rfl, hi, _, rfl⟩ := edit_ok mf mf' req h
  have gt : GoodU top := GoodU.of_uniq hu
  have gi : GoodU info := GoodU.of_uniq (gt.vals _ (dictGet_mem top K.info _ hi))
  obtain ⟨g1, g2⟩ := filterEmpty_goodU req top info gt gi
  have gt2 := editTop2_goodU req _ (editTop1_goodU tr _ g1)
  have gi2 := editInfo2_goodU (keys info) _ (editInfo1_goodU req _ g2)
  exact ((gt2.set K.info _ gi2.toUniq).sort).toUniq

/-- An edit never changes what recheck reports: for every byte string `b` that pyben decodes
    and every edit request that `edit_torrent` accepts, the whole `Checker` gives on the
    rewritten file exactly what it gives on `b` — verdicts, counters or error alike. -/
theorem recheck_edit_eq (H1 H : Bytes → Bytes) (B hs : Nat) (b : Bytes) (mf mf' : BVal)
    (hb : loads b = some mf) (req : EditReq) (he : editTorrent mf req = .ok mf')
    (arg : ContentArg) (disk : Disk) :
    Impl.recheck H1 H B hs (encode mf') arg disk = Impl.recheck H1 H B hs b arg disk := by
  have hu := loads_uniq b mf hb
  have hu' := edit_uniq mf mf' req hu he
  have hload' := loads_encode_uniq mf' hu'
  obtain ⟨top, info, tr, hmf, hi, _, hmf'⟩ := edit_ok mf mf' req he
  have hinfo : ∀ k, k ≠ K.comment → k ≠ K.source → k ≠ K.priv → mf'.infoGet? k = mf.infoGet? k := by
    intro k h1 h2 h3
    rw [edit_info_get mf mf' req he top hmf k, infoWriteG_keep_other req top k h1 h2 h3]; rfl
  have hpl : mf'.get? K.pieceLayers = mf.get? K.pieceLayers := by
    rw [edit_top_get mf mf' req he K.pieceLayers (by decide)]; rfl
  subst hmf
  subst hmf'
  have hi' : dictGet (sortDict (dictSet (editTop2 req (editTop1 tr (filterEmpty req (top, info)).1))
      K.info (.dict (editInfo2 (keys info) (editInfo1 req (filterEmpty req (top, info)).2)))))
      K.info = some (.dict (editInfo2 (keys info) (editInfo1 req (filterEmpty req (top, info)).2))) := by
    rw [dictGet_sortDict', dictGet_dictSet_same]
  have hsame : SameForChecker info
      (editInfo2 (keys info) (editInfo1 req (filterEmpty req (top, info)).2)) := by
    intro k hk
    have hne : k ≠ K.comment ∧ k ≠ K.source ∧ k ≠ K.priv := by
      simp only [checkerKeys, List.mem_cons, List.not_mem_nil, or_false] at hk
      rcases hk with e | e | e | e | e | e | e <;> subst e <;> decide
    have := hinfo k hne.1 hne.2.1 hne.2.2
    simpa [BVal.infoGet?, BVal.get?, hi, hi'] using this
  have hname : nameOf (.dict (sortDict (dictSet (editTop2 req (editTop1 tr
      (filterEmpty req (top, info)).1)) K.info
      (.dict (editInfo2 (keys info) (editInfo1 req (filterEmpty req (top, info)).2))))))
      = nameOf (.dict top) := by
    have := hinfo K.name (by decide) (by decide) (by decide)
    unfold BVal.infoGet? at this
    unfold nameOf
    rw [this]
  simp only [Impl.recheck, hload', hb, hname]
  exact recheckMeta_same H1 H B hs top _ info _ hi hi' hsame (by simpa [BVal.get?] using hpl) _ _

end E2E
end TorrentVerif

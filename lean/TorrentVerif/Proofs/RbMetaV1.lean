import TorrentVerif.Proofs.RbMetaE2E
import TorrentVerif.Proofs.RbV1Local
/-
  End to end, v1 (plain and piece-aligned): created metafile → `rebuildFromBytes` → recheck of the
  rebuilt destination (helper lemmas of `Props/C13.rebuild_of_created_v1`).
-/
namespace TorrentVerif
open Rebuild PosixPath Spec Impl Listing

namespace RbMeta
open E2E RF

/-! ### the digests of `info["pieces"]` -/

theorem pieceDigests_flatten (l : List Bytes) (h : ∀ x ∈ l, x.length = 20) :
    pieceDigests l.flatten = l := by
  have hc : chunks 20 l.flatten = l := by
    rw [chunks_flatten_aligned 20 (by decide) l (fun s hs => ⟨1, by simp [h s hs]⟩)]
    have : l.map (chunks 20) = l.map (fun x => [x]) := by
      apply List.map_congr_left
      intro x hx
      exact chunks_exact 20 (by decide) x (h x hx)
    rw [this]
    have hsing : ∀ l' : List Bytes, (l'.map (fun x => [x])).flatten = l' := by
      intro l'
      induction l' with
      | nil => rfl
      | cons a t ih => simp [ih]
    exact hsing l
  have hlen : l.flatten.length = 20 * l.length := by
    clear hc
    induction l with
    | nil => rfl
    | cons a t ih =>
      have := ih (fun x hx => h x (List.mem_cons_of_mem _ hx))
      simp only [List.flatten_cons, List.length_append, List.length_cons, this, h a List.mem_cons_self]
      omega
  unfold pieceDigests
  rw [hc, hlen, Nat.mul_div_cancel_left _ (by decide : 0 < 20), List.take_length]

/-! ### the counted files are counted once -/

theorem markCopied_nodup (dest : Path) (paths : List PathNode) :
    ∀ copied, (markCopied dest copied paths).2.Nodup ∧
      ∀ f ∈ (markCopied dest copied paths).2, f ∉ copied ∧ f ∈ (markCopied dest copied paths).1 := by
  induction paths with
  | nil => intro copied; simp [markCopied]
  | cons pn ps ih =>
    intro copied
    simp only [markCopied]
    cases hpad : pn.file.pad with
    | true => simp only [if_true]; exact ih copied
    | false =>
      simp only [Bool.false_eq_true, if_false]
      split
      · exact ih copied
      · rename_i hin
        obtain ⟨h1, h2⟩ := ih (copied ++ [pn.file.full])
        simp only
        constructor
        · rw [List.nodup_append]
          refine ⟨by split <;> simp, h1, ?_⟩
          intro a ha b hb e
          subst e
          have : a = pn.file.full := by
            split at ha
            · simpa using ha
            · simp at ha
          subst this
          exact (h2 _ hb).1 (by simp)
        · intro f hf
          rcases List.mem_append.mp hf with hf | hf
          · have : f = pn.file.full := by
              split at hf
              · simpa using hf
              · simp at hf
            subst this
            refine ⟨hin, ?_⟩
            exact (markCopied_fst dest ps _ _).mpr (Or.inl (by simp))
          · obtain ⟨h3, h4⟩ := h2 f hf
            exact ⟨fun hc => h3 (List.mem_append_left _ hc), h4⟩

theorem markCopied_mono (dest : Path) (paths : List PathNode) (copied : List Bytes) :
    ∀ f ∈ copied, f ∈ (markCopied dest copied paths).1 :=
  fun f hf => (markCopied_fst dest paths copied f).mpr (Or.inl hf)

theorem matchV1Loop_nodup (H1 : Bytes → Bytes) (ds : Nat) (filemap : FileMap) (dest : Path)
    (pns : List (Bytes × List PathNode)) :
    ∀ fs copied, (matchV1Loop H1 ds filemap dest fs copied pns).2.Nodup ∧
      ∀ f ∈ (matchV1Loop H1 ds filemap dest fs copied pns).2, f ∉ copied := by
  induction pns with
  | nil => intro fs copied; simp [matchV1Loop]
  | cons pp rest ih =>
    intro fs copied
    obtain ⟨piece, paths⟩ := pp
    simp only [matchV1Loop]
    split
    · exact ih fs copied
    · cases hf : findMatches H1 fs filemap dest piece paths [] with
      | none => exact ih fs copied
      | some calls =>
        simp only
        obtain ⟨h1, h2⟩ := markCopied_nodup dest paths copied
        obtain ⟨h3, h4⟩ := ih (applyOps fs (runCalls ds fs calls)) (markCopied dest copied paths).1
        constructor
        · rw [List.nodup_append]
          refine ⟨h1, h3, ?_⟩
          intro a ha b hb e
          subst e
          exact h4 a hb (h2 a ha).2
        · intro f hf'
          rcases List.mem_append.mp hf' with hf' | hf'
          · exact (h2 f hf').1
          · exact fun hc => h4 f hf' (markCopied_mono dest paths copied f hc)

/-! ### records and original contents of a v1 metafile, entry by entry -/

/-- the records paired with the contents they stand for -/
def v1Pairs (name : Bytes) (align : Bool) (pl : Nat) : List (List Bytes × Bytes) → List (Rebuild.FileRec × Bytes)
  | [] => []
  | (p, d) :: t =>
    (fileRecOf name p d.length none, d) ::
      ((if align && gap pl d.length ≠ 0 then [(padRecOf name (gap pl d.length), zeros (gap pl d.length))]
        else []) ++ v1Pairs name align pl t)

theorem v1RecsOf_pairs (name : Bytes) (align : Bool) (pl : Nat) (l : List (List Bytes × Bytes)) :
    v1RecsOf name align pl (l.map fun x => (x.1, x.2.length)) = (v1Pairs name align pl l).map (·.1) := by
  induction l with
  | nil => rfl
  | cons x t ih =>
    obtain ⟨p, d⟩ := x
    simp only [List.map_cons, v1RecsOf, v1Pairs, ih, List.map_append]
    split <;> simp

theorem v1OrigsOf_pairs (name : Bytes) (align : Bool) (pl : Nat) (l : List (List Bytes × Bytes)) :
    v1OrigsOf align pl (l.map (·.2)) = (v1Pairs name align pl l).map (·.2) := by
  induction l with
  | nil => rfl
  | cons x t ih =>
    obtain ⟨p, d⟩ := x
    simp only [List.map_cons, v1OrigsOf, v1Pairs, ih, List.map_append]
    split <;> simp

/-- every pair is a file of the listing with its bytes, or a padding record with zeros -/
theorem v1Pairs_mem (name : Bytes) (align : Bool) (pl : Nat) (l : List (List Bytes × Bytes)) :
    ∀ q ∈ v1Pairs name align pl l,
      (∃ x ∈ l, q = (fileRecOf name x.1 x.2.length none, x.2)) ∨
      (∃ n, q = (padRecOf name n, zeros n)) := by
  induction l with
  | nil => intro q hq; simp [v1Pairs] at hq
  | cons x t ih =>
    obtain ⟨p, d⟩ := x
    intro q hq
    simp only [v1Pairs, List.mem_cons, List.mem_append] at hq
    rcases hq with rfl | hq | hq
    · exact Or.inl ⟨(p, d), by simp, rfl⟩
    · split at hq
      · simp only [List.mem_singleton] at hq; exact Or.inr ⟨_, hq⟩
      · simp at hq
    · rcases ih q hq with ⟨y, hy, e⟩ | h
      · exact Or.inl ⟨y, List.mem_cons_of_mem _ hy, e⟩
      · exact Or.inr h

theorem v1Pairs_has (name : Bytes) (align : Bool) (pl : Nat) (l : List (List Bytes × Bytes)) :
    ∀ x ∈ l, (fileRecOf name x.1 x.2.length none, x.2) ∈ v1Pairs name align pl l := by
  induction l with
  | nil => intro x hx; simp at hx
  | cons y t ih =>
    obtain ⟨p, d⟩ := y
    intro x hx
    simp only [v1Pairs, List.mem_cons, List.mem_append]
    rcases List.mem_cons.mp hx with rfl | hx
    · exact Or.inl rfl
    · exact Or.inr (Or.inr (ih x hx))

theorem v1Pairs_filter (name : Bytes) (align : Bool) (pl : Nat) (l : List (List Bytes × Bytes)) :
    ((v1Pairs name align pl l).map (·.1)).filter (fun r => !r.pad)
      = l.map (fun x => fileRecOf name x.1 x.2.length none) := by
  induction l with
  | nil => rfl
  | cons x t ih =>
    obtain ⟨p, d⟩ := x
    have h0 : (!(fileRecOf name p d.length none).pad) = true := rfl
    simp only [v1Pairs, List.map_cons, List.map_append, List.filter_cons, List.filter_append, ih, h0,
      if_true]
    have hp : ∀ n, (!(padRecOf name n).pad) = false := fun n => rfl
    split
    · simp only [List.map_cons, List.map_nil, List.filter_cons, hp, Bool.false_eq_true, if_false,
        List.filter_nil, List.nil_append]
    · simp

theorem v1Pairs_lens (name : Bytes) (align : Bool) (pl : Nat) (l : List (List Bytes × Bytes)) :
    ((v1Pairs name align pl l).map (·.1)).map (·.length)
      = ((v1Pairs name align pl l).map (·.2)).map List.length := by
  induction l with
  | nil => rfl
  | cons x t ih =>
    obtain ⟨p, d⟩ := x
    simp only [v1Pairs, List.map_cons, List.map_append, ih]
    split <;> simp [fileRecOf, padRecOf, zeros]

theorem v1Pairs_flatten (name : Bytes) (align : Bool) (pl : Nat) (l : List (List Bytes × Bytes)) :
    ((v1Pairs name align pl l).map (·.2)).flatten = v1Stream align pl (l.map (·.2)) := by
  induction l with
  | nil => cases align <;> simp [v1Pairs, v1Stream, Spec.alignedStream]
  | cons x t ih =>
    obtain ⟨p, d⟩ := x
    simp only [v1Pairs, List.map_cons, List.map_append, List.flatten_cons, List.flatten_append, ih,
      v1Stream_cons]
    cases align with
    | false => simp
    | true =>
      by_cases hg : gap pl d.length = 0
      · simp [hg, zeros]
      · simp [hg]

/-- index-wise: a record and the contents at the same position form a pair -/
theorem pairs_index {α β : Type} (l : List (α × β)) (i : Nat) (a : α) (h : (l.map (·.1))[i]? = some a) :
    ∃ b, l[i]? = some (a, b) ∧ (l.map (·.2))[i]? = some b := by
  simp only [List.getElem?_map] at h ⊢
  cases hl : l[i]? with
  | none => rw [hl] at h; simp at h
  | some q =>
    rw [hl] at h
    simp only [Option.map_some, Option.some.injEq] at h
    exact ⟨q.2, by rw [← h], rfl⟩


/-! ### the listing of a v1 creator -/

/-- every listed file is a file of the tree at the listed relative path; every file of the tree
    is listed; no path is listed twice -/
theorem v1Listing_facts (pre : Bytes) (t : Node) (hwn : WellNamed t) (hplain : PlainNamed t) :
    (∀ x ∈ v1Listing pre t, fileAt t x.1 = some x.2) ∧
    (∀ cs d, fileAt t cs = some d → (cs, d) ∈ v1Listing pre t) ∧
    ((v1Listing pre t).map (·.1)).Nodup := by
  cases t with
  | file d0 =>
    refine ⟨?_, ?_, by simp [v1Listing]⟩
    · intro x hx; simp only [v1Listing, List.mem_singleton] at hx; subst hx; rfl
    · intro cs d h
      cases cs with
      | nil => simp only [fileAt, Option.some.injEq] at h; subst h; simp [v1Listing]
      | cons c q => simp [fileAt] at h
  | dir es =>
    have hmem : ∀ x ∈ sortedFiles pre (.dir es), ∃ cs, x.1 = cs.foldl Listing.join pre ∧
        relPath pre x.1 = cs ∧ fileAt (.dir es) cs = some x.2 := by
      intro x hx
      have hx' : x ∈ allFiles pre (.dir es) := (List.mergeSort_perm _ _).subset hx
      obtain ⟨cs, e, hf⟩ := allFiles_comps pre (.dir es) hwn x hx'
      have hne := fileAt_dir_ne_nil es cs x.2 hf
      have hp := fileAt_plain cs (.dir es) x.2 hplain hf
      refine ⟨cs, e, ?_, hf⟩
      rw [e]
      exact relPath_foldl pre cs hne (fun c hc => (plainName_parts c (hp c hc)).2.2.2)
    refine ⟨?_, ?_, ?_⟩
    · intro x hx
      simp only [v1Listing] at hx
      obtain ⟨y, hy, rfl⟩ := List.mem_map.mp hx
      obtain ⟨cs, _, e, hf⟩ := hmem y hy
      simp only [e]; exact hf
    · intro cs d h
      have hm := mem_allFiles_of_fileAt pre (.dir es) cs d h
      have hs : (cs.foldl Listing.join pre, d) ∈ sortedFiles pre (.dir es) :=
        (List.mergeSort_perm _ _).symm.subset hm
      simp only [v1Listing]
      refine List.mem_map.mpr ⟨_, hs, ?_⟩
      have hne := fileAt_dir_ne_nil es cs d h
      have hp := fileAt_plain cs (.dir es) d hplain h
      simp only [relPath_foldl pre cs hne (fun c hc => (plainName_parts c (hp c hc)).2.2.2)]
    · simp only [v1Listing, List.map_map]
      have hnd : ((sortedFiles pre (.dir es)).map (·.1)).Nodup :=
        ((List.mergeSort_perm (allFiles pre (.dir es)) Listing.lePath).map
          (fun x : Bytes × Bytes => x.1)).nodup_iff.mpr (allFiles_paths_nodup pre (.dir es) hwn)
      apply List.pairwise_map.mpr
      apply (List.pairwise_map.mp hnd).imp_of_mem
      intro a b ha hb hab e
      simp only [Function.comp] at e
      obtain ⟨csa, ea, ra, _⟩ := hmem a ha
      obtain ⟨csb, eb, rb, _⟩ := hmem b hb
      apply hab
      rw [ea, eb, ← ra, ← rb, e]

/-! ### created v1 metafile → rebuild -/

/-- v1 (plain / aligned): the records `v1RecsOf` of a listing of the files of `t`, the piece
    string of their stream: every file of the tree is restored, all are counted once -/
theorem rebuild_v1_core (name : Bytes) (hname : Spec.plainName name = true) (align : Bool) (pl : Nat)
    (hpl : 0 < pl) (H1 H : Bytes → Bytes) (hH1 : ∀ x, (H1 x).length = 20) (B hs : Nat)
    (t : Node) (hplain : PlainNamed t) (L : List (List Bytes × Bytes))
    (hL1 : ∀ x ∈ L, fileAt t x.1 = some x.2) (hL2 : ∀ cs d, fileAt t cs = some d → (cs, d) ∈ L)
    (hL3 : (L.map (·.1)).Nodup)
    (r : BVal) (b : Bytes) (hload : loads b = some r) (fn : List Bytes)
    (hex : extractMeta r = .ok ⟨name, pl, some 1,
      ((chunks pl (v1OrigsOf align pl (L.map (·.2))).flatten).map H1).flatten,
      v1RecsOf name align pl (L.map fun x => (x.1, x.2.length)), fn⟩)
    (hbytes : (v1OrigsOf align pl (L.map (·.2))).flatten ≠ [])
    (ds : Nat) (fs : FS) (filemap : FileMap) (dest : Path) (hd : CleanPath dest)
    (hr : DestReady fs dest) (hok : FilemapOK fs dest filemap)
    (hfresh : ∀ cs, fs (dest ++ name :: cs) = none)
    (hint : ∀ cs d, fileAt t cs = some d → ∃ cands p, filemap.lookup (fileNameOf name cs) = some cands ∧
      (p, d.length) ∈ cands ∧ fs.readFile? p = some d)
    (hF : NoFirstPieceDecoy fs filemap (v1PieceNodes pl
      ((chunks pl (v1OrigsOf align pl (L.map (·.2))).flatten).map H1)
      (v1RecsOf name align pl (L.map fun x => (x.1, x.2.length)))) (v1OrigsOf align pl (L.map (·.2))))
    (hnc : NoPieceCollision H1 fs filemap (v1PieceNodes pl
      ((chunks pl (v1OrigsOf align pl (L.map (·.2))).flatten).map H1)
      (v1RecsOf name align pl (L.map fun x => (x.1, x.2.length))))) :
    ∃ ops, rebuildFromBytes H1 H B hs ds fs filemap dest b = .ok (ops, L.length) ∧
      (∀ cs d, fileAt t cs = some d → applyOps fs ops (dest ++ name :: cs) = some (.file d)) ∧
      (WellNamed t → ViewOf (applyOps fs ops) (dest ++ [name]) (pruneNode t)) := by
  let P := v1Pairs name align pl L
  have hrecs : v1RecsOf name align pl (L.map fun x => (x.1, x.2.length)) = P.map (·.1) :=
    v1RecsOf_pairs name align pl L
  have horigs : v1OrigsOf align pl (L.map (·.2)) = P.map (·.2) := v1OrigsOf_pairs name align pl L
  rw [hrecs, horigs] at hF hnc hex
  rw [horigs] at hbytes
  -- a record that is not a padding record is the record of a listed file
  have hrecmem : ∀ r' ∈ P.map (·.1), r'.pad = false →
      ∃ x ∈ L, r' = fileRecOf name x.1 x.2.length none := by
    intro r' hr' hp
    obtain ⟨q, hq, rfl⟩ := List.mem_map.mp hr'
    rcases v1Pairs_mem name align pl L q hq with ⟨x, hx, rfl⟩ | ⟨n, rfl⟩
    · exact ⟨x, hx, rfl⟩
    · simp [padRecOf] at hp
  have hjoin : ∀ r' ∈ P.map (·.1), r'.pad = false →
      safeJoin dest r'.full = some (dest ++ splitSep r'.full) := by
    intro r' hr' hp
    obtain ⟨x, hx, rfl⟩ := hrecmem r' hr' hp
    obtain ⟨h1, h2⟩ := rec_facts dest hd name hname t hplain x.1 x.2 (hL1 x hx) x.2.length none
    rw [h2]; exact h1
  have hkey : ∀ x ∈ L, splitSep (fileRecOf name x.1 x.2.length none).full = name :: x.1 :=
    fun x hx => (rec_facts dest hd name hname t hplain x.1 x.2 (hL1 x hx) x.2.length none).2
  have hsep : DestsSeparate dest (P.map (·.1)) := by
    apply destsSeparate_of dest _ (fun r' => splitSep r'.full) hjoin
    · rw [v1Pairs_filter]
      have : (L.map (fun x => fileRecOf name x.1 x.2.length none)).map (fun r' => splitSep r'.full)
          = (L.map (·.1)).map (name :: ·) := by
        simp only [List.map_map]
        apply List.map_congr_left
        intro x hx
        exact hkey x hx
      rw [this]
      exact nodup_map_cons _ _ hL3
    · intro r1 hr1 r2 hr2 hp1 hp2 hpre
      obtain ⟨x, hx, rfl⟩ := hrecmem r1 hr1 hp1
      obtain ⟨y, hy, rfl⟩ := hrecmem r2 hr2 hp2
      simp only [hkey x hx, hkey y hy] at hpre ⊢
      obtain ⟨_, hp⟩ := List.cons_prefix_cons.mp hpre
      obtain ⟨q, hq⟩ := hp
      have := fileAt_prefix y.1 q t y.2 x.2 (hL1 y hy) (by rw [hq]; exact hL1 x hx)
      subst this
      simp at hq
      rw [hq]
  have hfreshF : DestFresh fs dest (P.map (·.1)) := by
    intro r' hr' hp d hsj
    rw [hjoin r' hr' hp] at hsj
    injection hsj with hsj
    obtain ⟨x, hx, rfl⟩ := hrecmem r' hr' hp
    rw [← hsj, hkey x hx]
    exact hfresh x.1
  have hlens : (P.map (·.1)).map (·.length) = (P.map (·.2)).map List.length :=
    v1Pairs_lens name align pl L
  have hintact : IntactV1 fs filemap (P.map (·.1)) (P.map (·.2)) := by
    intro i r' hfi hp
    obtain ⟨o', hpi, hoi⟩ := pairs_index P i r' hfi
    rcases v1Pairs_mem name align pl L _ (List.mem_of_getElem? hpi) with ⟨x, hx, e⟩ | ⟨n, e⟩
    · simp only [Prod.mk.injEq] at e
      obtain ⟨rfl, rfl⟩ := e
      obtain ⟨cands, p, hl, hm, hread⟩ := hint x.1 x.2 (hL1 x hx)
      exact ⟨cands, p, x.2, hl, hm, hread, hoi⟩
    · simp only [Prod.mk.injEq] at e
      rw [e.1] at hp; simp [padRecOf] at hp
  have hpads : PadsAreZeros (P.map (·.1)) (P.map (·.2)) := by
    intro i r' hfi hp
    obtain ⟨o', hpi, hoi⟩ := pairs_index P i r' hfi
    rcases v1Pairs_mem name align pl L _ (List.mem_of_getElem? hpi) with ⟨x, hx, e⟩ | ⟨n, e⟩
    · simp only [Prod.mk.injEq] at e
      rw [e.1] at hp; simp [fileRecOf] at hp
    · simp only [Prod.mk.injEq] at e
      rw [hoi, e.2, e.1]; rfl
  let pieces := (chunks pl (P.map (·.2)).flatten).map H1
  obtain ⟨hfin, hcopies⟩ := matchV1_restores_local H1 ds fs filemap dest pl hpl (P.map (·.1)) (P.map (·.2))
    hd hr hok hlens hbytes hintact hpads hsep hfreshF hF hnc
  have hcomplete := matchV1_complete H1 ds fs filemap dest pl hpl (P.map (·.1)) (P.map (·.2)) hd hr hok
    hlens hbytes hintact hpads
  have hcounted := matchV1_counted H1 ds fs filemap dest pl pieces (P.map (·.1))
  have hnodup := (matchV1Loop_nodup H1 ds filemap dest (v1PieceNodes pl pieces (P.map (·.1))) fs []).1
  -- the counted files are the files of the listing, each once
  have hperm : (matchV1 H1 ds fs filemap dest pl pieces (P.map (·.1))).2.Perm
      (L.map (fun x => (fileRecOf name x.1 x.2.length none).full)) := by
    apply (List.perm_ext_iff_of_nodup hnodup ?_).mpr
    · intro f
      constructor
      · intro hf
        obtain ⟨r', hr', hfr, _, hp⟩ := hcounted f hf
        obtain ⟨x, hx, rfl⟩ := hrecmem r' hr' hp
        exact List.mem_map.mpr ⟨x, hx, hfr.symm⟩
      · intro hf
        obtain ⟨x, hx, rfl⟩ := List.mem_map.mp hf
        have hm : fileRecOf name x.1 x.2.length none ∈ P.map (·.1) :=
          List.mem_map.mpr ⟨_, v1Pairs_has name align pl L x hx, rfl⟩
        exact hcomplete _ hm rfl (by rw [hjoin _ hm rfl]; rfl)
    · apply List.pairwise_map.mpr
      apply (List.pairwise_map.mp hL3).imp_of_mem
      intro a c ha hc hac e
      apply hac
      have := congrArg splitSep e
      rw [hkey a ha, hkey c hc] at this
      exact (List.cons.inj this).2
  have hdig : pieceDigests (((chunks pl (P.map (·.2)).flatten).map H1).flatten) = pieces :=
    pieceDigests_flatten _ (by
      intro x hx
      obtain ⟨c, _, rfl⟩ := List.mem_map.mp hx
      exact hH1 c)
  have hpresent : ∀ cs d, fileAt t cs = some d →
      applyOps fs (matchV1 H1 ds fs filemap dest pl pieces (P.map (·.1))).1 (dest ++ name :: cs)
        = some (.file d) := by
    intro cs d hfa
    have hmem := hL2 cs d hfa
    have hpm := v1Pairs_has name align pl L (cs, d) hmem
    obtain ⟨i, hi⟩ := List.mem_iff_getElem?.mp hpm
    have hi' : P[i]? = some (fileRecOf name cs d.length none, d) := hi
    have hfi : (P.map (·.1))[i]? = some (fileRecOf name cs d.length none) := by
      simp [List.getElem?_map, hi']
    have hoi : (P.map (·.2))[i]? = some d := by simp [List.getElem?_map, hi']
    have hm : fileRecOf name cs d.length none ∈ P.map (·.1) := List.mem_of_getElem? hfi
    obtain ⟨o', ho', hfin'⟩ := hfin i _ _ hfi rfl (hjoin _ hm rfl)
    rw [hoi] at ho'; injection ho' with ho'; subst ho'
    rw [hkey (cs, d) hmem] at hfin'
    exact hfin'
  refine ⟨(matchV1 H1 ds fs filemap dest pl pieces (P.map (·.1))).1, ?_, hpresent, ?_⟩
  · simp only [rebuildFromBytes, hload, hex, bind, Except.bind, rebuildMeta, hdig, Int.toNat_natCast]
    have : (some (1 : Int) = some 2) = False := by simp
    simp only [this, if_false]
    rw [hperm.length_eq, List.length_map]
  · intro hwn
    have hexf : ∃ cs d, fileAt t cs = some d := by
      cases hL : L with
      | nil =>
        exfalso
        apply hbytes
        have : P = [] := by simp [P, hL, v1Pairs]
        rw [this]; rfl
      | cons x rest => exact ⟨x.1, x.2, hL1 x (by rw [hL]; simp)⟩
    apply view_of_run ds (GoodV1 H1 filemap dest (v1PieceNodes pl pieces (P.map (·.1)))) t hwn hexf dest
      name fs _ (matchV1_run H1 ds fs filemap dest pl pieces (P.map (·.1))) hr
    · intro fs' s d hg
      obtain ⟨r', hr', hsj, cands, sz, hl, hm, _⟩ := hg.file
      obtain ⟨r'', hr'', hp'', hsj''⟩ := hg.nonpad
      -- the record of the accepted destination is a listed file
      obtain ⟨x, hx, rfl⟩ := hrecmem r'' hr'' hp''
      rw [hjoin _ hr'' hp'', hkey x hx] at hsj''
      injection hsj'' with hsj''
      exact ⟨x.1, x.2, hL1 x hx, hsj''.symm, (hok _ _ hl _ hm).1⟩
    · intro src dst hc cs dd hfa hdst
      obtain ⟨r', hr', i, o', hfi, hp', hsj, ho', hread⟩ := hcopies src dst hc
      obtain ⟨x, hx, rfl⟩ := hrecmem r' hr' hp'
      obtain ⟨o'', hpi, hoi⟩ := pairs_index P i _ hfi
      rw [hoi] at ho'; injection ho' with ho'
      have hq := v1Pairs_mem name align pl L _ (List.mem_of_getElem? hpi)
      rw [hjoin _ hr' hp', hkey x hx, hdst] at hsj
      injection hsj with hsj
      have hcs : x.1 = cs := (List.cons.inj (List.append_cancel_left hsj)).2
      -- the contents paired with this record are the file's bytes
      have ho2 : o'' = x.2 := by
        rcases hq with ⟨y, hy, e⟩ | ⟨n, e⟩
        · simp only [Prod.mk.injEq] at e
          have hk1 := congrArg (fun r => splitSep r.full) e.1
          simp only [hkey x hx, hkey y hy] at hk1
          have hxy : x.1 = y.1 := (List.cons.inj hk1).2
          have h1 := hL1 x hx
          have h2 := hL1 y hy
          rw [hxy, h2] at h1
          injection h1 with h1
          rw [e.2, h1]
        · simp only [Prod.mk.injEq] at e
          have := congrArg (·.pad) e.1
          simp [fileRecOf, padRecOf] at this
      have hx2 : x.2 = dd := by
        have h1 := hL1 x hx
        rw [hcs, hfa] at h1
        injection h1 with h1; exact h1.symm
      rw [hread, ← ho', ho2, hx2]
    · exact hfresh
    · exact hpresent

/-! ### what `TorrentFile` wrote, as `extract` reads it -/

/-- whether padding entries are written: `align` on a directory -/
def alignOf (align : Bool) (t : Node) : Bool := align && !isFile t

theorem v1Stream_origs (name : Bytes) (align : Bool) (pl : Nat) (L : List (List Bytes × Bytes)) :
    (v1OrigsOf align pl (L.map (·.2))).flatten = v1Stream align pl (L.map (·.2)) := by
  rw [v1OrigsOf_pairs name, v1Pairs_flatten]

/-- the v1 creator (plain or aligned, directory or single file): the bytes decode, and `extract`
    yields the records of the listing and the piece string of its stream -/
theorem extract_created_v1 (o : CreateOpts) (align : Bool) (H1 : Bytes → Bytes)
    (enum : List (List (Bytes × Bytes)) → List (List (Bytes × Bytes)))
    (henum : ∀ l, (enum l).Perm l) (pre : Bytes) (t : Node) (hwn : WellNamed t)
    (hplain : PlainNamed t) (hname : Spec.plainName o.name = true) (hpl : 0 < o.pieceLength)
    (r : BVal) (b : Bytes) (h : createV1 o align H1 enum pre t = some (r, b)) :
    loads b = some r ∧
    extractMeta r = .ok ⟨o.name, o.pieceLength, some 1,
      ((chunks o.pieceLength (v1OrigsOf (alignOf align t) o.pieceLength
        ((v1Listing pre t).map (·.2))).flatten).map H1).flatten,
      v1RecsOf o.name (alignOf align t) o.pieceLength ((v1Listing pre t).map fun x => (x.1, x.2.length)),
      nameSet (v1Filenames (v1RecsOf o.name (alignOf align t) o.pieceLength
        ((v1Listing pre t).map fun x => (x.1, x.2.length))))⟩ := by
  obtain ⟨content, l, hs', hb, hc, _⟩ := createV1_sortMeta o align H1 enum pre t r b h
  obtain ⟨r', hr', hcan⟩ := v1_canon o content ((l.map H1).flatten) hc
  rw [hs'] at hr'; cases hr'
  have hload : loads b = some r := by rw [hb]; exact loads_encode r hcan
  refine ⟨hload, ?_⟩
  obtain ⟨hL1, _, _⟩ := v1Listing_facts pre t hwn hplain
  cases t with
  | file d =>
    rw [createV1_file o align H1 enum pre d hpl] at h
    obtain ⟨hs2, _⟩ := written_some _ r b h
    have hk := v1_keys _ _ _ r hs2
    obtain ⟨info, hm, hget⟩ := V1Meta.of_keys hk
    have hlen : dictGet info K.length = some (.int d.length) := by rw [← hget]; exact hk.length
    have := extractMeta_v1_single o.name d.length r info o.pieceLength _ hm hlen
    rw [this]
    simp [alignOf, isFile, v1Listing, v1OrigsOf, v1RecsOf, v1Filenames, fileRecOf, nameSet, joinSep,
      List.eraseDups]
    rfl
  | dir es =>
    obtain ⟨_, _, hk⟩ := createV1_dir o align H1 enum henum pre es hwn hpl r b h
    obtain ⟨info, hm, hget⟩ := V1Meta.of_keys hk
    have hlen : dictGet info K.length = none := by rw [← hget]; exact hk.length
    have hfiles : dictGet info K.files = some (.list (v1Entries align o.pieceLength
        (v1Listed pre (sortedFiles pre (.dir es))))) := by rw [← hget]; exact hk.files
    have hlisted : v1Listed pre (sortedFiles pre (.dir es))
        = (v1Listing pre (.dir es)).map fun x => (x.1, x.2.length) := by
      simp [v1Listed, v1Listing, List.map_map, Function.comp_def]
    have hdatas : (sortedFiles pre (.dir es)).map (·.2) = (v1Listing pre (.dir es)).map (·.2) := by
      simp [v1Listing, List.map_map, Function.comp_def]
    rw [hlisted] at hfiles
    have hne : ∀ x ∈ (v1Listing pre (.dir es)).map (fun x => (x.1, x.2.length)), x.1 ≠ [] := by
      intro x hx
      obtain ⟨y, hy, rfl⟩ := List.mem_map.mp hx
      exact fileAt_dir_ne_nil es y.1 y.2 (hL1 y hy)
    have hpn : ∀ x ∈ (v1Listing pre (.dir es)).map (fun x => (x.1, x.2.length)),
        ∀ c ∈ x.1, Spec.plainName c = true := by
      intro x hx
      obtain ⟨y, hy, rfl⟩ := List.mem_map.mp hx
      exact fileAt_plain y.1 (.dir es) y.2 hplain (hL1 y hy)
    have := extractMeta_v1_multi o.name hname align _ hne hpn r info o.pieceLength _ hm hlen hfiles
    rw [this]
    have hal : alignOf align (.dir es) = align := by simp [alignOf, isFile]
    rw [hal, v1Stream_origs o.name, ← hdatas]
    rfl

/-! ### recheck of a destination that holds every file of the tree -/

/-- v1, directory: the whole `Checker` on the created metafile with a disk that holds every file of
    the tree (below a parent named differently from the torrent) -/
theorem recheck_v1_view_dir (o : CreateOpts) (align : Bool) (H1 H : Bytes → Bytes) (B hs : Nat)
    (hhs : 0 < hs) (hH1 : ∀ x, (H1 x).length = 20)
    (enum : List (List (Bytes × Bytes)) → List (List (Bytes × Bytes)))
    (henum : ∀ l, (enum l).Perm l) (pre : Bytes) (es : List (Bytes × Node))
    (hwn : WellNamed (.dir es)) (hplain : PlainNamed (.dir es)) (hpl : 0 < o.pieceLength)
    (r : BVal) (b : Bytes) (h : createV1 o align H1 enum pre (.dir es) = some (r, b))
    (disk : Node) (hdisk : ∀ cs d, fileAt (.dir es) cs = some d → fileAt disk cs = some d)
    (pname : Bytes) (hp : pname ≠ o.name) :
    ∃ vs, Impl.recheck H1 H B hs b ⟨.parent, pname⟩ disk
        = .ok (vs, (v1Stream align o.pieceLength ((sortedFiles pre (.dir es)).map (·.2))).length,
            (v1Stream align o.pieceLength ((sortedFiles pre (.dir es)).map (·.2))).length) ∧
      ∀ v ∈ vs, v.1 = true := by
  obtain ⟨_, hb, hk⟩ := createV1_dir o align H1 enum henum pre es hwn hpl r b h
  obtain ⟨content, l, hs', _, hc, _⟩ := createV1_sortMeta o align H1 enum pre (.dir es) r b h
  obtain ⟨r', hr', hcan⟩ := v1_canon o content ((l.map H1).flatten) hc
  rw [hs'] at hr'; cases hr'
  have hload : loads b = some r := by rw [hb]; exact loads_encode r hcan
  obtain ⟨hL1, _, _⟩ := v1Listing_facts pre (.dir es) hwn hplain
  let files : List (List Bytes × Bytes) := v1Listing pre (.dir es)
  have hfa : ∀ x ∈ files, fileAt disk x.1 = some x.2 := fun x hx => hdisk _ _ (hL1 x hx)
  have hne : ∀ x ∈ files, x.1 ≠ [] := fun x hx => fileAt_dir_ne_nil es x.1 x.2 (hL1 x hx)
  have hpn : ∀ x ∈ files, ∀ c ∈ x.1, Spec.plainName c = true :=
    fun x hx => fileAt_plain x.1 (.dir es) x.2 hplain (hL1 x hx)
  have hlisted : v1Listed pre (sortedFiles pre (.dir es)) = files.map fun x => (x.1, x.2.length) := by
    simp [v1Listed, files, v1Listing, List.map_map, Function.comp_def]
  have hdatas : files.map (·.2) = (sortedFiles pre (.dir es)).map (·.2) := by
    simp [files, v1Listing, List.map_map, Function.comp_def]
  obtain ⟨recs, tops, h1, h2, h3, h4, _, _⟩ := v1_list_core disk align o.pieceLength files hfa hne hpn
  rw [← hlisted] at h1
  rw [hdatas] at h3
  obtain ⟨info, hm, hget⟩ := V1Meta.of_keys hk
  have hlen : dictGet info K.length = none := by rw [← hget]; exact hk.length
  have hfiles : dictGet info K.files = some (.list (v1Entries align o.pieceLength
      (v1Listed pre (sortedFiles pre (.dir es))))) := by rw [← hget]; exact hk.files
  have hv2 : hasV2 info = false := by simp [hasV2, dictHas, hm.hmv]
  have hdesc : describedFiles r (isFile disk) = some recs := by
    unfold describedFiles
    simp only [hm.hinfo, hm.hname, hv2, Bool.false_eq_true, if_false, dictHas, hm.hft,
      Option.isSome_none, hlen, hfiles, h1]
  have hpieces : (chunks o.pieceLength (if align = true
        then Spec.alignedStream o.pieceLength ((sortedFiles pre (.dir es)).map (·.2))
        else ((sortedFiles pre (.dir es)).map (·.2)).flatten)).map H1
      = (chunks o.pieceLength (v1Stream align o.pieceLength
          ((sortedFiles pre (.dir es)).map (·.2)))).map H1 := rfl
  have := recheck_v1_general H1 H B hs hhs hH1 b r info o.name o.pieceLength _ hm hload hpl
    disk recs hdesc h2 (by rw [h3, hpieces]) h4 ⟨.parent, pname⟩ (Or.inl hp)
  rw [h3] at this
  exact this

/-! ### search directories without decoys -/

/-- "no decoys": every readable same-name same-size candidate of a file of the tree has exactly the
    file's bytes -/
def NoDecoys (name : Bytes) (t : Node) (fs : FS) (filemap : FileMap) : Prop :=
  ∀ cs d, fileAt t cs = some d → ∀ cands c d', filemap.lookup (fileNameOf name cs) = some cands →
    c ∈ cands → c.2 = d.length → fs.readFile? c.1 = some d' → d' = d

/-- without decoys two combinations of candidates carry the same data -/
theorem comboData_eq_of (fs : FS) (filemap : FileMap) (paths : List PathNode)
    (hall : ∀ pn ∈ paths, pn.file.pad = false → ∃ dd, ∀ cands c d',
      filemap.lookup pn.file.filename = some cands → c ∈ cands → c.2 = pn.file.length →
      fs.readFile? c.1 = some d' → d' = dd) :
    ∀ choice choice0, Combo fs filemap paths choice → Combo fs filemap paths choice0 →
      comboData paths choice = comboData paths choice0 := by
  induction paths with
  | nil => intro c c0 _ _; cases c <;> cases c0 <;> simp [comboData]
  | cons pn ps ih =>
    intro choice choice0 h h0
    cases choice with
    | nil => exact absurd h (by simp [Combo])
    | cons c cs =>
      cases choice0 with
      | nil => exact absurd h0 (by simp [Combo])
      | cons c0 cs0 =>
        obtain ⟨hh, hr⟩ := h
        obtain ⟨hh0, hr0⟩ := h0
        have ihh := ih (fun pn' hpn' => hall pn' (List.mem_cons_of_mem _ hpn')) cs cs0 hr hr0
        simp only [comboData, ihh]
        congr 1
        cases hpad : pn.file.pad with
        | true => simp [nodePart, hpad]
        | false =>
          obtain ⟨dd, hdd⟩ := hall pn List.mem_cons_self hpad
          obtain ⟨cands, sz, hl, hm, hsz, hread⟩ := hh hpad
          obtain ⟨cands0, sz0, hl0, hm0, hsz0, hread0⟩ := hh0 hpad
          have e1 := hdd cands (c.1, sz) c.2 hl hm hsz hread
          have e2 := hdd cands0 (c0.1, sz0) c0.2 hl0 hm0 hsz0 hread0
          rw [e1, e2]

/-- without decoys the two decoy / collision hypotheses of the v1 rebuild hold, whatever `H1` is -/
theorem v1_hyps_of_noDecoys (name : Bytes) (align : Bool) (pl : Nat) (H1 : Bytes → Bytes)
    (t : Node) (L : List (List Bytes × Bytes)) (hL1 : ∀ x ∈ L, fileAt t x.1 = some x.2)
    (fs : FS) (filemap : FileMap) (hnd : NoDecoys name t fs filemap) (pieces : List Bytes) :
    NoFirstPieceDecoy fs filemap (v1PieceNodes pl pieces
      (v1RecsOf name align pl (L.map fun x => (x.1, x.2.length)))) (v1OrigsOf align pl (L.map (·.2))) ∧
    NoPieceCollision H1 fs filemap (v1PieceNodes pl pieces
      (v1RecsOf name align pl (L.map fun x => (x.1, x.2.length)))) := by
  rw [v1RecsOf_pairs]
  -- a node that is not a padding node belongs to a listed file: all its candidates have its bytes
  have hnode : ∀ pp ∈ v1PieceNodes pl pieces ((v1Pairs name align pl L).map (·.1)), ∀ pn ∈ pp.2,
      pn.file.pad = false → ∃ dd, ∀ cands c d', filemap.lookup pn.file.filename = some cands →
        c ∈ cands → c.2 = pn.file.length → fs.readFile? c.1 = some d' → d' = dd := by
    intro pp hpp pn hpn hpad
    have hm := v1PieceNodes_file hpp hpn
    obtain ⟨q, hq, e⟩ := List.mem_map.mp hm
    rcases v1Pairs_mem name align pl L q hq with ⟨x, hx, rfl⟩ | ⟨n, rfl⟩
    · refine ⟨x.2, ?_⟩
      intro cands c d' hl hc hsz hread
      rw [← e] at hl hsz
      exact hnd x.1 x.2 (hL1 x hx) cands c d' hl hc hsz hread
    · rw [← e] at hpad; simp [padRecOf] at hpad
  constructor
  · intro pre pp post hsplit pn hpn hpad _ cands l1 c l2 o hl hcs hcsz hread _ x hx hxsz d hdread _
    have hpp : pp ∈ v1PieceNodes pl pieces ((v1Pairs name align pl L).map (·.1)) := by
      rw [hsplit]; simp
    obtain ⟨dd, hdd⟩ := hnode pp hpp pn hpn hpad
    have e1 := hdd cands c o hl (by rw [hcs]; simp) hcsz hread
    have e2 := hdd cands x d hl (by rw [hcs]; exact List.mem_append_left _ hx) hxsz hdread
    rw [e1, e2]
  · intro pp hpp choice choice0 hc hc0 _ _
    exact comboData_eq_of fs filemap pp.2 (fun pn hpn hpad => hnode pp hpp pn hpn hpad) choice choice0 hc hc0

/-! ### totals, and the recheck of a view, uniformly for directory and single file -/

/-- the stream a v1 metafile of `t` describes (padding included) -/
def v1Total (align : Bool) (pl : Nat) (pre : Bytes) (t : Node) : Nat :=
  (v1OrigsOf (alignOf align t) pl ((v1Listing pre t).map (·.2))).flatten.length

theorem v1Origs_stream (align : Bool) (pl : Nat) (pre : Bytes) (t : Node) :
    (v1OrigsOf (alignOf align t) pl ((v1Listing pre t).map (·.2))).flatten
      = match t with
        | .file d => d
        | .dir es => v1Stream align pl ((sortedFiles pre (.dir es)).map (·.2)) := by
  cases t with
  | file d => simp [alignOf, isFile, v1Listing, v1OrigsOf]
  | dir es =>
    have hal : alignOf align (.dir es) = align := by simp [alignOf, isFile]
    have hdatas : (v1Listing pre (.dir es)).map (·.2) = (sortedFiles pre (.dir es)).map (·.2) := by
      simp [v1Listing, List.map_map, Function.comp_def]
    rw [hal, v1Stream_origs [], hdatas]

theorem v1Total_facts (align : Bool) (pl : Nat) (pre : Bytes) (t : Node) :
    treeBytes t ≤ v1Total align pl pre t ∧
    (alignOf align t = false → v1Total align pl pre t = treeBytes t) := by
  unfold v1Total
  rw [v1Origs_stream]
  cases t with
  | file d => simp [treeBytes_file]
  | dir es =>
    refine ⟨v1Stream_length_ge align pl pre (.dir es), ?_⟩
    intro h
    have hal : align = false := by simpa [alignOf, isFile] using h
    rw [hal]
    exact v1Stream_length_plain pl pre (.dir es)

/-- v1, directory or single file: the whole `Checker` on the created metafile with a disk that
    holds every file of the tree (below a parent named differently from the torrent) -/
theorem recheck_v1_view (o : CreateOpts) (align : Bool) (H1 H : Bytes → Bytes) (B hs : Nat)
    (hhs : 0 < hs) (hH1 : ∀ x, (H1 x).length = 20)
    (enum : List (List (Bytes × Bytes)) → List (List (Bytes × Bytes)))
    (henum : ∀ l, (enum l).Perm l) (pre : Bytes) (t : Node)
    (hwn : WellNamed t) (hplain : PlainNamed t) (hpl : 0 < o.pieceLength)
    (r : BVal) (b : Bytes) (h : createV1 o align H1 enum pre t = some (r, b))
    (disk : Node) (hdisk : ∀ cs d, fileAt t cs = some d → fileAt disk cs = some d)
    (pname : Bytes) (hp : pname ≠ o.name) :
    ∃ vs, Impl.recheck H1 H B hs b ⟨.parent, pname⟩ disk
        = .ok (vs, v1Total align o.pieceLength pre t, v1Total align o.pieceLength pre t) ∧
      ∀ v ∈ vs, v.1 = true := by
  unfold v1Total
  rw [v1Origs_stream]
  cases t with
  | file d =>
    have hd : disk = .file d := by
      have := hdisk [] d rfl
      cases disk with
      | file d1 => simp only [fileAt, Option.some.injEq] at this; rw [this]
      | dir es => simp [fileAt] at this
    subst hd
    exact recheck_created_v1_file o align H1 H B hs hhs hH1 enum pre d hpl r b h _ (Or.inr ⟨rfl, hp⟩)
  | dir es =>
    exact recheck_v1_view_dir o align H1 H B hs hhs hH1 enum henum pre es hwn hplain hpl r b h disk
      hdisk pname hp

/-- the number of files, from either listing -/
theorem v1Listing_length (pre : Bytes) (t : Node) :
    (v1Listing pre t).length = (allFiles [] t).length := by
  cases t with
  | file d => simp [v1Listing, allFiles]
  | dir es =>
    simp only [v1Listing, List.length_map]
    have h1 := (List.mergeSort_perm (allFiles pre (.dir es)) Listing.lePath).length_eq
    have h2 : (allFiles pre (.dir es)).length = (allFiles [] (.dir es)).length := by
      have := congrArg List.length (allFiles_prepend pre [] (.dir es))
      simpa using this
    unfold sortedFiles
    rw [h1, h2]

end RbMeta
end TorrentVerif

import TorrentVerif.Model.PieceLength
/-
  Helper lemmas for C12: the bit test `n & (n-1) == 0`, the `get_piece_length` loop,
  left-to-right digit accumulation.
-/
namespace TorrentVerif

/-- `2^k &&& (2^k - 1) = 0`. -/
theorem pow2_and_pred (k : Nat) : 2 ^ k &&& (2 ^ k - 1) = 0 := by
  rw [Nat.and_two_pow_sub_one_eq_mod]; exact Nat.mod_self _

/-- If `n &&& (n-1) = 0` and `n > 0` then `n` is a power of two (strong induction on `n`,
    peeling the lowest bit). -/
theorem pow2_of_and_pred : ∀ n : Nat, 0 < n → n &&& (n - 1) = 0 → ∃ k, n = 2 ^ k := by
  intro n
  induction n using Nat.strongRecOn with
  | _ n ih =>
    intro hpos h
    have hdiv : n / 2 &&& (n - 1) / 2 = 0 := by
      rw [← Nat.and_div_two, h]
    rcases Nat.mod_two_eq_zero_or_one n with he | ho
    · -- n even: n = 2m, (n-1)/2 = m-1
      have hm : 0 < n / 2 := by omega
      have h1 : (n - 1) / 2 = n / 2 - 1 := by omega
      rw [h1] at hdiv
      obtain ⟨k, hk⟩ := ih (n / 2) (by omega) hm hdiv
      exact ⟨k + 1, by rw [Nat.pow_succ]; omega⟩
    · -- n odd: (n-1)/2 = n/2, so n/2 = 0
      have h1 : (n - 1) / 2 = n / 2 := by omega
      rw [h1, Nat.and_self] at hdiv
      exact ⟨0, by simp; omega⟩

/-- The integer bit test of the repaired `normalize_piece_length`, for all `n`. -/
theorem and_pred_eq_zero_iff (n : Nat) : n &&& (n - 1) = 0 ↔ n = 0 ∨ ∃ k, n = 2 ^ k := by
  constructor
  · intro h
    rcases Nat.eq_zero_or_pos n with h0 | hp
    · exact Or.inl h0
    · exact Or.inr (pow2_of_and_pred n hp h)
  · rintro (h0 | ⟨k, rfl⟩)
    · subst h0; rfl
    · exact pow2_and_pred k

namespace Impl

theorem gplLoop_ge (size e : Nat) : e ≤ gplLoop size e := by
  induction e using gplLoop.induct size with
  | case1 e h ih => rw [gplLoop]; simp only [h, and_self, ↓reduceIte]; omega
  | case2 e h => rw [gplLoop]; simp only [h, ↓reduceIte]; omega

theorem gplLoop_le (size e : Nat) (he : e ≤ 24) : gplLoop size e ≤ 24 := by
  induction e using gplLoop.induct size with
  | case1 e h ih => rw [gplLoop]; simp only [h, and_self, ↓reduceIte]; exact ih (by omega)
  | case2 e h => rw [gplLoop]; simp only [h, ↓reduceIte]; exact he

theorem gplLoop_mono (size size' : Nat) (hs : size ≤ size') (e : Nat) :
    gplLoop size e ≤ gplLoop size' e := by
  induction e using gplLoop.induct size with
  | case1 e h ih =>
    have h' : size' > 1000 * 2 ^ e ∧ e < 24 := ⟨by omega, h.2⟩
    rw [gplLoop, gplLoop.eq_1 size']; simp only [h, h', and_self, ↓reduceIte]; exact ih
  | case2 e h =>
    rw [gplLoop]; simp only [h, ↓reduceIte]; exact gplLoop_ge size' e

/-- What the loop returns: it stops at the first exponent that is big enough, or at 24. -/
theorem gplLoop_spec (size e : Nat) (he : e ≤ 24) :
    (size ≤ 1000 * 2 ^ gplLoop size e ∨ gplLoop size e = 24) ∧
    ∀ j, e ≤ j → j < gplLoop size e → 1000 * 2 ^ j < size := by
  induction e using gplLoop.induct size with
  | case1 e h ih =>
    rw [gplLoop]; simp only [h, and_self, ↓reduceIte]
    obtain ⟨a, b⟩ := ih (by omega)
    refine ⟨a, fun j hj hlt => ?_⟩
    rcases Nat.eq_or_lt_of_le hj with rfl | hj'
    · exact h.1
    · exact b j hj' hlt
  | case2 e h =>
    rw [gplLoop]; simp only [h, ↓reduceIte]
    refine ⟨?_, fun j hj hlt => by omega⟩
    rcases Nat.lt_or_ge e 24 with hlt | hge
    · left
      rcases Nat.lt_or_ge (1000 * 2 ^ e) size with h1 | h1
      · exact absurd ⟨h1, hlt⟩ h
      · exact h1
    · right; omega

theorem parseDigits_foldl (s : List Char) (acc : Nat) :
    s.foldl (fun acc c => acc * 10 + (c.toNat - 48)) acc
      = acc * 10 ^ s.length + Spec.decimalValue s := by
  induction s generalizing acc with
  | nil => simp [Spec.decimalValue]
  | cons c s ih =>
    simp only [List.foldl_cons, List.length_cons, Spec.decimalValue, Spec.digitVal]
    rw [ih, Nat.pow_succ, Nat.add_mul]
    simp only [Nat.mul_assoc, Nat.mul_comm (10 ^ s.length) 10, Nat.add_assoc]

/-- `int(s)` computed left to right is the positional value of the digit string. -/
theorem parseDigits_eq (s : List Char) : parseDigits s = Spec.decimalValue s := by
  simp [parseDigits, parseDigits_foldl]

end Impl
end TorrentVerif

import TorrentVerif.Proofs.Create
/-
  The four creators: canonical and well-formed output.
-/
namespace TorrentVerif
open Impl Spec

def Content.canon : Content → Bool
  | .single _ => true
  | .multi files => TorrentVerif.canon files

def Content.isList : Content → Bool
  | .single _ => true
  | .multi files => Spec.isList (some files)

def infoV1 (o : CreateOpts) (content : Content) (pieces : Bytes) : Dict :=
  dictSet (match content with
    | .single n => dictSet (metaDicts o).info K.length (.int n)
    | .multi files => dictSet (metaDicts o).info K.files files) K.pieces (.str pieces)

theorem assembleV1_eq (o : CreateOpts) (content : Content) (pieces : Bytes) :
    assembleV1 o content pieces = MetaB.value ⟨(metaDicts o).top, infoV1 o content pieces⟩ := rfl

theorem infoV1_good (o : CreateOpts) (content : Content) (pieces : Bytes)
    (h : content.canon = true) : Good (infoV1 o content pieces) := by
  unfold infoV1
  cases content with
  | single n => exact ((metaDicts_info_good o).set _ _ rfl).set _ _ rfl
  | multi files => exact ((metaDicts_info_good o).set _ _ h).set _ _ rfl

def infoV2 (o : CreateOpts) (single : Option Nat) (tree : BVal) : Dict :=
  dictSet (match single with
    | some n => dictSet (dictSet (metaDicts o).info K.fileTree (treeOf o.name single.isSome tree))
        K.length (.int n)
    | none => dictSet (metaDicts o).info K.fileTree (treeOf o.name single.isSome tree))
    K.metaVersion (.int 2)

def topV2 (o : CreateOpts) (layers : List (Bytes × Bytes)) : Dict :=
  dictSet (metaDicts o).top K.pieceLayers (.dict (layersDict layers))

theorem assembleV2_eq (o : CreateOpts) (single : Option Nat) (tree : BVal)
    (layers : List (Bytes × Bytes)) :
    assembleV2 o single tree layers = MetaB.value ⟨topV2 o layers, infoV2 o single tree⟩ := by
  cases single <;> rfl

theorem infoV2_good (o : CreateOpts) (single : Option Nat) (tree : BVal)
    (h : canon tree = true) : Good (infoV2 o single tree) := by
  unfold infoV2
  cases single with
  | none => exact ((metaDicts_info_good o).set _ _ (canon_treeOf _ _ _ h)).set _ _ rfl
  | some n =>
    exact (((metaDicts_info_good o).set _ _ (canon_treeOf _ _ _ h)).set _ _ rfl).set _ _ rfl

theorem topV2_nodup (o : CreateOpts) (layers : List (Bytes × Bytes)) :
    (keys (topV2 o layers)).Nodup := nodup_keys_dictSet _ _ _ (metaDicts_top_good o).nodup

theorem topV2_vals (o : CreateOpts) (layers : List (Bytes × Bytes)) :
    ∀ kv ∈ topV2 o layers, kv.1 ≠ K.pieceLayers → canon kv.2 = true := by
  intro kv hkv hne
  rcases mem_dictSet _ _ _ kv hkv with e | e
  · rw [e] at hne; exact absurd rfl hne
  · exact (metaDicts_top_good o).vals kv e

theorem topV2_layers (o : CreateOpts) (layers : List (Bytes × Bytes)) :
    dictGet (topV2 o layers) K.pieceLayers = some (.dict (layersDict layers)) :=
  dictGet_dictSet_same _ _ _

/-- every creator's metafile sorts into a canonical value -/
theorem v1_canon (o : CreateOpts) (content : Content) (pieces : Bytes)
    (h : content.canon = true) :
    ∃ r, sortMeta (assembleV1 o content pieces) = some r ∧ canon r = true := by
  rw [assembleV1_eq]
  apply assemble_canon _ _ (metaDicts_top_good o).nodup
    (fun kv hkv _ => (metaDicts_top_good o).vals kv hkv) (infoV1_good o content pieces h)
  intro v hv; rw [metaDicts_top_noLayers] at hv; cases hv

theorem v2_canon (o : CreateOpts) (single : Option Nat) (tree : BVal)
    (layers : List (Bytes × Bytes)) (h : canon tree = true) :
    ∃ r, sortMeta (assembleV2 o single tree layers) = some r ∧ canon r = true := by
  rw [assembleV2_eq]
  apply assemble_canon _ _ (topV2_nodup o layers) (topV2_vals o layers) (infoV2_good o single tree h)
  intro v hv
  rw [topV2_layers] at hv
  exact ⟨_, (Option.some.inj hv).symm, layersDict_good layers⟩

/-! ### the assembler in v2 mode and the hybrid -/

def infoAsmV2 (o : CreateOpts) (single : Option Nat) (tree : BVal) : Dict :=
  match single with
  | some n => dictSet (dictSet (dictSet (metaDicts o).info K.metaVersion (.int 2)) K.fileTree
      (treeOf o.name single.isSome tree)) K.length (.int n)
  | none => dictSet (dictSet (metaDicts o).info K.metaVersion (.int 2)) K.fileTree
      (treeOf o.name single.isSome tree)

theorem assembleAsmV2_eq (o : CreateOpts) (single : Option Nat) (tree : BVal)
    (layers : List (Bytes × Bytes)) :
    assembleAsmV2 o single tree layers = MetaB.value ⟨topV2 o layers, infoAsmV2 o single tree⟩ := by
  cases single <;> rfl

theorem infoAsmV2_good (o : CreateOpts) (single : Option Nat) (tree : BVal)
    (h : canon tree = true) : Good (infoAsmV2 o single tree) := by
  unfold infoAsmV2
  cases single with
  | none => exact ((metaDicts_info_good o).set _ _ rfl).set _ _ (canon_treeOf _ _ _ h)
  | some n =>
    exact (((metaDicts_info_good o).set _ _ rfl).set _ _ (canon_treeOf _ _ _ h)).set _ _ rfl

theorem asm2_canon (o : CreateOpts) (single : Option Nat) (tree : BVal)
    (layers : List (Bytes × Bytes)) (h : canon tree = true) :
    ∃ r, sortMeta (assembleAsmV2 o single tree layers) = some r ∧ canon r = true := by
  rw [assembleAsmV2_eq]
  apply assemble_canon _ _ (topV2_nodup o layers) (topV2_vals o layers)
    (infoAsmV2_good o single tree h)
  intro v hv
  rw [topV2_layers] at hv
  exact ⟨_, (Option.some.inj hv).symm, layersDict_good layers⟩

def infoHybrid (o : CreateOpts) (content : Content) (tree : BVal) (pieces : Bytes) : Dict :=
  dictSet (match content with
    | .single n => dictSet (dictSet (dictSet (metaDicts o).info K.metaVersion (.int 2)) K.fileTree
        (treeOf o.name true tree)) K.length (.int n)
    | .multi files => dictSet (dictSet (dictSet (metaDicts o).info K.metaVersion (.int 2)) K.fileTree
        (treeOf o.name false tree)) K.files files) K.pieces (.str pieces)

theorem assembleHybrid_eq (o : CreateOpts) (content : Content) (tree : BVal) (pieces : Bytes)
    (layers : List (Bytes × Bytes)) :
    assembleHybrid o content tree pieces layers =
      MetaB.value ⟨topV2 o layers, infoHybrid o content tree pieces⟩ := by
  cases content <;> rfl

theorem infoHybrid_good (o : CreateOpts) (content : Content) (tree : BVal) (pieces : Bytes)
    (h : canon tree = true) (hc : content.canon = true) : Good (infoHybrid o content tree pieces) := by
  unfold infoHybrid
  cases content with
  | single n =>
    exact ((((metaDicts_info_good o).set _ _ rfl).set _ _ (canon_treeOf _ _ _ h)).set _ _ rfl).set _ _ rfl
  | multi files =>
    exact ((((metaDicts_info_good o).set _ _ rfl).set _ _ (canon_treeOf _ _ _ h)).set _ _ hc).set _ _ rfl

theorem hybrid_canon (o : CreateOpts) (content : Content) (tree : BVal) (pieces : Bytes)
    (layers : List (Bytes × Bytes)) (h : canon tree = true) (hc : content.canon = true) :
    ∃ r, sortMeta (assembleHybrid o content tree pieces layers) = some r ∧ canon r = true := by
  rw [assembleHybrid_eq]
  apply assemble_canon _ _ (topV2_nodup o layers) (topV2_vals o layers)
    (infoHybrid_good o content tree pieces h hc)
  intro v hv
  rw [topV2_layers] at hv
  exact ⟨_, (Option.some.inj hv).symm, layersDict_good layers⟩

/-! ### well-formedness -/

theorem v1_wf (o : CreateOpts) (content : Content) (pieces : Bytes) (r : BVal)
    (hp : pieces.length % 20 = 0) (hl : content.isList = true)
    (h : sortMeta (assembleV1 o content pieces) = some r) : WellFormed .v1 r = true := by
  rw [assembleV1_eq] at h
  have hg := assemble_infoGet _ _ r h
  have hn := metaDicts_info_name o
  have hpl := metaDicts_info_pieceLength o
  simp only [K.name] at hn
  simp only [K.pieceLength] at hpl
  simp only [WellFormed, baseOk, v1Ok, hg, infoV1]
  cases content with
  | single n =>
    ksimp [dictGet_dictSet, hn, hpl, isStr, isInt, isHashes, hp]
  | multi files =>
    simp only [Content.isList] at hl
    ksimp [dictGet_dictSet, hn, hpl, isStr, isInt, isHashes, hp, hl]

theorem layers_ok (top info : Dict) (layers : List (Bytes × Bytes)) (r : BVal)
    (ht : dictGet top K.pieceLayers = some (.dict (layersDict layers)))
    (hl : ∀ kv ∈ layers, kv.2.length % 32 = 0)
    (h : sortMeta (MetaB.value ⟨top, info⟩) = some r) : isLayers (r.get? K.pieceLayers) = true := by
  rw [assemble_layers _ _ r h, ht]
  exact isLayers_sorted layers hl

theorem v2_wf (o : CreateOpts) (single : Option Nat) (tree : BVal) (layers : List (Bytes × Bytes))
    (r : BVal) (ht : single = none → isDict (some tree) = true)
    (hl : ∀ kv ∈ layers, kv.2.length % 32 = 0)
    (h : sortMeta (assembleV2 o single tree layers) = some r) : WellFormed .v2 r = true := by
  rw [assembleV2_eq] at h
  have hg := assemble_infoGet _ _ r h
  have hn := metaDicts_info_name o
  have hpl := metaDicts_info_pieceLength o
  simp only [K.name] at hn
  simp only [K.pieceLength] at hpl
  have hly := layers_ok _ _ layers r (topV2_layers o layers) hl h
  have htree := isDict_treeOf o.name single.isSome tree (by
    intro e; apply ht; cases single <;> simp_all)
  simp only [WellFormed, baseOk, v2Ok, hg, hly, infoV2]
  cases single <;>
    ksimp [dictGet_dictSet, hn, hpl, isStr, isInt] <;>
    simpa using htree

theorem asm2_wf (o : CreateOpts) (single : Option Nat) (tree : BVal) (layers : List (Bytes × Bytes))
    (r : BVal) (ht : single = none → isDict (some tree) = true)
    (hl : ∀ kv ∈ layers, kv.2.length % 32 = 0)
    (h : sortMeta (assembleAsmV2 o single tree layers) = some r) : WellFormed .v2 r = true := by
  rw [assembleAsmV2_eq] at h
  have hg := assemble_infoGet _ _ r h
  have hn := metaDicts_info_name o
  have hpl := metaDicts_info_pieceLength o
  simp only [K.name] at hn
  simp only [K.pieceLength] at hpl
  have hly := layers_ok _ _ layers r (topV2_layers o layers) hl h
  have htree := isDict_treeOf o.name single.isSome tree (by
    intro e; apply ht; cases single <;> simp_all)
  simp only [WellFormed, baseOk, v2Ok, hg, hly, infoAsmV2]
  cases single <;>
    ksimp [dictGet_dictSet, hn, hpl, isStr, isInt] <;>
    simpa using htree

theorem hybrid_wf (o : CreateOpts) (content : Content) (tree : BVal) (pieces : Bytes)
    (layers : List (Bytes × Bytes)) (r : BVal) (hp : pieces.length % 20 = 0)
    (hc : content.isList = true)
    (ht : (∀ n, content ≠ .single n) → isDict (some tree) = true)
    (hl : ∀ kv ∈ layers, kv.2.length % 32 = 0)
    (h : sortMeta (assembleHybrid o content tree pieces layers) = some r) :
    WellFormed .hybrid r = true := by
  rw [assembleHybrid_eq] at h
  have hg := assemble_infoGet _ _ r h
  have hn := metaDicts_info_name o
  have hpl := metaDicts_info_pieceLength o
  simp only [K.name] at hn
  simp only [K.pieceLength] at hpl
  have hly := layers_ok _ _ layers r (topV2_layers o layers) hl h
  simp only [WellFormed, baseOk, v1Ok, v2Ok, hg, hly, infoHybrid]
  cases content with
  | single n =>
    ksimp [dictGet_dictSet, hn, hpl, isStr, isInt, isHashes,
      hp, treeOf, isDict]
  | multi files =>
    simp only [Content.isList] at hc
    have htree : isDict (some tree) = true := ht (by intro n e; cases e)
    ksimp [dictGet_dictSet, hn, hpl, isStr, isInt, isHashes,
      hp, hc, treeOf, htree]

end TorrentVerif

import TorrentVerif.Proofs.CreatorsHybrid
/-
  What the written `info` depends on, and what a different clock changes.
-/
namespace TorrentVerif
open Impl Spec Listing

/-! ### the written `info` value -/

theorem written_info (top info : Dict)
    (h : dictGet top K.pieceLayers = none ∨ ∃ L, dictGet top K.pieceLayers = some (.dict L)) :
    (written (MetaB.value ⟨top, info⟩)).map (fun x => x.1.get? K.info)
      = some (some (.dict (sortDict info))) := by
  unfold written
  rcases h with h | ⟨L, h⟩
  · rw [sortMeta_value_none top info h]
    simp [BVal.get?, dictGet_sortDict', dictGet_dictSet_same]
  · rw [sortMeta_value top info L h]
    simp only [Option.map_some, BVal.get?, dictGet_sortDict']
    rw [dictGet_dictSet_other _ _ _ _ (by decide), dictGet_dictSet_same]

theorem metaDicts_info_congr (o o' : CreateOpts) (hc : o.comment = o'.comment)
    (hp : o.priv = o'.priv) (hsrc : o.source = o'.source) (hpl : o.pieceLength = o'.pieceLength)
    (hn : o.name = o'.name) : (metaDicts o).info = (metaDicts o').info := by
  unfold metaDicts
  simp only [hc, hp, hsrc, hpl, hn]

theorem written_v1_info (o : CreateOpts) (content : Content) (pieces : Bytes) :
    (written (assembleV1 o content pieces)).map (fun x => x.1.get? K.info)
      = some (some (.dict (sortDict (infoV1 o content pieces)))) := by
  rw [assembleV1_eq]; exact written_info _ _ (Or.inl (metaDicts_top_noLayers o))

theorem written_v2_info (o : CreateOpts) (single : Option Nat) (tree : BVal)
    (layers : List (Bytes × Bytes)) :
    (written (assembleV2 o single tree layers)).map (fun x => x.1.get? K.info)
      = some (some (.dict (sortDict (infoV2 o single tree)))) := by
  rw [assembleV2_eq]; exact written_info _ _ (Or.inr ⟨_, topV2_layers o layers⟩)

theorem written_asm2_info (o : CreateOpts) (single : Option Nat) (tree : BVal)
    (layers : List (Bytes × Bytes)) :
    (written (assembleAsmV2 o single tree layers)).map (fun x => x.1.get? K.info)
      = some (some (.dict (sortDict (infoAsmV2 o single tree)))) := by
  rw [assembleAsmV2_eq]; exact written_info _ _ (Or.inr ⟨_, topV2_layers o layers⟩)

theorem written_hybrid_info (o : CreateOpts) (content : Content) (tree : BVal) (pieces : Bytes)
    (layers : List (Bytes × Bytes)) :
    (written (assembleHybrid o content tree pieces layers)).map (fun x => x.1.get? K.info)
      = some (some (.dict (sortDict (infoHybrid o content tree pieces)))) := by
  rw [assembleHybrid_eq]; exact written_info _ _ (Or.inr ⟨_, topV2_layers o layers⟩)

section Congr
variable (o o' : CreateOpts) (hc : o.comment = o'.comment) (hp : o.priv = o'.priv)
  (hsrc : o.source = o'.source) (hpl : o.pieceLength = o'.pieceLength) (hn : o.name = o'.name)
include hc hp hsrc hpl hn

theorem infoV1_congr (content : Content) (pieces : Bytes) :
    infoV1 o content pieces = infoV1 o' content pieces := by
  unfold infoV1; rw [metaDicts_info_congr o o' hc hp hsrc hpl hn]

theorem infoV2_congr (single : Option Nat) (tree : BVal) :
    infoV2 o single tree = infoV2 o' single tree := by
  unfold infoV2; rw [metaDicts_info_congr o o' hc hp hsrc hpl hn, hn]

theorem infoAsmV2_congr (single : Option Nat) (tree : BVal) :
    infoAsmV2 o single tree = infoAsmV2 o' single tree := by
  unfold infoAsmV2; rw [metaDicts_info_congr o o' hc hp hsrc hpl hn, hn]

theorem infoHybrid_congr (content : Content) (tree : BVal) (pieces : Bytes) :
    infoHybrid o content tree pieces = infoHybrid o' content tree pieces := by
  unfold infoHybrid; rw [metaDicts_info_congr o o' hc hp hsrc hpl hn, hn]

/-- the `info` written by the v2 class creator -/
theorem createV2Class_info (H : Bytes → Bytes) (B hs : Nat)
    (enum enum' : List (Bytes × FTree) → List (Bytes × FTree))
    (henum : ∀ l, (enum l).Perm l) (henum' : ∀ l, (enum' l).Perm l) (t : Node) (hwn : WellNamed t) :
    (createV2Class o H B hs enum t).map (fun x => x.1.get? K.info)
      = (createV2Class o' H B hs enum' t).map (fun x => x.1.get? K.info) := by
  unfold createV2Class
  rw [written_v2_info, written_v2_info, traverse_enum enum henum t hwn,
    traverse_enum enum' henum' t hwn, infoV2_congr o o' hc hp hsrc hpl hn, hpl]

theorem createAsm_false_info (H H1 : Bytes → Bytes) (B hs : Nat)
    (enum enum' : List (Bytes × FTree) → List (Bytes × FTree))
    (henum : ∀ l, (enum l).Perm l) (henum' : ∀ l, (enum' l).Perm l) (t : Node) (hwn : WellNamed t) :
    (createAsm false o H H1 B hs enum t).map (fun x => x.1.get? K.info)
      = (createAsm false o' H H1 B hs enum' t).map (fun x => x.1.get? K.info) := by
  unfold createAsm
  simp only [Bool.false_eq_true, if_false]
  rw [written_asm2_info, written_asm2_info, traverse_enum enum henum t hwn,
    traverse_enum enum' henum' t hwn, infoAsmV2_congr o o' hc hp hsrc hpl hn, hpl]

theorem createHybridClass_info (H H1 : Bytes → Bytes) (B hs : Nat)
    (enum enum' : List (Bytes × FTree) → List (Bytes × FTree))
    (henum : ∀ l, (enum l).Perm l) (henum' : ∀ l, (enum' l).Perm l) (t : Node) (hwn : WellNamed t) :
    (createHybridClass o H H1 B hs enum t).map (fun x => x.1.get? K.info)
      = (createHybridClass o' H H1 B hs enum' t).map (fun x => x.1.get? K.info) := by
  unfold createHybridClass
  simp only [traverse_enum enum henum t hwn, traverse_enum enum' henum' t hwn, ← hpl]
  cases t with
  | file d =>
    simp only
    split
    · rfl
    · rw [written_hybrid_info, written_hybrid_info, infoHybrid_congr o o' hc hp hsrc hpl hn]
  | dir es =>
    simp only
    rw [written_hybrid_info, written_hybrid_info, infoHybrid_congr o o' hc hp hsrc hpl hn]

theorem createAsm_true_info (H H1 : Bytes → Bytes) (B hs : Nat)
    (enum enum' : List (Bytes × FTree) → List (Bytes × FTree))
    (henum : ∀ l, (enum l).Perm l) (henum' : ∀ l, (enum' l).Perm l) (t : Node) (hwn : WellNamed t) :
    (createAsm true o H H1 B hs enum t).map (fun x => x.1.get? K.info)
      = (createAsm true o' H H1 B hs enum' t).map (fun x => x.1.get? K.info) := by
  unfold createAsm
  simp only [traverse_enum enum henum t hwn, traverse_enum enum' henum' t hwn, ← hpl, if_true]
  cases t with
  | file d =>
    simp only
    split
    · rfl
    · rw [written_hybrid_info, written_hybrid_info, infoHybrid_congr o o' hc hp hsrc hpl hn]
  | dir es =>
    simp only
    rw [written_hybrid_info, written_hybrid_info, infoHybrid_congr o o' hc hp hsrc hpl hn]

end Congr

/-! ### the v1 creator does not see where the payload lives -/

theorem sortedFiles_listed (pre : Bytes) (t : Node) :
    (sortedFiles pre t).map (fun x => (relPath pre x.1, x.2.length))
      = (sortedFiles [] t).map (fun x => (Spec.splitOn Listing.sep (x.1.drop 1), x.2.length)) := by
  rw [← sortedFiles_relative pre t, List.map_map]
  apply List.map_congr_left
  intro x _
  simp [relPath]

theorem sortedFiles_datas (pre : Bytes) (t : Node) :
    (sortedFiles pre t).map (·.2) = (sortedFiles [] t).map (·.2) := by
  rw [← sortedFiles_relative pre t, List.map_map]
  rfl

/-- `TorrentFile` on a well-named directory, independent of root path and enumeration order -/
theorem createV1_dir_eq (o : CreateOpts) (align : Bool) (H1 : Bytes → Bytes)
    (enum : List (List (Bytes × Bytes)) → List (List (Bytes × Bytes)))
    (henum : ∀ l, (enum l).Perm l) (pre : Bytes) (es : List (Bytes × Node))
    (hwn : WellNamed (.dir es)) :
    createV1 o align H1 enum pre (.dir es) =
      if (sortedFiles [] (.dir es)).map (·.2) = [] then none
      else written (assembleV1 o (.multi (.list (v1Entries align o.pieceLength
          ((sortedFiles [] (.dir es)).map
            (fun x => (Spec.splitOn Listing.sep (x.1.drop 1), x.2.length))))))
        ((hasherV1 align o.pieceLength ((sortedFiles [] (.dir es)).map (·.2))).map H1).flatten) := by
  unfold createV1
  simp only [listV1_eq_sortedFiles enum henum pre (.dir es) hwn, sortedFiles_listed,
    sortedFiles_datas pre]
  have : sortedFiles pre (.dir es) = [] ↔ (sortedFiles [] (.dir es)).map (·.2) = [] := by
    rw [← sortedFiles_datas pre]; simp
  by_cases h : sortedFiles pre (.dir es) = []
  · simp [h, this.mp h]
  · simp [h, mt this.mpr h]

theorem createV1_info (o o' : CreateOpts) (hc : o.comment = o'.comment) (hp : o.priv = o'.priv)
    (hsrc : o.source = o'.source) (hpl : o.pieceLength = o'.pieceLength) (hn : o.name = o'.name)
    (align : Bool) (H1 : Bytes → Bytes)
    (enum enum' : List (List (Bytes × Bytes)) → List (List (Bytes × Bytes)))
    (henum : ∀ l, (enum l).Perm l) (henum' : ∀ l, (enum' l).Perm l) (pre pre' : Bytes)
    (t : Node) (hwn : WellNamed t) :
    (createV1 o align H1 enum pre t).map (fun x => x.1.get? K.info)
      = (createV1 o' align H1 enum' pre' t).map (fun x => x.1.get? K.info) := by
  cases t with
  | file d =>
    unfold createV1
    simp only [listV1, List.map_cons, List.map_nil]
    rw [written_v1_info, written_v1_info, infoV1_congr o o' hc hp hsrc hpl hn, hpl]
  | dir es =>
    rw [createV1_dir_eq o align H1 enum henum pre es hwn,
      createV1_dir_eq o' align H1 enum' henum' pre' es hwn]
    split
    · rfl
    · rw [written_v1_info, written_v1_info, infoV1_congr o o' hc hp hsrc hpl hn, hpl]

/-! ### another clock value -/

/-- replace the value of the `creation date` item -/
def gDate (d' : Int) (kv : Bytes × BVal) : Bytes × BVal :=
  if kv.1 = K.creationDate then (kv.1, .int d') else kv

theorem gDate_fst (d' : Int) (kv : Bytes × BVal) : (gDate d' kv).1 = kv.1 := by
  unfold gDate; split <;> rfl

theorem setDate_dict (d' : Int) (kvs : Dict) : setDate d' (.dict kvs) = .dict (kvs.map (gDate d')) := rfl

theorem dictSet_map_gDate (d' : Int) (d : Dict) (k : Bytes) (v : BVal) (hk : k ≠ K.creationDate) :
    (dictSet d k v).map (gDate d') = dictSet (d.map (gDate d')) k v := by
  induction d with
  | nil => simp [dictSet, gDate, hk]
  | cons kv r ih =>
    obtain ⟨k0, v0⟩ := kv
    by_cases e : k0 = k
    · subst e
      simp [dictSet, gDate, hk]
    · simp only [dictSet, e, if_false, List.map_cons, ih]
      have : (gDate d' (k0, v0)).1 = k0 := gDate_fst d' (k0, v0)
      rw [show gDate d' (k0, v0) = ((gDate d' (k0, v0)).1, (gDate d' (k0, v0)).2) from rfl, this]
      simp [e]

theorem setIf_map_gDate (d' : Int) (c : Bool) (d : Dict) (k : Bytes) (v : BVal)
    (hk : k ≠ K.creationDate) :
    (setIf c d k v).map (gDate d') = setIf c (d.map (gDate d')) k v := by
  unfold setIf; cases c
  · rfl
  · exact dictSet_map_gDate d' d k v hk

theorem dictGet_map_gDate (d' : Int) (d : Dict) (k : Bytes) (hk : k ≠ K.creationDate) :
    dictGet (d.map (gDate d')) k = dictGet d k := by
  induction d with
  | nil => rfl
  | cons kv r ih =>
    obtain ⟨k0, v0⟩ := kv
    by_cases e : k0 = k
    · subst e; simp [dictGet, gDate, hk]
    · have : (gDate d' (k0, v0)).1 = k0 := gDate_fst d' (k0, v0)
      rw [List.map_cons, show gDate d' (k0, v0) = ((gDate d' (k0, v0)).1, (gDate d' (k0, v0)).2) from rfl,
        this]
      simp [dictGet, e, ih]

theorem sortDict_map_gDate (d' : Int) (d : Dict) :
    sortDict (d.map (gDate d')) = (sortDict d).map (gDate d') := by
  unfold sortDict
  symm
  apply List.map_mergeSort
  intro a _ b _
  rw [gDate_fst, gDate_fst]

theorem metaDicts_date (o : CreateOpts) (d' : Int) :
    (metaDicts { o with creationDate := d' }).top = (metaDicts o).top.map (gDate d') ∧
    (metaDicts { o with creationDate := d' }).info = (metaDicts o).info := by
  refine ⟨?_, rfl⟩
  unfold metaDicts
  simp only []
  rw [setIf_map_gDate _ _ _ _ _ (by decide), setIf_map_gDate _ _ _ _ _ (by decide),
    setIf_map_gDate _ _ _ _ _ (by decide), setIf_map_gDate _ _ _ _ _ (by decide)]
  simp [gDate, K.createdBy, K.creationDate, K.info]

/-- what a creator returns with another clock value -/
def reDate (d' : Int) (x : BVal × Bytes) : BVal × Bytes := (setDate d' x.1, encode (setDate d' x.1))

theorem written_value_date (d' : Int) (top info : Dict)
    (h : dictGet top K.pieceLayers = none ∨ ∃ L, dictGet top K.pieceLayers = some (.dict L)) :
    written (MetaB.value ⟨top.map (gDate d'), info⟩)
      = (written (MetaB.value ⟨top, info⟩)).map (reDate d') := by
  unfold written
  rcases h with h | ⟨L, h⟩
  · rw [sortMeta_value_none top info h,
      sortMeta_value_none _ info (by rw [dictGet_map_gDate _ _ _ (by decide)]; exact h)]
    simp only [Option.map_some, reDate, setDate_dict]
    rw [← dictSet_map_gDate _ _ _ _ (by decide), sortDict_map_gDate]
  · rw [sortMeta_value top info L h,
      sortMeta_value _ info L (by rw [dictGet_map_gDate _ _ _ (by decide)]; exact h)]
    simp only [Option.map_some, reDate, setDate_dict]
    rw [← dictSet_map_gDate _ _ _ _ (by decide), ← dictSet_map_gDate _ _ _ _ (by decide),
      sortDict_map_gDate]

theorem topV2_date (o : CreateOpts) (d' : Int) (layers : List (Bytes × Bytes)) :
    topV2 { o with creationDate := d' } layers = (topV2 o layers).map (gDate d') := by
  unfold topV2
  rw [(metaDicts_date o d').1, dictSet_map_gDate _ _ _ _ (by decide)]

theorem written_v1_date (o : CreateOpts) (d' : Int) (content : Content) (pieces : Bytes) :
    written (assembleV1 { o with creationDate := d' } content pieces)
      = (written (assembleV1 o content pieces)).map (reDate d') := by
  rw [assembleV1_eq, assembleV1_eq, (metaDicts_date o d').1]
  exact written_value_date d' _ _ (Or.inl (metaDicts_top_noLayers o))

theorem written_v2_date (o : CreateOpts) (d' : Int) (single : Option Nat) (tree : BVal)
    (layers : List (Bytes × Bytes)) :
    written (assembleV2 { o with creationDate := d' } single tree layers)
      = (written (assembleV2 o single tree layers)).map (reDate d') := by
  rw [assembleV2_eq, assembleV2_eq, topV2_date]
  exact written_value_date d' _ _ (Or.inr ⟨_, topV2_layers o layers⟩)

theorem written_asm2_date (o : CreateOpts) (d' : Int) (single : Option Nat) (tree : BVal)
    (layers : List (Bytes × Bytes)) :
    written (assembleAsmV2 { o with creationDate := d' } single tree layers)
      = (written (assembleAsmV2 o single tree layers)).map (reDate d') := by
  rw [assembleAsmV2_eq, assembleAsmV2_eq, topV2_date]
  exact written_value_date d' _ _ (Or.inr ⟨_, topV2_layers o layers⟩)

theorem written_hybrid_date (o : CreateOpts) (d' : Int) (content : Content) (tree : BVal)
    (pieces : Bytes) (layers : List (Bytes × Bytes)) :
    written (assembleHybrid { o with creationDate := d' } content tree pieces layers)
      = (written (assembleHybrid o content tree pieces layers)).map (reDate d') := by
  rw [assembleHybrid_eq, assembleHybrid_eq, topV2_date]
  exact written_value_date d' _ _ (Or.inr ⟨_, topV2_layers o layers⟩)

theorem createV1_date (o : CreateOpts) (d' : Int) (align : Bool) (H1 : Bytes → Bytes)
    (enum : List (List (Bytes × Bytes)) → List (List (Bytes × Bytes))) (pre : Bytes) (t : Node) :
    createV1 { o with creationDate := d' } align H1 enum pre t
      = (createV1 o align H1 enum pre t).map (reDate d') := by
  unfold createV1
  cases t with
  | file d => exact written_v1_date o d' _ _
  | dir es =>
    simp only
    split
    · rfl
    · exact written_v1_date o d' _ _

theorem createV2Class_date (o : CreateOpts) (d' : Int) (H : Bytes → Bytes) (B hs : Nat)
    (enum : List (Bytes × FTree) → List (Bytes × FTree)) (t : Node) :
    createV2Class { o with creationDate := d' } H B hs enum t
      = (createV2Class o H B hs enum t).map (reDate d') := by
  unfold createV2Class
  exact written_v2_date o d' _ _ _

theorem createHybridClass_date (o : CreateOpts) (d' : Int) (H H1 : Bytes → Bytes) (B hs : Nat)
    (enum : List (Bytes × FTree) → List (Bytes × FTree)) (t : Node) :
    createHybridClass { o with creationDate := d' } H H1 B hs enum t
      = (createHybridClass o H H1 B hs enum t).map (reDate d') := by
  unfold createHybridClass
  cases t with
  | file d =>
    simp only
    split
    · rfl
    · exact written_hybrid_date o d' _ _ _ _
  | dir es => exact written_hybrid_date o d' _ _ _ _

theorem createAsm_date (hybrid : Bool) (o : CreateOpts) (d' : Int) (H H1 : Bytes → Bytes) (B hs : Nat)
    (enum : List (Bytes × FTree) → List (Bytes × FTree)) (t : Node) :
    createAsm hybrid { o with creationDate := d' } H H1 B hs enum t
      = (createAsm hybrid o H H1 B hs enum t).map (reDate d') := by
  unfold createAsm
  cases hybrid with
  | false => exact written_asm2_date o d' _ _ _
  | true =>
    simp only [if_true]
    cases t with
    | file d =>
      simp only
      split
      · rfl
      · exact written_hybrid_date o d' _ _ _ _
    | dir es => exact written_hybrid_date o d' _ _ _ _

end TorrentVerif

import TorrentVerif.Proofs.RbV1
/- v1 completeness: with intact candidates for every file every piece search succeeds, every
   accepted file is counted; with an injective digest and no partial decoy every copy is right. -/
namespace TorrentVerif
open Rebuild PosixPath Spec

namespace Impl

/-! ### `markCopied` -/

theorem markCopied_fst (dest : Path) (paths : List PathNode) :
    ∀ copied f, f ∈ (markCopied dest copied paths).1 ↔
      f ∈ copied ∨ ∃ pn ∈ paths, pn.file.pad = false ∧ pn.file.full = f := by
  induction paths with
  | nil => intro copied f; simp [markCopied]
  | cons pn ps ih =>
    intro copied f
    simp only [markCopied]
    cases hpad : pn.file.pad with
    | true =>
      simp only [if_true]
      rw [ih]
      constructor
      · rintro (h | ⟨p, hp, h⟩)
        · exact Or.inl h
        · exact Or.inr ⟨p, List.mem_cons_of_mem _ hp, h⟩
      · rintro (h | ⟨p, hp, h1, h2⟩)
        · exact Or.inl h
        · cases hp with
          | head => rw [hpad] at h1; cases h1
          | tail _ hp => exact Or.inr ⟨p, hp, h1, h2⟩
    | false =>
    simp only [Bool.false_eq_true, if_false]
    split
    · rename_i hin
      rw [ih]
      constructor
      · rintro (h | ⟨p, hp, h⟩)
        · exact Or.inl h
        · exact Or.inr ⟨p, List.mem_cons_of_mem _ hp, h⟩
      · rintro (h | ⟨p, hp, h1, h2⟩)
        · exact Or.inl h
        · cases hp with
          | head => exact Or.inl (h2 ▸ hin)
          | tail _ hp => exact Or.inr ⟨p, hp, h1, h2⟩
    · simp only
      rw [ih]
      constructor
      · rintro (h | ⟨p, hp, h⟩)
        · rcases List.mem_append.mp h with h | h
          · exact Or.inl h
          · simp at h; exact Or.inr ⟨pn, List.mem_cons_self, hpad, h.symm⟩
        · exact Or.inr ⟨p, List.mem_cons_of_mem _ hp, h⟩
      · rintro (h | ⟨p, hp, h1, h2⟩)
        · exact Or.inl (List.mem_append_left _ h)
        · cases hp with
          | head => exact Or.inl (List.mem_append_right _ (by simp [h2]))
          | tail _ hp => exact Or.inr ⟨p, hp, h1, h2⟩

theorem markCopied_snd (dest : Path) (paths : List PathNode) :
    ∀ copied f, f ∈ (markCopied dest copied paths).1 →
      f ∈ copied ∨ ((safeJoin dest f).isSome → f ∈ (markCopied dest copied paths).2) := by
  induction paths with
  | nil => intro copied f h; simp [markCopied] at h; exact Or.inl h
  | cons pn ps ih =>
    intro copied f h
    simp only [markCopied] at h ⊢
    cases hpad : pn.file.pad with
    | true =>
      simp only [hpad, if_true] at h ⊢
      exact ih copied f h
    | false =>
    simp only [hpad, Bool.false_eq_true, if_false] at h ⊢
    split
    · rename_i hin
      simp only [hin, if_true] at h
      exact ih copied f h
    · rename_i hin
      simp only [hin, if_false] at h
      rcases ih _ f h with h' | h'
      · rcases List.mem_append.mp h' with h'' | h''
        · exact Or.inl h''
        · simp at h''
          subst h''
          right
          intro hs
          simp [hs]
      · right
        intro hs
        exact List.mem_append_right _ (h' hs)

/-! ### agreement outside the destination -/

theorem combo_agree {fs fs0 : FS} {dest : Path} {filemap : FileMap} (ha : Agree fs fs0 dest)
    (hok : FilemapOK fs0 dest filemap) {paths : List PathNode} :
    ∀ {choice : List (Path × Bytes)}, Combo fs0 filemap paths choice → Combo fs filemap paths choice := by
  induction paths with
  | nil => intro choice h; cases choice <;> simp_all [Combo]
  | cons pn ps ih =>
    intro choice h
    cases choice with
    | nil => exact absurd h (by simp [Combo])
    | cons c cs =>
      obtain ⟨hhead, hrest⟩ := h
      refine ⟨fun hpad => ?_, ih hrest⟩
      obtain ⟨cands, sz, hl, hm, hsz, hread⟩ := hhead hpad
      refine ⟨cands, sz, hl, hm, hsz, ?_⟩
      rw [agree_readFile ha (hok _ _ hl _ hm).1]; exact hread

theorem combo_agree' {fs fs0 : FS} {dest : Path} {filemap : FileMap} (ha : Agree fs fs0 dest)
    (hok : FilemapOK fs0 dest filemap) {paths : List PathNode} :
    ∀ {choice : List (Path × Bytes)}, Combo fs filemap paths choice → Combo fs0 filemap paths choice := by
  induction paths with
  | nil => intro choice h; cases choice <;> simp_all [Combo]
  | cons pn ps ih =>
    intro choice h
    cases choice with
    | nil => exact absurd h (by simp [Combo])
    | cons c cs =>
      obtain ⟨hhead, hrest⟩ := h
      refine ⟨fun hpad => ?_, ih hrest⟩
      obtain ⟨cands, sz, hl, hm, hsz, hread⟩ := hhead hpad
      refine ⟨cands, sz, hl, hm, hsz, ?_⟩
      rw [← agree_readFile ha (hok _ _ hl _ hm).1]; exact hread

/-! ### the loop: every accepted path node ends up counted -/

/-- some combination of candidates hashes to the recorded digest of the piece -/
def Solvable (H1 : Bytes → Bytes) (fs0 : FS) (filemap : FileMap) (pp : Bytes × List PathNode) : Prop :=
  ∃ choice, Combo fs0 filemap pp.2 choice ∧ H1 (comboData pp.2 choice) = pp.1

/-- … namely the combination of the original contents -/
def SolvableOrig (H1 : Bytes → Bytes) (fs0 : FS) (filemap : FileMap) (orig : List Bytes)
    (pp : Bytes × List PathNode) : Prop :=
  ∃ choice, Combo fs0 filemap pp.2 choice ∧ H1 (comboData pp.2 choice) = pp.1 ∧
    ∀ pc ∈ List.zip pp.2 choice, pc.1.file.pad = false → orig[pc.1.idx]? = some pc.2.2

theorem SolvableOrig.solvable {H1 : Bytes → Bytes} {fs0 : FS} {filemap : FileMap} {orig : List Bytes}
    {pp : Bytes × List PathNode} (h : SolvableOrig H1 fs0 filemap orig pp) : Solvable H1 fs0 filemap pp := by
  obtain ⟨c, h1, h2, _⟩ := h; exact ⟨c, h1, h2⟩

theorem skipPiece_true {copied : List Bytes} {paths : List PathNode} (h : skipPiece copied paths = true) :
    ∃ pn, paths = [pn] ∧ pn.file.full ∈ copied := by
  unfold skipPiece at h
  split at h
  · rename_i pn; exact ⟨pn, rfl, by simpa using h⟩
  · cases h

theorem matchV1Loop_counts (H1 : Bytes → Bytes) (ds : Nat) (fs0 : FS) (filemap : FileMap) (dest : Path)
    (hd : CleanPath dest) (hok : FilemapOK fs0 dest filemap) (pns : List (Bytes × List PathNode)) :
    ∀ fs copied, DestReady fs dest → Agree fs fs0 dest → (∀ pp ∈ pns, Solvable H1 fs0 filemap pp) →
      ∀ pp ∈ pns, ∀ pn ∈ pp.2, pn.file.pad = false → (safeJoin dest pn.file.full).isSome →
        pn.file.full ∈ copied ∨ pn.file.full ∈ (matchV1Loop H1 ds filemap dest fs copied pns).2 := by
  induction pns with
  | nil => intro fs copied _ _ _ pp hpp; simp at hpp
  | cons pp0 rest ih =>
    intro fs copied hr ha hsolv pp hpp pn hpn hpad hacc
    obtain ⟨piece, paths⟩ := pp0
    have hsolv' : ∀ x ∈ rest, Solvable H1 fs0 filemap x := fun x hx => hsolv x (List.mem_cons_of_mem _ hx)
    simp only [matchV1Loop]
    cases hskip : skipPiece copied paths with
    | true =>
      simp only [if_true]
      cases hpp with
      | head =>
        obtain ⟨pn0, hp0, hin⟩ := skipPiece_true hskip
        simp only [hp0, List.mem_singleton] at hpn
        subst hpn
        exact Or.inl hin
      | tail _ hpp => exact ih fs copied hr ha hsolv' pp hpp pn hpn hpad hacc
    | false =>
      simp only [Bool.false_eq_true, if_false]
      obtain ⟨choice, hcombo, hhash⟩ := hsolv (piece, paths) List.mem_cons_self
      have hsome := findMatches_complete_combo H1 fs filemap dest piece paths choice []
        (combo_agree ha hok hcombo) (by simpa using hhash)
      cases hf : findMatches H1 fs filemap dest piece paths [] with
      | none => rw [hf] at hsome; cases hsome
      | some calls =>
        simp only
        cases hpp with
        | head =>
          have h1 : pn.file.full ∈ (markCopied dest copied paths).1 :=
            (markCopied_fst dest paths copied _).mpr (Or.inr ⟨pn, hpn, hpad, rfl⟩)
          rcases markCopied_snd dest paths copied _ h1 with h | h
          · exact Or.inl h
          · exact Or.inr (List.mem_append_left _ (h hacc))
        | tail _ hpp =>
          obtain ⟨choice', _, _, hcalls⟩ := findMatches_sound H1 fs filemap dest piece paths [] calls hf
          have hbelow : ∀ c ∈ calls, dest <+: c.2 := by
            intro c hc
            rw [hcalls] at hc
            obtain ⟨_, _, _, hsj, _⟩ := comboCalls_mem (src := c.1) (dst := c.2) hc
            exact (safeJoin_some dest hd _ _ hsj).1
          have hb := runCalls_below ds dest calls fs hr hbelow
          obtain ⟨htr, hr'⟩ := trace_below dest _ fs hr hb
          rcases ih _ (markCopied dest copied paths).1 hr' (ha.trans_trace htr) hsolv' pp hpp pn hpn hpad hacc with h | h
          · rcases markCopied_snd dest paths copied _ h with h' | h'
            · exact Or.inl h'
            · exact Or.inr (List.mem_append_left _ (h' hacc))
          · exact Or.inr (List.mem_append_right _ h)

/-! ### the piece nodes of an honest metafile are solvable by the intact copies -/

theorem toPathNodes_cons {files : List FileRec} {i s : Nat} {e : Option Nat} {ns : List Node} {r : FileRec}
    (h : files[i]? = some r) :
    toPathNodes files ((i, s, e) :: ns) = ⟨i, s, e, r⟩ :: toPathNodes files ns := by
  simp [toPathNodes, h]

theorem getPart_zeros (s : Nat) (e : Option Nat) (len : Nat) (hs : s ≤ len)
    (he : ∀ x, e = some x → s ≤ x ∧ x ≤ len) :
    getPart s e (zeros len) = zeros (e.getD len - s) := by
  cases e with
  | none => simp [getPart, zeros]
  | some x =>
    obtain ⟨h1, h2⟩ := he x rfl
    simp only [getPart, zeros, Option.getD_some, List.drop_replicate, List.take_replicate]
    congr 1
    omega

theorem intact_combo {fs0 : FS} {filemap : FileMap} {files : List FileRec} {orig : List Bytes}
    (hlen : files.length = orig.length) (hint : IntactV1 fs0 filemap files orig)
    (hpads : PadsAreZeros files orig) :
    ∀ nodes : List Node, (∀ nd ∈ nodes, NodeOK orig nd) →
      ∃ choice, Combo fs0 filemap (toPathNodes files nodes) choice ∧
        comboData (toPathNodes files nodes) choice = readPiece orig nodes ∧
        ∀ pc ∈ List.zip (toPathNodes files nodes) choice, pc.1.file.pad = false →
          orig[pc.1.idx]? = some pc.2.2 := by
  intro nodes
  induction nodes with
  | nil => intro _; exact ⟨[], by simp [toPathNodes, Combo], by simp [toPathNodes, comboData, readPiece],
      by simp [toPathNodes]⟩
  | cons nd ns ih =>
    intro hok
    obtain ⟨i, s, e⟩ := nd
    obtain ⟨choice, hc, hdata, horig⟩ := ih (fun x hx => hok x (List.mem_cons_of_mem _ hx))
    obtain ⟨f, hf, hs, he⟩ := hok (i, s, e) List.mem_cons_self
    simp only at hf hs he
    have hi : i < files.length := by
      have := (List.getElem?_eq_some_iff.mp hf).1
      omega
    have hr : files[i]? = some files[i] := List.getElem?_eq_getElem hi
    rw [toPathNodes_cons hr]
    cases hpad : files[i].pad with
    | true =>
      have hz := hpads i _ hr hpad
      rw [hf] at hz
      injection hz with hz
      refine ⟨([], []) :: choice, ⟨fun h => absurd (hpad.symm.trans h) (by decide), hc⟩, ?_, ?_⟩
      · simp only [comboData, hdata, readPiece, List.map_cons, List.flatten_cons]
        congr 1
        have hnp : nodePart (⟨i, s, e, files[i]⟩ : PathNode) [] = padPart ⟨i, s, e, files[i]⟩ :=
          nodePart_pad (pn := ⟨i, s, e, files[i]⟩) hpad []
        rw [hnp]
        simp only [Spec.readNode, hf, Option.getD_some, padPart]
        rw [hz, getPart_zeros s e files[i].length (by rw [hz] at hs; simpa using hs)
          (fun x hx => by have := he x hx; rw [hz] at this; simpa using this)]
      · intro pc hpc hp
        simp only [List.zip_cons_cons, List.mem_cons] at hpc
        rcases hpc with h | h
        · subst h; simp only at hp; rw [hpad] at hp; cases hp
        · exact horig pc h hp
    | false =>
    obtain ⟨cands, loc, o, hl, hm, hread, ho⟩ := hint i _ hr hpad
    rw [hf] at ho
    injection ho with ho
    subst ho
    refine ⟨(loc, f) :: choice, ⟨fun _ => ⟨cands, files[i].length, hl, hm, rfl, hread⟩, hc⟩, ?_, ?_⟩
    · simp only [comboData, hdata, readPiece, List.map_cons, List.flatten_cons]
      congr 1
      have hnp : nodePart (⟨i, s, e, files[i]⟩ : PathNode) f = getPart s e f :=
        nodePart_file (pn := ⟨i, s, e, files[i]⟩) hpad f
      rw [hnp]
      simp [Spec.readNode, hf]
    · intro pc hpc _
      simp only [List.zip_cons_cons, List.mem_cons] at hpc
      rcases hpc with h | h
      · subst h; exact hf
      · exact horig pc h (by assumption)

theorem v1PieceNodes_solvable (H1 : Bytes → Bytes) (pl : Nat) (hpl : 0 < pl) {fs0 : FS} {filemap : FileMap}
    {files : List FileRec} {orig : List Bytes}
    (hlens : files.map (·.length) = orig.map List.length) (hint : IntactV1 fs0 filemap files orig)
    (hpads : PadsAreZeros files orig) :
    ∀ pp ∈ v1PieceNodes pl ((chunks pl orig.flatten).map H1) files, SolvableOrig H1 fs0 filemap orig pp := by
  intro pp hpp
  have hlen : files.length = orig.length := by
    have := congrArg List.length hlens; simpa using this
  unfold v1PieceNodes at hpp
  rw [hlens, List.length_map] at hpp
  have hread := mapPieces_read pl hpl orig _ rfl
  have hok := mapPieces_nodeOK pl (chunks pl orig.flatten).length orig
  obtain ⟨k, hk⟩ := List.mem_iff_getElem?.mp hpp
  rw [List.getElem?_zip_eq_some] at hk
  obtain ⟨h1, h2⟩ := hk
  rw [List.getElem?_map] at h1 h2
  cases hn : (mapPieces pl (chunks pl orig.flatten).length (orig.map List.length))[k]? with
  | none => rw [hn] at h2; cases h2
  | some nodes =>
    rw [hn] at h2
    simp at h2
    have hmem : nodes ∈ mapPieces pl (chunks pl orig.flatten).length (orig.map List.length) :=
      List.mem_of_getElem? hn
    obtain ⟨choice, hc, hdata, horig⟩ := intact_combo hlen hint hpads nodes (hok nodes hmem)
    have hchunk : (chunks pl orig.flatten)[k]? = some (readPiece orig nodes) := by
      rw [← hread, List.getElem?_map, hn]; rfl
    rw [hchunk] at h1
    simp at h1
    refine ⟨choice, ?_, ?_, ?_⟩
    · rw [← h2]; exact hc
    · rw [← h2, ← h1, hdata]
    · rw [← h2]; exact horig

/-- v1 completeness: every file record whose destination is accepted is counted -/
theorem matchV1_complete (H1 : Bytes → Bytes) (ds : Nat) (fs0 : FS) (filemap : FileMap) (dest : Path)
    (pl : Nat) (hpl : 0 < pl) (files : List FileRec) (orig : List Bytes)
    (hd : CleanPath dest) (hr : DestReady fs0 dest) (hok : FilemapOK fs0 dest filemap)
    (hlens : files.map (·.length) = orig.map List.length) (hne : orig.flatten ≠ [])
    (hint : IntactV1 fs0 filemap files orig) (hpads : PadsAreZeros files orig) :
    ∀ r ∈ files, r.pad = false → (safeJoin dest r.full).isSome →
      r.full ∈ (matchV1 H1 ds fs0 filemap dest pl ((chunks pl orig.flatten).map H1) files).2 := by
  intro r hr' hrpad hacc
  have hlen : files.length = orig.length := by
    have := congrArg List.length hlens; simpa using this
  obtain ⟨i, hi, hget⟩ := List.getElem_of_mem hr'
  -- file i has a node in some piece
  obtain ⟨p, hp, nd, hnd, hni⟩ := mapPieces_all_files pl hpl orig _ rfl hne i (by omega)
  -- the corresponding path node
  have hpn : (⟨nd.1, nd.2.1, nd.2.2, r⟩ : PathNode) ∈ toPathNodes files p := by
    unfold toPathNodes
    rw [List.mem_filterMap]
    refine ⟨nd, hnd, ?_⟩
    have : files[nd.1]? = some r := by rw [hni, List.getElem?_eq_getElem hi, hget]
    simp [this]
  obtain ⟨k, hk⟩ := List.mem_iff_getElem?.mp hp
  have hklt : k < (chunks pl orig.flatten).length := by
    have h1 := (List.getElem?_eq_some_iff.mp hk).1
    have h2 := congrArg List.length (mapPieces_read pl hpl orig _ rfl)
    simp at h2
    omega
  have hpp : (H1 (chunks pl orig.flatten)[k], toPathNodes files p) ∈
      v1PieceNodes pl ((chunks pl orig.flatten).map H1) files := by
    unfold v1PieceNodes
    rw [hlens, List.length_map]
    apply List.mem_iff_getElem?.mpr
    refine ⟨k, ?_⟩
    rw [List.getElem?_zip_eq_some]
    constructor
    · simp [List.getElem?_map, List.getElem?_eq_getElem hklt]
    · rw [List.getElem?_map, hk]; rfl
  have := matchV1Loop_counts H1 ds fs0 filemap dest hd hok _ fs0 [] hr (fun _ _ => rfl)
    (fun pp hpp => (v1PieceNodes_solvable H1 pl hpl hlens hint hpads pp hpp).solvable) _ hpp _ hpn hrpad hacc
  simpa [matchV1] using this

/-! ### content of the copies under an injective digest -/

theorem getPart_length (s : Nat) (e : Option Nat) (d : Bytes) :
    (getPart s e d).length = match e with
      | none => d.length - s
      | some x => min (x - s) (d.length - s) := by
  cases e <;> simp [getPart, List.length_take, List.length_drop]

theorem combo_parts_eq {fs0 : FS} {dest : Path} {filemap : FileMap} (hok : FilemapOK fs0 dest filemap)
    {paths : List PathNode} :
    ∀ {c1 c2 : List (Path × Bytes)}, Combo fs0 filemap paths c1 → Combo fs0 filemap paths c2 →
      comboData paths c1 = comboData paths c2 →
      ∀ pcc ∈ List.zip paths (List.zip c1 c2), pcc.1.file.pad = false →
        getPart pcc.1.start pcc.1.stop pcc.2.1.2 = getPart pcc.1.start pcc.1.stop pcc.2.2.2 := by
  induction paths with
  | nil => intro c1 c2 _ _ _ pcc h; simp at h
  | cons pn ps ih =>
    intro c1 c2 h1 h2 heq pcc hpcc hpp
    cases c1 with
    | nil => exact absurd h1 (by simp [Combo])
    | cons a as =>
      cases c2 with
      | nil => exact absurd h2 (by simp [Combo])
      | cons b bs =>
        obtain ⟨hh1, hrest1⟩ := h1
        obtain ⟨hh2, hrest2⟩ := h2
        simp only [comboData] at heq
        cases hpad : pn.file.pad with
        | true =>
          rw [nodePart_pad hpad, nodePart_pad hpad] at heq
          have e2 := List.append_cancel_left heq
          simp only [List.zip_cons_cons, List.mem_cons] at hpcc
          rcases hpcc with h | h
          · subst h; simp only at hpp; rw [hpad] at hpp; cases hpp
          · exact ih hrest1 hrest2 e2 pcc h hpp
        | false =>
        obtain ⟨cands1, sz1, hl1, hm1, hsz1, hr1⟩ := hh1 hpad
        obtain ⟨cands2, sz2, hl2, hm2, hsz2, hr2⟩ := hh2 hpad
        obtain ⟨_, d1, hd1, hlen1⟩ := hok _ _ hl1 _ hm1
        obtain ⟨_, d2, hd2, hlen2⟩ := hok _ _ hl2 _ hm2
        rw [hr1] at hd1; injection hd1 with hd1
        rw [hr2] at hd2; injection hd2 with hd2
        have hlen : a.2.length = b.2.length := by
          rw [hd1, hd2, hlen1, hlen2, hsz1, hsz2]
        rw [nodePart_file hpad, nodePart_file hpad] at heq
        have hpl : (getPart pn.start pn.stop a.2).length = (getPart pn.start pn.stop b.2).length := by
          rw [getPart_length, getPart_length, hlen]
        obtain ⟨e1, e2⟩ := List.append_inj heq hpl
        simp only [List.zip_cons_cons, List.mem_cons] at hpcc
        rcases hpcc with h | h
        · subst h; exact e1
        · exact ih hrest1 hrest2 e2 pcc h hpp

theorem combo_length {fs : FS} {filemap : FileMap} {paths : List PathNode} :
    ∀ {c : List (Path × Bytes)}, Combo fs filemap paths c → c.length = paths.length := by
  induction paths with
  | nil => intro c h; cases c with
    | nil => rfl
    | cons a as => exact absurd h (by simp [Combo])
  | cons pn ps ih => intro c h; cases c with
    | nil => exact absurd h (by simp [Combo])
    | cons a as => simp [ih h.2]

/-- with an injective digest and no partial decoy, every v1 copy takes a file whose contents are
    the original contents of the file it is placed as -/
theorem matchV1_copies_correct (H1 : Bytes → Bytes) (hinj : ∀ a b, H1 a = H1 b → a = b) (ds : Nat)
    (fs0 : FS) (filemap : FileMap) (dest : Path) (pl : Nat) (hpl : 0 < pl) (files : List FileRec)
    (orig : List Bytes) (hd : CleanPath dest) (hr : DestReady fs0 dest) (hok : FilemapOK fs0 dest filemap)
    (hlens : files.map (·.length) = orig.map List.length) (hint : IntactV1 fs0 filemap files orig)
    (hpads : PadsAreZeros files orig)
    (hnd : NoPartialDecoy fs0 filemap (v1PieceNodes pl ((chunks pl orig.flatten).map H1) files) orig)
    (src dst : Path)
    (h : Op.copy src dst ∈ (matchV1 H1 ds fs0 filemap dest pl ((chunks pl orig.flatten).map H1) files).1) :
    ∃ r ∈ files, ∃ (i : Nat) (o : Bytes), files[i]? = some r ∧ r.pad = false ∧
      safeJoin dest r.full = some dst ∧ orig[i]? = some o ∧ fs0.readFile? src = some o := by
  have run := matchV1_run H1 ds fs0 filemap dest pl ((chunks pl orig.flatten).map H1) files
  have hb := run.opsBelow (dest := dest) (fun _ _ _ g => by
    obtain ⟨r, _, hsj, _⟩ := GoodV1.file g
    exact (safeJoin_some dest hd _ _ hsj).1) hr
  have htr := (trace_below dest _ fs0 hr hb).1
  obtain ⟨pre, ⟨suf, hpre⟩, pp, hpp, choice, hcombo', hhash, pc, hpc, hsrc, hsj, hpcpad⟩ := run.copy_mem h
  -- the state in which the piece was verified agrees with the initial one outside dest
  have hagree : Agree (applyOps fs0 pre) fs0 dest := by
    rw [← hpre, TraceAll_append] at htr
    exact Agree.trans_trace (fun _ _ => rfl) htr.1
  have hcombo := combo_agree' hagree hok hcombo'
  obtain ⟨choice0, hcombo0, hhash0, horig⟩ := v1PieceNodes_solvable H1 pl hpl hlens hint hpads pp hpp
  have hdata : comboData pp.2 choice = comboData pp.2 choice0 := hinj _ _ (hhash.trans hhash0.symm)
  have hparts := combo_parts_eq hok hcombo hcombo0 hdata
  -- locate pc and its partner in choice0
  obtain ⟨j, hj⟩ := List.mem_iff_getElem?.mp hpc
  rw [List.getElem?_zip_eq_some] at hj
  obtain ⟨hj1, hj2⟩ := hj
  have hjlt : j < choice0.length := by
    rw [combo_length hcombo0]
    exact (List.getElem?_eq_some_iff.mp hj1).1
  have hj3 : choice0[j]? = some choice0[j] := List.getElem?_eq_getElem hjlt
  have htriple : (pc.1, (pc.2, choice0[j])) ∈ List.zip pp.2 (List.zip choice choice0) := by
    apply List.mem_iff_getElem?.mpr
    refine ⟨j, ?_⟩
    rw [List.getElem?_zip_eq_some]
    refine ⟨hj1, ?_⟩
    rw [List.getElem?_zip_eq_some]
    exact ⟨hj2, hj3⟩
  have hpart := hparts _ htriple hpcpad
  simp only at hpart
  have hpc0 : (pc.1, choice0[j]) ∈ List.zip pp.2 choice0 := by
    apply List.mem_iff_getElem?.mpr
    refine ⟨j, ?_⟩
    rw [List.getElem?_zip_eq_some]
    exact ⟨hj1, hj3⟩
  have ho := horig _ hpc0 hpcpad
  simp only at ho
  obtain ⟨cands, sz, hl, hm, hsz, hread⟩ := combo_zip_mem hcombo pc hpc hpcpad
  have hpn : pc.1 ∈ pp.2 := (List.of_mem_zip hpc).1
  have heq := hnd pp hpp pc.1 hpn hpcpad cands pc.2.1 pc.2.2 choice0[j].2 hl (hsz ▸ hm) hread ho hpart
  -- the record
  have hfile : files[pc.1.idx]? = some pc.1.file := by
    unfold v1PieceNodes at hpp
    have h2 := (List.of_mem_zip hpp).2
    rw [List.mem_map] at h2
    obtain ⟨ns, _, hns⟩ := h2
    rw [← hns] at hpn
    exact (toPathNodes_mem hpn).1
  refine ⟨pc.1.file, List.mem_of_getElem? hfile, pc.1.idx, choice0[j].2, hfile, hpcpad, hsj, ho, ?_⟩
  rw [← hsrc, hread, heq]

end Impl
end TorrentVerif

import TorrentVerif.Proofs.Quote
import TorrentVerif.Proofs.Codec
/-
  `commands.magnet`: the URI, read back with a query-string parser, consists of exactly the
  parameters xt (per the version logic), dn, tr…, ws… in this order.
-/
namespace TorrentVerif
open Impl Spec

/-- `key=value` -/
def seg (kv : Bytes × Bytes) : Bytes := kv.1 ++ 61 :: kv.2

/-- the raw (still quoted) parameters of the magnet URI -/
def rawParams (H1 H2 : Bytes → Bytes) (info : Dict) (ver : Nat) (name : Bytes)
    (tr ws : Option (List Bytes)) : List (Bytes × Bytes) :=
  (if wantV1 info ver then [(pXt, urnBtih ++ hexLower (H1 (encode (.dict info))))] else []) ++
  (if wantV2 info ver then [(pXt, urnBtmh ++ hexLower (H2 (encode (.dict info))))] else []) ++
  [(pDn, quotePlus name)] ++ (shownUrls tr).map (fun u => (pTr, quotePlus u)) ++
  (shownUrls ws).map (fun u => (pWs, quotePlus u))

theorem paramList_eq (key : Bytes) (o : Option (List Bytes)) :
    paramList (38 :: key ++ [61]) o =
      (((shownUrls o).map (fun u => seg (key, quotePlus u))).map (38 :: ·)).flatten := by
  cases o with
  | none => rfl
  | some urls =>
    simp only [paramList, shownUrls]
    by_cases h1 : urls = [[]]
    · subst h1; simp [quotePlus]
    · have hne : (urls.map fun u => (38 :: key ++ [61]) ++ quotePlus u).flatten ≠ 38 :: key ++ [61] := by
        intro e
        cases urls with
        | nil => simp at e
        | cons u r =>
          cases r with
          | nil =>
            simp only [List.map_cons, List.map_nil, List.flatten_cons, List.flatten_nil,
              List.append_nil] at e
            have : quotePlus u = [] := by
              have := congrArg List.length e
              simp only [List.length_append] at this
              exact List.length_eq_zero_iff.mp (by omega)
            exact h1 (by rw [quotePlus_eq_nil u this])
          | cons v r' =>
            have := congrArg List.length e
            simp only [List.map_cons, List.flatten_cons, List.length_append, List.length_cons] at this
            omega
      simp only [hne, if_false, h1]
      congr 1
      simp [seg, List.map_map, Function.comp_def]

theorem sTr_eq : sTr = 38 :: pTr ++ [61] := rfl
theorem sWs_eq : sWs = 38 :: pWs ++ [61] := rfl

/-- the part of the URI after `magnet:?`, as a first component and `&`-prefixed components -/
theorem magnet_body (H1 H2 : Bytes → Bytes) (info : Dict) (ver : Nat) (name : Bytes)
    (tr ws : Option (List Bytes)) :
    ∃ first segs, (first :: segs).filter (· ≠ []) = (rawParams H1 H2 info ver name tr ws).map seg ∧
      ((if wantV1 info ver then sBtih ++ hexLower (H1 (encode (.dict info))) else []) ++
        (if wantV2 info ver then
          (if wantV1 info ver then [38] else []) ++ sBtmh ++ hexLower (H2 (encode (.dict info)))
         else [])) ++ sDn ++ quotePlus name ++ paramList sTr tr ++ paramList sWs ws
        = first ++ (segs.map (38 :: ·)).flatten := by
  rw [sTr_eq, sWs_eq, paramList_eq pTr, paramList_eq pWs]
  have hb : sBtih = seg (pXt, urnBtih) := rfl
  have hm : sBtmh = seg (pXt, urnBtmh) := rfl
  have hd : sDn = 38 :: seg (pDn, []) := rfl
  have segne : ∀ kv : Bytes × Bytes, seg kv ≠ [] := by intro kv; simp [seg]
  have fne : ∀ l : List (Bytes × Bytes), (l.map seg).filter (· ≠ []) = l.map seg := by
    intro l
    rw [List.filter_eq_self]
    intro s hs
    obtain ⟨kv, _, rfl⟩ := List.mem_map.mp hs
    simpa using segne kv
  unfold rawParams
  cases h1 : wantV1 info ver <;> cases h2 : wantV2 info ver
  · -- no xt at all: "magnet:?&dn=…"
    refine ⟨[], ((pDn, quotePlus name) :: ((shownUrls tr).map (fun u => (pTr, quotePlus u)) ++
      (shownUrls ws).map (fun u => (pWs, quotePlus u)))).map seg, ?_, ?_⟩
    · simp only [List.filter_cons, ne_eq, not_true_eq_false, decide_false, Bool.false_eq_true,
        if_false]
      rw [fne]; simp
    · simp [hd, seg, List.map_map, Function.comp_def]
  · refine ⟨seg (pXt, urnBtmh ++ hexLower (H2 (encode (.dict info)))),
      ((pDn, quotePlus name) :: ((shownUrls tr).map (fun u => (pTr, quotePlus u)) ++
      (shownUrls ws).map (fun u => (pWs, quotePlus u)))).map seg, ?_, ?_⟩
    · rw [← List.map_cons, fne]; simp
    · simp [hd, hm, seg, List.map_map, Function.comp_def]
  · refine ⟨seg (pXt, urnBtih ++ hexLower (H1 (encode (.dict info)))),
      ((pDn, quotePlus name) :: ((shownUrls tr).map (fun u => (pTr, quotePlus u)) ++
      (shownUrls ws).map (fun u => (pWs, quotePlus u)))).map seg, ?_, ?_⟩
    · rw [← List.map_cons, fne]; simp
    · simp [hd, hb, seg, List.map_map, Function.comp_def]
  · refine ⟨seg (pXt, urnBtih ++ hexLower (H1 (encode (.dict info)))),
      ((pXt, urnBtmh ++ hexLower (H2 (encode (.dict info)))) :: (pDn, quotePlus name) ::
      ((shownUrls tr).map (fun u => (pTr, quotePlus u)) ++
      (shownUrls ws).map (fun u => (pWs, quotePlus u)))).map seg, ?_, ?_⟩
    · rw [← List.map_cons, fne]; simp
    · simp [hd, hb, hm, seg, List.map_map, Function.comp_def]


/-- a successful `magnet`, spelled out -/
theorem magnet_ok (H1 H2 : Bytes → Bytes) (mf : BVal) (ver : Nat) (uri : Bytes)
    (h : magnet H1 H2 mf ver = .ok uri) :
    ∃ top info name tr ws, mf = .dict top ∧ dictGet top K.info = some (.dict info) ∧
      dictGet info K.name = some (.str name) ∧ trackerUrls top = .ok tr ∧ seedUrls top = .ok ws ∧
      uri = sMagnet ++ (((if wantV1 info ver then sBtih ++ hexLower (H1 (encode (.dict info))) else []) ++
        (if wantV2 info ver then
          (if wantV1 info ver then [38] else []) ++ sBtmh ++ hexLower (H2 (encode (.dict info)))
         else [])) ++ sDn ++ quotePlus name ++ paramList sTr tr ++ paramList sWs ws) := by
  unfold magnet at h
  cases mf with
  | dict top =>
    simp only at h
    cases hi : dictGet top K.info with
    | none => simp [hi] at h
    | some iv =>
      cases iv with
      | dict info =>
        simp only [hi] at h
        cases hn : dictGet info K.name with
        | none => simp [hn] at h
        | some nv =>
          cases nv with
          | str name =>
            simp only [hn] at h
            cases ht : trackerUrls top with
            | error e => simp [ht] at h
            | ok tr =>
              cases hw : seedUrls top with
              | error e => simp [ht, hw] at h
              | ok ws =>
                simp only [ht, hw, Except.ok.injEq] at h
                refine ⟨top, info, name, tr, ws, rfl, hi, hn, ht, hw, ?_⟩
                rw [← h]
                cases wantV1 info ver <;> cases wantV2 info ver <;> simp [List.append_assoc]
          | int _ => simp [hn] at h
          | list _ => simp [hn] at h
          | dict _ => simp [hn] at h
      | int _ => simp [hi] at h
      | str _ => simp [hi] at h
      | list _ => simp [hi] at h
  | int _ => simp at h
  | str _ => simp at h
  | list _ => simp at h

/-- the decoded parameters -/
def decodedParams (H1 H2 : Bytes → Bytes) (info : Dict) (ver : Nat) (name : Bytes)
    (tr ws : Option (List Bytes)) : List (Bytes × Bytes) :=
  (if wantV1 info ver then [(pXt, urnBtih ++ hexLower (H1 (encode (.dict info))))] else []) ++
  (if wantV2 info ver then [(pXt, urnBtmh ++ hexLower (H2 (encode (.dict info))))] else []) ++
  [(pDn, name)] ++ (shownUrls tr).map (fun u => (pTr, u)) ++ (shownUrls ws).map (fun u => (pWs, u))

theorem unquote_urn (urn d : Bytes) (h : ∀ c ∈ urn, c ≠ 43 ∧ c ≠ 37) :
    unquotePlus (urn ++ hexLower d) = urn ++ hexLower d := by
  apply unquotePlus_id
  intro c hc
  rcases List.mem_append.mp hc with e | e
  · exact h c e
  · have := hexLower_safe d c e; exact ⟨this.2.2.1, this.2.2.2⟩

theorem plain_urn (urn d : Bytes) (h : ∀ c ∈ urn, c ≠ 38 ∧ c ≠ 61) : plain (urn ++ hexLower d) := by
  intro c hc
  rcases List.mem_append.mp hc with e | e
  · exact h c e
  · have := hexLower_safe d c e; exact ⟨this.1, this.2.1⟩

/-- every raw parameter: key one of xt/dn/tr/ws, value free of `&` and `=` -/
theorem rawParams_ok (H1 H2 : Bytes → Bytes) (info : Dict) (ver : Nat) (name : Bytes)
    (tr ws : Option (List Bytes)) :
    ∀ kv ∈ rawParams H1 H2 info ver name tr ws,
      (kv.1 = pXt ∨ kv.1 = pDn ∨ kv.1 = pTr ∨ kv.1 = pWs) ∧ plain kv.2 := by
  intro kv hkv
  unfold rawParams at hkv
  simp only [List.mem_append, List.mem_map, List.mem_singleton] at hkv
  rcases hkv with (((hkv | hkv) | hkv) | hkv) | hkv
  · split at hkv
    · simp only [List.mem_singleton] at hkv; subst hkv
      exact ⟨Or.inl rfl, plain_urn _ _ (by decide)⟩
    · simp at hkv
  · split at hkv
    · simp only [List.mem_singleton] at hkv; subst hkv
      exact ⟨Or.inl rfl, plain_urn _ _ (by decide)⟩
    · simp at hkv
  · subst hkv; exact ⟨Or.inr (Or.inl rfl), quotePlus_plain _⟩
  · obtain ⟨u, _, rfl⟩ := hkv; exact ⟨Or.inr (Or.inr (Or.inl rfl)), quotePlus_plain _⟩
  · obtain ⟨u, _, rfl⟩ := hkv; exact ⟨Or.inr (Or.inr (Or.inr rfl)), quotePlus_plain _⟩

theorem rawParams_decoded (H1 H2 : Bytes → Bytes) (info : Dict) (ver : Nat) (name : Bytes)
    (tr ws : Option (List Bytes)) :
    (rawParams H1 H2 info ver name tr ws).map (fun kv => (kv.1, unquotePlus kv.2))
      = decodedParams H1 H2 info ver name tr ws := by
  unfold rawParams decodedParams
  simp only [List.map_append, List.map_map, Function.comp_def, List.map_cons, List.map_nil,
    unquotePlus_quotePlus]
  have e1 := unquote_urn urnBtih (H1 (encode (.dict info))) (by decide)
  have e2 := unquote_urn urnBtmh (H2 (encode (.dict info))) (by decide)
  cases wantV1 info ver <;> cases wantV2 info ver <;> simp [e1, e2]

/-- The URI produced by `magnet`, parsed as a query string, is exactly: the `xt` parameters
    the version logic selects, then `dn`, then one `tr` per tracker URL, then one `ws` per web
    seed, with every value URL-decoding to the original string. -/
theorem magnet_query (H1 H2 : Bytes → Bytes) (mf : BVal) (ver : Nat) (uri : Bytes)
    (h : magnet H1 H2 mf ver = .ok uri) :
    ∃ top info name tr ws, mf = .dict top ∧ dictGet top K.info = some (.dict info) ∧
      dictGet info K.name = some (.str name) ∧ trackerUrls top = .ok tr ∧ seedUrls top = .ok ws ∧
      queryParams uri = some (decodedParams H1 H2 info ver name tr ws) := by
  obtain ⟨top, info, name, tr, ws, hm, hi, hn, ht, hw, hu⟩ := magnet_ok H1 H2 mf ver uri h
  refine ⟨top, info, name, tr, ws, hm, hi, hn, ht, hw, ?_⟩
  obtain ⟨first, segs, hf, hb⟩ := magnet_body H1 H2 info ver name tr ws
  rw [hu, hb]
  have hraw := rawParams_ok H1 H2 info ver name tr ws
  -- no `&` inside any component
  have hseg38 : ∀ kv ∈ rawParams H1 H2 info ver name tr ws, ∀ c ∈ seg kv, c ≠ 38 := by
    intro kv hkv c hc
    obtain ⟨hk, hv⟩ := hraw kv hkv
    simp only [seg, List.mem_append, List.mem_cons] at hc
    rcases hc with e | e | e
    · rcases hk with k | k | k | k <;> rw [k] at e <;> revert c <;> decide
    · subst e; decide
    · exact (hv c e).1
  have hall38 : ∀ s ∈ first :: segs, ∀ c ∈ s, c ≠ 38 := by
    intro s hs c hc
    by_cases hne : s = []
    · subst hne; simp at hc
    · have : s ∈ (first :: segs).filter (· ≠ []) := List.mem_filter.mpr ⟨hs, by simpa using hne⟩
      rw [hf] at this
      obtain ⟨kv, hkv, rfl⟩ := List.mem_map.mp this
      exact hseg38 kv hkv c hc
  have hsplit := splitOn_join 38 first segs (hall38 first (by simp))
    (fun s hs => hall38 s (List.mem_cons_of_mem _ hs))
  unfold queryParams
  have htake : (sMagnet ++ (first ++ (segs.map (38 :: ·)).flatten)).take 8 = sMagnet := by
    simp [sMagnet]
  have hdrop : (sMagnet ++ (first ++ (segs.map (38 :: ·)).flatten)).drop 8
      = first ++ (segs.map (38 :: ·)).flatten := by
    simp [sMagnet]
  rw [htake, hdrop, hsplit, hf]
  simp only [if_true, Option.some.injEq, List.map_map]
  rw [← rawParams_decoded]
  apply List.map_congr_left
  intro kv hkv
  obtain ⟨hk, _⟩ := hraw kv hkv
  have hcut : cutAt 61 (seg kv) = (kv.1, kv.2) := by
    apply cutAt_append
    intro c hc
    rcases hk with k | k | k | k <;> rw [k] at hc <;> revert c <;> decide
  simp [hcut]

/-! ### selecting parameters; reading tracker tiers and seed lists -/

theorem paramsOf_append (k : Bytes) (a b : List (Bytes × Bytes)) :
    paramsOf k (a ++ b) = paramsOf k a ++ paramsOf k b := by simp [paramsOf]

theorem paramsOf_same (k : Bytes) (l : List Bytes) : paramsOf k (l.map fun u => (k, u)) = l := by
  induction l with
  | nil => rfl
  | cons x r ih => simp only [paramsOf, List.map_cons] at ih ⊢; simp [ih]

theorem paramsOf_other (k k' : Bytes) (l : List Bytes) (h : k' ≠ k) :
    paramsOf k (l.map fun u => (k', u)) = [] := by
  induction l with
  | nil => rfl
  | cons x r ih => simp only [paramsOf, List.map_cons] at ih ⊢; simp [h, ih]

theorem paramsOf_one_same (k v : Bytes) : paramsOf k [(k, v)] = [v] := by simp [paramsOf]

theorem paramsOf_one_other (k k' v : Bytes) (h : k' ≠ k) : paramsOf k [(k', v)] = [] := by
  simp [paramsOf, h]

theorem paramsOf_nil (k : Bytes) : paramsOf k [] = [] := rfl

theorem asStrs_map (l : List Bytes) : asStrs (l.map .str) = .ok l := by
  induction l with
  | nil => rfl
  | cons x r ih => simp [asStrs, asStr, ih]

theorem flattenTiers_map (tiers : List (List Bytes)) :
    flattenTiers (tiers.map strs) = .ok tiers.flatten := by
  induction tiers with
  | nil => rfl
  | cons t r ih => simp [flattenTiers, strs, asStrs_map, ih]

end TorrentVerif

import TorrentVerif.Model.RebuildMeta
import TorrentVerif.Proofs.RbMetaPath
import TorrentVerif.Proofs.EndToEndV2
/-
  `Impl.extractMeta` on the metafiles the creators write: the file records of `rebuild` are the
  files of the content tree (helper lemmas of `Props/C13.extract_of_created_*`).
-/
namespace TorrentVerif
open Rebuild PosixPath Spec Impl Listing

namespace RbMeta
open E2E

/-! ### the written file tree as `_parse_tree` reads it -/

mutual
/-- the structured tree `Impl.toMetaTree` makes of the written dictionary -/
def metaOf (hf : Bytes → FileHash) : FTree → MetaTree
  | .leaf d => .file d.length (rootOpt hf d)
  | .node es => .dir (metaList hf es)
def metaList (hf : Bytes → FileHash) : List (Bytes × FTree) → List (Bytes × MetaTree)
  | [] => []
  | (n, c) :: t => (n, metaOf hf c) :: metaList hf t
end

theorem toMetaTree_leafVal (hf : Bytes → FileHash) (d : Bytes) :
    toMetaTree (leafVal hf d) = .ok (.file d.length (rootOpt hf d)) := by
  unfold leafVal rootOpt
  by_cases h : d.length = 0
  · simp [h, toMetaTree, dictGet, leafOfVal, RF.sub, RF.nat, K.length, RF.kPiecesRoot, bind,
      Except.bind]
  · simp [h, toMetaTree, dictGet, leafOfVal, RF.sub, RF.nat, K.length, K.piecesRoot,
      RF.kPiecesRoot, bind, Except.bind]

theorem dictGet_treeValList_nil (hf : Bytes → FileHash) : (es : List (Bytes × FTree)) →
    PlainKeysList es → dictGet (treeValList hf es) [] = none
  | [], _ => rfl
  | (n, c) :: t, h => by
    simp only [PlainKeysList] at h
    have hn : n ≠ [] := (plainName_parts n h.1).1
    simp only [treeValList, dictGet, hn, if_false]
    exact dictGet_treeValList_nil hf t h.2.2

mutual
theorem toMetaTree_treeVal (hf : Bytes → FileHash) : (ft : FTree) → PlainKeys ft →
    toMetaTree (treeVal hf ft) = .ok (metaOf hf ft)
  | .leaf d, _ => by simp [treeVal, metaOf, toMetaTree_leafVal]
  | .node es, h => by
    simp only [PlainKeys] at h
    simp only [treeVal, toMetaTree, dictGet_treeValList_nil hf es h, metaOf,
      toMetaEntries_treeValList hf es h]
    rfl
theorem toMetaEntries_treeValList (hf : Bytes → FileHash) : (es : List (Bytes × FTree)) →
    PlainKeysList es → toMetaEntries (treeValList hf es) = .ok (metaList hf es)
  | [], _ => by simp [treeValList, toMetaEntries, metaList]
  | (n, c) :: t, h => by
    simp only [PlainKeysList] at h
    simp only [treeValList, toMetaEntries, toMetaTree_treeVal hf c h.2.1,
      toMetaEntries_treeValList hf t h.2.2, metaList, bind, Except.bind]
end

/-- the record of a traversed file -/
def recV2 (name : Bytes) (hf : Bytes → FileHash) (x : List Bytes × Bytes) : FileRec :=
  fileRecOf name x.1 x.2.length (rootOpt hf x.2)

theorem getLast_snoc (name : Bytes) (pre : List Bytes) (key : Bytes) :
    (name :: (pre ++ [key])).getLast?.getD name = key := by
  have : name :: (pre ++ [key]) = (name :: pre) ++ [key] := rfl
  rw [this, List.getLast?_append]; simp

mutual
theorem parseEntry_metaOf (name : Bytes) (hname : CleanComp name) (hf : Bytes → FileHash) :
    (ft : FTree) → (pre : List Bytes) → (key : Bytes) → (∀ c ∈ pre, CleanComp c) → CleanComp key →
    PlainKeys ft →
    parseEntry (name :: pre) key (metaOf hf ft) = (ftreeFiles (pre ++ [key]) ft).map (recV2 name hf)
  | .leaf d, pre, key, hpre, hkey, _ => by
    simp only [metaOf, parseEntry, ftreeFiles, List.map_cons, List.map_nil, recV2, fileRecOf]
    have hcl : ∀ c ∈ (name :: pre) ++ [key], CleanComp c := by
      intro c hc
      simp only [List.cons_append, List.mem_cons, List.mem_append, List.not_mem_nil, or_false] at hc
      rcases hc with rfl | hc | rfl
      · exact hname
      · exact hpre c hc
      · exact hkey
    rw [pathlibStr_plain _ (by simp) hcl, getLast_snoc]
    rfl
  | .node es, pre, key, hpre, hkey, h => by
    simp only [PlainKeys] at h
    simp only [metaOf, parseEntry, ftreeFiles]
    have := parseTree_metaList name hname hf es (pre ++ [key])
      (by intro c hc
          rcases List.mem_append.mp hc with h' | h'
          · exact hpre c h'
          · simp at h'; subst h'; exact hkey) h
    simpa using this
theorem parseTree_metaList (name : Bytes) (hname : CleanComp name) (hf : Bytes → FileHash) :
    (es : List (Bytes × FTree)) → (pre : List Bytes) → (∀ c ∈ pre, CleanComp c) →
    PlainKeysList es →
    parseTree (name :: pre) (metaList hf es) = (ftreeFilesList pre es).map (recV2 name hf)
  | [], _, _, _ => by simp [metaList, parseTree, ftreeFilesList]
  | (n, c) :: t, pre, hpre, h => by
    simp only [PlainKeysList] at h
    simp only [metaList, parseTree, ftreeFilesList, List.map_append]
    rw [parseEntry_metaOf name hname hf c pre n hpre (cleanComp_of_plain n h.1) h.2.1,
      parseTree_metaList name hname hf t pre hpre h.2.2]
end

/-- a directory whose traversal is the single file `name` is the directory `{name: file}` -/
theorem dir_of_single_traverse (enum : List (Bytes × FTree) → List (Bytes × FTree))
    (henum : ∀ l, (enum l).Perm l) (es : List (Bytes × Node)) (k : Bytes) (d : Bytes)
    (h : (enum (traverseChildren enum es)).mergeSort leName = [(k, .leaf d)]) :
    es = [(k, .file d)] := by
  have hp : (traverseChildren enum es).Perm [(k, .leaf d)] := by
    have h1 := List.mergeSort_perm (enum (traverseChildren enum es)) leName
    rw [h] at h1
    exact (henum _).symm.trans h1.symm
  have he := List.perm_singleton.mp hp
  cases es with
  | nil => simp [traverseChildren] at he
  | cons e rest =>
    obtain ⟨n, c⟩ := e
    cases rest with
    | cons e' rest' => obtain ⟨n', c'⟩ := e'; simp [traverseChildren] at he
    | nil =>
      simp only [traverseChildren, List.cons.injEq, Prod.mk.injEq, and_true] at he
      obtain ⟨rfl, hc⟩ := he
      cases c with
      | file d' => simp only [traverse, FTree.leaf.injEq] at hc; subst hc; rfl
      | dir es' => simp [traverse] at hc

/-- `extract` on a decoded v2 / hybrid metafile whose `file tree` is the written traversal of `t`:
    one record per traversed file -/
theorem extractMeta_v2 (o : CreateOpts) (hf : Bytes → FileHash)
    (enum : List (Bytes × FTree) → List (Bytes × FTree)) (henum : ∀ l, (enum l).Perm l)
    (t : Node) (hplain : PlainNamed t) (hname : Spec.plainName o.name = true)
    (r : BVal) (info : Dict) (pl : Nat) (hinfo : r.get? K.info = some (.dict info))
    (hfk : dictHas info K.files = true → ∃ es, t = .dir es)
    (hns : dictHas info K.files = false → ∀ d, t ≠ .dir [(o.name, .file d)])
    (hn : dictGet info K.name = some (.str o.name))
    (hplk : dictGet info K.pieceLength = some (.int pl))
    (hmv : dictGet info K.metaVersion = some (.int 2))
    (hft : dictGet info K.fileTree
      = some (treeOf o.name (singleLen t).isSome (treeVal hf (traverse enum t)))) :
    ∃ m, extractMeta r = .ok m ∧ m.name = o.name ∧ m.pieceLength = pl ∧ m.metaVersion = some 2 ∧
      m.pieces = piecesV2 info ∧
      m.files = (ftreeFiles [] (traverse enum t)).map (recV2 o.name hf) ∧
      m.filenames = nameSet (m.files.map (·.filename)) := by
  have hcn := cleanComp_of_plain o.name hname
  obtain ⟨top, rfl⟩ : ∃ top, r = .dict top := by
    cases r with
    | dict top => exact ⟨top, rfl⟩
    | int _ => simp [BVal.get?] at hinfo
    | str _ => simp [BVal.get?] at hinfo
    | list _ => simp [BVal.get?] at hinfo
  simp only [BVal.get?] at hinfo
  -- the converted tree and its records
  have key : ∃ tree es, treeOf o.name (singleLen t).isSome (treeVal hf (traverse enum t)) = .dict tree ∧
      toMetaEntries tree = .ok es ∧
      (if dictHas info K.files then parseTree [o.name] es else extractV2 o.name es)
        = (ftreeFiles [] (traverse enum t)).map (recV2 o.name hf) := by
    cases t with
    | file d =>
      have hnf : dictHas info K.files = false := by
        cases h : dictHas info K.files with
        | false => rfl
        | true => obtain ⟨es, e⟩ := hfk h; cases e
      rw [hnf]
      simp only [Bool.false_eq_true, if_false]
      refine ⟨[(o.name, leafVal hf d)], [(o.name, .file d.length (rootOpt hf d))], ?_, ?_, ?_⟩
      · simp [singleLen, treeOf, traverse, treeVal]
      · simp [toMetaEntries, toMetaTree_leafVal, bind, Except.bind]
      · simp only [extractV2, if_true, parseTree, parseEntry, traverse, ftreeFiles, List.map_cons,
          List.map_nil, recV2, fileRecOf, List.append_nil, List.nil_append]
        rw [pathlibStr_plain [o.name] (by simp) (by intro c hc; simp at hc; subst hc; exact hcn)]
        rfl
    | dir es =>
      have hpk := traverse_plainKeys enum henum (.dir es) hplain
      simp only [traverse, PlainKeys] at hpk
      refine ⟨treeValList hf ((enum (traverseChildren enum es)).mergeSort leName),
        metaList hf ((enum (traverseChildren enum es)).mergeSort leName), ?_,
        toMetaEntries_treeValList hf _ hpk, ?_⟩
      · simp [singleLen, treeOf, traverse, treeVal]
      · have hmulti : (if dictHas info K.files then
              parseTree [o.name] (metaList hf ((enum (traverseChildren enum es)).mergeSort leName))
            else extractV2 o.name (metaList hf ((enum (traverseChildren enum es)).mergeSort leName)))
            = parseTree [o.name] (metaList hf ((enum (traverseChildren enum es)).mergeSort leName)) := by
          cases hfiles : dictHas info K.files with
          | true => simp
          | false =>
          have hns := hns hfiles
          simp only [Bool.false_eq_true, if_false]
          unfold extractV2
          split
          · rename_i k len root heq
            split
            · rename_i hk
              exfalso
              -- the traversal is the single file `name`
              cases hl : (enum (traverseChildren enum es)).mergeSort leName with
              | nil => rw [hl] at heq; simp [metaList] at heq
              | cons e rest =>
                obtain ⟨n, c⟩ := e
                rw [hl] at heq
                cases rest with
                | cons e' rest' => obtain ⟨n', c'⟩ := e'; simp [metaList] at heq
                | nil =>
                  simp only [metaList, List.cons.injEq, Prod.mk.injEq, and_true] at heq
                  obtain ⟨rfl, hc⟩ := heq
                  cases c with
                  | node es' => simp [metaOf] at hc
                  | leaf d =>
                    have := dir_of_single_traverse enum henum es n d hl
                    exact hns d (by rw [this, hk])
            · rfl
          · rfl
        rw [hmulti, parseTree_metaList o.name hcn hf _ [] (by simp) hpk]
        simp [traverse, ftreeFiles]
  obtain ⟨tree, es, htree, hes, hfiles⟩ := key
  rw [htree] at hft
  refine ⟨⟨o.name, pl, some 2, piecesV2 info,
    (if dictHas info K.files then parseTree [o.name] es else extractV2 o.name es),
    nameSet ((if dictHas info K.files then parseTree [o.name] es else extractV2 o.name es).map
      (·.filename))⟩, ?_, rfl, rfl, rfl, rfl, hfiles, rfl⟩
  simp only [extractMeta, RF.sub, hinfo, hplk, hn, RF.str, hmv, hft, hes, bind, Except.bind, pure,
    Except.pure, if_true]

end RbMeta
end TorrentVerif

namespace TorrentVerif
open Rebuild PosixPath Spec Impl Listing

namespace RbMeta
open E2E

/-! ### the written `files` list as `extract` reads it -/

theorem strs_map_str (p : List Bytes) : RF.strs (p.map BVal.str) = .ok p := by
  induction p with
  | nil => rfl
  | cons a t ih => simp [RF.strs, RF.str, ih, bind, Except.bind]

theorem v1Entry_fileEntry (p : List Bytes) (s : Nat) (hne : p ≠ []) :
    v1Entry (fileEntry p s) = .ok (p, s, false) := by
  simp [v1Entry, fileEntry, RF.sub, dictGet, K.length, K.path, RF.kPath, TorrentVerif.strs,
    strs_map_str, hne, RF.nat, attrIsP, RF.kAttr, bind, Except.bind]

theorem v1Entry_padEntry (n : Nat) : v1Entry (padEntry n) = .ok ([sPad, natDec n], n, true) := by
  have hs : RF.strs [BVal.str sPad, BVal.str (natDec n)] = .ok [sPad, natDec n] := by
    simp [RF.strs, RF.str, bind, Except.bind]
  simp [v1Entry, padEntry, RF.sub, dictGet, K.length, K.path, K.attr, RF.kPath, TorrentVerif.strs,
    hs, RF.nat, attrIsP, RF.kAttr, sP, bind, Except.bind]

/-- the structured entries of a written `files` list -/
def expand (align : Bool) (pl : Nat) : List (List Bytes × Nat) → List (List Bytes × Nat × Bool)
  | [] => []
  | (p, s) :: t =>
    (p, s, false) :: ((if align && gap pl s ≠ 0 then [([sPad, natDec (gap pl s)], gap pl s, true)] else [])
      ++ expand align pl t)

theorem v1EntriesOf_v1Entries (align : Bool) (pl : Nat) (ps : List (List Bytes × Nat))
    (hne : ∀ x ∈ ps, x.1 ≠ []) :
    v1EntriesOf (v1Entries align pl ps) = .ok (expand align pl ps) := by
  induction ps with
  | nil => rfl
  | cons x rest ih =>
    obtain ⟨p, s⟩ := x
    have ih' := ih (fun y hy => hne y (List.mem_cons_of_mem _ hy))
    have hp : p ≠ [] := hne (p, s) List.mem_cons_self
    by_cases hcond : (align && decide (gap pl s ≠ 0)) = true
    · simp only [v1Entries, hcond, if_true, v1EntriesOf, v1Entry_fileEntry p s hp, v1Entry_padEntry,
        ih', expand, bind, Except.bind]
      rfl
    · simp only [v1Entries, hcond, Bool.false_eq_true, if_false, v1EntriesOf,
        v1Entry_fileEntry p s hp, ih', expand, bind, Except.bind]
      rfl

theorem plain_sPad : Spec.plainName sPad = true := by decide

theorem extractV1Multi_expand (name : Bytes) (hname : CleanComp name) (align : Bool) (pl : Nat)
    (ps : List (List Bytes × Nat)) (hne : ∀ x ∈ ps, x.1 ≠ [])
    (hpl : ∀ x ∈ ps, ∀ c ∈ x.1, CleanComp c) :
    extractV1Multi name (expand align pl ps) = some (v1RecsOf name align pl ps) := by
  have hj : ∀ p : List Bytes, (∀ c ∈ p, CleanComp c) → joinAll name p = joinSep (name :: p) := by
    intro p hp
    have := joinAll_plain [name] (by simp)
      (by intro c hc; simp at hc; subst hc; exact ⟨hname.ne_nil, hname.noSep⟩) p
      (fun c hc => ⟨(hp c hc).ne_nil, (hp c hc).noSep⟩)
    simpa [joinSep] using this
  induction ps with
  | nil => rfl
  | cons x rest ih =>
    obtain ⟨p, s⟩ := x
    have ih' := ih (fun y hy => hne y (List.mem_cons_of_mem _ hy))
      (fun y hy => hpl y (List.mem_cons_of_mem _ hy))
    have hp : p ≠ [] := hne (p, s) List.mem_cons_self
    have hpc := hpl (p, s) List.mem_cons_self
    obtain ⟨fn, hfn⟩ : ∃ fn, p.getLast? = some fn := by
      cases h : p.getLast? with
      | none => exact absurd (List.getLast?_eq_none_iff.mp h) hp
      | some fn => exact ⟨fn, rfl⟩
    have hfn' : (name :: p).getLast?.getD name = fn := by
      rw [List.getLast?_cons, hfn]; rfl
    by_cases hcond : (align && decide (gap pl s ≠ 0)) = true
    · have hpadc : ∀ c ∈ [sPad, natDec (gap pl s)], CleanComp c := by
        intro c hc
        simp only [List.mem_cons, List.not_mem_nil, or_false] at hc
        rcases hc with rfl | rfl
        · exact cleanComp_of_plain _ plain_sPad
        · exact cleanComp_of_plain _ (plainName_natDec _)
      simp only [expand, hcond, if_true, List.cons_append, List.nil_append, extractV1Multi, hfn,
        ih', v1RecsOf, fileRecOf, padRecOf, hj p hpc, hj _ hpadc, hfn']
      simp
    · simp only [expand, hcond, Bool.false_eq_true, if_false, List.nil_append, extractV1Multi, hfn,
        ih', v1RecsOf, fileRecOf, hj p hpc, hfn']

/-- `extract` on a decoded v1 metafile whose `files` list is the written one -/
theorem extractMeta_v1_multi (name : Bytes) (hname : Spec.plainName name = true) (align : Bool)
    (ps : List (List Bytes × Nat)) (hne : ∀ x ∈ ps, x.1 ≠ [])
    (hpn : ∀ x ∈ ps, ∀ c ∈ x.1, Spec.plainName c = true)
    (r : BVal) (info : Dict) (pl : Nat) (pieces : Bytes) (hm : V1Meta r info name pl pieces)
    (hlen : dictGet info K.length = none)
    (hfiles : dictGet info K.files = some (.list (v1Entries align pl ps))) :
    extractMeta r = .ok ⟨name, pl, some 1, pieces, v1RecsOf name align pl ps,
      nameSet (v1Filenames (v1RecsOf name align pl ps))⟩ := by
  obtain ⟨top, rfl⟩ : ∃ top, r = .dict top := by
    have := hm.hinfo
    cases r with
    | dict top => exact ⟨top, rfl⟩
    | int _ => simp [BVal.get?] at this
    | str _ => simp [BVal.get?] at this
    | list _ => simp [BVal.get?] at this
  have hinfo := hm.hinfo
  simp only [BVal.get?] at hinfo
  have h1 := v1EntriesOf_v1Entries align pl ps hne
  have h2 := extractV1Multi_expand name (cleanComp_of_plain name hname) align pl ps hne
    (fun x hx c hc => cleanComp_of_plain c (hpn x hx c hc))
  simp only [extractMeta, RF.sub, hinfo, hm.hpl, hm.hname, RF.str, hm.hmv, hm.hpieces, hlen, hfiles,
    h1, h2, bind, Except.bind, pure, Except.pure]
  simp

/-- `extract` on a decoded v1 single-file metafile -/
theorem extractMeta_v1_single (name : Bytes) (n : Nat)
    (r : BVal) (info : Dict) (pl : Nat) (pieces : Bytes) (hm : V1Meta r info name pl pieces)
    (hlen : dictGet info K.length = some (.int n)) :
    extractMeta r = .ok ⟨name, pl, some 1, pieces, [fileRecOf name [] n none], [name]⟩ := by
  obtain ⟨top, rfl⟩ : ∃ top, r = .dict top := by
    have := hm.hinfo
    cases r with
    | dict top => exact ⟨top, rfl⟩
    | int _ => simp [BVal.get?] at this
    | str _ => simp [BVal.get?] at this
    | list _ => simp [BVal.get?] at this
  have hinfo := hm.hinfo
  simp only [BVal.get?] at hinfo
  simp only [extractMeta, RF.sub, hinfo, hm.hpl, hm.hname, RF.str, hm.hmv, hm.hpieces, hlen, RF.nat,
    bind, Except.bind, pure, Except.pure]
  simp [extractV1Single, fileRecOf, joinSep]

end RbMeta
end TorrentVerif

import TorrentVerif.Model.Bencode
/-
  The raw byte order is a strict total order; `sortDict` yields strictly ascending keys.
-/
namespace TorrentVerif

theorem bytesLt_irrefl : ∀ a : Bytes, bytesLt a a = false
  | [] => rfl
  | a :: as => by
    have : ¬ a < a := by rw [UInt8.lt_iff_toNat_lt]; omega
    simp [bytesLt, this, bytesLt_irrefl as]

theorem bytesLt_trans : ∀ a b c : Bytes, bytesLt a b = true → bytesLt b c = true → bytesLt a c = true
  | [], [], _ => by simp [bytesLt]
  | [], _ :: _, [] => by simp [bytesLt]
  | [], _ :: _, _ :: _ => by simp [bytesLt]
  | _ :: _, [], _ => by simp [bytesLt]
  | _ :: _, _ :: _, [] => by simp [bytesLt]
  | a :: as, b :: bs, c :: cs => by
    simp only [bytesLt]
    intro h1 h2
    by_cases hab : a < b
    · by_cases hbc : b < c
      · have : a < c := by rw [UInt8.lt_iff_toNat_lt] at *; omega
        simp [this]
      · simp only [hbc, if_false] at h2
        by_cases e : b = c
        · subst e; simp [hab]
        · simp [e] at h2
    · simp only [hab, if_false] at h1
      by_cases e : a = b
      · subst e
        simp only [if_true] at h1
        by_cases hbc : a < c
        · simp [hbc]
        · simp only [hbc, if_false] at h2 ⊢
          by_cases e2 : a = c
          · subst e2; simp only [if_true] at h2 ⊢; exact bytesLt_trans as bs cs h1 h2
          · simp [e2] at h2
      · simp [e] at h1

theorem bytesLt_trichotomy : ∀ a b : Bytes, bytesLt a b = true ∨ a = b ∨ bytesLt b a = true
  | [], [] => by simp
  | [], _ :: _ => by simp [bytesLt]
  | _ :: _, [] => by simp [bytesLt]
  | a :: as, b :: bs => by
    simp only [bytesLt]
    by_cases hab : a < b
    · simp [hab]
    · by_cases hba : b < a
      · simp [hba]
      · have e : a = b := by
          apply UInt8.toNat_inj.mp
          rw [UInt8.lt_iff_toNat_lt] at hab hba; omega
        subst e
        simp only [hab, if_false, if_true, List.cons.injEq, true_and]
        exact bytesLt_trichotomy as bs

theorem bytesLt_asymm (a b : Bytes) (h : bytesLt a b = true) : bytesLt b a = false := by
  cases hb : bytesLt b a with
  | false => rfl
  | true => have := bytesLt_trans a b a h hb; rw [bytesLt_irrefl] at this; cases this

theorem bytesLt_ne (a b : Bytes) (h : bytesLt a b = true) : a ≠ b := by
  intro e; subst e; rw [bytesLt_irrefl] at h; cases h

/-- totality of `≤` -/
theorem bytesLe_total (a b : Bytes) : (bytesLe a b || bytesLe b a) = true := by
  unfold bytesLe
  rcases bytesLt_trichotomy a b with h | h | h
  · simp [bytesLt_asymm a b h]
  · subst h; simp [bytesLt_irrefl]
  · simp [bytesLt_asymm b a h]

theorem bytesLe_trans (a b c : Bytes) (h1 : bytesLe a b = true) (h2 : bytesLe b c = true) :
    bytesLe a c = true := by
  unfold bytesLe at *
  simp only [Bool.not_eq_true'] at *
  cases hca : bytesLt c a with
  | false => rfl
  | true =>
    rcases bytesLt_trichotomy a b with h | h | h
    · have := bytesLt_trans c a b hca h; rw [h2] at this; cases this
    · subst h; rw [h2] at hca; cases hca
    · rw [h1] at h; cases h

theorem bytesLe_antisymm (a b : Bytes) (h1 : bytesLe a b = true) (h2 : bytesLe b a = true) :
    a = b := by
  unfold bytesLe at *
  simp only [Bool.not_eq_true'] at *
  rcases bytesLt_trichotomy a b with h | h | h
  · rw [h2] at h; cases h
  · exact h
  · rw [h1] at h; cases h

theorem bytesLe_refl (a : Bytes) : bytesLe a a = true := by simp [bytesLe, bytesLt_irrefl]

theorem bytesLt_of_le_ne (a b : Bytes) (h : bytesLe a b = true) (hne : a ≠ b) :
    bytesLt a b = true := by
  unfold bytesLe at h
  simp only [Bool.not_eq_true'] at h
  rcases bytesLt_trichotomy a b with h' | h' | h'
  · exact h'
  · exact absurd h' hne
  · rw [h] at h'; cases h'

/-! ### strictAsc as Pairwise -/

theorem strictAsc_iff_pairwise (l : List Bytes) :
    strictAsc l = true ↔ l.Pairwise (fun a b => bytesLt a b = true) := by
  induction l with
  | nil => simp [strictAsc]
  | cons a t ih =>
    cases t with
    | nil => simp [strictAsc]
    | cons b r =>
      simp only [strictAsc, Bool.and_eq_true, ih, List.pairwise_cons]
      constructor
      · rintro ⟨hab, hb, hr⟩
        refine ⟨?_, hb, hr⟩
        intro c hc
        rcases List.mem_cons.mp hc with rfl | hc
        · exact hab
        · exact bytesLt_trans a b c hab (hb c hc)
      · rintro ⟨ha, hb, hr⟩
        exact ⟨ha b (by simp), hb, hr⟩

theorem strictAsc_nodup (l : List Bytes) (h : strictAsc l = true) : l.Nodup := by
  rw [strictAsc_iff_pairwise] at h
  exact h.imp (fun {a b} hab => bytesLt_ne a b hab)

theorem uniqKeys_iff_nodup (l : List Bytes) : uniqKeys l = true ↔ l.Nodup := by
  induction l with
  | nil => simp [uniqKeys]
  | cons a t ih => simp [uniqKeys, ih]

/-! ### sortDict -/

theorem sortDict_perm (d : Dict) : (sortDict d).Perm d := List.mergeSort_perm d _

theorem keys_sortDict_perm (d : Dict) : (keys (sortDict d)).Perm (keys d) :=
  (sortDict_perm d).map _

theorem mem_sortDict (d : Dict) (kv : Bytes × BVal) : kv ∈ sortDict d ↔ kv ∈ d :=
  (sortDict_perm d).mem_iff

/-- sorting a dictionary (distinct keys) gives strictly ascending keys -/
theorem strictAsc_sortDict (d : Dict) (h : (keys d).Nodup) : strictAsc (keys (sortDict d)) = true := by
  rw [strictAsc_iff_pairwise]
  have hs : (sortDict d).Pairwise (fun a b => bytesLe a.1 b.1 = true) :=
    List.pairwise_mergeSort (le := fun a b => bytesLe a.1 b.1)
      (fun a b c => bytesLe_trans a.1 b.1 c.1) (fun a b => bytesLe_total a.1 b.1) d
  have hn : (keys (sortDict d)).Nodup := (keys_sortDict_perm d).nodup_iff.mpr h
  have hs' : (keys (sortDict d)).Pairwise (fun a b => bytesLe a b = true) := by
    unfold keys; rw [List.pairwise_map]; exact hs
  have := hs'.and hn
  exact this.imp (fun {a b} ⟨hle, hne⟩ => bytesLt_of_le_ne a b hle hne)

/-- an already sorted dictionary is left alone -/
theorem sortDict_of_strictAsc (d : Dict) (h : strictAsc (keys d) = true) : sortDict d = d := by
  apply List.mergeSort_of_pairwise
  rw [strictAsc_iff_pairwise] at h
  unfold keys at h; rw [List.pairwise_map] at h
  exact h.imp (fun {a b} hab => by simp [bytesLe, bytesLt_asymm a.1 b.1 hab])

/-- the sorted dictionary is the only strictly ascending arrangement of the items -/
theorem sortDict_unique (d e : Dict) (hp : e.Perm d) (he : strictAsc (keys e) = true) :
    sortDict d = e := by
  have hn : (keys d).Nodup := (hp.map (fun kv : Bytes × BVal => kv.1)).nodup_iff.mp (strictAsc_nodup _ he)
  have h1 := strictAsc_sortDict d hn
  rw [strictAsc_iff_pairwise] at h1 he
  unfold keys at h1 he; rw [List.pairwise_map] at h1 he
  refine List.Perm.eq_of_pairwise (le := fun a b : Bytes × BVal => bytesLt a.1 b.1 = true)
    ?_ h1 he ((sortDict_perm d).trans hp.symm)
  intro a b _ _ hab hba
  rw [bytesLt_asymm _ _ hab] at hba; cases hba

end TorrentVerif

import TorrentVerif.Proofs.RbV1Complete
/- facts about the example worlds `Rebuild.Ex` used by the `example`s of the property files -/
namespace TorrentVerif.Rebuild.Ex
open TorrentVerif Rebuild PosixPath Spec Impl

theorem lookup_single {k name : Bytes} {v cands : List (Path × Nat)}
    (h : List.lookup name [(k, v)] = some cands) : name = k ∧ cands = v := by
  simp only [List.lookup] at h
  split at h
  · rename_i heq
    simp at h
    exact ⟨by simpa using heq, h.symm⟩
  · cases h

theorem filemapOK : FilemapOK Ex.fs [[100]] Ex.fmap := by
  intro name cands hl c hc
  obtain ⟨_, rfl⟩ := lookup_single hl
  simp at hc
  subst hc
  exact ⟨by decide, [1,2,3], by decide, rfl⟩

theorem filemapOK2 : FilemapOK Ex.fs2 [[100]] Ex.fmap2 := by
  intro name cands hl c hc
  obtain ⟨_, rfl⟩ := lookup_single hl
  simp at hc
  rcases hc with hc | hc <;> subst hc
  · exact ⟨by decide, [1,2,9,9], by decide, rfl⟩
  · exact ⟨by decide, [1,2,3,4], by decide, rfl⟩

theorem intactV1_2 : IntactV1 Ex.fs2 Ex.fmap2 [⟨[102], [102], 4, none⟩] [[1,2,3,4]] := by
  intro i r h
  cases i with
  | zero =>
    simp at h; subst h
    exact ⟨[([[115], [107], [102]], 4), ([[115], [102]], 4)], [[115],[102]], [1,2,3,4],
      by decide, by decide, by decide, by decide⟩
  | succ i => simp at h

theorem chunks_2 : chunks 2 ([1,2,3,4] : Bytes) = [[1,2],[3,4]] := by
  rw [chunks_cons 2 (by decide) _ (by decide)]
  simp only [List.take, List.drop]
  rw [chunks_cons 2 (by decide) _ (by decide)]
  simp only [List.take, List.drop]
  rw [chunks_nil]

end TorrentVerif.Rebuild.Ex

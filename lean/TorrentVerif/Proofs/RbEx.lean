import TorrentVerif.Proofs.RbV1First
/- facts about the example worlds `Rebuild.Ex` used by the `example`s of the property files -/
namespace TorrentVerif.Rebuild.Ex
open TorrentVerif Rebuild PosixPath Spec Impl

theorem lookup_single {k name : Bytes} {v cands : List (Path × Nat)}
    (h : List.lookup name [(k, v)] = some cands) : name = k ∧ cands = v := by
  simp only [List.lookup] at h
  split at h
  · rename_i heq
    simp at h
    exact ⟨by simpa using heq, h.symm⟩
  · cases h

theorem filemapOK : FilemapOK Ex.fs [[100]] Ex.fmap := by
  intro name cands hl c hc
  obtain ⟨_, rfl⟩ := lookup_single hl
  simp at hc
  subst hc
  exact ⟨by decide, [1,2,3], by decide, rfl⟩

theorem filemapOK2 : FilemapOK Ex.fs2 [[100]] Ex.fmap2 := by
  intro name cands hl c hc
  obtain ⟨_, rfl⟩ := lookup_single hl
  simp at hc
  rcases hc with hc | hc <;> subst hc
  · exact ⟨by decide, [1,2,9,9], by decide, rfl⟩
  · exact ⟨by decide, [1,2,3,4], by decide, rfl⟩

theorem intactV1_2 : IntactV1 Ex.fs2 Ex.fmap2 [⟨[102], [102], 4, none⟩] [[1,2,3,4]] := by
  intro i r h
  cases i with
  | zero =>
    simp at h; subst h
    exact ⟨[([[115], [107], [102]], 4), ([[115], [102]], 4)], [[115],[102]], [1,2,3,4],
      by decide, by decide, by decide, by decide⟩
  | succ i => simp at h

theorem chunks_2 : chunks 2 ([1,2,3,4] : Bytes) = [[1,2],[3,4]] := by
  rw [chunks_cons 2 (by decide) _ (by decide)]
  simp only [List.take, List.drop]
  rw [chunks_cons 2 (by decide) _ (by decide)]
  simp only [List.take, List.drop]
  rw [chunks_nil]

theorem filemapOK3 : FilemapOK Ex.fs2 [[100]] Ex.fmap3 := by
  intro name cands hl c hc
  obtain ⟨_, rfl⟩ := lookup_single hl
  simp at hc
  rcases hc with hc | hc <;> subst hc
  · exact ⟨by decide, [1,2,3,4], by decide, rfl⟩
  · exact ⟨by decide, [1,2,9,9], by decide, rfl⟩

theorem intactV1_3 : IntactV1 Ex.fs2 Ex.fmap3 [⟨[102], [102], 4, none⟩] [[1,2,3,4]] := by
  intro i r h
  cases i with
  | zero =>
    simp at h; subst h
    exact ⟨[([[115], [102]], 4), ([[115], [107], [102]], 4)], [[115],[102]], [1,2,3,4],
      by decide, by decide, by decide, by decide⟩
  | succ i => simp at h

theorem destsSeparate_single (dest : Path) (r : FileRec) : DestsSeparate dest [r] := by
  intro i j ri rj di dj hi hj _ _ _
  have h1 : i < 1 := by simpa using (List.getElem?_eq_some_iff.mp hi).1
  have h2 : j < 1 := by simpa using (List.getElem?_eq_some_iff.mp hj).1
  omega

theorem destFresh_2 : DestFresh Ex.fs2 [[100]] [⟨[102], [102], 4, none⟩] := by
  intro r hr d hsj
  simp at hr; subst hr
  have : safeJoin [[100]] [102] = some [[100],[102]] := by decide
  simp only at hsj
  rw [this] at hsj; injection hsj with hsj; subst hsj
  decide

/-- with the original enumerated first nothing precedes an intact copy -/
theorem noFirstPieceDecoy_3 : NoFirstPieceDecoy Ex.fs2 Ex.fmap3
    (v1PieceNodes 2 [[1,2],[3,4]] [⟨[102], [102], 4, none⟩]) [[1,2,3,4]] := by
  intro pre pp post _ pn _ _ cands l1 c l2 o hl hsplit _ hread ho x hx
  have hidx : pn.idx = 0 := by
    have := (List.getElem?_eq_some_iff.mp ho).1
    simp at this; exact this
  rw [hidx] at ho
  simp at ho; subst ho
  have hfn : pn.file.filename = [102] ∧ cands = [([[115], [102]], 4), ([[115], [107], [102]], 4)] := by
    simp only [Ex.fmap3, List.lookup] at hl
    split at hl
    · rename_i heq
      simp at hl
      exact ⟨by simpa using heq, hl.symm⟩
    · cases hl
  obtain ⟨_, rfl⟩ := hfn
  -- an intact copy can only be the first entry, so nothing precedes it
  cases l1 with
  | nil => simp at hx
  | cons a l1' =>
    exfalso
    simp only [List.cons_append, List.cons.injEq] at hsplit
    obtain ⟨_, hrest⟩ := hsplit
    cases l1' with
    | nil =>
      simp only [List.nil_append, List.cons.injEq] at hrest
      obtain ⟨hc, _⟩ := hrest
      rw [← hc] at hread
      have : Ex.fs2.readFile? [[115],[107],[102]] = some [1,2,9,9] := by decide
      rw [this] at hread
      exact absurd hread (by decide)
    | cons b l1'' =>
      have := congrArg List.length hrest
      simp at this

end TorrentVerif.Rebuild.Ex

import TorrentVerif.Proofs.RbV1First
/- facts about the example worlds `Rebuild.Ex` used by the `example`s of the property files -/
namespace TorrentVerif.Rebuild.Ex
open TorrentVerif Rebuild PosixPath Spec Impl

theorem lookup_single {k name : Bytes} {v cands : List (Path × Nat)}
    (h : List.lookup name [(k, v)] = some cands) : name = k ∧ cands = v := by
  simp only [List.lookup] at h
  split at h
  · rename_i heq
    simp at h
    exact ⟨by simpa using heq, h.symm⟩
  · cases h

theorem filemapOK : FilemapOK Ex.fs [[100]] Ex.fmap := by
  intro name cands hl c hc
  obtain ⟨_, rfl⟩ := lookup_single hl
  simp at hc
  subst hc
  exact ⟨by decide, [1,2,3], by decide, rfl⟩

theorem filemapOK2 : FilemapOK Ex.fs2 [[100]] Ex.fmap2 := by
  intro name cands hl c hc
  obtain ⟨_, rfl⟩ := lookup_single hl
  simp at hc
  rcases hc with hc | hc <;> subst hc
  · exact ⟨by decide, [1,2,9,9], by decide, rfl⟩
  · exact ⟨by decide, [1,2,3,4], by decide, rfl⟩

theorem intactV1_2 : IntactV1 Ex.fs2 Ex.fmap2 [⟨[102], [102], 4, none, false⟩] [[1,2,3,4]] := by
  intro i r h _
  cases i with
  | zero =>
    simp at h; subst h
    exact ⟨[([[115], [107], [102]], 4), ([[115], [102]], 4)], [[115],[102]], [1,2,3,4],
      by decide, by decide, by decide, by decide⟩
  | succ i => simp at h

theorem chunks_2 : chunks 2 ([1,2,3,4] : Bytes) = [[1,2],[3,4]] := by
  rw [chunks_cons 2 (by decide) _ (by decide)]
  simp only [List.take, List.drop]
  rw [chunks_cons 2 (by decide) _ (by decide)]
  simp only [List.take, List.drop]
  rw [chunks_nil]

theorem filemapOK3 : FilemapOK Ex.fs2 [[100]] Ex.fmap3 := by
  intro name cands hl c hc
  obtain ⟨_, rfl⟩ := lookup_single hl
  simp at hc
  rcases hc with hc | hc <;> subst hc
  · exact ⟨by decide, [1,2,3,4], by decide, rfl⟩
  · exact ⟨by decide, [1,2,9,9], by decide, rfl⟩

theorem intactV1_3 : IntactV1 Ex.fs2 Ex.fmap3 [⟨[102], [102], 4, none, false⟩] [[1,2,3,4]] := by
  intro i r h _
  cases i with
  | zero =>
    simp at h; subst h
    exact ⟨[([[115], [102]], 4), ([[115], [107], [102]], 4)], [[115],[102]], [1,2,3,4],
      by decide, by decide, by decide, by decide⟩
  | succ i => simp at h

theorem destsSeparate_single (dest : Path) (r : FileRec) : DestsSeparate dest [r] := by
  intro i j ri rj di dj hi hj _ _ _ _ _
  have h1 : i < 1 := by simpa using (List.getElem?_eq_some_iff.mp hi).1
  have h2 : j < 1 := by simpa using (List.getElem?_eq_some_iff.mp hj).1
  omega

theorem destFresh_2 : DestFresh Ex.fs2 [[100]] [⟨[102], [102], 4, none, false⟩] := by
  intro r hr _ d hsj
  simp at hr; subst hr
  have : safeJoin [[100]] [102] = some [[100],[102]] := by decide
  simp only at hsj
  rw [this] at hsj; injection hsj with hsj; subst hsj
  decide

/-- with the original enumerated first nothing precedes an intact copy -/
theorem noFirstPieceDecoy_3 : NoFirstPieceDecoy Ex.fs2 Ex.fmap3
    (v1PieceNodes 2 [[1,2],[3,4]] [⟨[102], [102], 4, none, false⟩]) [[1,2,3,4]] := by
  intro pre pp post _ pn _ _ _ cands l1 c l2 o hl hsplit _ hread ho x hx
  have hidx : pn.idx = 0 := by
    have := (List.getElem?_eq_some_iff.mp ho).1
    simp at this; exact this
  rw [hidx] at ho
  simp at ho; subst ho
  have hfn : pn.file.filename = [102] ∧ cands = [([[115], [102]], 4), ([[115], [107], [102]], 4)] := by
    simp only [Ex.fmap3, List.lookup] at hl
    split at hl
    · rename_i heq
      simp at hl
      exact ⟨by simpa using heq, hl.symm⟩
    · cases hl
  obtain ⟨_, rfl⟩ := hfn
  -- an intact copy can only be the first entry, so nothing precedes it
  cases l1 with
  | nil => simp at hx
  | cons a l1' =>
    exfalso
    simp only [List.cons_append, List.cons.injEq] at hsplit
    obtain ⟨_, hrest⟩ := hsplit
    cases l1' with
    | nil =>
      simp only [List.nil_append, List.cons.injEq] at hrest
      obtain ⟨hc, _⟩ := hrest
      rw [← hc] at hread
      have : Ex.fs2.readFile? [[115],[107],[102]] = some [1,2,9,9] := by decide
      rw [this] at hread
      exact absurd hread (by decide)
    | cons b l1'' =>
      have := congrArg List.length hrest
      simp at this

/-! the world with a padding entry (`Ex.fsP`, `Ex.fmapP`, `Ex.filesP`, `Ex.origP`) -/

theorem filemapOKP : FilemapOK Ex.fsP [[100]] Ex.fmapP := by
  intro name cands hl c hc
  simp only [Ex.fmapP, List.lookup] at hl
  split at hl
  · injection hl with hl; subst hl
    simp at hc; subst hc
    exact ⟨by decide, [1,2,3], by decide, rfl⟩
  · split at hl
    · injection hl with hl; subst hl
      simp at hc; subst hc
      exact ⟨by decide, [5,6], by decide, rfl⟩
    · cases hl

theorem intactV1_P : IntactV1 Ex.fsP Ex.fmapP Ex.filesP Ex.origP := by
  intro i r h hp
  match i, h with
  | 0, h =>
    simp [Ex.filesP] at h; subst h
    exact ⟨[([[115],[97]], 3)], [[115],[97]], [1,2,3], by decide, by decide, by decide, by decide⟩
  | 1, h => simp [Ex.filesP] at h; subst h; simp at hp
  | 2, h =>
    simp [Ex.filesP] at h; subst h
    exact ⟨[([[115],[98]], 2)], [[115],[98]], [5,6], by decide, by decide, by decide, by decide⟩
  | n + 3, h => simp [Ex.filesP] at h

theorem padsAreZeros_P : PadsAreZeros Ex.filesP Ex.origP := by
  intro i r h hp
  match i, h with
  | 0, h => simp [Ex.filesP] at h; subst h; simp at hp
  | 1, h => simp [Ex.filesP] at h; subst h; decide
  | 2, h => simp [Ex.filesP] at h; subst h; simp at hp
  | n + 3, h => simp [Ex.filesP] at h

theorem chunks_P : chunks 4 Ex.origP.flatten = [[1,2,3,0],[5,6]] := by
  have : Ex.origP.flatten = [1,2,3,0,5,6] := by decide
  rw [this, chunks_cons 4 (by decide) _ (by decide)]
  simp only [List.take, List.drop]
  rw [chunks_cons 4 (by decide) _ (by decide)]
  simp only [List.take, List.drop]
  rw [chunks_nil]

end TorrentVerif.Rebuild.Ex

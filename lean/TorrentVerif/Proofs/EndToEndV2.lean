import TorrentVerif.Proofs.EndToEndV1
/-
  End to end, v2 and hybrid: the metafile `TorrentFileV2` / `TorrentFileHybrid` /
  `TorrentAssembler` writes, rechecked (through its v2 part) against the tree it was created
  from.
-/
namespace TorrentVerif
open Impl Spec Listing RF

namespace E2E

/-! ### the written file tree, parsed by the specification -/

mutual
/-- every key of the traversal tree is a proper name -/
def PlainKeys : FTree → Prop
  | .leaf _ => True
  | .node es => PlainKeysList es
def PlainKeysList : List (Bytes × FTree) → Prop
  | [] => True
  | (n, c) :: t => Spec.plainName n = true ∧ PlainKeys c ∧ PlainKeysList t
end

theorem plainKeysList_iff : (es : List (Bytes × FTree)) →
    (PlainKeysList es ↔ ∀ x ∈ es, Spec.plainName x.1 = true ∧ PlainKeys x.2)
  | [] => by simp [PlainKeysList]
  | (n, c) :: t => by simp [PlainKeysList, plainKeysList_iff t, and_assoc]

mutual
theorem traverse_plainKeys (enum : List (Bytes × FTree) → List (Bytes × FTree))
    (henum : ∀ l, (enum l).Perm l) : (t : Node) → PlainNamed t → PlainKeys (traverse enum t)
  | .file d, _ => by simp [traverse, PlainKeys]
  | .dir es, h => by
    simp only [traverse, PlainKeys]
    rw [plainKeysList_iff]
    intro x hx
    have hx' := (henum _).subset (List.mem_mergeSort.mp hx)
    simp only [PlainNamed] at h
    exact (plainKeysList_iff _).mp (traverseChildren_plainKeys enum henum es h) x hx'
theorem traverseChildren_plainKeys (enum : List (Bytes × FTree) → List (Bytes × FTree))
    (henum : ∀ l, (enum l).Perm l) : (es : List (Bytes × Node)) → PlainNamedList es →
    PlainKeysList (traverseChildren enum es)
  | [], _ => by simp [traverseChildren, PlainKeysList]
  | (n, c) :: t, h => by
    simp only [PlainNamedList] at h
    simp only [traverseChildren, PlainKeysList]
    exact ⟨h.1, traverse_plainKeys enum henum c h.2.1, traverseChildren_plainKeys enum henum t h.2.2⟩
end

/-- `pieces root` of a leaf: none for an empty file -/
def rootOpt (hf : Bytes → FileHash) (d : Bytes) : Option Bytes :=
  if d.length = 0 then none else some (hf d).root

mutual
/-- the BEP 52 tree the written dictionary stands for -/
def mtreeOf (hf : Bytes → FileHash) : FTree → MTree
  | .leaf d => .leaf d.length (rootOpt hf d)
  | .node es => .dir (mtreeList hf es)
def mtreeList (hf : Bytes → FileHash) : List (Bytes × FTree) → List (Bytes × MTree)
  | [] => []
  | (n, c) :: t => (n, mtreeOf hf c) :: mtreeList hf t
end

theorem parseNode_leafVal (hf : Bytes → FileHash) (d : Bytes) :
    parseNode (leafVal hf d) = some (.leaf d.length (rootOpt hf d)) := by
  unfold leafVal rootOpt
  by_cases h : d.length = 0
  · simp [h, parseNode, keys, dictGet, leafOf, BVal.get?, K.length]
  · simp [h, parseNode, keys, dictGet, leafOf, BVal.get?, K.length, K.piecesRoot, RF.kPiecesRoot]

mutual
theorem parseNode_treeVal (hf : Bytes → FileHash) : (ft : FTree) → PlainKeys ft →
    parseNode (treeVal hf ft) = some (mtreeOf hf ft)
  | .leaf d, _ => by simp [treeVal, mtreeOf, parseNode_leafVal]
  | .node es, h => by
    simp only [PlainKeys] at h
    simp only [treeVal, mtreeOf, parseNode]
    have hk : keys (treeValList hf es) ≠ [[]] := by
      rw [keys_treeValList]
      intro e
      cases es with
      | nil => simp at e
      | cons x t =>
        obtain ⟨n, c⟩ := x
        simp only [PlainKeysList] at h
        simp only [List.map_cons, List.cons.injEq] at e
        have := h.1; rw [e.1] at this; revert this; decide
    rw [if_neg hk, parseEntries_treeValList hf es h]; rfl
theorem parseEntries_treeValList (hf : Bytes → FileHash) : (es : List (Bytes × FTree)) →
    PlainKeysList es → parseEntries (treeValList hf es) = some (mtreeList hf es)
  | [], _ => by simp [treeValList, parseEntries, mtreeList]
  | (n, c) :: t, h => by
    simp only [PlainKeysList] at h
    simp only [treeValList, parseEntries, h.1, if_true, mtreeList,
      parseNode_treeVal hf c h.2.1, parseEntries_treeValList hf t h.2.2]
end

/-- one entry of the file map for a file of the traversal -/
def recOf (hf : Bytes → FileHash) (x : List Bytes × Bytes) : FileRec :=
  (x.1, x.2.length, rootOpt hf x.2)

mutual
theorem treeFiles_mtreeOf (hf : Bytes → FileHash) : (ft : FTree) → (pre : List Bytes) →
    treeFiles pre (mtreeOf hf ft) = (ftreeFiles pre ft).map (recOf hf)
  | .leaf d, pre => by simp [mtreeOf, treeFiles, ftreeFiles, recOf]
  | .node es, pre => by
    simp only [mtreeOf, treeFiles, ftreeFiles]
    exact entriesFiles_mtreeList hf es pre
theorem entriesFiles_mtreeList (hf : Bytes → FileHash) : (es : List (Bytes × FTree)) →
    (pre : List Bytes) →
    entriesFiles pre (mtreeList hf es) = (ftreeFilesList pre es).map (recOf hf)
  | [], pre => by simp [mtreeList, entriesFiles, ftreeFilesList]
  | (n, c) :: t, pre => by
    simp only [mtreeList, entriesFiles, ftreeFilesList, List.map_append]
    rw [treeFiles_mtreeOf hf c (pre ++ [n]), entriesFiles_mtreeList hf t pre]
end

/-! ### the files `HashChecker` works on -/

/-- what the checker holds for a file of the traversal: length, root (none for an empty file),
    layer (only for a file of more than one piece), the bytes on disk -/
def v2fOf (hf : Bytes → FileHash) (pl : Nat) (x : List Bytes × Bytes) : V2File :=
  (x.2.length, (rootOpt hf x.2).getD [], if pl < x.2.length then (hf x.2).layer else [], some x.2)

theorem v2FilesOf_files (hf : Bytes → FileHash) (pl : Nat) (layers : Dict) (disk : Node)
    (files : List (List Bytes × Bytes))
    (hfa : ∀ x ∈ files, fileBytes disk x.1 = some x.2)
    (hlay : ∀ x ∈ files, pl < x.2.length →
      dictGet layers (hf x.2).root = some (.str (hf x.2).layer)) :
    v2FilesOf pl layers disk (files.map (recOf hf)) = some (files.map (v2fOf hf pl)) := by
  induction files with
  | nil => rfl
  | cons x rest ih =>
    have ih' := ih (fun y hy => hfa y (by simp [hy])) (fun y hy => hlay y (by simp [hy]))
    have hx := hfa x (by simp)
    simp only [List.map_cons, v2FilesOf, ih']
    have : v2FileOf pl layers disk (recOf hf x) = some (v2fOf hf pl x) := by
      unfold v2FileOf recOf v2fOf
      by_cases hlt : pl < x.2.length
      · have hne : ¬ x.2.length = 0 := by omega
        have hl := hlay x (by simp) hlt
        simp [hlt, rootOpt, hne, hl, hx]
      · simp [hlt, hx]
    rw [this]

/-- what the checker reads of a v2 / hybrid metafile -/
structure V2Meta (r : BVal) (info : Dict) (name : Bytes) (pl : Nat) (layers : Dict) : Prop where
  hinfo : r.get? K.info = some (.dict info)
  hname : dictGet info K.name = some (.str name)
  hpl : dictGet info K.pieceLength = some (.int pl)
  hmv : dictGet info K.metaVersion = some (.int 2)
  hlayers : r.get? K.pieceLayers = some (.dict layers)

/-- (b), (c) for v2 / hybrid: `Spec.plan` of a metafile whose file map is the traversal of the
    disk, with roots and layers as `HasherV2` computes them, is defined, describes exactly these
    files, and is `Plan.Intact` (recorded root / layer = what the `FileHasher` model computes on
    the file, for any `H1`) -/
theorem plan_v2_general (H1 H : Bytes → Bytes) (B hs bpp : Nat) (hB : 0 < B) (hbpp : 0 < bpp)
    (r : BVal) (info : Dict) (name : Bytes) (layers : Dict)
    (hm : V2Meta r info name (bpp * B) layers) (disk : Node) (files : List (List Bytes × Bytes))
    (hdesc : describedFiles r (isFile disk) = some (files.map (recOf (fhV2 H B hs bpp))))
    (hfa : ∀ x ∈ files, fileBytes disk x.1 = some x.2)
    (hlay : ∀ x ∈ files, bpp * B < x.2.length →
      dictGet layers (fhV2 H B hs bpp x.2).root = some (.str (fhV2 H B hs bpp x.2).layer))
    (hfne : files ≠ []) :
    plan B r disk = some (.v2 bpp (files.map (v2fOf (fhV2 H B hs bpp) (bpp * B)))) ∧
    (Plan.v2 bpp (files.map (v2fOf (fhV2 H B hs bpp) (bpp * B)))).Intact H1 H B hs ∧
    (Plan.v2 bpp (files.map (v2fOf (fhV2 H B hs bpp) (bpp * B)))).total
      = (files.map (·.2.length)).sum := by
  let hf := fhV2 H B hs bpp
  have hv2 : hasV2 info = true := by simp [hasV2, dictHas, hm.hmv]
  refine ⟨?_, ?_, ?_⟩
  · unfold plan
    have hposI : (0 : Int) < ((bpp * B : Nat) : Int) := by
      have := Nat.mul_pos hbpp hB; omega
    have hcond : 0 < B ∧ (bpp * B) % B = 0 ∧ files.map (recOf hf) ≠ [] :=
      ⟨hB, Nat.mul_mod_left _ _, by simpa using hfne⟩
    simp only [hdesc, hm.hinfo, hm.hpl, hposI, if_true, hv2, hm.hlayers, Int.toNat_natCast]
    rw [if_pos hcond, v2FilesOf_files hf (bpp * B) layers disk files hfa hlay]
    simp [Nat.mul_div_cancel _ hB, hf]
  · intro f hfm
    obtain ⟨x, hx, rfl⟩ := List.mem_map.mp hfm
    have hasm := fhAsm_false H H1 B hs bpp hB hbpp x.2
    have hr : (fileHasher H H1 B hs bpp false x.2).1 = (hf x.2).root := by
      have := congrArg FileHash.root hasm; simpa [fhAsm] using this
    have hl : (fileHasher H H1 B hs bpp false x.2).2.1 = (hf x.2).layer := by
      have := congrArg FileHash.layer hasm; simpa [fhAsm] using this
    refine ⟨x.2, rfl, rfl, ?_, ?_⟩
    · intro hne
      have : ¬ x.2.length = 0 := by
        intro e; exact hne (List.eq_nil_of_length_eq_zero e)
      simp [v2fOf, rootOpt, this, hr, hf]
    · intro hlt
      have hlt' : bpp * B < x.2.length := hlt
      simp [v2fOf, hlt', hl, hf]
  · simp [Plan.total, v2fOf, List.map_map, Function.comp_def]

/-- the whole `Checker` run on a decoded v2 / hybrid metafile whose file map is the traversal
    of the disk, with roots and layers as `HasherV2` computes them: every piece verifies -/
theorem recheckMeta_v2_general (H1 H : Bytes → Bytes) (B hs bpp : Nat) (hhs : 0 < hs)
    (hH : ∀ x, (H x).length = hs) (hB : 0 < B) (hbpp : 0 < bpp)
    (r : BVal) (info : Dict) (name : Bytes) (layers : Dict)
    (hm : V2Meta r info name (bpp * B) layers) (disk : Node) (files : List (List Bytes × Bytes))
    (hdesc : describedFiles r (isFile disk) = some (files.map (recOf (fhV2 H B hs bpp))))
    (hfa : ∀ x ∈ files, fileBytes disk x.1 = some x.2)
    (hlay : ∀ x ∈ files, bpp * B < x.2.length →
      dictGet layers (fhV2 H B hs bpp x.2).root = some (.str (fhV2 H B hs bpp x.2).layer))
    (hpos : 0 < (files.map (·.2.length)).sum) (argName : Bytes) (here : Option Node)
    (hroot : findRoot info name argName here = .ok disk) :
    ∃ vs, recheckMeta H1 H B hs r argName here
        = .ok (vs, (files.map (·.2.length)).sum, (files.map (·.2.length)).sum) ∧
      ∀ v ∈ vs, v.1 = true := by
  let H1' : Bytes → Bytes := fun _ => List.replicate 20 0
  have hfne : files ≠ [] := by intro e; rw [e] at hpos; simp at hpos
  obtain ⟨hplan, hint, htot⟩ := plan_v2_general H1' H B hs bpp hB hbpp r info name layers hm disk
    files hdesc hfa hlay hfne
  have hnm := nameOf_eq r info name hm.hinfo hm.hname
  have hio := infoOf_eq r info hm.hinfo
  have hrun := recheckMeta_of_plan H1 H B hs hhs r disk _ argName here hplan
    (intact_inScope H1' H B hs hH r disk _ hplan hint) (by rw [hnm, hio]; exact hroot)
    (intact_noDir H1' H B hs r disk _ hplan hint)
    (total_pos_not_emptySingle B r disk _ hplan (by rw [htot]; exact hpos))
  have hall : ∀ v ∈ (Plan.v2 bpp (files.map (v2fOf (fhV2 H B hs bpp) (bpp * B)))).verdicts H1 H B hs,
      v.1 = true :=
    intact_all_true H1' H B hs (by intro b; simp [H1']) hH r disk _ hplan hint
  refine ⟨_, hrun.trans ?_, hall⟩
  have hs2 := verdicts_sizes H1 H B hs r disk _ hplan
  rw [ratio_all _ hall] at hs2 ⊢
  simp only at hs2
  rw [hs2, htot]

/-! ### the file map of a created v2 / hybrid metafile -/

/-- `Spec.describedFiles` of a metafile whose `file tree` is the written traversal of `t`:
    exactly the files of the traversal, with their lengths and recorded roots -/
theorem described_v2 (o : CreateOpts) (hf : Bytes → FileHash)
    (enum : List (Bytes × FTree) → List (Bytes × FTree)) (henum : ∀ l, (enum l).Perm l)
    (t : Node) (hplain : PlainNamed t)
    (hsingle : ∀ d, t = .file d → Spec.plainName o.name = true)
    (r : BVal) (info : Dict) (hinfo : r.get? K.info = some (.dict info))
    (hname : dictGet info K.name = some (.str o.name))
    (hmv : dictGet info K.metaVersion = some (.int 2))
    (hft : dictGet info K.fileTree
      = some (treeOf o.name (singleLen t).isSome (treeVal hf (traverse enum t))))
    (hlen : dictGet info K.length = (singleLen t).map (fun (n : Nat) => BVal.int (n : Int))) :
    describedFiles r (isFile t) = some ((ftreeFiles [] (traverse enum t)).map (recOf hf)) := by
  have hv2 : hasV2 info = true := by simp [hasV2, dictHas, hmv]
  cases t with
  | file d =>
    have hpn := hsingle d rfl
    simp only [singleLen, Option.isSome_some, treeOf, if_true, traverse, treeVal,
      Option.map_some] at hft hlen
    unfold describedFiles
    simp only [hinfo, hname, hv2, if_true, hft, parseEntries, hpn, parseNode_leafVal, hlen]
    simp [traverse, ftreeFiles, recOf]
  | dir es =>
    simp only [singleLen, Option.isSome_none, treeOf, Bool.false_eq_true, if_false, traverse,
      treeVal, Option.map_none] at hft hlen
    have hpk := traverse_plainKeys enum henum (.dir es) hplain
    simp only [traverse, PlainKeys] at hpk
    unfold describedFiles
    simp only [hinfo, hname, hv2, if_true, hft, parseEntries_treeValList hf _ hpk, hlen]
    have hres : entriesFiles [] (mtreeList hf ((enum (traverseChildren enum es)).mergeSort leName))
        = (ftreeFiles [] (traverse enum (.dir es))).map (recOf hf) := by
      rw [entriesFiles_mtreeList]; simp [traverse, ftreeFiles]
    split
    · rename_i h1 h2; cases h2
    · simp only [isFile, Bool.false_eq_true, and_false, if_false, hres]
    · simp only [hres]
    · rename_i h1 h2 h3 h4; cases h3

/-- every file of more than one piece finds its own layer in the written `piece layers`,
    provided files with equal roots have equal layers -/
theorem layers_lookup (hf : Bytes → FileHash) (pl : Nat) (files : List (List Bytes × Bytes))
    (hcoll : ∀ x ∈ files, ∀ y ∈ files, pl < x.2.length → pl < y.2.length →
      (hf x.2).root = (hf y.2).root → (hf x.2).layer = (hf y.2).layer) :
    ∀ x ∈ files, pl < x.2.length →
      dictGet (sortDict (layersDict (layerItems hf pl files))) (hf x.2).root
        = some (.str (hf x.2).layer) := by
  intro x hx hlt
  have hitem : ∀ a, a ∈ layerItems hf pl files ↔
      ∃ y ∈ files, pl < y.2.length ∧ a = ((hf y.2).root, (hf y.2).layer) := by
    intro a
    unfold layerItems
    rw [List.mem_filterMap]
    constructor
    · intro ⟨y, hy, he⟩
      by_cases h : pl < y.2.length
      · simp only [h, if_true, Option.some.injEq] at he
        exact ⟨y, hy, h, he.symm⟩
      · simp [h] at he
    · intro ⟨y, hy, h, he⟩
      exact ⟨y, hy, by simp [h, he]⟩
  have hcons : ∀ a ∈ layerItems hf pl files, ∀ c ∈ layerItems hf pl files, a.1 = c.1 → a.2 = c.2 := by
    intro a ha c hc hac
    obtain ⟨y, hy, hyl, rfl⟩ := (hitem a).mp ha
    obtain ⟨z, hz, hzl, rfl⟩ := (hitem c).mp hc
    exact hcoll y hy z hz hyl hzl hac
  rw [dictGet_sortDict', dictGet_layersDict _ hcons]
  exact ⟨_, (hitem _).mpr ⟨x, hx, hlt, rfl⟩, rfl, rfl⟩

/-- the run of the whole `Checker` on a created v2 / hybrid metafile once `find_root` has
    resolved the content argument to the tree the metafile was created from -/
theorem recheckMeta_created_v2 (o : CreateOpts) (H1 H : Bytes → Bytes) (B hs bpp : Nat)
    (hhs : 0 < hs) (hH : ∀ x, (H x).length = hs) (hB : 0 < B) (hbpp : 0 < bpp)
    (enum : List (Bytes × FTree) → List (Bytes × FTree)) (henum : ∀ l, (enum l).Perm l)
    (t : Node) (hwn : WellNamed t) (hplain : PlainNamed t)
    (hsingle : ∀ d, t = .file d → Spec.plainName o.name = true)
    (hcoll : ∀ x ∈ ftreeFiles [] (traverse enum t), ∀ y ∈ ftreeFiles [] (traverse enum t),
      bpp * B < x.2.length → bpp * B < y.2.length →
      (fhV2 H B hs bpp x.2).root = (fhV2 H B hs bpp y.2).root →
      (fhV2 H B hs bpp x.2).layer = (fhV2 H B hs bpp y.2).layer)
    (hpos : 0 < treeBytes t) (r : BVal) (info : Dict)
    (hm : V2Meta r info o.name (bpp * B) (sortDict (layersDict
      (layerItems (fhV2 H B hs bpp) (bpp * B) (ftreeFiles [] (traverse enum t))))))
    (hft : dictGet info K.fileTree
      = some (treeOf o.name (singleLen t).isSome (treeVal (fhV2 H B hs bpp) (traverse enum t))))
    (hlen : dictGet info K.length = (singleLen t).map (fun (n : Nat) => BVal.int (n : Int)))
    (argName : Bytes) (here : Option Node)
    (hroot : findRoot info o.name argName here = .ok t) :
    ∃ vs, recheckMeta H1 H B hs r argName here = .ok (vs, treeBytes t, treeBytes t) ∧
      ∀ v ∈ vs, v.1 = true := by
  have hdesc := described_v2 o (fhV2 H B hs bpp) enum henum t hplain hsingle r info hm.hinfo
    hm.hname hm.hmv hft hlen
  have hfa : ∀ x ∈ ftreeFiles [] (traverse enum t), fileBytes t x.1 = some x.2 :=
    fun x hx => fileBytes_of_fileAt t x.1 x.2 (traverse_fileAt enum henum t hwn x hx)
  have hlay := layers_lookup (fhV2 H B hs bpp) (bpp * B) _ hcoll
  have htb := treeBytes_traverse enum henum t
  have := recheckMeta_v2_general H1 H B hs bpp hhs hH hB hbpp r info o.name _ hm t _ hdesc hfa
    hlay (by rw [htb]; exact hpos) argName here hroot
  rw [htb] at this
  exact this

/-- (b), (c) for the created v2 / hybrid metafile and the tree it was created from -/
theorem plan_created_v2 (o : CreateOpts) (H1 H : Bytes → Bytes) (B hs bpp : Nat)
    (hB : 0 < B) (hbpp : 0 < bpp)
    (enum : List (Bytes × FTree) → List (Bytes × FTree)) (henum : ∀ l, (enum l).Perm l)
    (t : Node) (hwn : WellNamed t) (hplain : PlainNamed t)
    (hsingle : ∀ d, t = .file d → Spec.plainName o.name = true)
    (hcoll : ∀ x ∈ ftreeFiles [] (traverse enum t), ∀ y ∈ ftreeFiles [] (traverse enum t),
      bpp * B < x.2.length → bpp * B < y.2.length →
      (fhV2 H B hs bpp x.2).root = (fhV2 H B hs bpp y.2).root →
      (fhV2 H B hs bpp x.2).layer = (fhV2 H B hs bpp y.2).layer)
    (hpos : 0 < treeBytes t) (r : BVal) (info : Dict)
    (hm : V2Meta r info o.name (bpp * B) (sortDict (layersDict
      (layerItems (fhV2 H B hs bpp) (bpp * B) (ftreeFiles [] (traverse enum t))))))
    (hft : dictGet info K.fileTree
      = some (treeOf o.name (singleLen t).isSome (treeVal (fhV2 H B hs bpp) (traverse enum t))))
    (hlen : dictGet info K.length = (singleLen t).map (fun (n : Nat) => BVal.int (n : Int))) :
    ∃ p, plan B r t = some p ∧ p.Intact H1 H B hs ∧ p.total = treeBytes t := by
  have hdesc := described_v2 o (fhV2 H B hs bpp) enum henum t hplain hsingle r info hm.hinfo
    hm.hname hm.hmv hft hlen
  have hfa : ∀ x ∈ ftreeFiles [] (traverse enum t), fileBytes t x.1 = some x.2 :=
    fun x hx => fileBytes_of_fileAt t x.1 x.2 (traverse_fileAt enum henum t hwn x hx)
  have hlay := layers_lookup (fhV2 H B hs bpp) (bpp * B) _ hcoll
  have htb := treeBytes_traverse enum henum t
  have hfne : ftreeFiles [] (traverse enum t) ≠ [] := by
    intro e; rw [e] at htb; simp at htb; omega
  obtain ⟨h1, h2, h3⟩ := plan_v2_general H1 H B hs bpp hB hbpp r info o.name _ hm t _ hdesc hfa
    hlay hfne
  exact ⟨_, h1, h2, by rw [h3, htb]⟩

/-! ### what the creators wrote, as the checker reads it -/

/-- the facts about a written v2 / hybrid value the end-to-end proofs use -/
structure V2Written (o : CreateOpts) (H : Bytes → Bytes) (B hs bpp : Nat)
    (enum : List (Bytes × FTree) → List (Bytes × FTree)) (t : Node) (r : BVal) (b : Bytes)
    (info : Dict) : Prop where
  hb : b = encode r
  hcanon : Canonical r = true
  hm : V2Meta r info o.name (bpp * B) (sortDict (layersDict
      (layerItems (fhV2 H B hs bpp) (bpp * B) (ftreeFiles [] (traverse enum t)))))
  hft : dictGet info K.fileTree
      = some (treeOf o.name (singleLen t).isSome (treeVal (fhV2 H B hs bpp) (traverse enum t)))
  hlen : dictGet info K.length = (singleLen t).map (fun (n : Nat) => BVal.int (n : Int))

theorem v2class_written (o : CreateOpts) (H : Bytes → Bytes) (B hs bpp : Nat)
    (hB : 0 < B) (hpl : o.pieceLength = bpp * B)
    (enum : List (Bytes × FTree) → List (Bytes × FTree)) (henum : ∀ l, (enum l).Perm l)
    (t : Node) (hwn : WellNamed t) (r : BVal) (b : Bytes)
    (h : createV2Class o H B hs enum t = some (r, b)) :
    ∃ info, V2Written o H B hs bpp enum t r b info ∧ dictGet info K.files = none := by
  unfold createV2Class at h
  simp only [pl_div o B bpp hB hpl] at h
  obtain ⟨hs', hb⟩ := written_some _ r b h
  have hk := v2_keys _ _ _ _ r hs'
  obtain ⟨r', hr', hcan⟩ := v2_canon o (singleLen t) _ (layerItems (fhV2 H B hs bpp)
    o.pieceLength (ftreeFiles [] (traverse enum t)))
    (canon_traverse (fhV2 H B hs bpp) enum henum t hwn)
  rw [hs'] at hr'; cases hr'
  obtain ⟨info, hinfo, hget⟩ := info_of_infoGet r K.name _ hk.name
  refine ⟨info, ⟨hb, hcan, ⟨hinfo, by rw [← hget]; exact hk.name, ?_, by rw [← hget]; exact hk.metaVersion,
    ?_⟩, by rw [← hget]; exact hk.fileTree, ?_⟩, by rw [← hget]; exact hk.files⟩
  · rw [← hget, hk.pieceLength, hpl]
  · rw [← hpl]; exact hk.layers
  · rw [← hget, hk.length]

theorem hybrid_written (o : CreateOpts) (H H1 : Bytes → Bytes) (B hs bpp : Nat)
    (hB : 0 < B) (hbpp : 0 < bpp) (hpl : o.pieceLength = bpp * B)
    (enum : List (Bytes × FTree) → List (Bytes × FTree)) (henum : ∀ l, (enum l).Perm l)
    (t : Node) (hwn : WellNamed t) (r : BVal) (b : Bytes)
    (h : createHybridClass o H H1 B hs enum t = some (r, b)) :
    ∃ info, V2Written o H B hs bpp enum t r b info ∧
      (∀ es, t = .dir es → dictGet info K.files = some (.list (v1Entries true o.pieceLength
        ((ftreeFiles [] (traverse enum t)).map fun x => (x.1, x.2.length))))) := by
  obtain ⟨content, l, hs', hb, hc, _, _⟩ :=
    createHybridClass_sortMeta o H H1 B hs bpp hB hbpp hpl enum t r b h
  obtain ⟨r', hr', hcan⟩ := hybrid_canon o content _ ((l.map H1).flatten) _
    (canon_traverse (fhHybrid H H1 B hs bpp) enum henum t hwn) hc
  rw [hs'] at hr'; cases hr'
  obtain ⟨_, hft, hly, hmv, hplk⟩ := v2conc_of_hybrid o H H1 B hs bpp hB hbpp hpl enum t r b h
  obtain ⟨info, hinfo, hget⟩ := info_of_infoGet r K.metaVersion _ hmv
  have hnl : r.infoGet? K.name = some (.str o.name) ∧
      r.infoGet? K.length = (singleLen t).map (fun (n : Nat) => BVal.int (n : Int)) ∧
      (∀ es, t = .dir es → r.infoGet? K.files = some (.list (v1Entries true o.pieceLength
        ((ftreeFiles [] (traverse enum t)).map fun x => (x.1, x.2.length))))) := by
    cases t with
    | file d =>
      rw [createHybridClass_file o H H1 B hs bpp hB hbpp hpl] at h
      obtain ⟨hs2, _⟩ := written_some _ r b h
      have hk := hybrid_keys _ _ _ _ _ r hs2
      exact ⟨hk.name, hk.length, fun es e => by cases e⟩
    | dir es =>
      obtain ⟨_, hk⟩ := createHybridClass_dir o H H1 B hs bpp hB hbpp hpl enum es r b h
      exact ⟨hk.name, hk.length, fun es' _ => hk.files⟩
  refine ⟨info, ⟨hb, hcan, ⟨hinfo, by rw [← hget]; exact hnl.1, ?_, by rw [← hget]; exact hmv, ?_⟩,
    by rw [← hget]; exact hft, by rw [← hget]; exact hnl.2.1⟩, ?_⟩
  · rw [← hget, hplk, hpl]
  · rw [← hpl]; exact hly
  · intro es e; rw [← hget]; exact hnl.2.2 es e

/-! ### `find_root` on the payload root: hybrid (tops from the `files` list) -/

theorem filesTops_v1Entries (align : Bool) (pl : Nat) (ps : List (List Bytes × Nat))
    (hne : ∀ x ∈ ps, x.1 ≠ []) :
    ∃ tops, filesTops (v1Entries align pl ps) = .ok tops ∧
      ∀ x ∈ tops, ∃ y ∈ ps, x = y.1.headD [] := by
  induction ps with
  | nil => exact ⟨[], by simp [v1Entries, filesTops], by simp⟩
  | cons a rest ih =>
    obtain ⟨p, n⟩ := a
    obtain ⟨tops, h5, h6⟩ := ih (fun y hy => hne y (by simp [hy]))
    obtain ⟨c, cs, hpc⟩ : ∃ c cs, p = c :: cs := by
      cases p with
      | nil => exact absurd rfl (hne ([], n) (by simp))
      | cons c cs => exact ⟨c, cs, rfl⟩
    by_cases hcond : (align && decide (gap pl n ≠ 0)) = true
    · refine ⟨c :: tops, ?_, ?_⟩
      · simp only [v1Entries, hcond, if_true]
        rw [hpc, filesTops_fileEntry, filesTops_padEntry, h5]; rfl
      · intro x hx
        simp only [List.mem_cons] at hx
        rcases hx with rfl | hx
        · exact ⟨(p, n), by simp, by simp [hpc]⟩
        · obtain ⟨y, hy, e⟩ := h6 x hx
          exact ⟨y, by simp [hy], e⟩
    · refine ⟨c :: tops, ?_, ?_⟩
      · simp only [v1Entries, hcond]
        simp only [Bool.false_eq_true, if_false]
        rw [hpc, filesTops_fileEntry, h5]; rfl
      · intro x hx
        simp only [List.mem_cons] at hx
        rcases hx with rfl | hx
        · exact ⟨(p, n), by simp, by simp [hpc]⟩
        · obtain ⟨y, hy, e⟩ := h6 x hx
          exact ⟨y, by simp [hy], e⟩

/-- hybrid metafile of a directory: `find_root` stays at the payload root (the padding entries
    of `files` do not count among the described top-level names, so every counted name exists
    in the payload itself) -/
theorem descends_hybrid_dir (info : Dict) (name : Bytes) (pl : Nat)
    (enum : List (Bytes × FTree) → List (Bytes × FTree)) (henum : ∀ l, (enum l).Perm l)
    (es : List (Bytes × Node)) (hwn : WellNamed (.dir es))
    (hfiles : dictGet info K.files = some (.list (v1Entries true pl
      ((ftreeFiles [] (traverse enum (.dir es))).map fun x => (x.1, x.2.length))))) :
    descends info name (.dir es) = .ok false := by
  have hfa := traverse_fileAt enum henum (.dir es) hwn
  have hne : ∀ x ∈ (ftreeFiles [] (traverse enum (.dir es))).map (fun x => (x.1, x.2.length)),
      x.1 ≠ [] := by
    intro x hx
    obtain ⟨y, hy, rfl⟩ := List.mem_map.mp hx
    exact fileAt_dir_ne_nil es y.1 y.2 (hfa y hy)
  obtain ⟨tops, h5, h6⟩ := filesTops_v1Entries true pl _ hne
  apply descends_false info name es tops
  · simp only [topsOf, hfiles, h5, bind, Except.bind]
  · intro inner hin x hx hsome
    obtain ⟨y, hy, rfl⟩ := h6 x hx
    obtain ⟨z, hz, rfl⟩ := List.mem_map.mp hy
    have hfz := hfa z hz
    have hnz := fileAt_dir_ne_nil es z.1 z.2 hfz
    cases hz1 : z.1 with
    | nil => exact absurd hz1 hnz
    | cons c cs =>
      rw [hz1] at hfz
      simpa [hz1] using fileAt_head_child es c cs z.2 hfz

/-- `TorrentFileHybrid`, end to end -/
theorem recheck_created_hybrid (o : CreateOpts) (H1 H : Bytes → Bytes) (B hs bpp : Nat)
    (hhs : 0 < hs) (hH : ∀ x, (H x).length = hs) (hB : 0 < B) (hbpp : 0 < bpp)
    (hpl : o.pieceLength = bpp * B)
    (enum : List (Bytes × FTree) → List (Bytes × FTree)) (henum : ∀ l, (enum l).Perm l)
    (t : Node) (hwn : WellNamed t) (hplain : PlainNamed t)
    (hsingle : ∀ d, t = .file d → Spec.plainName o.name = true)
    (hcoll : ∀ x ∈ ftreeFiles [] (traverse enum t), ∀ y ∈ ftreeFiles [] (traverse enum t),
      bpp * B < x.2.length → bpp * B < y.2.length →
      (fhV2 H B hs bpp x.2).root = (fhV2 H B hs bpp y.2).root →
      (fhV2 H B hs bpp x.2).layer = (fhV2 H B hs bpp y.2).layer)
    (hpos : 0 < treeBytes t) (r : BVal) (b : Bytes)
    (h : createHybridClass o H H1 B hs enum t = some (r, b))
    (arg : ContentArg) (harg : ArgOK arg o.name) :
    ∃ vs, Impl.recheck H1 H B hs b arg t = .ok (vs, treeBytes t, treeBytes t) ∧
      ∀ v ∈ vs, v.1 = true := by
  obtain ⟨info, hw, hfiles⟩ := hybrid_written o H H1 B hs bpp hB hbpp hpl enum henum t hwn r b h
  have hload : loads b = some r := by rw [hw.hb]; exact loads_encode r hw.hcanon
  have hnm := nameOf_eq r info o.name hw.hm.hinfo hw.hm.hname
  have hres : arg.Resolves info o.name t := by
    apply resolves_of_argOK arg info o.name t harg
    intro _
    cases t with
    | file d => exact descends_file info o.name d
    | dir es =>
      exact descends_hybrid_dir info o.name o.pieceLength enum henum es hwn (hfiles es rfl)
  have hroot := Spec.findRoot_place arg info o.name t hres
  simp only [Impl.recheck, hload, hnm]
  exact recheckMeta_created_v2 o H1 H B hs bpp hhs hH hB hbpp enum henum t hwn hplain hsingle hcoll
    hpos r info hw.hm hw.hft hw.hlen arg.argName _ hroot

/-! ### `find_root` on the payload root: pure v2 (tops from the file tree) -/

theorem treeVal_isDict (hf : Bytes → FileHash) (ft : FTree) : ∃ d, treeVal hf ft = .dict d := by
  cases ft with
  | leaf d => unfold treeVal leafVal; split <;> exact ⟨_, rfl⟩
  | node es => exact ⟨_, rfl⟩

theorem treeValList_vals (hf : Bytes → FileHash) : (es : List (Bytes × FTree)) →
    ∀ kv ∈ treeValList hf es, ∃ d, kv.2 = .dict d
  | [], kv, h => by simp [treeValList] at h
  | (n, c) :: t, kv, h => by
    simp only [treeValList, List.mem_cons] at h
    rcases h with rfl | h
    · exact treeVal_isDict hf c
    · exact treeValList_vals hf t kv h

/-- `_is_parent`'s view of a pure v2 metafile of a directory: the keys of the file tree, or
    "single file" when the tree is `{name: file}` -/
theorem topsOf_v2 (info : Dict) (name : Bytes) (tree : Dict)
    (hfiles : dictGet info K.files = none) (hlen : dictGet info K.length = none)
    (hft : dictGet info K.fileTree = some (.dict tree))
    (hvals : ∀ kv ∈ tree, ∃ d, kv.2 = .dict d) :
    (topsOf info name = .ok none ∧ keys tree = [name]) ∨
      topsOf info name = .ok (some (keys tree)) := by
  unfold topsOf
  simp only [hfiles, dictHas, hlen, Option.isSome_none, Bool.false_eq_true, if_false, hft]
  by_cases hk : keys tree = [name]
  · simp only [hk, if_true]
    cases hg : dictGet tree name with
    | none => exact Or.inr rfl
    | some v =>
      obtain ⟨leaf, rfl⟩ := hvals (name, v) (dictGet_mem tree name v hg)
      simp only
      by_cases hl : (dictGet leaf []).isSome = true
      · simp only [hl, if_true]; exact Or.inl ⟨trivial, trivial⟩
      · simp only [hl, Bool.false_eq_true, if_false]; exact Or.inr trivial
  · simp only [hk, if_false]; exact Or.inr trivial

theorem child_isSome_of_mem (es : List (Bytes × Node)) (n : Bytes) (h : n ∈ es.map (·.1)) :
    (child (.dir es) n).isSome = true := by
  induction es with
  | nil => simp at h
  | cons e t ih =>
    obtain ⟨m, c⟩ := e
    by_cases hm : m = n
    · simp [child, List.find?, hm]
    · simp only [List.map_cons, List.mem_cons] at h
      rcases h with h | h
      · exact absurd h.symm hm
      · have := ih h
        simpa [child, List.find?, hm] using this

theorem traverse_dir_keys (enum : List (Bytes × FTree) → List (Bytes × FTree))
    (henum : ∀ l, (enum l).Perm l) (es : List (Bytes × Node)) :
    (((enum (traverseChildren enum es)).mergeSort leName).map (·.1)).Perm (es.map (·.1)) := by
  have := ((List.mergeSort_perm (enum (traverseChildren enum es)) leName).trans (henum _)).map (·.1)
  rwa [traverseChildren_names] at this

/-- `TorrentFileV2`, end to end -/
theorem recheck_created_v2class (o : CreateOpts) (H1 H : Bytes → Bytes) (B hs bpp : Nat)
    (hhs : 0 < hs) (hH : ∀ x, (H x).length = hs) (hB : 0 < B) (hbpp : 0 < bpp)
    (hpl : o.pieceLength = bpp * B)
    (enum : List (Bytes × FTree) → List (Bytes × FTree)) (henum : ∀ l, (enum l).Perm l)
    (t : Node) (hwn : WellNamed t) (hplain : PlainNamed t)
    (hsingle : ∀ d, t = .file d → Spec.plainName o.name = true)
    (hcoll : ∀ x ∈ ftreeFiles [] (traverse enum t), ∀ y ∈ ftreeFiles [] (traverse enum t),
      bpp * B < x.2.length → bpp * B < y.2.length →
      (fhV2 H B hs bpp x.2).root = (fhV2 H B hs bpp y.2).root →
      (fhV2 H B hs bpp x.2).layer = (fhV2 H B hs bpp y.2).layer)
    (hpos : 0 < treeBytes t) (r : BVal) (b : Bytes)
    (h : createV2Class o H B hs enum t = some (r, b))
    (arg : ContentArg) (harg : ArgOK arg o.name) :
    ∃ vs, Impl.recheck H1 H B hs b arg t = .ok (vs, treeBytes t, treeBytes t) ∧
      ∀ v ∈ vs, v.1 = true := by
  obtain ⟨info, hw, hfiles⟩ := v2class_written o H B hs bpp hB hpl enum henum t hwn r b h
  have hload : loads b = some r := by rw [hw.hb]; exact loads_encode r hw.hcanon
  have hnm := nameOf_eq r info o.name hw.hm.hinfo hw.hm.hname
  -- the general case: `find_root` resolves to the tree itself
  have hgen : arg.Resolves info o.name t →
      ∃ vs, Impl.recheck H1 H B hs b arg t = .ok (vs, treeBytes t, treeBytes t) ∧
        ∀ v ∈ vs, v.1 = true := by
    intro hres
    have hroot := Spec.findRoot_place arg info o.name t hres
    simp only [Impl.recheck, hload, hnm]
    exact recheckMeta_created_v2 o H1 H B hs bpp hhs hH hB hbpp enum henum t hwn hplain hsingle
      hcoll hpos r info hw.hm hw.hft hw.hlen arg.argName _ hroot
  cases t with
  | file d => exact hgen (resolves_of_argOK arg info o.name _ harg (fun _ => descends_file _ _ d))
  | dir es =>
    by_cases hnk : ¬ arg.kind = .root
    · exact hgen (resolves_of_argOK arg info o.name _ harg (fun hk => absurd hk hnk))
    have hkind : arg.kind = .root := Classical.not_not.mp hnk
    have hft := hw.hft
    have hlen := hw.hlen
    simp only [singleLen, Option.isSome_none, treeOf, Bool.false_eq_true, if_false, traverse,
      treeVal, Option.map_none] at hft hlen
    rcases topsOf_v2 info o.name _ hfiles hlen hft (treeValList_vals _ _) with ⟨hnone, hkeys⟩ | hsome
    · -- the file tree is `{name: …}`
      cases hc : child (.dir es) o.name with
      | none =>
        exact hgen (resolves_of_argOK arg info o.name _ harg (fun _ => descends_no_entry _ _ _ hc))
      | some inner =>
        cases inner with
        | dir es' =>
          refine hgen (resolves_of_argOK arg info o.name _ harg (fun _ => ?_))
          simp only [descends, hc, Spec.isParent_single info o.name _ _ hnone, isFile]
        | file d =>
          -- the payload is a directory holding just the regular file `name`: `find_root`
          -- goes on to that file, which the checker then treats as a single-file payload
          rw [keys_treeValList] at hkeys
          have hnames : es.map (·.1) = [o.name] :=
            List.perm_singleton.mp ((traverse_dir_keys enum henum es).symm.trans (by rw [hkeys]))
          obtain ⟨c, rfl⟩ : ∃ c, es = [(o.name, c)] := by
            cases es with
            | nil => simp at hnames
            | cons e rest =>
              cases rest with
              | nil => obtain ⟨n, c⟩ := e; simp at hnames; exact ⟨c, by rw [hnames]⟩
              | cons e' rest' => simp at hnames
          have hcd : c = .file d := by simpa [child, List.find?] using hc
          subst hcd
          have hpn : Spec.plainName o.name = true := by
            simp only [PlainNamed, PlainNamedList] at hplain; exact hplain.1
          have htr : (enum (traverseChildren enum [(o.name, Node.file d)])).mergeSort leName
              = [(o.name, .leaf d)] := by
            have : enum [(o.name, FTree.leaf d)] = [(o.name, .leaf d)] :=
              List.perm_singleton.mp (henum _)
            simp [traverseChildren, traverse, this]
          rw [htr] at hft
          simp only [treeValList] at hft
          have hv2 : hasV2 info = true := by simp [hasV2, dictHas, hw.hm.hmv]
          have hdesc : describedFiles r (isFile (.file d))
              = some ([(([] : List Bytes), d)].map (recOf (fhV2 H B hs bpp))) := by
            unfold describedFiles
            simp only [hw.hm.hinfo, hw.hm.hname, hv2, if_true, hft, treeVal, parseEntries, hpn,
              parseNode_leafVal, hlen]
            simp [isFile, recOf]
          have hfiles_t : ftreeFiles [] (traverse enum (.dir [(o.name, Node.file d)]))
              = [([o.name], d)] := by
            simp [traverse, htr, ftreeFiles, ftreeFilesList]
          have hlay0 := layers_lookup (fhV2 H B hs bpp) (bpp * B) _ hcoll
          rw [hfiles_t] at hlay0
          have htb := treeBytes_traverse enum henum (.dir [(o.name, Node.file d)])
          rw [hfiles_t] at htb
          simp only [List.map_cons, List.map_nil, List.sum_cons, List.sum_nil, Nat.add_zero] at htb
          have hm' := hw.hm
          rw [hfiles_t] at hm'
          have hroot : findRoot info o.name arg.argName
              (some (arg.place o.name (.dir [(o.name, Node.file d)]))) = .ok (.file d) := by
            obtain ⟨kind, an⟩ := arg
            simp only at hkind; subst hkind
            rcases harg with ⟨_, hn⟩ | ⟨hk, _⟩
            · simp only at hn; subst hn
              simp only [ContentArg.place, findRoot, if_true, descends, hc,
                Spec.isParent_single info _ _ _ hnone, isFile, bind, Except.bind]
            · cases hk
          have := recheckMeta_v2_general H1 H B hs bpp hhs hH hB hbpp r info o.name _ hm'
            (.file d) [([], d)] hdesc
            (by intro x hx; simp only [List.mem_singleton] at hx; subst hx; rfl)
            (by intro x hx hlt
                simp only [List.mem_singleton] at hx; subst hx
                exact hlay0 ([o.name], d) (by simp) hlt)
            (by simpa [htb] using hpos) arg.argName _ hroot
          simp only [Impl.recheck, hload, hnm]
          simpa [htb] using this
    · -- the described top-level entries are the names of the directory
      refine hgen (resolves_of_argOK arg info o.name _ harg (fun _ => ?_))
      apply descends_false info o.name es _ hsome
      intro inner _ x hx _
      rw [keys_treeValList] at hx
      exact child_isSome_of_mem es x ((traverse_dir_keys enum henum es).subset hx)

/-! ### the collision hypothesis in terms of the BEP 52 specification -/

/-- "files of more than one piece with equal BEP 52 roots have equal piece layers" (true
    unless the hash collides), as the end-to-end proofs use it -/
theorem hcoll_of_spec (H : Bytes → Bytes) (B hs j : Nat) (hB : 0 < B)
    (enum : List (Bytes × FTree) → List (Bytes × FTree)) (henum : ∀ l, (enum l).Perm l) (t : Node)
    (hcoll : ∀ x ∈ Spec.allFiles [] t, ∀ y ∈ Spec.allFiles [] t,
      2 ^ j * B < x.2.length → 2 ^ j * B < y.2.length →
      Spec.root H B hs x.2 = Spec.root H B hs y.2 →
      (Spec.pieceLayer H B hs j x.2).flatten = (Spec.pieceLayer H B hs j y.2).flatten) :
    ∀ x ∈ ftreeFiles [] (traverse enum t), ∀ y ∈ ftreeFiles [] (traverse enum t),
      2 ^ j * B < x.2.length → 2 ^ j * B < y.2.length →
      (fhV2 H B hs (2 ^ j) x.2).root = (fhV2 H B hs (2 ^ j) y.2).root →
      (fhV2 H B hs (2 ^ j) x.2).layer = (fhV2 H B hs (2 ^ j) y.2).layer := by
  intro x hx y hy hxl hyl hr
  have hp := ftreeFiles_traverse_perm enum henum [] t []
  simp only [List.foldl_nil] at hp
  have hx' := hp.subset (List.mem_map_of_mem (f := fun x => (x.1.foldl join [], x.2)) hx)
  have hy' := hp.subset (List.mem_map_of_mem (f := fun x => (x.1.foldl join [], x.2)) hy)
  have hxd : x.2 ≠ [] := by intro e; rw [e] at hxl; simp at hxl
  have hyd : y.2 ≠ [] := by intro e; rw [e] at hyl; simp at hyl
  rw [fhV2_root_spec H B hs j hB x.2 hxd, fhV2_root_spec H B hs j hB y.2 hyd] at hr
  rw [fhV2_layer_spec H B hs j hB x.2 hxl, fhV2_layer_spec H B hs j hB y.2 hyl]
  exact hcoll _ hx' _ hy' hxl hyl hr

end E2E

/-! ### facts about the example inputs (`Ex.G7`) used by the `example`s of `Props/C05` -/
namespace Ex.G7
open E2E

theorem exTree_plainNamed : PlainNamed exTree := by
  simp [exTree, PlainNamed, PlainNamedList, Spec.plainName]

theorem exTree_bytes : treeBytes exTree = 15 := by decide

/-- only `b` (9 bytes, piece length 4) has more than one piece: no two files can collide -/
theorem exTree_hcoll (H : Bytes → Bytes) (B hs j : Nat) :
    ∀ x ∈ Spec.allFiles [] exTree, ∀ y ∈ Spec.allFiles [] exTree,
      4 < x.2.length → 4 < y.2.length → Spec.root H B hs x.2 = Spec.root H B hs y.2 →
      (Spec.pieceLayer H B hs j x.2).flatten = (Spec.pieceLayer H B hs j y.2).flatten := by
  intro x hx y hy hxl hyl _
  simp only [exTree, Spec.allFiles, Spec.allFilesList, List.append_nil, List.mem_cons,
    List.mem_append, List.not_mem_nil, or_false] at hx hy
  rcases hx with rfl | (rfl | rfl) | rfl <;> simp at hxl
  rcases hy with rfl | (rfl | rfl) | rfl <;> simp at hyl
  rfl

end Ex.G7
end TorrentVerif

import TorrentVerif.Proofs.Edit
/-
  `edit_torrent` keeps a canonical metafile canonical; untouched `info` is literally untouched;
  frame facts; last-write-wins algebra.
-/
namespace TorrentVerif
open Impl Spec

theorem Good.delField {p : Dict × Dict} (h1 : Good p.1) (h2 : Good p.2) (v : EVal) (key : Bytes)
    (b : Bool) : Good (delField v key b p).1 ∧ Good (delField v key b p).2 := by
  rw [delField_fst, delField_snd]
  constructor
  · split
    · exact h1.del key
    · exact h1
  · split
    · exact h2.del key
    · exact h2

theorem filterEmpty_good (req : EditReq) (top info : Dict) (h1 : Good top) (h2 : Good info) :
    Good (filterEmpty req (top, info)).1 ∧ Good (filterEmpty req (top, info)).2 := by
  unfold filterEmpty
  have a := Good.delField (p := (top, info)) h1 h2 req.urlList K.urlList false
  have b := Good.delField a.1 a.2 req.httpseeds K.httpseeds false
  have c := Good.delField b.1 b.2 req.announce K.announce false
  have d := Good.delField c.1 c.2 req.source K.source true
  have e := Good.delField d.1 d.2 req.priv K.priv true
  exact Good.delField e.1 e.2 req.comment K.comment true

theorem canon_val (e : EVal) (v : BVal) (h : e.val = some v) : canon v = true := by
  cases e with
  | str s =>
    by_cases hs : s = []
    · simp [EVal.val, hs] at h
    · simp [EVal.val, hs] at h; rw [← h]; rfl
  | list l => simp [EVal.val] at h; rw [← h]; exact canon_strs l
  | unnamed => simp [EVal.val] at h
  | cleared => simp [EVal.val] at h

theorem canon_one (e : EVal) (v : BVal) (h : e.one = some v) : canon v = true := by
  cases e with
  | str s =>
    by_cases hs : s = []
    · simp [EVal.one, hs] at h
    · simp [EVal.one, hs] at h; rw [← h]; rfl
  | list l => simp [EVal.one] at h; rw [← h]; rfl
  | unnamed => simp [EVal.one] at h
  | cleared => simp [EVal.one] at h

theorem canon_seeds (e : EVal) (v : BVal) (h : e.seeds = some v) : canon v = true := by
  cases e with
  | str s =>
    by_cases hs : s = []
    · simp [EVal.seeds, hs] at h
    · simp [EVal.seeds, hs] at h; rw [← h]; exact canon_strs _
  | list l => simp [EVal.seeds] at h; rw [← h]; exact canon_strs l
  | unnamed => simp [EVal.seeds] at h
  | cleared => simp [EVal.seeds] at h

theorem editInfo1_good (req : EditReq) (i : Dict) (h : Good i) : Good (editInfo1 req i) := by
  unfold editInfo1
  exact ((h.putOpt _ _ (canon_val _)).putOpt _ _ (canon_val _)).putOpt _ _ (canon_one _)

theorem editTop1_good (tr : Option (Bytes × List Bytes)) (t : Dict) (h : Good t) :
    Good (editTop1 tr t) := by
  unfold editTop1
  cases tr with
  | none => exact h
  | some al => exact (h.set _ _ rfl).set _ _ (canon_list1 _ (canon_strs _))

theorem editTop2_good (req : EditReq) (t : Dict) (h : Good t) : Good (editTop2 req t) := by
  unfold editTop2
  exact (h.putOpt _ _ (canon_seeds _)).putOpt _ _ (canon_seeds _)

theorem editInfo2_canon (ks : List Bytes) (i : Dict) (h : Good i) (hs : strictAsc ks = true) :
    canon (.dict (editInfo2 ks i)) = true := by
  unfold editInfo2
  by_cases e : keys i = ks
  · simp only [e, ne_eq, not_true_eq_false, if_false]
    exact h.canon_of_sorted (by rw [e]; exact hs)
  · simp only [ne_eq, e, not_false_eq_true, if_true]
    exact h.canon_sort

/-- `edit_torrent` on a canonical metafile yields a canonical metafile -/
theorem edit_canon (mf mf' : BVal) (req : EditReq) (hc : canon mf = true)
    (h : editTorrent mf req = .ok mf') : canon mf' = true := by
  obtain ⟨top, info, tr, rfl, hi, _, rfl⟩ := edit_ok mf mf' req h
  have gt : Good top := Good.of_canon hc
  have hic : canon (.dict info) = true := gt.vals _ (dictGet_mem top K.info _ hi)
  have gi : Good info := Good.of_canon hic
  have hs : strictAsc (keys info) = true := ((canon_dict info).mp hic).1
  obtain ⟨g1, g2⟩ := filterEmpty_good req top info gt gi
  have gt2 := editTop2_good req _ (editTop1_good tr _ g1)
  have ci2 := editInfo2_canon (keys info) _ (editInfo1_good req _ g2) hs
  exact (gt2.set K.info _ ci2).canon_sort

/-! ### untouched `info` -/

theorem unnamed_isDel : EVal.unnamed.isDel = false := rfl

/-- a request that names none of `comment`, `source`, `private` leaves the `info` dictionary
    exactly as it was (same items, same order) -/
theorem edit_info_same (mf mf' : BVal) (req : EditReq) (h : editTorrent mf req = .ok mf')
    (h1 : req.comment = .unnamed) (h2 : req.source = .unnamed) (h3 : req.priv = .unnamed) :
    mf'.get? K.info = mf.get? K.info := by
  obtain ⟨top, info, tr, rfl, hi, _, rfl⟩ := edit_ok mf mf' req h
  have hfe : (filterEmpty req (top, info)).2 = info := by
    simp [filterEmpty, delField_snd, h1, h2, h3, EVal.isDel]
  have h1' : editInfo1 req info = info := by
    simp [editInfo1, h1, h2, h3, EVal.val, EVal.one, putOpt]
  simp only [BVal.get?, dictGet_sortDict', dictGet_dictSet_same, hfe, h1', hi]
  simp [editInfo2]

/-! ### frame -/

theorem not_mem_names (req : EditReq) (k : Bytes) (h : k ∉ req.names) :
    (req.comment = .unnamed ∨ k ≠ K.comment) ∧ (req.source = .unnamed ∨ k ≠ K.source) ∧
    (req.priv = .unnamed ∨ k ≠ K.priv) ∧
    (req.announce = .unnamed ∨ (k ≠ K.announce ∧ k ≠ K.announceList)) ∧
    (req.urlList = .unnamed ∨ k ≠ K.urlList) ∧ (req.httpseeds = .unnamed ∨ k ≠ K.httpseeds) := by
  unfold EditReq.names at h
  simp only [List.mem_append, not_or] at h
  obtain ⟨⟨⟨⟨⟨a, b⟩, c⟩, d⟩, e⟩, f⟩ := h
  refine ⟨?_, ?_, ?_, ?_, ?_, ?_⟩
  · by_cases x : req.comment = .unnamed
    · exact Or.inl x
    · right; simpa [x] using a
  · by_cases x : req.source = .unnamed
    · exact Or.inl x
    · right; simpa [x] using b
  · by_cases x : req.priv = .unnamed
    · exact Or.inl x
    · right; simpa [x] using c
  · by_cases x : req.announce = .unnamed
    · exact Or.inl x
    · right; simpa [x] using d
  · by_cases x : req.urlList = .unnamed
    · exact Or.inl x
    · right; simpa [x] using e
  · by_cases x : req.httpseeds = .unnamed
    · exact Or.inl x
    · right; simpa [x] using f

theorem writeOf_unnamed (stored : EVal → Option BVal) (hs : stored .unnamed = none) :
    writeOf stored .unnamed = .keep := by
  simp [writeOf, hs, EVal.isDel]

theorem topWriteG_keep (req : EditReq) (k : Bytes) (h : k ∉ req.names) :
    topWriteG k req = .keep := by
  obtain ⟨a, b, c, d, e, f⟩ := not_mem_names req k h
  unfold topWriteG topWrite
  by_cases h1 : k = K.comment
  · rcases a with a | a
    · subst h1; ksimp [a, EVal.isDel]
    · exact absurd h1 a
  · by_cases h2 : k = K.source
    · rcases b with b | b
      · subst h2; ksimp [b, EVal.isDel]
      · exact absurd h2 b
    · by_cases h3 : k = K.priv
      · rcases c with c | c
        · subst h3; ksimp [c, EVal.isDel]
        · exact absurd h3 c
      · simp only [h1, h2, h3, if_false]
        by_cases h4 : k = K.announce
        · rcases d with d | d
          · subst h4; ksimp [d, writeOf, annFirst, EVal.trackers, EVal.isDel]
          · exact absurd h4 d.1
        · by_cases h5 : k = K.announceList
          · rcases d with d | d
            · subst h5; ksimp [d, annTiers, EVal.trackers]
            · exact absurd h5 d.2
          · by_cases h6 : k = K.urlList
            · rcases e with e | e
              · subst h6; ksimp [e, writeOf, EVal.seeds, EVal.isDel]
              · exact absurd h6 e
            · by_cases h7 : k = K.httpseeds
              · rcases f with f | f
                · subst h7; ksimp [f, writeOf, EVal.seeds, EVal.isDel]
                · exact absurd h7 f
              · simp [h4, h5, h6, h7]

theorem infoWriteG_keep (req : EditReq) (top : Dict) (k : Bytes) (h : k ∉ req.names) :
    infoWriteG top k req = .keep := by
  obtain ⟨a, b, c, _, _, _⟩ := not_mem_names req k h
  unfold infoWriteG
  by_cases h1 : k = K.comment
  · rcases a with a | a
    · subst h1; ksimp [a, EVal.isDel, EVal.val]
    · exact absurd h1 a
  · by_cases h2 : k = K.source
    · rcases b with b | b
      · subst h2; ksimp [b, EVal.isDel, EVal.val]
      · exact absurd h2 b
    · by_cases h3 : k = K.priv
      · rcases c with c | c
        · subst h3; ksimp [c, EVal.isDel, EVal.one]
        · exact absurd h3 c
      · simp [h1, h2, h3]

/-- keys of `info` other than the three editable ones are never touched -/
theorem infoWriteG_keep_other (req : EditReq) (top : Dict) (k : Bytes)
    (h1 : k ≠ K.comment) (h2 : k ≠ K.source) (h3 : k ≠ K.priv) :
    infoWriteG top k req = .keep := by
  simp [infoWriteG, h1, h2, h3]

/-! ### last write wins -/

theorem lastWrite_cons_apply (w : Write) (ws : List Write) (o : Option BVal) :
    (lastWrite (w :: ws)).apply o = (lastWrite ws).apply (w.apply o) := by
  simp only [lastWrite]
  cases lastWrite ws <;> simp [Write.apply]

theorem editMany_cons (mf mf'' : BVal) (r : EditReq) (rs : List EditReq)
    (h : editMany mf (r :: rs) = .ok mf'') :
    ∃ mf', editTorrent mf r = .ok mf' ∧ editMany mf' rs = .ok mf'' := by
  simp only [editMany] at h
  cases he : editTorrent mf r with
  | error e => simp [he] at h
  | ok mf' => exact ⟨mf', rfl, by simpa [he] using h⟩

/-- `edit_torrent` succeeds on every metafile that has an `info` dictionary unless the tracker
    argument is blank (the `IndexError`), and the result again has an `info` dictionary -/
theorem edit_total (mf : BVal) (req : EditReq) (info : Dict)
    (hi : mf.get? K.info = some (.dict info))
    (ht : ∃ tr, req.announce.trackers = .ok tr) :
    ∃ mf' info', editTorrent mf req = .ok mf' ∧ mf'.get? K.info = some (.dict info') := by
  obtain ⟨tr, ht⟩ := ht
  cases mf with
  | dict top =>
    simp only [BVal.get?] at hi
    have h : ∃ mf', editTorrent (.dict top) req = .ok mf' := by
      simp only [editTorrent, hi, ht]; exact ⟨_, rfl⟩
    obtain ⟨mf', h⟩ := h
    obtain ⟨top', info', tr', _, _, _, e⟩ := edit_ok _ mf' req h
    refine ⟨mf', editInfo2 (keys info') (editInfo1 req (filterEmpty req (top', info')).snd), h, ?_⟩
    rw [e]
    simp only [BVal.get?, dictGet_sortDict', dictGet_dictSet_same]
  | int _ => simp [BVal.get?] at hi
  | str _ => simp [BVal.get?] at hi
  | list _ => simp [BVal.get?] at hi

theorem editMany_total (reqs : List EditReq) (mf : BVal) (info : Dict)
    (hi : mf.get? K.info = some (.dict info))
    (ht : ∀ r ∈ reqs, ∃ tr, r.announce.trackers = .ok tr) :
    ∃ mf', editMany mf reqs = .ok mf' := by
  induction reqs generalizing mf info with
  | nil => exact ⟨mf, rfl⟩
  | cons r rs ih =>
    obtain ⟨m1, i1, h1, hi1⟩ := edit_total mf r info hi (ht r (by simp))
    obtain ⟨m2, h2⟩ := ih m1 i1 hi1 (fun r' hr' => ht r' (List.mem_cons_of_mem _ hr'))
    exact ⟨m2, by simp [editMany, h1, h2]⟩

/-- one edit of a metafile whose editable `info` fields are where torrentfile puts them -/
theorem edit_step_located (mf mf' : BVal) (req : EditReq) (h : editTorrent mf req = .ok mf')
    (hl : Located mf = true) :
    Located mf' = true ∧
    (∀ k, k ≠ K.info → mf'.get? k = (topWrite k req).apply (mf.get? k)) ∧
    (∀ k, mf'.infoGet? k = (infoWrite k req).apply (mf.infoGet? k)) := by
  obtain ⟨top, info, tr, hmf, hi, _, _⟩ := edit_ok mf mf' req h
  subst hmf
  simp only [Located, Bool.and_eq_true, Option.isNone_iff_eq_none] at hl
  obtain ⟨⟨l1, l2⟩, l3⟩ := hl
  have top_eq : ∀ k, k ≠ K.info → mf'.get? k = (topWrite k req).apply ((BVal.dict top).get? k) := by
    intro k hk
    rw [edit_top_get _ mf' req h k hk]
    unfold topWriteG
    by_cases h1 : k = K.comment
    · subst h1; rw [l1]; cases hd : req.comment.isDel <;> ksimp [topWrite, Write.apply]
    · by_cases h2 : k = K.source
      · subst h2; rw [l2]; cases hd : req.source.isDel <;> ksimp [topWrite, Write.apply]
      · by_cases h3 : k = K.priv
        · subst h3; rw [l3]; cases hd : req.priv.isDel <;> ksimp [topWrite, Write.apply]
        · simp [h1, h2, h3]
  refine ⟨?_, top_eq, ?_⟩
  · simp only [Located, Bool.and_eq_true, Option.isNone_iff_eq_none]
    refine ⟨⟨?_, ?_⟩, ?_⟩
    · rw [top_eq _ (by decide), l1]; ksimp [topWrite, Write.apply]
    · rw [top_eq _ (by decide), l2]; ksimp [topWrite, Write.apply]
    · rw [top_eq _ (by decide), l3]; ksimp [topWrite, Write.apply]
  · intro k
    rw [edit_info_get _ mf' req h top rfl k]
    have d1 : dictHas top K.comment = false := by
      simp only [BVal.get?] at l1; simp [dictHas, l1]
    have d2 : dictHas top K.source = false := by
      simp only [BVal.get?] at l2; simp [dictHas, l2]
    have d3 : dictHas top K.priv = false := by
      simp only [BVal.get?] at l3; simp [dictHas, l3]
    unfold infoWriteG infoWrite writeOf
    simp only [d1, d2, d3, Bool.not_false, Bool.and_true]
    cases req.comment.val <;> cases req.source.val <;> cases req.priv.one <;> rfl

end TorrentVerif

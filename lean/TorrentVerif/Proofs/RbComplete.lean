import TorrentVerif.Proofs.RbMatch
/- Frame, monotonicity, outcome of `copypath`, completeness of `_match_v2`, presence of counted files. -/
namespace TorrentVerif
open Rebuild PosixPath Spec

namespace Rebuild

/-- `fs` and `fs0` agree everywhere except strictly below `dest` -/
def Agree (fs fs0 : FS) (dest : Path) : Prop := ∀ q, ¬ StrictlyBelow dest q → fs q = fs0 q

theorem frame_of_trace (dest : Path) (ops : List Op) :
    ∀ fs, TraceAll (fun fs op => StrictlyBelow dest (Op.writes fs op)) fs ops →
      ∀ q, ¬ StrictlyBelow dest q → applyOps fs ops q = fs q := by
  induction ops with
  | nil => intro fs _ q _; rfl
  | cons x xs ih =>
    intro fs h q hq
    rw [applyOps_cons, ih _ h.2 q hq]
    exact applyOp_frame fs x q (fun e => hq (e ▸ h.1))

theorem Agree.trans_trace {fs fs0 : FS} {dest : Path} (ha : Agree fs fs0 dest) {ops : List Op}
    (h : TraceAll (fun fs op => StrictlyBelow dest (Op.writes fs op)) fs ops) :
    Agree (applyOps fs ops) fs0 dest := by
  intro q hq
  rw [frame_of_trace dest ops fs h q hq]; exact ha q hq

theorem not_below_of_not_prefix {dest p : Path} (h : ¬ dest <+: p) : ¬ StrictlyBelow dest p :=
  fun hb => h hb.prefix

theorem applyOps_ex (ops : List Op) : ∀ (fs : FS) (q : Path), (fs q).isSome → (applyOps fs ops q).isSome := by
  induction ops with
  | nil => intro fs q h; exact h
  | cons x xs ih => intro fs q h; exact ih _ q (applyOp_ex fs x q h)

theorem readFile?_set (fs : FS) (w q : Path) (o : Obj) :
    (fs.set w o).readFile? q =
      if q = w then (match o with | .file d => some d | .dir => none) else fs.readFile? q := by
  unfold FS.readFile? FS.set
  by_cases h : q = w
  · simp only [h, if_true]; cases o <;> rfl
  · simp only [h, if_false]

/-- a copy leaves every regular file a regular file -/
theorem applyOp_copy_isFile (fs : FS) (src dst q : Path) (h : (fs.readFile? q).isSome) :
    ((applyOp fs (.copy src dst)).readFile? q).isSome := by
  simp only [applyOp]
  cases hr : fs.readFile? src with
  | none => exact h
  | some d' =>
    simp only [readFile?_set]
    split
    · rfl
    · exact h

/-- `os.mkdir` is only called on paths that do not exist, so a regular file stays one -/
theorem applyOps_isFile_of (ops : List Op) :
    ∀ (fs : FS) (q : Path), (fs.readFile? q).isSome →
      (∀ p, Op.mkdir p ∈ ops → p ≠ q) → ((applyOps fs ops).readFile? q).isSome := by
  induction ops with
  | nil => intro fs q h _; exact h
  | cons x xs ih =>
    intro fs q h hm
    rw [applyOps_cons]
    refine ih _ q ?_ (fun p hp => hm p (List.mem_cons_of_mem _ hp))
    cases x with
    | mkdir p =>
      have hne : p ≠ q := hm p List.mem_cons_self
      simp only [applyOp, readFile?_set]
      rw [if_neg (fun e => hne e.symm)]
      exact h
    | copy src dst => exact applyOp_copy_isFile fs _ _ q h

end Rebuild

namespace Impl

theorem isFile_ex {fs : FS} {p : Path} (h : (fs.readFile? p).isSome) : fs.ex p = true := by
  unfold FS.readFile? at h
  unfold FS.ex
  split at h
  · rename_i d hd; rw [hd]; rfl
  · simp at h

/-- `copypath` either copies, or the destination already exists (with at least the size of the
    source unless it is the root) -/
theorem copypath_outcome (ds : Nat) (fs : FS) (src dst : Path) (hs : fs.ex src = true)
    (hroot : fs.ex [] = true) :
    Op.copy src dst ∈ copypath ds fs src dst ∨
      (fs.ex dst = true ∧ (dst ≠ [] → fs.size ds src ≤ fs.size ds dst)) := by
  unfold copypath
  split
  · rename_i hg
    simp only [hs, Bool.not_true, Bool.false_or, Bool.and_eq_true, decide_eq_true_eq] at hg
    exact Or.inr ⟨hg.1, fun _ => hg.2⟩
  · split
    · rename_i he; subst he; exact Or.inr ⟨hroot, fun h => absurd rfl h⟩
    · exact Or.inl (by simp)

/-- after `copypath` of a regular file the destination path exists -/
theorem copypath_present (ds : Nat) (fs : FS) (src dst : Path) (hs : (fs.readFile? src).isSome)
    (hroot : fs.ex [] = true) : ((applyOps fs (copypath ds fs src dst)) dst).isSome := by
  have hex := isFile_ex hs
  unfold copypath
  split
  · rename_i hg
    simp only [hex, Bool.not_true, Bool.false_or, Bool.and_eq_true, decide_eq_true_eq] at hg
    exact hg.1
  · split
    · rename_i he; subst he; exact hroot
    · rename_i hne
      rw [applyOps_append]
      have hfile : ((applyOps fs (mkdirChain fs [] dst.dropLast)).readFile? src).isSome := by
        apply applyOps_isFile_of _ fs src hs
        intro p hp
        obtain ⟨k, _, _, hk, hexk⟩ := mkdirChain_mem fs _ _ _ hp
        injection hk with hk
        intro e
        rw [← hk, e, hex] at hexk
        cases hexk
      cases hr : (applyOps fs (mkdirChain fs [] dst.dropLast)).readFile? src with
      | none => rw [hr] at hfile; simp at hfile
      | some d =>
        simp only [applyOps, List.foldl_cons, List.foldl_nil, applyOp]
        simp only [applyOps] at hr
        rw [hr]
        simp only [Op.writes, FS.set]
        split
        · rename_i hdir
          split
          · simp
          · rw [hdir]; rfl
        · simp

theorem runCalls_present (ds : Nat) (calls : List (Path × Path)) :
    ∀ fs, fs.ex [] = true → ∀ c ∈ calls, (fs.readFile? c.1).isSome →
      ((applyOps fs (runCalls ds fs calls)) c.2).isSome := by
  induction calls with
  | nil => intro fs _ c hc; simp at hc
  | cons c0 cs ih =>
    intro fs hroot c hc hfile
    obtain ⟨s, d⟩ := c0
    simp only [runCalls]
    rw [applyOps_append]
    have hroot' : (applyOps fs (copypath ds fs s d)).ex [] = true := applyOps_ex _ fs [] hroot
    cases hc with
    | head => exact applyOps_ex _ _ _ (copypath_present ds fs s d hfile hroot)
    | tail _ hc =>
      refine ih _ hroot' c hc ?_
      apply applyOps_isFile_of _ fs c.1 hfile
      intro p hp e
      obtain ⟨_, _, hexp⟩ := copypath_mkdir_mem hp
      rw [e, isFile_ex hfile] at hexp
      cases hexp

/-! ### v2: presence of counted files, completeness -/

theorem matchV2_present (rootOf : Bytes → Bytes) (ds : Nat) (filemap : FileMap) (dest : Path)
    (files : List FileRec) :
    ∀ fs, fs.ex [] = true →
      (∀ name cands, filemap.lookup name = some cands → ∀ c ∈ cands, (fs.readFile? c.1).isSome) →
      ∀ f ∈ (matchV2 rootOf ds filemap dest fs files).2, ∃ r ∈ files, f = r.full ∧ ∃ dp,
        safeJoin dest r.full = some dp ∧
        ((applyOps fs (matchV2 rootOf ds filemap dest fs files).1) dp).isSome := by
  induction files with
  | nil => intro fs _ _ f h; simp [matchV2] at h
  | cons r rest ih =>
    intro fs hroot hfiles f h
    have lift : ∀ {ops : List Op}, (∃ x ∈ rest, f = x.full ∧ ∃ dp, safeJoin dest x.full = some dp ∧
        (applyOps fs ops dp).isSome) → ∃ x ∈ r :: rest, f = x.full ∧ ∃ dp,
          safeJoin dest x.full = some dp ∧ (applyOps fs ops dp).isSome := by
      rintro ops ⟨x, hx, h1⟩; exact ⟨x, List.mem_cons_of_mem _ hx, h1⟩
    simp only [matchV2] at h ⊢
    cases hl : filemap.lookup r.filename with
    | none => rw [hl] at h; simp only; exact lift (ih fs hroot hfiles f h)
    | some cands =>
      rw [hl] at h
      simp only at h ⊢
      cases hp : matchV2Pick rootOf fs dest r cands with
      | none => rw [hp] at h; simp only; exact lift (ih fs hroot hfiles f h)
      | some sd =>
        obtain ⟨src, dp⟩ := sd
        rw [hp] at h
        simp only at h ⊢
        obtain ⟨sz, hm, _, _, hsj⟩ := matchV2Pick_some hp
        have hsrc := hfiles _ _ hl _ hm
        have hfiles' : ∀ name cands, filemap.lookup name = some cands → ∀ c ∈ cands,
            ((applyOps fs (copypath ds fs src dp)).readFile? c.1).isSome := by
          intro name cands' hl' c hc
          apply applyOps_isFile_of _ fs c.1 (hfiles _ _ hl' c hc)
          intro p hp' e
          obtain ⟨_, _, hexp⟩ := copypath_mkdir_mem hp'
          rw [e, isFile_ex (hfiles _ _ hl' c hc)] at hexp
          cases hexp
        cases h with
        | head =>
          refine ⟨r, List.mem_cons_self, rfl, dp, hsj, ?_⟩
          rw [applyOps_append]
          exact applyOps_ex _ _ _ (copypath_present ds fs src dp hsrc hroot)
        | tail _ h =>
          obtain ⟨x, hx, h1, dp', h2, h3⟩ := ih _ (applyOps_ex _ fs [] hroot) hfiles' f h
          exact ⟨x, List.mem_cons_of_mem _ hx, h1, dp', h2, by rw [applyOps_append]; exact h3⟩

theorem matchV2Pick_complete {rootOf : Bytes → Bytes} {fs : FS} {dest : Path} {r : FileRec} {dp : Path}
    (hsj : safeJoin dest r.full = some dp) :
    ∀ {cands : List (Path × Nat)}, (∃ c ∈ cands, c.2 = r.length ∧
        (r.length = 0 ∨ rootMatches rootOf fs r c.1 = true)) →
      ∃ src, matchV2Pick rootOf fs dest r cands = some (src, dp) := by
  intro cands
  induction cands with
  | nil => rintro ⟨c, hc, _⟩; simp at hc
  | cons c0 cs ih =>
    rintro ⟨c, hc, hsz, hv⟩
    obtain ⟨path, size⟩ := c0
    simp only [matchV2Pick]
    by_cases h1 : size = r.length
    · simp only [h1, if_true]
      by_cases h2 : r.length = 0 ∨ rootMatches rootOf fs r path = true
      · simp only [h2, if_true, hsj]; exact ⟨path, rfl⟩
      · simp only [h2, if_false]
        cases hc with
        | head => exact absurd hv h2
        | tail _ hc => exact ih ⟨c, hc, hsz, hv⟩
    · simp only [h1, if_false]
      cases hc with
      | head => exact absurd hsz h1
      | tail _ hc => exact ih ⟨c, hc, hsz, hv⟩

theorem agree_readFile {fs fs0 : FS} {dest p : Path} (ha : Agree fs fs0 dest) (hp : ¬ dest <+: p) :
    fs.readFile? p = fs0.readFile? p := by
  unfold FS.readFile?; rw [ha p (not_below_of_not_prefix hp)]

/-- what `rebuild_v2_complete` says about one file record -/
def V2Done (rootOf : Bytes → Bytes) (ds : Nat) (fs0 : FS) (filemap : FileMap) (fs : FS)
    (res : List Op × List Bytes) (r : FileRec) (dp : Path) : Prop :=
  r.full ∈ res.2 ∧
  ∃ src cands d, filemap.lookup r.filename = some cands ∧ (src, r.length) ∈ cands ∧
    fs0.readFile? src = some d ∧ d.length = r.length ∧ (r.length = 0 ∨ r.root = some (rootOf d)) ∧
    ∃ pre, pre <+: res.1 ∧ (Op.copy src dp ∈ res.1 ∨
      ((applyOps fs pre).ex dp = true ∧ (dp ≠ [] → r.length ≤ (applyOps fs pre).size ds dp)))

theorem matchV2_complete_aux (rootOf : Bytes → Bytes) (ds : Nat) (fs0 : FS) (filemap : FileMap)
    (dest : Path) (hd : CleanPath dest) (hok : FilemapOK fs0 dest filemap) (files : List FileRec) :
    ∀ fs, DestReady fs dest → Agree fs fs0 dest → (∀ r ∈ files, IntactV2 rootOf fs0 filemap r) →
      ∀ r ∈ files, ∀ dp, safeJoin dest r.full = some dp →
        V2Done rootOf ds fs0 filemap fs (matchV2 rootOf ds filemap dest fs files) r dp := by
  induction files with
  | nil => intro fs _ _ _ r hr; simp at hr
  | cons r0 rest ih =>
    intro fs hr ha hint r hmem dp hsj
    have hint' : ∀ x ∈ rest, IntactV2 rootOf fs0 filemap x := fun x hx => hint x (List.mem_cons_of_mem _ hx)
    -- what happens to the head record
    obtain ⟨cands, p0, d0, hl, hp0, hread0, hroot0⟩ := hint r0 List.mem_cons_self
    simp only [matchV2, hl]
    cases hpick : matchV2Pick rootOf fs dest r0 cands with
    | none =>
      simp only
      cases hmem with
      | head =>
        -- impossible: an intact candidate exists and the destination is accepted
        exfalso
        obtain ⟨hnp, d, hd0, hlen⟩ := hok _ _ hl _ hp0
        have : ∃ src, matchV2Pick rootOf fs dest r0 cands = some (src, dp) := by
          apply matchV2Pick_complete hsj
          refine ⟨(p0, r0.length), hp0, rfl, ?_⟩
          by_cases hz : r0.length = 0
          · exact Or.inl hz
          · right
            unfold rootMatches
            rw [agree_readFile ha hnp, hread0]
            simpa using hroot0 hz
        obtain ⟨src, hsrc⟩ := this
        rw [hsrc] at hpick; cases hpick
      | tail _ hmem => exact ih fs hr ha hint' r hmem dp hsj
    | some sd =>
      obtain ⟨src, dp0⟩ := sd
      simp only
      obtain ⟨sz, hm, hsz, hv, hsj0⟩ := matchV2Pick_some hpick
      have hpre0 := (safeJoin_some dest hd _ _ hsj0).1
      have hb := copypath_below ds fs dest src dp0 hr hpre0
      obtain ⟨htr, hr'⟩ := trace_below dest _ fs hr hb
      have ha' := ha.trans_trace htr
      obtain ⟨hnp, d, hdread, hlen⟩ := hok _ _ hl _ hm
      have hreadfs : fs.readFile? src = some d := by rw [agree_readFile ha hnp]; exact hdread
      cases hmem with
      | head =>
        rw [hsj0] at hsj
        injection hsj with hsj
        subst hsj
        refine ⟨List.mem_cons_self, src, cands, d, hl, by rw [← hsz]; exact hm, hdread, by rw [hlen]; exact hsz, ?_, ?_⟩
        · rcases hv with h0 | ⟨d', hd', hroot'⟩
          · exact Or.inl h0
          · rw [hreadfs] at hd'; injection hd' with hd'; subst hd'; exact Or.inr hroot'
        · refine ⟨[], List.nil_prefix, ?_⟩
          have hex : fs.ex src = true := isFile_ex (by rw [hreadfs]; rfl)
          have hroot : fs.ex [] = true := destReady_ex_prefix hr List.nil_prefix
          rcases copypath_outcome ds fs src dp0 hex hroot with h | ⟨h1, h2⟩
          · exact Or.inl (List.mem_append_left _ h)
          · right
            refine ⟨h1, fun hne => ?_⟩
            have := h2 hne
            have hsize : fs.size ds src = r0.length := by
              unfold FS.size
              have : fs src = some (.file d) := by
                unfold FS.readFile? at hreadfs
                split at hreadfs
                · rename_i d' hd'; injection hreadfs with e; subst e; exact hd'
                · cases hreadfs
              rw [this]; simp [hlen, hsz]
            rw [hsize] at this
            exact this
      | tail _ hmem =>
        obtain ⟨h1, src', cands', d', h2, h3, h4, h5, h6, pre, hpre, h7⟩ := ih _ hr' ha' hint' r hmem dp hsj
        refine ⟨List.mem_cons_of_mem _ h1, src', cands', d', h2, h3, h4, h5, h6,
          copypath ds fs src dp0 ++ pre, (List.prefix_append_right_inj _).mpr hpre, ?_⟩
        rcases h7 with h7 | h7
        · exact Or.inl (List.mem_append_right _ h7)
        · right; rw [applyOps_append]; exact h7

end Impl
end TorrentVerif

import TorrentVerif.Model.Options
/-
  Helper lemmas for C20: what the token reader does on a well-formed option group, on a list
  of groups, and with the content path in between; what `get` sees in the result.
-/
namespace TorrentVerif
open Spec

namespace NS

theorem get_set_same (ns : Namespace) (k : String) (v : Val) : get (set ns k v) k = some v := by
  induction ns with
  | nil => simp [set, get]
  | cons e r ih =>
    obtain ⟨q, c⟩ := e
    by_cases h : q = k <;> simp [set, get, h, ih]

theorem get_set_other (ns : Namespace) (k q : String) (v : Val) (h : q ≠ k) :
    get (set ns k v) q = get ns q := by
  induction ns with
  | nil => simp [set, get, Ne.symm h]
  | cons e r ih =>
    obtain ⟨x, c⟩ := e
    by_cases hx : x = k
    · subst hx; simp [set, get, Ne.symm h]
    · by_cases hq : x = q
      · subst hq; simp [set, get, hx]
      · simp [set, get, hx, hq, ih]

end NS

namespace Impl

/-- the namespace once what is pending has been stored -/
def commitNs (st : ArgState) : Namespace :=
  match st.mode with
  | .plus d acc => NS.set st.ns d (.list acc)
  | _ => st.ns

/-- states in which an option string or the end of the line is acceptable -/
def Ready (st : ArgState) : Prop :=
  st.mode = .idle ∨ ∃ d acc, st.mode = .plus d acc ∧ acc ≠ []

theorem commit_ready (st : ArgState) (h : Ready st) :
    argCommit st = .ok { ns := commitNs st, posDone := st.posDone, mode := .idle } := by
  obtain ⟨ns, pd, mode⟩ := st
  rcases h with h | ⟨d, acc, h, hne⟩
  · simp only at h; subst h; rfl
  · simp only at h; subst h
    cases acc with
    | nil => exact absurd rfl hne
    | cons a r => rfl

/-- values are collected one by one -/
theorem feed_plus_vals (t : Table) (ns : Namespace) (pd : Bool) (d : String)
    (vals : List String) (hv : ∀ v ∈ vals, isDash v = false) (acc rest : List String) :
    argFeed t { ns := ns, posDone := pd, mode := .plus d acc } (vals ++ rest)
      = argFeed t { ns := ns, posDone := pd, mode := .plus d (acc ++ vals) } rest := by
  induction vals generalizing acc with
  | nil => simp
  | cons v r ih =>
    have hvd : isDash v = false := hv v (by simp)
    simp only [List.cons_append, argFeed, argStep, hvd, Bool.false_eq_true, ↓reduceIte]
    rw [ih (fun x hx => hv x (by simp [hx]))]
    simp [List.append_assoc]

/-- the state after a well-formed group has been read from a ready state -/
def afterGroup (t : Table) (st : ArgState) (g : Group) : ArgState :=
  match t.lookup g.flag with
  | none => st
  | some o => match o.nargs with
    | .zero => { ns := NS.set (commitNs st) o.dest (.bool true), posDone := st.posDone, mode := .idle }
    | .one => { ns := NS.set (commitNs st) o.dest (g.value t), posDone := st.posDone, mode := .idle }
    | .plus => { ns := commitNs st, posDone := st.posDone, mode := .plus o.dest g.vals }

theorem feed_group (t : Table) (st : ArgState) (hr : Ready st) (g : Group) (hw : g.wf t = true)
    (rest : List String) :
    argFeed t st (g.render ++ rest) = argFeed t (afterGroup t st g) rest := by
  unfold Group.wf at hw
  simp only [Bool.and_eq_true] at hw
  obtain ⟨⟨hdash, hvals⟩, hlk⟩ := hw
  have hvals' : ∀ v ∈ g.vals, isDash v = false := by
    intro v hv
    have := List.all_eq_true.mp hvals v hv
    simpa using this
  unfold afterGroup Group.value
  cases hl : t.lookup g.flag with
  | none => simp [hl] at hlk
  | some o =>
    simp only [hl] at hlk
    simp only [Group.render, List.cons_append, argFeed, argStep, hdash, ↓reduceIte, commit_ready st hr, hl]
    cases hn : o.nargs with
    | zero =>
      simp only [hn] at hlk
      have : g.vals = [] := by simpa using hlk
      simp [this]
    | one =>
      simp only [hn, Bool.and_eq_true, beq_iff_eq, Bool.or_eq_true] at hlk
      obtain ⟨hlen, hch⟩ := hlk
      match hg : g.vals, hlen with
      | [v], _ =>
        have hvd : isDash v = false := hvals' v (by simp [hg])
        have hch' : o.choices.isEmpty = true ∨ o.choices.contains v = true := by
          rcases hch with h | h
          · exact Or.inl h
          · rw [hg] at h; exact Or.inr (by simpa using h)
        have hch'' : o.choices = [] ∨ v ∈ o.choices := by
          simpa [List.isEmpty_iff] using hch'
        simp [argFeed, argStep, hvd, hch'']
    | plus =>
      simp only []
      rw [feed_plus_vals t _ _ _ g.vals hvals' [] rest]
      simp

theorem afterGroup_ready (t : Table) (st : ArgState) (g : Group) (hw : g.wf t = true) :
    Ready (afterGroup t st g) ∧ (afterGroup t st g).posDone = st.posDone ∧
    commitNs (afterGroup t st g) = NS.set (commitNs st) (g.dest t) (g.value t) := by
  unfold Group.wf at hw
  simp only [Bool.and_eq_true] at hw
  obtain ⟨_, hlk⟩ := hw
  unfold afterGroup Group.dest Group.value
  cases hl : t.lookup g.flag with
  | none => simp [hl] at hlk
  | some o =>
    simp only [hl] at hlk
    cases hn : o.nargs with
    | zero => simp only [hn]; exact ⟨Or.inl rfl, trivial, rfl⟩
    | one => simp only [hn]; exact ⟨Or.inl rfl, trivial, rfl⟩
    | plus =>
      simp only [hn] at hlk ⊢
      have hne : g.vals ≠ [] := by
        intro h; rw [h] at hlk; simp at hlk
      exact ⟨Or.inr ⟨_, _, rfl, hne⟩, trivial, rfl⟩

/-- reading a whole list of well-formed groups -/
theorem feed_groups (t : Table) (gs : List Group) (hw : ∀ g ∈ gs, g.wf t = true)
    (st : ArgState) (hr : Ready st) (rest : List String) :
    ∃ st', argFeed t st (gs.flatMap Group.render ++ rest) = argFeed t st' rest ∧ Ready st' ∧
      st'.posDone = st.posDone ∧
      commitNs st' = gs.foldl (fun ns g => NS.set ns (g.dest t) (g.value t)) (commitNs st) := by
  induction gs generalizing st with
  | nil => exact ⟨st, by simp, hr, rfl, rfl⟩
  | cons g r ih =>
    have hg : g.wf t = true := hw g (by simp)
    obtain ⟨h1, h2, h3⟩ := afterGroup_ready t st g hg
    obtain ⟨st', e1, e2, e3, e4⟩ := ih (fun x hx => hw x (by simp [hx])) (afterGroup t st g) h1
    refine ⟨st', ?_, e2, by rw [e3, h2], ?_⟩
    · rw [List.flatMap_cons, List.append_assoc, feed_group t st hr g hg, e1]
    · rw [e4, h3]; rfl

theorem afterGroup_idle (t : Table) (st : ArgState) (g : Group) (hw : g.wf t = true)
    (hp : g.isPlus t = false) : (afterGroup t st g).mode = .idle := by
  unfold Group.isPlus at hp
  unfold Group.wf at hw
  unfold afterGroup
  cases hl : t.lookup g.flag with
  | none => simp [hl] at hw
  | some o =>
    simp only [hl] at hp ⊢
    cases hn : o.nargs with
    | zero => rfl
    | one => rfl
    | plus => simp [hn] at hp

/-- after a list of groups whose last one (if any) is not list-valued the reader is idle -/
theorem feed_groups_idle (t : Table) (gs : List Group) (hw : ∀ g ∈ gs, g.wf t = true)
    (hlast : ∀ g, gs.getLast? = some g → g.isPlus t = false)
    (st : ArgState) (hi : st.mode = .idle) (rest : List String) :
    ∃ st', argFeed t st (gs.flatMap Group.render ++ rest) = argFeed t st' rest ∧ st'.mode = .idle ∧
      st'.posDone = st.posDone ∧
      st'.ns = gs.foldl (fun ns g => NS.set ns (g.dest t) (g.value t)) st.ns := by
  have hr : Ready st := Or.inl hi
  have hc : commitNs st = st.ns := by simp [commitNs, hi]
  rcases List.eq_nil_or_concat gs with h | ⟨front, lastg, h⟩
  · subst h; exact ⟨st, by simp, hi, rfl, rfl⟩
  · rw [List.concat_eq_append] at h
    subst h
    have hwf : ∀ x ∈ front, x.wf t = true := fun x hx => hw x (by simp [hx])
    have hwl : lastg.wf t = true := hw lastg (by simp)
    have hpl : lastg.isPlus t = false := hlast lastg (by simp)
    obtain ⟨st2, f1, f2, f3, f4⟩ := feed_groups t front hwf st hr (lastg.render ++ rest)
    obtain ⟨_, k2, k3⟩ := afterGroup_ready t st2 lastg hwl
    have hm := afterGroup_idle t st2 lastg hwl hpl
    refine ⟨afterGroup t st2 lastg, ?_, hm, by rw [k2, f3], ?_⟩
    · rw [List.flatMap_append, List.append_assoc]
      simp only [List.flatMap_cons, List.flatMap_nil, List.append_nil]
      rw [f1, feed_group t st2 f2 lastg hwl]
    · have : commitNs (afterGroup t st2 lastg) = (afterGroup t st2 lastg).ns := by
        simp [commitNs, hm]
      rw [← this, k3, f4, hc]
      simp [List.foldl_append]

/-- Command line without the positional: the groups in any order give `meaning`. -/
theorem argparse_groups (t : Table) (gs : List Group) (hw : ∀ g ∈ gs, g.wf t = true) :
    argparse t (gs.flatMap Group.render)
      = .ok (gs.foldl (fun ns g => NS.set ns (g.dest t) (g.value t)) t.defaults) := by
  obtain ⟨st', e1, e2, _, e4⟩ := feed_groups t gs hw
    { ns := t.defaults, posDone := false, mode := .idle } (Or.inl rfl) []
  unfold argparse
  simp only [List.append_nil] at e1
  rw [e1]
  simp only [argFeed, commit_ready st' e2]
  rw [e4]; rfl

/-- Command line with the content path in a position where no list-valued option is open
    (at the very start, or after a group that is not list-valued). -/
theorem argparse_groups_pos (t : Table) (gs1 gs2 : List Group)
    (hw1 : ∀ g ∈ gs1, g.wf t = true) (hw2 : ∀ g ∈ gs2, g.wf t = true)
    (hlast : ∀ g, gs1.getLast? = some g → g.isPlus t = false)
    (p : String) (hp : isDash p = false) :
    argparse t (gs1.flatMap Group.render ++ p :: gs2.flatMap Group.render)
      = .ok (gs2.foldl (fun ns g => NS.set ns (g.dest t) (g.value t))
          (NS.set (gs1.foldl (fun ns g => NS.set ns (g.dest t) (g.value t)) t.defaults)
            t.positional (.str p))) := by
  obtain ⟨st1, e1, e2, e3, e4⟩ := feed_groups_idle t gs1 hw1 hlast
    { ns := t.defaults, posDone := false, mode := .idle } rfl (p :: gs2.flatMap Group.render)
  obtain ⟨ns1, pd1, m1⟩ := st1
  simp only at e2 e3 e4
  subst e2 e3
  obtain ⟨st2, f1, f2, _, f4⟩ := feed_groups t gs2 hw2
    { ns := NS.set ns1 t.positional (.str p), posDone := true, mode := .idle } (Or.inl rfl) []
  unfold argparse
  rw [e1]
  simp only [argFeed, argStep, hp, Bool.false_eq_true, ↓reduceIte]
  simp only [List.append_nil] at f1
  rw [f1]
  simp only [argFeed, commit_ready st2 f2]
  rw [f4, e4]; rfl

/-! ### what `get` sees after setting a list of groups -/

/-- set every group's keyword to its value -/
def setAll (t : Table) (ns : Namespace) (gs : List Group) : Namespace :=
  gs.foldl (fun ns g => NS.set ns (g.dest t) (g.value t)) ns

theorem get_setAll_notin (t : Table) (gs : List Group) (ns : Namespace) (k : String)
    (hk : k ∉ gs.map (Group.dest t)) : NS.get (setAll t ns gs) k = NS.get ns k := by
  induction gs generalizing ns with
  | nil => rfl
  | cons g r ih =>
    simp only [List.map_cons, List.mem_cons, not_or] at hk
    simp only [setAll, List.foldl_cons]
    have := ih (NS.set ns (g.dest t) (g.value t)) hk.2
    simp only [setAll] at this
    rw [this, NS.get_set_other _ _ _ _ hk.1]

theorem get_setAll_mem (t : Table) (gs : List Group) (ns : Namespace)
    (hnd : (gs.map (Group.dest t)).Nodup) (g : Group) (hg : g ∈ gs) :
    NS.get (setAll t ns gs) (g.dest t) = some (g.value t) := by
  induction gs generalizing ns with
  | nil => cases hg
  | cons a r ih =>
    simp only [List.map_cons, List.nodup_cons] at hnd
    simp only [setAll, List.foldl_cons]
    rcases List.mem_cons.mp hg with h | h
    · subst h
      have := get_setAll_notin t r (NS.set ns (g.dest t) (g.value t)) (g.dest t) hnd.1
      simp only [setAll] at this
      rw [this, NS.get_set_same]
    · have := ih (NS.set ns (a.dest t) (a.value t)) hnd.2 h
      simpa [setAll] using this

/-! ### defaults -/

theorem get_setIfAbsent (ns : Namespace) (k q : String) (v w : Val)
    (h : NS.get (setIfAbsent ns k v) q = some w) : NS.get ns q = some w ∨ (q = k ∧ w = v) := by
  unfold setIfAbsent at h
  cases hg : NS.get ns k with
  | some _ => simp only [hg] at h; exact Or.inl h
  | none =>
    simp only [hg] at h
    by_cases hk : q = k
    · subst hk; rw [NS.get_set_same] at h; cases h; exact Or.inr ⟨rfl, rfl⟩
    · rw [NS.get_set_other _ _ _ _ hk] at h; exact Or.inl h

theorem defaults_get (t : Table) (k : String) (P : Val → Prop)
    (hP : ∀ o ∈ t.opts, o.dest = k → P o.default) (hpos : t.positional = k → P .none) :
    ∀ v, NS.get t.defaults k = some v → P v := by
  have hfold : ∀ (opts : List OptSpec) (ns : Namespace),
      (∀ o ∈ opts, o.dest = k → P o.default) → (∀ v, NS.get ns k = some v → P v) →
      ∀ v, NS.get (opts.foldl (fun ns o => setIfAbsent ns o.dest o.default) ns) k = some v → P v := by
    intro opts
    induction opts with
    | nil => intro ns _ h; exact h
    | cons o r ih =>
      intro ns ho h
      simp only [List.foldl_cons]
      apply ih _ (fun x hx => ho x (by simp [hx]))
      intro v hv
      rcases get_setIfAbsent _ _ _ _ _ hv with h1 | ⟨h1, h2⟩
      · exact h v h1
      · subst h2; exact ho o (by simp) h1.symm
  unfold Table.defaults
  intro v hv
  rcases get_setIfAbsent _ _ _ _ _ hv with h1 | ⟨h1, h2⟩
  · exact hfold t.opts [] hP (by intro v hv; simp [NS.get] at hv) v h1
  · subst h2; exact hpos h1.symm

/-! ### consequences of `tableOK` -/

theorem lookup_mem (t : Table) (f : String) (o : OptSpec) (h : t.lookup f = some o) : o ∈ t.opts :=
  List.mem_of_find?_eq_some h

structure TableFacts (t : Table) : Prop where
  pos : t.positional = "content"
  dest_ne : ∀ o ∈ t.opts, o.dest ≠ "content" ∧ o.dest ≠ "path"
  plus_iff : ∀ o ∈ t.opts, (o.nargs = .plus ↔
    (o.dest = "announce" ∨ o.dest = "url_list" ∨ o.dest = "httpseeds"))
  plus_default : ∀ o ∈ t.opts, o.nargs = .plus → o.default.truthy = false
  field_default : ∀ o ∈ t.opts, o.dest ∈ fieldKeywords → o.default.truthy = false
  documented : ∀ d ∈ documentedFlags, ∃ o, t.lookup d.1 = some o ∧ o.dest = d.2.1 ∧ o.nargs = d.2.2

theorem tableFacts (t : Table) (h : tableOK t = true) : TableFacts t := by
  unfold tableOK at h
  simp only [Bool.and_eq_true, List.all_eq_true, beq_iff_eq, bne_iff_ne, ne_eq, Bool.or_eq_true,
    Bool.not_eq_eq_eq_not, Bool.not_true] at h
  obtain ⟨⟨⟨⟨⟨h1, h2⟩, h3⟩, h4⟩, h5⟩, h6⟩ := h
  refine ⟨h1, fun o ho => ⟨(h2 o ho).1.1, (h2 o ho).1.2⟩, fun o ho => ?_, fun o ho hn => ?_,
    fun o ho hf => ?_, fun d hd => ?_⟩
  · have := h3 o ho
    constructor
    · intro hn
      have h' : (o.nargs == Nargs.plus) = true := by simp [hn]
      rw [h'] at this
      simpa [or_assoc] using this.symm
    · intro hd
      have h' : (o.dest == "announce" || o.dest == "url_list" || o.dest == "httpseeds") = true := by
        simpa [or_assoc] using hd
      rw [h'] at this
      simpa using this
  · rcases h4 o ho with h | h
    · exact absurd hn h
    · exact h
  · rcases h5 o ho with h | h
    · have : fieldKeywords.contains o.dest = true := by simpa using hf
      rw [this] at h; cases h
    · exact h
  · have := h6 d hd
    cases hl : t.lookup d.1 with
    | none => simp [hl] at this
    | some o => simp only [hl, Bool.and_eq_true, beq_iff_eq] at this; exact ⟨o, rfl, this.1, this.2⟩

/-! ### `metaInit` -/

/-- a list keyword that cannot divert the recovery: falsy, or a non-empty list of strings none
    of which is an existing path -/
def Harmless (ex : String → Bool) (v : Val) : Prop :=
  v.truthy = false ∨ ∃ l, v = .list l ∧ l ≠ [] ∧ ∀ x ∈ l, ex x = false

theorem seqParts_concat (l : List String) (p : String) :
    seqParts (.list (l ++ [p])) = some (l.length + 1, p, .list l) := by
  simp [seqParts]

theorem seqParts_harmless (ex : String → Bool) (l : List String) (hne : l ≠ [])
    (hex : ∀ x ∈ l, ex x = false) :
    ∃ n last init, seqParts (.list l) = some (n, last, init) ∧ ex last = false := by
  cases hl : l.getLast? with
  | none => exact absurd (List.getLast?_eq_none_iff.mp hl) hne
  | some x =>
    obtain ⟨ys, hys⟩ := List.getLast?_eq_some_iff.mp hl
    exact ⟨l.length, x, .list l.dropLast, by simp [seqParts, hl], hex x (by rw [hys]; simp)⟩

theorem metaInit_direct (ex : String → Bool) (kw : Kwargs) (p : String)
    (hc : kw.content = .str p) (hp : p ≠ "") :
    metaInit ex kw = .ok { kw with path := .str p, content := .none } := by
  simp [metaInit, hc, Val.truthy, hp]

theorem truthy_none : Val.none.truthy = false := rfl

theorem truthy_concat (l : List String) (p : String) : (Val.list (l ++ [p])).truthy = true := by
  simp [Val.truthy]

theorem metaInit_recover_announce (ex : String → Bool) (kw : Kwargs) (l : List String) (p : String)
    (hc : kw.content = .none) (hpa : kw.path = .none)
    (ha : kw.announce = .list (l ++ [p])) (hl : l ≠ []) (hex : ex p = true) :
    metaInit ex kw = .ok { kw with path := .str p, content := .none, announce := .list l } := by
  have hlen : l.length + 1 > 1 := by
    have : 0 < l.length := List.length_pos_iff.mpr hl
    omega
  simp [metaInit, hc, hpa, ha, truthy_none, truthy_concat, seqParts_concat, hlen, hex]

theorem metaInit_recover_url (ex : String → Bool) (kw : Kwargs) (l : List String) (p : String)
    (hc : kw.content = .none) (hpa : kw.path = .none)
    (ha : Harmless ex kw.announce)
    (hu : kw.urlList = .list (l ++ [p])) (hex : ex p = true) :
    metaInit ex kw = .ok { kw with path := .str p, content := .none, urlList := .list l } := by
  rcases ha with ha | ⟨la, ha, hne, hla⟩
  · simp [metaInit, hc, hpa, ha, hu, truthy_none, truthy_concat, seqParts_concat, hex]
  · obtain ⟨n, last, init, hs, hlast⟩ := seqParts_harmless ex la hne hla
    have hta : (Val.list la).truthy = true := by
      cases la with
      | nil => exact absurd rfl hne
      | cons a r => rfl
    simp [metaInit, hc, hpa, ha, hu, hta, hs, hlast, truthy_none, truthy_concat, seqParts_concat, hex]

theorem metaInit_recover_http (ex : String → Bool) (kw : Kwargs) (l : List String) (p : String)
    (hc : kw.content = .none) (hpa : kw.path = .none)
    (ha : Harmless ex kw.announce) (hu : Harmless ex kw.urlList)
    (hh : kw.httpseeds = .list (l ++ [p])) (hex : ex p = true) :
    metaInit ex kw = .ok { kw with path := .str p, content := .none, httpseeds := .list l } := by
  have key : ∀ v, Harmless ex v →
      (v.truthy = false) ∨ (v.truthy = true ∧ ∃ n last init, seqParts v = some (n, last, init) ∧ ex last = false) := by
    intro v hv
    rcases hv with hv | ⟨la, hv, hne, hla⟩
    · exact Or.inl hv
    · right
      subst hv
      refine ⟨?_, seqParts_harmless ex la hne hla⟩
      cases la with
      | nil => exact absurd rfl hne
      | cons a r => rfl
  rcases key _ ha with ha | ⟨ha, n1, l1, i1, hs1, he1⟩ <;>
  rcases key _ hu with hu | ⟨hu, n2, l2, i2, hs2, he2⟩ <;>
  simp [metaInit, *, truthy_none, truthy_concat, seqParts_concat]

/-! ### `toKwargs` only looks at twelve keys -/

/-- the two namespaces agree on every key except `content`, `path` and `d` -/
def AgreeExcept (d : String) (ns ns' : Namespace) : Prop :=
  ∀ k, k ≠ "content" → k ≠ "path" → k ≠ d → NS.get ns k = NS.get ns' k

theorem getD_of_agree {d : String} {ns ns' : Namespace} (h : AgreeExcept d ns ns') (k : String)
    (h1 : k ≠ "content") (h2 : k ≠ "path") (h3 : k ≠ d) (dflt : Val) :
    NS.getD ns k dflt = NS.getD ns' k dflt := by
  unfold NS.getD; rw [h k h1 h2 h3]

theorem toKwargs_agree (ns ns' : Namespace) (h : AgreeExcept "content" ns ns') (x y : Val) :
    { toKwargs ns with path := x, content := y } = { toKwargs ns' with path := x, content := y } := by
  have e := fun k h1 h2 => getD_of_agree h k h1 h2 h1
  simp only [toKwargs, e "announce" (by decide) (by decide), e "url_list" (by decide) (by decide),
    e "httpseeds" (by decide) (by decide), e "private" (by decide) (by decide),
    e "source" (by decide) (by decide), e "comment" (by decide) (by decide),
    e "piece_length" (by decide) (by decide), e "meta_version" (by decide) (by decide),
    e "outfile" (by decide) (by decide), e "align" (by decide) (by decide)]

theorem toKwargs_fix_announce (ns ns' : Namespace) (h : AgreeExcept "announce" ns ns') (v x y : Val)
    (hv : NS.get ns' "announce" = some v) :
    { toKwargs ns with path := x, content := y, announce := v }
      = { toKwargs ns' with path := x, content := y } := by
  have e := fun k h1 h2 h3 => getD_of_agree h k h1 h2 h3
  have ev : NS.getD ns' "announce" .none = v := by simp [NS.getD, hv]
  simp only [toKwargs, ev, e "url_list" (by decide) (by decide) (by decide),
    e "httpseeds" (by decide) (by decide) (by decide), e "private" (by decide) (by decide) (by decide),
    e "source" (by decide) (by decide) (by decide), e "comment" (by decide) (by decide) (by decide),
    e "piece_length" (by decide) (by decide) (by decide),
    e "meta_version" (by decide) (by decide) (by decide),
    e "outfile" (by decide) (by decide) (by decide), e "align" (by decide) (by decide) (by decide)]

theorem toKwargs_fix_url (ns ns' : Namespace) (h : AgreeExcept "url_list" ns ns') (v x y : Val)
    (hv : NS.get ns' "url_list" = some v) :
    { toKwargs ns with path := x, content := y, urlList := v }
      = { toKwargs ns' with path := x, content := y } := by
  have e := fun k h1 h2 h3 => getD_of_agree h k h1 h2 h3
  have ev : NS.getD ns' "url_list" .none = v := by simp [NS.getD, hv]
  simp only [toKwargs, ev, e "announce" (by decide) (by decide) (by decide),
    e "httpseeds" (by decide) (by decide) (by decide), e "private" (by decide) (by decide) (by decide),
    e "source" (by decide) (by decide) (by decide), e "comment" (by decide) (by decide) (by decide),
    e "piece_length" (by decide) (by decide) (by decide),
    e "meta_version" (by decide) (by decide) (by decide),
    e "outfile" (by decide) (by decide) (by decide), e "align" (by decide) (by decide) (by decide)]

theorem toKwargs_fix_http (ns ns' : Namespace) (h : AgreeExcept "httpseeds" ns ns') (v x y : Val)
    (hv : NS.get ns' "httpseeds" = some v) :
    { toKwargs ns with path := x, content := y, httpseeds := v }
      = { toKwargs ns' with path := x, content := y } := by
  have e := fun k h1 h2 h3 => getD_of_agree h k h1 h2 h3
  have ev : NS.getD ns' "httpseeds" .none = v := by simp [NS.getD, hv]
  simp only [toKwargs, ev, e "announce" (by decide) (by decide) (by decide),
    e "url_list" (by decide) (by decide) (by decide), e "private" (by decide) (by decide) (by decide),
    e "source" (by decide) (by decide) (by decide), e "comment" (by decide) (by decide) (by decide),
    e "piece_length" (by decide) (by decide) (by decide),
    e "meta_version" (by decide) (by decide) (by decide),
    e "outfile" (by decide) (by decide) (by decide), e "align" (by decide) (by decide) (by decide)]

/-! ### well-formed groups -/

theorem wf_lookup (t : Table) (g : Group) (hw : g.wf t = true) :
    ∃ o, t.lookup g.flag = some o ∧ o ∈ t.opts ∧ g.dest t = o.dest ∧
      (g.isPlus t = true ↔ o.nargs = .plus) ∧
      (o.nargs = .plus → g.value t = .list g.vals ∧ g.vals ≠ []) := by
  unfold Group.wf at hw
  cases hl : t.lookup g.flag with
  | none => simp [hl] at hw
  | some o =>
    refine ⟨o, rfl, lookup_mem t _ o hl, by simp [Group.dest, hl], by simp [Group.isPlus, hl], ?_⟩
    intro hn
    simp only [hl, hn, Bool.and_eq_true] at hw
    refine ⟨by simp [Group.value, hl, hn], ?_⟩
    intro h; rw [h] at hw; simp at hw

theorem swallow_wf (t : Table) (g : Group) (hw : g.wf t = true) (hp : g.isPlus t = true)
    (p : String) (hpd : isDash p = false) :
    Group.wf t ⟨g.flag, g.vals ++ [p]⟩ = true ∧
    Group.dest t ⟨g.flag, g.vals ++ [p]⟩ = g.dest t ∧
    Group.value t ⟨g.flag, g.vals ++ [p]⟩ = .list (g.vals ++ [p]) := by
  obtain ⟨o, hl, _, _, hpl, _⟩ := wf_lookup t g hw
  have hn : o.nargs = .plus := hpl.mp hp
  unfold Group.wf at hw ⊢
  simp only [hl, hn, Bool.and_eq_true] at hw ⊢
  refine ⟨⟨⟨hw.1.1, ?_⟩, by simp⟩, by simp [Group.dest, hl], by simp [Group.value, hl, hn]⟩
  simp only [List.all_append, Bool.and_eq_true, hw.1.2, true_and]
  simp [hpd]

/-! ### the main lemma of C20 -/

theorem cli_record (t : Table) (hok : tableOK t = true) (ex : String → Bool)
    (groups : List Group) (hw : ∀ g ∈ groups, g.wf t = true)
    (hnd : (groups.map (Group.dest t)).Nodup)
    (hurl : ∀ g ∈ groups, g.isPlus t = true → ∀ v ∈ g.vals, ex v = false)
    (p : String) (hpd : isDash p = false) (hex : ex p = true) (hpne : p ≠ "")
    (gs1 gs2 : List Group) (hperm : (gs1 ++ gs2).Perm groups) :
    ∃ ns, argparse t (gs1.flatMap Group.render ++ p :: gs2.flatMap Group.render) = .ok ns ∧
      metaInit ex (toKwargs ns) = .ok (expected t groups p) := by
  have F := tableFacts t hok
  have hmem : ∀ g, g ∈ gs1 ++ gs2 ↔ g ∈ groups := fun g => hperm.mem_iff
  have hnd' : ((gs1 ++ gs2).map (Group.dest t)).Nodup :=
    (hperm.map (Group.dest t)).nodup_iff.mpr hnd
  have hdests : ∀ k, k ∈ (gs1 ++ gs2).map (Group.dest t) ↔ k ∈ groups.map (Group.dest t) :=
    fun k => (hperm.map (Group.dest t)).mem_iff
  have hw1 : ∀ g ∈ gs1, g.wf t = true := fun g hg => hw g ((hmem g).mp (by simp [hg]))
  have hw2 : ∀ g ∈ gs2, g.wf t = true := fun g hg => hw g ((hmem g).mp (by simp [hg]))
  have hdne : ∀ g : Group, g.wf t = true → g.dest t ≠ "content" ∧ g.dest t ≠ "path" := by
    intro g hg
    obtain ⟨o, _, ho, hd, _⟩ := wf_lookup t g hg
    rw [hd]; exact F.dest_ne o ho
  -- the meaning of the groups, key by key
  have M1 : ∀ g ∈ groups, NS.get (meaning t groups) (g.dest t) = some (g.value t) :=
    fun g hg => get_setAll_mem t groups t.defaults hnd g hg
  have M2 : ∀ k, k ∉ groups.map (Group.dest t) → NS.get (meaning t groups) k = NS.get t.defaults k :=
    fun k hk => get_setAll_notin t groups t.defaults k hk
  have hcont_notin : ∀ gs : List Group, (∀ g ∈ gs, g.wf t = true) →
      "content" ∉ gs.map (Group.dest t) ∧ "path" ∉ gs.map (Group.dest t) := by
    intro gs hgs
    constructor <;>
    · intro hc
      obtain ⟨g, hg, hd⟩ := List.mem_map.mp hc
      have := hdne g (hgs g hg)
      simp [hd] at this
  by_cases hlast : ∀ g, gs1.getLast? = some g → g.isPlus t = false
  · -- the content path is taken by the positional
    refine ⟨_, argparse_groups_pos t gs1 gs2 hw1 hw2 hlast p hpd, ?_⟩
    rw [F.pos]
    have hnd2 : (gs2.map (Group.dest t)).Nodup := by
      rw [List.map_append] at hnd'; exact (List.nodup_append.mp hnd').2.1
    have hnd1 : (gs1.map (Group.dest t)).Nodup := by
      rw [List.map_append] at hnd'; exact (List.nodup_append.mp hnd').1
    have hc : (toKwargs (setAll t (NS.set (setAll t t.defaults gs1) "content" (.str p)) gs2)).content
        = .str p := by
      simp only [toKwargs, NS.getD]
      rw [get_setAll_notin t gs2 _ "content" (hcont_notin gs2 hw2).1, NS.get_set_same]
    show metaInit ex (toKwargs (setAll t (NS.set (setAll t t.defaults gs1) "content" (.str p)) gs2)) = _
    rw [metaInit_direct ex _ p hc hpne]
    unfold expected
    rw [toKwargs_agree _ (meaning t groups)]
    intro k h1 _ _
    by_cases hk2 : k ∈ gs2.map (Group.dest t)
    · obtain ⟨g, hg, hd⟩ := List.mem_map.mp hk2
      subst hd
      rw [get_setAll_mem t gs2 _ hnd2 g hg, M1 g ((hmem g).mp (by simp [hg]))]
    · rw [get_setAll_notin t gs2 _ k hk2, NS.get_set_other _ _ _ _ h1]
      by_cases hk1 : k ∈ gs1.map (Group.dest t)
      · obtain ⟨g, hg, hd⟩ := List.mem_map.mp hk1
        subst hd
        rw [get_setAll_mem t gs1 _ hnd1 g hg, M1 g ((hmem g).mp (by simp [hg]))]
      · rw [get_setAll_notin t gs1 _ k hk1, M2 k]
        intro hk
        have := (hdests k).mpr hk
        simp only [List.map_append, List.mem_append] at this
        rcases this with h | h
        · exact hk1 h
        · exact hk2 h
  · -- the content path is swallowed by the list-valued group in front of it
    have : ∃ g, gs1.getLast? = some g ∧ g.isPlus t = true := by
      apply Classical.byContradiction
      intro hn
      apply hlast
      intro g hg
      cases hp : g.isPlus t with
      | false => rfl
      | true => exact absurd ⟨g, hg, hp⟩ hn
    obtain ⟨g, hgl, hgp⟩ := this
    obtain ⟨front, hfront⟩ := List.getLast?_eq_some_iff.mp hgl
    subst hfront
    have hgw : g.wf t = true := hw1 g (by simp)
    have hgin : g ∈ groups := (hmem g).mp (by simp)
    obtain ⟨g', hg'⟩ : ∃ g' : Group, g' = (⟨g.flag, g.vals ++ [p]⟩ : Group) := ⟨_, rfl⟩
    obtain ⟨hsw, hsd, hsv⟩ := swallow_wf t g hgw hgp p hpd
    rw [← hg'] at hsw hsd hsv
    obtain ⟨o, _, ho, hdo, hpl, hval⟩ := wf_lookup t g hgw
    have hn : o.nargs = .plus := hpl.mp hgp
    obtain ⟨hgv, hgne⟩ := hval hn
    have hd3 : g.dest t = "announce" ∨ g.dest t = "url_list" ∨ g.dest t = "httpseeds" := by
      rw [hdo]; exact (F.plus_iff o ho).mp hn
    -- the same tokens, read as groups without a positional
    have htoks : (front ++ [g]).flatMap Group.render ++ p :: gs2.flatMap Group.render
        = (front ++ [g'] ++ gs2).flatMap Group.render := by
      rw [hg']; simp [List.flatMap_append, Group.render]
    have hwall : ∀ x ∈ front ++ [g'] ++ gs2, Group.wf t x = true := by
      intro x hx
      simp only [List.mem_append, List.mem_singleton] at hx
      rcases hx with (hx | hx) | hx
      · exact hw1 x (by simp [hx])
      · subst hx; exact hsw
      · exact hw2 x hx
    have hdl : (front ++ [g'] ++ gs2).map (Group.dest t)
        = (front ++ [g] ++ gs2).map (Group.dest t) := by
      simp [List.map_append, hsd]
    have hndl : ((front ++ [g'] ++ gs2).map (Group.dest t)).Nodup := by
      rw [hdl]; exact hnd'
    refine ⟨_, by rw [htoks]; exact argparse_groups t _ hwall, ?_⟩
    show metaInit ex (toKwargs (setAll t t.defaults (front ++ [g'] ++ gs2))) = _
    generalize hns : setAll t t.defaults (front ++ [g'] ++ gs2) = ns
    -- the swallowing keyword
    have hgd : NS.get ns (g.dest t) = some (.list (g.vals ++ [p])) := by
      rw [← hns, ← hsd, ← hsv]
      exact get_setAll_mem t _ t.defaults hndl _ (by simp)
    -- every other key is as in the meaning
    have hother : ∀ k, k ≠ g.dest t → NS.get ns k = NS.get (meaning t groups) k := by
      intro k hk
      rw [← hns]
      by_cases hkin : k ∈ (front ++ [g'] ++ gs2).map (Group.dest t)
      · obtain ⟨h, hh, hd⟩ := List.mem_map.mp hkin
        subst hd
        have hh' : h ∈ front ++ [g] ++ gs2 := by
          simp only [List.mem_append, List.mem_singleton] at hh ⊢
          rcases hh with (hh | hh) | hh
          · exact Or.inl (Or.inl hh)
          · subst hh; exact absurd hsd hk
          · exact Or.inr hh
        rw [get_setAll_mem t _ t.defaults hndl h hh, M1 h ((hmem h).mp hh')]
      · rw [get_setAll_notin t _ t.defaults k hkin, M2 k]
        intro hk'
        apply hkin
        rw [hdl]
        exact (hdests k).mpr hk'
    have hcn : NS.getD ns "content" .none = .none := by
      have h1 : NS.get ns "content" = NS.get t.defaults "content" := by
        rw [hother "content" (Ne.symm (hdne g hgw).1), M2 _ (hcont_notin groups hw).1]
      unfold NS.getD
      rw [h1]
      cases hg : NS.get t.defaults "content" with
      | none => rfl
      | some v =>
        have := defaults_get t "content" (fun v => v = .none)
          (fun o ho hd => absurd hd (F.dest_ne o ho).1) (fun _ => rfl) v hg
        simp [this]
    have hpn : NS.getD ns "path" .none = .none := by
      have h1 : NS.get ns "path" = NS.get t.defaults "path" := by
        rw [hother "path" (Ne.symm (hdne g hgw).2), M2 _ (hcont_notin groups hw).2]
      unfold NS.getD
      rw [h1]
      cases hg : NS.get t.defaults "path" with
      | none => rfl
      | some v =>
        exact (defaults_get t "path" (fun _ => False)
          (fun o ho hd => absurd hd (F.dest_ne o ho).2)
          (fun h => by rw [F.pos] at h; exact absurd h (by decide)) v hg).elim
    -- the other two list keywords cannot divert the recovery
    have hharm : ∀ k, (k = "announce" ∨ k = "url_list" ∨ k = "httpseeds") → k ≠ g.dest t →
        Harmless ex (NS.getD ns k .none) := by
      intro k hk3 hkd
      unfold NS.getD
      rw [hother k hkd]
      by_cases hkin : k ∈ groups.map (Group.dest t)
      · obtain ⟨h, hh, hd⟩ := List.mem_map.mp hkin
        subst hd
        obtain ⟨oh, _, hoh, hdh, hplh, hvalh⟩ := wf_lookup t h (hw h hh)
        have hnh : oh.nargs = .plus := (F.plus_iff oh hoh).mpr (by rw [← hdh]; exact hk3)
        obtain ⟨hv1, hv2⟩ := hvalh hnh
        rw [M1 h hh]
        exact Or.inr ⟨h.vals, hv1, hv2, hurl h hh (hplh.mpr hnh)⟩
      · rw [M2 k hkin]
        left
        cases hg : NS.get t.defaults k with
        | none => rfl
        | some v =>
          have hk3' : k ≠ "content" := by rcases hk3 with h | h | h <;> (rw [h]; decide)
          exact defaults_get t k (fun v => v.truthy = false)
            (fun o ho hd => F.plus_default o ho ((F.plus_iff o ho).mpr (by rw [hd]; exact hk3)))
            (fun h => by rw [F.pos] at h; exact absurd h.symm hk3') v hg
    have hmg : NS.get (meaning t groups) (g.dest t) = some (.list g.vals) := by
      rw [M1 g hgin, hgv]
    unfold expected
    rcases hd3 with hd | hd | hd
    · have ha : (toKwargs ns).announce = .list (g.vals ++ [p]) := by
        simp only [toKwargs, NS.getD]; rw [← hd, hgd]
      rw [metaInit_recover_announce ex _ g.vals p hcn hpn ha hgne hex]
      rw [toKwargs_fix_announce ns (meaning t groups)
        (fun k _ _ h3 => hother k (by rw [hd]; exact h3)) _ _ _ (by rw [← hd]; exact hmg)]
    · have hu : (toKwargs ns).urlList = .list (g.vals ++ [p]) := by
        simp only [toKwargs, NS.getD]; rw [← hd, hgd]
      rw [metaInit_recover_url ex _ g.vals p hcn hpn
        (hharm "announce" (Or.inl rfl) (by rw [hd]; decide)) hu hex]
      rw [toKwargs_fix_url ns (meaning t groups)
        (fun k _ _ h3 => hother k (by rw [hd]; exact h3)) _ _ _ (by rw [← hd]; exact hmg)]
    · have hh : (toKwargs ns).httpseeds = .list (g.vals ++ [p]) := by
        simp only [toKwargs, NS.getD]; rw [← hd, hgd]
      rw [metaInit_recover_http ex _ g.vals p hcn hpn
        (hharm "announce" (Or.inl rfl) (by rw [hd]; decide))
        (hharm "url_list" (Or.inr (Or.inl rfl)) (by rw [hd]; decide)) hh hex]
      rw [toKwargs_fix_http ns (meaning t groups)
        (fun k _ _ h3 => hother k (by rw [hd]; exact h3)) _ _ _ (by rw [← hd]; exact hmg)]

/-! ### the configuration route -/

theorem cm_case (t : Table) (g : Group) (k v flag dest : String) (n : Nargs)
    (hdoc : ∃ o, t.lookup flag = some o ∧ o.dest = dest ∧ o.nargs = n) (hf : g.flag = flag)
    (hcd : configDest k = dest)
    (hm : match t.lookup g.flag with
      | none => False
      | some o => match o.nargs with
        | .zero => isTrueWord v = true
        | .one => g.vals = [v]
        | .plus => splitLines v = g.vals)
    (hv : match n with
      | .zero => isTrueWord v = true → configVal k v = .bool true
      | .one => configVal k v = .str v
      | .plus => configVal k v = .list (splitLines v)) :
    configDest k = g.dest t ∧ configVal k v = g.value t := by
  obtain ⟨o, hl, hd, hn⟩ := hdoc
  rw [← hf] at hl
  simp only [hl] at hm
  refine ⟨by simp [Group.dest, hl, hd, hcd], ?_⟩
  cases n with
  | zero => simp only [hn] at hm; simp only at hv; simp [Group.value, hl, hn, hv hm]
  | one => simp only [hn] at hm; simp only at hv; simp [Group.value, hl, hn, hv, hm]
  | plus => simp only [hn] at hm; simp only at hv; simp [Group.value, hl, hn, hv, hm]

theorem configMatches_sound (t : Table) (F : TableFacts t) (g : Group) (kv : String × String)
    (h : ConfigMatches t g kv) :
    configDest kv.1 = g.dest t ∧ configVal kv.1 kv.2 = g.value t := by
  obtain ⟨hmem, hm⟩ := h
  obtain ⟨k, v⟩ := kv
  simp only [documentedConfig, List.mem_cons, Prod.mk.injEq, List.not_mem_nil, or_false] at hmem
  have D := F.documented
  dsimp only at hm ⊢
  rcases hmem with ⟨hk, hf⟩ | ⟨hk, hf⟩ | ⟨hk, hf⟩ | ⟨hk, hf⟩ | ⟨hk, hf⟩ | ⟨hk, hf⟩ | ⟨hk, hf⟩ |
    ⟨hk, hf⟩ | ⟨hk, hf⟩ | ⟨hk, hf⟩ | ⟨hk, hf⟩ <;> subst hk
  · exact cm_case t g _ v "--announce" "announce" .plus (D ("--announce", "announce", .plus) (by simp [documentedFlags])) hf
      (by decide) hm (by simp [configVal])
  · exact cm_case t g _ v "--tracker" "announce" .plus (D ("--tracker", "announce", .plus) (by simp [documentedFlags])) hf
      (by decide) hm (by simp [configVal])
  · exact cm_case t g _ v "--web-seed" "url_list" .plus (D ("--web-seed", "url_list", .plus) (by simp [documentedFlags])) hf
      (by decide) hm (by simp [configVal])
  · exact cm_case t g _ v "--http-seed" "httpseeds" .plus (D ("--http-seed", "httpseeds", .plus) (by simp [documentedFlags])) hf
      (by decide) hm (by simp [configVal])
  · exact cm_case t g _ v "--private" "private" .zero (D ("--private", "private", .zero) (by simp [documentedFlags])) hf
      (by decide) hm (by intro h; simp [configVal, h])
  · exact cm_case t g _ v "--source" "source" .one (D ("--source", "source", .one) (by simp [documentedFlags])) hf
      (by decide) hm (by simp [configVal])
  · exact cm_case t g _ v "--comment" "comment" .one (D ("--comment", "comment", .one) (by simp [documentedFlags])) hf
      (by decide) hm (by simp [configVal])
  · exact cm_case t g _ v "--piece-length" "piece_length" .one (D ("--piece-length", "piece_length", .one) (by simp [documentedFlags])) hf
      (by decide) hm (by simp [configVal])
  · exact cm_case t g _ v "--meta-version" "meta_version" .one (D ("--meta-version", "meta_version", .one) (by simp [documentedFlags])) hf
      (by decide) hm (by simp [configVal])
  · exact cm_case t g _ v "--out" "outfile" .one (D ("--out", "outfile", .one) (by simp [documentedFlags])) hf
      (by decide) hm (by simp [configVal])
  · exact cm_case t g _ v "--align" "align" .zero (D ("--align", "align", .zero) (by simp [documentedFlags])) hf
      (by decide) hm (by intro h; simp [configVal, h])

/-- matching configuration entries do to a keyword dictionary exactly what the groups mean -/
theorem parseConfig_eq_setAll (t : Table) (F : TableFacts t) (groups : List Group)
    (items : List (String × String)) (h : ConfigFor t groups items)
    (ns : Namespace) : parseConfig items ns = setAll t ns groups := by
  induction h generalizing ns with
  | nil => rfl
  | cons hgk _ ih =>
    obtain ⟨h1, h2⟩ := configMatches_sound t F _ _ hgk
    simp only [parseConfig, setAll, List.foldl_cons, h1, h2]
    exact ih _

/-! ### `fields` cannot tell two falsy values apart -/

/-- equal, or both falsy -/
def FEq (a b : Val) : Prop := a = b ∨ (a.truthy = false ∧ b.truthy = false)

theorem truthy_plArg (v : Val) : truthy (plArgOfVal v) = v.truthy := by
  cases v with
  | none => rfl
  | bool b => cases b <;> simp [plArgOfVal, truthy, Val.truthy]
  | str s =>
    simp only [plArgOfVal, truthy, Val.truthy]
    rw [Bool.eq_iff_iff]; simp
  | list l => rfl

theorem recorded_feq (a b : Val) (h : FEq a b) (size : Nat) :
    recordedPieceLength (plArgOfVal a) size = recordedPieceLength (plArgOfVal b) size := by
  rcases h with h | ⟨h1, h2⟩
  · rw [h]
  · simp [recordedPieceLength, truthy_plArg, h1, h2]

theorem ann_feq (a b : Val) (h : FEq a b) : annFields a = annFields b := by
  rcases h with h | ⟨h1, h2⟩
  · rw [h]
  · have key : ∀ v : Val, v.truthy = false → annFields v = [] := by
      intro v hv
      cases v with
      | none => rfl
      | bool b => rfl
      | str s => simp [Val.truthy] at hv; simp [annFields, hv]
      | list l =>
        cases l with
        | nil => rfl
        | cons x r => simp [Val.truthy] at hv
    rw [key a h1, key b h2]

theorem opt_feq (a b : Val) (h : FEq a b) (k : String) :
    optField a.truthy k (.val a) = optField b.truthy k (.val b) := by
  rcases h with h | ⟨h1, h2⟩
  · rw [h]
  · simp [optField, h1, h2]

theorem out_feq (a b : Val) (h : FEq a b) (cwd : Path) (name : String) :
    outPath (outArgOf a) cwd name = outPath (outArgOf b) cwd name := by
  rcases h with h | ⟨h1, h2⟩
  · rw [h]
  · have key : ∀ v : Val, v.truthy = false → outPath (outArgOf v) cwd name = outPath none cwd name := by
      intro v hv
      cases v with
      | none => rfl
      | bool b => rfl
      | str s => simp [Val.truthy] at hv; simp [hv, outPath, outArgOf]
      | list l => rfl
    rw [key a h1, key b h2]

/-- records whose field-relevant keywords are pairwise equal or both falsy give the same fields -/
theorem fields_congr (kw kw' : Kwargs)
    (h1 : FEq kw.announce kw'.announce) (h2 : FEq kw.urlList kw'.urlList)
    (h3 : FEq kw.httpseeds kw'.httpseeds) (h4 : FEq kw.private_ kw'.private_)
    (h5 : FEq kw.source kw'.source) (h6 : FEq kw.comment kw'.comment)
    (h7 : FEq kw.pieceLength kw'.pieceLength) (h8 : FEq kw.outfile kw'.outfile)
    (size : Nat) (cwd : Path) (name : String) :
    fields kw size cwd name = fields kw' size cwd name := by
  have hp : optField kw.private_.truthy "info.private" (.int 1)
      = optField kw'.private_.truthy "info.private" (.int 1) := by
    rcases h4 with h | ⟨a, b⟩
    · rw [h]
    · simp [optField, a, b]
  unfold fields
  rw [recorded_feq _ _ h7 size]
  cases recordedPieceLength (plArgOfVal kw'.pieceLength) size with
  | error e => rfl
  | ok pl =>
    simp only
    rw [ann_feq _ _ h1, opt_feq _ _ h6 "info.comment", hp, opt_feq _ _ h5 "info.source",
      opt_feq _ _ h2 "url-list", opt_feq _ _ h3 "httpseeds", out_feq _ _ h8 cwd name]

/-! ### the configuration route and the library route -/

theorem wf_dest_ne (t : Table) (F : TableFacts t) (gs : List Group) (hw : ∀ g ∈ gs, g.wf t = true) :
    "content" ∉ gs.map (Group.dest t) ∧ "path" ∉ gs.map (Group.dest t) := by
  constructor <;>
  · intro hc
    obtain ⟨g, hg, hd⟩ := List.mem_map.mp hc
    obtain ⟨o, _, ho, hdo, _⟩ := wf_lookup t g (hw g hg)
    have := F.dest_ne o ho
    rw [← hdo, hd] at this
    simp at this

theorem config_record (t : Table) (hok : tableOK t = true) (ex : String → Bool)
    (groups : List Group) (hw : ∀ g ∈ groups, g.wf t = true)
    (hnd : (groups.map (Group.dest t)).Nodup) (p : String) (hpne : p ≠ "")
    (items : List (String × String)) (hcfg : ConfigFor t groups items) :
    metaInit ex (toKwargs (parseConfig items (NS.set t.defaults t.positional (.str p))))
      = .ok (expected t groups p) := by
  have F := tableFacts t hok
  obtain ⟨hcn, _⟩ := wf_dest_ne t F groups hw
  rw [parseConfig_eq_setAll t F groups items hcfg, F.pos]
  have hc : (toKwargs (setAll t (NS.set t.defaults "content" (.str p)) groups)).content = .str p := by
    simp only [toKwargs, NS.getD]
    rw [get_setAll_notin t groups _ "content" hcn, NS.get_set_same]
  rw [metaInit_direct ex _ p hc hpne]
  unfold expected
  rw [toKwargs_agree _ (meaning t groups)]
  intro k h1 _ _
  by_cases hk : k ∈ groups.map (Group.dest t)
  · obtain ⟨g, hg, hd⟩ := List.mem_map.mp hk
    subst hd
    rw [get_setAll_mem t groups _ hnd g hg]
    exact (get_setAll_mem t groups t.defaults hnd g hg).symm
  · rw [get_setAll_notin t groups _ k hk, NS.get_set_other _ _ _ _ h1]
    exact (get_setAll_notin t groups t.defaults k hk).symm

theorem metaInit_path (ex : String → Bool) (kw : Kwargs) (p : String)
    (hc : kw.content = .none) (hpa : kw.path = .str p) (hp : p ≠ "") :
    metaInit ex kw = .ok { kw with path := .str p, content := .none } := by
  simp [metaInit, hc, hpa, Val.truthy, hp]

theorem library_fields (t : Table) (hok : tableOK t = true) (ex : String → Bool)
    (groups : List Group) (hw : ∀ g ∈ groups, g.wf t = true)
    (hnd : (groups.map (Group.dest t)).Nodup) (p : String) (hpne : p ≠ "")
    (size : Nat) (cwd : Path) (name : String) :
    ∃ kw, metaInit ex (toKwargs (libraryKwargs t groups p)) = .ok kw ∧ kw.path = .str p ∧
      fields kw size cwd name = fields (expected t groups p) size cwd name := by
  have F := tableFacts t hok
  obtain ⟨hcn, hpn⟩ := wf_dest_ne t F groups hw
  have hlib : libraryKwargs t groups p = setAll t [("path", .str p)] groups := rfl
  have hc : (toKwargs (libraryKwargs t groups p)).content = .none := by
    simp only [toKwargs, NS.getD]
    rw [hlib, get_setAll_notin t groups _ "content" hcn]
    simp [NS.get]
  have hpa : (toKwargs (libraryKwargs t groups p)).path = .str p := by
    simp only [toKwargs, NS.getD]
    rw [hlib, get_setAll_notin t groups _ "path" hpn]
    simp [NS.get]
  refine ⟨_, metaInit_path ex _ p hc hpa hpne, rfl, ?_⟩
  -- key by key: equal, or both falsy
  have key : ∀ k dflt, k ∈ fieldKeywords → dflt.truthy = false →
      FEq (NS.getD (libraryKwargs t groups p) k dflt) (NS.getD (meaning t groups) k dflt) := by
    intro k dflt hk hd
    have hkp : k ≠ "path" := by
      intro h; subst h; simp [fieldKeywords] at hk
    have hkc : k ≠ "content" := by
      intro h; subst h; simp [fieldKeywords] at hk
    unfold NS.getD
    by_cases hkin : k ∈ groups.map (Group.dest t)
    · obtain ⟨g, hg, hgd⟩ := List.mem_map.mp hkin
      subst hgd
      rw [hlib, get_setAll_mem t groups _ hnd g hg]
      have : NS.get (meaning t groups) (g.dest t) = some (g.value t) :=
        get_setAll_mem t groups t.defaults hnd g hg
      rw [this]
      exact Or.inl rfl
    · rw [hlib, get_setAll_notin t groups _ k hkin]
      have : NS.get (meaning t groups) k = NS.get t.defaults k :=
        get_setAll_notin t groups t.defaults k hkin
      rw [this]
      have h1 : NS.get [("path", Val.str p)] k = none := by simp [NS.get, Ne.symm hkp]
      rw [h1]
      right
      refine ⟨hd, ?_⟩
      cases hg : NS.get t.defaults k with
      | none => exact hd
      | some v =>
        exact defaults_get t k (fun v => v.truthy = false)
          (fun o ho hod => F.field_default o ho (by rw [hod]; exact hk))
          (fun h => by rw [F.pos] at h; exact absurd h.symm hkc) v hg
  unfold expected
  apply fields_congr
  · exact key "announce" .none (by simp [fieldKeywords]) rfl
  · exact key "url_list" .none (by simp [fieldKeywords]) rfl
  · exact key "httpseeds" .none (by simp [fieldKeywords]) rfl
  · exact key "private" (.bool false) (by simp [fieldKeywords]) rfl
  · exact key "source" .none (by simp [fieldKeywords]) rfl
  · exact key "comment" .none (by simp [fieldKeywords]) rfl
  · exact key "piece_length" .none (by simp [fieldKeywords]) rfl
  · exact key "outfile" .none (by simp [fieldKeywords]) rfl

/-- one documented (configuration key, flag) pair -/
theorem config_case (t : Table) (k f d : String) (n : Nargs)
    (hdoc : ∃ o, t.lookup f = some o ∧ o.dest = d ∧ o.nargs = n) (hcd : configDest k = d)
    (hv : match n with
      | .zero => ∀ v, isTrueWord v = true → configVal k v = .bool true
      | .one => ∀ v, configVal k v = .str v
      | .plus => ∀ v, configVal k v = .list (splitLines v)) :
    ∃ o, t.lookup f = some o ∧ configDest k = o.dest ∧
      ∀ (v : String) (ns : Namespace),
        NS.get (parseConfig [(k, v)] ns) o.dest = some (configVal k v) ∧
        (o.nargs = .plus → configVal k v = Group.value t ⟨f, splitLines v⟩) ∧
        (o.nargs = .one → configVal k v = Group.value t ⟨f, [v]⟩) ∧
        (o.nargs = .zero → isTrueWord v = true →
          configVal k v = Group.value t ⟨f, []⟩) := by
  obtain ⟨o, hl, hd, hn⟩ := hdoc
  refine ⟨o, hl, by rw [hcd, hd], fun v ns => ⟨?_, ?_, ?_, ?_⟩⟩
  · simp only [parseConfig, List.foldl_cons, List.foldl_nil, hcd, hd]
    rw [← hd, NS.get_set_same]
  · intro h; rw [h] at hn; subst hn; simp only at hv
    simp [Group.value, hl, h, hv]
  · intro h; rw [h] at hn; subst hn; simp only at hv
    simp [Group.value, hl, h, hv]
  · intro h ht; rw [h] at hn; subst hn; simp only at hv
    simp [Group.value, hl, h, hv v ht]

/-! ### a switch at the end of the command line; boolean words in the configuration file -/

theorem NS.set_eq_self (ns : Namespace) (k : String) (v : Val) (h : NS.get ns k = some v) :
    NS.set ns k v = ns := by
  induction ns with
  | nil => simp [NS.get] at h
  | cons e r ih =>
    obtain ⟨q, c⟩ := e
    by_cases hq : q = k
    · simp only [NS.get, hq, ↓reduceIte, Option.some.injEq] at h
      simp [NS.set, hq, h]
    · simp only [NS.get, hq, ↓reduceIte] at h
      simp [NS.set, hq, ih h]

theorem argFeed_append (t : Table) (st : ArgState) (a b : List String) :
    argFeed t st (a ++ b) = match argFeed t st a with
      | .ok st' => argFeed t st' b
      | .error e => .error e := by
  induction a generalizing st with
  | nil => rfl
  | cons x r ih =>
    simp only [List.cons_append, argFeed]
    cases argStep t st x with
    | error e => rfl
    | ok st' => exact ih st'

/-- Appending a switch (`store_true` option) to an accepted command line sets its keyword to
    `True` and changes nothing else. -/
theorem argparse_append_switch (t : Table) (toks : List String) (ns : Namespace)
    (h : argparse t toks = .ok ns) (flag : String) (hd : isDash flag = true) (o : OptSpec)
    (hl : t.lookup flag = some o) (hn : o.nargs = .zero) :
    argparse t (toks ++ [flag]) = .ok (NS.set ns o.dest (.bool true)) := by
  unfold argparse at h ⊢
  rw [argFeed_append]
  cases hf : argFeed t { ns := t.defaults, posDone := false, mode := .idle } toks with
  | error e => simp [hf] at h
  | ok st =>
    simp only [hf] at h ⊢
    cases hc : argCommit st with
    | error e => simp [hc] at h
    | ok st' =>
      simp only [hc, Except.ok.injEq] at h
      have hidle : st'.mode = .idle := by
        unfold argCommit at hc
        cases hm : st.mode with
        | idle => simp only [hm, Except.ok.injEq] at hc; rw [← hc]; exact hm
        | one d c => simp [hm] at hc
        | plus d acc =>
          simp only [hm] at hc
          split at hc
          · cases hc
          · simp only [Except.ok.injEq] at hc; rw [← hc]
      simp only [argFeed, argStep, hd, ↓reduceIte, hc, hl, hn]
      simp only [argCommit, hidle, h]

theorem configVal_bool_key (key w : String)
    (hk : key = "private" ∨ key = "align" ∨ key = "magnet" ∨ key = "cwd") :
    (isTrueWord w = true → configVal key w = .bool true) ∧
    (isTrueWord w = false → isFalseWord w = true → configVal key w = .bool false) ∧
    (isTrueWord w = false → isFalseWord w = false → configVal key w = .str w) := by
  rcases hk with h | h | h | h <;> subst h <;>
  refine ⟨fun h1 => by simp [configVal, h1], fun h1 h2 => by simp [configVal, h1, h2],
    fun h1 h2 => by simp [configVal, h1, h2]⟩

theorem falseWord_not_trueWord (w : String) (h : isFalseWord w = true) : isTrueWord w = false := by
  unfold isFalseWord at h
  unfold isTrueWord
  generalize lowerAscii w = l at h ⊢
  simp only [falseWords, List.contains_iff_mem, List.mem_cons, List.not_mem_nil, or_false] at h
  rcases h with rfl | rfl | rfl | rfl <;> decide

theorem config_bool_core (t : Table) (key flag d : String)
    (hdoc : ∃ o, t.lookup flag = some o ∧ o.dest = d ∧ o.nargs = Nargs.zero)
    (hcd : configDest key = d) (hdash : isDash flag = true)
    (hkey : key = "private" ∨ key = "align" ∨ key = "magnet" ∨ key = "cwd")
    (w : String) (toks : List String) (ns : Namespace) (h : argparse t toks = .ok ns) :
    ∃ o, t.lookup flag = some o ∧ o.nargs = .zero ∧ configDest key = o.dest ∧
      (isTrueWord w = true →
        argparse t (toks ++ [flag]) = .ok (parseConfig [(key, w)] ns)) ∧
      (isFalseWord w = true →
        parseConfig [(key, w)] ns = NS.set ns o.dest (.bool false) ∧
        (NS.get ns o.dest = some (.bool false) → parseConfig [(key, w)] ns = ns)) ∧
      (isTrueWord w = false → isFalseWord w = false →
        parseConfig [(key, w)] ns = NS.set ns o.dest (.str w) ∧
        ((Val.str w).truthy = true ↔ w ≠ "")) := by
  obtain ⟨o, hl, hd, hn⟩ := hdoc
  obtain ⟨b1, b2, b3⟩ := configVal_bool_key key w hkey
  have hpc : ∀ v, configVal key w = v → parseConfig [(key, w)] ns = NS.set ns o.dest v := by
    intro v hv; simp [parseConfig, hcd, hd, hv]
  refine ⟨o, hl, hn, by rw [hcd, hd], fun ht => ?_, fun hf => ⟨?_, fun hg => ?_⟩, fun ht hf => ⟨?_, ?_⟩⟩
  · rw [hpc _ (b1 ht)]; exact argparse_append_switch t toks ns h flag hdash o hl hn
  · exact hpc _ (b2 (falseWord_not_trueWord w hf) hf)
  · rw [hpc _ (b2 (falseWord_not_trueWord w hf) hf)]; exact NS.set_eq_self ns _ _ hg
  · exact hpc _ (b3 ht hf)
  · simp [Val.truthy]

end Impl
end TorrentVerif

import TorrentVerif.Model.Meta
/-
  Percent-encoding: `unquotePlus ∘ quotePlus = id`; which bytes can occur in quoted text and
  in hex digests; splitting a query string.
-/
namespace TorrentVerif
open Impl Spec

theorem hexVal_hexUp : ∀ n, n < 16 → hexVal (hexUp n) = some n := by decide

theorem byte_split (c : UInt8) : (c.toNat / 16 * 16 + c.toNat % 16).toUInt8 = c := by
  have : c.toNat / 16 * 16 + c.toNat % 16 = c.toNat := by omega
  rw [this]; exact UInt8.ofNat_toNat

/-- bytes that `quote_plus` keeps are neither `+` nor `%` nor `&` nor `=` -/
theorem unreserved_ne (c : UInt8) (h : isUnreserved c = true) :
    c ≠ 43 ∧ c ≠ 37 ∧ c ≠ 38 ∧ c ≠ 61 := by
  refine ⟨?_, ?_, ?_, ?_⟩ <;> intro e <;> subst e <;> revert h <;> decide

theorem unqGo_two (a b : UInt8) (r : Bytes) : unqGo 2 (a :: b :: r) = unqGo 0 r := by
  simp [unqGo]

/-- URL-decoding undoes `quote_plus`, for every byte string -/
theorem unquotePlus_quotePlus (b : Bytes) : unquotePlus (quotePlus b) = b := by
  unfold unquotePlus
  induction b with
  | nil => rfl
  | cons c r ih =>
    unfold quotePlus
    by_cases hu : isUnreserved c = true
    · obtain ⟨h1, h2, _, _⟩ := unreserved_ne c hu
      simp [hu, unqGo, h1, h2, ih]
    · simp only [hu, Bool.false_eq_true, if_false]
      by_cases hs : c = 32
      · subst hs; simp [unqGo, ih]
      · have hhi : c.toNat / 16 < 16 := by have := c.toNat_lt; omega
        have hlo : c.toNat % 16 < 16 := by omega
        simp only [hs, if_false, unqGo]
        simp only [show ¬ ((37 : UInt8) = 43) by decide, if_false, if_true,
          hexVal_hexUp _ hhi, hexVal_hexUp _ hlo, byte_split, ih]

/-! ### characters of quoted text and digests -/

/-- none of `& =` -/
def plain (b : Bytes) : Prop := ∀ c ∈ b, c ≠ 38 ∧ c ≠ 61

theorem hexUp_plain : ∀ n, n < 16 → hexUp n ≠ 38 ∧ hexUp n ≠ 61 := by decide
theorem hexLo_safe : ∀ n, n < 16 →
    hexLo n ≠ 38 ∧ hexLo n ≠ 61 ∧ hexLo n ≠ 43 ∧ hexLo n ≠ 37 := by decide

theorem quotePlus_plain (b : Bytes) : plain (quotePlus b) := by
  induction b with
  | nil => intro c hc; simp [quotePlus] at hc
  | cons c r ih =>
    unfold quotePlus
    by_cases hu : isUnreserved c = true
    · obtain ⟨_, _, h3, h4⟩ := unreserved_ne c hu
      simp only [hu, if_true]
      intro x hx
      rcases List.mem_cons.mp hx with e | e
      · subst e; exact ⟨h3, h4⟩
      · exact ih x e
    · simp only [hu, Bool.false_eq_true, if_false]
      by_cases hs : c = 32
      · simp only [hs, if_true]
        intro x hx
        rcases List.mem_cons.mp hx with e | e
        · subst e; decide
        · exact ih x e
      · have hhi : c.toNat / 16 < 16 := by have := c.toNat_lt; omega
        have hlo : c.toNat % 16 < 16 := by omega
        simp only [hs, if_false]
        intro x hx
        simp only [List.mem_cons] at hx
        rcases hx with e | e | e | e
        · subst e; decide
        · subst e; exact hexUp_plain _ hhi
        · subst e; exact hexUp_plain _ hlo
        · exact ih x e

theorem quotePlus_eq_nil (b : Bytes) (h : quotePlus b = []) : b = [] := by
  cases b with
  | nil => rfl
  | cons c r =>
    unfold quotePlus at h
    by_cases hu : isUnreserved c = true
    · simp [hu] at h
    · simp only [hu, Bool.false_eq_true, if_false] at h
      by_cases hs : c = 32 <;> simp [hs] at h

theorem hexLower_safe (d : Bytes) : ∀ c ∈ hexLower d, c ≠ 38 ∧ c ≠ 61 ∧ c ≠ 43 ∧ c ≠ 37 := by
  induction d with
  | nil => intro c hc; simp [hexLower] at hc
  | cons x r ih =>
    have hhi : x.toNat / 16 < 16 := by have := x.toNat_lt; omega
    have hlo : x.toNat % 16 < 16 := by omega
    intro c hc
    simp only [hexLower, List.mem_cons] at hc
    rcases hc with e | e | e
    · subst e; exact hexLo_safe _ hhi
    · subst e; exact hexLo_safe _ hlo
    · exact ih c e

/-- text without `+` and `%` decodes to itself -/
theorem unquotePlus_id (b : Bytes) (h : ∀ c ∈ b, c ≠ 43 ∧ c ≠ 37) : unquotePlus b = b := by
  unfold unquotePlus
  induction b with
  | nil => rfl
  | cons c r ih =>
    have hc := h c (by simp)
    simp [unqGo, hc.1, hc.2, ih (fun x hx => h x (List.mem_cons_of_mem _ hx))]

/-! ### splitting -/

theorem splitOn_ne_nil (sep : UInt8) (b : Bytes) : splitOn sep b ≠ [] := by
  cases b with
  | nil => simp [splitOn]
  | cons c r =>
    unfold splitOn
    by_cases h : c = sep
    · simp [h]
    · simp only [h, if_false]; split <;> simp

theorem splitOn_no_sep (sep : UInt8) (b : Bytes) (h : ∀ c ∈ b, c ≠ sep) : splitOn sep b = [b] := by
  induction b with
  | nil => rfl
  | cons c r ih =>
    have hc := h c (by simp)
    simp [splitOn, hc, ih (fun x hx => h x (List.mem_cons_of_mem _ hx))]

theorem splitOn_append (sep : UInt8) (a b : Bytes) (h : ∀ c ∈ a, c ≠ sep) :
    splitOn sep (a ++ sep :: b) = a :: splitOn sep b := by
  induction a with
  | nil => simp [splitOn]
  | cons c r ih =>
    have hc := h c (by simp)
    simp [splitOn, hc, ih (fun x hx => h x (List.mem_cons_of_mem _ hx))]

/-- a first segment followed by `&`-prefixed segments splits back into the segments -/
theorem splitOn_join (sep : UInt8) (first : Bytes) (segs : List Bytes)
    (h0 : ∀ c ∈ first, c ≠ sep) (h : ∀ s ∈ segs, ∀ c ∈ s, c ≠ sep) :
    splitOn sep (first ++ (segs.map (sep :: ·)).flatten) = first :: segs := by
  induction segs generalizing first with
  | nil => simpa using splitOn_no_sep sep first h0
  | cons s r ih =>
    simp only [List.map_cons, List.flatten_cons, List.cons_append]
    rw [splitOn_append sep first _ h0, ih s (h s (by simp)) (fun t ht => h t (List.mem_cons_of_mem _ ht))]

theorem cutAt_append (sep : UInt8) (k v : Bytes) (h : ∀ c ∈ k, c ≠ sep) :
    cutAt sep (k ++ sep :: v) = (k, v) := by
  induction k with
  | nil => simp [cutAt]
  | cons c r ih =>
    have hc := h c (by simp)
    simp [cutAt, hc, ih (fun x hx => h x (List.mem_cons_of_mem _ hx))]

end TorrentVerif

import TorrentVerif.Proofs.RbMetaV1
/-
  The example world of the end-to-end rebuild theorems (`Props/C13.extract_of_created_*`,
  `rebuild_of_created_*`): a torrent `T` of the directory `{a: 1 2 3, b: 5 6}`, piece length 4
  (two blocks of 2 bytes), and search directories that hold intact copies next to other files.
-/
namespace TorrentVerif.RbMeta.ExW
open TorrentVerif Rebuild PosixPath Spec Impl Listing E2E

/-- name `T`, piece length 4, a tracker and a comment -/
def opts : CreateOpts :=
  { createdBy := [116], creationDate := 1700000000, announce := .str [104], comment := [99],
    priv := false, source := [], urlList := .none, httpseeds := .none, pieceLength := 4,
    name := [84] }

/-- `T/a` = 1 2 3, `T/b` = 5 6 (stored `b` first) -/
def tree : Node := .dir [([98], .file [5, 6]), ([97], .file [1, 2, 3])]

/-- `/d` (destination, empty) and the search directory `/s`: `/s/k/a` = 9 9 (same name as `a`, other
    size), `/s/a` = 1 2 3, `/s/b` = 5 6, `/s/z` = 7 (unrelated) -/
def fs : FS := FS.ofList [([], .dir), ([[100]], .dir), ([[115]], .dir), ([[115], [107]], .dir),
  ([[115], [107], [97]], .file [9, 9]), ([[115], [97]], .file [1, 2, 3]),
  ([[115], [98]], .file [5, 6]), ([[115], [122]], .file [7])]

/-- `{"a": [("/s/k/a", 2), ("/s/a", 3)], "b": [("/s/b", 2)]}` -/
def fmap : FileMap :=
  [([97], [([[115], [107], [97]], 2), ([[115], [97]], 3)]), ([98], [([[115], [98]], 2)])]

theorem tree_wellNamed : WellNamed tree := by
  simp [tree, WellNamed, WellNamedList, Listing.sep]

theorem tree_plainNamed : PlainNamed tree := by
  simp [tree, PlainNamed, PlainNamedList, Spec.plainName]

theorem tree_not_namesake : ∀ d, tree ≠ .dir [(opts.name, .file d)] := by
  intro d h
  simp [tree] at h

theorem tree_bytes : treeBytes tree = 5 := by decide

/-- the files of the tree -/
theorem tree_files (cs : List Bytes) (d : Bytes) (h : fileAt tree cs = some d) :
    (cs = [[98]] ∧ d = [5, 6]) ∨ (cs = [[97]] ∧ d = [1, 2, 3]) := by
  cases cs with
  | nil => simp [tree, fileAt] at h
  | cons c q =>
    have h' : fileAtList [([98], Node.file [5, 6]), ([97], Node.file [1, 2, 3])] c q = some d := h
    have hfile : ∀ (d0 : Bytes), fileAt (.file d0) q = some d → q = [] ∧ d = d0 := by
      intro d0 hq
      cases q with
      | nil => simp only [fileAt, Option.some.injEq] at hq; exact ⟨rfl, hq.symm⟩
      | cons c' q' => simp [fileAt] at hq
    simp only [fileAtList] at h'
    by_cases h1 : [98] = c
    · subst h1
      simp only [if_true] at h'
      obtain ⟨rfl, rfl⟩ := hfile _ h'
      exact Or.inl ⟨rfl, rfl⟩
    · simp only [h1, if_false] at h'
      by_cases h2 : [97] = c
      · subst h2
        simp only [if_true] at h'
        obtain ⟨rfl, rfl⟩ := hfile _ h'
        exact Or.inr ⟨rfl, rfl⟩
      · simp [h2] at h'

theorem filemapOK : FilemapOK fs [[100]] fmap := by
  intro name cands hl c hc
  simp only [fmap, List.lookup] at hl
  split at hl
  · injection hl with hl; subst hl
    simp at hc
    rcases hc with hc | hc <;> subst hc
    · exact ⟨by decide, [9, 9], by decide, rfl⟩
    · exact ⟨by decide, [1, 2, 3], by decide, rfl⟩
  · split at hl
    · injection hl with hl; subst hl
      simp at hc; subst hc
      exact ⟨by decide, [5, 6], by decide, rfl⟩
    · cases hl

/-- nothing exists at or below `/d/T` -/
theorem fresh : ∀ cs, fs ([[100]] ++ opts.name :: cs) = none := by
  intro cs
  simp [fs, FS.ofList, List.lookup, opts]

/-- an intact copy of every file is among the candidates -/
theorem intact : ∀ cs d, fileAt tree cs = some d → ∃ cands p,
    fmap.lookup (fileNameOf opts.name cs) = some cands ∧ (p, d.length) ∈ cands ∧
      fs.readFile? p = some d := by
  intro cs d h
  rcases tree_files cs d h with ⟨rfl, rfl⟩ | ⟨rfl, rfl⟩
  · exact ⟨[([[115], [98]], 2)], [[115], [98]], by decide, by decide, by decide⟩
  · exact ⟨[([[115], [107], [97]], 2), ([[115], [97]], 3)], [[115], [97]], by decide, by decide,
      by decide⟩

/-- every same-name same-size candidate of a file has the file's bytes (the other `a` has another
    size) -/
theorem noDecoys : NoDecoys opts.name tree fs fmap := by
  intro cs d h cands c d' hl hc hsz hread
  rcases tree_files cs d h with ⟨rfl, rfl⟩ | ⟨rfl, rfl⟩
  · have : cands = [([[115], [98]], 2)] := by
      have : fmap.lookup (fileNameOf opts.name [[98]]) = some [([[115], [98]], 2)] := by decide
      rw [this] at hl; injection hl with hl; exact hl.symm
    subst this
    simp at hc; subst hc
    have : fs.readFile? [[115], [98]] = some [5, 6] := by decide
    rw [this] at hread; injection hread with hread; exact hread.symm
  · have : cands = [([[115], [107], [97]], 2), ([[115], [97]], 3)] := by
      have : fmap.lookup (fileNameOf opts.name [[97]])
          = some [([[115], [107], [97]], 2), ([[115], [97]], 3)] := by decide
      rw [this] at hl; injection hl with hl; exact hl.symm
    subst this
    simp at hc
    rcases hc with hc | hc <;> subst hc
    · simp at hsz
    · have : fs.readFile? [[115], [97]] = some [1, 2, 3] := by decide
      rw [this] at hread; injection hread with hread; exact hread.symm

/-- no file has more than one piece: the layer hypothesis of the recheck theorems is vacuous -/
theorem tree_hcoll (H : Bytes → Bytes) (B hs j : Nat) :
    ∀ x ∈ Spec.allFiles [] tree, ∀ y ∈ Spec.allFiles [] tree,
      4 < x.2.length → 4 < y.2.length → Spec.root H B hs x.2 = Spec.root H B hs y.2 →
      (Spec.pieceLayer H B hs j x.2).flatten = (Spec.pieceLayer H B hs j y.2).flatten := by
  intro x hx y _ hxl _ _
  simp only [tree, Spec.allFiles, Spec.allFilesList, List.append_nil, List.mem_cons,
    List.mem_append, List.not_mem_nil, or_false] at hx
  rcases hx with rfl | rfl <;> simp at hxl

end TorrentVerif.RbMeta.ExW

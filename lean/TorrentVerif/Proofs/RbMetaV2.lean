import TorrentVerif.Proofs.RbV1First
/-
  `_match_v2` into a fresh destination with separate file paths: every record ends up with the
  original contents of its file, provided a same-name same-size candidate that has the RECORDED
  root has the original bytes (no collision among the concrete candidates).
-/
namespace TorrentVerif
open Rebuild PosixPath Spec

namespace Impl

/-- an intact same-name copy of every record is among the candidates: `orig` are the original
    contents in record order -/
def IntactV2All (rootOf : Bytes → Bytes) (fs0 : FS) (filemap : FileMap) (files : List FileRec)
    (orig : List Bytes) : Prop :=
  ∀ (i : Nat) (r : FileRec), files[i]? = some r → ∃ o, orig[i]? = some o ∧ ∃ cands p,
    filemap.lookup r.filename = some cands ∧ (p, r.length) ∈ cands ∧ fs0.readFile? p = some o ∧
    (r.length ≠ 0 → r.root = some (rootOf o))

/-- a same-name same-size candidate that has the recorded root of a (non-empty) file has the
    original bytes of that file -/
def NoRootCollision (rootOf : Bytes → Bytes) (fs0 : FS) (filemap : FileMap) (files : List FileRec)
    (orig : List Bytes) : Prop :=
  ∀ (i : Nat) (r : FileRec) (o : Bytes), files[i]? = some r → orig[i]? = some o → r.length ≠ 0 →
    ∀ cands c d, filemap.lookup r.filename = some cands → c ∈ cands → c.2 = r.length →
      fs0.readFile? c.1 = some d → r.root = some (rootOf d) → d = o

theorem matchV2_loop (rootOf : Bytes → Bytes) (ds : Nat) (fs0 : FS) (filemap : FileMap) (dest : Path)
    (files : List FileRec) (orig : List Bytes) (hd : CleanPath dest) (hok : FilemapOK fs0 dest filemap)
    (hsep : DestsSeparate dest files) (hpad : ∀ r ∈ files, r.pad = false)
    (hacc : ∀ r ∈ files, ∃ dp, safeJoin dest r.full = some dp)
    (hint : IntactV2All rootOf fs0 filemap files orig)
    (hnc : NoRootCollision rootOf fs0 filemap files orig) :
    ∀ (rest pre : List FileRec) (fs : FS), files = pre ++ rest → Core fs0 dest files orig fs →
      (∀ (i : Nat) (r : FileRec) (dp : Path) (o : Bytes), i < pre.length → files[i]? = some r →
        safeJoin dest r.full = some dp → orig[i]? = some o → fs dp = some (.file o)) →
      (matchV2 rootOf ds filemap dest fs rest).2 = rest.map (·.full) ∧
      (∀ (i : Nat) (r : FileRec) (dp : Path), files[i]? = some r → safeJoin dest r.full = some dp →
        ∃ o, orig[i]? = some o ∧
          applyOps fs (matchV2 rootOf ds filemap dest fs rest).1 dp = some (.file o)) ∧
      CopiesOrig fs0 dest files orig (matchV2 rootOf ds filemap dest fs rest).1 := by
  intro rest
  induction rest with
  | nil =>
    intro pre fs hsplit _ hdone
    refine ⟨rfl, ?_, fun _ _ h => by simp [matchV2] at h⟩
    intro i r dp hfi hsj
    obtain ⟨o, ho, _⟩ := hint i r hfi
    have hi : i < pre.length := by
      have := (List.getElem?_eq_some_iff.mp hfi).1
      simpa [hsplit] using this
    exact ⟨o, ho, hdone i r dp o hi hfi hsj ho⟩
  | cons r0 rest ih =>
    intro pre fs hsplit core hdone
    have hfi0 : files[pre.length]? = some r0 := by rw [hsplit]; simp
    have hmem0 : r0 ∈ files := List.mem_of_getElem? hfi0
    have hpad0 := hpad r0 hmem0
    obtain ⟨dp0, hsj0⟩ := hacc r0 hmem0
    obtain ⟨o0, ho0, cands, p0, hl, hp0, hread0, hroot0⟩ := hint _ r0 hfi0
    obtain ⟨hnp0, d0', hd0', hlen0'⟩ := hok _ _ hl _ hp0
    have holen : o0.length = r0.length := by
      rw [hread0] at hd0'; injection hd0' with e; rw [e]; exact hlen0'
    -- a candidate is picked
    have hpick : ∃ src, matchV2Pick rootOf fs dest r0 cands = some (src, dp0) := by
      apply matchV2Pick_complete hsj0
      refine ⟨(p0, r0.length), hp0, rfl, ?_⟩
      by_cases hz : r0.length = 0
      · exact Or.inl hz
      · right
        unfold rootMatches
        rw [agree_readFile core.agree hnp0, hread0]
        simpa using hroot0 hz
    obtain ⟨src, hpick⟩ := hpick
    obtain ⟨sz, hm, hsz, hv, _⟩ := matchV2Pick_some hpick
    obtain ⟨hnp, d, hdread, hdlen⟩ := hok _ _ hl _ hm
    have hreadfs : fs.readFile? src = some d := by rw [agree_readFile core.agree hnp]; exact hdread
    -- it has the original bytes
    have hdo : d = o0 := by
      by_cases hz : r0.length = 0
      · have h1 : d = [] := List.eq_nil_of_length_eq_zero (by rw [hdlen, hsz, hz])
        have h2 : o0 = [] := List.eq_nil_of_length_eq_zero (by rw [holen, hz])
        rw [h1, h2]
      · rcases hv with h0 | ⟨d', hd', hroot'⟩
        · exact absurd h0 hz
        · rw [hreadfs] at hd'; injection hd' with hd'; subst hd'
          exact hnc _ r0 o0 hfi0 ho0 hz cands (src, sz) d hl hm hsz hdread hroot'
    have hj : CallJust fs0 dest files orig fs (src, dp0) :=
      ⟨pre.length, r0, d, o0, hfi0, hpad0, hsj0, ho0, hdread, hnp, by rw [hdo], Or.inl hdo⟩
    obtain ⟨core1, hdone1, hk1, hc1⟩ := callStep ds fs0 dest files orig hd hsep fs core (src, dp0) hj
    simp only at core1 hdone1 hk1 hc1
    have hsplit' : files = (pre ++ [r0]) ++ rest := by rw [hsplit]; simp
    have hdone' : ∀ (i : Nat) (r : FileRec) (dp : Path) (o : Bytes), i < (pre ++ [r0]).length →
        files[i]? = some r → safeJoin dest r.full = some dp → orig[i]? = some o →
        applyOps fs (copypath ds fs src dp0) dp = some (.file o) := by
      intro i r dp o hi hfi hsj ho
      simp only [List.length_append, List.length_cons, List.length_nil] at hi
      by_cases hlt : i < pre.length
      · exact hk1 i r dp o hfi (hpad r (List.mem_of_getElem? hfi)) hsj ho (hdone i r dp o hlt hfi hsj ho)
      · have hi0 : i = pre.length := by omega
        subst hi0
        rw [hfi0] at hfi; injection hfi with hfi; subst hfi
        rw [hsj0] at hsj; injection hsj with hsj; subst hsj
        obtain ⟨i', r', o', h1, hp', h2, h3, h4⟩ := hdone1
        have := hsep pre.length i' r0 r' dp0 dp0 hfi0 h1 hpad0 hp' hsj0 h2 (List.prefix_refl _)
        subst this
        rw [ho] at h3; injection h3 with h3; subst h3
        exact h4
    obtain ⟨ih1, ih2, ih3⟩ := ih (pre ++ [r0]) _ hsplit' core1 hdone'
    simp only [matchV2, hl, hpick]
    refine ⟨by simp [ih1], ?_, ?_⟩
    · intro i r dp hfi hsj
      obtain ⟨o, ho, hfin⟩ := ih2 i r dp hfi hsj
      exact ⟨o, ho, by rw [applyOps_append]; exact hfin⟩
    · intro s d hm
      rcases List.mem_append.mp hm with hm | hm
      · exact hc1 s d hm
      · exact ih3 s d hm

/-- v2 / hybrid into a fresh destination: every record is counted (in order) and ends up as a
    regular file with the original contents at its accepted path -/
theorem matchV2_restores (rootOf : Bytes → Bytes) (ds : Nat) (fs0 : FS) (filemap : FileMap) (dest : Path)
    (files : List FileRec) (orig : List Bytes) (hd : CleanPath dest) (hr : DestReady fs0 dest)
    (hok : FilemapOK fs0 dest filemap) (hsep : DestsSeparate dest files)
    (hfresh : DestFresh fs0 dest files) (hpad : ∀ r ∈ files, r.pad = false)
    (hacc : ∀ r ∈ files, ∃ dp, safeJoin dest r.full = some dp)
    (hint : IntactV2All rootOf fs0 filemap files orig)
    (hnc : NoRootCollision rootOf fs0 filemap files orig) :
    (matchV2 rootOf ds filemap dest fs0 files).2 = files.map (·.full) ∧
    (∀ (i : Nat) (r : FileRec) (dp : Path), files[i]? = some r → safeJoin dest r.full = some dp →
      ∃ o, orig[i]? = some o ∧
        applyOps fs0 (matchV2 rootOf ds filemap dest fs0 files).1 dp = some (.file o)) ∧
    CopiesOrig fs0 dest files orig (matchV2 rootOf ds filemap dest fs0 files).1 := by
  have core0 : Core fs0 dest files orig fs0 := by
    refine ⟨hr, fun _ _ => rfl, ?_⟩
    intro i r d hfi hrp hsj
    exact Or.inl (hfresh r (List.mem_of_getElem? hfi) hrp d hsj)
  exact matchV2_loop rootOf ds fs0 filemap dest files orig hd hok hsep hpad hacc hint hnc files [] fs0
    rfl core0 (fun i _ _ _ hi => by simp at hi)

end Impl
end TorrentVerif

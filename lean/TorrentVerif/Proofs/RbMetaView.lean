import TorrentVerif.Proofs.RbMetaTree
/-
  The rebuilt destination as a content tree: after a rebuild into a fresh destination the
  filesystem shows, at `dest/<name>`, exactly the tree `t` without its file-less directories
  (`pruneNode t`) — a `Spec.ViewOf`.
-/
namespace TorrentVerif
open Rebuild PosixPath Spec Impl Listing

namespace RbMeta
open E2E RF

/-! ### the tree without directories that hold no regular file -/

mutual
/-- a regular file somewhere in the tree -/
def hasFile : Node → Bool
  | .file _ => true
  | .dir es => hasFileList es
def hasFileList : List (Bytes × Node) → Bool
  | [] => false
  | (_, c) :: t => hasFile c || hasFileList t
end

mutual
/-- the tree without the directories that hold no regular file (a rebuild creates a directory only
    on the way to a file) -/
def pruneNode : Node → Node
  | .file d => .file d
  | .dir es => .dir (pruneList es)
def pruneList : List (Bytes × Node) → List (Bytes × Node)
  | [] => []
  | (n, c) :: t => if hasFile c then (n, pruneNode c) :: pruneList t else pruneList t
end

theorem hasFileList_iff (es : List (Bytes × Node)) :
    hasFileList es = true ↔ ∃ x ∈ es, hasFile x.2 = true := by
  induction es with
  | nil => simp [hasFileList]
  | cons e t ih =>
    obtain ⟨n, c⟩ := e
    simp [hasFileList, ih]

theorem child_none_of_not_mem (es : List (Bytes × Node)) (n : Bytes) (h : n ∉ es.map (·.1)) :
    child (.dir es) n = none := by
  induction es with
  | nil => rfl
  | cons e t ih =>
    obtain ⟨m, c⟩ := e
    simp only [List.map_cons, List.mem_cons, not_or] at h
    have hm : ¬ m = n := fun e => h.1 e.symm
    have := ih h.2
    simp only [child, List.find?, hm, decide_false] at this ⊢
    exact this

theorem pruneList_names (es : List (Bytes × Node)) : ∀ n ∈ (pruneList es).map (·.1), n ∈ es.map (·.1) := by
  induction es with
  | nil => intro n h; simp [pruneList] at h
  | cons e t ih =>
    obtain ⟨m, c⟩ := e
    intro n h
    simp only [pruneList] at h
    split at h
    · simp only [List.map_cons, List.mem_cons] at h ⊢
      rcases h with h | h
      · exact Or.inl h
      · exact Or.inr (ih n h)
    · simp only [List.map_cons, List.mem_cons]
      exact Or.inr (ih n h)

/-- an entry of the pruned directory: the pruned entry, if that holds a file -/
theorem child_prune (es : List (Bytes × Node)) (hnd : (es.map (·.1)).Nodup) (n : Bytes) :
    child (.dir (pruneList es)) n
      = (child (.dir es) n).bind (fun c => if hasFile c then some (pruneNode c) else none) := by
  induction es with
  | nil => rfl
  | cons e t ih =>
    obtain ⟨m, c⟩ := e
    simp only [List.map_cons, List.nodup_cons] at hnd
    by_cases hm : m = n
    · subst hm
      have hc : child (.dir ((m, c) :: t)) m = some c := by simp [child, List.find?]
      rw [hc]
      simp only [Option.bind_some, pruneList]
      by_cases hf : hasFile c = true
      · simp [hf, child]
      · simp only [hf, Bool.false_eq_true, if_false]
        apply child_none_of_not_mem
        intro h
        exact hnd.1 (pruneList_names t m h)
    · have hc : child (.dir ((m, c) :: t)) n = child (.dir t) n := by
        simp [child, List.find?, hm]
      rw [hc, ← ih hnd.2]
      simp only [pruneList]
      split
      · simp [child, List.find?, hm]
      · rfl

theorem wellNamed_child {es : List (Bytes × Node)} (h : WellNamed (.dir es)) {n : Bytes} {c : Node}
    (hc : child (.dir es) n = some c) : WellNamed c := by
  simp only [WellNamed] at h
  exact (wellNamedList_mem h.1 (child_mem es n c hc)).2.2

/-- looking a path up in the pruned tree: the pruned node of the tree, if that holds a file -/
theorem lookup_prune : ∀ (cs : List Bytes) (t : Node), WellNamed t → hasFile t = true →
    lookup (pruneNode t) cs
      = (lookup t cs).bind (fun n => if hasFile n then some (pruneNode n) else none)
  | [], t, _, hf => by simp [lookup, hf]
  | c :: q, t, hwn, _ => by
    cases t with
    | file d => simp [pruneNode, lookup, child]
    | dir es =>
      have hnd : (es.map (·.1)).Nodup := by simp only [WellNamed] at hwn; exact hwn.2
      simp only [pruneNode, lookup, child_prune es hnd c]
      cases hc : child (.dir es) c with
      | none => simp
      | some x =>
        simp only [Option.bind_some]
        by_cases hfx : hasFile x = true
        · simp only [hfx, if_true]
          exact lookup_prune q x (wellNamed_child hwn hc) hfx
        · simp only [hfx, Bool.false_eq_true, if_false]
          -- nothing below `x` holds a file
          have : ∀ (q : List Bytes) (x : Node), hasFile x = false →
              (lookup x q).bind (fun n => if hasFile n then some (pruneNode n) else none) = none := by
            intro q
            induction q with
            | nil => intro x hx; simp [lookup, hx]
            | cons a r ih =>
              intro x hx
              cases x with
              | file d => simp [hasFile] at hx
              | dir es' =>
                simp only [lookup]
                cases ha : child (.dir es') a with
                | none => simp
                | some y =>
                  simp only
                  apply ih
                  cases hy : hasFile y with
                  | false => rfl
                  | true =>
                    exfalso
                    have : hasFileList es' = true :=
                      (hasFileList_iff es').mpr ⟨(a, y), child_mem es' a y ha, hy⟩
                    simp [hasFile, this] at hx
          exact (this q x (by simpa using hfx)).symm

/-- a path to a file passes through the node at every prefix -/
theorem fileAt_append : ∀ (cs q : List Bytes) (t : Node) (d : Bytes),
    fileAt t (cs ++ q) = some d ↔ ∃ n, lookup t cs = some n ∧ fileAt n q = some d
  | [], q, t, d => by simp [lookup]
  | c :: cs, q, t, d => by
    cases t with
    | file d0 => simp [fileAt, lookup, child]
    | dir es =>
      simp only [List.cons_append, fileAt, fileAtList_eq_child, lookup]
      cases hc : child (.dir es) c with
      | none => simp
      | some x =>
        simp only [Option.bind_some]
        exact fileAt_append cs q x d

mutual
theorem hasFile_of_fileAt : (t : Node) → ∀ q d, fileAt t q = some d → hasFile t = true
  | .file _, _, _, _ => rfl
  | .dir es, q, d, h => by
    cases q with
    | nil => simp [fileAt] at h
    | cons n q =>
      simp only [fileAt] at h
      simp only [hasFile]
      exact hasFileList_of_fileAtList es n q d h
theorem hasFileList_of_fileAtList : (es : List (Bytes × Node)) → ∀ n q d,
    fileAtList es n q = some d → hasFileList es = true
  | [], _, _, _, h => by simp [fileAtList] at h
  | (m, c) :: t, n, q, d, h => by
    simp only [fileAtList] at h
    simp only [hasFileList, Bool.or_eq_true]
    by_cases e : m = n
    · simp only [e, if_true] at h
      exact Or.inl (hasFile_of_fileAt c q d h)
    · simp only [e, if_false] at h
      exact Or.inr (hasFileList_of_fileAtList t n q d h)
end

mutual
theorem fileAt_of_hasFile : (t : Node) → WellNamed t → hasFile t = true → ∃ q d, fileAt t q = some d
  | .file d, _, _ => ⟨[], d, rfl⟩
  | .dir es, hwn, h => by
    simp only [WellNamed] at hwn
    simp only [hasFile] at h
    obtain ⟨n, q, d, hf⟩ := fileAtList_of_hasFileList es hwn.1 hwn.2 h
    exact ⟨n :: q, d, by simpa [fileAt] using hf⟩
theorem fileAtList_of_hasFileList : (es : List (Bytes × Node)) → WellNamedList es →
    (es.map (·.1)).Nodup → hasFileList es = true → ∃ n q d, fileAtList es n q = some d
  | [], _, _, h => by simp [hasFileList] at h
  | (m, c) :: t, hwn, hnd, h => by
    simp only [WellNamedList] at hwn
    simp only [List.map_cons, List.nodup_cons] at hnd
    simp only [hasFileList, Bool.or_eq_true] at h
    rcases h with h | h
    · obtain ⟨q, d, hf⟩ := fileAt_of_hasFile c hwn.2.2.1 h
      exact ⟨m, q, d, by simp [fileAtList, hf]⟩
    · obtain ⟨n, q, d, hf⟩ := fileAtList_of_hasFileList t hwn.2.2.2 hnd.2 h
      have hne : m ≠ n := by
        intro e; subst e
        exact hnd.1 (fileAtList_name t m q d hf)
      exact ⟨n, q, d, by simp [fileAtList, hne, hf]⟩
end

/-! ### the directories on the way to a copied file exist afterwards -/

theorem mkdirChain_has (fs : FS) (parts : List Comp) : ∀ (root : Path) (k : Nat), 0 < k →
    k ≤ parts.length → fs.ex (root ++ parts.take k) = false →
    Op.mkdir (root ++ parts.take k) ∈ mkdirChain fs root parts := by
  induction parts with
  | nil => intro root k h0 hk; simp at hk; omega
  | cons a r ih =>
    intro root k h0 hk hex
    simp only [mkdirChain, List.mem_append]
    cases k with
    | zero => omega
    | succ k' =>
      cases k' with
      | zero =>
        left
        simp only [List.take_succ_cons, List.take_zero] at hex ⊢
        simp [hex]
      | succ k'' =>
        right
        have := ih (root ++ [a]) (k'' + 1) (by omega) (by simp at hk; omega)
          (by simpa [List.append_assoc] using hex)
        simpa [List.append_assoc] using this

theorem mem_mkdir_present (ops : List Op) : ∀ (fs : FS) (p : Path), Op.mkdir p ∈ ops →
    (applyOps fs ops p).isSome = true := by
  induction ops with
  | nil => intro fs p h; simp at h
  | cons x xs ih =>
    intro fs p h
    rw [applyOps_cons]
    rcases List.mem_cons.mp h with h | h
    · subst h
      apply applyOps_ex
      simp [applyOp, FS.set]
    · exact ih _ p h

theorem copypath_prefix_present (ds : Nat) (fs : FS) (s d : Path) (hroot : (fs []).isSome = true)
    (h : Op.copy s d ∈ copypath ds fs s d) :
    ∀ p, p <+: d → p ≠ d → (applyOps fs (copypath ds fs s d) p).isSome = true := by
  intro p hp hne
  unfold copypath at h ⊢
  split
  · rename_i hg; rw [if_pos hg] at h; simp at h
  · rename_i hg
    rw [if_neg hg] at h
    split
    · rename_i he; rw [if_pos he] at h; simp at h
    · rename_i hde
      obtain ⟨k, rfl⟩ : ∃ k, p = d.take k := by
        obtain ⟨q, rfl⟩ := hp
        exact ⟨p.length, by simp⟩
      have hk : k < d.length := by
        apply Classical.byContradiction
        intro hk
        exact hne (List.take_of_length_le (by omega))
      by_cases hk0 : k = 0
      · subst hk0
        simp only [List.take_zero]
        exact applyOps_ex _ fs [] hroot
      · have htake : d.dropLast.take k = d.take k := by
          rw [List.dropLast_eq_take, List.take_take]
          congr 1
          omega
        by_cases hex : fs.ex (d.take k) = true
        · exact applyOps_ex _ fs _ hex
        · have hmem := mkdirChain_has fs d.dropLast [] k (by omega)
            (by simp [List.length_dropLast]; omega)
            (by simpa [htake] using hex)
          simp only [List.nil_append, htake] at hmem
          exact mem_mkdir_present _ fs _ (List.mem_append_left _ hmem)

theorem runCalls_prefix_present (ds : Nat) (calls : List (Path × Path)) :
    ∀ fs, (fs []).isSome = true → ∀ src dst, Op.copy src dst ∈ runCalls ds fs calls →
      ∀ p, p <+: dst → p ≠ dst → (applyOps fs (runCalls ds fs calls) p).isSome = true := by
  induction calls with
  | nil => intro fs _ src dst h; simp [runCalls] at h
  | cons c cs ih =>
    intro fs hroot src dst h p hp hne
    obtain ⟨s, d⟩ := c
    simp only [runCalls, List.mem_append] at h ⊢
    rw [applyOps_append]
    rcases h with h | h
    · obtain ⟨rfl, rfl⟩ := copypath_copy_mem h
      exact applyOps_ex _ _ _ (copypath_prefix_present ds fs src dst hroot h p hp hne)
    · exact ih _ (applyOps_ex _ fs [] hroot) src dst h p hp hne

theorem Run.prefix_present {ds : Nat} {G : FS → Path → Path → Prop} {fs : FS} {ops : List Op}
    (r : Run ds G fs ops) : (fs []).isSome = true → ∀ src dst, Op.copy src dst ∈ ops →
      ∀ p, p <+: dst → p ≠ dst → (applyOps fs ops p).isSome = true := by
  induction r with
  | nil fs => intro _ src dst h; simp at h
  | batch fs calls rest _ _ ih =>
    intro hroot src dst h p hp hne
    rw [applyOps_append]
    rcases List.mem_append.mp h with h | h
    · exact applyOps_ex _ _ _ (runCalls_prefix_present ds calls fs hroot src dst h p hp hne)
    · exact ih (applyOps_ex _ fs [] hroot) src dst h p hp hne

/-! ### what is at or below `dest/<name>` belongs to the tree -/

/-- everything the filesystem shows at or below `base` is a file of `t` with its bytes, or a
    directory on the way to one -/
def Sound (t : Node) (base : Path) (fs' : FS) : Prop :=
  ∀ cs, (∀ d, fs' (base ++ cs) = some (.file d) → fileAt t cs = some d) ∧
    (fs' (base ++ cs) = some .dir → ∃ q d, q ≠ [] ∧ fileAt t (cs ++ q) = some d)

theorem trace_sound (t : Node) (base : Path) (fs0 : FS) (ops : List Op) :
    (∀ p, Op.mkdir p ∈ ops → ∃ cs q d, q ≠ [] ∧ fileAt t (cs ++ q) = some d ∧ p = base ++ cs) →
    (∀ src dst, Op.copy src dst ∈ ops → ∃ cs d, fileAt t cs = some d ∧ dst = base ++ cs ∧
      fs0.readFile? src = some d ∧ ¬ base <+: src) →
    ∀ fs', Sound t base fs' → (∀ q, ¬ base <+: q → fs' q = fs0 q) →
      Sound t base (applyOps fs' ops) ∧
      ∀ cs d, applyOps fs' ops (base ++ cs) = some (.file d) →
        fs' (base ++ cs) = some (.file d) ∨ ∃ src, Op.copy src (base ++ cs) ∈ ops := by
  induction ops with
  | nil => intro _ _ fs' hs _; exact ⟨hs, fun cs d h => Or.inl h⟩
  | cons x xs ih =>
    intro hM hC fs' hs hag
    have hM' : ∀ p, Op.mkdir p ∈ xs → ∃ cs q d, q ≠ [] ∧ fileAt t (cs ++ q) = some d ∧ p = base ++ cs :=
      fun p hp => hM p (List.mem_cons_of_mem _ hp)
    have hC' : ∀ src dst, Op.copy src dst ∈ xs → ∃ cs d, fileAt t cs = some d ∧ dst = base ++ cs ∧
        fs0.readFile? src = some d ∧ ¬ base <+: src :=
      fun s d hp => hC s d (List.mem_cons_of_mem _ hp)
    rw [applyOps_cons]
    cases x with
    | mkdir p =>
      obtain ⟨cs0, q0, d0, hq0, hf0, rfl⟩ := hM p List.mem_cons_self
      have hs1 : Sound t base (applyOp fs' (.mkdir (base ++ cs0))) := by
        intro cs
        simp only [applyOp, FS.set]
        by_cases e : base ++ cs = base ++ cs0
        · have : cs = cs0 := List.append_cancel_left e
          subst this
          simp only [if_true]
          exact ⟨fun d h => (by cases h), fun _ => ⟨q0, d0, hq0, hf0⟩⟩
        · simp only [e, if_false]
          exact hs cs
      have hag1 : ∀ q, ¬ base <+: q → applyOp fs' (.mkdir (base ++ cs0)) q = fs0 q := by
        intro q hq
        simp only [applyOp, FS.set]
        have : q ≠ base ++ cs0 := by intro e; exact hq (e ▸ List.prefix_append _ _)
        simp only [this, if_false]
        exact hag q hq
      obtain ⟨h1, h2⟩ := ih hM' hC' _ hs1 hag1
      refine ⟨h1, ?_⟩
      intro cs d hfin
      rcases h2 cs d hfin with h | ⟨src, h⟩
      · simp only [applyOp, FS.set] at h
        by_cases e : base ++ cs = base ++ cs0
        · simp [e] at h
        · simp only [e, if_false] at h
          exact Or.inl h
      · exact Or.inr ⟨src, List.mem_cons_of_mem _ h⟩
    | copy src dst =>
      obtain ⟨cs0, d0, hf0, rfl, hread0, hout⟩ := hC src dst List.mem_cons_self
      have hread : fs'.readFile? src = some d0 := by
        unfold FS.readFile? at hread0 ⊢
        rw [hag src hout]; exact hread0
      have hnd : fs' (base ++ cs0) ≠ some .dir := by
        intro e
        obtain ⟨q, d, hq, hf⟩ := (hs cs0).2 e
        exact hq (fileAt_prefix cs0 q t d0 d hf0 hf)
      have happ : applyOp fs' (.copy src (base ++ cs0)) = fs'.set (base ++ cs0) (.file d0) := by
        simp only [applyOp, hread, Op.writes, if_neg hnd]
      rw [happ]
      have hs1 : Sound t base (fs'.set (base ++ cs0) (.file d0)) := by
        intro cs
        simp only [FS.set]
        by_cases e : base ++ cs = base ++ cs0
        · have : cs = cs0 := List.append_cancel_left e
          subst this
          simp only [if_true]
          exact ⟨fun d h => (by injection h with h; injection h with h; rw [← h]; exact hf0),
            fun h => (by cases h)⟩
        · simp only [e, if_false]
          exact hs cs
      have hag1 : ∀ q, ¬ base <+: q → (fs'.set (base ++ cs0) (.file d0)) q = fs0 q := by
        intro q hq
        simp only [FS.set]
        have : q ≠ base ++ cs0 := by intro e; exact hq (e ▸ List.prefix_append _ _)
        simp only [this, if_false]
        exact hag q hq
      obtain ⟨h1, h2⟩ := ih hM' hC' _ hs1 hag1
      refine ⟨h1, ?_⟩
      intro cs d hfin
      rcases h2 cs d hfin with h | ⟨src', h⟩
      · simp only [FS.set] at h
        by_cases e : base ++ cs = base ++ cs0
        · exact Or.inr ⟨src, by rw [e]; exact List.mem_cons_self⟩
        · simp only [e, if_false] at h
          exact Or.inl h
      · exact Or.inr ⟨src', List.mem_cons_of_mem _ h⟩

/-! ### the view -/

/-- after a trace of justified operations into a fresh `base = dest/<name>` that leaves every file
    of `t` in place, the filesystem shows exactly the pruned tree at `base` -/
theorem view_of_trace (t : Node) (hwn : WellNamed t) (hex : ∃ cs d, fileAt t cs = some d)
    (base : Path) (fs0 : FS) (ops : List Op) (hfresh : ∀ cs, fs0 (base ++ cs) = none)
    (hM : ∀ p, Op.mkdir p ∈ ops → ∃ cs q d, q ≠ [] ∧ fileAt t (cs ++ q) = some d ∧ p = base ++ cs)
    (hC : ∀ src dst, Op.copy src dst ∈ ops → ∃ cs d, fileAt t cs = some d ∧ dst = base ++ cs ∧
      fs0.readFile? src = some d ∧ ¬ base <+: src)
    (hfiles : ∀ cs d, fileAt t cs = some d → applyOps fs0 ops (base ++ cs) = some (.file d))
    (hpre : ∀ src dst, Op.copy src dst ∈ ops → ∀ p, p <+: dst → p ≠ dst →
      (applyOps fs0 ops p).isSome = true) :
    ViewOf (applyOps fs0 ops) base (pruneNode t) := by
  have hs0 : Sound t base fs0 := by
    intro cs; rw [hfresh cs]; exact ⟨fun d h => (by cases h), fun h => (by cases h)⟩
  obtain ⟨hsound, hwrote⟩ := trace_sound t base fs0 ops hM hC fs0 hs0 (fun _ _ => rfl)
  have hhas : hasFile t = true := by
    obtain ⟨cs, d, h⟩ := hex; exact hasFile_of_fileAt t cs d h
  intro cs
  rw [lookup_prune cs t hwn hhas]
  cases hl : lookup t cs with
  | none =>
    simp only [Option.bind_none, Option.map_none]
    cases hfin : applyOps fs0 ops (base ++ cs) with
    | none => rfl
    | some ob =>
      exfalso
      cases ob with
      | file d =>
        have := lookup_of_fileAt cs t d ((hsound cs).1 d hfin)
        rw [hl] at this; cases this
      | dir =>
        obtain ⟨q, d, _, hf⟩ := (hsound cs).2 hfin
        obtain ⟨n, hn, _⟩ := (fileAt_append cs q t d).mp hf
        rw [hl] at hn; cases hn
  | some n =>
    simp only [Option.bind_some]
    cases n with
    | file d =>
      simp only [hasFile, if_true, Option.map_some, pruneNode, objOf]
      exact hfiles cs d (fileAt_of_lookup cs t d hl)
    | dir es =>
      have hwn' : WellNamed (.dir es) := by
        -- the node at a path of a well-named tree is well named
        have : ∀ (cs : List Bytes) (t n : Node), WellNamed t → lookup t cs = some n → WellNamed n := by
          intro cs
          induction cs with
          | nil => intro t n h hl; simp only [lookup, Option.some.injEq] at hl; rw [← hl]; exact h
          | cons c q ih =>
            intro t n h hl
            cases t with
            | file d => simp [lookup, child] at hl
            | dir es' =>
              simp only [lookup] at hl
              cases hc : child (.dir es') c with
              | none => rw [hc] at hl; cases hl
              | some x => rw [hc] at hl; exact ih x n (wellNamed_child h hc) hl
        exact this cs t _ hwn hl
      by_cases hf : hasFile (.dir es) = true
      · simp only [hf, if_true, Option.map_some, pruneNode, objOf]
        obtain ⟨q, d, hq⟩ := fileAt_of_hasFile (.dir es) hwn' hf
        have hqne : q ≠ [] := by intro e; subst e; simp [fileAt] at hq
        have hfull : fileAt t (cs ++ q) = some d := (fileAt_append cs q t d).mpr ⟨_, hl, hq⟩
        have hfin := hfiles (cs ++ q) d hfull
        -- the file was copied, so the directories on the way exist
        have hcopy : ∃ src, Op.copy src (base ++ (cs ++ q)) ∈ ops := by
          rcases hwrote (cs ++ q) d hfin with h | h
          · rw [hfresh] at h; cases h
          · exact h
        obtain ⟨src, hcopy⟩ := hcopy
        have hsome := hpre src _ hcopy (base ++ cs) (by rw [← List.append_assoc]; exact List.prefix_append _ _)
          (by
            intro e
            have h1 : cs = cs ++ q := List.append_cancel_left e
            exact hqne (List.self_eq_append_right.mp h1))
        cases hfin' : applyOps fs0 ops (base ++ cs) with
        | none => rw [hfin'] at hsome; cases hsome
        | some ob =>
          cases ob with
          | dir => rfl
          | file d' =>
            exfalso
            have := lookup_of_fileAt cs t d' ((hsound cs).1 d' hfin')
            rw [hl] at this; cases this
      · simp only [hf, Bool.false_eq_true, if_false, Option.map_none]
        cases hfin : applyOps fs0 ops (base ++ cs) with
        | none => rfl
        | some ob =>
          exfalso
          cases ob with
          | file d =>
            have := lookup_of_fileAt cs t d ((hsound cs).1 d hfin)
            rw [hl] at this; cases this
          | dir =>
            obtain ⟨q, d, _, hfq⟩ := (hsound cs).2 hfin
            obtain ⟨n, hn, hnq⟩ := (fileAt_append cs q t d).mp hfq
            rw [hl] at hn; injection hn with hn; subst hn
            exact hf (hasFile_of_fileAt _ q d hnq)

/-- a directory created strictly below `dest` on the way to `dest/name/cs` is `dest/name/cs'` for a
    proper prefix `cs'` of `cs` -/
theorem mkdir_shape (dest : Path) (name : Bytes) (p : Path) (cs : List Bytes)
    (hb : StrictlyBelow dest p) (hp : p <+: dest ++ name :: cs) (hne : p ≠ dest ++ name :: cs) :
    ∃ cs' q, q ≠ [] ∧ cs = cs' ++ q ∧ p = (dest ++ [name]) ++ cs' := by
  obtain ⟨ext, hext, rfl⟩ := hb
  have hp' : ext <+: name :: cs := (List.prefix_append_right_inj dest).mp hp
  cases ext with
  | nil => exact absurd rfl hext
  | cons e cs' =>
    obtain ⟨rfl, hpre⟩ := List.cons_prefix_cons.mp hp'
    obtain ⟨q, rfl⟩ := hpre
    refine ⟨cs', q, ?_, rfl, by simp⟩
    intro hq; subst hq
    exact hne (by simp)

/-- the rebuilt destination as a tree, for any run of justified `copypath` calls whose targets are
    the destinations `dest/name/<path>` of files of `t` and whose copies carry those files' bytes -/
theorem view_of_run (ds : Nat) (G : FS → Path → Path → Prop) (t : Node) (hwn : WellNamed t)
    (hex : ∃ cs d, fileAt t cs = some d) (dest : Path) (name : Bytes) (fs0 : FS) (ops : List Op)
    (r : Run ds G fs0 ops) (hr : DestReady fs0 dest)
    (hG : ∀ fs s d, G fs s d → ∃ cs dd, fileAt t cs = some dd ∧ d = dest ++ name :: cs ∧ ¬ dest <+: s)
    (hcontent : ∀ src dst, Op.copy src dst ∈ ops → ∀ cs dd, fileAt t cs = some dd →
      dst = dest ++ name :: cs → fs0.readFile? src = some dd)
    (hfresh : ∀ cs, fs0 (dest ++ name :: cs) = none)
    (hfiles : ∀ cs d, fileAt t cs = some d → applyOps fs0 ops (dest ++ name :: cs) = some (.file d)) :
    ViewOf (applyOps fs0 ops) (dest ++ [name]) (pruneNode t) := by
  have hbelow := Run.opsBelow (dest := dest)
    (fun fs s d hg => by obtain ⟨cs, _, _, rfl, _⟩ := hG fs s d hg; exact List.prefix_append _ _) r hr
  have hbase : ∀ cs : List Bytes, (dest ++ [name]) ++ cs = dest ++ name :: cs := by intro cs; simp
  apply view_of_trace t hwn hex (dest ++ [name]) fs0 ops
  · intro cs; rw [hbase]; exact hfresh cs
  · intro p hp
    obtain ⟨pre, src, dst, _, hg, hpd, hpne⟩ := r.mkdir_mem hp
    obtain ⟨cs, dd, hf, rfl, _⟩ := hG _ _ _ hg
    obtain ⟨cs', q, hq, rfl, rfl⟩ := mkdir_shape dest name p cs (hbelow _ hp) hpd hpne
    exact ⟨cs', q, dd, hq, hf, rfl⟩
  · intro src dst hc
    obtain ⟨pre, _, hg⟩ := r.copy_mem hc
    obtain ⟨cs, dd, hf, rfl, hout⟩ := hG _ _ _ hg
    refine ⟨cs, dd, hf, (hbase cs).symm, hcontent src _ hc cs dd hf rfl, ?_⟩
    intro hpre
    exact hout ((List.prefix_append dest [name]).trans hpre)
  · intro cs d hf; rw [hbase]; exact hfiles cs d hf
  · exact RbMeta.Run.prefix_present r (destReady_ex_prefix hr List.nil_prefix)

end RbMeta
end TorrentVerif

import TorrentVerif.Model.Utf8
import TorrentVerif.Proofs.Listing
/-
  UTF-8 preserves order: comparing code point lists lexicographically (Python `str`) and
  comparing their UTF-8 encodings byte-wise (`Listing.leBytes`) give the same answer.

  Route: for code points `c < d` the two encodings first differ at a position where the
  encoding of `c` has the smaller byte (`DiffLt`; this contains prefix-freeness).  Different
  lengths differ in the first byte (the lead byte ranges 00–7F, C2–DF, E0–EF, F0–F4 are
  disjoint and ascending); equal lengths compare like the base-64 digits of the code point.
-/
namespace TorrentVerif
namespace Utf8
open Listing

/-! ### the four length classes -/

theorem encodeNat_1 (c : Nat) (h : c < 0x80) : encodeNat c = [c] := by
  simp [encodeNat, h]

theorem encodeNat_2 (c : Nat) (h0 : 0x80 ≤ c) (h : c < 0x800) :
    encodeNat c = [0xC0 + c / 64, 0x80 + c % 64] := by
  have : ¬ c < 0x80 := by omega
  simp [encodeNat, h, this]

theorem encodeNat_3 (c : Nat) (h0 : 0x800 ≤ c) (h : c < 0x10000) :
    encodeNat c = [0xE0 + c / 4096, 0x80 + c / 64 % 64, 0x80 + c % 64] := by
  have h1 : ¬ c < 0x80 := by omega
  have h2 : ¬ c < 0x800 := by omega
  simp [encodeNat, h, h1, h2]

theorem encodeNat_4 (c : Nat) (h0 : 0x10000 ≤ c) :
    encodeNat c = [0xF0 + c / 262144, 0x80 + c / 4096 % 64, 0x80 + c / 64 % 64, 0x80 + c % 64] := by
  have h1 : ¬ c < 0x80 := by omega
  have h2 : ¬ c < 0x800 := by omega
  have h3 : ¬ c < 0x10000 := by omega
  simp [encodeNat, h1, h2, h3]

theorem classes (c : Nat) :
    c < 0x80 ∨ (0x80 ≤ c ∧ c < 0x800) ∨ (0x800 ≤ c ∧ c < 0x10000) ∨ 0x10000 ≤ c := by omega

/-- every byte value of an encoding fits in a byte -/
theorem encodeNat_lt (c : Nat) (hc : c < 0x110000) : ∀ x ∈ encodeNat c, x < 256 := by
  rcases classes c with h | ⟨h0, h⟩ | ⟨h0, h⟩ | h0
  · rw [encodeNat_1 c h]; intro x hx; simp at hx; omega
  · rw [encodeNat_2 c h0 h]; intro x hx; simp at hx; omega
  · rw [encodeNat_3 c h0 h]; intro x hx; simp at hx; omega
  · rw [encodeNat_4 c h0]; intro x hx; simp at hx; omega

theorem encodeNat_ne_nil (c : Nat) : encodeNat c ≠ [] := by
  unfold encodeNat
  split
  · simp
  · split
    · simp
    · split <;> simp

/-- the first byte determines the length of the encoding -/
theorem lead_determines_length (c d : Nat) (hc : c < 0x110000) (hd : d < 0x110000)
    (h : (encodeNat c).head? = (encodeNat d).head?) :
    (encodeNat c).length = (encodeNat d).length := by
  rcases classes c with c1 | ⟨c0, c1⟩ | ⟨c0, c1⟩ | c0 <;>
  rcases classes d with d1 | ⟨d0, d1⟩ | ⟨d0, d1⟩ | d0 <;>
  simp only [encodeNat_1, encodeNat_2, encodeNat_3, encodeNat_4, *, List.head?_cons,
    Option.some.injEq, List.length_cons, List.length_nil] at h ⊢ <;> omega

/-! ### where two encodings first differ -/

/-- `e₁` and `e₂` agree up to some position, where `e₁` has the smaller value -/
def DiffLt (e₁ e₂ : List Nat) : Prop :=
  ∃ p x y r₁ r₂, e₁ = p ++ x :: r₁ ∧ e₂ = p ++ y :: r₂ ∧ x < y

theorem diffLt_head {x y : Nat} (r₁ r₂ : List Nat) (h : x < y) : DiffLt (x :: r₁) (y :: r₂) :=
  ⟨[], x, y, r₁, r₂, rfl, rfl, h⟩

theorem diffLt_cons {x y : Nat} {e₁ e₂ : List Nat} (hxy : x = y) (h : DiffLt e₁ e₂) :
    DiffLt (x :: e₁) (y :: e₂) := by
  subst hxy
  obtain ⟨p, a, b, r₁, r₂, h1, h2, h3⟩ := h
  exact ⟨x :: p, a, b, r₁, r₂, by simp [h1], by simp [h2], h3⟩

/-- for code points `c < d` the encodings first differ where the one of `c` is smaller -/
theorem encodeNat_diffLt (c d : Nat) (h : c < d) : DiffLt (encodeNat c) (encodeNat d) := by
  rcases classes c with c1 | ⟨c0, c1⟩ | ⟨c0, c1⟩ | c0 <;>
  rcases classes d with d1 | ⟨d0, d1⟩ | ⟨d0, d1⟩ | d0 <;>
  (try (exfalso; omega))
  -- 1-1
  · rw [encodeNat_1 c c1, encodeNat_1 d d1]; exact diffLt_head _ _ h
  · rw [encodeNat_1 c c1, encodeNat_2 d d0 d1]; exact diffLt_head _ _ (by omega)
  · rw [encodeNat_1 c c1, encodeNat_3 d d0 d1]; exact diffLt_head _ _ (by omega)
  · rw [encodeNat_1 c c1, encodeNat_4 d d0]; exact diffLt_head _ _ (by omega)
  -- 2-2
  · rw [encodeNat_2 c c0 c1, encodeNat_2 d d0 d1]
    by_cases h1 : c / 64 < d / 64
    · exact diffLt_head _ _ (by omega)
    · exact diffLt_cons (by omega) (diffLt_head _ _ (by omega))
  · rw [encodeNat_2 c c0 c1, encodeNat_3 d d0 d1]; exact diffLt_head _ _ (by omega)
  · rw [encodeNat_2 c c0 c1, encodeNat_4 d d0]; exact diffLt_head _ _ (by omega)
  -- 3-3
  · rw [encodeNat_3 c c0 c1, encodeNat_3 d d0 d1]
    by_cases h1 : c / 4096 < d / 4096
    · exact diffLt_head _ _ (by omega)
    · by_cases h2 : c / 64 % 64 < d / 64 % 64
      · exact diffLt_cons (by omega) (diffLt_head _ _ (by omega))
      · exact diffLt_cons (by omega) (diffLt_cons (by omega) (diffLt_head _ _ (by omega)))
  · rw [encodeNat_3 c c0 c1, encodeNat_4 d d0]; exact diffLt_head _ _ (by omega)
  -- 4-4
  · rw [encodeNat_4 c c0, encodeNat_4 d d0]
    by_cases h1 : c / 262144 < d / 262144
    · exact diffLt_head _ _ (by omega)
    · by_cases h2 : c / 4096 % 64 < d / 4096 % 64
      · exact diffLt_cons (by omega) (diffLt_head _ _ (by omega))
      · by_cases h3 : c / 64 % 64 < d / 64 % 64
        · exact diffLt_cons (by omega) (diffLt_cons (by omega) (diffLt_head _ _ (by omega)))
        · exact diffLt_cons (by omega) (diffLt_cons (by omega)
            (diffLt_cons (by omega) (diffLt_head _ _ (by omega))))

/-! ### transfer to bytes -/

theorem ofNat_lt (n m : Nat) (hn : n < 256) (hm : m < 256) :
    UInt8.ofNat n < UInt8.ofNat m ↔ n < m := by
  rw [UInt8.lt_iff_toNat_lt]
  simp [UInt8.toNat_ofNat', Nat.mod_eq_of_lt hn, Nat.mod_eq_of_lt hm]

/-- if the byte values first differ with `e₁` smaller, then `e₁ ++ A` sorts strictly before
    `e₂ ++ B`, whatever follows -/
theorem leBytes_of_diffLt (e₁ e₂ : List Nat) (h₁ : ∀ x ∈ e₁, x < 256) (h₂ : ∀ x ∈ e₂, x < 256)
    (h : DiffLt e₁ e₂) (A B : Bytes) :
    leBytes (e₁.map UInt8.ofNat ++ A) (e₂.map UInt8.ofNat ++ B) = true ∧
    leBytes (e₂.map UInt8.ofNat ++ B) (e₁.map UInt8.ofNat ++ A) = false := by
  obtain ⟨p, x, y, r₁, r₂, rfl, rfl, hxy⟩ := h
  have hx : x < 256 := h₁ x (by simp)
  have hy : y < 256 := h₂ y (by simp)
  have hlt : UInt8.ofNat x < UInt8.ofNat y := (ofNat_lt x y hx hy).mpr hxy
  have hnlt : ¬ UInt8.ofNat y < UInt8.ofNat x := by
    rw [ofNat_lt y x hy hx]; omega
  simp only [List.map_append, List.map_cons, List.append_assoc, List.cons_append,
    leBytes_append_left]
  constructor
  · simp [leBytes, hlt]
  · simp [leBytes, hlt, hnlt]

theorem encodeStr_cons (c : Nat) (s : List Nat) : encodeStr (c :: s) = encode c ++ encodeStr s := by
  simp [encodeStr]

theorem encode_ne_nil (c : Nat) : encode c ≠ [] := by
  simp [encode, encodeNat_ne_nil]

/-- byte order of the encodings = code point order, for code points below 0x110000
    (surrogates included: the generalised encoding is order preserving too) -/
theorem leBytes_encodeStr (a : List Nat) : ∀ b : List Nat, (∀ c ∈ a, c < 0x110000) →
    (∀ c ∈ b, c < 0x110000) → leBytes (encodeStr a) (encodeStr b) = leCode a b := by
  induction a with
  | nil => intro b _ _; simp [encodeStr, leBytes, leCode]
  | cons c as ih =>
    intro b ha hb
    cases b with
    | nil =>
      rw [encodeStr_cons]
      cases he : encode c with
      | nil => exact absurd he (encode_ne_nil c)
      | cons x r => simp [encodeStr, leBytes, leCode]
    | cons d bs =>
      have hc := ha c (by simp)
      have hd := hb d (by simp)
      rw [encodeStr_cons, encodeStr_cons]
      rcases Nat.lt_trichotomy c d with h | h | h
      · have := (leBytes_of_diffLt _ _ (encodeNat_lt c hc) (encodeNat_lt d hd)
          (encodeNat_diffLt c d h) (encodeStr as) (encodeStr bs)).1
        simp only [encode, leCode, h, if_true]
        exact this
      · subst h
        rw [leBytes_append_left, ih bs (fun x hx => ha x (List.mem_cons_of_mem _ hx))
          (fun x hx => hb x (List.mem_cons_of_mem _ hx))]
        simp [leCode]
      · have := (leBytes_of_diffLt _ _ (encodeNat_lt d hd) (encodeNat_lt c hc)
          (encodeNat_diffLt d c h) (encodeStr bs) (encodeStr as)).2
        have h' : ¬ c < d := by omega
        simp only [encode, leCode, h, h', if_true, if_false]
        exact this

theorem scalar_lt {c : Nat} (h : Scalar c) : c < 0x110000 := by
  unfold Scalar at h; omega

/-- no encoding is a proper prefix of another: a decoder never has to look ahead -/
theorem encode_prefix_free (c d : Nat) (hc : c < 0x110000) (hd : d < 0x110000)
    (h : encode c <+: encode d) : c = d := by
  obtain ⟨t, ht⟩ := h
  rcases Nat.lt_trichotomy c d with hlt | heq | hlt
  · exfalso
    have := (leBytes_of_diffLt _ _ (encodeNat_lt c hc) (encodeNat_lt d hd)
      (encodeNat_diffLt c d hlt) t []).2
    simp only [List.append_nil] at this
    change leBytes (encode d) (encode c ++ t) = false at this
    rw [ht, leBytes_refl] at this
    exact absurd this (by simp)
  · exact heq
  · exfalso
    have := (leBytes_of_diffLt _ _ (encodeNat_lt d hd) (encodeNat_lt c hc)
      (encodeNat_diffLt d c hlt) [] t).2
    simp only [List.append_nil] at this
    change leBytes (encode c ++ t) (encode d) = false at this
    rw [ht, leBytes_refl] at this
    exact absurd this (by simp)

theorem leCode_antisymm (a : List Nat) : ∀ b, leCode a b = true → leCode b a = true → a = b := by
  induction a with
  | nil => intro b _ h; cases b with | nil => rfl | cons _ _ => simp [leCode] at h
  | cons x xs ih =>
    intro b h1 h2
    cases b with
    | nil => simp [leCode] at h1
    | cons y ys =>
      simp only [leCode] at h1 h2
      by_cases hxy : x < y
      · have : ¬ y < x := by omega
        simp [hxy, this] at h2
      · by_cases hyx : y < x
        · simp [hxy, hyx] at h1
        · have : x = y := by omega
          subst this
          simp only [hxy, if_false] at h1 h2
          rw [ih ys h1 h2]

end Utf8
end TorrentVerif

import TorrentVerif.Proofs.Meta
/-
  What `MetaFile.__init__` and the `assemble` methods build: good dictionaries with the
  required keys; hence `write` emits a canonical, well-formed metafile.
-/
namespace TorrentVerif
open Impl Spec

theorem canon_announceOf (a : SL) : canon (announceOf a).2 = true := by
  unfold announceOf
  cases a with
  | none => rfl
  | str s => by_cases h : s = [] <;> simp [SL.truthy, h] <;> rfl
  | list l =>
    by_cases h : l = []
    · simp [SL.truthy, h]; rfl
    · simp only [SL.truthy, ne_eq, h, not_false_eq_true, decide_true, Bool.not_true,
        Bool.false_eq_true, if_false]
      exact canon_list1 _ (canon_strs l)

theorem canon_SL_toB (a : SL) : canon a.toB = true := by
  cases a with
  | none => rfl
  | str s => rfl
  | list l => exact canon_strs l

theorem metaDicts_info_good (o : CreateOpts) : Good (metaDicts o).info := by
  unfold metaDicts
  exact ((((Good.nil.setIf _ _ _ rfl).setIf _ _ _ rfl).setIf _ _ _ rfl).set _ _ rfl).set _ _ rfl

theorem metaDicts_top_good (o : CreateOpts) : Good (metaDicts o).top := by
  unfold metaDicts
  have h0 : Good [(K.createdBy, BVal.str o.createdBy), (K.creationDate, .int o.creationDate),
      (K.info, .dict [])] := by
    refine ⟨by simp only [keys, List.map]; decide, ?_⟩
    intro kv hkv
    simp only [List.mem_cons, List.not_mem_nil, or_false] at hkv
    rcases hkv with e | e | e <;> rw [e] <;> rfl
  exact (((h0.setIf _ _ _ rfl).setIf _ _ _ (canon_announceOf _)).setIf _ _ _
    (canon_SL_toB _)).setIf _ _ _ (canon_SL_toB _)

theorem metaDicts_top_noLayers (o : CreateOpts) : dictGet (metaDicts o).top K.pieceLayers = none := by
  unfold metaDicts
  ksimp [dictGet_setIf, dictGet]

theorem metaDicts_info_name (o : CreateOpts) :
    dictGet (metaDicts o).info K.name = some (.str o.name) := by
  unfold metaDicts
  ksimp [dictGet_dictSet]

theorem metaDicts_info_pieceLength (o : CreateOpts) :
    dictGet (metaDicts o).info K.pieceLength = some (.int o.pieceLength) := by
  unfold metaDicts
  ksimp [dictGet_dictSet]

/-! ### the assembled value, sorted -/

theorem value_get_info (top info : Dict) :
    (MetaB.value ⟨top, info⟩).get? K.info = some (.dict info) := by
  simp [MetaB.value, BVal.get?, dictGet_dictSet_same]

theorem value_get_other (top info : Dict) (k : Bytes) (h : K.info ≠ k) :
    (MetaB.value ⟨top, info⟩).get? k = dictGet top k := by
  simp [MetaB.value, BVal.get?, dictGet_dictSet_other _ _ _ _ h]

/-- the assembled metafile is sorted into a canonical value -/
theorem assemble_canon (top info : Dict) (hn : (keys top).Nodup)
    (hv : ∀ kv ∈ top, kv.1 ≠ K.pieceLayers → canon kv.2 = true) (hinfo : Good info)
    (hl : ∀ v, dictGet top K.pieceLayers = some v → ∃ l, v = .dict l ∧ Good l) :
    ∃ r, sortMeta (MetaB.value ⟨top, info⟩) = some r ∧ canon r = true := by
  unfold MetaB.value
  apply sortMeta_canon _ info (dictGet_dictSet_same _ _ _) (nodup_keys_dictSet _ _ _ hn) hinfo
  · intro kv hkv h1 h2
    rcases mem_dictSet _ _ _ kv hkv with e | e
    · rw [e] at h1; exact absurd rfl h1
    · exact hv kv e h2
  · intro v hv'
    rw [dictGet_dictSet_other _ _ _ _ (by decide)] at hv'
    exact hl v hv'

theorem assemble_infoGet (top info : Dict) (r : BVal)
    (h : sortMeta (MetaB.value ⟨top, info⟩) = some r) (k : Bytes) :
    r.infoGet? k = dictGet info k := by
  rw [sortMeta_infoGet _ r h k]
  unfold BVal.infoGet?
  rw [value_get_info]; rfl

theorem assemble_layers (top info : Dict) (r : BVal)
    (h : sortMeta (MetaB.value ⟨top, info⟩) = some r) :
    r.get? K.pieceLayers = (dictGet top K.pieceLayers).map sortVal := by
  rw [sortMeta_get _ r h K.pieceLayers, value_get_other _ _ _ (by decide)]
  simp

theorem isLayers_sorted (layers : List (Bytes × Bytes))
    (h : ∀ kv ∈ layers, kv.2.length % 32 = 0) :
    isLayers (some (sortVal (.dict (layersDict layers)))) = true := by
  simp only [sortVal, isLayers, List.all_eq_true]
  intro kv hkv
  rw [mem_sortDict] at hkv
  exact layersDict_vals layers (fun v => isHashes 32 (some v) = true)
    (fun x hx => by simp [isHashes, h x hx]) kv hkv

theorem isDict_treeOf (name : Bytes) (single : Bool) (tree : BVal)
    (h : single = false → isDict (some tree) = true) : isDict (some (treeOf name single tree)) = true := by
  unfold treeOf
  cases single
  · simpa using h rfl
  · rfl

theorem canon_treeOf (name : Bytes) (single : Bool) (tree : BVal) (h : canon tree = true) :
    canon (treeOf name single tree) = true := by
  unfold treeOf
  cases single
  · simpa using h
  · simp only [if_true]
    rw [canon_dict]
    refine ⟨rfl, ?_⟩
    intro kv hkv; simp at hkv; rw [hkv]; exact h

end TorrentVerif
